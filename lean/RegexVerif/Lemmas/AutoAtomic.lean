/-
Soundness of the certifier of `Model/AutoAtomic.lean` with respect to the specification `Spec.m`:
the syntactic tests `ks`/`totalS`/`atMostOneS` imply the semantic side conditions
`Kills`/`Stays`/"always succeeds"/`AtMostOne` of `Lemmas/Rewrites.lean`, and the tree walk `cert`
establishes `EqMod` (same successes except at the dead positions of the pending sites) together
with `HeadEq` (same first success) for the pair of trees.
-/
import RegexVerif.Model.AutoAtomic
import RegexVerif.Lemmas.Rewrites

namespace RegexVerif.AutoAtomic
open RegexVerif.Spec

/-- what the two oracle bits mean -/
structure Oracle.Sound (e : Env) (o : Oracle) : Prop where
  disj : ∀ p q, o.disj p q = true → ∀ r, p.test e r = true → q.test e r = false
  uni : ∀ p, o.uni p = true → ∀ r r', p.test e r = true → p.test e r' = true → e.isWord r = e.isWord r'

/-- the dead positions of a site -/
def siteDead (e : Env) : Site → Nat → Bool
  | .acc p, i => acc e p i
  | .btw p, i => prevAcc e p i && acc e p i
  | .top, _ => true

/-- the dead positions of a list of pending sites -/
def dead (e : Env) (S : List Site) (i : Nat) : Bool := S.any (fun s => siteDead e s i)

theorem dead_nil (e : Env) : dead e [] = fun _ => false := by
  funext i; simp [dead]

theorem dead_cons (e : Env) (s : Site) (S : List Site) (i : Nat) :
    dead e (s :: S) i = (siteDead e s i || dead e S i) := by
  simp [dead]

theorem dead_append (e : Env) (S T : List Site) (i : Nat) :
    dead e (S ++ T) i = (dead e S i || dead e T i) := by
  simp [dead, List.any_append]

theorem dead_of_mem {e : Env} {S : List Site} {s : Site} (hs : s ∈ S) {i : Nat} (h : siteDead e s i = true) :
    dead e S i = true := by
  simp only [dead, List.any_eq_true]
  exact ⟨s, hs, h⟩

/-! ## the oracle bits -/

theorem disjoint_sound {e : Env} {o : Oracle} (hs : o.Sound e) {p q : Pred} (h : o.disjoint p q = true) :
    ∀ r, p.test e r = true → q.test e r = false := by
  unfold Oracle.disjoint at h
  rw [Bool.or_eq_true] at h
  rcases h with h | h
  · intro r hr
    unfold nativeDisj at h
    split at h
    · simp only [bne_iff_ne, ne_eq] at h
      simp only [Pred.test, Bool.false_eq_true, if_false, beq_iff_eq, beq_eq_false_iff_ne, ne_eq] at hr ⊢
      omega
    · simp only [beq_iff_eq] at h
      simp only [Pred.test, Bool.false_eq_true, if_false, beq_iff_eq, Bool.not_eq_false'] at hr ⊢
      omega
    · simp only [beq_iff_eq] at h
      simp only [Pred.test, Bool.false_eq_true, if_false, Bool.not_eq_true', beq_eq_false_iff_ne, ne_eq] at hr ⊢
      omega
    · cases h
  · exact hs.disj p q h

theorem uniform_sound {e : Env} {o : Oracle} (hs : o.Sound e) {p : Pred} (h : o.uniform p = true) :
    ∀ r r', p.test e r = true → p.test e r' = true → e.isWord r = e.isWord r' := by
  unfold Oracle.uniform at h
  split at h
  · intro r r' hr hr'
    simp only [Pred.test, Bool.false_eq_true, if_false, beq_iff_eq] at hr hr'
    rw [← hr, ← hr']
  · exact hs.uni _ h

/-! ## continuations -/

theorem btw_le_acc (e : Env) (p : Pred) (i : Nat) (h : (prevAcc e p i && acc e p i) = true) : acc e p i = true := by
  rw [Bool.and_eq_true] at h; exact h.2

/-- `\b` fails between two runes accepted by a test whose runes are all of the same kind -/
theorem kills_boundary_uniform {e : Env} {p : Pred}
    (hw : ∀ r r', p.test e r = true → p.test e r' = true → e.isWord r = e.isWord r') :
    Kills e (fun i => prevAcc e p i && acc e p i) (.anchor .boundary) := by
  intro st hd
  simp only [Bool.and_eq_true, prevAcc, bne_iff_ne, ne_eq] at hd
  obtain ⟨⟨h0, hp⟩, ha⟩ := hd
  unfold acc at hp ha
  cases hx : e.text[st.pos]? with
  | none => rw [hx] at ha; simp at ha
  | some r =>
    cases hy : e.text[st.pos - 1]? with
    | none => rw [hy] at hp; simp at hp
    | some q =>
      rw [hx] at ha; rw [hy] at hp
      simp [m, anchorHolds, h0, hx, hy, hw q r hp ha]

theorem killsChr_sound {e : Env} {o : Oracle} (hs : o.Sound e) {s : Site} {q : Pred}
    (h : killsChr o s q = true) : Kills e (siteDead e s) (.chr q) := by
  cases s with
  | acc p => exact kills_chr (disjoint_sound hs h)
  | btw p => exact (kills_chr (disjoint_sound hs h)).mono (btw_le_acc e p)
  | top => cases h

theorem kills_of_not_acc_nl {e : Env} {p : Pred} (h : ∀ r, p.test e r = true → (Pred.one 10 false).test e r = false) :
    p.test e 10 = false := by
  cases hp : p.test e 10
  · rfl
  · have := h 10 hp
    simp [Pred.test] at this

theorem killsAnchor_sound {e : Env} {o : Oracle} (hs : o.Sound e) {s : Site} {a : Anchor}
    (h : killsAnchor o s a = true) : Kills e (siteDead e s) (.anchor a) := by
  cases s with
  | acc p =>
    cases a <;> simp only [killsAnchor, Bool.false_eq_true] at h
    · exact kills_eol (kills_of_not_acc_nl (disjoint_sound hs h))
    · exact kills_endz (kills_of_not_acc_nl (disjoint_sound hs h))
    · exact kills_end e p
  | btw p =>
    cases a <;> simp only [killsAnchor, Bool.false_eq_true] at h
    · exact (kills_eol (kills_of_not_acc_nl (disjoint_sound hs h))).mono (btw_le_acc e p)
    · exact kills_boundary_uniform (uniform_sound hs h)
    · exact (kills_endz (kills_of_not_acc_nl (disjoint_sound hs h))).mono (btw_le_acc e p)
    · exact (kills_end e p).mono (btw_le_acc e p)
  | top => cases a <;> cases h

theorem kills_exprCond {e : Env} {D : Nat → Bool} {k1 k2 : Pat} (c : Pat) (h1 : Kills e D k1) (h2 : Kills e D k2) :
    Kills e D (.exprCond c k1 k2) := by
  intro st hd
  simp only [m]
  split
  · exact h1 _ hd
  · exact h2 st hd

theorem stays_refCond {e : Env} {D : Nat → Bool} {k1 k2 : Pat} (g : Nat) (h1 : Stays e D k1) (h2 : Stays e D k2) :
    Stays e D (.refCond g k1 k2) := by
  intro st hd t ht
  simp only [m] at ht
  split at ht
  · exact h1 st hd t ht
  · exact h2 st hd t ht

theorem stays_exprCond {e : Env} {D : Nat → Bool} {k1 k2 : Pat} (c : Pat) (h1 : Stays e D k1) (h2 : Stays e D k2) :
    Stays e D (.exprCond c k1 k2) := by
  intro st hd t ht
  simp only [m] at ht
  split at ht
  · rename_i st' _ _
    exact h1 ⟨st.pos, st'.caps⟩ hd t ht
  · exact h2 st hd t ht

/-- **the syntactic continuation tests are sound**: `kills` implies `Kills`, `stays` implies `Stays` -/
theorem ks_sound {e : Env} {o : Oracle} (hs : o.Sound e) (s : Site) :
    ∀ k : Pat, ((ks o s k).1 = true → Kills e (siteDead e s) k) ∧ ((ks o s k).2 = true → Stays e (siteDead e s) k) := by
  intro k
  induction k with
  | empty => exact ⟨fun h => by simp [ks] at h, fun _ => stays_empty e _⟩
  | nothing => exact ⟨fun _ => kills_nothing e _, fun _ => (kills_nothing e _).stays⟩
  | chr q => exact ⟨fun h => killsChr_sound hs h, fun h => (killsChr_sound hs h).stays⟩
  | anchor a => exact ⟨fun h => killsAnchor_sound hs h, fun _ => stays_anchor e _ a⟩
  | seq a b iha ihb =>
    have hk : (ks o s (.seq a b)).1 = true → Kills e (siteDead e s) (.seq a b) := by
      intro h
      simp only [ks, Bool.or_eq_true, Bool.and_eq_true] at h
      rcases h with h | ⟨h1, h2⟩
      · exact kills_seq_first b (iha.1 h)
      · exact kills_seq_stays (iha.2 h1) (ihb.1 h2)
    refine ⟨hk, fun h => ?_⟩
    simp only [ks, Bool.or_eq_true, Bool.and_eq_true] at h
    rcases h with h | ⟨h1, h2⟩
    · exact (hk (by simpa only [ks, Bool.or_eq_true, Bool.and_eq_true] using h)).stays
    · exact stays_seq (iha.2 h1) (ihb.2 h2)
  | alt a b iha ihb =>
    refine ⟨fun h => ?_, fun h => ?_⟩ <;> simp only [ks, Bool.and_eq_true] at h
    · exact kills_alt (iha.1 h.1) (ihb.1 h.2)
    · exact stays_alt (iha.2 h.1) (ihb.2 h.2)
  | quant lzy lo hi b ih =>
    refine ⟨fun h => ?_, fun h => ?_⟩ <;> simp only [ks, Bool.and_eq_true, decide_eq_true_eq] at h
    · exact kills_quant lzy hi h.1 (ih.1 h.2)
    · exact stays_quant lzy lo hi (ih.1 h)
  | cap g b ih => exact ⟨fun h => kills_cap g (ih.1 h), fun h => stays_cap g (ih.2 h)⟩
  | look behind neg b ih =>
    refine ⟨fun h => ?_, fun _ => stays_look e _ behind neg b⟩
    simp only [ks, Bool.and_eq_true, Bool.not_eq_true'] at h
    obtain ⟨⟨h1, h2⟩, h3⟩ := h
    subst h1 h2
    exact kills_lookahead (ih.1 h3)
  | atomic b ih => exact ⟨fun h => kills_atomic (ih.1 h), fun h => stays_atomic (ih.2 h)⟩
  | ref g ci => exact ⟨fun h => by simp [ks] at h, fun h => by simp [ks] at h⟩
  | refCond g y n ihy ihn =>
    refine ⟨fun h => ?_, fun h => ?_⟩ <;> simp only [ks, Bool.and_eq_true] at h
    · exact kills_refCond g (ihy.1 h.1) (ihn.1 h.2)
    · exact stays_refCond g (ihy.2 h.1) (ihn.2 h.2)
  | exprCond c y n _ ihy ihn =>
    refine ⟨fun h => ?_, fun h => ?_⟩ <;> simp only [ks, Bool.and_eq_true] at h
    · exact kills_exprCond c (ihy.1 h.1) (ihn.1 h.2)
    · exact stays_exprCond c (ihy.2 h.1) (ihn.2 h.2)

/-- `k` has a success from every state (left-to-right) -/
def Total (e : Env) (k : Pat) : Prop := ∀ st, m e k false st ≠ []

theorem iter_ne_nil_of_lo_zero (f : St → List St) (lzy : Bool) (hi : Option Nat) (fuel cnt : Nat) (st : St) :
    iter f lzy 0 hi fuel cnt st ≠ [] := by
  cases fuel with
  | zero => simp [iter]
  | succ fuel => cases lzy <;> simp [iter]

theorem totalS_sound (e : Env) : ∀ k : Pat, totalS k = true → Total e k := by
  intro k
  induction k with
  | empty => intro _ st; simp [m]
  | seq a b iha ihb =>
    intro h st
    simp only [totalS, Bool.and_eq_true] at h
    simp only [m, Bool.false_eq_true, if_false]
    cases ha : m e a false st with
    | nil => exact absurd ha (iha h.1 st)
    | cons y ys =>
      simp only [List.flatMap_cons]
      intro hc
      exact ihb h.2 y (List.append_eq_nil_iff.mp hc).1
  | alt a b iha ihb =>
    intro h st
    simp only [totalS, Bool.or_eq_true] at h
    simp only [m]
    intro hc
    rcases h with h | h
    · exact iha h st (List.append_eq_nil_iff.mp hc).1
    · exact ihb h st (List.append_eq_nil_iff.mp hc).2
  | quant lzy lo hi b _ =>
    intro h st
    simp only [totalS, beq_iff_eq] at h
    subst h
    rw [m_quant]
    exact iter_ne_nil_of_lo_zero _ _ _ _ _ _
  | cap g b ih =>
    intro h st
    simp only [totalS] at h
    simp only [m, ne_eq, List.map_eq_nil_iff]
    exact ih h st
  | atomic b ih =>
    intro h st
    simp only [totalS] at h
    rw [m_atomic]
    cases hb : m e b false st with
    | nil => exact absurd hb (ih h st)
    | cons y ys => simp
  | refCond g y n ihy ihn =>
    intro h st
    simp only [totalS, Bool.and_eq_true] at h
    simp only [m]
    split
    · exact ihy h.1 st
    · exact ihn h.2 st
  | exprCond c y n _ ihy ihn =>
    intro h st
    simp only [totalS, Bool.and_eq_true] at h
    simp only [m]
    split
    · exact ihy h.1 _
    · exact ihn h.2 st
  | nothing => intro h; simp [totalS] at h
  | chr q => intro h; simp [totalS] at h
  | anchor a => intro h; simp [totalS] at h
  | look bh ng b _ => intro h; simp [totalS] at h
  | ref g ci => intro h; simp [totalS] at h

theorem atMostOneS_sound (e : Env) (rtl : Bool) : ∀ k : Pat, atMostOneS k = true → AtMostOne e rtl k := by
  intro k
  induction k with
  | empty => intro _; exact atMostOne_empty e rtl
  | nothing => intro _; exact atMostOne_nothing e rtl
  | chr q => intro _; exact atMostOne_chr e rtl q
  | anchor a => intro _; exact atMostOne_anchor e rtl a
  | ref g ci => intro _; exact atMostOne_ref e rtl g ci
  | atomic b _ => intro _; exact atMostOne_atomic e rtl b
  | look bh ng b _ => intro _; exact atMostOne_look e rtl bh ng b
  | seq a b iha ihb =>
    intro h
    simp only [atMostOneS, Bool.and_eq_true] at h
    exact atMostOne_seq (iha h.1) (ihb h.2)
  | cap g b ih => intro h; exact atMostOne_cap g (ih h)
  | alt a b _ _ => intro h; simp [atMostOneS] at h
  | quant lzy lo hi b _ => intro h; simp [atMostOneS] at h
  | refCond g y n _ _ => intro h; simp [atMostOneS] at h
  | exprCond c y n _ _ _ => intro h; simp [atMostOneS] at h

/-- the continuation made of a list of items -/
theorem contKills_sound {e : Env} {o : Oracle} (hs : o.Sound e) (s : Site) :
    ∀ K : List Pat, contKills o s K = true → Kills e (siteDead e s) (seqOf K)
  | [], h => by simp [contKills] at h
  | [k], h => by
    simp only [contKills, Bool.and_false, Bool.or_false] at h
    exact (ks_sound hs s k).1 h
  | k :: b :: rest, h => by
    simp only [contKills, Bool.or_eq_true, Bool.and_eq_true] at h
    simp only [seqOf]
    rcases h with h | ⟨h1, h2⟩
    · exact kills_seq_first _ ((ks_sound hs s k).1 h)
    · refine kills_seq_stays ((ks_sound hs s k).2 h1) (contKills_sound hs s (b :: rest) ?_)
      simpa only [contKills, Bool.or_eq_true, Bool.and_eq_true] using h2

theorem total_seqOf_cons {e : Env} {k : Pat} {K : List Pat} (hk : Total e k) (hK : Total e (seqOf K)) :
    Total e (seqOf (k :: K)) := by
  cases K with
  | nil => exact hk
  | cons b rest =>
    intro st
    simp only [seqOf, m, Bool.false_eq_true, if_false]
    cases ha : m e k false st with
    | nil => exact absurd ha (hk st)
    | cons y ys =>
      simp only [List.flatMap_cons]
      intro hc
      exact hK y (List.append_eq_nil_iff.mp hc).1

/-- at the end of the pattern: the continuation fails at the dead positions, or it always succeeds -/
theorem contEnd_sound {e : Env} {o : Oracle} (hs : o.Sound e) (s : Site) :
    ∀ K : List Pat, contEnd o s K = true → Kills e (siteDead e s) (seqOf K) ∨ (Stays e (siteDead e s) (seqOf K) ∧ Total e (seqOf K))
  | [], _ => Or.inr ⟨stays_empty e _, fun st => by simp [seqOf, m]⟩
  | [k], h => by
    simp only [contEnd, Bool.and_true, Bool.or_eq_true, Bool.and_eq_true] at h
    rcases h with h | ⟨h1, h2⟩
    · exact Or.inl ((ks_sound hs s k).1 h)
    · exact Or.inr ⟨(ks_sound hs s k).2 h1, totalS_sound e k h2⟩
  | k :: b :: rest, h => by
    simp only [contEnd, Bool.or_eq_true, Bool.and_eq_true] at h
    rcases h with h | ⟨⟨h1, h2⟩, h3⟩
    · exact Or.inl (kills_seq_first _ ((ks_sound hs s k).1 h))
    · have ih := contEnd_sound hs s (b :: rest) (by simpa only [contEnd, Bool.or_eq_true, Bool.and_eq_true] using h3)
      rcases ih with ih | ⟨ih1, ih2⟩
      · exact Or.inl (kills_seq_stays ((ks_sound hs s k).2 h1) ih)
      · exact Or.inr ⟨stays_seq ((ks_sound hs s k).2 h1) ih1, total_seqOf_cons (totalS_sound e k h2) ih2⟩

/-! ## what a result of `cert` claims -/

/-- `p` and `p'` have the same successes except at the dead positions of the pending sites, and —
    when `r.head` — the same first success -/
def Holds (e : Env) (d : Bool) (r : Res) (p p' : Pat) : Prop :=
  EqMod e (dead e r.sites) d p p' ∧ (r.head = true → HeadEq e d p p')

theorem holds_of_eq {e : Env} {d : Bool} {p p' : Pat} (h : ∀ st, m e p d st = m e p' d st) (r : Res) :
    Holds e d r p p' := ⟨EqMod.of_eq h, fun _ => HeadEq.of_eq h⟩

theorem Holds.eq {e : Env} {d : Bool} {r : Res} {p p' : Pat} (h : Holds e d r p p') (hs : r.sites = []) :
    ∀ st, m e p d st = m e p' d st := by
  have h1 := h.1
  rw [hs, dead_nil] at h1
  exact EqMod.eq_of_none h1

theorem Holds.headEq {e : Env} {d : Bool} {r : Res} {p p' : Pat} (h : Holds e d r p p') (hk : r.headOK = true) :
    HeadEq e d p p' := by
  unfold Res.headOK at hk
  rw [Bool.or_eq_true] at hk
  rcases hk with hk | hk
  · exact h.2 hk
  · exact HeadEq.of_eq (h.eq (by simpa using hk))

theorem eqMod_top {e : Env} {d : Bool} {p p' : Pat} {D : Nat → Bool} (hD : ∀ i, D i = true) : EqMod e D d p p' := by
  intro st
  have : (fun t : St => !D t.pos) = fun _ => false := by funext t; simp [hD]
  have hnil : ∀ l : List St, l.filter (fun _ => false) = [] := fun l => by
    rw [List.filter_eq_nil_iff]; intro _ _; simp
  simp only [live, this, hnil]

theorem holds_top {e : Env} {d : Bool} {r : Res} {p p' : Pat} (h : HeadEq e d p p') (hs : r.sites = [.top]) :
    Holds e d r p p' := by
  refine ⟨eqMod_top (fun i => ?_), fun _ => h⟩
  rw [hs]; simp [dead, siteDead]

theorem close_errs {r : Res} (h : r.close.errs = []) : r.errs = [] ∧ r.headOK = true := by
  unfold Res.close at h
  split at h
  · exact ⟨h, by assumption⟩
  · rename_i hk
    simp only [List.append_eq_nil_iff, List.map_eq_nil_iff] at h
    exfalso
    apply hk
    simp [Res.headOK, h.2]

theorem close_sites (r : Res) : r.close.sites = [] := by
  unfold Res.close; split <;> rfl

theorem eqOnly_errs {r : Res} (h : r.eqOnly.errs = []) : r.errs = [] ∧ r.sites = [] := by
  unfold Res.eqOnly at h
  split at h
  · rename_i hs
    exact ⟨h, by simpa using hs⟩
  · simp only [List.append_eq_nil_iff, List.map_eq_nil_iff] at h
    exact ⟨h.1, h.2⟩

theorem eqOnly_sites (r : Res) : r.eqOnly.sites = [] := by
  unfold Res.eqOnly; split
  · rename_i hs; simpa using hs
  · rfl

/-! ## the concatenation step -/

theorem stepSites_spec {e : Env} {o : Oracle} (hs : o.Sound e) (k : Pat) :
    ∀ S : List Site, (stepSites o k S).2 = [] →
      ∀ s ∈ S, Kills e (siteDead e s) k ∨ (s ∈ (stepSites o k S).1 ∧ Stays e (siteDead e s) k)
  | [], _, s, hs' => by cases hs'
  | x :: xs, h, s, hmem => by
    simp only [stepSites] at h ⊢
    by_cases hk : (ks o x k).1 = true
    · simp only [hk, if_true] at h ⊢
      rcases List.mem_cons.mp hmem with rfl | hm
      · exact Or.inl ((ks_sound hs s k).1 hk)
      · exact stepSites_spec hs k xs h s hm
    · simp only [hk, Bool.false_eq_true, if_false] at h ⊢
      by_cases hst : (ks o x k).2 = true
      · simp only [hst, if_true] at h ⊢
        rcases List.mem_cons.mp hmem with rfl | hm
        · exact Or.inr ⟨by simp, (ks_sound hs s k).2 hst⟩
        · rcases stepSites_spec hs k xs h s hm with h1 | ⟨h1, h2⟩
          · exact Or.inl h1
          · exact Or.inr ⟨List.mem_cons_of_mem _ h1, h2⟩
      · simp only [hst, Bool.false_eq_true, if_false] at h
        cases h

theorem stepSites_all_killed {e : Env} {o : Oracle} (hs : o.Sound e) (k : Pat) (S : List Site)
    (h : (stepSites o k S).2 = []) (h1 : (stepSites o k S).1 = []) :
    ∀ s ∈ S, Kills e (siteDead e s) k := by
  intro s hm
  rcases stepSites_spec hs k S h s hm with h2 | ⟨h2, _⟩
  · exact h2
  · rw [h1] at h2; cases h2

theorem kills_dead {e : Env} {S : List Site} {k : Pat} (h : ∀ s ∈ S, Kills e (siteDead e s) k) :
    Kills e (dead e S) k := by
  intro st hd
  simp only [dead, List.any_eq_true] at hd
  obtain ⟨s, hs, hd⟩ := hd
  exact h s hs st hd

/-- the first factors agree modulo `D`; at every position of `D` the second factor fails or stays
    (at a position of `D'`): then the concatenations agree modulo `D'` -/
theorem eqMod_seq_step {e : Env} {D D' : Nat → Bool} {a a' : Pat} (k : Pat) (h : EqMod e D false a a')
    (hk : ∀ st, D st.pos = true → m e k false st = [] ∨ (D' st.pos = true ∧ ∀ t ∈ m e k false st, t.pos = st.pos)) :
    EqMod e D' false (.seq a k) (.seq a' k) := by
  intro st
  simp only [m, Bool.false_eq_true, if_false, live, filter_flatMap']
  have hd : ∀ x : St, (fun t : St => !D t.pos) x = false → (m e k false x).filter (fun t => !D' t.pos) = [] := by
    intro x hx
    have hx' : D x.pos = true := by simpa using hx
    rcases hk x hx' with h1 | ⟨h1, h2⟩
    · rw [h1]; rfl
    · rw [List.filter_eq_nil_iff]
      intro t ht
      rw [h2 t ht]; simp [h1]
  rw [← flatMap_filter_of_dead (m e a false st) _ _ hd, ← flatMap_filter_of_dead (m e a' false st) _ _ hd]
  have := h st
  simp only [live] at this
  rw [this]

/-- the first factors have the same first success and agree modulo `D`; the second factor always
    succeeds, or it fails at every position of `D` -/
theorem headEq_seq_step {e : Env} {D : Nat → Bool} {a a' : Pat} (k : Pat)
    (h : EqMod e D false a a') (hk : (HeadEq e false a a' ∧ Total e k) ∨ Kills e D k) :
    HeadEq e false (.seq a k) (.seq a' k) := by
  rcases hk with ⟨hh, hk⟩ | hk
  · intro st
    simp only [m, Bool.false_eq_true, if_false]
    rw [head?_flatMap_of_ne_nil _ _ (fun x _ => hk x), head?_flatMap_of_ne_nil _ _ (fun x _ => hk x), hh st]
  · exact HeadEq.of_eq (h.seq_kill k hk)

theorem Holds.trans {e : Env} {d : Bool} {r1 r2 r : Res} {p q s : Pat} (h1 : Holds e d r1 p q) (h2 : Holds e d r2 q s)
    (hD1 : ∀ i, dead e r1.sites i = true → dead e r.sites i = true)
    (hD2 : ∀ i, dead e r2.sites i = true → dead e r.sites i = true)
    (hh : r.head = true → r1.headOK = true ∧ r2.headOK = true) : Holds e d r p s :=
  ⟨(h1.1.mono hD1).trans (h2.1.mono hD2), fun h => (h1.headEq (hh h).1).trans (h2.headEq (hh h).2)⟩

/-- the core of the concatenation rule: the same second factor `k` on both sides -/
theorem seqStep_core {e : Env} {o : Oracle} (hs : o.Sound e) {a a' : Pat} (k : Pat) {ra : Res}
    (ha : Holds e false ra a a') (herr : (stepSites o k ra.sites).2 = []) :
    EqMod e (dead e (stepSites o k ra.sites).1) false (.seq a k) (.seq a' k) ∧
      (((stepSites o k ra.sites).1.isEmpty || (ra.headOK && totalS k)) = true →
        HeadEq e false (.seq a k) (.seq a' k)) := by
  constructor
  · apply eqMod_seq_step k ha.1
    intro st hd
    simp only [dead, List.any_eq_true] at hd
    obtain ⟨s, hsm, hd⟩ := hd
    rcases stepSites_spec hs k ra.sites herr s hsm with h1 | ⟨h1, h2⟩
    · exact Or.inl (h1 st hd)
    · exact Or.inr ⟨dead_of_mem h1 hd, h2 st hd⟩
  · intro ht
    apply headEq_seq_step k ha.1
    rw [Bool.or_eq_true, Bool.and_eq_true] at ht
    rcases ht with ht | ⟨hh, ht⟩
    · exact Or.inr (kills_dead (stepSites_all_killed hs k ra.sites herr (by simpa using ht)))
    · exact Or.inl ⟨ha.headEq hh, totalS_sound e k ht⟩

theorem seqStep_errs {o : Oracle} {k : Pat} {ra rb : Res} (h : (seqStep o k ra rb).errs = []) :
    ra.errs = [] ∧ rb.errs = [] ∧ (stepSites o k ra.sites).2 = [] := by
  simp only [seqStep, List.append_eq_nil_iff] at h
  exact ⟨h.1.1, h.1.2, h.2⟩

/-- the concatenation rule, checking the pending sites against the second factor of the
    un-rewritten tree -/
theorem seqStep_sound_left {e : Env} {o : Oracle} (hs : o.Sound e) {a a' b b' : Pat} {ra rb : Res}
    (ha : Holds e false ra a a') (hb : Holds e false rb b b') (herr : (seqStep o b ra rb).errs = []) :
    Holds e false (seqStep o b ra rb) (.seq a b) (.seq a' b') := by
  obtain ⟨_, _, h3⟩ := seqStep_errs herr
  obtain ⟨c1, c2⟩ := seqStep_core hs b ha h3
  constructor
  · refine (c1.mono ?_).trans ((hb.1.seq_last a').mono ?_)
    · intro i hi; simp only [seqStep, dead_append, hi, Bool.true_or]
    · intro i hi; simp only [seqStep, dead_append, hi, Bool.or_true]
  · intro hh
    simp only [seqStep, Bool.and_eq_true] at hh
    exact (c2 hh.2).trans (headEq_seq_ltr a' (hb.headEq hh.1))

/-- … against the second factor of the rewritten tree -/
theorem seqStep_sound_right {e : Env} {o : Oracle} (hs : o.Sound e) {a a' b b' : Pat} {ra rb : Res}
    (ha : Holds e false ra a a') (hb : Holds e false rb b b') (herr : (seqStep o b' ra rb).errs = []) :
    Holds e false (seqStep o b' ra rb) (.seq a b) (.seq a' b') := by
  obtain ⟨_, _, h3⟩ := seqStep_errs herr
  obtain ⟨c1, c2⟩ := seqStep_core hs b' ha h3
  constructor
  · refine ((hb.1.seq_last a).mono ?_).trans (c1.mono ?_)
    · intro i hi; simp only [seqStep, dead_append, hi, Bool.or_true]
    · intro i hi; simp only [seqStep, dead_append, hi, Bool.true_or]
  · intro hh
    simp only [seqStep, Bool.and_eq_true] at hh
    exact (headEq_seq_ltr a (hb.headEq hh.1)).trans (c2 hh.2)

theorem seqRes_sound {e : Env} {o : Oracle} (hs : o.Sound e) {a a' b b' : Pat} {ra rb : Res}
    (ha : Holds e false ra a a') (hb : Holds e false rb b b') (herr : (seqRes o b b' ra rb).errs = []) :
    Holds e false (seqRes o b b' ra rb) (.seq a b) (.seq a' b') := by
  unfold seqRes at herr ⊢
  by_cases h1 : (seqStep o b ra rb).errs.isEmpty = true
  · simp only [h1, if_true] at herr ⊢
    exact seqStep_sound_left hs ha hb herr
  · simp only [h1, Bool.false_eq_true, if_false] at herr ⊢
    by_cases h2 : (seqStep o b' ra rb).errs.isEmpty = true
    · simp only [h2, if_true] at herr ⊢
      exact seqStep_sound_right hs ha hb herr
    · simp only [h2, Bool.false_eq_true, if_false] at herr
      exact absurd (by simp [herr]) h1

theorem seqRes_errs {o : Oracle} {b b' : Pat} {ra rb : Res} (h : (seqRes o b b' ra rb).errs = []) :
    ra.errs = [] ∧ rb.errs = [] := by
  unfold seqRes at h
  by_cases h1 : (seqStep o b ra rb).errs.isEmpty = true
  · simp only [h1, if_true] at h
    exact ⟨(seqStep_errs h).1, (seqStep_errs h).2.1⟩
  · simp only [h1, Bool.false_eq_true, if_false] at h
    by_cases h2 : (seqStep o b' ra rb).errs.isEmpty = true
    · simp only [h2, if_true] at h
      exact ⟨(seqStep_errs h).1, (seqStep_errs h).2.1⟩
    · simp only [h2, Bool.false_eq_true, if_false] at h
      exact ⟨(seqStep_errs h).1, (seqStep_errs h).2.1⟩

theorem orElse_cases (r r' : Res) (h : (orElse r r').errs = []) :
    (orElse r r' = r ∧ r.errs = []) ∨ (orElse r r' = r' ∧ r'.errs = []) := by
  unfold orElse at h ⊢
  by_cases h1 : r.errs.isEmpty = true
  · left
    rw [if_pos h1] at h ⊢
    exact ⟨rfl, h⟩
  · rw [if_neg h1] at h ⊢
    by_cases h2 : r'.errs.isEmpty = true
    · right
      rw [if_pos h2] at h ⊢
      exact ⟨rfl, h⟩
    · rw [if_neg h2] at h
      exact absurd (by simp [h]) h1

/-! ## the other combinators -/

theorem seqRtl_sound {e : Env} {a a' b b' : Pat} {ra rb : Res}
    (ha : ra.errs = [] → Holds e true ra a a') (hb : rb.errs = [] → Holds e true rb b b')
    (herr : (seqRtl ra rb).errs = []) : Holds e true (seqRtl ra rb) (.seq a b) (.seq a' b') := by
  unfold seqRtl at herr ⊢
  by_cases h1 : ra.sites.isEmpty = true
  · rw [if_pos h1] at herr ⊢
    simp only [List.append_eq_nil_iff] at herr
    obtain ⟨he, hs⟩ := eqOnly_errs herr.2
    exact holds_of_eq (seq_congr_dir ((ha herr.1).eq (by simpa using h1)) ((hb he).eq hs)) _
  · rw [if_neg h1] at herr ⊢
    simp only [List.append_eq_nil_iff] at herr
    obtain ⟨he, hs⟩ := eqOnly_errs herr.2
    refine ⟨eqMod_top (fun i => by simp [dead, siteDead]), fun hh => ?_⟩
    exact (headEq_seq_rtl b ((ha herr.1).headEq hh)).trans
      (HeadEq.of_eq (seq_congr_dir (fun _ => rfl) ((hb he).eq hs)))

theorem union_errs {ra rb : Res} (h : (union ra rb).errs = []) : ra.errs = [] ∧ rb.errs = [] := by
  simpa only [union, List.append_eq_nil_iff] using h

theorem union_dead_left (e : Env) (ra rb : Res) (i : Nat) (h : dead e ra.sites i = true) :
    dead e (union ra rb).sites i = true := by simp only [union, dead_append, h, Bool.true_or]

theorem union_dead_right (e : Env) (ra rb : Res) (i : Nat) (h : dead e rb.sites i = true) :
    dead e (union ra rb).sites i = true := by simp only [union, dead_append, h, Bool.or_true]

theorem union_head {ra rb : Res} (h : (union ra rb).head = true) : ra.headOK = true ∧ rb.headOK = true := by
  simpa only [union, Bool.and_eq_true] using h

theorem wrap_def (r : Res) : r.wrap = if r.close.errs.isEmpty = true then
    { r.close with sites := [.top], made := r.close.made + 1 } else r.close := rfl

theorem wrap_errs {r : Res} (h : r.wrap.errs = []) : r.errs = [] ∧ r.headOK = true := by
  rw [wrap_def] at h
  apply close_errs
  by_cases hc : r.close.errs.isEmpty = true
  · rw [if_pos hc] at h; exact h
  · rw [if_neg hc] at h; exact h

theorem wrap_sites {r : Res} (h : r.wrap.errs = []) : r.wrap.sites = [.top] := by
  rw [wrap_def] at h ⊢
  by_cases hc : r.close.errs.isEmpty = true
  · rw [if_pos hc]
  · rw [if_neg hc] at h
    exact absurd (by simp [h]) hc

theorem topOf_errs {c : Res} {n : Nat} (h : (c.topOf n).errs = []) : c.errs = [] ∧ (c.topOf n).sites = [.top] := by
  unfold Res.topOf at h ⊢
  split
  · rename_i hc; exact ⟨by simpa using hc, rfl⟩
  · rename_i hc
    rw [if_neg hc] at h
    exact absurd (by simp [h]) hc

/-- a construct wrapped in Atomic where only its first success matters -/
theorem wrap_sound {e : Env} {d : Bool} {r : Res} {p p' : Pat} (h : Holds e d r p p') (herr : r.wrap.errs = []) :
    Holds e d r.wrap p (.atomic p') :=
  holds_top ((h.headEq (wrap_errs herr).2).trans (headEq_atomic e d p')) (wrap_sites herr)

/-! ## loops -/

/-- a repeater `x{n}` of a single character, greedy or lazy, is the same thing -/
theorem repeater_lazy_eq_greedy (e : Env) (q : Pred) (n : Nat) (st : St) :
    m e (.quant true n (some n) (.chr q)) false st = m e (.quant false n (some n) (.chr q)) false st := by
  rw [lazy_charloop_successes, charloop_successes]
  have : capN (some n) 0 (runLen e q st.pos) + 1 - n ≤ 1 := by simp only [capN]; omega
  match hk : capN (some n) 0 (runLen e q st.pos) + 1 - n, this with
  | 0, _ => rfl
  | 1, _ => rfl

theorem canGo_of_hiAtLeast {hi : Option Nat} {lo : Nat} (h : hiAtLeast hi lo = true) : ∀ c, c < lo → canGo hi c = true := by
  intro c hc
  unfold hiAtLeast at h
  unfold canGo
  cases hi with
  | none => rfl
  | some x => simp only [decide_eq_true_eq] at h ⊢; omega

/-- a loop whose body ends in rewritten places: if the bodies have the same first success, agree
    modulo `D`, and both fail at the positions of `D`, the loops have the same first success
    (the `EqMod` version of `iter_head_prune`) -/
theorem iter_head_eqMod {D : Nat → Bool} (f g : St → List St)
    (hhead : ∀ st, (f st).head? = (g st).head?) (heq : ∀ st, live D (f st) = live D (g st))
    (hf : ∀ st, D st.pos = true → f st = []) (hg : ∀ st, D st.pos = true → g st = [])
    (lzy : Bool) (lo : Nat) (hi : Option Nat) :
    ∀ (fuel cnt : Nat) (st : St),
      (iter f lzy lo hi fuel cnt st).head? = (iter g lzy lo hi fuel cnt st).head? := by
  have ne_nil : ∀ (h : St → List St) (fuel cnt : Nat) (st : St), lo ≤ cnt → iter h lzy lo hi fuel cnt st ≠ [] := by
    intro h fuel cnt st hlo
    cases fuel with
    | zero => simp [iter, hlo]
    | succ fuel => cases lzy <;> simp [iter, hlo]
  have dead_nil : ∀ (h : St → List St), (∀ st, D st.pos = true → h st = []) →
      ∀ (fuel cnt : Nat) (st : St), ¬ lo ≤ cnt → D st.pos = true → iter h lzy lo hi fuel cnt st = [] := by
    intro h hh fuel cnt st hlo hd
    cases fuel with
    | zero => simp [iter, hlo]
    | succ fuel => cases lzy <;> simp [iter, hlo, hh st hd]
  intro fuel
  induction fuel with
  | zero => intro cnt st; rfl
  | succ fuel ih =>
    intro cnt st
    have hmore : ((f st).flatMap (fun st' =>
            if (st'.pos == st.pos && decide (lo ≤ cnt + 1)) = true then [st']
            else iter f lzy lo hi fuel (cnt + 1) st')).head?
        = ((g st).flatMap (fun st' =>
            if (st'.pos == st.pos && decide (lo ≤ cnt + 1)) = true then [st']
            else iter g lzy lo hi fuel (cnt + 1) st')).head? := by
      have hpt : ∀ y, (if (y.pos == st.pos && decide (lo ≤ cnt + 1)) = true then [y]
            else iter f lzy lo hi fuel (cnt + 1) y).head?
          = (if (y.pos == st.pos && decide (lo ≤ cnt + 1)) = true then [y]
            else iter g lzy lo hi fuel (cnt + 1) y).head? := by
        intro y; split
        · rfl
        · exact ih (cnt + 1) y
      by_cases hlo : lo ≤ cnt + 1
      · rw [head?_flatMap_of_ne_nil, head?_flatMap_of_ne_nil, hhead st]
        · cases (g st).head? with
          | none => rfl
          | some y => exact hpt y
        · intro y _; split
          · simp
          · exact ne_nil g fuel (cnt + 1) y hlo
        · intro y _; split
          · simp
          · exact ne_nil f fuel (cnt + 1) y hlo
      · have hF : ∀ (h : St → List St), (∀ st, D st.pos = true → h st = []) → ∀ y : St,
            (fun t : St => !D t.pos) y = false →
            (if (y.pos == st.pos && decide (lo ≤ cnt + 1)) = true then [y]
              else iter h lzy lo hi fuel (cnt + 1) y) = [] := by
          intro h hh y hy
          have hd : D y.pos = true := by simpa using hy
          have : (y.pos == st.pos && decide (lo ≤ cnt + 1)) = false := by simp [hlo]
          rw [this]
          exact dead_nil h hh fuel (cnt + 1) y hlo hd
        rw [← flatMap_filter_of_dead (f st) _ _ (hF f hf), ← flatMap_filter_of_dead (g st) _ _ (hF g hg)]
        have := heq st
        simp only [live] at this
        rw [this]
        exact head?_flatMap_congr _ _ _ (fun y _ => hpt y)
    have hm : (if canGo hi cnt = true then (f st).flatMap (fun st' =>
            if (st'.pos == st.pos && decide (lo ≤ cnt + 1)) = true then [st']
            else iter f lzy lo hi fuel (cnt + 1) st') else []).head?
        = (if canGo hi cnt = true then (g st).flatMap (fun st' =>
            if (st'.pos == st.pos && decide (lo ≤ cnt + 1)) = true then [st']
            else iter g lzy lo hi fuel (cnt + 1) st') else []).head? := by
      split
      · exact hmore
      · rfl
    simp only [iter]
    cases lzy
    · simp only [Bool.false_eq_true, if_false]; exact head?_append_congr hm rfl
    · simp only [if_true]; exact head?_append_congr rfl hm

theorem headEq_quant_eqMod {e : Env} {D : Nat → Bool} {b b' : Pat} (lzy : Bool) (lo : Nat) (hi : Option Nat)
    (hh : HeadEq e false b b') (h : EqMod e D false b b') (hb : Kills e D b) (hb' : Kills e D b') :
    HeadEq e false (.quant lzy lo hi b) (.quant lzy lo hi b') := by
  intro st
  rw [m_quant, m_quant]
  exact iter_head_eqMod _ _ hh h hb hb' lzy lo hi _ 0 st

/-- a loop that iterates at most once: its successes are those of the body and "stop" -/
theorem iter_hi_one (f : St → List St) (lzy : Bool) (lo : Nat) (fuel : Nat) (st : St) :
    iter f lzy lo (some 1) (fuel + 1) 0 st =
      if lzy = true then (if lo ≤ 0 then [st] else []) ++ (if lo ≤ 1 then f st else [])
      else (if lo ≤ 1 then f st else []) ++ (if lo ≤ 0 then [st] else []) := by
  have hng : canGo (some 1) 1 = false := by simp [canGo]
  have hgo : canGo (some 1) 0 = true := by simp [canGo]
  have hmore : (f st).flatMap (fun st' => if (st'.pos == st.pos && decide (lo ≤ 0 + 1)) = true then [st']
        else iter f lzy lo (some 1) fuel (0 + 1) st') = if lo ≤ 1 then f st else [] := by
    by_cases hlo : lo ≤ 1
    · have : (fun st' : St => if (st'.pos == st.pos && decide (lo ≤ 0 + 1)) = true then [st']
          else iter f lzy lo (some 1) fuel (0 + 1) st') = fun st' => [st'] := by
        funext st'
        rw [iter_of_not_canGo _ _ _ _ _ _ _ hng]
        simp [hlo]
      rw [this]; simp [hlo]
    · have : (fun st' : St => if (st'.pos == st.pos && decide (lo ≤ 0 + 1)) = true then [st']
          else iter f lzy lo (some 1) fuel (0 + 1) st') = fun _ => [] := by
        funext st'
        rw [iter_of_not_canGo _ _ _ _ _ _ _ hng]
        simp [hlo]
      rw [this]; simp [hlo]
  simp only [iter, hgo, if_true, hmore]

theorem eqMod_quant_hi_one {e : Env} {D : Nat → Bool} {d : Bool} {b b' : Pat} (lzy : Bool) (lo : Nat)
    (h : EqMod e D d b b') : EqMod e D d (.quant lzy lo (some 1) b) (.quant lzy lo (some 1) b') := by
  intro st
  rw [m_quant, m_quant, iter_hi_one, iter_hi_one]
  have := h st
  simp only [live] at this ⊢
  cases lzy
  · simp only [Bool.false_eq_true, if_false, List.filter_append]
    congr 1
    split
    · exact this
    · rfl
  · simp only [if_true, List.filter_append]
    congr 1
    split
    · exact this
    · rfl

theorem bodyKills_sound {e : Env} {o : Oracle} (hs : o.Sound e) {x x' : Pat} {S : List Site}
    (h : bodyKills o x x' S = true) : Kills e (dead e S) x ∧ Kills e (dead e S) x' := by
  unfold bodyKills at h
  rw [List.all_eq_true] at h
  constructor
  · exact kills_dead (fun s hm => (ks_sound hs s x).1 (by have := h s hm; rw [Bool.and_eq_true] at this; exact this.1))
  · exact kills_dead (fun s hm => (ks_sound hs s x').1 (by have := h s hm; rw [Bool.and_eq_true] at this; exact this.2))

theorem quant_zero_zero' (e : Env) (lzy : Bool) (a : Pat) (rtl : Bool) (st : St) :
    m e (.quant lzy 0 (some 0) a) rtl st = [st] := by
  rw [m_quant]
  cases lzy <;> simp [iter, canGo]

theorem quantRes_sound {e : Env} {o : Oracle} (hs : o.Sound e) {d : Bool} {lzy : Bool} {lo : Nat} {hi : Option Nat}
    {lzy' : Bool} {lo' : Nat} {hi' : Option Nat} {x x' : Pat} {r : Res} (hx : r.errs = [] → Holds e d r x x')
    (herr : (quantRes o d x x' lzy lo hi lzy' lo' hi' r).errs = []) :
    Holds e d (quantRes o d x x' lzy lo hi lzy' lo' hi' r) (.quant lzy lo hi x) (.quant lzy' lo' hi' x') := by
  unfold quantRes at herr ⊢
  by_cases h1 : lzy = lzy' ∧ lo = lo' ∧ hi = hi'
  · obtain ⟨rfl, rfl, rfl⟩ := h1
    simp only [and_self, if_true] at herr ⊢
    by_cases h2 : r.sites.isEmpty = true
    · simp only [h2, if_true] at herr ⊢
      exact holds_of_eq (quant_congr_dir lzy lo hi ((hx herr).eq (by simpa using h2))) r
    · simp only [h2, Bool.false_eq_true, if_false] at herr ⊢
      by_cases h3 : hi = some 1
      · subst h3
        simp only [if_true] at herr ⊢
        have hb := hx herr
        exact ⟨eqMod_quant_hi_one lzy lo hb.1, fun hh => headEq_quant_hi_one lzy lo (hb.headEq hh)⟩
      · simp only [h3, if_false] at herr ⊢
        cases d with
        | true =>
          simp only [if_true, List.append_eq_nil_iff] at herr
          exact absurd herr.2 (by simp)
        | false =>
          simp only [Bool.false_eq_true, if_false] at herr ⊢
          by_cases h4 : bodyKills o x x' r.sites = true
          · simp only [h4, if_true] at herr ⊢
            obtain ⟨k1, k2⟩ := bodyKills_sound hs h4
            have hb := hx herr
            exact ⟨hb.1.quant lzy lo hi k1 k2, fun hh => headEq_quant_eqMod lzy lo hi (hb.headEq hh) hb.1 k1 k2⟩
          · simp only [h4] at herr ⊢
            obtain ⟨he, hs'⟩ := eqOnly_errs herr
            exact absurd (by simp [hs']) h2
  · simp only [h1, if_false] at herr ⊢
    by_cases h2 : lzy = true ∧ lzy' = true ∧ lo = lo' ∧ hi' = some lo ∧ hiAtLeast hi lo = true
    · obtain ⟨rfl, rfl, rfl, rfl, h5⟩ := h2
      simp only [and_self, h5, if_true] at herr ⊢
      have hmin := headEq_lazy_min e d lo hi x (canGo_of_hiAtLeast h5)
      by_cases h0 : lo = 0
      · subst h0
        rw [if_pos rfl]
        refine holds_top (hmin.trans (HeadEq.of_eq (fun st => ?_))) rfl
        rw [quant_zero_zero', quant_zero_zero']
      rw [if_neg h0] at herr ⊢
      by_cases h3 : lo = 1 ∨ (d = false ∧ bodyKills o x x' r.sites = true)
      · rw [if_pos h3] at herr ⊢
        obtain ⟨hce, hts⟩ := topOf_errs herr
        obtain ⟨he, hk⟩ := close_errs hce
        rcases h3 with h3 | ⟨rfl, h4⟩
        · subst h3
          exact holds_top (hmin.trans (headEq_quant_hi_one true 1 ((hx he).headEq hk))) hts
        · obtain ⟨k1, k2⟩ := bodyKills_sound hs h4
          exact holds_top (hmin.trans (headEq_quant_eqMod true lo (some lo) ((hx he).headEq hk) (hx he).1 k1 k2)) hts
      · rw [if_neg h3] at herr ⊢
        by_cases h6 : d = true ∧ r.sites.isEmpty = false
        · rw [if_pos h6] at herr
          simp only [List.append_eq_nil_iff] at herr
          exact absurd herr.2 (by simp)
        rw [if_neg h6] at herr ⊢
        obtain ⟨hce, hts⟩ := topOf_errs herr
        obtain ⟨he, hs'⟩ := eqOnly_errs hce
        exact holds_top (hmin.trans (HeadEq.of_eq (quant_congr_dir true lo (some lo) ((hx he).eq hs')))) hts
    · simp only [h2, if_false, Res.fail] at herr
      cases herr

theorem Holds.congr_right {e : Env} {d : Bool} {r : Res} {p q q' : Pat} (h : Holds e d r p q)
    (hq : ∀ st, m e q d st = m e q' d st) : Holds e d r p q' :=
  ⟨h.1.trans (EqMod.of_eq hq), fun hh => (h.2 hh).trans (HeadEq.of_eq hq)⟩

theorem seqMarker_sound {e : Env} {o : Oracle} (hs : o.Sound e) {a a' b : Pat} {ra r : Res} {certb : Pat → Res}
    (ha : Holds e false ra a a') (hb : ∀ y, (certb y).errs = [] → Holds e false (certb y) b y) (b' : Pat)
    (hr : r.errs = [] → Holds e false r (.seq a b) (.seq a' b'))
    (herr : (seqMarker o b ra r certb b').errs = []) :
    Holds e false (seqMarker o b ra r certb b') (.seq a b) (.seq a' b') := by
  unfold seqMarker at herr ⊢
  split at herr
  · rename_i b''
    rcases orElse_cases _ _ herr with ⟨h1, h2⟩ | ⟨h1, h2⟩
    · rw [h1]; exact hr h2
    · rw [h1]
      have hb' := hb b'' (seqRes_errs h2).2
      refine (seqRes_sound hs ha hb' h2).congr_right (fun st => ?_)
      simp only [m, Bool.false_eq_true, if_false, List.flatMap_singleton]
  · exact hr herr

/-- the successes of a repeater `q{n}`: the position `n` further when the run is long enough -/
theorem repeater_successes (e : Env) (q : Pred) (n : Nat) (st : St) :
    m e (.quant false n (some n) (.chr q)) false st
      = if n ≤ runLen e q st.pos then [{ st with pos := st.pos + n }] else [] := by
  rw [charloop_successes]
  simp only [capN]
  by_cases h : n ≤ runLen e q st.pos
  · rw [if_pos h]
    have : min (runLen e q st.pos) (n - 0) + 1 - n = 1 := by omega
    rw [this]; simp
  · rw [if_neg h]
    have : min (runLen e q st.pos) (n - 0) + 1 - n = 0 := by omega
    rw [this]; rfl

/-- a Multi string of one rune is the repeater -/
theorem repPat_eq_repeater (e : Env) (q : Pred) : ∀ (n : Nat) (st : St),
    m e (repPat q n) false st = m e (.quant false n (some n) (.chr q)) false st
  | 0, st => by rw [repeater_successes]; simp [repPat, m]
  | 1, st => by
    rw [repeater_successes, repPat, m_chr_ltr]
    by_cases ha : acc e q st.pos = true
    · have := runLen_of_acc ha
      rw [if_pos ha, if_pos (by omega)]
    · have := runLen_of_not_acc (Bool.eq_false_iff.mpr ha)
      rw [if_neg ha, if_neg (by omega)]
  | n + 2, st => by
    rw [repeater_successes, repPat]
    simp only [m, Bool.false_eq_true, if_false]
    have hchr := m_chr_ltr e q st
    simp only [m] at hchr
    rw [hchr]
    by_cases ha : acc e q st.pos = true
    · have hr := runLen_of_acc ha
      rw [if_pos ha]
      simp only [List.flatMap_cons, List.flatMap_nil, List.append_nil]
      rw [repPat_eq_repeater e q (n + 1), repeater_successes]
      simp only
      by_cases hn : n + 1 ≤ runLen e q (st.pos + 1)
      · rw [if_pos hn, if_pos (by omega)]
        congr 2; omega
      · rw [if_neg hn, if_neg (by omega)]
    · have := runLen_of_not_acc (Bool.eq_false_iff.mpr ha)
      rw [if_neg ha, if_neg (by omega)]
      rfl

theorem atomic_single_fixed {e : Env} {q : Pred} {n : Nat} {st : St} :
    m e (.atomic (.quant false n (some n) (.chr q))) false st = m e (.quant false n (some n) (.chr q)) false st := by
  rw [m_atomic]
  exact take_one_of_length_le _ (atMostOne_quant_fixed false n (atMostOne_chr e false q) st)

/-- the loop sites: the claims about the loop and its replacement -/
theorem charSite_sound {e : Env} {lzy : Bool} {lo : Nat} {hi : Option Nat} {q : Pred} {p' : Pat} {r : Res}
    (h : charSite lzy lo hi q p' = some r) : r.errs = [] ∧ Holds e false r (.quant lzy lo hi (.chr q)) p' := by
  unfold charSite at h
  by_cases hc : hi = some lo ∧ (p' = .atomic (.quant false lo hi (.chr q)) ∨ p' = .quant false lo hi (.chr q))
  · rw [if_pos hc] at h
    obtain ⟨rfl, hp⟩ := hc
    simp only [Option.some.injEq] at h
    subst h
    refine ⟨rfl, holds_of_eq (fun st => ?_) _⟩
    have hrep : m e (.quant lzy lo (some lo) (.chr q)) false st = m e (.quant false lo (some lo) (.chr q)) false st := by
      cases lzy
      · rfl
      · exact repeater_lazy_eq_greedy e q lo st
    rcases hp with hp | hp
    · subst hp
      rw [hrep, atomic_single_fixed]
    · subst hp; exact hrep
  · rw [if_neg hc] at h
    by_cases hp : p' = .atomic (.quant false lo hi (.chr q))
    · rw [if_pos hp] at h
      subst hp
      cases lzy with
      | true =>
        simp only [if_true, Option.some.injEq] at h
        subst h
        refine ⟨rfl, ?_, fun hh => by cases hh⟩
        exact (lazy_charloop_eqMod_atomic e q lo hi).mono (fun i hi => by simp [dead, siteDead, hi])
      | false =>
        simp only [Bool.false_eq_true, if_false, Option.some.injEq] at h
        subst h
        refine ⟨rfl, ?_, fun _ => headEq_atomic e false _⟩
        unfold loopSite
        by_cases hlo : 1 ≤ lo
        · rw [if_pos hlo]
          exact (charloop_eqMod_atomic_between e q lo hi hlo).mono (fun i hi => by simpa [dead, siteDead] using hi)
        · rw [if_neg hlo]
          exact (charloop_eqMod_atomic e q lo hi).mono (fun i hi => by simp [dead, siteDead, hi])
    · rw [if_neg hp] at h
      split at h
      · rename_i hc
        obtain ⟨rfl, h5, hp⟩ := hc
        simp only [Option.some.injEq] at h
        subst h
        refine ⟨rfl, holds_top ?_ rfl⟩
        have hmin := headEq_lazy_min e false lo hi (.chr q) (canGo_of_hiAtLeast h5)
        rcases hp with hp' | hp'
        · subst hp'
          exact (hmin.trans (HeadEq.of_eq (repeater_lazy_eq_greedy e q lo))).trans (headEq_atomic e false _)
        · subst hp'
          exact hmin.trans (HeadEq.of_eq (fun st =>
            (repeater_lazy_eq_greedy e q lo st).trans (repPat_eq_repeater e q lo st).symm))
      · cases h

theorem charSiteRtl_sound {e : Env} {lzy : Bool} {lo : Nat} {hi : Option Nat} {q : Pred} {p' : Pat} {r : Res}
    (h : charSiteRtl lzy lo hi q p' = some r) : r.errs = [] ∧ Holds e true r (.quant lzy lo hi (.chr q)) p' := by
  unfold charSiteRtl at h
  split at h
  · rename_i hc
    obtain ⟨rfl, rfl⟩ := hc
    simp only [Option.some.injEq] at h
    subst h
    exact ⟨rfl, holds_top (headEq_atomic e true _) rfl⟩
  · split at h
    · rename_i hc
      obtain ⟨rfl, rfl, rfl⟩ := hc
      simp only [Option.some.injEq] at h
      subst h
      refine ⟨rfl, holds_top ?_ rfl⟩
      have hmin := headEq_lazy_min e true 0 hi (.chr q) (fun c hc => by omega)
      refine hmin.trans (HeadEq.of_eq (fun st => ?_))
      rw [m_quant]
      simp [iter, canGo, m]
    · cases h

theorem siteOf_sound {e : Env} {rtl lzy : Bool} {lo : Nat} {hi : Option Nat} {p' x : Pat} {r : Res}
    (h : siteOf rtl lzy lo hi p' x = some r) : r.errs = [] ∧ Holds e rtl r (.quant lzy lo hi x) p' := by
  unfold siteOf at h
  split at h
  · cases rtl with
    | true =>
      simp only [if_true] at h
      exact charSiteRtl_sound h
    | false =>
      simp only [Bool.false_eq_true, if_false] at h
      exact charSite_sound h
  · cases h

theorem quantGeneric_sound {e : Env} {o : Oracle} (hs : o.Sound e) {rtl lzy : Bool} {lo : Nat} {hi : Option Nat} {x : Pat}
    {certx : Pat → Res} (hx : ∀ y, (certx y).errs = [] → Holds e rtl (certx y) x y) (p' : Pat)
    (herr : (quantGeneric o rtl x lzy lo hi certx p').errs = []) :
    Holds e rtl (quantGeneric o rtl x lzy lo hi certx p') (.quant lzy lo hi x) p' := by
  unfold quantGeneric at herr ⊢
  split at herr
  · exact quantRes_sound hs (hx _) herr
  · exact wrap_sound (quantRes_sound hs (hx _) (wrap_errs herr).1) herr
  · simp [Res.fail] at herr

/-- dropping the Atomic node around something with at most one success, the body in tail position -/
theorem atomic_drop_sound {e : Env} {d : Bool} {x p' : Pat} {r : Res} (hx : r.errs = [] → Holds e d r x p')
    (herr : (if atMostOneS p' = true then r.close else Res.fail 10).errs = []) :
    Holds e d (if atMostOneS p' = true then r.close else Res.fail 10) (.atomic x) p' := by
  by_cases h1 : atMostOneS p' = true
  · rw [if_pos h1] at herr ⊢
    obtain ⟨he, hk⟩ := close_errs herr
    apply holds_of_eq
    intro st
    rw [atomic_eq_of_headEq ((hx he).headEq hk) st]
    rw [m_atomic]; exact take_one_of_length_le _ (atMostOneS_sound e d p' h1 st)
  · rw [if_neg h1] at herr
    simp [Res.fail] at herr

theorem fail_errs (c : Nat) : (Res.fail c).errs ≠ [] := by simp [Res.fail]

/-- **the tree walk is sound**: without errors, the two trees have the same successes except at the
    dead positions of the sites still pending, and (when `head`) the same first success -/
theorem cert_sound {e : Env} {o : Oracle} (hs : o.Sound e) :
    ∀ (p : Pat) (d : Bool) (p' : Pat), (cert o d p p').errs = [] → Holds e d (cert o d p p') p p' := by
  intro p
  induction p with
  | empty =>
    intro d p' h
    simp only [cert] at h ⊢
    by_cases hp : p' = .empty
    · subst hp; exact holds_of_eq (fun _ => rfl) _
    · rw [if_neg hp] at h; exact absurd h (fail_errs _)
  | nothing =>
    intro d p' h
    simp only [cert] at h ⊢
    by_cases hp : p' = .nothing
    · subst hp; exact holds_of_eq (fun _ => rfl) _
    · rw [if_neg hp] at h; exact absurd h (fail_errs _)
  | chr q =>
    intro d p' h
    simp only [cert] at h ⊢
    by_cases hp : p' = .chr q
    · subst hp; exact holds_of_eq (fun _ => rfl) _
    · rw [if_neg hp] at h; exact absurd h (fail_errs _)
  | anchor a =>
    intro d p' h
    simp only [cert] at h ⊢
    by_cases hp : p' = .anchor a
    · subst hp; exact holds_of_eq (fun _ => rfl) _
    · rw [if_neg hp] at h; exact absurd h (fail_errs _)
  | ref g ci =>
    intro d p' h
    simp only [cert] at h ⊢
    by_cases hp : p' = .ref g ci
    · subst hp; exact holds_of_eq (fun _ => rfl) _
    · rw [if_neg hp] at h; exact absurd h (fail_errs _)
  | seq a b iha ihb =>
    intro d p' h
    cases p' with
    | seq a' b' =>
      simp only [cert] at h ⊢
      cases d with
      | true =>
        simp only [if_true] at h ⊢
        exact seqRtl_sound (iha true a') (ihb true b') h
      | false =>
        simp only [Bool.false_eq_true, if_false] at h ⊢
        have key : ∀ y, (seqRes o b y (cert o false a a') (cert o false b y)).errs = [] →
            (cert o false a a').errs = [] := fun y hy => (seqRes_errs hy).1
        -- the first factor's result has no error in either branch of `seqMarker`
        have hae : (cert o false a a').errs = [] := by
          unfold seqMarker at h
          split at h
          · rcases orElse_cases _ _ h with ⟨_, h2⟩ | ⟨_, h2⟩
            · exact key _ h2
            · exact key _ h2
          · exact key _ h
        refine seqMarker_sound hs (iha false a' hae) (fun y hy => ihb false y hy) b' (fun hr => ?_) h
        exact seqRes_sound hs (iha false a' hae) (ihb false b' (seqRes_errs hr).2) hr
    | _ => exact absurd (by simpa only [cert] using h) (fail_errs _)
  | alt a b iha ihb =>
    intro d p' h
    cases p' with
    | alt a' b' =>
      simp only [cert] at h ⊢
      obtain ⟨h1, h2⟩ := union_errs h
      exact ⟨((iha d a' h1).1.mono (union_dead_left e _ _)).alt ((ihb d b' h2).1.mono (union_dead_right e _ _)),
        fun hh => headEq_alt ((iha d a' h1).headEq (union_head hh).1) ((ihb d b' h2).headEq (union_head hh).2)⟩
    | atomic y =>
      cases y with
      | alt a' b' =>
        simp only [cert] at h ⊢
        obtain ⟨h1, h2⟩ := union_errs (wrap_errs h).1
        refine wrap_sound ?_ h
        exact ⟨((iha d a' h1).1.mono (union_dead_left e _ _)).alt ((ihb d b' h2).1.mono (union_dead_right e _ _)),
          fun hh => headEq_alt ((iha d a' h1).headEq (union_head hh).1) ((ihb d b' h2).headEq (union_head hh).2)⟩
      | _ => exact absurd (by simpa only [cert] using h) (fail_errs _)
    | _ => exact absurd (by simpa only [cert] using h) (fail_errs _)
  | cap g a ih =>
    intro d p' h
    cases p' with
    | cap g' a' =>
      simp only [cert] at h ⊢
      by_cases hg : g = g'
      · subst hg
        rw [if_pos rfl] at h ⊢
        exact ⟨(ih d a' h).1.cap g, fun hh => headEq_cap g ((ih d a' h).2 hh)⟩
      · rw [if_neg hg] at h; exact absurd h (fail_errs _)
    | _ => exact absurd (by simpa only [cert] using h) (fail_errs _)
  | atomic x ih =>
    intro d p' h
    have r2 := @atomic_drop_sound e d x p' (cert o d x p') (ih d p')
    cases p' with
    | atomic x' =>
      simp only [cert] at h ⊢
      rcases orElse_cases _ _ h with ⟨h1, h2⟩ | ⟨h1, h2⟩
      · rw [h1]
        obtain ⟨he, hk⟩ := close_errs h2
        exact holds_of_eq (atomic_eq_of_headEq ((ih d x' he).headEq hk)) _
      · rw [h1]; exact r2 h2
    | _ => simp only [cert] at h ⊢; exact r2 h
  | look bh ng x ih =>
    intro d p' h
    cases p' with
    | look bh' ng' x' =>
      simp only [cert] at h ⊢
      by_cases hc : bh = bh' ∧ ng = ng'
      · obtain ⟨rfl, rfl⟩ := hc
        simp only [and_self, if_true] at h ⊢
        obtain ⟨he, hk⟩ := close_errs h
        exact holds_of_eq (look_eq_of_headEq ng ((ih bh x' he).headEq hk) d) _
      · rw [if_neg hc] at h; exact absurd h (fail_errs _)
    | _ => exact absurd (by simpa only [cert] using h) (fail_errs _)
  | refCond g y n ihy ihn =>
    intro d p' h
    cases p' with
    | refCond g' y' n' =>
      simp only [cert] at h ⊢
      by_cases hg : g = g'
      · subst hg
        rw [if_pos rfl] at h ⊢
        obtain ⟨h1, h2⟩ := union_errs h
        exact ⟨((ihy d y' h1).1.mono (union_dead_left e _ _)).refCond g ((ihn d n' h2).1.mono (union_dead_right e _ _)),
          fun hh => headEq_refCond g ((ihy d y' h1).headEq (union_head hh).1) ((ihn d n' h2).headEq (union_head hh).2)⟩
      · rw [if_neg hg] at h; exact absurd h (fail_errs _)
    | atomic z =>
      cases z with
      | refCond g' y' n' =>
        simp only [cert] at h ⊢
        by_cases hc : g = g'
        · subst hc
          rw [if_pos rfl] at h ⊢
          obtain ⟨h1, h2⟩ := union_errs (wrap_errs h).1
          refine wrap_sound ?_ h
          exact ⟨((ihy d y' h1).1.mono (union_dead_left e _ _)).refCond g ((ihn d n' h2).1.mono (union_dead_right e _ _)),
            fun hh => headEq_refCond g ((ihy d y' h1).headEq (union_head hh).1) ((ihn d n' h2).headEq (union_head hh).2)⟩
        · rw [if_neg hc] at h; exact absurd h (fail_errs _)
      | _ => exact absurd (by simpa only [cert] using h) (fail_errs _)
    | _ => exact absurd (by simpa only [cert] using h) (fail_errs _)
  | exprCond c y n ihc ihy ihn =>
    intro d p' h
    -- the common part: condition in tail position (first success only), branches as an alternation
    have core : ∀ c' y' n', ((cert o d c c').close.errs ++ (union (cert o d y y') (cert o d n n')).errs) = [] →
        Holds e d (union (cert o d y y') (cert o d n n')) (.exprCond c y n) (.exprCond c' y' n') := by
      intro c' y' n' hh
      rw [List.append_eq_nil_iff] at hh
      obtain ⟨hc1, hc2⟩ := close_errs hh.1
      obtain ⟨h1, h2⟩ := union_errs hh.2
      have hcond := exprCond_eq_of_headEq y n ((ihc d c' hc1).headEq hc2)
      refine ⟨(EqMod.of_eq hcond).trans (((ihy d y' h1).1.mono (union_dead_left e _ _)).exprCond c'
        ((ihn d n' h2).1.mono (union_dead_right e _ _))), fun hd => ?_⟩
      exact (HeadEq.of_eq hcond).trans (headEq_exprCond (HeadEq.refl e d c')
        ((ihy d y' h1).headEq (union_head hd).1) ((ihn d n' h2).headEq (union_head hd).2))
    cases p' with
    | exprCond c' y' n' =>
      simp only [cert] at h ⊢
      exact ⟨(core c' y' n' h).1, (core c' y' n' h).2⟩
    | atomic z =>
      cases z with
      | exprCond c' y' n' =>
        simp only [cert] at h ⊢
        have hw := (wrap_errs h).1
        have hc := core c' y' n' hw
        exact wrap_sound (r := { union (cert o d y y') (cert o d n n') with
            errs := (cert o d c c').close.errs ++ (union (cert o d y y') (cert o d n n')).errs,
            made := (cert o d c c').close.made + (union (cert o d y y') (cert o d n n')).made })
          ⟨hc.1, hc.2⟩ h
      | _ => exact absurd (by simpa only [cert] using h) (fail_errs _)
    | _ => exact absurd (by simpa only [cert] using h) (fail_errs _)
  | quant lzy lo hi x ih =>
    intro d p' h
    simp only [cert] at h ⊢
    by_cases hp : p' = .quant lzy lo hi x
    · subst hp; rw [if_pos rfl]; exact holds_of_eq (fun _ => rfl) _
    · rw [if_neg hp] at h ⊢
      cases hsite : siteOf d lzy lo hi p' x with
      | some r => exact (siteOf_sound hsite).2
      | none =>
        rw [hsite] at h
        exact quantGeneric_sound hs (fun y hy => ih d y hy) p' h

/-- **a certified pair of patterns has the same first success from every state** -/
theorem certTopDir_headEq {e : Env} {o : Oracle} (hs : o.Sound e) {d : Bool} {p p' : Pat} (h : certTopDir o d p p' = true) :
    HeadEq e d p p' := by
  unfold certTopDir at h
  obtain ⟨he, hk⟩ := close_errs (by simpa using h)
  exact (cert_sound hs p d p' he).headEq hk

theorem certTop_headEq {e : Env} {o : Oracle} (hs : o.Sound e) {p p' : Pat} (h : certTop o p p' = true) :
    HeadEq e false p p' := certTopDir_headEq (d := false) hs h

end RegexVerif.AutoAtomic
