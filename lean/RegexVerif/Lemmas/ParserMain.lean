/-
The main loop of the parser (`scanRegex`) is total: every turn consumes at least one rune or leaves
the loop; the unit is nil at the head of every turn; the options stack and the group stack have the
same depth (so neither `popOptions` nor `popGroup` meets an empty stack); the `{`-fallback of the
quantifier scan (`textto(startpos-1)`) is dead after `isTrueQuantifier`.
-/
import RegexVerif.Lemmas.ParserCount
import RegexVerif.Lemmas.ParserScan5

namespace RegexVerif.Parser
open RegexVerif.EscapeParse (isSpaceCh isSpecialCh isQuantCh isDigitCh isTrueQuant isTrueBrace dropDigits)

set_option linter.unusedSimpArgs false

variable (E : Env)

syntax "omega_s" : tactic
macro_rules | `(tactic| omega_s) => `(tactic| first | omega | (dsimp only at *; omega) | (simp only [decide_eq_true_eq, beq_iff_eq, bne_iff_ne] at *; omega))

/-! ## Exact behaviour of the position-only scanners -/

/-- `isTrueQuantifier` at position `p` -/
def TQb (p : Nat) : Bool :=
  match E.pat.drop p with
  | [] => false
  | c :: r => isTrueQuant c r

theorem wp_isTrueQuantifier (Q : Bool → PS → Prop) (R : PS → Prop) (s : PS) :
    wp (isTrueQuantifier E) Q R s ↔ Q (TQb E s.pos) s := by
  unfold wp isTrueQuantifier TQb
  cases E.pat.drop s.pos <;> simp

/-- where `scanBlank` consumes at least one rune -/
def BlankAt (s : PS) : Prop :=
  (s.options.x = true ∧ ∃ c, E.pat[s.pos]? = some c ∧ (isSpaceCh c = true ∨ c = 35)) ∨
  (E.pat[s.pos]? = some 40 ∧ E.pat[s.pos + 1]? = some 63 ∧ E.pat[s.pos + 2]? = some 35)

/-- `scanBlank` changes the position only, forward, inside the pattern, and by at least one rune at a
    blank -/
theorem wp_scanBlank_exact (s : PS) (hs : s.pos ≤ E.pat.length) (Q : Unit → PS → Prop)
    (hq : ∀ p', s.pos ≤ p' → p' ≤ E.pat.length → (BlankAt E s → s.pos + 1 ≤ p') → Q () { s with pos := p' }) :
    wp (scanBlank E) Q (fun _ => True) s := by
  have hb := blankGo_bounds s.options.x (E.pat.drop s.pos) .normal 0
  have hl := drop_length_le E s hs
  have hp : BlankAt E s → 1 ≤ (blankGo s.options.x .normal (E.pat.drop s.pos) 0).1 := by
    intro h
    rcases h with ⟨hx, c, hc, hcc⟩ | ⟨h0, h1, h2⟩
    · rw [drop_eq_cons_of_getElem? hc]
      exact blankGo_pos _ _ _ (Or.inl ⟨hx, hcc⟩)
    · rw [drop_eq_cons_of_getElem? h0]
      refine blankGo_pos _ _ _ (Or.inr ⟨rfl, ?_, ?_⟩)
      · simpa using h1
      · simpa [Nat.add_assoc] using h2
  unfold wp scanBlank
  simp only []
  split
  · rename_i heq
    split at heq
    · simp at heq
    · simp only [Res.ok.injEq] at heq
      obtain ⟨_, rfl⟩ := heq
      exact hq _ (by omega) (by omega) (fun h => by have := hp h; omega)
  · trivial
  · rename_i heq; split at heq <;> simp at heq
  · rename_i heq; split at heq <;> simp at heq

/-- where the run of ordinary characters ends: the end of the pattern, or a stopper that is not a `{`
    without quantifier syntax -/
def StopAt (s : PS) : Prop :=
  s.pos = E.pat.length ∨
  ∃ c, E.pat[s.pos]? = some c ∧ (if s.options.x then isStopperXCh c else isSpecialCh c) = true ∧
    (c = 123 → TQb E s.pos = true)

theorem wp_skipOrdinary (s : PS) (hs : s.pos ≤ E.pat.length) (n : Nat) (hn : E.pat.length - s.pos < n)
    (Q : Unit → PS → Prop)
    (hq : ∀ p', s.pos ≤ p' → p' ≤ E.pat.length → StopAt E { s with pos := p' } → Q () { s with pos := p' }) :
    wp (skipOrdinary E n) Q (fun _ => True) s := by
  unfold skipOrdinary
  refine wp_iter E _ (fun _ s' => ∃ p', s' = { s with pos := p' } ∧ s.pos ≤ p' ∧ p' ≤ E.pat.length) _ _ ?_ _ _ _ hn
    ⟨s.pos, rfl, Nat.le_refl _, hs⟩
  intro _ s1 ⟨p1, he, h1, h2⟩
  subst he
  simp only [wp_bind, wp_charsRight, wp_ite, wp_pure, wp_opts, wp_rightChar, wp_isTrueQuantifier, wp_moveRight]
  refine ⟨?_, ?_⟩
  · intro h0
    exact hq p1 h1 h2 (Or.inl (by omega_s))
  · intro h0
    refine ⟨by omega_s, ?_⟩
    intro c hc
    try dsimp only at hc ⊢
    refine ⟨?_, ?_⟩
    · intro hstop
      refine hq p1 h1 h2 (Or.inr ⟨c, by simpa using hc, hstop.1, ?_⟩)
      intro h123
      rcases hstop.2 with h | h
      · exact absurd h123 h
      · exact h
    · intro _
      exact ⟨⟨p1 + 1, rfl, by omega, by omega⟩, by omega⟩

/-- the head of a turn stands on the end of the pattern or on a special rune (a `{` only with
    quantifier syntax) -/
def HeadOK (s : PS) : Prop :=
  s.pos = E.pat.length ∨ ∃ c, E.pat[s.pos]? = some c ∧ isSpecialCh c = true ∧ (c = 123 → TQb E s.pos = true)

/-- `stepRun`: position only; if nothing at all was consumed the turn stands on a special rune -/
theorem wp_stepRun (s : PS) (hs : s.pos ≤ E.pat.length) (Q : Nat × Nat → PS → Prop)
    (hq : ∀ sp ep p', s.pos ≤ sp → sp ≤ ep → ep ≤ p' → p' ≤ E.pat.length → (p' = s.pos → HeadOK E s) →
      Q (sp, ep) { s with pos := p' }) :
    wp (stepRun E) Q (fun _ => True) s := by
  unfold stepRun
  simp only [wp_bind, wp_textpos, wp_charsRight, wp_pure]
  apply wp_scanBlank_exact E s hs
  intro p1 h1 h1' hb1
  apply wp_skipOrdinary E _ (by omega_s) _ (by omega_s)
  intro p2 h2 h2' hstop
  simp only [wp_bind, wp_textpos, wp_charsRight, wp_pure]
  apply wp_scanBlank_exact E _ (by omega_s)
  intro p3 h3 h3' hb3
  dsimp only at h2 h3 hb3 hstop ⊢
  refine hq p1 p2 p3 h1 h2 h3 h3' ?_
  intro he
  have e1 : p1 = s.pos := by omega
  have e2 : p2 = s.pos := by omega
  subst e1
  rw [e2] at hstop
  rcases hstop with hend | ⟨c, hc, hst, htq⟩
  · exact Or.inl hend
  · dsimp only at hc hst htq
    refine Or.inr ⟨c, hc, ?_, htq⟩
    by_cases hx : s.options.x = true
    · simp only [hx, if_true, isStopperXCh, Bool.or_eq_true, beq_iff_eq] at hst
      rcases hst with (hsp | h35) | hspec
      · have := hb1 (Or.inl ⟨hx, c, hc, Or.inl hsp⟩); omega
      · have := hb1 (Or.inl ⟨hx, c, hc, Or.inr h35⟩); omega
      · exact hspec
    · simpa [hx] using hst

/-! ## Tree-building operations: what they need and what they leave alone -/

/-- the part of the state that the totality of the main loop depends on, apart from the unit -/
structure Keep (s s' : PS) : Prop where
  pos : s'.pos = s.pos
  os : s'.optionsStack = s.optionsStack
  st : s'.stack = s.stack

theorem Keep.refl (s : PS) : Keep s s := ⟨rfl, rfl, rfl⟩

theorem wp_setUnit (u : Option RNode) (Q : Unit → PS → Prop) (R : PS → Prop) (s : PS) :
    wp (setUnit u) Q R s ↔ Q () { s with unit := u } := Iff.rfl

theorem wp_addConcatenate (Q : Unit → PS → Prop) (R : PS → Prop) (s : PS) :
    wp addConcatenate Q R s ↔ s.unit.isSome = true ∧
      ∀ u, s.unit = some u → Q () { s with concatenation := s.concatenation.addChild u, unit := none } := by
  unfold wp addConcatenate
  cases h : s.unit <;> simp

theorem wp_addConcatenate3 (lazy : Bool) (mn mx : Nat) (Q : Unit → PS → Prop) (R : PS → Prop) (s : PS) :
    wp (addConcatenate3 lazy mn mx) Q R s ↔ s.unit.isSome = true ∧
      ∀ u, s.unit = some u →
        Q () { s with concatenation := s.concatenation.addChild (makeQuantifier u lazy mn mx), unit := none } := by
  unfold wp addConcatenate3
  cases h : s.unit <;> simp

/-- `wp` on a result -/
def ResOk {α : Type} (Q : α → PS → Prop) (R : PS → Prop) : Res α → Prop
  | .ok a s => Q a s
  | .err _ s => R s
  | .fault _ => False
  | .fuel => False

theorem wp_eq_resOk {α : Type} (m : M α) (Q : α → PS → Prop) (R : PS → Prop) (s : PS) :
    wp m Q R s = ResOk Q R (m s) := by
  unfold wp ResOk
  cases m s <;> rfl

@[simp] theorem resOk_ok {α : Type} (Q : α → PS → Prop) (R : PS → Prop) (a : α) (s : PS) :
    ResOk Q R (.ok a s) = Q a s := rfl
@[simp] theorem resOk_err {α : Type} (Q : α → PS → Prop) (R : PS → Prop) (c : ErrCode) (s : PS) :
    ResOk Q R (.err c s : Res α) = R s := rfl
@[simp] theorem resOk_fault {α : Type} (Q : α → PS → Prop) (R : PS → Prop) (f : Fault) :
    ResOk Q R (.fault f : Res α) = False := rfl
theorem resOk_ite {α : Type} (Q : α → PS → Prop) (R : PS → Prop) (c : Prop) [Decidable c] (x y : Res α) :
    ResOk Q R (if c then x else y) ↔ (c → ResOk Q R x) ∧ (¬c → ResOk Q R y) := by
  split <;> simp_all

theorem wp_addAlternate (Q : Unit → PS → Prop) (R : PS → Prop) (s : PS)
    (hq : ∀ s', Keep s s' → s'.unit = s.unit → Q () s') : wp addAlternate Q R s := by
  unfold addAlternate
  rw [wp_modify]
  apply hq
  · constructor <;> (dsimp only; split <;> rfl)
  · dsimp only; split <;> rfl

theorem wp_addGroup (Q : Unit → PS → Prop) (s : PS)
    (hq : ∀ s', Keep s s' → s'.unit.isSome = true → Q () s') : wp addGroup Q (fun _ => True) s := by
  rw [wp_eq_resOk]
  unfold addGroup
  simp only [resOk_ite, resOk_ok, resOk_err, implies_true, true_and, and_true]
  refine ⟨fun _ _ => hq _ ⟨rfl, rfl, rfl⟩ rfl, fun _ => hq _ ⟨rfl, rfl, rfl⟩ rfl⟩

theorem wp_popGroup (Q : Unit → PS → Prop) (s : PS) (hne : s.stack ≠ [])
    (hq : ∀ s', s'.pos = s.pos → s'.optionsStack = s.optionsStack → s'.stack = s.stack.tail → Q () s') :
    wp popGroup Q (fun _ => True) s := by
  rw [wp_eq_resOk]
  unfold popGroup
  cases hst : s.stack with
  | nil => exact absurd hst hne
  | cons fr st =>
    cases hu : s.unit <;>
      simp only [hu, resOk_ite, resOk_ok, resOk_err, implies_true, true_and, and_true] <;>
      first
        | exact fun _ => hq _ rfl rfl (by simp [hst])
        | exact ⟨fun _ => hq _ rfl rfl (by simp [hst]), fun _ => hq _ rfl rfl (by simp [hst])⟩

theorem wp_addToConcatenate (pos cch : Nat) (Q : Unit → PS → Prop) (R : PS → Prop) (s : PS)
    (hb : cch = 0 ∨ pos + cch ≤ E.pat.length)
    (hq : ∀ s', Keep s s' → s'.unit = s.unit → Q () s') : wp (addToConcatenate E pos cch) Q R s := by
  rw [wp_eq_resOk]
  unfold addToConcatenate
  simp only [resOk_ite, resOk_ok, resOk_err, resOk_fault]
  refine ⟨fun _ => hq _ (Keep.refl _) rfl, fun h0 => ⟨fun h1 => by omega, fun _ => ⟨fun _ => hq _ ⟨rfl, rfl, rfl⟩ rfl,
    fun _ => ⟨fun _ => hq _ ⟨rfl, rfl, rfl⟩ rfl, fun _ => hq _ ⟨rfl, rfl, rfl⟩ rfl⟩⟩⟩⟩

/-! ## The quantifier scan: the `{`-fallback is dead after `isTrueQuantifier` -/

theorem decGo_some : ∀ (r : List Nat) (acc k v k' : Nat), decGo r acc k = (some v, k') →
    k ≤ k' ∧ r.drop (k' - k) = dropDigits r ∧ (∀ d r', r = d :: r' → isDigitCh d = true → k < k') := by
  intro r
  induction r with
  | nil =>
    intro acc k v k' h
    simp only [decGo, Prod.mk.injEq, Option.some.injEq] at h
    obtain ⟨_, rfl⟩ := h
    exact ⟨Nat.le_refl _, by simp [dropDigits], fun _ _ h => by simp at h⟩
  | cons c r ih =>
    intro acc k v k' h
    simp only [decGo] at h
    split at h
    · rename_i hd
      split at h
      · simp at h
      · obtain ⟨h1, h2, _⟩ := ih _ _ _ _ h
        refine ⟨by omega, ?_, fun _ _ _ _ => by omega⟩
        have : k' - k = (k' - (k + 1)) + 1 := by omega
        rw [this, List.drop_succ_cons, h2]
        simp [dropDigits, hd]
    · rename_i hd
      simp only [Prod.mk.injEq, Option.some.injEq] at h
      obtain ⟨_, rfl⟩ := h
      refine ⟨Nat.le_refl _, by simp [dropDigits, hd], fun d r' he hdd => ?_⟩
      simp only [List.cons.injEq] at he
      rw [he.1] at hd
      exact absurd hdd hd

theorem wp_scanDecimal_exact (s : PS) (Q : Nat → PS → Prop)
    (hq : ∀ v k, decGo (E.pat.drop s.pos) 0 0 = (some v, k) → Q v { s with pos := s.pos + k }) :
    wp (scanDecimal E) Q (fun _ => True) s := by
  rw [wp_eq_resOk]
  unfold scanDecimal
  dsimp only
  cases h : (decGo (E.pat.drop s.pos) 0 0).1 with
  | none => simp
  | some v =>
    simp only [resOk_ok]
    exact hq v _ (by rw [← h])

theorem drop_cons_facts {p c : Nat} {r : List Nat} (h : E.pat.drop p = c :: r) :
    p < E.pat.length ∧ E.pat[p]? = some c ∧ E.pat.drop (p + 1) = r := by
  have hlt : p < E.pat.length := by
    by_cases hp : p < E.pat.length
    · exact hp
    · rw [List.drop_eq_nil_of_le (by omega)] at h; simp at h
  rw [List.drop_eq_getElem_cons hlt] at h
  simp only [List.cons.injEq] at h
  exact ⟨hlt, by rw [List.getElem?_eq_getElem hlt, h.1], h.2⟩

theorem isTrueBrace_cases (r : List Nat) (h : isTrueBrace r = true) :
    (∃ d r', r = d :: r' ∧ isDigitCh d = true) ∧
    ((∃ t, dropDigits r = 125 :: t) ∨ (∃ r2 t, dropDigits r = 44 :: r2 ∧ dropDigits r2 = 125 :: t)) := by
  unfold isTrueBrace at h
  split at h
  · simp at h
  · rename_i d r'
    split at h
    · rename_i hd
      refine ⟨⟨d, r', rfl, hd⟩, ?_⟩
      split at h
      · rename_i t heq; exact Or.inl ⟨t, heq⟩
      · rename_i r2 heq
        split at h
        · rename_i t heq2; exact Or.inr ⟨r2, t, heq, heq2⟩
        · simp at h
      · simp at h
    · simp at h

theorem wp_quantClosed_ok (s : PS) (startpos : Nat) (t : List Nat) (hne : startpos ≠ s.pos)
    (hd : E.pat.drop s.pos = 125 :: t) (Q : Bool → PS → Prop) (R : PS → Prop)
    (hq : Q true { s with pos := s.pos + 1 }) : wp (quantClosed E startpos) Q R s := by
  obtain ⟨hlt, hc, _⟩ := drop_cons_facts E hd
  unfold quantClosed
  simp only [wp_bind, wp_textpos, wp_charsRight, wp_ite, wp_pure, wp_moveRightGetChar]
  refine ⟨fun h => ?_, fun _ => ⟨hlt, fun c hc' => ?_⟩⟩
  · rcases h with h | h
    · exact absurd h hne
    · omega
  · rw [hc] at hc'
    simp only [Option.some.injEq] at hc'
    subst hc'
    exact hq

theorem wp_quantMax (s : PS) (startpos mn : Nat) (hlt : startpos < s.pos)
    (hd : (∃ t, E.pat.drop s.pos = 125 :: t) ∨
          (∃ r2 t, E.pat.drop s.pos = 44 :: r2 ∧ dropDigits r2 = 125 :: t))
    (Q : Nat → PS → Prop)
    (hq : ∀ mx p' t, s.pos ≤ p' → E.pat.drop p' = 125 :: t → Q mx { s with pos := p' }) :
    wp (quantMax E startpos mn) Q (fun _ => True) s := by
  unfold quantMax
  simp only [wp_bind, wp_textpos, wp_ite, nextIs, wp_charsRight, wp_rightChar, wp_pure, wp_moveRight, orM, rcIs]
  refine ⟨fun _ => ?_, fun h => absurd hlt h⟩
  rcases hd with ⟨t, hd⟩ | ⟨r2, t, hd, hd2⟩
  · obtain ⟨hl, hc, _⟩ := drop_cons_facts E hd
    refine ⟨fun _ => ⟨by omega, fun c hc' => ?_⟩, fun h => by omega⟩
    rw [Nat.add_zero, hc] at hc'
    simp only [Option.some.injEq] at hc'
    subst hc'
    simp only [Nat.reduceBEq, Bool.false_eq_true, if_false]
    exact ⟨fun h => by simp at h, fun _ => hq mn s.pos t (Nat.le_refl _) hd⟩
  · obtain ⟨hl, hc, hrest⟩ := drop_cons_facts E hd
    refine ⟨fun _ => ⟨by omega, fun c hc' => ?_⟩, fun h => by omega⟩
    rw [Nat.add_zero, hc] at hc'
    simp only [Option.some.injEq] at hc'
    subst hc'
    refine ⟨fun _ => ?_, fun h => by simp at h⟩
    try dsimp only
    -- after the comma: `r2` starts at `pos + 1`
    cases hr2 : r2 with
    | nil => rw [hr2] at hd2; simp [dropDigits] at hd2
    | cons c2 r3 =>
      rw [hr2] at hrest
      obtain ⟨hl2, hc2, _⟩ := drop_cons_facts E hrest
      refine ⟨fun h => by simp only [decide_eq_true_eq] at h; omega, fun _ => ⟨by omega, fun c hc' => ?_⟩⟩
      rw [Nat.add_zero, hc2] at hc'
      simp only [Option.some.injEq] at hc'
      subst hc'
      refine ⟨fun h125 => ?_, fun hn125 => ?_⟩
      · have h125' : c2 = 125 := by simpa using h125
        subst h125'
        exact hq _ (s.pos + 1) r3 (by omega) hrest
      · apply wp_scanDecimal_exact
        intro v k hdec
        dsimp only at hdec ⊢
        rw [hrest, ← hr2] at hdec
        obtain ⟨_, hdd, _⟩ := decGo_some _ _ _ _ _ hdec
        refine hq v (s.pos + 1 + k) t (by omega) ?_
        rw [← List.drop_drop, hrest, ← hr2]
        rw [Nat.sub_zero] at hdd
        rw [hdd, hd2]

theorem wp_quantBrace (s : PS) (hb : isTrueBrace (E.pat.drop s.pos) = true)
    (Q : Option (Nat × Nat) → PS → Prop)
    (hq : ∀ mn mx p', s.pos ≤ p' → p' ≤ E.pat.length → Q (some (mn, mx)) { s with pos := p' }) :
    wp (quantBrace E) Q (fun _ => True) s := by
  obtain ⟨⟨d, r', hr, hd⟩, hcases⟩ := isTrueBrace_cases _ hb
  unfold quantBrace
  simp only [wp_bind, wp_textpos]
  apply wp_scanDecimal_exact
  intro v k hdec
  obtain ⟨_, hdd, hk⟩ := decGo_some _ _ _ _ _ hdec
  have hk' := hk d r' hr hd
  rw [Nat.sub_zero, List.drop_drop] at hdd
  apply wp_quantMax E _ _ _ (by dsimp only; omega)
  · dsimp only
    rw [hdd]
    exact hcases
  · intro mx p' t hp' hdp
    obtain ⟨hl, _, _⟩ := drop_cons_facts E hdp
    dsimp only at hp' ⊢
    apply wp_quantClosed_ok E _ _ t (by dsimp only; omega) hdp
    simp only [Bool.not_true, Bool.false_eq_true, if_false, wp_pure]
    exact hq v mx (p' + 1) (by omega) (by omega)

/-! ## The pieces of one turn of `scanRegex` -/

/-- the position went forward inside the pattern; both stacks are untouched -/
structure Fwd (s s' : PS) : Prop where
  le : s.pos ≤ s'.pos
  inside : s'.pos ≤ E.pat.length
  os : s'.optionsStack = s.optionsStack
  st : s'.stack = s.stack
  gr : s'.group = s.group

macro_rules
  | `(tactic| wp_simp3) => `(tactic| simp only [andM, orM, andMM, rcIs, rcNe, getIs, nextIs, wp_bind, wp_pure, wp_ite,
      wp_moveRightGetChar, wp_moveLeft, wp_textpos, wp_opts, wp_charsRight, wp_rest, wp_moveRight, wp_throw, wp_textto,
      wp_rightChar, wp_charAt, wp_get, wp_modify, wp_fault, wp_setOpts, wp_isCaptureSlot, wp_captureSlotFromName,
      wp_hasCapnames, wp_consumeAutocap, wp_emptyOptionsStack, wp_pushOptions, Bool.false_eq_true, if_false, if_true,
      wp_isTrueQuantifier, wp_setUnit, wp_addConcatenate, wp_addConcatenate3, wp_popOptions, wp_popKeepOptions,
      pushGroup, startGroup])

attribute [local irreducible] wp

theorem wp_quantApply (mn mx : Nat) (s : PS) (hs : s.pos ≤ E.pat.length) (hu : s.unit.isSome = true) :
    wp (quantApply E mn mx) (fun _ s' => Fwd E s s' ∧ s'.unit = none) (fun _ => True) s := by
  unfold quantApply
  wp_run

theorem TQb_brace {p : Nat} (h1 : 1 ≤ p) (hc : E.pat[p - 1]? = some 123) (htq : TQb E (p - 1) = true) :
    isTrueBrace (E.pat.drop p) = true := by
  unfold TQb at htq
  rw [drop_eq_cons_of_getElem? hc] at htq
  have : p - 1 + 1 = p := by omega
  simpa [isTrueQuant, this] using htq

theorem wp_scanQuantifier (q : Nat) (s : PS) (hs : s.pos ≤ E.pat.length) (h1 : 1 ≤ s.pos)
    (hu : s.unit.isSome = true) (hc : E.pat[s.pos - 1]? = some q) (htq : TQb E (s.pos - 1) = true) :
    wp (scanQuantifier E q) (fun _ s' => Fwd E s s' ∧ s'.unit = none) (fun _ => True) s := by
  unfold scanQuantifier quantBounds
  wp_run
  · exact wp_quantApply E _ _ s hs hu
  · exact wp_quantApply E _ _ s hs hu
  · exact wp_quantApply E _ _ s hs hu
  · rename_i hq
    subst hq
    apply wp_quantBrace E s (TQb_brace E h1 hc htq)
    intro mn mx p' hp hp'
    refine wp_mono (wp_quantApply E mn mx _ hp' hu) ?_ ?_
    · intro _ s' ⟨hf, hun⟩
      exact ⟨⟨by have := hf.le; dsimp only at this; omega, hf.inside, hf.os, hf.st, hf.gr⟩, hun⟩
    · intros; trivial

theorem TQb_end {p : Nat} (h : E.pat.length ≤ p) : TQb E p = false := by
  unfold TQb
  rw [List.drop_eq_nil_of_le h]

/-- what follows a unit: it joins the concatenation (with its quantifier); without progress only when
    no quantifier stands at the position -/
theorem wp_stepAfter (b : Bool) (s : PS) (hs : s.pos ≤ E.pat.length) (hu : s.unit.isSome = true) :
    wp (stepAfter E b)
      (fun r s' => (∃ b', r = .inl b') ∧ Fwd E s s' ∧ s'.unit = none ∧ (s'.pos = s.pos → TQb E s.pos = false))
      (fun _ => True) s := by
  unfold stepAfter
  wp_run
  · rename_i s1 _ _ _ _ _ h3 _ _ he
    rw [← he]
    rcases h3 with h3 | h3
    · omega
    · simpa using h3
  · rename_i s1 h7 h6 h5 _ _ h2 c hc
    have htq : TQb E s1.pos = true := by
      cases h : TQb E s1.pos
      · exact absurd (Or.inr (by simp [h])) h2
      · rfl
    refine wp_mono (wp_scanQuantifier E c _ (by dsimp only; omega) (by dsimp only; omega)
      (by dsimp only; rw [h5.2.2.1]; exact hu) (by simpa using hc) (by simpa using htq)) ?_ ?_
    · intro _ s' ⟨hf, hun⟩
      refine ⟨⟨_, rfl⟩, ⟨by have := hf.le; dsimp only at this; omega, hf.inside, ?_, ?_, ?_⟩, hun, ?_⟩
      · rw [hf.os]; exact h5.1
      · rw [hf.st]; exact h5.2.1
      · rw [hf.gr]; exact h5.2.2.2.1
      · intro he; have := hf.le; dsimp only at this; omega
    · intros; trivial
  · rename_i s1 _ _ _ _ h4 _ _ _ he
    exact TQb_end E (by omega)

theorem wp_stepLiteral (sp ep : Nat) (isQ wp0 : Bool) (s : PS) (hse : sp ≤ ep) (hep : ep ≤ E.pat.length) :
    wp (stepLiteral E sp ep isQ wp0) (fun _ s' => Keep s s' ∧ (isQ = false → s'.unit = s.unit)) (fun _ => True) s := by
  unfold stepLiteral
  wp_run
  all_goals
    apply wp_addToConcatenate E _ _ _ _ _ (Or.inr (by omega))
    intro s1 hk hu
    wp_run
  all_goals exact ⟨hk.pos, hk.os, hk.st⟩

theorem wp_stepHead (s : PS) (hs : s.pos ≤ E.pat.length) :
    wp (stepHead E)
      (fun r s' => (r = (33, false) ∧ s' = s ∧ s.pos = E.pat.length) ∨
        (r = (32, false) ∧ s' = s ∧ ∃ c, E.pat[s.pos]? = some c ∧ isSpecialCh c = false) ∨
        (∃ c, E.pat[s.pos]? = some c ∧ isSpecialCh c = true ∧ r = (c, isQuantCh c) ∧
          s' = { s with pos := s.pos + 1 }))
      (fun _ => True) s := by
  unfold stepHead
  wp_run

/-- `(`: the options are pushed, and popped again unless a group is opened -/
theorem wp_stepOpen (b : Bool) (s : PS) (hs : s.pos ≤ E.pat.length)
    (hl : s.optionsStack.length = s.stack.length) :
    wp (stepOpen E b)
      (fun r s' => (∃ b', r = .inl b') ∧ s.pos ≤ s'.pos ∧ s'.pos ≤ E.pat.length ∧
        s'.optionsStack.length = s'.stack.length ∧ s'.unit = s.unit)
      (fun _ => True) s := by
  unfold stepOpen
  wp_run

/-- `)`: the group is closed; neither stack is empty -/
theorem wp_stepClose (b : Bool) (s : PS) (hs : s.pos ≤ E.pat.length)
    (hl : s.optionsStack.length = s.stack.length) :
    wp (stepClose E b)
      (fun r s' => (∃ b', r = .inl b') ∧ s.pos ≤ s'.pos ∧ s'.pos ≤ E.pat.length ∧
        s'.optionsStack.length = s'.stack.length ∧ s'.unit = none)
      (fun _ => True) s := by
  unfold stepClose
  wp_run
  rename_i hne
  apply wp_addGroup
  intro s1 hk1 hu1
  try wp_simp3
  apply wp_popGroup _ _ (by rw [hk1.st]; intro h; simp [h] at hne)
  intro s2 h2p h2o h2s
  try wp_simp3
  have hne2 : s2.optionsStack ≠ [] := by
    rw [h2o, hk1.os]
    intro h
    rw [h] at hl
    have : s.stack = [] := List.eq_nil_of_length_eq_zero (by simpa using hl.symm)
    simp [this] at hne
  have hlen : s2.optionsStack.tail.length = s2.stack.length := by
    rw [h2o, h2s, hk1.os, hk1.st, List.length_tail, List.length_tail, hl]
  have hp1 := hk1.pos
  refine ⟨hne2, ?_⟩
  intro o ho
  refine ⟨fun hun => ⟨⟨_, rfl⟩, by omega_s, by omega_s, hlen, ?_⟩, fun hun => ?_⟩
  · cases h : s2.unit <;> simp_all
  refine wp_mono (wp_stepAfter E b _ (by omega_s) (by cases h : s2.unit <;> simp_all)) ?_ ?_
  · intro r s3 ⟨hb, hf, hu3, _⟩
    refine ⟨hb, by have := hf.le; omega_s, hf.inside, ?_, hu3⟩
    rw [hf.os, hf.st]
    exact hlen
  · intros; trivial

theorem wp_stepIsPythonRef (o : Opts) (s : PS) (Q : Bool → PS → Prop) (R : PS → Prop)
    (hq : ∀ b, (b = true → s.pos + 3 ≤ E.pat.length) → Q b s) : wp (stepIsPythonRef E o) Q R s := by
  by_cases hig : s.ignoreNextParen = true
  · have : wp (stepIsPythonRef E o) Q R s = Q false s := by
      unfold wp stepIsPythonRef; simp [hig]
    rw [this]
    exact hq false (by intro h; cases h)
  · have hcore : wp (stepIsPythonRefCore E o) Q R s := by
      unfold stepIsPythonRefCore
      wp_run
      all_goals (apply hq; intro hb; first | omega | simp at hb)
    have : wp (stepIsPythonRef E o) Q R s = wp (stepIsPythonRefCore E o) Q R s := by
      unfold wp stepIsPythonRef; simp [hig]
    rw [this]
    exact hcore

theorem isQuantCh_iff (c : Nat) : isQuantCh c = true ↔ c = 42 ∨ c = 43 ∨ c = 63 ∨ c = 123 := by
  simp [isQuantCh]

/-- the unit is nil unless the rune is a quantifier -/
theorem unit_none_of_not_quant {s : PS} {ch : Nat} (hu : s.unit.isSome = true → isQuantCh ch = true)
    (hq : isQuantCh ch = false) : s.unit = none := by
  cases h : s.unit with
  | none => rfl
  | some u => rw [h] at hu; simp [hq] at hu

theorem stepAfter_to_switch (isQ : Bool) (ch : Nat) (s s1 : PS) (h1le : s1.pos ≤ E.pat.length)
    (hu1 : s1.unit.isSome = true) (hos : s1.optionsStack = s.optionsStack) (hst : s1.stack = s.stack)
    (hl : s.optionsStack.length = s.stack.length)
    (hprog : s.pos ≤ s1.pos ∨ (isQuantCh ch = true ∧ s1.pos + 1 = s.pos)) :
    wp (stepAfter E isQ)
      (fun r s' => (∃ b', r = .inl b') ∧ s'.pos ≤ E.pat.length ∧ s'.optionsStack.length = s'.stack.length ∧
        s'.unit = none ∧
        (s.pos ≤ s'.pos ∨ (isQuantCh ch = true ∧ s'.pos + 1 = s.pos ∧ TQb E s'.pos = false)))
      (fun _ => True) s1 := by
  refine wp_mono (wp_stepAfter E isQ s1 h1le hu1) ?_ ?_
  · intro r s3 ⟨hb, hf, hu3, htq⟩
    refine ⟨hb, hf.inside, by rw [hf.os, hf.st, hos, hst]; exact hl, hu3, ?_⟩
    have := hf.le
    rcases hprog with h | ⟨hq, h⟩
    · exact Or.inl (by omega)
    · by_cases he : s3.pos = s1.pos
      · exact Or.inr ⟨hq, by omega, by rw [he]; exact htq he⟩
      · exact Or.inl (by omega)
  · intros; trivial

theorem wp_stepSwitch (o : Opts) (ch : Nat) (isQ wasPrev : Bool) (s : PS) (hs : s.pos ≤ E.pat.length)
    (h1 : 1 ≤ s.pos) (hl : s.optionsStack.length = s.stack.length) (hc : E.pat[s.pos - 1]? = some ch)
    (hu : s.unit.isSome = true → isQuantCh ch = true) :
    wp (stepSwitch E o ch isQ wasPrev)
      (fun r s' => (∃ b', r = .inl b') ∧ s'.pos ≤ E.pat.length ∧ s'.optionsStack.length = s'.stack.length ∧
        s'.unit = none ∧
        (s.pos ≤ s'.pos ∨ (isQuantCh ch = true ∧ s'.pos + 1 = s.pos ∧ TQb E s'.pos = false)))
      (fun _ => True) s := by
  unfold stepSwitch
  wp_run
  -- `[`
  · rename_i h _
    exact stepAfter_to_switch E _ _ s _ (by omega_s) rfl h.1 h.2.1 hl (Or.inl (by omega_s))
  -- `(`
  · rename_i h40
    apply wp_stepIsPythonRef
    intro b hb
    wp_run
    · rename_i h _
      exact stepAfter_to_switch E _ _ s _ (by omega_s) rfl h.1 h.2.1 hl (Or.inl (by omega_s))
    · refine wp_mono (wp_stepOpen E isQ s hs hl) ?_ ?_
      · intro r s' ⟨hb', h2, h3, h4, h5⟩
        exact ⟨hb', h3, h4, by rw [h5]; exact unit_none_of_not_quant hu (by subst h40; decide), Or.inl h2⟩
      · intros; trivial
  -- `|`
  · rename_i h124
    apply wp_addAlternate
    intro s' hk hu'
    exact ⟨⟨_, rfl⟩, by rw [hk.pos]; exact hs, by rw [hk.os, hk.st]; exact hl,
      by rw [hu']; exact unit_none_of_not_quant hu (by subst h124; decide), Or.inl (by rw [hk.pos]; exact Nat.le_refl _)⟩
  -- `)`
  · refine wp_mono (wp_stepClose E isQ s hs hl) ?_ ?_
    · intro r s' ⟨hb', h2, h3, h4, h5⟩
      exact ⟨hb', h3, h4, h5, Or.inl h2⟩
    · intros; trivial
  -- backslash
  · rename_i h _
    exact stepAfter_to_switch E _ _ s _ (by omega_s) rfl h.1 h.2.1 hl (Or.inl (by omega_s))
  all_goals first
    | exact stepAfter_to_switch E _ _ s _ (by omega_s) rfl rfl rfl hl (Or.inl (by omega_s))
    | skip
  -- a quantifier
  rename_i hq hun
  refine stepAfter_to_switch E _ _ s _ (by omega_s) ?_ rfl rfl hl
    (Or.inr ⟨(isQuantCh_iff ch).mpr (by omega), by dsimp only; omega⟩)
  cases h : s.unit <;> simp_all

/-! ## One turn, the loop, `Parse` -/

theorem TQb_of_quant {p c : Nat} (hc : E.pat[p]? = some c) (h123 : c ≠ 123) (hq : isQuantCh c = true) :
    TQb E p = true := by
  unfold TQb
  rw [drop_eq_cons_of_getElem? hc]
  simp [isTrueQuant, h123, hq]

/-- the invariant at the head of every turn of `scanRegex` -/
def TurnInv (s : PS) : Prop :=
  s.pos ≤ E.pat.length ∧ s.unit = none ∧ s.optionsStack.length = s.stack.length

/-- **one turn of `scanRegex` leaves the loop or consumes at least one rune**, keeping the invariant -/
theorem wp_scanStep (b : Bool) (s : PS) (hs : s.pos < E.pat.length) (hu : s.unit = none)
    (hl : s.optionsStack.length = s.stack.length) :
    wp (scanStep E b)
      (fun r s' => match r with
        | .inl _ => TurnInv E s' ∧ E.pat.length - s'.pos < E.pat.length - s.pos
        | .inr _ => True)
      (fun _ => True) s := by
  unfold scanStep
  simp only [wp_bind]
  apply wp_stepRun E s (by omega)
  intro sp ep p' h1 h2 h3 h4 hhead
  refine wp_mono (wp_stepHead E _ (by omega_s)) ?_ (fun _ _ => trivial)
  intro r s2 hcases
  dsimp only at hcases ⊢
  rcases hcases with ⟨hr, hs2, hend⟩ | ⟨hr, hs2, c, hc, hsp⟩ | ⟨c, hc, hsp, hr, hs2⟩
  · subst hr hs2
    refine wp_mono (wp_stepLiteral E sp ep _ b _ h2 (by omega)) ?_ (fun _ _ => trivial)
    intro _ s3 _
    simp only [wp_opts, wp_ite, wp_pure]
    exact ⟨fun _ => trivial, fun h => absurd trivial h⟩
  · subst hr hs2
    refine wp_mono (wp_stepLiteral E sp ep _ b _ h2 (by omega)) ?_ (fun _ _ => trivial)
    intro _ s3 ⟨hk, hun⟩
    simp only [wp_opts, wp_ite, wp_pure]
    refine ⟨fun h => by simp at h, fun _ => ⟨fun _ => ?_, fun h => absurd trivial h⟩⟩
    have hp3 := hk.pos
    dsimp only at hp3 hc
    refine ⟨⟨by omega, by rw [hun rfl]; exact hu, by rw [hk.os, hk.st]; exact hl⟩, ?_⟩
    have hne : p' ≠ s.pos := by
      intro he
      rcases hhead he with hend | ⟨c', hc', hsp', _⟩
      · omega
      · rw [he] at hc
        rw [hc] at hc'
        simp only [Option.some.injEq] at hc'
        subst hc'
        simp [hsp] at hsp'
    omega
  · subst hr hs2
    refine wp_mono (wp_stepLiteral E sp ep _ b _ h2 (by omega)) ?_ (fun _ _ => trivial)
    intro wasPrev s3 ⟨hk, hun⟩
    simp only [wp_opts, wp_ite, wp_pure]
    have hp3 := hk.pos
    dsimp only at hp3 hc
    have hlt := (List.getElem?_eq_some_iff.mp hc).1
    refine ⟨fun h => ?_, fun _ => ⟨fun h => ?_, fun _ => ?_⟩⟩
    · subst h; simp [isSpecialCh] at hsp
    · subst h; simp [isSpecialCh] at hsp
    · refine wp_mono (wp_stepSwitch E _ c _ wasPrev s3 (by omega) (by omega)
        (by rw [hk.os, hk.st]; exact hl) (by rw [hp3]; simpa using hc) ?_) ?_ (fun _ _ => trivial)
      · intro hsome
        cases hq : isQuantCh c with
        | true => rfl
        | false =>
          have := hun hq
          dsimp only at this
          rw [this, hu] at hsome
          simp at hsome
      · intro r s' ⟨⟨b', hb'⟩, hin, hlen, hnone, hprog⟩
        subst hb'
        dsimp only
        refine ⟨⟨hin, hnone, hlen⟩, ?_⟩
        rcases hprog with hge | ⟨hq, hpe, htq⟩
        · omega
        · have hne : p' ≠ s.pos := by
            intro he
            have hs' : s'.pos = s.pos := by omega
            rw [hs'] at htq
            rcases hhead he with hend | ⟨c', hc', _, h123⟩
            · omega
            · rw [he] at hc
              rw [hc] at hc'
              simp only [Option.some.injEq] at hc'
              subst hc'
              by_cases hc123 : c = 123
              · rw [h123 hc123] at htq; simp at htq
              · rw [TQb_of_quant E hc hc123 hq] at htq; simp at htq
          omega

/-- after the loop of `scanRegex`: the root group is closed, which sets the unit -/
syntax "fin_tac" : tactic
macro_rules
  | `(tactic| fin_tac) => `(tactic| (
      try simp only [wp_bind, wp_get, wp_ite, wp_throw]
      refine ⟨fun _ => trivial, fun _ => ?_⟩
      apply wp_addGroup
      intro s2 _ hsome
      try simp only [wp_bind, wp_get]
      split
      · simp only [wp_pure]
      · simp_all))

/-- **the main scan is total** -/
theorem wp_scanRegex (s : PS) (hs : s.pos ≤ E.pat.length) (hu : s.unit = none)
    (hl : s.optionsStack.length = s.stack.length) (n : Nat) (hn : E.pat.length - s.pos < n) :
    wp (scanRegex E n) (fun _ _ => True) (fun _ => True) s := by
  unfold scanRegex
  simp only [wp_bind, wp_opts, startGroup, wp_modify]
  refine wp_iter E _ (fun _ s' => TurnInv E s') _ _ ?_ _ _ _ (by dsimp only; omega) ⟨hs, hu, hl⟩
  intro b s1 ⟨h1, h2, h3⟩
  simp only [wp_bind, wp_charsRight, wp_ite, wp_pure]
  refine ⟨fun _ => ?_, fun h0 => ?_⟩
  · fin_tac
  · refine wp_mono (wp_scanStep E b s1 (by omega) h2 h3) ?_ (fun _ _ => trivial)
    intro r s2 h
    cases r with
    | inl b' => exact h
    | inr _ => fin_tac

/-- **`Parse` is total** with any fuel above the length of the pattern: a tree or an `ErrorCode`,
    never a fault, never out of fuel -/
theorem parseFuel_total (n : Nat) (hn : E.pat.length < n) :
    (∃ t, parseFuel E n = .ok t) ∨ (∃ c, parseFuel E n = .error c) := by
  unfold parseFuel
  have h1 := wp_countCaptures E { options := E.opts } (Nat.zero_le _) n (by dsimp only; omega)
  rw [wp_eq_resOk] at h1
  cases hcc : countCaptures E n { options := E.opts } with
  | ok t s' =>
    simp only []
    have h2 := wp_scanRegex E (resetState E t) (Nat.zero_le _) rfl rfl n (by simp only [resetState]; omega)
    rw [wp_eq_resOk] at h2
    cases hsr : scanRegex E n (resetState E t) with
    | ok root s'' => exact Or.inl ⟨_, rfl⟩
    | err c s'' => exact Or.inr ⟨_, rfl⟩
    | fault f => rw [hsr] at h2; exact h2.elim
    | fuel => rw [hsr] at h2; exact h2.elim
  | err c s' => exact Or.inr ⟨_, rfl⟩
  | fault f => rw [hcc] at h1; exact h1.elim
  | fuel => rw [hcc] at h1; exact h1.elim

end RegexVerif.Parser
