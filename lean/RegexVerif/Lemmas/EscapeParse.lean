/-
Helper lemmas for the C19 theorems about `RegexVerif.Model.EscapeParse` (the pattern parser on the
literal fragment): one turn of the parser loop on one escaped rune, consumption (fuel sufficiency), and
the agreement of the option-free instance with the `Unescape` model.
-/
import RegexVerif.Model.EscapeParse
import RegexVerif.Lemmas.Escape

namespace RegexVerif.Lemmas.EscapeParse
open RegexVerif RegexVerif.Escape RegexVerif.EscapeParse RegexVerif.Lemmas.Escape

/-! ### tables -/

/-- every rune that the parser does not treat as an ordinary rune at the head of its loop under some
    option set: the specials, and under IgnorePatternWhitespace the blank ` ` and `#` -/
def stoppers : List Nat := [32, 35, 36, 40, 41, 42, 43, 46, 63, 91, 92, 94, 123, 124]

/-- a rune that `scanBackslash` … `scanCharEscape` read as itself after a backslash whatever the options
    (word-ness aside): `plainAfterBackslash` (not an octal digit, none of `x u a b e f n r t v c`) and
    moreover none of the anchor, class, property and reference letters `b B A G Z z w W s S d D p P k`,
    not `<` or `'`, not a digit -/
def plainAfterBackslashP (c : Nat) : Bool :=
  plainAfterBackslash c &&
  !([98, 66, 65, 71, 90, 122, 119, 87, 115, 83, 100, 68, 112, 80, 107, 60, 39].contains c) &&
  !(decide (48 ≤ c ∧ c ≤ 57))

theorem meta_plainP : Generated.metaChars.all plainAfterBackslashP = true := by decide

theorem stoppers_in_meta : stoppers.all Generated.metaChars.contains = true := by decide

theorem not_meta_not_stopper (r : Nat) (h : Generated.metaChars.contains r = false) :
    stoppers.contains r = false := by
  cases hs : stoppers.contains r with
  | false => rfl
  | true =>
    have := List.all_eq_true.mp stoppers_in_meta r (by simpa using hs)
    rw [this] at h; cases h

/-! ### blanks -/

theorem skipBlank_nil (o : ParseOpts) : skipBlank o [] = [] := by
  unfold skipBlank; split <;> simp [skipBlankX]

theorem skipBlank_cons (o : ParseOpts) (c : Nat) (p : List Nat)
    (hs : isSpaceCh c = false) (hh : c ≠ 35) : skipBlank o (c :: p) = c :: p := by
  unfold skipBlank; split <;> simp [skipBlankX, hs, hh]

theorem skipBlankX_length (b : Bool) (p : List Nat) : (skipBlankX b p).length ≤ p.length := by
  induction p generalizing b with
  | nil => cases b <;> simp [skipBlankX]
  | cons c r ih =>
    cases b
    · simp only [skipBlankX]
      split
      · have := ih false; simp only [List.length_cons]; omega
      · split
        · have := ih true; simp only [List.length_cons]; omega
        · simp
    · simp only [skipBlankX]
      split
      · have := ih false; simp only [List.length_cons]; omega
      · have := ih true; simp only [List.length_cons]; omega

theorem skipBlank_length (o : ParseOpts) (p : List Nat) : (skipBlank o p).length ≤ p.length := by
  unfold skipBlank; split
  · exact skipBlankX_length false p
  · exact Nat.le_refl _

/-! ### one escaped rune is one turn of the loop -/

/-- after a backslash, a rune of `plainAfterBackslashP` that is not a word character is read as itself
    under every option set -/
theorem scanBackslash_plain (o : ParseOpts) (isWord : Nat → Bool) (c : Nat) (rest : List Nat)
    (hp : plainAfterBackslashP c = true) (hw : isWord c = false) :
    scanBackslash o isWord (c :: rest) = .emit c rest := by
  simp [plainAfterBackslashP, plainAfterBackslash] at hp
  obtain ⟨⟨⟨h0, a1, a2, a3, a4, a5, a6, a7, a8, a9, a10, a11⟩,
    b1, b2, b3, b4, b5, b6, b7, b8, b9, b10, b11, b12, b13, b14, b15, b16, b17⟩, hd⟩ := hp
  have h0' : ¬ (48 ≤ c ∧ c ≤ 55) := by omega
  have hd' : ¬ (49 ≤ c ∧ c ≤ 57) := by omega
  simp [scanBackslash, backslashKind, basicBackslashKind, scanCharEscapeO, h0', hd',
    a1, a2, a3, a4, a5, a6, a7, a8, a9, a10, a11,
    b2, b3, b4, b5, b6, b7, b8, b9, b10, b11, b12, b13, b14, b15, b16, b17, hw]

/-- the letter escapes `\a \f \n \r \t \v` under every option set -/
theorem scanBackslash_letter (o : ParseOpts) (isWord : Nat → Bool) (rest : List Nat) :
    scanBackslash o isWord (97 :: rest) = .emit 7 rest ∧
    scanBackslash o isWord (102 :: rest) = .emit 12 rest ∧
    scanBackslash o isWord (110 :: rest) = .emit 10 rest ∧
    scanBackslash o isWord (114 :: rest) = .emit 13 rest ∧
    scanBackslash o isWord (116 :: rest) = .emit 9 rest ∧
    scanBackslash o isWord (118 :: rest) = .emit 11 rest := by
  refine ⟨?_, ?_, ?_, ?_, ?_, ?_⟩ <;>
    simp [scanBackslash, backslashKind, basicBackslashKind, scanCharEscapeO]

/-- `\xHH` under every option set -/
theorem scanBackslash_hex2 (o : ParseOpts) (isWord : Nat → Bool) (r : Nat) (h : r < 256) (rest : List Nat) :
    scanBackslash o isWord (120 :: (hex2 r ++ rest)) = .emit r rest := by
  have hb : hexChar (r / 16) ≠ 123 := hexChar_ne_brace _ (by omega)
  have := scanHex_hex2 r h rest
  simp only [hex2, List.cons_append, List.nil_append] at this ⊢
  simp [scanBackslash, backslashKind, basicBackslashKind, scanCharEscapeO, ecmaFallback, hb, this]

/-- `\uHHHH` under every option set -/
theorem scanBackslash_hex4 (o : ParseOpts) (isWord : Nat → Bool) (r : Nat) (h : r < 65536) (rest : List Nat) :
    scanBackslash o isWord (117 :: (hex4 r ++ rest)) = .emit r rest := by
  have hb : hexChar (r / 4096) ≠ 123 := hexChar_ne_brace _ (by omega)
  have := scanHex_hex4 r h rest
  simp only [hex4, List.cons_append, List.nil_append] at this ⊢
  simp [scanBackslash, backslashKind, basicBackslashKind, scanCharEscapeO, ecmaFallback, hb, this]

/-- a rune that is no stopper and no whitespace control is an ordinary rune at the head of the loop -/
theorem step_ordinary (o : ParseOpts) (isWord : Nat → Bool) (r : Nat) (rest : List Nat)
    (hs : stoppers.contains r = false) (hc : ¬ (9 ≤ r ∧ r ≤ 13)) :
    step o isWord (r :: rest) = .emit r rest := by
  simp [stoppers] at hs
  obtain ⟨s1, s2, s3, s4, s5, s6, s7, s8, s9, s10, s11, s12, s13, s14⟩ := hs
  have hsp : isSpaceCh r = false := by simp [isSpaceCh]; omega
  have hq : isTrueQuant r rest = false := by simp [isTrueQuant, isQuantCh, s13, s6, s7, s9]
  simp [step, headKind, skipBlank_cons o r rest hsp s2, s11, hq, s13, s4, s5, s10, s14, s3, s8, s12]

/-- **One escaped rune is one turn of the parser loop** and denotes that rune, under every option set. -/
theorem step_escapeRune (isPrint isWord : Nat → Bool)
    (hW : ∀ c, Generated.metaChars.contains c = true → isWord c = false)
    (hP : ∀ c, 9 ≤ c → c ≤ 13 → isPrint c = false)
    (o : ParseOpts) (r : Nat) (rest : List Nat) :
    step o isWord (escapeRune isPrint r ++ rest) = .emit r rest := by
  have hbs : ∀ body, step o isWord (bslash :: body) = scanBackslash o isWord body := by
    intro body
    have : skipBlank o (92 :: body) = 92 :: body := skipBlank_cons o 92 body (by decide) (by decide)
    simp [step, bslash, this]
  unfold escapeRune
  by_cases hp : isPrint r = true
  · by_cases hm : Generated.metaChars.contains r = true
    · simp only [hp, hm, if_true, List.cons_append, List.nil_append]
      rw [hbs]
      exact scanBackslash_plain o isWord r rest
        (List.all_eq_true.mp meta_plainP r (by simpa using hm)) (hW r hm)
    · simp only [hp, hm, if_true, List.cons_append, List.nil_append]
      have hm' : Generated.metaChars.contains r = false := by simpa using hm
      refine step_ordinary o isWord r rest (not_meta_not_stopper r hm') ?_
      intro ⟨h1, h2⟩
      rw [hP r h1 h2] at hp; cases hp
  · have hp' : isPrint r = false := by simpa using hp
    simp only [hp', Bool.false_eq_true, if_false]
    obtain ⟨l1, l2, l3, l4, l5, l6⟩ := scanBackslash_letter o isWord rest
    by_cases h7 : r = 7
    · subst h7; simpa using (hbs _).trans l1
    by_cases h12 : r = 12
    · subst h12; simpa using (hbs _).trans l2
    by_cases h10 : r = 10
    · subst h10; simpa using (hbs _).trans l3
    by_cases h13 : r = 13
    · subst h13; simpa using (hbs _).trans l4
    by_cases h9 : r = 9
    · subst h9; simpa using (hbs _).trans l5
    by_cases h11 : r = 11
    · subst h11; simpa using (hbs _).trans l6
    simp only [h7, h12, h10, h13, h9, h11, if_false]
    by_cases hx : r < 0x100
    · simp only [hx, if_true, List.cons_append, List.nil_append]
      rw [hbs]; exact scanBackslash_hex2 o isWord r hx rest
    · by_cases hu : r < 0x10000
      · simp only [hx, hu, if_true, if_false, List.cons_append, List.nil_append]
        rw [hbs]; exact scanBackslash_hex4 o isWord r hu rest
      · simp only [hx, hu, if_false, List.cons_append, List.nil_append]
        refine step_ordinary o isWord r rest ?_ (by omega)
        simp [stoppers]; omega

theorem parseFuel_escape (isPrint isWord : Nat → Bool)
    (hW : ∀ c, Generated.metaChars.contains c = true → isWord c = false)
    (hP : ∀ c, 9 ≤ c → c ≤ 13 → isPrint c = false)
    (o : ParseOpts) (s : List Nat) : ∀ (acc : List Nat) (fuel : Nat), s.length + 1 ≤ fuel →
      parseFuel o isWord fuel (escape isPrint s) acc = .lit (acc.reverse ++ s) := by
  induction s with
  | nil =>
    intro acc fuel hf
    obtain ⟨f, rfl⟩ : ∃ f, fuel = f + 1 := ⟨fuel - 1, by omega⟩
    simp [escape, parseFuel, step, skipBlank_nil]
  | cons r s ih =>
    intro acc fuel hf
    obtain ⟨f, rfl⟩ : ∃ f, fuel = f + 1 := ⟨fuel - 1, by omega⟩
    have : escape isPrint (r :: s) = escapeRune isPrint r ++ escape isPrint s := by simp [escape]
    rw [this]
    simp only [parseFuel, step_escapeRune isPrint isWord hW hP o r (escape isPrint s)]
    rw [ih (r :: acc) f (by simp at hf; omega)]
    simp

/-! ### every turn consumes: `fuel = length + 1` is enough -/

theorem scanHex_length : ∀ (n acc : Nat) (l : List Nat) (v : Nat) (rest : List Nat),
    scanHex n acc l = some (v, rest) → rest.length + n = l.length := by
  intro n
  induction n with
  | zero => intro acc l v rest h; simp [scanHex] at h; simp [h.2]
  | succ n ih =>
    intro acc l v rest h
    cases l with
    | nil => simp [scanHex] at h
    | cons ch t =>
      simp only [scanHex] at h
      split at h
      · have := ih _ _ _ _ h; simp only [List.length_cons]; omega
      · cases h

theorem scanHexBrace_length : ∀ (l : List Nat) (acc : Nat) (has : Bool) (v : Nat) (rest : List Nat),
    scanHexBrace acc has l = some (v, rest) → rest.length < l.length := by
  intro l
  induction l with
  | nil => intro acc has v rest h; simp [scanHexBrace] at h
  | cons ch t ih =>
    intro acc has v rest h
    simp only [scanHexBrace] at h
    split at h
    · split at h
      · simp at h; simp [h.2]
      · cases h
    · split at h
      · cases h
      · split at h
        · cases h
        · have := ih _ _ _ _ h; simp only [List.length_cons]; omega

theorem scanOctalO_length (e : Bool) : ∀ (n acc : Nat) (l : List Nat),
    (scanOctalO e n acc l).2.length ≤ l.length := by
  intro n
  induction n with
  | zero => intro acc l; simp [scanOctalO]
  | succ n ih =>
    intro acc l
    cases l with
    | nil => simp [scanOctalO]
    | cons ch t =>
      simp only [scanOctalO]
      split
      · split
        · simp
        · have := ih (acc * 8 + (ch - 48)) t; simp only [List.length_cons]; omega
      · simp

theorem scanControl_length (l : List Nat) (v : Nat) (rest : List Nat)
    (h : scanControl l = some (v, rest)) : rest.length < l.length := by
  cases l with
  | nil => simp [scanControl] at h
  | cons ch t =>
    simp [scanControl] at h
    simp [← h.2.2]

theorem ecmaFallback_length (o : ParseOpts) (ch : Nat) (rest : List Nat) (res : Option (Nat × List Nat))
    (hres : ∀ v r, res = some (v, r) → r.length ≤ rest.length)
    (c : Nat) (rest' : List Nat) (h : ecmaFallback o ch rest res = some (c, rest')) :
    rest'.length ≤ rest.length := by
  unfold ecmaFallback at h
  split at h
  · rename_i v; cases v; simp at h; exact hres _ _ (by rw [h.1, h.2])
  · split at h
    · simp at h; simp [h.2]
    · cases h

/-- `scanCharEscape` consumes at least the rune after the backslash -/
theorem scanCharEscapeO_length (o : ParseOpts) (isWord : Nat → Bool) (body : List Nat) (c : Nat)
    (rest : List Nat) (h : scanCharEscapeO o isWord body = some (c, rest)) : rest.length < body.length := by
  cases body with
  | nil => simp [scanCharEscapeO] at h
  | cons ch t =>
    have hx2 : ∀ v r, scanHex 2 0 t = some (v, r) → r.length ≤ t.length := by
      intro v r hh; have := scanHex_length _ _ _ _ _ hh; omega
    have hx4 : ∀ v r, scanHex 4 0 t = some (v, r) → r.length ≤ t.length := by
      intro v r hh; have := scanHex_length _ _ _ _ _ hh; omega
    have hcc : ∀ v r, scanControl t = some (v, r) → r.length ≤ t.length := by
      intro v r hh; have := scanControl_length _ _ _ hh; omega
    simp only [List.length_cons]
    suffices rest.length ≤ t.length by omega
    rw [scanCharEscapeO] at h
    by_cases hoct : 48 ≤ ch ∧ ch ≤ 55
    · rw [if_pos hoct] at h
      simp only [scanOctalO, hoct, and_self, if_true] at h
      simp at h
      have := scanOctalO_length o.ecma 2 (ch - 48) t
      rw [h] at this; exact this
    rw [if_neg hoct] at h
    by_cases hx : ch = 120
    · rw [if_pos hx] at h
      by_cases hb : t.head? = some 123
      · rw [if_pos hb] at h
        by_cases he : o.ecma = true
        · rw [if_pos he] at h; simp at h; simp [h.2]
        · rw [if_neg he] at h
          have := scanHexBrace_length _ _ _ _ _ h; have := @List.length_tail _ t; omega
      · rw [if_neg hb] at h; exact ecmaFallback_length o _ _ _ hx2 _ _ h
    rw [if_neg hx] at h
    by_cases hu : ch = 117
    · rw [if_pos hu] at h
      by_cases hb : t.head? = some 123 ∧ o.ecma = true ∧ o.u = true
      · rw [if_pos hb] at h
        have := scanHexBrace_length _ _ _ _ _ h; have := @List.length_tail _ t; omega
      · rw [if_neg hb] at h; exact ecmaFallback_length o _ _ _ hx4 _ _ h
    rw [if_neg hu] at h
    by_cases hc : ch = 99
    · have e : ecmaFallback o ch t (scanControl t) = some (c, rest) := by
        subst hc; simpa using h
      exact ecmaFallback_length o _ _ _ hcc _ _ e
    repeat' split at h
    all_goals first
      | (simp at h; simp [h.2]; done)
      | cases h
      | contradiction

/-- whenever `scanBackslash` yields a literal rune it is `scanCharEscape`'s reading of the escape -/
theorem scanBackslash_emit (o : ParseOpts) (isWord : Nat → Bool) (body : List Nat) (c : Nat)
    (rest : List Nat) (h : scanBackslash o isWord body = .emit c rest) :
    scanCharEscapeO o isWord body = some (c, rest) := by
  unfold scanBackslash at h
  split at h
  · cases h
  · split at h
    · cases h
    · rename_i c' rest' heq; cases h; exact heq

theorem scanBackslash_ne_done (o : ParseOpts) (isWord : Nat → Bool) (body : List Nat) :
    scanBackslash o isWord body ≠ .done := by
  intro h
  unfold scanBackslash at h
  split at h
  · cases h
  · split at h <;> cases h

/-- a turn of the loop that goes on has consumed at least one rune -/
theorem step_emit_length (o : ParseOpts) (isWord : Nat → Bool) (p : List Nat) (c : Nat) (rest : List Nat)
    (h : step o isWord p = .emit c rest) : rest.length < p.length := by
  have hl := skipBlank_length o p
  unfold step at h
  split at h
  · cases h
  · rename_i c0 r0 hsk
    rw [hsk] at hl
    simp only [List.length_cons] at hl
    split at h
    · have := scanCharEscapeO_length o isWord _ _ _ (scanBackslash_emit o isWord _ _ _ h); omega
    · split at h
      · cases h
      · injection h with h1 h2; subst h2; omega

/-- **The fuel of `parseWhy` is never exhausted.** -/
theorem parseFuel_ne_outOfFuel (o : ParseOpts) (isWord : Nat → Bool) : ∀ (fuel : Nat) (p acc : List Nat),
    p.length < fuel → parseFuel o isWord fuel p acc ≠ .outOfFuel := by
  intro fuel
  induction fuel with
  | zero => intro p acc h; omega
  | succ f ih =>
    intro p acc hlen
    simp only [parseFuel]
    split
    · intro h; cases h
    · intro h; cases h
    · rename_i c rest hst
      have := step_emit_length o isWord p c rest hst
      exact ih rest (c :: acc) (by omega)

/-! ### the option-free parser and `Unescape` -/

theorem scanOctalO_false : ∀ (n acc : Nat) (l : List Nat), scanOctalO false n acc l = scanOctal n acc l := by
  intro n
  induction n with
  | zero => intro acc l; simp [scanOctalO, scanOctal]
  | succ n ih =>
    intro acc l
    cases l with
    | nil => simp [scanOctalO, scanOctal]
    | cons ch t => simp [scanOctalO, scanOctal, ih]

theorem ecmaFallback_default (ch : Nat) (rest : List Nat) (res : Option (Nat × List Nat)) :
    ecmaFallback {} ch rest res = res := by
  cases res <;> simp [ecmaFallback]

/-- with no option set, the parser's `scanCharEscape` is the one `Unescape` drives -/
theorem scanCharEscapeO_default (isWord : Nat → Bool) (l : List Nat) :
    scanCharEscapeO {} isWord l = scanCharEscape isWord l := by
  cases l with
  | nil => simp [scanCharEscapeO, scanCharEscape]
  | cons ch t =>
    by_cases hx : ch = 120
    · subst hx
      cases t with
      | nil => simp [scanCharEscapeO, scanCharEscape, ecmaFallback_default]
      | cons a t' =>
        by_cases ha : a = 123
        · subst ha; simp [scanCharEscapeO, scanCharEscape]
        · simp [scanCharEscapeO, scanCharEscape, ha, ecmaFallback_default]
    · simp [scanCharEscapeO, scanCharEscape, hx, scanOctalO_false, ecmaFallback_default]

/-- a turn of the option-free loop that does not start at a backslash emits the rune it stands on -/
theorem step_default_ordinary (isWord : Nat → Bool) (c0 : Nat) (r0 : List Nat) (h0 : c0 ≠ 92) (c : Nat)
    (rest : List Nat) (h : step {} isWord (c0 :: r0) = .emit c rest) : c = c0 ∧ rest = r0 := by
  simp only [step, skipBlank] at h
  simp [h0] at h
  split at h
  · cases h
  · injection h with h1 h2; exact ⟨h1.symm, h2.symm⟩

theorem parseFuel_sound_unescape (isWord : Nat → Bool) : ∀ (fuel : Nat) (p acc t : List Nat),
    parseFuel {} isWord fuel p acc = .lit t →
    ∀ f2, 2 * p.length + 1 ≤ f2 → unescapeFuel isWord f2 true p acc = some t := by
  intro fuel
  induction fuel with
  | zero => intro p acc t h; simp [parseFuel] at h
  | succ f ih =>
    intro p acc t h f2 hf2
    simp only [parseFuel] at h
    split at h
    · -- done: the pattern is exhausted
      rename_i hst
      cases p with
      | nil =>
        injection h with h; subst h
        obtain ⟨g, rfl⟩ : ∃ g, f2 = g + 1 := ⟨f2 - 1, by omega⟩
        simp [unescapeFuel]
      | cons c0 r0 =>
        exfalso
        simp only [step, skipBlank] at hst
        simp at hst
        split at hst
        · exact scanBackslash_ne_done _ _ _ hst
        · split at hst <;> cases hst
    · cases h
    · rename_i c rest hst
      cases p with
      | nil => simp [step, skipBlank] at hst
      | cons c0 r0 =>
        by_cases h0 : c0 = 92
        · subst h0
          have hsb : scanBackslash {} isWord r0 = .emit c rest := by
            simpa [step, skipBlank] using hst
          have hce := scanBackslash_emit {} isWord r0 c rest hsb
          have hlen := scanCharEscapeO_length {} isWord r0 c rest hce
          rw [scanCharEscapeO_default] at hce
          simp only [List.length_cons] at hf2
          obtain ⟨g, rfl⟩ : ∃ g, f2 = g + 2 := ⟨f2 - 2, by omega⟩
          have := step_esc isWord g c r0 rest acc hce
          simp only [bslash] at this
          rw [this]
          exact ih rest (c :: acc) t h g (by omega)
        · obtain ⟨e1, e2⟩ := step_default_ordinary isWord c0 r0 h0 c rest hst
          subst e1; subst e2
          simp only [List.length_cons] at hf2
          obtain ⟨g, rfl⟩ : ∃ g, f2 = g + 1 := ⟨f2 - 1, by omega⟩
          rw [step_lit isWord g c rest acc (by simpa [bslash] using h0)]
          exact ih rest (c :: acc) t h g (by omega)

end RegexVerif.Lemmas.EscapeParse
