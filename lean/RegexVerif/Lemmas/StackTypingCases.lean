/-
Soundness of the grouping-stack typing, part 2: every case of the switch preserves the typing part of the invariant
(`TBodyOk`, which includes the capture invariant `CapOk`) and raises none of the discipline faults `stackUnderflow`,
`tracktoRange`, `textposRange`, `crawlUnderflow`, `capRange`.
-/
import RegexVerif.Lemmas.StackTypingSound

namespace RegexVerif.Lemmas.StackTypingSound
open RegexVerif RegexVerif.Code RegexVerif.VM RegexVerif.StackTyping RegexVerif.Lemmas.VM
open RegexVerif.Lemmas.StackTyping RegexVerif.Lemmas.StackTypingCap

/-! ### error kinds of the primitives -/

/-- a computation that raises none of the discipline faults -/
def NoDisc {α : Type} (x : M α) : Prop := ∀ f, x = .error f → disc f = false

theorem operand_nodisc (p : Prog) (s : VMState) (i : Nat) : NoDisc (operand p s i) := by
  intro f h; unfold operand at h; split at h <;> cases h; rfl

theorem charAt_nodisc (env : Env) (j : Int) : NoDisc (charAt env j) := by
  intro f h; unfold charAt at h; split at h
  · split at h <;> cases h; rfl
  · cases h; rfl

theorem map_nodisc {α β : Type} {x : M α} (g : α → β) (h : NoDisc x) : NoDisc (x.map g) := by
  intro f hf
  cases x with
  | error e => simp [Except.map] at hf; subst hf; exact h _ rfl
  | ok v => simp [Except.map] at hf

theorem forwardcharnext_nodisc (env : Env) (rtl : Bool) (pos : Int) : NoDisc (forwardcharnext env rtl pos) := by
  unfold forwardcharnext; split <;> exact map_nodisc _ (charAt_nodisc _ _)

theorem scan_nodisc (env : Env) (pred : Nat → Bool) (rtl : Bool) : ∀ (k : Nat) (pos : Int), NoDisc (scan env pred rtl k pos) := by
  intro k
  induction k with
  | zero => intro pos f h; simp [scan] at h
  | succ k ih =>
    intro pos f h
    unfold scan at h
    split at h
    · next e he => cases h; exact forwardcharnext_nodisc env rtl pos _ he
    · next c pos' he =>
      split at h
      · exact map_nodisc _ (ih pos') _ h
      · cases h

theorem charPred_nodisc (p : Prog) (env : Env) (sel : Nat) (x : Int) : NoDisc (charPred p env sel x) := by
  intro f h; unfold charPred at h
  split at h
  · cases h
  · cases h
  · unfold setPred at h; split at h <;> cases h; rfl

/-- sequencing: what holds of every error without a discipline fault and of every continuation holds of the bind -/
theorem eff_bind {α : Type} {m : M α} {k : α → Res} {P : Res → Prop} (hm : NoDisc m)
    (hP : ∀ f, disc f = false → P (.error f)) (hk : ∀ x, m = .ok x → P (k x)) : P (m >>= k) := by
  cases m with
  | error f => exact hP f (hm f rfl)
  | ok x => exact hk x rfl

section cases
variable {p : Prog} {bs : List Nat} {env : Env} {a : Assign} {s : VMState} {w : Word} {o : Op}

/-- effect of a stack-neutral forward case: grouping stack and captures unchanged, at most one frame of the current
    instruction pushed, leaves by `backtrack()` or by `advance` to the next instruction -/
def NeutralEff (s : VMState) (o : Op) : Res → Prop
  | .error f => disc f = false
  | .ok (s1, e) => s1.stack = s.stack ∧ s1.cap = s.cap ∧
      (s1.track = s.track ∨ ∃ d, s1.track = (s.codepos : Int) :: (d ++ s.track) ∧ frameData o false = some d.length) ∧
      (e = .back ∨ ∃ i, e = .advance i ∧ i + 1 = o.size)

theorem caseChar_eff (sel : Nat) (hsz : o.size = 2) : NeutralEff s o (caseChar p env sel s) := by
  unfold caseChar
  split
  · exact ⟨rfl, rfl, Or.inl rfl, Or.inl rfl⟩
  · refine eff_bind (operand_nodisc _ _ _) (fun _ h => h) (fun x _ => ?_)
    refine eff_bind (charPred_nodisc _ _ _ _) (fun _ h => h) (fun pred _ => ?_)
    refine eff_bind (forwardcharnext_nodisc _ _ _) (fun _ h => h) (fun cp _ => ?_)
    obtain ⟨ch, pos⟩ := cp
    simp only
    split
    · exact ⟨rfl, rfl, Or.inl rfl, Or.inr ⟨1, rfl, by omega⟩⟩
    · exact ⟨rfl, rfl, Or.inl rfl, Or.inl rfl⟩

theorem caseRep_eff (sel : Nat) (hsz : o.size = 3) : NeutralEff s o (caseRep p env sel s) := by
  unfold caseRep
  refine eff_bind (operand_nodisc _ _ _) (fun _ h => h) (fun c _ => ?_)
  split
  · exact ⟨rfl, rfl, Or.inl rfl, Or.inl rfl⟩
  · refine eff_bind (operand_nodisc _ _ _) (fun _ h => h) (fun x _ => ?_)
    refine eff_bind (charPred_nodisc _ _ _ _) (fun _ h => h) (fun pred _ => ?_)
    refine eff_bind (scan_nodisc _ _ _ _ _) (fun _ h => h) (fun m _ => ?_)
    split
    · exact ⟨rfl, rfl, Or.inl rfl, Or.inl rfl⟩
    · exact ⟨rfl, rfl, Or.inl rfl, Or.inr ⟨2, rfl, by omega⟩⟩

theorem caseLoop_eff (sel : Nat) (atomic : Bool) (hsz : o.size = 3)
    (ho : atomic = false → frameData o false = some 2) : NeutralEff s o (caseLoop p env sel atomic s) := by
  unfold caseLoop
  refine eff_bind (operand_nodisc _ _ _) (fun _ h => h) (fun c0 _ => ?_)
  refine eff_bind (operand_nodisc _ _ _) (fun _ h => h) (fun x _ => ?_)
  refine eff_bind (charPred_nodisc _ _ _ _) (fun _ h => h) (fun pred _ => ?_)
  refine eff_bind (scan_nodisc _ _ _ _ _) (fun _ h => h) (fun m _ => ?_)
  simp only
  split
  · next hc =>
    have hat : atomic = false := by cases atomic <;> simp_all
    exact ⟨rfl, rfl, Or.inr ⟨[_, _], rfl, ho hat⟩, Or.inr ⟨2, rfl, by omega⟩⟩
  · exact ⟨rfl, rfl, Or.inl rfl, Or.inr ⟨2, rfl, by omega⟩⟩

theorem caseLazy_eff (hsz : o.size = 3) (ho : frameData o false = some 2) : NeutralEff s o (caseLazy p env s) := by
  unfold caseLazy
  refine eff_bind (operand_nodisc _ _ _) (fun _ h => h) (fun c0 _ => ?_)
  simp only
  generalize (if c0 > forwardchars env s then forwardchars env s else c0) = cc
  by_cases hc : cc > 0
  · rw [if_pos hc]; exact ⟨rfl, rfl, Or.inr ⟨[_, _], rfl, ho⟩, Or.inr ⟨2, rfl, by omega⟩⟩
  · rw [if_neg hc]; exact ⟨rfl, rfl, Or.inl rfl, Or.inr ⟨2, rfl, by omega⟩⟩

theorem cmpBack_nodisc (env : Env) (ci : Bool) (get : Int → M Nat) (hget : ∀ i, NoDisc (get i)) :
    ∀ (k : Nat) (x y : Int), NoDisc (cmpBack env ci get k x y) := by
  intro k
  induction k with
  | zero => intro x y f h; simp [cmpBack] at h
  | succ k ih =>
    intro x y f h
    unfold cmpBack at h
    cases hg : get (x - 1) with
    | error e => simp only [hg] at h; cases h; exact hget _ _ hg
    | ok u =>
      cases hc : charAt env (y - 1) with
      | error e => simp only [hg, hc] at h; cases h; exact charAt_nodisc _ _ _ hc
      | ok v =>
        simp only [hg, hc] at h
        by_cases hx : u = (if ci then env.toLower v else v)
        · rw [if_pos hx] at h; exact ih _ _ _ h
        · rw [if_neg hx] at h; cases h

theorem runematch_nodisc (env : Env) (s : VMState) (str : List Nat) : NoDisc (runematch env s str) := by
  intro f h
  unfold runematch at h
  simp only at h
  split at h
  · cases h
  · split at h
    · next e he =>
      cases h
      exact cmpBack_nodisc env _ _ (fun i f h => by cases h) _ _ _ _ he
    · cases h
    · cases h

/-- the comparison loop reads `get` only at the `k` positions before `x` -/
theorem cmpBack_nodisc' (env : Env) (ci : Bool) (get : Int → M Nat) :
    ∀ (k : Nat) (x y : Int), (∀ i, x - k ≤ i → i < x → NoDisc (get i)) → NoDisc (cmpBack env ci get k x y) := by
  intro k
  induction k with
  | zero => intro x y _ f h; simp [cmpBack] at h
  | succ k ih =>
    intro x y hget f h
    unfold cmpBack at h
    cases hg : get (x - 1) with
    | error e => simp only [hg] at h; cases h; exact hget (x - 1) (by omega) (by omega) _ hg
    | ok u =>
      cases hc : charAt env (y - 1) with
      | error e => simp only [hg, hc] at h; cases h; exact charAt_nodisc _ _ _ hc
      | ok v =>
        simp only [hg, hc] at h
        by_cases hx : u = (if ci then env.toLower v else v)
        · rw [if_pos hx] at h
          exact ih _ _ (fun i h1 h2 => hget i (by omega) (by omega)) _ h
        · rw [if_neg hx] at h; cases h

/-- a backreference to an interval inside the text raises no `capRange` -/
theorem refmatch_nodisc (env : Env) (s : VMState) (index len : Int) (h0 : 0 ≤ index) (hl : 0 ≤ len)
    (hn : index + len ≤ env.len) : NoDisc (refmatch env s index len) := by
  intro f h
  unfold refmatch at h
  rw [if_neg (by omega)] at h
  split at h
  · cases h
  · simp only at h
    split at h
    · next e he =>
      cases h
      refine cmpBack_nodisc' env _ _ _ _ _ (fun i h1 h2 f h => ?_) _ he
      obtain ⟨ch, hch⟩ := charAt_ok env i (by omega) (by omega)
      rw [hch] at h; cases h
    · cases h
    · cases h

theorem isMatched_nodisc (s : VMState) (c : Int) : NoDisc (isMatched s c) := by
  intro f h; unfold isMatched at h; split at h <;> cases h; rfl

theorem caseMulti_eff (hsz : o.size = 2) : NeutralEff s o (caseMulti p env s) := by
  unfold caseMulti
  refine eff_bind (operand_nodisc _ _ _) (fun _ h => h) (fun i _ => ?_)
  split
  · split
    · rfl
    · refine eff_bind (runematch_nodisc _ _ _) (fun _ h => h) (fun r _ => ?_)
      cases r with
      | none => exact ⟨rfl, rfl, Or.inl rfl, Or.inl rfl⟩
      | some pos => exact ⟨rfl, rfl, Or.inl rfl, Or.inr ⟨1, rfl, by omega⟩⟩
  · rfl

theorem caseRef_eff (hsz : o.size = 2) (hcap : CapOk env.len p.capsize s.cap) : NeutralEff s o (caseRef p env s) := by
  unfold caseRef
  refine eff_bind (operand_nodisc _ _ _) (fun _ h => h) (fun i _ => ?_)
  refine eff_bind (isMatched_nodisc _ _) (fun _ h => h) (fun b hb => ?_)
  split
  · next hbt =>
    -- the group is matched: it is a slot, and its innermost capture lies inside the text
    have hm : MatchBuilder.isMatched s.cap.m i.toNat = true := by
      unfold isMatched at hb
      split at hb
      · cases hb
      · cases hb; exact hbt
    have hlt : i.toNat < p.capsize := by
      have h1 := hm
      unfold MatchBuilder.isMatched at h1
      simp only [Bool.and_eq_true, decide_eq_true_eq] at h1
      have := reach_len hcap.1
      omega
    obtain ⟨r0, r1, r2⟩ := capOk_ref hcap i.toNat hlt hm
    refine eff_bind (refmatch_nodisc _ _ _ _ r0 r1 r2) (fun _ h => h) (fun r _ => ?_)
    cases r with
    | none => exact ⟨rfl, rfl, Or.inl rfl, Or.inl rfl⟩
    | some pos => exact ⟨rfl, rfl, Or.inl rfl, Or.inr ⟨1, rfl, by omega⟩⟩
  · split
    · exact ⟨rfl, rfl, Or.inl rfl, Or.inr ⟨1, rfl, by omega⟩⟩
    · exact ⟨rfl, rfl, Or.inl rfl, Or.inl rfl⟩

theorem caseTestref_eff (hsz : o.size = 2) : NeutralEff s o (caseTestref p s) := by
  unfold caseTestref
  refine eff_bind (operand_nodisc _ _ _) (fun _ h => h) (fun i _ => ?_)
  refine eff_bind (isMatched_nodisc _ _) (fun _ h => h) (fun b _ => ?_)
  split
  · exact ⟨rfl, rfl, Or.inl rfl, Or.inr ⟨1, rfl, by omega⟩⟩
  · exact ⟨rfl, rfl, Or.inl rfl, Or.inl rfl⟩

theorem assertion_eff (hsz : o.size = 1) (b : Bool) : NeutralEff s o (.ok (assertion s b)) := by
  unfold assertion
  cases b
  · exact ⟨rfl, rfl, Or.inl rfl, Or.inl rfl⟩
  · exact ⟨rfl, rfl, Or.inl rfl, Or.inr ⟨0, rfl, by omega⟩⟩

theorem map_assertion_eff (hsz : o.size = 1) {α : Type} (x : M α) (hx : NoDisc x) (g : α → Bool) :
    NeutralEff s o (x.map (fun c => assertion s (g c))) := by
  cases x with
  | error f => exact hx f rfl
  | ok v => exact assertion_eff hsz _

theorem caseBol_eff (hsz : o.size = 1) : NeutralEff s o (caseBol env s) := by
  unfold caseBol
  split
  · exact map_assertion_eff hsz _ (charAt_nodisc _ _) _
  · exact ⟨rfl, rfl, Or.inl rfl, Or.inr ⟨0, rfl, by omega⟩⟩

theorem caseEol_eff (hsz : o.size = 1) : NeutralEff s o (caseEol env s) := by
  unfold caseEol
  split
  · exact map_assertion_eff hsz _ (charAt_nodisc _ _) _
  · exact ⟨rfl, rfl, Or.inl rfl, Or.inr ⟨0, rfl, by omega⟩⟩

theorem isBoundary_nodisc (env : Env) (wd : Nat → Bool) (i : Int) : NoDisc (isBoundary env wd i) := by
  intro f h
  unfold isBoundary at h
  have h1 : NoDisc (if i > 0 then (charAt env (i - 1)).map wd else .ok false) := by
    split
    · exact map_nodisc _ (charAt_nodisc _ _)
    · intro f h; cases h
  have h2 : NoDisc (if i < env.len then (charAt env i).map wd else .ok false) := by
    split
    · exact map_nodisc _ (charAt_nodisc _ _)
    · intro f h; cases h
  generalize (if i > 0 then (charAt env (i - 1)).map wd else .ok false) = A at h h1
  generalize (if i < env.len then (charAt env i).map wd else .ok false) = B at h h2
  cases A with
  | error e => simp only at h; cases h; exact h1 _ rfl
  | ok u =>
    cases B with
    | error e => simp only at h; cases h; exact h2 _ rfl
    | ok v => simp only at h; cases h

theorem caseBoundary_eff (hsz : o.size = 1) (wd : Nat → Bool) (want : Bool) :
    NeutralEff s o (caseBoundary env wd want s) := by
  unfold caseBoundary
  exact map_assertion_eff hsz _ (isBoundary_nodisc _ _ _) _

theorem caseEndZ_eff (hsz : o.size = 1) : NeutralEff s o (caseEndZ env s) := by
  unfold caseEndZ
  simp only
  split
  · exact ⟨rfl, rfl, Or.inl rfl, Or.inl rfl⟩
  · split
    · exact assertion_eff hsz _
    · split
      · exact map_assertion_eff hsz _ (charAt_nodisc _ _) _
      · exact ⟨rfl, rfl, Or.inl rfl, Or.inr ⟨0, rfl, by omega⟩⟩

/-! ### forward mode -/

/-- forward mode: the chain, the stack and the type assigned to the current instruction -/
structure FwdH (p : Prog) (bs : List Nat) (env : Env) (a : Assign) (s : VMState) (S : STy) (σ : RTy)
    (core : List Int) (tp : Int) : Prop where
  hS : a.get s.codepos = some S
  sub : subTy (erase σ) S = true
  tr : s.track = core ++ [tp]
  good : Good p bs env.len a core σ (crawlLen s)
  vals : Vals env.len s.stack σ
  cap : CapOk env.len p.capsize s.cap

/-- the assigned type at `q` is above `S` -/
def NextOk (a : Assign) (q : Nat) (S : STy) : Prop := ∃ Sn, a.get q = some Sn ∧ subTy S Sn = true

theorem NextOk.succ {q : Nat} {S : STy} {σ : RTy} (h : NextOk a q S) (hs : subTy (erase σ) S = true) : Succ a q σ := by
  obtain ⟨Sn, h1, h2⟩ := h
  exact ⟨Sn, h1, subTy_trans hs h2⟩

theorem neutral_fwd {S : STy} {σ : RTy} {core : List Int} {tp : Int} (c : Ctx p bs env s w o)
    (h : FwdH p bs env a s S σ core tp) (hn : NextOk a (s.codepos + o.size) S)
    (hft : ∀ (d : List Int) (dl : Int) (τ : RTy) (cl : Int), frameData o false = some d.length →
      subTy (erase τ) S = true → FrameTy p env.len s.codepos o false S d dl τ cl τ cl)
    (r : Res) (he : NeutralEff s o r) : TBodyOk p bs env.len a s.codepos r := by
  cases r with
  | error f => exact he
  | ok r =>
    obtain ⟨s1, e⟩ := r
    obtain ⟨hst, hcap, htr, hex⟩ := he
    have hcl : crawlLen s1 = crawlLen s := by unfold crawlLen; rw [hcap]
    have hch : ChainS p bs env.len a s1 σ := by
      rcases htr with ht | ⟨d, ht, hd⟩
      · exact ⟨core, tp, by rw [ht, h.tr], by rw [hcl]; exact h.good, by rw [hst]; exact h.vals, by rw [hcap]; exact h.cap⟩
      · refine ⟨(s.codepos : Int) :: (d ++ core), tp, by rw [ht, h.tr]; simp, ?_, by rw [hst]; exact h.vals,
          by rw [hcap]; exact h.cap⟩
        rw [hcl]
        exact good_push c false d core S σ σ _ _ hd (by intro h; cases h) h.hS (hft d _ σ _ hd h.sub) h.good
            (by have := sub_len h.sub; omega)
    rcases hex with rfl | ⟨i, rfl, hi⟩
    · exact ⟨σ, hch⟩
    · refine ⟨σ, hch, ?_⟩
      have : s.codepos + i + 1 = s.codepos + o.size := by omega
      rw [this]
      exact hn.succ h.sub

theorem operand_val {i : Nat} {v : Int} (h : operand p s i = .ok v) : p.codes[s.codepos + i + 1]? = some v := by
  unfold operand at h
  split at h
  · next u hu => cases h; exact hu
  · cases h

theorem target_spec {pc t' : Nat} (h : target p pc = some t') : ∀ t, p.codes[pc + 1]? = some t → t.toNat = t' := by
  intro t ht
  unfold target at h
  rw [ht] at h
  split at h
  · next u hu => cases hu; cases h; rfl
  · cases h

theorem nothing_fwd {S : STy} {σ : RTy} {core : List Int} {tp : Int} (h : FwdH p bs env a s S σ core tp) :
    TBodyOk p bs env.len a s.codepos (.ok (s, .back)) :=
  ⟨σ, core, tp, h.tr, h.good, h.vals, h.cap⟩

theorem lazybranch_fwd {S : STy} {σ : RTy} {core : List Int} {tp : Int} (c : Ctx p bs env s w o) (ho : o = .lazybranch)
    (h : FwdH p bs env a s S σ core tp) (hn : NextOk a (s.codepos + 2) S) :
    TBodyOk p bs env.len a s.codepos (.ok (push1 s s.textpos, .advance 1)) := by
  subst ho
  refine ⟨σ, ⟨(s.codepos : Int) :: ([s.textpos] ++ core), tp, by simp [push1, h.tr], ?_, h.vals, h.cap⟩, hn.succ h.sub⟩
  exact good_push c false [s.textpos] core S σ σ _ _ rfl (by intro h; cases h) h.hS ⟨h.sub, rfl, rfl⟩ h.good
      (by have := sub_len h.sub; omega)

theorem lazybranch_init (ht : s.track = []) (hst : s.stack = []) (hcr : s.cap.crawl = [])
    (hpc : s.codepos = 0) (hcap : CapOk env.len p.capsize s.cap) (hn : Succ a 2 []) :
    TBodyOk p bs env.len a s.codepos (.ok (push1 s s.textpos, .advance 1)) := by
  refine ⟨[], ⟨[0], s.textpos, by simp [push1, ht, hpc], ?_, by simp [push1, hst, Vals], hcap⟩, by rw [hpc]; exact hn⟩
  have : crawlLen (push1 s s.textpos) = 0 := by simp [crawlLen, push1, hcr]
  rw [this]; exact Good.root

theorem goto_fwd {S : STy} {σ : RTy} {core : List Int} {tp : Int} (h : FwdH p bs env a s S σ core tp)
    (hn : ∀ t, p.codes[s.codepos + 1]? = some t → NextOk a t.toNat S) :
    TBodyOk p bs env.len a s.codepos (caseGoto p s) := by
  unfold caseGoto
  cases h0 : operand p s 0 with
  | error f => exact operand_nodisc _ _ _ _ h0
  | ok t => exact Or.inl ⟨σ, ⟨core, tp, h.tr, h.good, h.vals, h.cap⟩, (hn t (operand_val h0)).succ h.sub⟩

theorem setmark_fwd {S : STy} {σ : RTy} {core : List Int} {tp : Int} (c : Ctx p bs env s w o)
    (ho : o = .setmark ∨ o = .nullmark) (v : Int) (k : RK) (hk : (o = .setmark ∧ k = .pos) ∨ (o = .nullmark ∧ k = .mark))
    (hv : valOk env.len k v) (h : FwdH p bs env a s S σ core tp) (hn : NextOk a (s.codepos + 1) (k.erase :: S)) :
    TBodyOk p bs env.len a s.codepos (.ok (push0 (spush s v), .advance 0)) := by
  refine ⟨k :: σ, ⟨(s.codepos : Int) :: ([] ++ core), tp, by simp [push0, spush, h.tr], ?_, ⟨hv, h.vals⟩, h.cap⟩,
    hn.succ (subTy_cons (Kind.sub_refl _) h.sub)⟩
  refine good_push c false [] core S (k :: σ) σ _ _ ?_ (by intro h; cases h) h.hS ?_ h.good
      (by have := sub_len h.sub; simp only [List.length_cons] at this ⊢ <;> omega)
  · rcases ho with rfl | rfl <;> rfl
  · rcases hk with ⟨rfl, rfl⟩ | ⟨rfl, rfl⟩ <;> exact ⟨rfl, rfl⟩

theorem setcount_fwd {S : STy} {σ : RTy} {core : List Int} {tp : Int} (c : Ctx p bs env s w o)
    (mark : Int) (k : RK) (hk : (o = .setcount ∧ k = .pos) ∨ (o = .nullcount ∧ k = .mark))
    (hv : valOk env.len k mark) (h : FwdH p bs env a s S σ core tp)
    (hn : NextOk a (s.codepos + 2) (.count :: k.erase :: S)) :
    TBodyOk p bs env.len a s.codepos (caseSetcount p mark s) := by
  unfold caseSetcount
  cases h0 : operand p s 0 with
  | error f => exact operand_nodisc _ _ _ _ h0
  | ok v =>
    refine ⟨.count :: k :: σ, ⟨(s.codepos : Int) :: ([] ++ core), tp, by simp [push0, spush2, h.tr], ?_,
      ⟨trivial, hv, h.vals⟩, h.cap⟩, hn.succ (subTy_cons (Kind.sub_refl _) (subTy_cons (Kind.sub_refl _) h.sub))⟩
    refine good_push c false [] core S (.count :: k :: σ) σ _ _ ?_ (by intro h; cases h) h.hS ?_ h.good
        (by have := sub_len h.sub; simp only [List.length_cons] at this ⊢ <;> omega)
    · rcases hk with ⟨rfl, _⟩ | ⟨rfl, _⟩ <;> rfl
    · rcases hk with ⟨rfl, rfl⟩ | ⟨rfl, rfl⟩ <;> exact ⟨rfl, rfl⟩

theorem setjump_fwd {S : STy} {σ : RTy} {core : List Int} {tp : Int} (c : Ctx p bs env s w o) (ho : o = .setjump)
    (h : FwdH p bs env a s S σ core tp) (hn : NextOk a (s.codepos + 1) (.cdepth :: .tdepth :: S)) :
    TBodyOk p bs env.len a s.codepos (caseSetjump s) := by
  subst ho
  unfold caseSetjump
  have hlen : ((s.track.length : Nat) : Int) = (core.length : Int) + 1 := by rw [h.tr]; simp
  refine ⟨.cd (crawlLen s) :: .td ((core.length : Int) + 1) :: σ,
    ⟨(s.codepos : Int) :: ([] ++ core), tp, by simp [push0, spush2, h.tr], ?_, ⟨rfl, hlen, h.vals⟩, h.cap⟩,
    hn.succ (subTy_cons (Kind.sub_refl _) (subTy_cons (Kind.sub_refl _) h.sub))⟩
  exact good_push c false [] core S _ σ _ _ rfl (by intro h; cases h) h.hS
    ⟨rfl, rfl, by unfold crawlLen; omega⟩ h.good
        (by have := sub_len h.sub; simp only [List.length_cons] at this ⊢ <;> omega)

/-! ### `trackto` and `uncaptureTo` succeed -/

theorem cutFrames_cut (tp : Int) : ∀ {t t' : List Int}, Cut p t t' → ∀ fuel, t.length + 1 ≤ fuel →
    cutFrames p fuel (t.length - t'.length) (t ++ [tp]) = some (t' ++ [tp]) := by
  intro t t' h
  induction h with
  | refl t => intro fuel _; simp [cutFrames]
  | step c d rest t' hs hcut ih =>
    intro fuel hf
    have hle := hcut.length_le
    obtain ⟨f, rfl⟩ : ∃ f, fuel = f + 1 := ⟨fuel - 1, by simp at hf; omega⟩
    have hk : (c :: (d ++ rest)).length - t'.length = (d.length + (rest.length - t'.length)) + 1 := by
      simp; omega
    rw [hk]
    simp only [List.cons_append, cutFrames, hs]
    have hcond : d.length + 1 ≤ d.length + (rest.length - t'.length) + 1 ∧
        d.length + 1 ≤ (d ++ rest ++ [tp]).length + 1 := by simp
    rw [if_pos hcond]
    have hdrop : (c :: (d ++ rest ++ [tp])).drop (d.length + 1) = rest ++ [tp] := by simp
    rw [hdrop]
    have : d.length + (rest.length - t'.length) + 1 - (d.length + 1) = rest.length - t'.length := by omega
    rw [this]
    exact ih f (by simp at hf; omega)

theorem trackto_cut {core tr' : List Int} {tp : Int} (s1 : VMState) (ht : s1.track = core ++ [tp])
    (hc : Cut p core tr') (y : Int) (hy : (tr'.length : Int) + 1 = y) :
    trackto p s1 y = .ok { s1 with track := tr' ++ [tp] } := by
  unfold trackto
  have hle := hc.length_le
  have h1 : 0 ≤ y ∧ y.toNat ≤ s1.track.length := by rw [ht]; simp; omega
  rw [if_pos h1]
  have h2 : s1.track.length - y.toNat = core.length - tr'.length := by rw [ht]; simp; omega
  rw [h2, ht, cutFrames_cut tp hc _ (by simp)]
  cases tr' <;> rfl

theorem uncaptureTo_spec (N : Int) (k : Nat) (target : Int) : ∀ (fuel : Nat) (s1 : VMState), 0 ≤ target →
    target ≤ crawlLen s1 → crawlLen s1 - target ≤ fuel → CapOk N k s1.cap →
    ∃ s2, uncaptureTo target fuel s1 = .ok s2 ∧ SameButCap s1 s2 ∧ crawlLen s2 = target ∧ CapOk N k s2.cap := by
  intro fuel
  induction fuel with
  | zero =>
    intro s1 h0 h1 h2 hc
    have : (s1.cap.crawl.length : Int) = target := by unfold crawlLen at h1 h2; omega
    exact ⟨s1, by simp [uncaptureTo, this], ⟨rfl, rfl, rfl, rfl, rfl⟩, this, hc⟩
  | succ fuel ih =>
    intro s1 h0 h1 h2 hc
    unfold uncaptureTo
    by_cases he : (s1.cap.crawl.length : Int) = target
    · exact ⟨s1, by simp [he], ⟨rfl, rfl, rfl, rfl, rfl⟩, he, hc⟩
    · rw [if_neg he]
      unfold crawlLen at h1 h2
      cases hcr : s1.cap.crawl with
      | nil => rw [hcr] at h1 he; simp at h1 he; omega
      | cons x rest =>
        have hu : uncapture s1 = .ok { s1 with cap := MatchBuilder.uncapture s1.cap } := by simp [uncapture, hcr]
        have hlen : crawlLen { s1 with cap := MatchBuilder.uncapture s1.cap } = (rest.length : Int) := by
          simp [crawlLen, MatchBuilder.uncapture, hcr]
        have hc' : CapOk N k (MatchBuilder.uncapture s1.cap) := capOk_uncapture hc (by rw [hcr]; simp)
        rw [hcr] at h1 h2 he
        simp only [List.length_cons] at h1 h2 he
        obtain ⟨s2, e, hsame, hl, hc2⟩ := ih { s1 with cap := MatchBuilder.uncapture s1.cap } h0 (by rw [hlen]; omega)
          (by rw [hlen]; omega) hc'
        refine ⟨s2, by simp only [hu]; exact e, ?_, hl, hc2⟩
        obtain ⟨b1, b2, b3, b4, b5⟩ := hsame
        exact ⟨b1, b2, b3, b4, b5⟩

/-! ### forward cases that pop the grouping stack -/

/-- the current stack type begins with a slot below kind `K` -/
theorem fwd_top {S : STy} {σ : RTy} {core : List Int} {tp : Int} {K : Kind} {R : STy}
    (h : FwdH p bs env a s S σ core tp) (hS : S = K :: R) :
    ∃ k ρ v rest, σ = k :: ρ ∧ k.erase.sub K = true ∧ subTy (erase ρ) R = true ∧ s.stack = v :: rest ∧
      valOk env.len k v ∧ Vals env.len rest ρ := by
  have hsub := h.sub
  rw [hS] at hsub
  obtain ⟨k, ρ, rfl, h1, h2⟩ := subTy_cons_right hsub
  obtain ⟨v, rest, e, h3, h4⟩ := h.vals.cons_inv
  exact ⟨k, ρ, v, rest, rfl, h1, h2, e, h3, h4⟩

theorem getmark_fwd {S R : STy} {σ : RTy} {core : List Int} {tp : Int} (c : Ctx p bs env s w o) (ho : o = .getmark)
    (h : FwdH p bs env a s S σ core tp) (hS : S = .pos :: R) (hn : NextOk a (s.codepos + 1) R) :
    TBodyOk p bs env.len a s.codepos (caseGetmark env s) := by
  subst ho
  obtain ⟨k, ρ, v, rest, rfl, hk, hρ, hst, hv, hvals⟩ := fwd_top h hS
  have := RK.sub_pos hk; subst this
  unfold caseGetmark
  rw [hst]
  simp only [texttoStack, if_pos (show 0 ≤ v ∧ v ≤ env.len from hv), Except.map]
  refine ⟨ρ, ⟨(s.codepos : Int) :: ([v] ++ core), tp, by simp [textto, push1, h.tr], ?_, hvals, h.cap⟩, hn.succ hρ⟩
  exact good_push c false [v] core S ρ (.pos :: ρ) _ _ rfl (by intro h; cases h) h.hS
    ⟨⟨.pos, rfl, rfl, hv⟩, rfl⟩ h.good (by have := sub_len h.sub; simp only [List.length_cons] at this ⊢ <;> omega)

theorem branchmark_fwd {S R : STy} {K : Kind} {σ : RTy} {core : List Int} {tp : Int} (c : Ctx p bs env s w o)
    (ho : o = .branchmark) (h : FwdH p bs env a s S σ core tp) (hS : S = K :: R) (hK : StackTyping.isMark K = true)
    (hn : NextOk a (s.codepos + 2) R)
    (hj : ∀ t, p.codes[s.codepos + 1]? = some t → NextOk a t.toNat (.pos :: R)) :
    TBodyOk p bs env.len a s.codepos (caseBranchmark p s) := by
  subst ho
  obtain ⟨k, ρ, mark, rest, rfl, hk, hρ, hst, hv, hvals⟩ := fwd_top h hS
  have hkm := RK.sub_isMark hk hK
  unfold caseBranchmark
  rw [hst]
  simp only
  split
  · cases h0 : operand p s 0 with
    | error f => exact operand_nodisc _ _ _ _ h0
    | ok t =>
      refine Or.inl ⟨.pos :: ρ, ⟨(s.codepos : Int) :: ([s.textpos, mark] ++ core), tp, by simp [spush, push2, h.tr], ?_,
        ⟨⟨c.tp0, c.tpn⟩, hvals⟩, h.cap⟩, (hj t (operand_val h0)).succ (subTy_cons (Kind.sub_refl _) hρ)⟩
      exact good_push c false [s.textpos, mark] core S (.pos :: ρ) (k :: ρ) _ _ rfl (by intro h; cases h) h.hS
        ⟨⟨ρ, k, K, R, rfl, hS, hρ, rfl, hkm, hv⟩, rfl⟩ h.good
            (by have := sub_len h.sub; simp only [List.length_cons] at this ⊢ <;> omega)
  · refine ⟨ρ, ⟨-(s.codepos : Int) :: ([mark] ++ core), tp, by simp [pushNeg1, h.tr], ?_, hvals, h.cap⟩, hn.succ hρ⟩
    exact good_push c true [mark] core S ρ (k :: ρ) _ _ rfl (by intro _ h; cases h) h.hS
      ⟨⟨k, rfl, hkm, hv⟩, rfl⟩ h.good (by have := sub_len h.sub; simp only [List.length_cons] at this ⊢ <;> omega)

theorem lazybranchmark_fwd {S R : STy} {K : Kind} {σ : RTy} {core : List Int} {tp : Int} (c : Ctx p bs env s w o)
    (ho : o = .lazybranchmark) (h : FwdH p bs env a s S σ core tp) (hS : S = K :: R)
    (hK : StackTyping.isMark K = true) (hn : NextOk a (s.codepos + 2) R) :
    TBodyOk p bs env.len a s.codepos (caseLazybranchmark s) := by
  subst ho
  obtain ⟨k, ρ, old, rest, rfl, hk, hρ, hst, hv, hvals⟩ := fwd_top h hS
  have hkm := RK.sub_isMark hk hK
  unfold caseLazybranchmark
  rw [hst]
  simp only
  split
  · split
    · refine ⟨ρ, ⟨(s.codepos : Int) :: ([s.textpos, old] ++ core), tp, by simp [push2, h.tr], ?_, hvals, h.cap⟩, hn.succ hρ⟩
      exact good_push c false [s.textpos, old] core S ρ (k :: ρ) _ _ rfl (by intro h; cases h) h.hS
        ⟨⟨k, K, R, hS, hρ, c.tp0, c.tpn, rfl, hkm, hv⟩, rfl⟩ h.good
            (by have := sub_len h.sub; simp only [List.length_cons] at this ⊢ <;> omega)
    · refine ⟨ρ, ⟨(s.codepos : Int) :: ([s.textpos, s.textpos] ++ core), tp, by simp [push2, h.tr], ?_, hvals, h.cap⟩,
        hn.succ hρ⟩
      exact good_push c false [s.textpos, s.textpos] core S ρ (k :: ρ) _ _ rfl (by intro h; cases h) h.hS
        ⟨⟨k, K, R, hS, hρ, c.tp0, c.tpn, rfl, hkm, valOk_isMark hkm c.tp0 c.tpn⟩, rfl⟩ h.good
            (by have := sub_len h.sub; simp only [List.length_cons] at this ⊢ <;> omega)
  · refine ⟨ρ, ⟨-(s.codepos : Int) :: ([0, old] ++ core), tp, by simp [pushNeg2, h.tr], ?_, hvals, h.cap⟩, hn.succ hρ⟩
    exact good_push c true [0, old] core S ρ (k :: ρ) _ _ rfl (by intro _ h; cases h) h.hS
      ⟨⟨k, hkm, hv, by simp⟩, rfl⟩ h.good (by have := sub_len h.sub; simp only [List.length_cons] at this ⊢ <;> omega)

/-- the current stack type begins with a counter over a mark -/
theorem fwd_top2 {S : STy} {σ : RTy} {core : List Int} {tp : Int} {K : Kind} {R : STy}
    (h : FwdH p bs env a s S σ core tp) (hS : S = .count :: K :: R) :
    ∃ k ρ cnt mark rest, σ = .count :: k :: ρ ∧ k.erase.sub K = true ∧ subTy (erase ρ) R = true ∧
      s.stack = cnt :: mark :: rest ∧ valOk env.len k mark ∧ Vals env.len rest ρ := by
  obtain ⟨k1, ρ1, cnt, rest1, rfl, hk1, hρ1, hst, _, hvals1⟩ := fwd_top h hS
  have := RK.sub_count hk1; subst this
  obtain ⟨k, ρ, rfl, hk, hρ⟩ := subTy_cons_right hρ1
  obtain ⟨mark, rest, rfl, hv, hvals⟩ := hvals1.cons_inv
  exact ⟨k, ρ, cnt, mark, rest, rfl, hk, hρ, hst, hv, hvals⟩

theorem branchcount_fwd {S R : STy} {K : Kind} {σ : RTy} {core : List Int} {tp : Int} (c : Ctx p bs env s w o)
    (ho : o = .branchcount) (h : FwdH p bs env a s S σ core tp) (hS : S = .count :: K :: R)
    (hK : StackTyping.isMark K = true) (hn : NextOk a (s.codepos + 3) R)
    (hj : ∀ t, p.codes[s.codepos + 1]? = some t → NextOk a t.toNat (.count :: .pos :: R)) :
    TBodyOk p bs env.len a s.codepos (caseBranchcount p s) := by
  subst ho
  obtain ⟨k, ρ, cnt, mark, rest, rfl, hk, hρ, hst, hv, hvals⟩ := fwd_top2 h hS
  have hkm := RK.sub_isMark hk hK
  unfold caseBranchcount
  rw [hst]
  simp only
  refine eff_bind (P := TBodyOk p bs env.len a s.codepos) (operand_nodisc _ _ _) (fun _ h => h) (fun lim _ => ?_)
  split
  · refine ⟨ρ, ⟨-(s.codepos : Int) :: ([cnt, mark] ++ core), tp, by simp [pushNeg2, h.tr], ?_, hvals, h.cap⟩, hn.succ hρ⟩
    exact good_push c true [cnt, mark] core S ρ (.count :: k :: ρ) _ _ rfl (by intro _ h; cases h) h.hS
      ⟨⟨k, rfl, hkm, hv⟩, rfl⟩ h.good (by have := sub_len h.sub; simp only [List.length_cons] at this ⊢ <;> omega)
  · refine eff_bind (P := TBodyOk p bs env.len a s.codepos) (operand_nodisc _ _ _) (fun _ h => h) (fun t ht => ?_)
    refine Or.inl ⟨.count :: .pos :: ρ, ⟨(s.codepos : Int) :: ([mark] ++ core), tp, by simp [spush2, push1, h.tr], ?_,
      ⟨trivial, ⟨c.tp0, c.tpn⟩, hvals⟩, h.cap⟩,
      (hj t (operand_val ht)).succ (subTy_cons (Kind.sub_refl _) (subTy_cons (Kind.sub_refl _) hρ))⟩
    exact good_push c false [mark] core S (.count :: .pos :: ρ) (.count :: k :: ρ) _ _ rfl (by intro h; cases h) h.hS
      ⟨⟨ρ, k, K, R, rfl, hS, hρ, rfl, hkm, hv⟩, rfl⟩ h.good
          (by have := sub_len h.sub; simp only [List.length_cons] at this ⊢ <;> omega)

theorem lazybranchcount_fwd {S R : STy} {K : Kind} {σ : RTy} {core : List Int} {tp : Int} (c : Ctx p bs env s w o)
    (ho : o = .lazybranchcount) (h : FwdH p bs env a s S σ core tp) (hS : S = .count :: K :: R)
    (hK : StackTyping.isMark K = true) (hn : NextOk a (s.codepos + 3) R)
    (hj : ∀ t, p.codes[s.codepos + 1]? = some t → NextOk a t.toNat (.count :: .pos :: R)) :
    TBodyOk p bs env.len a s.codepos (caseLazybranchcount p s) := by
  subst ho
  obtain ⟨k, ρ, cnt, mark, rest, rfl, hk, hρ, hst, hv, hvals⟩ := fwd_top2 h hS
  have hkm := RK.sub_isMark hk hK
  unfold caseLazybranchcount
  rw [hst]
  simp only
  split
  · cases h0 : operand p s 0 with
    | error f => exact operand_nodisc _ _ _ _ h0
    | ok t =>
      refine Or.inl ⟨.count :: .pos :: ρ, ⟨-(s.codepos : Int) :: ([mark] ++ core), tp,
        by simp [spush2, pushNeg1, h.tr], ?_, ⟨trivial, ⟨c.tp0, c.tpn⟩, hvals⟩, h.cap⟩,
        (hj t (operand_val h0)).succ (subTy_cons (Kind.sub_refl _) (subTy_cons (Kind.sub_refl _) hρ))⟩
      exact good_push c true [mark] core S (.count :: .pos :: ρ) (.count :: k :: ρ) _ _ rfl (by intro _ h; cases h) h.hS
        ⟨⟨ρ, k, rfl, rfl, hkm, hv⟩, rfl⟩ h.good
            (by have := sub_len h.sub; simp only [List.length_cons] at this ⊢ <;> omega)
  · refine ⟨ρ, ⟨(s.codepos : Int) :: ([s.textpos, cnt, mark] ++ core), tp, by simp [push3, h.tr], ?_, hvals, h.cap⟩, hn.succ hρ⟩
    exact good_push c false [s.textpos, cnt, mark] core S ρ (.count :: k :: ρ) _ _ rfl (by intro h; cases h) h.hS
      ⟨⟨k, K, R, hS, hρ, c.tp0, c.tpn, rfl, hkm, hv⟩, rfl⟩ h.good
          (by have := sub_len h.sub; simp only [List.length_cons] at this ⊢ <;> omega)

/-- the current stack begins with the pair pushed by a `Setjump` -/
theorem fwd_pair {S R : STy} {σ : RTy} {core : List Int} {tp : Int}
    (h : FwdH p bs env a s S σ core tp) (hS : S = .cdepth :: .tdepth :: R) :
    ∃ x y ρ rest, σ = .cd x :: .td y :: ρ ∧ subTy (erase ρ) R = true ∧ s.stack = x :: y :: rest ∧
      Vals env.len rest ρ := by
  obtain ⟨k1, ρ1, x, rest1, rfl, hk1, hρ1, hst, hv1, hvals1⟩ := fwd_top h hS
  obtain ⟨x', rfl⟩ := RK.sub_cdepth hk1
  obtain ⟨k2, ρ, rfl, hk2, hρ⟩ := subTy_cons_right hρ1
  obtain ⟨y', rfl⟩ := RK.sub_tdepth hk2
  obtain ⟨y, rest, rfl, hv2, hvals⟩ := hvals1.cons_inv
  have hx : x = x' := hv1
  have hy : y = y' := hv2
  subst hx hy
  exact ⟨x, y, ρ, rest, rfl, hρ, hst, hvals⟩

theorem backjump_fwd {S R : STy} {σ : RTy} {core : List Int} {tp : Int}
    (h : FwdH p bs env a s S σ core tp) (hS : S = .cdepth :: .tdepth :: R) :
    TBodyOk p bs env.len a s.codepos (caseBackjump p s) := by
  obtain ⟨x, y, ρ, rest, rfl, hρ, hst, hvals⟩ := fwd_pair h hS
  obtain ⟨tr', hcut, hlen, hg, hx0, hxl⟩ := pair_lookup h.good [] x y ρ rfl
  unfold caseBackjump
  rw [hst]
  simp only [bind, Except.bind]
  rw [trackto_cut (p := p) (tp := tp) { s with stack := rest } h.tr hcut y hlen]
  simp only
  obtain ⟨s2, e, ⟨b1, b2, b3, b4, b5⟩, hl, hc2⟩ := uncaptureTo_spec env.len p.capsize x s.cap.crawl.length
    { s with stack := rest, track := tr' ++ [tp] } hx0 hxl (by simp only [crawlLen]; omega) h.cap
  rw [e]
  exact ⟨ρ, tr', tp, b1, by rw [hl]; exact hg, by rw [b5]; exact hvals, hc2⟩

theorem forejump_fwd {S R : STy} {σ : RTy} {core : List Int} {tp : Int} (c : Ctx p bs env s w o) (ho : o = .forejump)
    (h : FwdH p bs env a s S σ core tp) (hS : S = .cdepth :: .tdepth :: R) (hn : NextOk a (s.codepos + 1) R) :
    TBodyOk p bs env.len a s.codepos (caseForejump p s) := by
  subst ho
  obtain ⟨x, y, ρ, rest, rfl, hρ, hst, hvals⟩ := fwd_pair h hS
  obtain ⟨tr', hcut, hlen, hg, hx0, hxl⟩ := pair_lookup h.good [] x y ρ rfl
  unfold caseForejump
  rw [hst]
  simp only
  rw [trackto_cut (p := p) (tp := tp) { s with stack := rest } h.tr hcut y hlen]
  simp only [Except.map]
  refine ⟨ρ, ⟨(s.codepos : Int) :: ([x] ++ tr'), tp, by simp [push1], ?_, hvals, h.cap⟩, hn.succ hρ⟩
  exact good_push c false [x] tr' S ρ ρ _ x rfl (by intro h; cases h) h.hS ⟨rfl, rfl, hx0, hxl⟩ hg
      (by have := sub_len h.sub; simp only [List.length_cons] at this ⊢ <;> omega)

theorem updatebumpalong_fwd {S : STy} {σ : RTy} {core : List Int} {tp : Int}
    (h : FwdH p bs env a s S σ core tp) (hn : NextOk a (s.codepos + 1) S) :
    TBodyOk p bs env.len a s.codepos (caseUpdateBumpalong s) := by
  unfold caseUpdateBumpalong
  have hl : s.track.getLast? = some tp := by rw [h.tr]; simp
  rw [hl]
  simp only
  split
  · refine ⟨σ, ⟨core, s.textpos, ?_, h.good, h.vals, h.cap⟩, hn.succ h.sub⟩
    show s.track.dropLast ++ [s.textpos] = core ++ [s.textpos]
    rw [h.tr]; simp
  · exact ⟨σ, ⟨core, tp, h.tr, h.good, h.vals, h.cap⟩, hn.succ h.sub⟩

/-! ### `Capturemark` -/

theorem capture_crawl (r : MatchBuilder.Runner) (c : Nat) (x y : Int) :
    (MatchBuilder.capture r c x y).crawl.length = r.crawl.length + 1 := by
  unfold MatchBuilder.capture; split <;> simp

theorem transferCapture_crawl (r : MatchBuilder.Runner) (c0 : Int) (c1 : Nat) (x y : Int) :
    (MatchBuilder.transferCapture r c0 c1 x y).crawl.length = r.crawl.length + (if c0 ≠ -1 then 2 else 1) := by
  unfold MatchBuilder.transferCapture
  simp only
  split <;> simp

theorem capturemark_fwd {S R : STy} {σ : RTy} {core : List Int} {tp : Int} (c : Ctx p bs env s w o) (ho : o = .capturemark)
    (h : FwdH p bs env a s S σ core tp) (hS : S = .pos :: R) (hn : NextOk a (s.codepos + 3) R) :
    TBodyOk p bs env.len a s.codepos (caseCapturemark p s) := by
  subst ho
  obtain ⟨k, ρ, v, rest, rfl, hk, hρ, hst, hv, hvals⟩ := fwd_top h hS
  have := RK.sub_pos hk; subst this
  unfold caseCapturemark
  refine eff_bind (P := TBodyOk p bs env.len a s.codepos) (operand_nodisc _ _ _) (fun _ h => h) (fun c0 h0 => ?_)
  refine eff_bind (P := TBodyOk p bs env.len a s.codepos) (operand_nodisc _ _ _) (fun _ h => h) (fun c1 h1 => ?_)
  have e0 := operand_val h0
  have e1 := operand_val h1
  have hK : capK p s.codepos = if c0 ≠ -1 ∧ c1 ≠ -1 then 2 else 1 := by
    unfold capK; simp only [e0, e1, Option.getD_some, bne_iff_ne, ne_eq, Bool.and_eq_true]
  -- the frame pushed by both capturing branches
  have key : ∀ (cap' : MatchBuilder.Runner), (cap'.crawl.length : Int) = crawlLen s + capK p s.codepos →
      CapOk env.len p.capsize cap' →
      TMid p bs env.len a s.codepos (push1 { s with stack := rest, cap := cap' } v) (.advance 2) := by
    intro cap' hc hcap'
    refine ⟨ρ, ⟨(s.codepos : Int) :: ([v] ++ core), tp, by simp [push1, h.tr], ?_, hvals, hcap'⟩, hn.succ hρ⟩
    have hcl : crawlLen (push1 { s with stack := rest, cap := cap' } v) = crawlLen s + capK p s.codepos := by
      simp only [crawlLen, push1]; exact hc
    rw [hcl]
    have hp := capK_pos p s.codepos
    exact good_push c false [v] core S ρ (.pos :: ρ) _ (crawlLen s) rfl (by intro h; cases h) h.hS
      ⟨⟨.pos, rfl, rfl, hv⟩, by omega, by unfold crawlLen; omega⟩ h.good
          (by have := sub_len h.sub; simp only [List.length_cons] at this ⊢ <;> omega)
  simp only
  by_cases hc1 : c1 = -1
  · subst hc1
    simp only [bne_self_eq_false, Bool.false_eq_true, ite_false, pure, Except.pure, bind, Except.bind, hst]
    split
    · next hok =>
      have hlt : c0.toNat < p.capsize := by
        simp only [capOk, Bool.and_eq_true, decide_eq_true_eq] at hok; exact hok.2
      refine key _ ?_ (capOk_capture h.cap c0.toNat hlt v s.textpos hv.1 hv.2 c.tp0 c.tpn)
      rw [capture_crawl, hK]
      simp [crawlLen]
    · rfl
  · have hne : (c1 != -1) = true := by simp [hc1]
    simp only [hne, ite_true]
    refine eff_bind (P := TBodyOk p bs env.len a s.codepos) (map_nodisc _ (isMatched_nodisc _ _)) (fun _ h => h)
      (fun um hum => ?_)
    split
    · exact ⟨.pos :: ρ, core, tp, h.tr, h.good, h.vals, h.cap⟩
    · next hnum =>
      -- the group to pop is matched, hence a slot
      have hm : MatchBuilder.isMatched s.cap.m c1.toNat = true := by
        unfold isMatched at hum
        split at hum
        · cases hum
        · simp only [Except.map, Except.ok.injEq] at hum
          cases hb : MatchBuilder.isMatched s.cap.m c1.toNat
          · rw [hb] at hum; simp at hum; exact absurd hum hnum
          · rfl
      have hlt1 : c1.toNat < p.capsize := by
        have h1 := hm
        unfold MatchBuilder.isMatched at h1
        simp only [Bool.and_eq_true, decide_eq_true_eq] at h1
        have := reach_len h.cap.1
        omega
      rw [hst]
      simp only
      split
      · next hcond =>
        have hc0' : c0 = -1 ∨ (0 ≤ c0 ∧ c0.toNat < p.capsize) := by
          rcases hcond with h' | h'
          · exact Or.inl h'
          · simp only [capOk, Bool.and_eq_true, decide_eq_true_eq] at h'; exact Or.inr h'
        refine key _ ?_ (capOk_transfer h.cap c0 c1.toNat hc0' hlt1 hm v s.textpos hv.1 hv.2 c.tp0 c.tpn)
        rw [transferCapture_crawl, hK]
        by_cases hc0 : c0 = -1 <;> simp [crawlLen, hc1, hc0]
      · rfl

/-! ### Back / Back2 mode -/

/-- Back / Back2 mode: the data `d` of the popped frame on the chain `core`, the frame's typing, the stack -/
structure BackH (p : Prog) (bs : List Nat) (env : Env) (a : Assign) (s : VMState) (o : Op) (b2 : Bool) (S : STy)
    (d core : List Int) (tp : Int) (τ τ' : RTy) (cl' : Int) : Prop where
  tr : s.track = d ++ (core ++ [tp])
  fd : frameData o b2 = some d.length
  hS : a.get s.codepos = some S
  ft : FrameTy p env.len s.codepos o b2 S d ((core.length : Int) + 1) τ (crawlLen s) τ' cl'
  good : Good p bs env.len a core τ' cl'
  vals : Vals env.len s.stack τ
  cap : CapOk env.len p.capsize s.cap

/-- effect of `Oneloop|Back` … `Setlazy|Back`: the frame is popped, at most one frame of the same instruction pushed -/
def NeutralBackEff (s : VMState) (rest : List Int) : Res → Prop
  | .error f => disc f = false
  | .ok (s1, e) => s1.stack = s.stack ∧ s1.cap = s.cap ∧
      (s1.track = rest ∨ ∃ x y, s1.track = (s.codepos : Int) :: ([x, y] ++ rest)) ∧ (e = .back ∨ e = .advance 2)

theorem caseLoopBack_eff {pos i : Int} {rest : List Int} (ht : s.track = pos :: i :: rest) :
    NeutralBackEff s rest (caseLoopBack s) := by
  unfold caseLoopBack
  rw [ht]
  simp only
  split
  · exact ⟨rfl, rfl, Or.inr ⟨_, _, rfl⟩, Or.inr rfl⟩
  · exact ⟨rfl, rfl, Or.inl rfl, Or.inr rfl⟩

theorem caseLazyBack_eff {pos i : Int} {rest : List Int} (sel : Nat) (ht : s.track = pos :: i :: rest) :
    NeutralBackEff s rest (caseLazyBack p env sel s) := by
  unfold caseLazyBack
  rw [ht]
  simp only
  refine eff_bind (P := NeutralBackEff s rest) (operand_nodisc _ _ _) (fun _ h => h) (fun x _ => ?_)
  refine eff_bind (P := NeutralBackEff s rest) (charPred_nodisc _ _ _ _) (fun _ h => h) (fun pred _ => ?_)
  refine eff_bind (P := NeutralBackEff s rest) (forwardcharnext_nodisc _ _ _) (fun _ h => h) (fun cp _ => ?_)
  obtain ⟨ch, pos'⟩ := cp
  simp only
  split
  · split
    · exact ⟨rfl, rfl, Or.inr ⟨_, _, rfl⟩, Or.inr rfl⟩
    · exact ⟨rfl, rfl, Or.inl rfl, Or.inr rfl⟩
  · exact ⟨rfl, rfl, Or.inl rfl, Or.inl rfl⟩

theorem neutral_back {S : STy} {d core : List Int} {tp : Int} {τ τ' : RTy} {cl' : Int} (c : Ctx p bs env s w o)
    (ho : o = .oneloop ∨ o = .notoneloop ∨ o = .setloop ∨ o = .onelazy ∨ o = .notonelazy ∨ o = .setlazy)
    (b : BackH p bs env a s o false S d core tp τ τ' cl') (hn : NextOk a (s.codepos + 3) S)
    (r : Res) (he : NeutralBackEff s (core ++ [tp]) r) : TBodyOk p bs env.len a s.codepos r := by
  have hft : subTy (erase τ) S = true ∧ τ' = τ ∧ cl' = crawlLen s := by
    have := b.ft
    rcases ho with rfl | rfl | rfl | rfl | rfl | rfl <;> exact this
  obtain ⟨hsub, rfl, rfl⟩ := hft
  cases r with
  | error f => exact he
  | ok r =>
    obtain ⟨s1, e⟩ := r
    obtain ⟨hst, hcap, htr, hex⟩ := he
    have hcl : crawlLen s1 = crawlLen s := by unfold crawlLen; rw [hcap]
    have hch : ChainS p bs env.len a s1 τ' := by
      rcases htr with ht | ⟨x, y, ht⟩
      · exact ⟨core, tp, ht, by rw [hcl]; exact b.good, by rw [hst]; exact b.vals, by rw [hcap]; exact b.cap⟩
      · refine ⟨(s.codepos : Int) :: ([x, y] ++ core), tp, by rw [ht]; simp, ?_, by rw [hst]; exact b.vals,
          by rw [hcap]; exact b.cap⟩
        rw [hcl]
        refine good_push c false [x, y] core S τ' τ' _ _ ?_ (by intro h; cases h) b.hS ?_ b.good
            (by have := sub_len hsub; omega)
        · rcases ho with rfl | rfl | rfl | rfl | rfl | rfl <;> rfl
        · rcases ho with rfl | rfl | rfl | rfl | rfl | rfl <;> exact ⟨hsub, rfl, rfl⟩
    rcases hex with rfl | rfl
    · exact ⟨τ', hch⟩
    · exact ⟨τ', hch, hn.succ hsub⟩

theorem lazybranch_back {S : STy} {d core : List Int} {tp : Int} {τ τ' : RTy} {cl' : Int} (ho : o = .lazybranch)
    (b : BackH p bs env a s o false S d core tp τ τ' cl')
    (hj : ∀ t, p.codes[s.codepos + 1]? = some t → NextOk a t.toNat S) :
    TBodyOk p bs env.len a s.codepos (caseLazybranchBack p s) := by
  subst ho
  obtain ⟨tp', rfl⟩ := len1 b.fd
  obtain ⟨hsub, rfl, rfl⟩ : subTy (erase τ) S = true ∧ τ' = τ ∧ cl' = crawlLen s := b.ft
  unfold caseLazybranchBack
  rw [b.tr]
  simp only [List.cons_append, List.nil_append]
  cases h0 : operand p s 0 with
  | error f => exact operand_nodisc _ _ _ _ h0
  | ok t => exact Or.inl ⟨τ', ⟨core, tp, rfl, b.good, b.vals, b.cap⟩, (hj t (operand_val h0)).succ hsub⟩

theorem lazybranch_back_root (c : Ctx p bs env s w o) (hpc : s.codepos = 0) {tp : Int} (ht : s.track = [tp]) :
    TBodyOk p bs env.len a s.codepos (caseLazybranchBack p s) := by
  unfold caseLazybranchBack
  rw [ht]
  simp only
  cases h0 : operand p s 0 with
  | error f => exact operand_nodisc _ _ _ _ h0
  | ok t =>
    refine Or.inr ⟨rfl, ?_⟩
    obtain ⟨t0, wt, hc1, _, hf, hs⟩ := c.wf.rootTarget
    have := operand_val h0
    rw [hpc] at this
    simp only [Nat.zero_add] at this
    rw [hc1] at this
    cases this
    exact ⟨wt, hf, hs⟩

theorem pop1_back {S : STy} {d core : List Int} {tp : Int} {τ τ' : RTy} {cl' : Int} (ho : o = .setmark ∨ o = .nullmark)
    (b : BackH p bs env a s o false S d core tp τ τ' cl') :
    TBodyOk p bs env.len a s.codepos (casePop1Back s) := by
  have hd : d = [] := by rcases ho with rfl | rfl <;> exact len0 b.fd
  subst hd
  obtain ⟨k, hτ, hcl⟩ : ∃ k, τ = k :: τ' ∧ cl' = crawlLen s := by
    have := b.ft
    rcases ho with rfl | rfl <;> exact ⟨_, this.1, this.2⟩
  subst hτ hcl
  obtain ⟨v, rest, hst, _, hvals⟩ := b.vals.cons_inv
  unfold casePop1Back
  rw [hst]
  exact ⟨τ', core, tp, b.tr, b.good, hvals, b.cap⟩

theorem pop2_back {S : STy} {d core : List Int} {tp : Int} {τ τ' : RTy} {cl' : Int}
    (ho : o = .setcount ∨ o = .nullcount ∨ o = .setjump)
    (b : BackH p bs env a s o false S d core tp τ τ' cl') :
    TBodyOk p bs env.len a s.codepos (casePop2Back s) := by
  have hd : d = [] := by rcases ho with rfl | rfl | rfl <;> exact len0 b.fd
  subst hd
  obtain ⟨k1, k2, hτ, hcl⟩ : ∃ k1 k2, τ = k1 :: k2 :: τ' ∧ cl' = crawlLen s := by
    have := b.ft
    rcases ho with rfl | rfl | rfl <;> first | exact ⟨_, _, this.1, this.2⟩ | exact ⟨_, _, this.1, this.2.1⟩
  subst hτ hcl
  obtain ⟨v1, rest1, hst, _, hvals1⟩ := b.vals.cons_inv
  obtain ⟨v2, rest, rfl, _, hvals⟩ := hvals1.cons_inv
  unfold casePop2Back
  rw [hst]
  exact ⟨τ', core, tp, b.tr, b.good, hvals, b.cap⟩

theorem restore_back {S : STy} {d core : List Int} {tp : Int} {τ τ' : RTy} {cl' : Int} {b2 : Bool}
    (ho : (o = .getmark ∧ b2 = false) ∨ (o = .branchmark ∧ b2 = true))
    (b : BackH p bs env a s o b2 S d core tp τ τ' cl') :
    TBodyOk p bs env.len a s.codepos (caseRestoreBack s) := by
  obtain ⟨v, rfl⟩ : ∃ v, d = [v] := by rcases ho with ⟨rfl, rfl⟩ | ⟨rfl, rfl⟩ <;> exact len1 b.fd
  obtain ⟨⟨k, rfl, hk, hv⟩, rfl⟩ :
      (∃ k, τ' = k :: τ ∧ k.isMark = true ∧ valOk env.len k v) ∧ cl' = crawlLen s := by
    have := b.ft
    rcases ho with ⟨rfl, rfl⟩ | ⟨rfl, rfl⟩ <;> exact this
  unfold caseRestoreBack restoreMark
  rw [b.tr]
  simp only [List.cons_append, List.nil_append, Except.map]
  exact ⟨k :: τ, core, tp, rfl, b.good, ⟨hv, b.vals⟩, b.cap⟩

theorem uncapture_spec (N : Int) (k : Nat) (s1 : VMState) (h : 1 ≤ crawlLen s1) (hc : CapOk N k s1.cap) :
    ∃ s2, uncapture s1 = .ok s2 ∧ SameButCap s1 s2 ∧ crawlLen s2 = crawlLen s1 - 1 ∧ CapOk N k s2.cap := by
  unfold crawlLen at h
  cases hcr : s1.cap.crawl with
  | nil => rw [hcr] at h; simp at h
  | cons x rest =>
    refine ⟨{ s1 with cap := MatchBuilder.uncapture s1.cap }, by simp [uncapture, hcr], ⟨rfl, rfl, rfl, rfl, rfl⟩, ?_,
      capOk_uncapture hc (by rw [hcr]; simp)⟩
    simp [crawlLen, MatchBuilder.uncapture, hcr]

theorem capturemark_back {S : STy} {d core : List Int} {tp : Int} {τ τ' : RTy} {cl' : Int} (ho : o = .capturemark)
    (b : BackH p bs env a s o false S d core tp τ τ' cl') :
    TBodyOk p bs env.len a s.codepos (caseCapturemarkBack p s) := by
  subst ho
  obtain ⟨v, rfl⟩ := len1 b.fd
  obtain ⟨⟨k, rfl, hk, hv⟩, rfl, hK⟩ :
      (∃ k, τ' = k :: τ ∧ k.isMark = true ∧ valOk env.len k v) ∧ cl' = crawlLen s - capK p s.codepos ∧
        capK p s.codepos ≤ crawlLen s := b.ft
  unfold caseCapturemarkBack restoreMark
  refine eff_bind (P := TBodyOk p bs env.len a s.codepos) (operand_nodisc _ _ _) (fun _ h => h) (fun c0 h0 => ?_)
  refine eff_bind (P := TBodyOk p bs env.len a s.codepos) (operand_nodisc _ _ _) (fun _ h => h) (fun c1 h1 => ?_)
  have e0 := operand_val h0
  have e1 := operand_val h1
  have hKd : capK p s.codepos = if (c0 != -1 && c1 != -1) = true then 2 else 1 := by
    unfold capK; simp only [e0, e1, Option.getD_some]
  have hp := capK_pos p s.codepos
  rw [b.tr]
  simp only [List.cons_append, List.nil_append, bind, Except.bind]
  obtain ⟨s2, e2, ⟨a1, a2, a3, a4, a5⟩, hl2, hc2⟩ := uncapture_spec env.len p.capsize
    (spush { s with track := core ++ [tp] } v) (by simp only [crawlLen, spush] at hK ⊢; omega) b.cap
  rw [e2]
  simp only
  have hl2' : crawlLen s2 = crawlLen s - 1 := by rw [hl2]; simp [crawlLen, spush]
  split
  · next hc =>
    rw [if_pos hc] at hKd
    obtain ⟨s3, e3, ⟨b1, b2, b3, b4, b5⟩, hl3, hc3⟩ := uncapture_spec env.len p.capsize s2 (by omega) hc2
    rw [e3]
    refine ⟨k :: τ, core, tp, by rw [b1, a1]; rfl, ?_, ?_, hc3⟩
    · have : crawlLen s3 = crawlLen s - capK p s.codepos := by omega
      rw [this]; exact b.good
    · rw [b5, a5]; exact ⟨hv, b.vals⟩
  · next hc =>
    rw [if_neg hc] at hKd
    refine ⟨k :: τ, core, tp, by rw [a1]; rfl, ?_, ?_, hc2⟩
    · have : crawlLen s2 = crawlLen s - capK p s.codepos := by omega
      rw [this]; exact b.good
    · rw [a5]; exact ⟨hv, b.vals⟩

theorem branchmark_back {S : STy} {d core : List Int} {tp : Int} {τ τ' : RTy} {cl' : Int} (c : Ctx p bs env s w o)
    (ho : o = .branchmark) (b : BackH p bs env a s o false S d core tp τ τ' cl')
    (hn : ∀ K R, S = K :: R → NextOk a (s.codepos + 2) R) :
    TBodyOk p bs env.len a s.codepos (caseBranchmarkBack s) := by
  subst ho
  obtain ⟨tp', mark, rfl⟩ := len2 b.fd
  obtain ⟨⟨r, k, K, R, rfl, hS, hr, rfl, hk, hv⟩, rfl⟩ :
      (∃ r k K R, τ = .pos :: r ∧ S = K :: R ∧ subTy (erase r) R = true ∧ τ' = k :: r ∧ k.isMark = true ∧
        valOk env.len k mark) ∧ cl' = crawlLen s := b.ft
  obtain ⟨x, srest, hst, _, hvals⟩ := b.vals.cons_inv
  unfold caseBranchmarkBack
  rw [b.tr, hst]
  simp only [List.cons_append, List.nil_append]
  refine ⟨r, ⟨-(s.codepos : Int) :: ([mark] ++ core), tp, by simp [pushNeg1, textto], ?_, hvals, b.cap⟩, (hn K R hS).succ hr⟩
  exact good_push c true [mark] core S r (k :: r) _ _ rfl (by intro _ h; cases h) b.hS ⟨⟨k, rfl, hk, hv⟩, rfl⟩ b.good
      (by have := sub_len hr; rw [hS]; simp only [List.length_cons]; omega)

theorem lazybranchmark_back {S : STy} {d core : List Int} {tp : Int} {τ τ' : RTy} {cl' : Int} (c : Ctx p bs env s w o)
    (ho : o = .lazybranchmark) (b : BackH p bs env a s o false S d core tp τ τ' cl')
    (hj : ∀ K R t, S = K :: R → p.codes[s.codepos + 1]? = some t → NextOk a t.toNat (.pos :: R)) :
    TBodyOk p bs env.len a s.codepos (caseLazybranchmarkBack p s) := by
  subst ho
  obtain ⟨pos, old, rfl⟩ := len2 b.fd
  obtain ⟨⟨k, K, R, hS, hr, hp0, hpn, rfl, hk, hv⟩, rfl⟩ :
      (∃ k K R, S = K :: R ∧ subTy (erase τ) R = true ∧ 0 ≤ pos ∧ pos ≤ env.len ∧ τ' = k :: τ ∧ k.isMark = true ∧
        valOk env.len k old) ∧ cl' = crawlLen s := b.ft
  unfold caseLazybranchmarkBack
  rw [b.tr]
  simp only [List.cons_append, List.nil_append]
  cases h0 : operand p s 0 with
  | error f => exact operand_nodisc _ _ _ _ h0
  | ok t =>
    refine Or.inl ⟨.pos :: τ, ⟨-(s.codepos : Int) :: ([1, old] ++ core), tp, by simp [pushNeg2, textto, spush], ?_,
      ⟨⟨hp0, hpn⟩, b.vals⟩, b.cap⟩, (hj K R t hS (operand_val h0)).succ (subTy_cons (Kind.sub_refl _) hr)⟩
    exact good_push c true [1, old] core S (.pos :: τ) (k :: τ) _ _ rfl (by intro _ h; cases h) b.hS
      ⟨⟨k, hk, hv, by simp⟩, rfl⟩ b.good (by have := sub_len hr; rw [hS]; simp only [List.length_cons]; omega)

theorem lazybranchmark_back2 {S : STy} {d core : List Int} {tp : Int} {τ τ' : RTy} {cl' : Int}
    (ho : o = .lazybranchmark) (b : BackH p bs env a s o true S d core tp τ τ' cl') :
    TBodyOk p bs env.len a s.codepos (caseLazybranchmarkBack2 s) := by
  subst ho
  obtain ⟨np, old, rfl⟩ := len2 b.fd
  obtain ⟨⟨k, hk, hv, hif⟩, rfl⟩ :
      (∃ k : RK, k.isMark = true ∧ valOk env.len k old ∧
        (if np != 0 then ∃ r, τ = .pos :: r ∧ τ' = k :: r else τ' = k :: τ)) ∧ cl' = crawlLen s := b.ft
  unfold caseLazybranchmarkBack2
  rw [b.tr]
  simp only [List.cons_append, List.nil_append]
  split
  · next hnp =>
    rw [if_pos hnp] at hif
    obtain ⟨r, rfl, rfl⟩ := hif
    obtain ⟨x, srest, hst, _, hvals⟩ := b.vals.cons_inv
    rw [hst]
    exact ⟨k :: r, core, tp, rfl, b.good, ⟨hv, hvals⟩, b.cap⟩
  · next hnp =>
    rw [if_neg hnp] at hif
    subst hif
    exact ⟨k :: τ, core, tp, rfl, b.good, ⟨hv, b.vals⟩, b.cap⟩

theorem branchcount_back {S : STy} {d core : List Int} {tp : Int} {τ τ' : RTy} {cl' : Int} (c : Ctx p bs env s w o)
    (ho : o = .branchcount) (b : BackH p bs env a s o false S d core tp τ τ' cl')
    (hn : ∀ K R, S = .count :: K :: R → NextOk a (s.codepos + 3) R) :
    TBodyOk p bs env.len a s.codepos (caseBranchcountBack env s) := by
  subst ho
  obtain ⟨pmark, rfl⟩ := len1 b.fd
  obtain ⟨⟨r, k, K, R, rfl, hS, hr, rfl, hk, hv⟩, rfl⟩ :
      (∃ r k K R, τ = .count :: .pos :: r ∧ S = .count :: K :: R ∧ subTy (erase r) R = true ∧ τ' = .count :: k :: r ∧
        k.isMark = true ∧ valOk env.len k pmark) ∧ cl' = crawlLen s := b.ft
  obtain ⟨cnt, rest1, hst, _, hvals1⟩ := b.vals.cons_inv
  obtain ⟨mark, srest, rfl, hm, hvals⟩ := hvals1.cons_inv
  unfold caseBranchcountBack
  rw [b.tr, hst]
  simp only [List.cons_append, List.nil_append]
  split
  · simp only [texttoStack, if_pos (show 0 ≤ mark ∧ mark ≤ env.len from hm), Except.map]
    refine ⟨r, ⟨-(s.codepos : Int) :: ([cnt - 1, pmark] ++ core), tp, by simp [pushNeg2, textto], ?_, hvals, b.cap⟩,
      (hn K R hS).succ hr⟩
    exact good_push c true [cnt - 1, pmark] core S r (.count :: k :: r) _ _ rfl (by intro _ h; cases h) b.hS
      ⟨⟨k, rfl, hk, hv⟩, rfl⟩ b.good (by have := sub_len hr; rw [hS]; simp only [List.length_cons]; omega)
  · exact ⟨.count :: k :: r, core, tp, rfl, b.good, ⟨trivial, hv, hvals⟩, b.cap⟩

theorem branchcount_back2 {S : STy} {d core : List Int} {tp : Int} {τ τ' : RTy} {cl' : Int}
    (ho : o = .branchcount) (b : BackH p bs env a s o true S d core tp τ τ' cl') :
    TBodyOk p bs env.len a s.codepos (caseBranchcountBack2 s) := by
  subst ho
  obtain ⟨cnt, mark, rfl⟩ := len2 b.fd
  obtain ⟨⟨k, rfl, hk, hv⟩, rfl⟩ :
      (∃ k, τ' = .count :: k :: τ ∧ k.isMark = true ∧ valOk env.len k mark) ∧ cl' = crawlLen s := b.ft
  unfold caseBranchcountBack2
  rw [b.tr]
  simp only [List.cons_append, List.nil_append]
  exact ⟨.count :: k :: τ, core, tp, rfl, b.good, ⟨trivial, hv, b.vals⟩, b.cap⟩

theorem lazybranchcount_back {S : STy} {d core : List Int} {tp : Int} {τ τ' : RTy} {cl' : Int} (c : Ctx p bs env s w o)
    (ho : o = .lazybranchcount) (b : BackH p bs env a s o false S d core tp τ τ' cl')
    (hj : ∀ K R t, S = .count :: K :: R → p.codes[s.codepos + 1]? = some t → NextOk a t.toNat (.count :: .pos :: R)) :
    TBodyOk p bs env.len a s.codepos (caseLazybranchcountBack p s) := by
  subst ho
  obtain ⟨tp', cnt, mark, rfl⟩ := len3 b.fd
  obtain ⟨⟨k, K, R, hS, hr, hp0, hpn, rfl, hk, hv⟩, rfl⟩ :
      (∃ k K R, S = .count :: K :: R ∧ subTy (erase τ) R = true ∧ 0 ≤ tp' ∧ tp' ≤ env.len ∧ τ' = .count :: k :: τ ∧
        k.isMark = true ∧ valOk env.len k mark) ∧ cl' = crawlLen s := b.ft
  unfold caseLazybranchcountBack
  rw [b.tr]
  simp only [List.cons_append, List.nil_append]
  refine eff_bind (P := TBodyOk p bs env.len a s.codepos) (operand_nodisc _ _ _) (fun _ h => h) (fun lim _ => ?_)
  split
  · refine eff_bind (P := TBodyOk p bs env.len a s.codepos) (operand_nodisc _ _ _) (fun _ h => h) (fun t ht => ?_)
    refine Or.inl ⟨.count :: .pos :: τ, ⟨-(s.codepos : Int) :: ([mark] ++ core), tp,
      by simp [pushNeg1, spush2, textto], ?_, ⟨trivial, ⟨hp0, hpn⟩, b.vals⟩, b.cap⟩,
      (hj K R t hS (operand_val ht)).succ (subTy_cons (Kind.sub_refl _) (subTy_cons (Kind.sub_refl _) hr))⟩
    exact good_push c true [mark] core S (.count :: .pos :: τ) (.count :: k :: τ) _ _ rfl (by intro _ h; cases h) b.hS
      ⟨⟨τ, k, rfl, rfl, hk, hv⟩, rfl⟩ b.good (by have := sub_len hr; rw [hS]; simp only [List.length_cons]; omega)
  · exact ⟨.count :: k :: τ, core, tp, rfl, b.good, ⟨trivial, hv, b.vals⟩, b.cap⟩

theorem lazybranchcount_back2 {S : STy} {d core : List Int} {tp : Int} {τ τ' : RTy} {cl' : Int}
    (ho : o = .lazybranchcount) (b : BackH p bs env a s o true S d core tp τ τ' cl') :
    TBodyOk p bs env.len a s.codepos (caseLazybranchcountBack2 s) := by
  subst ho
  obtain ⟨pmark, rfl⟩ := len1 b.fd
  obtain ⟨⟨r, k, rfl, rfl, hk, hv⟩, rfl⟩ :
      (∃ r k, τ = .count :: .pos :: r ∧ τ' = .count :: k :: r ∧ k.isMark = true ∧ valOk env.len k pmark) ∧
        cl' = crawlLen s := b.ft
  obtain ⟨cnt, rest1, hst, _, hvals1⟩ := b.vals.cons_inv
  obtain ⟨mark, srest, rfl, hm, hvals⟩ := hvals1.cons_inv
  unfold caseLazybranchcountBack2
  rw [b.tr, hst]
  simp only [List.cons_append, List.nil_append]
  exact ⟨.count :: k :: r, core, tp, rfl, b.good, ⟨trivial, hv, hvals⟩, b.cap⟩

theorem forejump_back {S : STy} {d core : List Int} {tp : Int} {τ τ' : RTy} {cl' : Int}
    (ho : o = .forejump) (b : BackH p bs env a s o false S d core tp τ τ' cl') :
    TBodyOk p bs env.len a s.codepos (caseForejumpBack s) := by
  subst ho
  obtain ⟨cp, rfl⟩ := len1 b.fd
  obtain ⟨rfl, rfl, h0, hl⟩ : τ' = τ ∧ cl' = cp ∧ 0 ≤ cp ∧ cp ≤ crawlLen s := b.ft
  unfold caseForejumpBack
  rw [b.tr]
  simp only [List.cons_append, List.nil_append]
  obtain ⟨s2, e, ⟨b1, b2, b3, b4, b5⟩, hl2, hc2⟩ := uncaptureTo_spec env.len p.capsize cl' s.cap.crawl.length
    { s with track := core ++ [tp] } h0 hl (by simp only [crawlLen]; omega) b.cap
  rw [e]
  exact ⟨τ', core, tp, b1, by rw [hl2]; exact b.good, by rw [b5]; exact b.vals, hc2⟩

end cases
end RegexVerif.Lemmas.StackTypingSound
