/-
Soundness of the grouping-stack typing, part 2: every case of the switch preserves the typing part of the invariant
(`TBodyOk`) and raises none of the discipline faults `stackUnderflow`, `tracktoRange`, `textposRange`, `crawlUnderflow`.
-/
import RegexVerif.Lemmas.StackTypingSound

namespace RegexVerif.Lemmas.StackTypingSound
open RegexVerif RegexVerif.Code RegexVerif.VM RegexVerif.StackTyping RegexVerif.Lemmas.VM
open RegexVerif.Lemmas.StackTyping

/-! ### error kinds of the primitives -/

/-- a computation that raises none of the discipline faults -/
def NoDisc {α : Type} (x : M α) : Prop := ∀ f, x = .error f → disc f = false

theorem operand_nodisc (p : Prog) (s : VMState) (i : Nat) : NoDisc (operand p s i) := by
  intro f h; unfold operand at h; split at h <;> cases h; rfl

theorem charAt_nodisc (env : Env) (j : Int) : NoDisc (charAt env j) := by
  intro f h; unfold charAt at h; split at h
  · split at h <;> cases h; rfl
  · cases h; rfl

theorem map_nodisc {α β : Type} {x : M α} (g : α → β) (h : NoDisc x) : NoDisc (x.map g) := by
  intro f hf
  cases x with
  | error e => simp [Except.map] at hf; subst hf; exact h _ rfl
  | ok v => simp [Except.map] at hf

theorem forwardcharnext_nodisc (env : Env) (rtl : Bool) (pos : Int) : NoDisc (forwardcharnext env rtl pos) := by
  unfold forwardcharnext; split <;> exact map_nodisc _ (charAt_nodisc _ _)

theorem scan_nodisc (env : Env) (pred : Nat → Bool) (rtl : Bool) : ∀ (k : Nat) (pos : Int), NoDisc (scan env pred rtl k pos) := by
  intro k
  induction k with
  | zero => intro pos f h; simp [scan] at h
  | succ k ih =>
    intro pos f h
    unfold scan at h
    split at h
    · next e he => cases h; exact forwardcharnext_nodisc env rtl pos _ he
    · next c pos' he =>
      split at h
      · exact map_nodisc _ (ih pos') _ h
      · cases h

theorem charPred_nodisc (p : Prog) (env : Env) (sel : Nat) (x : Int) : NoDisc (charPred p env sel x) := by
  intro f h; unfold charPred at h
  split at h
  · cases h
  · cases h
  · unfold setPred at h; split at h <;> cases h; rfl

/-- sequencing: what holds of every error without a discipline fault and of every continuation holds of the bind -/
theorem eff_bind {α : Type} {m : M α} {k : α → Res} {P : Res → Prop} (hm : NoDisc m)
    (hP : ∀ f, disc f = false → P (.error f)) (hk : ∀ x, m = .ok x → P (k x)) : P (m >>= k) := by
  cases m with
  | error f => exact hP f (hm f rfl)
  | ok x => exact hk x rfl

section cases
variable {p : Prog} {bs : List Nat} {env : Env} {a : Assign} {s : VMState} {w : Word} {o : Op}

/-- effect of a stack-neutral forward case: grouping stack and captures unchanged, at most one frame of the current
    instruction pushed, leaves by `backtrack()` or by `advance` to the next instruction -/
def NeutralEff (s : VMState) (o : Op) : Res → Prop
  | .error f => disc f = false
  | .ok (s1, e) => s1.stack = s.stack ∧ s1.cap = s.cap ∧
      (s1.track = s.track ∨ ∃ d, s1.track = (s.codepos : Int) :: (d ++ s.track) ∧ frameData o false = some d.length) ∧
      (e = .back ∨ ∃ i, e = .advance i ∧ i + 1 = o.size)

theorem caseChar_eff (sel : Nat) (hsz : o.size = 2) : NeutralEff s o (caseChar p env sel s) := by
  unfold caseChar
  split
  · exact ⟨rfl, rfl, Or.inl rfl, Or.inl rfl⟩
  · refine eff_bind (operand_nodisc _ _ _) (fun _ h => h) (fun x _ => ?_)
    refine eff_bind (charPred_nodisc _ _ _ _) (fun _ h => h) (fun pred _ => ?_)
    refine eff_bind (forwardcharnext_nodisc _ _ _) (fun _ h => h) (fun cp _ => ?_)
    obtain ⟨ch, pos⟩ := cp
    simp only
    split
    · exact ⟨rfl, rfl, Or.inl rfl, Or.inr ⟨1, rfl, by omega⟩⟩
    · exact ⟨rfl, rfl, Or.inl rfl, Or.inl rfl⟩

theorem caseRep_eff (sel : Nat) (hsz : o.size = 3) : NeutralEff s o (caseRep p env sel s) := by
  unfold caseRep
  refine eff_bind (operand_nodisc _ _ _) (fun _ h => h) (fun c _ => ?_)
  split
  · exact ⟨rfl, rfl, Or.inl rfl, Or.inl rfl⟩
  · refine eff_bind (operand_nodisc _ _ _) (fun _ h => h) (fun x _ => ?_)
    refine eff_bind (charPred_nodisc _ _ _ _) (fun _ h => h) (fun pred _ => ?_)
    refine eff_bind (scan_nodisc _ _ _ _ _) (fun _ h => h) (fun m _ => ?_)
    split
    · exact ⟨rfl, rfl, Or.inl rfl, Or.inl rfl⟩
    · exact ⟨rfl, rfl, Or.inl rfl, Or.inr ⟨2, rfl, by omega⟩⟩

theorem caseLoop_eff (sel : Nat) (atomic : Bool) (hsz : o.size = 3)
    (ho : atomic = false → frameData o false = some 2) : NeutralEff s o (caseLoop p env sel atomic s) := by
  unfold caseLoop
  refine eff_bind (operand_nodisc _ _ _) (fun _ h => h) (fun c0 _ => ?_)
  refine eff_bind (operand_nodisc _ _ _) (fun _ h => h) (fun x _ => ?_)
  refine eff_bind (charPred_nodisc _ _ _ _) (fun _ h => h) (fun pred _ => ?_)
  refine eff_bind (scan_nodisc _ _ _ _ _) (fun _ h => h) (fun m _ => ?_)
  simp only
  split
  · next hc =>
    have hat : atomic = false := by cases atomic <;> simp_all
    exact ⟨rfl, rfl, Or.inr ⟨[_, _], rfl, ho hat⟩, Or.inr ⟨2, rfl, by omega⟩⟩
  · exact ⟨rfl, rfl, Or.inl rfl, Or.inr ⟨2, rfl, by omega⟩⟩

theorem caseLazy_eff (hsz : o.size = 3) (ho : frameData o false = some 2) : NeutralEff s o (caseLazy p env s) := by
  unfold caseLazy
  refine eff_bind (operand_nodisc _ _ _) (fun _ h => h) (fun c0 _ => ?_)
  simp only
  generalize (if c0 > forwardchars env s then forwardchars env s else c0) = cc
  by_cases hc : cc > 0
  · rw [if_pos hc]; exact ⟨rfl, rfl, Or.inr ⟨[_, _], rfl, ho⟩, Or.inr ⟨2, rfl, by omega⟩⟩
  · rw [if_neg hc]; exact ⟨rfl, rfl, Or.inl rfl, Or.inr ⟨2, rfl, by omega⟩⟩

theorem cmpBack_nodisc (env : Env) (ci : Bool) (get : Int → M Nat) (hget : ∀ i, NoDisc (get i)) :
    ∀ (k : Nat) (x y : Int), NoDisc (cmpBack env ci get k x y) := by
  intro k
  induction k with
  | zero => intro x y f h; simp [cmpBack] at h
  | succ k ih =>
    intro x y f h
    unfold cmpBack at h
    cases hg : get (x - 1) with
    | error e => simp only [hg] at h; cases h; exact hget _ _ hg
    | ok u =>
      cases hc : charAt env (y - 1) with
      | error e => simp only [hg, hc] at h; cases h; exact charAt_nodisc _ _ _ hc
      | ok v =>
        simp only [hg, hc] at h
        by_cases hx : u = (if ci then env.toLower v else v)
        · rw [if_pos hx] at h; exact ih _ _ _ h
        · rw [if_neg hx] at h; cases h

theorem runematch_nodisc (env : Env) (s : VMState) (str : List Nat) : NoDisc (runematch env s str) := by
  intro f h
  unfold runematch at h
  simp only at h
  split at h
  · cases h
  · split at h
    · next e he =>
      cases h
      exact cmpBack_nodisc env _ _ (fun i f h => by cases h) _ _ _ _ he
    · cases h
    · cases h

theorem refmatch_nodisc (env : Env) (s : VMState) (index len : Int) : NoDisc (refmatch env s index len) := by
  intro f h
  unfold refmatch at h
  split at h
  · cases h; rfl
  · split at h
    · cases h
    · simp only at h
      split at h
      · next e he =>
        cases h
        refine cmpBack_nodisc env _ _ (fun i f h => ?_) _ _ _ _ he
        split at h <;> cases h
        rfl
      · cases h
      · cases h

theorem isMatched_nodisc (s : VMState) (c : Int) : NoDisc (isMatched s c) := by
  intro f h; unfold isMatched at h; split at h <;> cases h; rfl

theorem caseMulti_eff (hsz : o.size = 2) : NeutralEff s o (caseMulti p env s) := by
  unfold caseMulti
  refine eff_bind (operand_nodisc _ _ _) (fun _ h => h) (fun i _ => ?_)
  split
  · split
    · rfl
    · refine eff_bind (runematch_nodisc _ _ _) (fun _ h => h) (fun r _ => ?_)
      cases r with
      | none => exact ⟨rfl, rfl, Or.inl rfl, Or.inl rfl⟩
      | some pos => exact ⟨rfl, rfl, Or.inl rfl, Or.inr ⟨1, rfl, by omega⟩⟩
  · rfl

theorem caseRef_eff (hsz : o.size = 2) : NeutralEff s o (caseRef p env s) := by
  unfold caseRef
  refine eff_bind (operand_nodisc _ _ _) (fun _ h => h) (fun i _ => ?_)
  refine eff_bind (isMatched_nodisc _ _) (fun _ h => h) (fun b _ => ?_)
  split
  · refine eff_bind (refmatch_nodisc _ _ _ _) (fun _ h => h) (fun r _ => ?_)
    cases r with
    | none => exact ⟨rfl, rfl, Or.inl rfl, Or.inl rfl⟩
    | some pos => exact ⟨rfl, rfl, Or.inl rfl, Or.inr ⟨1, rfl, by omega⟩⟩
  · split
    · exact ⟨rfl, rfl, Or.inl rfl, Or.inr ⟨1, rfl, by omega⟩⟩
    · exact ⟨rfl, rfl, Or.inl rfl, Or.inl rfl⟩

theorem caseTestref_eff (hsz : o.size = 2) : NeutralEff s o (caseTestref p s) := by
  unfold caseTestref
  refine eff_bind (operand_nodisc _ _ _) (fun _ h => h) (fun i _ => ?_)
  refine eff_bind (isMatched_nodisc _ _) (fun _ h => h) (fun b _ => ?_)
  split
  · exact ⟨rfl, rfl, Or.inl rfl, Or.inr ⟨1, rfl, by omega⟩⟩
  · exact ⟨rfl, rfl, Or.inl rfl, Or.inl rfl⟩

theorem assertion_eff (hsz : o.size = 1) (b : Bool) : NeutralEff s o (.ok (assertion s b)) := by
  unfold assertion
  cases b
  · exact ⟨rfl, rfl, Or.inl rfl, Or.inl rfl⟩
  · exact ⟨rfl, rfl, Or.inl rfl, Or.inr ⟨0, rfl, by omega⟩⟩

theorem map_assertion_eff (hsz : o.size = 1) {α : Type} (x : M α) (hx : NoDisc x) (g : α → Bool) :
    NeutralEff s o (x.map (fun c => assertion s (g c))) := by
  cases x with
  | error f => exact hx f rfl
  | ok v => exact assertion_eff hsz _

theorem caseBol_eff (hsz : o.size = 1) : NeutralEff s o (caseBol env s) := by
  unfold caseBol
  split
  · exact map_assertion_eff hsz _ (charAt_nodisc _ _) _
  · exact ⟨rfl, rfl, Or.inl rfl, Or.inr ⟨0, rfl, by omega⟩⟩

theorem caseEol_eff (hsz : o.size = 1) : NeutralEff s o (caseEol env s) := by
  unfold caseEol
  split
  · exact map_assertion_eff hsz _ (charAt_nodisc _ _) _
  · exact ⟨rfl, rfl, Or.inl rfl, Or.inr ⟨0, rfl, by omega⟩⟩

theorem isBoundary_nodisc (env : Env) (wd : Nat → Bool) (i : Int) : NoDisc (isBoundary env wd i) := by
  intro f h
  unfold isBoundary at h
  have h1 : NoDisc (if i > 0 then (charAt env (i - 1)).map wd else .ok false) := by
    split
    · exact map_nodisc _ (charAt_nodisc _ _)
    · intro f h; cases h
  have h2 : NoDisc (if i < env.len then (charAt env i).map wd else .ok false) := by
    split
    · exact map_nodisc _ (charAt_nodisc _ _)
    · intro f h; cases h
  generalize (if i > 0 then (charAt env (i - 1)).map wd else .ok false) = A at h h1
  generalize (if i < env.len then (charAt env i).map wd else .ok false) = B at h h2
  cases A with
  | error e => simp only at h; cases h; exact h1 _ rfl
  | ok u =>
    cases B with
    | error e => simp only at h; cases h; exact h2 _ rfl
    | ok v => simp only at h; cases h

theorem caseBoundary_eff (hsz : o.size = 1) (wd : Nat → Bool) (want : Bool) :
    NeutralEff s o (caseBoundary env wd want s) := by
  unfold caseBoundary
  exact map_assertion_eff hsz _ (isBoundary_nodisc _ _ _) _

theorem caseEndZ_eff (hsz : o.size = 1) : NeutralEff s o (caseEndZ env s) := by
  unfold caseEndZ
  simp only
  split
  · exact ⟨rfl, rfl, Or.inl rfl, Or.inl rfl⟩
  · split
    · exact assertion_eff hsz _
    · split
      · exact map_assertion_eff hsz _ (charAt_nodisc _ _) _
      · exact ⟨rfl, rfl, Or.inl rfl, Or.inr ⟨0, rfl, by omega⟩⟩

end cases
end RegexVerif.Lemmas.StackTypingSound
