/-
Compiler correctness, part 2: where the instructions of a sub-tree sit in the emitted program (`CodeAt`), what
`fetch` / `operand` read there, the opcode words the writer emits, and the growth of the string / set tables.
-/
import RegexVerif.Lemmas.Compile

namespace RegexVerif.Compile
open RegexVerif.VM RegexVerif.Code RegexVerif.Writer RegexVerif.Generated.Opcodes RegexVerif

/-! ## opcode words -/

theorem decode_bits : ∀ t, t < 64 → ∀ rtl ci, t ||| bits rtl ci < 1024 ∧
    decode (t ||| bits rtl ci) = ⟨t, rtl, false, false, ci⟩ := by decide

theorem decode_plain : ∀ t, t < 64 → decode t = ⟨t, false, false, false, false⟩ := by decide

theorem bareTypes_lt : ∀ t ∈ bareTypes, t < 64 := by decide
theorem charTypes_lt : ∀ t ∈ charTypes, t < 64 := by decide
theorem charloopTypes_lt : ∀ t ∈ charloopTypes, t < 64 := by decide
theorem setloopTypes_lt : ∀ t ∈ setloopTypes, t < 64 := by decide

/-- every opcode word is below 1024 (what `fetch` checks) -/
def OpsOk (c : Code) : Prop := ∀ i ∈ c, i.op < 1024

theorem OpsOk.nil : OpsOk [] := by intro i hi; cases hi
theorem OpsOk.append {x y : Code} (hx : OpsOk x) (hy : OpsOk y) : OpsOk (x ++ y) := by
  intro i hi
  rcases List.mem_append.1 hi with h | h
  · exact hx i h
  · exact hy i h
theorem OpsOk.cons {i : Instr} {r : Code} (hi : i.op < 1024) (hr : OpsOk r) : OpsOk (i :: r) := by
  intro j hj
  rcases List.mem_cons.1 hj with h | h
  · rw [h]; exact hi
  · exact hr j h
theorem OpsOk.ite {c : Prop} [Decidable c] {x : Code} (hx : OpsOk x) : OpsOk (if c then x else []) := by
  split
  · exact hx
  · exact OpsOk.nil

theorem lt_of_bits {t : Nat} (h : t < 64) (rtl ci : Bool) : t ||| bits rtl ci < 1024 := (decode_bits t h rtl ci).1

syntax "opc" : tactic
macro_rules | `(tactic| opc) => `(tactic| (simp only [i0_op, i1_op, i2_op]; decide))

syntax "ops_step" : tactic
macro_rules | `(tactic| ops_step) => `(tactic|
  first
  | exact OpsOk.nil
  | assumption
  | (apply OpsOk.append)
  | (apply OpsOk.ite)
  | (apply OpsOk.cons)
  | (apply lt_of_bits)
  | (simp only [i0_op, i1_op, i2_op])
  | decide
  | omega)

mutual
theorem emitNode_ops (cfg : Cfg) : ∀ (n : GoNode) (a : Nat) (tb : Tables), n.ok = true → OpsOk (emitNode cfg a tb n).1
  | .empty, a, tb, _ => by simp only [emitNode]; exact OpsOk.nil
  | .bare t, a, tb, h => by
    have := bareTypes_lt t (by simpa [GoNode.ok] using h)
    simp only [emitNode]; exact OpsOk.cons (by simp only [i0_op]; omega) OpsOk.nil
  | .char t rtl ci ch, a, tb, h => by
    have := charTypes_lt t (by simpa [GoNode.ok] using h)
    simp only [emitNode]; exact OpsOk.cons (lt_of_bits this rtl ci) OpsOk.nil
  | .set rtl ci s, a, tb, _ => by
    simp only [emitNode]; exact OpsOk.cons (lt_of_bits (by decide) rtl ci) OpsOk.nil
  | .multi rtl ci s, a, tb, _ => by
    simp only [emitNode]; exact OpsOk.cons (lt_of_bits (by decide) rtl ci) OpsOk.nil
  | .ref rtl ci m, a, tb, _ => by
    simp only [emitNode]; exact OpsOk.cons (lt_of_bits (by decide) rtl ci) OpsOk.nil
  | .charloop t rtl ci ch m n, a, tb, h => by
    have ht := charloopTypes_lt t (by simpa [GoNode.ok] using h)
    simp only [emitNode]
    refine OpsOk.append (OpsOk.ite (OpsOk.cons ?_ OpsOk.nil)) (OpsOk.ite (OpsOk.cons (lt_of_bits ht rtl ci) OpsOk.nil))
    simp only [i2_op]
    split <;> exact lt_of_bits (by decide) rtl ci
  | .setloop t rtl ci s m n, a, tb, h => by
    have ht := setloopTypes_lt t (by simpa [GoNode.ok] using h)
    simp only [emitNode]
    exact OpsOk.append (OpsOk.ite (OpsOk.cons (lt_of_bits (by decide) rtl ci) OpsOk.nil))
      (OpsOk.ite (OpsOk.cons (lt_of_bits ht rtl ci) OpsOk.nil))
  | .concat cs, a, tb, h => by
    simp only [emitNode]
    exact emitList_ops cfg cs a tb (by simp only [GoNode.ok, Bool.and_eq_true] at h; exact h.2)
  | .alt cs, a, tb, h => by
    simp only [emitNode]
    exact emitAlt_ops cfg cs a _ tb (by simp only [GoNode.ok, Bool.and_eq_true] at h; exact h.2)
  | .loop lzy m n c, a, tb, h => by
    have ih := emitNode_ops cfg c (a + loopHeadLen m n) tb (by simpa [GoNode.ok] using h)
    simp only [emitNode]
    refine OpsOk.append (OpsOk.append (OpsOk.append ?_ (OpsOk.ite (OpsOk.cons (by opc) OpsOk.nil))) ih) ?_
    · split <;> split <;> exact OpsOk.cons (by opc) OpsOk.nil
    · split <;> refine OpsOk.cons ?_ OpsOk.nil <;> cases lzy <;> opc
  | .capture m n c, a, tb, h => by
    simp only [emitNode]
    split
    · have ih := emitNode_ops cfg c (a + 1) tb (by simpa [GoNode.ok] using h)
      exact OpsOk.append (OpsOk.append (OpsOk.cons (by opc) OpsOk.nil) ih) (OpsOk.cons (by opc) OpsOk.nil)
    · exact emitNode_ops cfg c a tb (by simpa [GoNode.ok] using h)
  | .group c, a, tb, h => by
    simp only [emitNode]; exact emitNode_ops cfg c a tb (by simpa [GoNode.ok] using h)
  | .poslook c, a, tb, h => by
    have ih := emitNode_ops cfg c (a + 2) tb (by simpa [GoNode.ok] using h)
    simp only [emitNode]
    exact OpsOk.append (OpsOk.append (OpsOk.cons (by opc) (OpsOk.cons (by opc) OpsOk.nil)) ih)
      (OpsOk.cons (by opc) (OpsOk.cons (by opc) OpsOk.nil))
  | .neglook c, a, tb, h => by
    have ih := emitNode_ops cfg c (a + 3) tb (by simpa [GoNode.ok] using h)
    simp only [emitNode]
    exact OpsOk.append (OpsOk.append (OpsOk.cons (by opc) (OpsOk.cons (by opc) OpsOk.nil)) ih)
      (OpsOk.cons (by opc) (OpsOk.cons (by opc) OpsOk.nil))
  | .atomic c, a, tb, h => by
    have ih := emitNode_ops cfg c (a + 1) tb (by simpa [GoNode.ok] using h)
    simp only [emitNode]
    exact OpsOk.append (OpsOk.append (OpsOk.cons (by opc) OpsOk.nil) ih) (OpsOk.cons (by opc) OpsOk.nil)
  | .backrefcond1 m y, a, tb, h => by
    have ih := emitNode_ops cfg y (a + 6) tb (by simpa [GoNode.ok] using h)
    simp only [emitNode]
    exact OpsOk.append (OpsOk.append (OpsOk.cons (by opc) (OpsOk.cons (by opc) (OpsOk.cons (by opc)
      (OpsOk.cons (by opc) OpsOk.nil)))) ih) (OpsOk.cons (by opc) (OpsOk.cons (by opc) OpsOk.nil))
  | .backrefcond2 m y n, a, tb, h => by
    simp only [GoNode.ok, Bool.and_eq_true] at h
    have ih := emitNode_ops cfg y (a + 6) tb h.1
    have ih2 := emitNode_ops cfg n (a + 6 + size cfg y + 3) (emitNode cfg (a + 6) tb y).2 h.2
    simp only [emitNode]
    exact OpsOk.append (OpsOk.append (OpsOk.append (OpsOk.cons (by opc) (OpsOk.cons (by opc) (OpsOk.cons (by opc)
      (OpsOk.cons (by opc) OpsOk.nil)))) ih) (OpsOk.cons (by opc) (OpsOk.cons (by opc) OpsOk.nil))) ih2
  | .exprcond2 c y, a, tb, h => by
    simp only [GoNode.ok, Bool.and_eq_true] at h
    have ih := emitNode_ops cfg c (a + 4) tb h.1
    have ih2 := emitNode_ops cfg y (a + 4 + size cfg c + 2) (emitNode cfg (a + 4) tb c).2 h.2
    simp only [emitNode]
    exact OpsOk.append (OpsOk.append (OpsOk.append (OpsOk.append (OpsOk.cons (by opc) (OpsOk.cons (by opc)
      (OpsOk.cons (by opc) OpsOk.nil))) ih) (OpsOk.cons (by opc) (OpsOk.cons (by opc) OpsOk.nil))) ih2)
      (OpsOk.cons (by opc) (OpsOk.cons (by opc) (OpsOk.cons (by opc) OpsOk.nil)))
  | .exprcond3 c y n, a, tb, h => by
    simp only [GoNode.ok, Bool.and_eq_true] at h
    have ih := emitNode_ops cfg c (a + 4) tb h.1.1
    have ih2 := emitNode_ops cfg y (a + 4 + size cfg c + 2) (emitNode cfg (a + 4) tb c).2 h.1.2
    have ih3 := emitNode_ops cfg n (a + 4 + size cfg c + 2 + size cfg y + 4)
      (emitNode cfg (a + 4 + size cfg c + 2) (emitNode cfg (a + 4) tb c).2 y).2 h.2
    simp only [emitNode]
    exact OpsOk.append (OpsOk.append (OpsOk.append (OpsOk.append (OpsOk.append (OpsOk.cons (by opc) (OpsOk.cons (by opc)
      (OpsOk.cons (by opc) OpsOk.nil))) ih) (OpsOk.cons (by opc) (OpsOk.cons (by opc) OpsOk.nil))) ih2)
      (OpsOk.cons (by opc) (OpsOk.cons (by opc) (OpsOk.cons (by opc) OpsOk.nil)))) ih3
  | .other t, a, tb, h => by simp [GoNode.ok] at h
theorem emitList_ops (cfg : Cfg) : ∀ (cs : List GoNode) (a : Nat) (tb : Tables), okList cs = true →
    OpsOk (emitList cfg a tb cs).1
  | [], a, tb, _ => by simp only [emitList]; exact OpsOk.nil
  | c :: cs, a, tb, h => by
    simp only [okList, Bool.and_eq_true] at h
    simp only [emitList]
    exact OpsOk.append (emitNode_ops cfg c a tb h.1) (emitList_ops cfg cs _ _ h.2)
theorem emitAlt_ops (cfg : Cfg) : ∀ (cs : List GoNode) (a fin : Nat) (tb : Tables), okList cs = true →
    OpsOk (emitAlt cfg a fin tb cs).1
  | [], a, fin, tb, _ => by simp only [emitAlt]; exact OpsOk.nil
  | c :: cs, a, fin, tb, h => by
    simp only [okList, Bool.and_eq_true] at h
    simp only [emitAlt]
    split
    · exact emitNode_ops cfg c a tb h.1
    · exact OpsOk.append (OpsOk.append (OpsOk.append (OpsOk.cons (by opc) OpsOk.nil) (emitNode_ops cfg c _ tb h.1))
        (OpsOk.cons (by opc) OpsOk.nil)) (emitAlt_ops cfg cs _ fin _ h.2)
end

/-! ## the tables only grow at the end -/

/-- `tb` is an initial segment of `fin`, table by table -/
def TabExt (tb fin : Tables) : Prop := (∃ e, fin.strings = tb.strings ++ e) ∧ (∃ e, fin.sets = tb.sets ++ e)

theorem TabExt.refl (tb : Tables) : TabExt tb tb := ⟨⟨[], by simp⟩, ⟨[], by simp⟩⟩
theorem TabExt.trans {a b c : Tables} (h1 : TabExt a b) (h2 : TabExt b c) : TabExt a c := by
  obtain ⟨⟨e1, h11⟩, ⟨e2, h12⟩⟩ := h1
  obtain ⟨⟨f1, h21⟩, ⟨f2, h22⟩⟩ := h2
  exact ⟨⟨e1 ++ f1, by rw [h21, h11, List.append_assoc]⟩, ⟨e2 ++ f2, by rw [h22, h12, List.append_assoc]⟩⟩

theorem internKey_ext (tbl : List (List Nat)) (x : List Nat) : ∃ e, (internKey id tbl x).2 = tbl ++ e := by
  simp only [internKey]
  split
  · exact ⟨[], by simp⟩
  · exact ⟨[x], rfl⟩

/-- the entry `stringCode` / `setCode` returns holds the string / set itself -/
theorem internKey_get (tbl : List (List Nat)) (x : List Nat) :
    (internKey id tbl x).2[(internKey id tbl x).1]? = some x := by
  simp only [internKey, List.map_id_fun, id_eq]
  split
  · next h =>
    have := List.idxOf_lt_length_iff.1 h
    simp only [List.getElem?_eq_getElem h, Option.some.injEq]
    exact List.getElem_idxOf h
  · next h =>
    have hle := List.idxOf_le_length (a := x) (l := tbl)
    have : tbl.idxOf x = tbl.length := by omega
    simp [this]

theorem strKey_eq : strKey = id := rfl
theorem setKey_eq : setKey = id := rfl

theorem get_of_ext {l e : List (List Nat)} {k : Nat} {x : List Nat} (h : l[k]? = some x) : (l ++ e)[k]? = some x := by
  have hlt := (List.getElem?_eq_some_iff.1 h).1
  rw [List.getElem?_append_left hlt]; exact h

mutual
theorem emitNode_ext (cfg : Cfg) : ∀ (n : GoNode) (a : Nat) (tb : Tables), TabExt tb (emitNode cfg a tb n).2
  | .empty, a, tb => by simp only [emitNode]; exact TabExt.refl _
  | .bare t, a, tb => by simp only [emitNode]; exact TabExt.refl _
  | .char t rtl ci ch, a, tb => by simp only [emitNode]; exact TabExt.refl _
  | .set rtl ci s, a, tb => by
    simp only [emitNode, setKey_eq]; exact ⟨⟨[], by simp⟩, internKey_ext _ _⟩
  | .multi rtl ci s, a, tb => by
    simp only [emitNode, strKey_eq]; exact ⟨internKey_ext _ _, ⟨[], by simp⟩⟩
  | .ref rtl ci m, a, tb => by simp only [emitNode]; exact TabExt.refl _
  | .charloop t rtl ci ch m n, a, tb => by simp only [emitNode]; exact TabExt.refl _
  | .setloop t rtl ci s m n, a, tb => by
    simp only [emitNode, setKey_eq]
    split
    · exact ⟨⟨[], by simp⟩, internKey_ext _ _⟩
    · exact TabExt.refl _
  | .concat cs, a, tb => by simp only [emitNode]; exact emitList_ext cfg cs a tb
  | .alt cs, a, tb => by simp only [emitNode]; exact emitAlt_ext cfg cs a _ tb
  | .loop lzy m n c, a, tb => by simp only [emitNode]; exact emitNode_ext cfg c _ tb
  | .capture m n c, a, tb => by
    simp only [emitNode]
    split
    · exact emitNode_ext cfg c _ tb
    · exact emitNode_ext cfg c _ tb
  | .group c, a, tb => by simp only [emitNode]; exact emitNode_ext cfg c _ tb
  | .poslook c, a, tb => by simp only [emitNode]; exact emitNode_ext cfg c _ tb
  | .neglook c, a, tb => by simp only [emitNode]; exact emitNode_ext cfg c _ tb
  | .atomic c, a, tb => by simp only [emitNode]; exact emitNode_ext cfg c _ tb
  | .backrefcond1 m y, a, tb => by simp only [emitNode]; exact emitNode_ext cfg y _ tb
  | .backrefcond2 m y n, a, tb => by
    simp only [emitNode]; exact (emitNode_ext cfg y _ tb).trans (emitNode_ext cfg n _ _)
  | .exprcond2 c y, a, tb => by
    simp only [emitNode]; exact (emitNode_ext cfg c _ tb).trans (emitNode_ext cfg y _ _)
  | .exprcond3 c y n, a, tb => by
    simp only [emitNode]
    exact ((emitNode_ext cfg c _ tb).trans (emitNode_ext cfg y _ _)).trans (emitNode_ext cfg n _ _)
  | .other t, a, tb => by simp only [emitNode]; exact TabExt.refl _
theorem emitList_ext (cfg : Cfg) : ∀ (cs : List GoNode) (a : Nat) (tb : Tables), TabExt tb (emitList cfg a tb cs).2
  | [], a, tb => by simp only [emitList]; exact TabExt.refl _
  | c :: cs, a, tb => by
    simp only [emitList]; exact (emitNode_ext cfg c a tb).trans (emitList_ext cfg cs _ _)
theorem emitAlt_ext (cfg : Cfg) : ∀ (cs : List GoNode) (a fin : Nat) (tb : Tables), TabExt tb (emitAlt cfg a fin tb cs).2
  | [], a, fin, tb => by simp only [emitAlt]; exact TabExt.refl _
  | c :: cs, a, fin, tb => by
    simp only [emitAlt]
    split
    · exact emitNode_ext cfg c a tb
    · exact (emitNode_ext cfg c _ tb).trans (emitAlt_ext cfg cs _ fin _)
end

/-! ## locating code in the program -/

/-- the instruction list `c` occupies the code words from offset `a` on, and an instruction follows it -/
def CodeAt (p : Prog) (a : Nat) (c : Code) : Prop :=
  ∃ pre post, p.codes = (flatten (pre ++ c ++ post)).toArray ∧ codeLen pre = a ∧ OpsOk (pre ++ c ++ post) ∧ post ≠ []

theorem CodeAt.left {p : Prog} {a : Nat} {x y : Code} (h : CodeAt p a (x ++ y)) (hy : y ≠ []) : CodeAt p a x := by
  obtain ⟨pre, post, hc, ha, ho, _⟩ := h
  exact ⟨pre, y ++ post, by rw [hc]; simp, ha, by simpa using ho, by simp [hy]⟩

theorem CodeAt.left' {p : Prog} {a : Nat} {x y : Code} (h : CodeAt p a (x ++ y)) : CodeAt p a x := by
  obtain ⟨pre, post, hc, ha, ho, hp⟩ := h
  exact ⟨pre, y ++ post, by rw [hc]; simp, ha, by simpa using ho, by simp [hp]⟩

theorem CodeAt.right {p : Prog} {a : Nat} {x y : Code} (h : CodeAt p a (x ++ y)) : CodeAt p (a + codeLen x) y := by
  obtain ⟨pre, post, hc, ha, ho, hp⟩ := h
  exact ⟨pre ++ x, post, by rw [hc]; simp, by rw [codeLen_append, ha], by simpa using ho, hp⟩

theorem CodeAt.cast {p : Prog} {a a' : Nat} {c c' : Code} (h : CodeAt p a c) (ha : a = a') (hc : c = c') :
    CodeAt p a' c' := by subst ha; subst hc; exact h

/-- what the interpreter reads at an instruction of the program -/
structure InstrAt (p : Prog) (a : Nat) (i : Instr) : Prop where
  fetch : VM.fetch p a = .ok (decode i.op)
  arg : ∀ k, k < i.args.length → p.codes[a + k + 1]? = i.args[k]?

theorem CodeAt.instr {p : Prog} {a : Nat} {i : Instr} {r : Code} (h : CodeAt p a (i :: r)) : InstrAt p a i := by
  obtain ⟨pre, post, hc, ha, ho, _⟩ := h
  have hop : i.op < 1024 := ho i (by simp)
  have e : pre ++ i :: r ++ post = pre ++ i :: (r ++ post) := by simp
  constructor
  · unfold VM.fetch
    rw [hc, e, List.getElem?_toArray, ← ha, flatten_getElem_op]
    have : (0 : Int) ≤ (i.op : Int) ∧ (i.op : Int) < 1024 := by omega
    simp [this]
  · intro k hk
    rw [hc, e, List.getElem?_toArray, ← ha, flatten_getElem_arg _ _ _ _ hk]

/-- an instruction follows the fragment -/
theorem CodeAt.fetch_end {p : Prog} {a : Nat} {c : Code} (h : CodeAt p a c) :
    ∃ w, VM.fetch p (a + codeLen c) = .ok w := by
  obtain ⟨pre, post, hc, ha, ho, hp⟩ := h
  cases post with
  | nil => exact absurd rfl hp
  | cons i post =>
    have hop : i.op < 1024 := ho i (by simp)
    refine ⟨decode i.op, ?_⟩
    unfold VM.fetch
    have e : pre ++ c ++ i :: post = (pre ++ c) ++ i :: post := by simp
    have hl : a + codeLen c = codeLen (pre ++ c) := by rw [codeLen_append, ha]
    rw [hc, e, List.getElem?_toArray, hl, flatten_getElem_op]
    have : (0 : Int) ≤ (i.op : Int) ∧ (i.op : Int) < 1024 := by omega
    simp [this]

theorem InstrAt.operand {p : Prog} {a : Nat} {i : Instr} (h : InstrAt p a i) {s : VMState} (hs : s.codepos = a)
    (k : Nat) (v : Int) (hv : i.args[k]? = some v) : VM.operand p s k = .ok v := by
  have hk : k < i.args.length := (List.getElem?_eq_some_iff.1 hv).1
  unfold VM.operand
  rw [hs, h.arg k hk, hv]

end RegexVerif.Compile
