/-
Every program the writer emits has a grouping-stack typing: an explicit assignment, a structural function of the tree
position (`tyAt`), satisfies `TypingW` for `Writer.emit ti root` and for the bool-only program.

`tyAt cfg a σ n q`: the stack type at code position `q` when `q` is the start of an instruction of the code of the
sub-tree `n` placed at offset `a` and entered with stack type `σ`; every node's code maps `σ` at its start to `σ` at its
end, with the intermediate shapes of the writer's frames (`Setmark … Capturemark`: `pos :: σ`; loops: `count :: pos :: σ`
in the body, `count :: mark :: σ` at the `Branchcount` of a loop with minimum 0; lookarounds and conditionals:
`cdepth :: tdepth :: σ` between `Setjump` and `Forejump`, …).
-/
import RegexVerif.Lemmas.Compose
import RegexVerif.Lemmas.StackTypingStep

namespace RegexVerif.Lemmas.StackTypingEmit
open RegexVerif RegexVerif.Code RegexVerif.Writer RegexVerif.StackTyping RegexVerif.Generated.Opcodes
open RegexVerif.Lemmas.Compose RegexVerif.Lemmas.StackTypingSound

/-! ### the transfer function with the jump target as a parameter -/

/-- `StackTyping.flow` with the jump operand passed explicitly -/
def flowA (tgt : Option Nat) (pc : Nat) (o : VM.Op) (σ : STy) : Option (List (Nat × STy)) :=
  let next := pc + o.size
  match o with
  | .stop | .nothing => some []
  | .goto => tgt.map fun t => [(t, σ)]
  | .lazybranch => tgt.map fun t => [(next, σ), (t, σ)]
  | .setmark => some [(next, .pos :: σ)]
  | .nullmark => some [(next, .mark :: σ)]
  | .setcount => some [(next, .count :: .pos :: σ)]
  | .nullcount => some [(next, .count :: .mark :: σ)]
  | .setjump => some [(next, .cdepth :: .tdepth :: σ)]
  | .getmark =>
    match σ with
    | .pos :: r => some [(next, r)]
    | _ => none
  | .capturemark =>
    match σ with
    | .pos :: r => some [(next, r)]
    | _ => none
  | .branchmark | .lazybranchmark =>
    match σ with
    | k :: r => if isMark k then tgt.map fun t => [(next, r), (t, .pos :: r)] else none
    | _ => none
  | .branchcount | .lazybranchcount =>
    match σ with
    | .count :: k :: r => if isMark k then tgt.map fun t => [(next, r), (t, .count :: .pos :: r)] else none
    | _ => none
  | .backjump =>
    match σ with
    | .cdepth :: .tdepth :: _ => some []
    | _ => none
  | .forejump =>
    match σ with
    | .cdepth :: .tdepth :: r => some [(next, r)]
    | _ => none
  | .prune => none
  | _ => some [(next, σ)]

theorem flow_eq_flowA (p : Prog) (pc : Nat) (o : VM.Op) (σ : STy) : flow p pc o σ = flowA (target p pc) pc o σ := by
  cases o <;> rfl

/-- the first operand as a code position -/
def tgtOf (i : Instr) : Option Nat :=
  match i.args with
  | (.ofNat t) :: _ => some t
  | _ => none

/-- an assignment as a function -/
abbrev Fn := Nat → Option STy

/-- `σ` is below the type at `q` -/
def ExitOk (F : Fn) (q : Nat) (σ : STy) : Prop := ∃ τ, F q = some τ ∧ subTy σ τ = true

/-- the instruction `i` at position `q` is consistent with the assignment -/
def InstrTy (F : Fn) (q : Nat) (i : Instr) : Prop :=
  ∀ σ, F q = some σ → ∃ o succs, VM.Op.ofNat? i.opcode = some o ∧ o.size = 1 + i.args.length ∧
    flowA (tgtOf i) q o σ = some succs ∧ ∀ s ∈ succs, ExitOk F s.1 s.2

def CodeTy (F : Fn) : Nat → Code → Prop
  | _, [] => True
  | a, i :: rest => InstrTy F a i ∧ CodeTy F (a + (1 + i.args.length)) rest

theorem CodeTy_append (F : Fn) : ∀ (x y : Code) (a : Nat), CodeTy F a (x ++ y) ↔ CodeTy F a x ∧ CodeTy F (a + codeLen x) y
  | [], y, a => by simp [CodeTy, codeLen]
  | i :: r, y, a => by
    simp only [List.cons_append, CodeTy, CodeTy_append F r y, codeLen, and_assoc]
    rw [show a + (1 + i.args.length) + codeLen r = a + (1 + i.args.length + codeLen r) by omega]

/-! ### the assignment of a sub-tree -/

abbrev cdt (σ : STy) : STy := .cdepth :: .tdepth :: σ

/-- positions of the (at most two) instructions of a single-character loop -/
def repTy (a : Nat) (σ : STy) (m n : Int) (q : Nat) : Option STy :=
  if (m > 0 ∧ q = a) ∨ (n > m ∧ q = a + (if m > 0 then 3 else 0)) then some σ else none

mutual
def tyAt (cfg : Cfg) (a : Nat) (σ : STy) : GoNode → Nat → Option STy
  | .empty, _ => none
  | .bare _, q => if q = a then some σ else none
  | .char _ _ _ _, q => if q = a then some σ else none
  | .set _ _ _, q => if q = a then some σ else none
  | .multi _ _ _, q => if q = a then some σ else none
  | .ref _ _ _, q => if q = a then some σ else none
  | .charloop _ _ _ _ m n, q => repTy a σ m n q
  | .setloop _ _ _ _ m n, q => repTy a σ m n q
  | .concat cs, q => tyList cfg a σ cs q
  | .alt cs, q => tyAlt cfg a σ cs q
  | .loop _ m n c, q =>
    let body := a + loopHeadLen m n
    let after := body + size cfg c
    let k0 : Kind := if m == 0 then .mark else .pos
    if q = a then some σ
    else if m == 0 ∧ q + 2 = body then some (if counted m n then .count :: .mark :: σ else .mark :: σ)
    else if q = after then some (if counted m n then .count :: k0 :: σ else k0 :: σ)
    else if body ≤ q ∧ q < after then tyAt cfg body (if counted m n then .count :: .pos :: σ else .pos :: σ) c q
    else none
  | .capture m n c, q =>
    if emitCapture cfg m n then
      if q = a then some σ
      else if q = a + 1 + size cfg c then some (.pos :: σ)
      else if a + 1 ≤ q ∧ q < a + 1 + size cfg c then tyAt cfg (a + 1) (.pos :: σ) c q
      else none
    else tyAt cfg a σ c q
  | .group c, q => tyAt cfg a σ c q
  | .poslook c, q =>
    let e := a + 2 + size cfg c
    if q = a then some σ
    else if q = a + 1 then some (cdt σ)
    else if q = e then some (.pos :: cdt σ)
    else if q = e + 1 then some (cdt σ)
    else if a + 2 ≤ q ∧ q < e then tyAt cfg (a + 2) (.pos :: cdt σ) c q
    else none
  | .neglook c, q =>
    let e := a + 3 + size cfg c
    if q = a then some σ
    else if q = a + 1 then some (cdt σ)
    else if q = e then some (cdt σ)
    else if q = e + 1 then some (cdt σ)
    else if a + 3 ≤ q ∧ q < e then tyAt cfg (a + 3) (cdt σ) c q
    else none
  | .atomic c, q =>
    let e := a + 1 + size cfg c
    if q = a then some σ
    else if q = e then some (cdt σ)
    else if a + 1 ≤ q ∧ q < e then tyAt cfg (a + 1) (cdt σ) c q
    else none
  | .backrefcond1 _ y, q =>
    let g := a + 6 + size cfg y
    if q = a then some σ
    else if q = a + 1 ∨ q = a + 3 ∨ q = a + 5 then some (cdt σ)
    else if q = g then some σ
    else if q = g + 2 then some (cdt σ)
    else if a + 6 ≤ q ∧ q < g then tyAt cfg (a + 6) σ y q
    else none
  | .backrefcond2 _ y n, q =>
    let g := a + 6 + size cfg y
    if q = a then some σ
    else if q = a + 1 ∨ q = a + 3 ∨ q = a + 5 then some (cdt σ)
    else if q = g then some σ
    else if q = g + 2 then some (cdt σ)
    else if a + 6 ≤ q ∧ q < g then tyAt cfg (a + 6) σ y q
    else if g + 3 ≤ q then tyAt cfg (g + 3) σ n q
    else none
  | .exprcond2 c y, q =>
    let e := a + 4 + size cfg c
    let yp := e + 2
    let g := yp + size cfg y
    if q = a then some σ
    else if q = a + 1 then some (cdt σ)
    else if q = a + 2 then some (.pos :: cdt σ)
    else if q = e then some (.pos :: cdt σ)
    else if q = e + 1 then some (cdt σ)
    else if q = g then some σ
    else if q = g + 2 then some (.pos :: cdt σ)
    else if q = g + 3 then some (cdt σ)
    else if a + 4 ≤ q ∧ q < e then tyAt cfg (a + 4) (.pos :: cdt σ) c q
    else if yp ≤ q ∧ q < g then tyAt cfg yp σ y q
    else none
  | .exprcond3 c y n, q =>
    let e := a + 4 + size cfg c
    let yp := e + 2
    let g := yp + size cfg y
    if q = a then some σ
    else if q = a + 1 then some (cdt σ)
    else if q = a + 2 then some (.pos :: cdt σ)
    else if q = e then some (.pos :: cdt σ)
    else if q = e + 1 then some (cdt σ)
    else if q = g then some σ
    else if q = g + 2 then some (.pos :: cdt σ)
    else if q = g + 3 then some (cdt σ)
    else if a + 4 ≤ q ∧ q < e then tyAt cfg (a + 4) (.pos :: cdt σ) c q
    else if yp ≤ q ∧ q < g then tyAt cfg yp σ y q
    else if g + 4 ≤ q then tyAt cfg (g + 4) σ n q
    else none
  | .other _, _ => none
def tyList (cfg : Cfg) (a : Nat) (σ : STy) : List GoNode → Nat → Option STy
  | [], _ => none
  | c :: cs, q => if q < a + size cfg c then tyAt cfg a σ c q else tyList cfg (a + size cfg c) σ cs q
def tyAlt (cfg : Cfg) (a : Nat) (σ : STy) : List GoNode → Nat → Option STy
  | [], _ => none
  | c :: cs, q =>
    if cs.isEmpty then tyAt cfg a σ c q
    else if q = a then some σ
    else if q = a + 2 + size cfg c then some σ
    else if q < a + 2 + size cfg c then tyAt cfg (a + 2) σ c q
    else tyAlt cfg (a + 2 + size cfg c + 2) σ cs q
end

/-! ### single instructions -/

section instrs
variable {F : Fn} {q : Nat} {σ : STy}

theorem instrTy_of {i : Instr} {o : VM.Op} {succs : List (Nat × STy)} (hq : F q = some σ)
    (ho : VM.Op.ofNat? i.opcode = some o) (hsz : o.size = 1 + i.args.length)
    (hfl : flowA (tgtOf i) q o σ = some succs) (hs : ∀ s ∈ succs, ExitOk F s.1 s.2) : InstrTy F q i := by
  intro σ' h
  rw [hq] at h; cases h
  exact ⟨o, succs, ho, hsz, hfl, hs⟩

theorem ExitOk.refl {q : Nat} {σ : STy} (h : F q = some σ) : ExitOk F q σ := ⟨σ, h, subTy_refl σ⟩

theorem ExitOk.cast {q q' : Nat} {σ : STy} (h : ExitOk F q σ) (e : q = q') : ExitOk F q' σ := e ▸ h

theorem tgt_i1 (op : Nat) (t : Nat) : tgtOf (i1 op (t : Int)) = some t := rfl
theorem tgt_i2 (op : Nat) (t : Nat) (x : Int) : tgtOf (i2 op (t : Int) x) = some t := rfl

theorem opcode_i0 (op : Nat) : (i0 op).opcode = op % (flagMask + 1) := rfl
theorem opcode_i1 (op : Nat) (x : Int) : (i1 op x).opcode = op % (flagMask + 1) := rfl
theorem opcode_i2 (op : Nat) (x y : Int) : (i2 op x y).opcode = op % (flagMask + 1) := rfl

theorem exits1 {q1 : Nat} {σ1 : STy} (h1 : ExitOk F q1 σ1) : ∀ s ∈ [(q1, σ1)], ExitOk F s.1 s.2 := by
  intro s hs; simp at hs; subst hs; exact h1
theorem exits2 {q1 q2 : Nat} {σ1 σ2 : STy} (h1 : ExitOk F q1 σ1) (h2 : ExitOk F q2 σ2) :
    ∀ s ∈ [(q1, σ1), (q2, σ2)], ExitOk F s.1 s.2 := by
  intro s hs; simp at hs; rcases hs with rfl | rfl <;> assumption
theorem exits0 : ∀ s ∈ ([] : List (Nat × STy)), ExitOk F s.1 s.2 := by intro s hs; cases hs

theorem L_setjump (hq : F q = some σ) (h1 : ExitOk F (q + 1) (cdt σ)) : InstrTy F q (i0 opSetjump) :=
  instrTy_of (o := .setjump) hq (by decide) rfl rfl (exits1 h1)
theorem L_setmark (hq : F q = some σ) (h1 : ExitOk F (q + 1) (.pos :: σ)) : InstrTy F q (i0 opSetmark) :=
  instrTy_of (o := .setmark) hq (by decide) rfl rfl (exits1 h1)
theorem L_nullmark (hq : F q = some σ) (h1 : ExitOk F (q + 1) (.mark :: σ)) : InstrTy F q (i0 opNullmark) :=
  instrTy_of (o := .nullmark) hq (by decide) rfl rfl (exits1 h1)
theorem L_setcount (x : Int) (hq : F q = some σ) (h1 : ExitOk F (q + 2) (.count :: .pos :: σ)) :
    InstrTy F q (i1 opSetcount x) :=
  instrTy_of (o := .setcount) hq (by rw [opcode_i1]; decide) rfl rfl (exits1 h1)
theorem L_nullcount (x : Int) (hq : F q = some σ) (h1 : ExitOk F (q + 2) (.count :: .mark :: σ)) :
    InstrTy F q (i1 opNullcount x) :=
  instrTy_of (o := .nullcount) hq (by rw [opcode_i1]; decide) rfl rfl (exits1 h1)
theorem L_getmark (hq : F q = some (.pos :: σ)) (h1 : ExitOk F (q + 1) σ) : InstrTy F q (i0 opGetmark) :=
  instrTy_of (o := .getmark) hq (by decide) rfl rfl (exits1 h1)
theorem L_capturemark (x y : Int) (hq : F q = some (.pos :: σ)) (h1 : ExitOk F (q + 3) σ) :
    InstrTy F q (i2 opCapturemark x y) :=
  instrTy_of (o := .capturemark) hq (by rw [opcode_i2]; decide) rfl rfl (exits1 h1)
theorem L_forejump (hq : F q = some (cdt σ)) (h1 : ExitOk F (q + 1) σ) : InstrTy F q (i0 opForejump) :=
  instrTy_of (o := .forejump) hq (by decide) rfl rfl (exits1 h1)
theorem L_backjump (hq : F q = some (cdt σ)) : InstrTy F q (i0 opBackjump) :=
  instrTy_of (o := .backjump) hq (by decide) rfl rfl exits0
theorem L_stop (hq : F q = some σ) : InstrTy F q (i0 opStop) :=
  instrTy_of (o := .stop) hq (by decide) rfl rfl exits0
theorem L_goto (t : Nat) (hq : F q = some σ) (h1 : ExitOk F t σ) : InstrTy F q (i1 opGoto (t : Int)) :=
  instrTy_of (o := .goto) hq (by rw [opcode_i1]; decide) rfl (by rw [tgt_i1]; rfl) (exits1 h1)
theorem L_lazybranch (t : Nat) (hq : F q = some σ) (h1 : ExitOk F (q + 2) σ) (h2 : ExitOk F t σ) :
    InstrTy F q (i1 opLazybranch (t : Int)) :=
  instrTy_of (o := .lazybranch) hq (by rw [opcode_i1]; decide) rfl (by rw [tgt_i1]; rfl) (exits2 h1 h2)
theorem L_testref (x : Int) (hq : F q = some σ) (h1 : ExitOk F (q + 2) σ) : InstrTy F q (i1 opTestref x) :=
  instrTy_of (o := .testref) hq (by rw [opcode_i1]; decide) rfl rfl (exits1 h1)
theorem L_branchmark (lzy : Bool) (t : Nat) {k : Kind} (hk : isMark k = true) (hq : F q = some (k :: σ))
    (h1 : ExitOk F (q + 2) σ) (h2 : ExitOk F t (.pos :: σ)) :
    InstrTy F q (i1 (opBranchmark + (if lzy then 1 else 0)) (t : Int)) := by
  cases lzy
  · exact instrTy_of (o := .branchmark) hq (by rw [opcode_i1]; decide) rfl
      (by rw [tgt_i1]; simp [flowA, hk, VM.Op.size]) (exits2 h1 h2)
  · exact instrTy_of (o := .lazybranchmark) hq (by rw [opcode_i1]; decide) rfl
      (by rw [tgt_i1]; simp [flowA, hk, VM.Op.size]) (exits2 h1 h2)
theorem L_branchcount (lzy : Bool) (t : Nat) (x : Int) {k : Kind} (hk : isMark k = true)
    (hq : F q = some (.count :: k :: σ)) (h1 : ExitOk F (q + 3) σ) (h2 : ExitOk F t (.count :: .pos :: σ)) :
    InstrTy F q (i2 (opBranchcount + (if lzy then 1 else 0)) (t : Int) x) := by
  cases lzy
  · exact instrTy_of (o := .branchcount) hq (by rw [opcode_i2]; decide) rfl
      (by rw [tgt_i2]; simp [flowA, hk, VM.Op.size]) (exits2 h1 h2)
  · exact instrTy_of (o := .lazybranchcount) hq (by rw [opcode_i2]; decide) rfl
      (by rw [tgt_i2]; simp [flowA, hk, VM.Op.size]) (exits2 h1 h2)

/-- opcodes whose only continuation is the next instruction with the same type, or none at all (`Nothing`) -/
def plain (o : VM.Op) : Bool :=
  match o with
  | .onerep | .notonerep | .setrep | .oneloop | .notoneloop | .setloop | .onelazy | .notonelazy | .setlazy
  | .one | .notone | .set | .multi | .ref | .bol | .eol | .boundary | .nonboundary | .beginning | .start
  | .endz | .end_ | .nothing | .ecmaboundary | .nonecmaboundary | .oneloopatomic | .notoneloopatomic
  | .setloopatomic | .updatebumpalong => true
  | _ => false

theorem plain_flow {o : VM.Op} (h : plain o = true) (tgt : Option Nat) :
    flowA tgt q o σ = some [(q + o.size, σ)] ∨ flowA tgt q o σ = some [] := by
  cases o <;> first | (exact Or.inl rfl) | (exact Or.inr rfl) | (exact absurd h (by decide))

/-- a leaf instruction: opcode word `op`, `k` operands -/
theorem L_plain {i : Instr} {o : VM.Op} (ho : VM.Op.ofNat? i.opcode = some o) (hp : plain o = true)
    (hsz : o.size = 1 + i.args.length) (hq : F q = some σ) (h1 : ExitOk F (q + (1 + i.args.length)) σ) :
    InstrTy F q i := by
  rcases plain_flow (q := q) (σ := σ) hp (tgtOf i) with h | h
  · exact instrTy_of hq ho hsz h (exits1 (by rw [hsz]; exact h1))
  · exact instrTy_of hq ho hsz h exits0

/-- the opcode words of the leaves decode to plain opcodes of the right length -/
def leafPlain (t : Nat) (len : Nat) : Bool :=
  match VM.Op.ofNat? (t % (flagMask + 1)) with
  | some o => plain o && o.size == len
  | none => false

theorem bare_leafPlain : ∀ t ∈ bareTypes, leafPlain t 1 = true := by decide
theorem char_leafPlain : ∀ t ∈ charTypes, ∀ rtl ci, leafPlain (t ||| bits rtl ci) 2 = true := by decide
theorem charloop_leafPlain : ∀ t ∈ charloopTypes ++ [opOnerep, opNotonerep, opSetrep] ++ setloopTypes, ∀ rtl ci,
    leafPlain (t ||| bits rtl ci) 3 = true := by decide
theorem setmulti_leafPlain : ∀ t ∈ [opSet, opMulti, opRef], ∀ rtl ci, leafPlain (t ||| bits rtl ci) 2 = true := by decide

theorem L_leaf {op : Nat} {args : List Int} (h : leafPlain op (1 + args.length) = true) (hq : F q = some σ)
    (h1 : ExitOk F (q + (1 + args.length)) σ) : InstrTy F q ⟨op, args⟩ := by
  unfold leafPlain at h
  split at h
  · next o ho =>
    simp only [Bool.and_eq_true, beq_iff_eq] at h
    exact L_plain (i := ⟨op, args⟩) ho h.1 h.2 hq h1
  · cases h

end instrs

/-! ### the first instruction of a sub-tree has the entry type -/

theorem repTy_entry (a : Nat) (σ : STy) (m n : Int) (h : repLen m n > 0) : repTy a σ m n a = some σ := by
  unfold repTy repLen at *
  by_cases h1 : m > 0
  · simp [h1]
  · by_cases h2 : n > m
    · simp [h1, h2]
    · simp [h1, h2] at h

mutual
theorem tyAt_entry (cfg : Cfg) : ∀ (n : GoNode) (a : Nat) (σ : STy), size cfg n > 0 → tyAt cfg a σ n a = some σ
  | .empty, a, σ, h => by simp [size] at h
  | .bare t, a, σ, h => by simp [tyAt]
  | .char t rtl ci ch, a, σ, h => by simp [tyAt]
  | .set rtl ci s, a, σ, h => by simp [tyAt]
  | .multi rtl ci s, a, σ, h => by simp [tyAt]
  | .ref rtl ci m, a, σ, h => by simp [tyAt]
  | .charloop t rtl ci ch m n, a, σ, h => by simp only [tyAt]; exact repTy_entry a σ m n (by simpa [size] using h)
  | .setloop t rtl ci s m n, a, σ, h => by simp only [tyAt]; exact repTy_entry a σ m n (by simpa [size] using h)
  | .concat cs, a, σ, h => by simp only [tyAt]; exact tyList_entry cfg cs a σ (by simpa [size] using h)
  | .alt cs, a, σ, h => by simp only [tyAt]; exact tyAlt_entry cfg cs a σ (by simpa [size] using h)
  | .loop lzy m n c, a, σ, h => by simp [tyAt]
  | .capture m n c, a, σ, h => by
    simp only [tyAt]
    split
    · simp
    · next he => exact tyAt_entry cfg c a σ (by simpa [size, he] using h)
  | .group c, a, σ, h => by simp only [tyAt]; exact tyAt_entry cfg c a σ (by simpa [size] using h)
  | .poslook c, a, σ, h => by simp [tyAt]
  | .neglook c, a, σ, h => by simp [tyAt]
  | .atomic c, a, σ, h => by simp [tyAt]
  | .backrefcond1 m y, a, σ, h => by simp [tyAt]
  | .backrefcond2 m y n, a, σ, h => by simp [tyAt]
  | .exprcond2 c y, a, σ, h => by simp [tyAt]
  | .exprcond3 c y n, a, σ, h => by simp [tyAt]
  | .other t, a, σ, h => by simp [size] at h
theorem tyList_entry (cfg : Cfg) : ∀ (cs : List GoNode) (a : Nat) (σ : STy), sizeList cfg cs > 0 →
    tyList cfg a σ cs a = some σ
  | [], a, σ, h => by simp [sizeList] at h
  | c :: cs, a, σ, h => by
    simp only [tyList]
    by_cases hc : size cfg c > 0
    · rw [if_pos (by omega)]; exact tyAt_entry cfg c a σ hc
    · have h0 : size cfg c = 0 := by omega
      rw [if_neg (by omega), h0]
      exact tyList_entry cfg cs a σ (by simp [sizeList, h0] at h; exact h)
theorem tyAlt_entry (cfg : Cfg) : ∀ (cs : List GoNode) (a : Nat) (σ : STy), sizeAlt cfg cs > 0 →
    tyAlt cfg a σ cs a = some σ
  | [], a, σ, h => by simp [sizeAlt] at h
  | c :: cs, a, σ, h => by
    simp only [tyAlt]
    split
    · next he => exact tyAt_entry cfg c a σ (by simpa [sizeAlt, he] using h)
    · simp
end

/-- the entry of a sub-tree's code (or, when it is empty, its exit) accepts the entry type -/
theorem entry_ok {F : Fn} (cfg : Cfg) (n : GoNode) (a : Nat) (σ : STy)
    (hag : ∀ q, a ≤ q → q < a + size cfg n → F q = tyAt cfg a σ n q) (hex : ExitOk F (a + size cfg n) σ) :
    ExitOk F a σ := by
  by_cases h : size cfg n > 0
  · exact ExitOk.refl (by rw [hag a (Nat.le_refl _) (by omega)]; exact tyAt_entry cfg n a σ h)
  · have : size cfg n = 0 := by omega
    rw [this] at hex; exact hex

theorem entry_ok' {F : Fn} (sz : Nat) (ty : Nat → Option STy) (a : Nat) (σ : STy) (hent : sz > 0 → ty a = some σ)
    (hag : ∀ q, a ≤ q → q < a + sz → F q = ty q) (hex : ExitOk F (a + sz) σ) : ExitOk F a σ := by
  by_cases h : sz > 0
  · exact ExitOk.refl (by rw [hag a (Nat.le_refl _) (by omega)]; exact hent h)
  · have : sz = 0 := by omega
    rw [this] at hex; exact hex

/-! ### the code of every sub-tree is consistent with the assignment -/

theorem CodeTy_cons {F : Fn} {q q' : Nat} {i : Instr} {rest : Code} (hq : q' = q + (1 + i.args.length))
    (h1 : InstrTy F q i) (h2 : CodeTy F q' rest) : CodeTy F q (i :: rest) := by
  subst hq; exact ⟨h1, h2⟩

theorem CodeTy_app {F : Fn} {q q' : Nat} {x y : Code} (hq : q' = q + codeLen x)
    (h1 : CodeTy F q x) (h2 : CodeTy F q' y) : CodeTy F q (x ++ y) := by
  subst hq; exact (CodeTy_append F x y q).mpr ⟨h1, h2⟩

theorem CodeTy_one {F : Fn} {q : Nat} {i : Instr} (h1 : InstrTy F q i) : CodeTy F q [i] := ⟨h1, trivial⟩

/-- decide the `if`s of `tyAt` at a concrete position -/
macro "ifs" : tactic =>
  `(tactic| repeat (first | rw [if_pos (by omega)] | rw [if_neg (by omega)]))

theorem sub_count_pos_mark (σ : STy) : subTy (.count :: .pos :: σ) (.count :: .mark :: σ) = true := by
  simp [subTy, Kind.sub, subTy_refl]
theorem sub_pos_mark (σ : STy) : subTy (.pos :: σ) (.mark :: σ) = true := by
  simp [subTy, Kind.sub, subTy_refl]

mutual
theorem emitNode_ty (cfg : Cfg) : ∀ (n : GoNode) (a : Nat) (tb : Tables) (σ : STy) (F : Fn), n.ok = true →
    (∀ q, a ≤ q → q < a + size cfg n → F q = tyAt cfg a σ n q) → ExitOk F (a + size cfg n) σ →
    CodeTy F a (emitNode cfg a tb n).1
  | .empty, a, tb, σ, F, hok, hag, hex => by simp [emitNode, CodeTy]
  | .bare t, a, tb, σ, F, hok, hag, hex => by
    simp only [size] at hag hex
    have f0 : F a = some σ := by rw [hag a (by omega) (by omega)]; simp [tyAt]
    simp only [emitNode]
    exact CodeTy_one (L_leaf (op := t) (args := []) (bare_leafPlain t (by simpa [GoNode.ok] using hok)) f0 hex)
  | .char t rtl ci ch, a, tb, σ, F, hok, hag, hex => by
    simp only [size] at hag hex
    have f0 : F a = some σ := by rw [hag a (by omega) (by omega)]; simp [tyAt]
    simp only [emitNode]
    exact CodeTy_one (L_leaf (args := [ch]) (char_leafPlain t (by simpa [GoNode.ok] using hok) rtl ci) f0 hex)
  | .set rtl ci st, a, tb, σ, F, hok, hag, hex => by
    simp only [size] at hag hex
    have f0 : F a = some σ := by rw [hag a (by omega) (by omega)]; simp [tyAt]
    simp only [emitNode]
    exact CodeTy_one (L_leaf (args := [_]) (setmulti_leafPlain opSet (by simp) rtl ci) f0 hex)
  | .multi rtl ci st, a, tb, σ, F, hok, hag, hex => by
    simp only [size] at hag hex
    have f0 : F a = some σ := by rw [hag a (by omega) (by omega)]; simp [tyAt]
    simp only [emitNode]
    exact CodeTy_one (L_leaf (args := [_]) (setmulti_leafPlain opMulti (by simp) rtl ci) f0 hex)
  | .ref rtl ci m, a, tb, σ, F, hok, hag, hex => by
    simp only [size] at hag hex
    have f0 : F a = some σ := by rw [hag a (by omega) (by omega)]; simp [tyAt]
    simp only [emitNode]
    exact CodeTy_one (L_leaf (args := [_]) (setmulti_leafPlain opRef (by simp) rtl ci) f0 hex)
  | .charloop t rtl ci ch m n, a, tb, σ, F, hok, hag, hex => by
    have ht : t ∈ charloopTypes := by simpa [GoNode.ok] using hok
    have hrep : ∀ x : Int, leafPlain ((if isOneFamily t then opOnerep else opNotonerep) ||| bits rtl ci) (1 + [ch, x].length) = true := by
      intro x; cases isOneFamily t
      · exact charloop_leafPlain opNotonerep (by simp) rtl ci
      · exact charloop_leafPlain opOnerep (by simp) rtl ci
    have hloop : ∀ x : Int, leafPlain (t ||| bits rtl ci) (1 + [ch, x].length) = true := by
      intro x; exact charloop_leafPlain t (by simp [ht]) rtl ci
    simp only [size, repLen, tyAt, repTy] at hag hex
    simp only [emitNode]
    by_cases h1 : m > 0 <;> by_cases h2 : n > m <;> simp only [h1, h2, ite_true, ite_false, List.append_nil, List.nil_append,
      List.singleton_append] at hag hex ⊢
    · have f0 : F a = some σ := by rw [hag a (by omega) (by omega)]; simp
      have f1 : F (a + 3) = some σ := by rw [hag _ (by omega) (by omega)]; simp
      exact CodeTy_cons (q' := a + 3) rfl (L_leaf (hrep _) f0 (ExitOk.refl f1))
        (CodeTy_one (L_leaf (hloop _) f1 (by simpa [Nat.add_assoc] using hex)))
    · have f0 : F a = some σ := by rw [hag a (by omega) (by omega)]; simp
      exact CodeTy_one (L_leaf (hrep _) f0 (by simpa using hex))
    · have f0 : F a = some σ := by rw [hag a (by omega) (by omega)]; simp
      exact CodeTy_one (L_leaf (hloop _) f0 (by simpa using hex))
    · trivial
  | .setloop t rtl ci st m n, a, tb, σ, F, hok, hag, hex => by
    have ht : t ∈ setloopTypes := by simpa [GoNode.ok] using hok
    have hrep : ∀ x y : Int, leafPlain (opSetrep ||| bits rtl ci) (1 + [x, y].length) = true := by
      intro x y; exact charloop_leafPlain opSetrep (by simp) rtl ci
    have hloop : ∀ x y : Int, leafPlain (t ||| bits rtl ci) (1 + [x, y].length) = true := by
      intro x y; exact charloop_leafPlain t (by simp [ht]) rtl ci
    simp only [size, repLen, tyAt, repTy] at hag hex
    simp only [emitNode]
    by_cases h1 : m > 0 <;> by_cases h2 : n > m <;> simp only [h1, h2, ite_true, ite_false, List.append_nil, List.nil_append,
      List.singleton_append] at hag hex ⊢
    · have f0 : F a = some σ := by rw [hag a (by omega) (by omega)]; simp
      have f1 : F (a + 3) = some σ := by rw [hag _ (by omega) (by omega)]; simp
      exact CodeTy_cons (q' := a + 3) rfl (L_leaf (hrep _ _) f0 (ExitOk.refl f1))
        (CodeTy_one (L_leaf (hloop _ _) f1 (by simpa [Nat.add_assoc] using hex)))
    · have f0 : F a = some σ := by rw [hag a (by omega) (by omega)]; simp
      exact CodeTy_one (L_leaf (hrep _ _) f0 (by simpa using hex))
    · have f0 : F a = some σ := by rw [hag a (by omega) (by omega)]; simp
      exact CodeTy_one (L_leaf (hloop _ _) f0 (by simpa using hex))
    · trivial
  | .concat cs, a, tb, σ, F, hok, hag, hex => by
    simp only [emitNode]
    exact emitList_ty cfg cs a tb σ F (by simp only [GoNode.ok, Bool.and_eq_true] at hok; exact hok.2)
      (by simpa [size, tyAt] using hag) (by simpa [size] using hex)
  | .alt cs, a, tb, σ, F, hok, hag, hex => by
    simp only [emitNode]
    exact emitAlt_ty cfg cs a (a + sizeAlt cfg cs) tb σ F (by simp only [GoNode.ok, Bool.and_eq_true] at hok; exact hok.2)
      rfl (by simpa [size, tyAt] using hag) (by simpa [size] using hex)
  | .group c, a, tb, σ, F, hok, hag, hex => by
    simp only [emitNode]
    exact emitNode_ty cfg c a tb σ F (by simpa [GoNode.ok] using hok) (by simpa [size, tyAt] using hag)
      (by simpa [size] using hex)
  | .capture m n c, a, tb, σ, F, hok, hag, hex => by
    have hokc : c.ok = true := by simpa [GoNode.ok] using hok
    simp only [emitNode]
    by_cases he : emitCapture cfg m n = true
    · simp only [he, ite_true, size, tyAt] at hag hex ⊢
      have f0 : F a = some σ := by rw [hag a (by omega) (by omega)]; ifs
      have f1 : F (a + 1 + size cfg c) = some (.pos :: σ) := by rw [hag _ (by omega) (by omega)]; ifs
      have hagc : ∀ q, a + 1 ≤ q → q < a + 1 + size cfg c → F q = tyAt cfg (a + 1) (.pos :: σ) c q := by
        intro q h1 h2; rw [hag q (by omega) (by omega)]; ifs
      have hcc := emitNode_ty cfg c (a + 1) tb (.pos :: σ) F hokc hagc (ExitOk.refl f1)
      have hent := entry_ok cfg c (a + 1) _ hagc (ExitOk.refl f1)
      simp only [List.cons_append, List.nil_append, List.append_assoc]
      refine CodeTy_cons (q' := a + 1) rfl (L_setmark f0 hent) ?_
      refine CodeTy_app (q' := a + 1 + size cfg c) (by rw [emitNode_size]) hcc ?_
      exact CodeTy_one (L_capturemark _ _ f1 (hex.cast (by omega)))
    · simp only [he, size, tyAt] at hag hex ⊢
      exact emitNode_ty cfg c a tb σ F hokc hag hex
  | .other t, a, tb, σ, F, hok, hag, hex => by simp [GoNode.ok] at hok
  | .poslook c, a, tb, σ, F, hok, hag, hex => by
    have hokc : c.ok = true := by simpa [GoNode.ok] using hok
    simp only [size, tyAt] at hag hex
    have f0 : F a = some σ := by rw [hag a (by omega) (by omega)]; ifs
    have f1 : F (a + 1) = some (cdt σ) := by rw [hag _ (by omega) (by omega)]; ifs
    have f2 : F (a + 2 + size cfg c) = some (.pos :: cdt σ) := by rw [hag _ (by omega) (by omega)]; ifs
    have f3 : F (a + 2 + size cfg c + 1) = some (cdt σ) := by rw [hag _ (by omega) (by omega)]; ifs
    have hagc : ∀ q, a + 2 ≤ q → q < a + 2 + size cfg c → F q = tyAt cfg (a + 2) (.pos :: cdt σ) c q := by
      intro q h1 h2; rw [hag q (by omega) (by omega)]; ifs
    have hcc := emitNode_ty cfg c (a + 2) tb _ F hokc hagc (ExitOk.refl f2)
    have hent := entry_ok cfg c (a + 2) _ hagc (ExitOk.refl f2)
    simp only [emitNode, List.cons_append, List.nil_append, List.append_assoc]
    refine CodeTy_cons (q' := a + 1) rfl (L_setjump f0 (ExitOk.refl f1)) ?_
    refine CodeTy_cons (q' := a + 2) rfl (L_setmark f1 hent) ?_
    refine CodeTy_app (q' := a + 2 + size cfg c) (by rw [emitNode_size]) hcc ?_
    refine CodeTy_cons (q' := a + 2 + size cfg c + 1) rfl (L_getmark f2 (ExitOk.refl f3)) ?_
    exact CodeTy_one (L_forejump f3 (hex.cast (by omega)))
  | .neglook c, a, tb, σ, F, hok, hag, hex => by
    have hokc : c.ok = true := by simpa [GoNode.ok] using hok
    simp only [size, tyAt] at hag hex
    have f0 : F a = some σ := by rw [hag a (by omega) (by omega)]; ifs
    have f1 : F (a + 1) = some (cdt σ) := by rw [hag _ (by omega) (by omega)]; ifs
    have f2 : F (a + 3 + size cfg c) = some (cdt σ) := by rw [hag _ (by omega) (by omega)]; ifs
    have f3 : F (a + 3 + size cfg c + 1) = some (cdt σ) := by rw [hag _ (by omega) (by omega)]; ifs
    have hagc : ∀ q, a + 3 ≤ q → q < a + 3 + size cfg c → F q = tyAt cfg (a + 3) (cdt σ) c q := by
      intro q h1 h2; rw [hag q (by omega) (by omega)]; ifs
    have hcc := emitNode_ty cfg c (a + 3) tb _ F hokc hagc (ExitOk.refl f2)
    have hent := entry_ok cfg c (a + 3) _ hagc (ExitOk.refl f2)
    simp only [emitNode, List.cons_append, List.nil_append, List.append_assoc]
    refine CodeTy_cons (q' := a + 1) rfl (L_setjump f0 (ExitOk.refl f1)) ?_
    refine CodeTy_cons (q' := a + 3) rfl (L_lazybranch _ f1 hent (ExitOk.refl f3)) ?_
    refine CodeTy_app (q' := a + 3 + size cfg c) (by rw [emitNode_size]) hcc ?_
    refine CodeTy_cons (q' := a + 3 + size cfg c + 1) rfl (L_backjump f2) ?_
    exact CodeTy_one (L_forejump f3 (hex.cast (by omega)))
  | .atomic c, a, tb, σ, F, hok, hag, hex => by
    have hokc : c.ok = true := by simpa [GoNode.ok] using hok
    simp only [size, tyAt] at hag hex
    have f0 : F a = some σ := by rw [hag a (by omega) (by omega)]; ifs
    have f2 : F (a + 1 + size cfg c) = some (cdt σ) := by rw [hag _ (by omega) (by omega)]; ifs
    have hagc : ∀ q, a + 1 ≤ q → q < a + 1 + size cfg c → F q = tyAt cfg (a + 1) (cdt σ) c q := by
      intro q h1 h2; rw [hag q (by omega) (by omega)]; ifs
    have hcc := emitNode_ty cfg c (a + 1) tb _ F hokc hagc (ExitOk.refl f2)
    have hent := entry_ok cfg c (a + 1) _ hagc (ExitOk.refl f2)
    simp only [emitNode, List.cons_append, List.nil_append, List.append_assoc]
    refine CodeTy_cons (q' := a + 1) rfl (L_setjump f0 hent) ?_
    refine CodeTy_app (q' := a + 1 + size cfg c) (by rw [emitNode_size]) hcc ?_
    exact CodeTy_one (L_forejump f2 (hex.cast (by omega)))
  | .backrefcond1 m y, a, tb, σ, F, hok, hag, hex => by
    have hoky : y.ok = true := by simpa [GoNode.ok] using hok
    simp only [size, tyAt] at hag hex
    have f0 : F a = some σ := by rw [hag a (by omega) (by omega)]; ifs
    have f1 : F (a + 1) = some (cdt σ) := by rw [hag _ (by omega) (by omega)]; ifs
    have f3 : F (a + 3) = some (cdt σ) := by rw [hag _ (by omega) (by omega)]; ifs
    have f5 : F (a + 5) = some (cdt σ) := by rw [hag _ (by omega) (by omega)]; ifs
    have g0 : F (a + 6 + size cfg y) = some σ := by rw [hag _ (by omega) (by omega)]; ifs
    have g2 : F (a + 6 + size cfg y + 2) = some (cdt σ) := by rw [hag _ (by omega) (by omega)]; ifs
    have hagy : ∀ q, a + 6 ≤ q → q < a + 6 + size cfg y → F q = tyAt cfg (a + 6) σ y q := by
      intro q h1 h2; rw [hag q (by omega) (by omega)]; ifs
    have hyy := emitNode_ty cfg y (a + 6) tb _ F hoky hagy (ExitOk.refl g0)
    have hent := entry_ok cfg y (a + 6) _ hagy (ExitOk.refl g0)
    simp only [emitNode, List.cons_append, List.nil_append, List.append_assoc]
    refine CodeTy_cons (q' := a + 1) rfl (L_setjump f0 (ExitOk.refl f1)) ?_
    refine CodeTy_cons (q' := a + 3) rfl (L_lazybranch _ f1 (ExitOk.refl f3) (ExitOk.refl g2)) ?_
    refine CodeTy_cons (q' := a + 5) rfl (L_testref _ f3 (ExitOk.refl f5)) ?_
    refine CodeTy_cons (q' := a + 6) rfl (L_forejump f5 hent) ?_
    refine CodeTy_app (q' := a + 6 + size cfg y) (by rw [emitNode_size]) hyy ?_
    refine CodeTy_cons (q' := a + 6 + size cfg y + 2) rfl (L_goto _ g0 (hex.cast (by omega))) ?_
    exact CodeTy_one (L_forejump g2 (hex.cast (by omega)))
  | .backrefcond2 m y n, a, tb, σ, F, hok, hag, hex => by
    have hoky : y.ok = true ∧ n.ok = true := by simpa [GoNode.ok] using hok
    simp only [size, tyAt] at hag hex
    have f0 : F a = some σ := by rw [hag a (by omega) (by omega)]; ifs
    have f1 : F (a + 1) = some (cdt σ) := by rw [hag _ (by omega) (by omega)]; ifs
    have f3 : F (a + 3) = some (cdt σ) := by rw [hag _ (by omega) (by omega)]; ifs
    have f5 : F (a + 5) = some (cdt σ) := by rw [hag _ (by omega) (by omega)]; ifs
    have g0 : F (a + 6 + size cfg y) = some σ := by rw [hag _ (by omega) (by omega)]; ifs
    have g2 : F (a + 6 + size cfg y + 2) = some (cdt σ) := by rw [hag _ (by omega) (by omega)]; ifs
    have hagy : ∀ q, a + 6 ≤ q → q < a + 6 + size cfg y → F q = tyAt cfg (a + 6) σ y q := by
      intro q h1 h2; rw [hag q (by omega) (by omega)]; ifs
    have hagn : ∀ q, a + 6 + size cfg y + 3 ≤ q → q < a + 6 + size cfg y + 3 + size cfg n →
        F q = tyAt cfg (a + 6 + size cfg y + 3) σ n q := by
      intro q h1 h2; rw [hag q (by omega) (by omega)]; ifs
    have hexn : ExitOk F (a + 6 + size cfg y + 3 + size cfg n) σ := hex.cast (by omega)
    have hyy := emitNode_ty cfg y (a + 6) tb _ F hoky.1 hagy (ExitOk.refl g0)
    have henty := entry_ok cfg y (a + 6) _ hagy (ExitOk.refl g0)
    have hentn := entry_ok cfg n _ _ hagn hexn
    simp only [emitNode, List.cons_append, List.nil_append, List.append_assoc]
    refine CodeTy_cons (q' := a + 1) rfl (L_setjump f0 (ExitOk.refl f1)) ?_
    refine CodeTy_cons (q' := a + 3) rfl (L_lazybranch _ f1 (ExitOk.refl f3) (ExitOk.refl g2)) ?_
    refine CodeTy_cons (q' := a + 5) rfl (L_testref _ f3 (ExitOk.refl f5)) ?_
    refine CodeTy_cons (q' := a + 6) rfl (L_forejump f5 henty) ?_
    refine CodeTy_app (q' := a + 6 + size cfg y) (by rw [emitNode_size]) hyy ?_
    refine CodeTy_cons (q' := a + 6 + size cfg y + 2) rfl (L_goto _ g0 hexn) ?_
    refine CodeTy_cons (q' := a + 6 + size cfg y + 3) rfl (L_forejump g2 hentn) ?_
    exact emitNode_ty cfg n _ _ σ F hoky.2 hagn hexn
  | .exprcond2 c y, a, tb, σ, F, hok, hag, hex => by
    have hoks : c.ok = true ∧ y.ok = true := by simpa [GoNode.ok] using hok
    simp only [size, tyAt] at hag hex
    have f0 : F a = some σ := by rw [hag a (by omega) (by omega)]; ifs
    have f1 : F (a + 1) = some (cdt σ) := by rw [hag _ (by omega) (by omega)]; ifs
    have f2 : F (a + 2) = some (.pos :: cdt σ) := by rw [hag _ (by omega) (by omega)]; ifs
    have e0 : F (a + 4 + size cfg c) = some (.pos :: cdt σ) := by rw [hag _ (by omega) (by omega)]; ifs
    have e1 : F (a + 4 + size cfg c + 1) = some (cdt σ) := by rw [hag _ (by omega) (by omega)]; ifs
    have g0 : F (a + 4 + size cfg c + 2 + size cfg y) = some σ := by rw [hag _ (by omega) (by omega)]; ifs
    have g2 : F (a + 4 + size cfg c + 2 + size cfg y + 2) = some (.pos :: cdt σ) := by
      rw [hag _ (by omega) (by omega)]; ifs
    have g3 : F (a + 4 + size cfg c + 2 + size cfg y + 3) = some (cdt σ) := by rw [hag _ (by omega) (by omega)]; ifs
    have hagc : ∀ q, a + 4 ≤ q → q < a + 4 + size cfg c → F q = tyAt cfg (a + 4) (.pos :: cdt σ) c q := by
      intro q h1 h2; rw [hag q (by omega) (by omega)]; ifs
    have hagy : ∀ q, a + 4 + size cfg c + 2 ≤ q → q < a + 4 + size cfg c + 2 + size cfg y →
        F q = tyAt cfg (a + 4 + size cfg c + 2) σ y q := by
      intro q h1 h2; rw [hag q (by omega) (by omega)]; ifs
    have hcc := emitNode_ty cfg c (a + 4) tb _ F hoks.1 hagc (ExitOk.refl e0)
    have hentc := entry_ok cfg c (a + 4) _ hagc (ExitOk.refl e0)
    have henty := entry_ok cfg y _ _ hagy (ExitOk.refl g0)
    simp only [emitNode, List.cons_append, List.nil_append, List.append_assoc]
    refine CodeTy_cons (q' := a + 1) rfl (L_setjump f0 (ExitOk.refl f1)) ?_
    refine CodeTy_cons (q' := a + 2) rfl (L_setmark f1 (ExitOk.refl f2)) ?_
    refine CodeTy_cons (q' := a + 4) rfl (L_lazybranch _ f2 hentc (ExitOk.refl g2)) ?_
    refine CodeTy_app (q' := a + 4 + size cfg c) (by rw [emitNode_size]) hcc ?_
    refine CodeTy_cons (q' := a + 4 + size cfg c + 1) rfl (L_getmark e0 (ExitOk.refl e1)) ?_
    refine CodeTy_cons (q' := a + 4 + size cfg c + 2) rfl (L_forejump e1 henty) ?_
    refine CodeTy_app (q' := a + 4 + size cfg c + 2 + size cfg y) (by rw [emitNode_size])
      (emitNode_ty cfg y _ _ σ F hoks.2 hagy (ExitOk.refl g0)) ?_
    refine CodeTy_cons (q' := a + 4 + size cfg c + 2 + size cfg y + 2) rfl (L_goto _ g0 (hex.cast (by omega))) ?_
    refine CodeTy_cons (q' := a + 4 + size cfg c + 2 + size cfg y + 3) rfl (L_getmark g2 (ExitOk.refl g3)) ?_
    exact CodeTy_one (L_forejump g3 (hex.cast (by omega)))
  | .exprcond3 c y n, a, tb, σ, F, hok, hag, hex => by
    have hoks : (c.ok = true ∧ y.ok = true) ∧ n.ok = true := by simpa [GoNode.ok] using hok
    simp only [size, tyAt] at hag hex
    have f0 : F a = some σ := by rw [hag a (by omega) (by omega)]; ifs
    have f1 : F (a + 1) = some (cdt σ) := by rw [hag _ (by omega) (by omega)]; ifs
    have f2 : F (a + 2) = some (.pos :: cdt σ) := by rw [hag _ (by omega) (by omega)]; ifs
    have e0 : F (a + 4 + size cfg c) = some (.pos :: cdt σ) := by rw [hag _ (by omega) (by omega)]; ifs
    have e1 : F (a + 4 + size cfg c + 1) = some (cdt σ) := by rw [hag _ (by omega) (by omega)]; ifs
    have g0 : F (a + 4 + size cfg c + 2 + size cfg y) = some σ := by rw [hag _ (by omega) (by omega)]; ifs
    have g2 : F (a + 4 + size cfg c + 2 + size cfg y + 2) = some (.pos :: cdt σ) := by
      rw [hag _ (by omega) (by omega)]; ifs
    have g3 : F (a + 4 + size cfg c + 2 + size cfg y + 3) = some (cdt σ) := by rw [hag _ (by omega) (by omega)]; ifs
    have hagc : ∀ q, a + 4 ≤ q → q < a + 4 + size cfg c → F q = tyAt cfg (a + 4) (.pos :: cdt σ) c q := by
      intro q h1 h2; rw [hag q (by omega) (by omega)]; ifs
    have hagy : ∀ q, a + 4 + size cfg c + 2 ≤ q → q < a + 4 + size cfg c + 2 + size cfg y →
        F q = tyAt cfg (a + 4 + size cfg c + 2) σ y q := by
      intro q h1 h2; rw [hag q (by omega) (by omega)]; ifs
    have hagn : ∀ q, a + 4 + size cfg c + 2 + size cfg y + 4 ≤ q →
        q < a + 4 + size cfg c + 2 + size cfg y + 4 + size cfg n →
        F q = tyAt cfg (a + 4 + size cfg c + 2 + size cfg y + 4) σ n q := by
      intro q h1 h2; rw [hag q (by omega) (by omega)]; ifs
    have hexn : ExitOk F (a + 4 + size cfg c + 2 + size cfg y + 4 + size cfg n) σ := hex.cast (by omega)
    have hcc := emitNode_ty cfg c (a + 4) tb _ F hoks.1.1 hagc (ExitOk.refl e0)
    have hentc := entry_ok cfg c (a + 4) _ hagc (ExitOk.refl e0)
    have henty := entry_ok cfg y _ _ hagy (ExitOk.refl g0)
    have hentn := entry_ok cfg n _ _ hagn hexn
    simp only [emitNode, List.cons_append, List.nil_append, List.append_assoc]
    refine CodeTy_cons (q' := a + 1) rfl (L_setjump f0 (ExitOk.refl f1)) ?_
    refine CodeTy_cons (q' := a + 2) rfl (L_setmark f1 (ExitOk.refl f2)) ?_
    refine CodeTy_cons (q' := a + 4) rfl (L_lazybranch _ f2 hentc (ExitOk.refl g2)) ?_
    refine CodeTy_app (q' := a + 4 + size cfg c) (by rw [emitNode_size]) hcc ?_
    refine CodeTy_cons (q' := a + 4 + size cfg c + 1) rfl (L_getmark e0 (ExitOk.refl e1)) ?_
    refine CodeTy_cons (q' := a + 4 + size cfg c + 2) rfl (L_forejump e1 henty) ?_
    refine CodeTy_app (q' := a + 4 + size cfg c + 2 + size cfg y) (by rw [emitNode_size])
      (emitNode_ty cfg y _ _ σ F hoks.1.2 hagy (ExitOk.refl g0)) ?_
    refine CodeTy_cons (q' := a + 4 + size cfg c + 2 + size cfg y + 2) rfl (L_goto _ g0 hexn) ?_
    refine CodeTy_cons (q' := a + 4 + size cfg c + 2 + size cfg y + 3) rfl (L_getmark g2 (ExitOk.refl g3)) ?_
    refine CodeTy_cons (q' := a + 4 + size cfg c + 2 + size cfg y + 4) rfl (L_forejump g3 hentn) ?_
    exact emitNode_ty cfg n _ _ σ F hoks.2 hagn hexn
  | .loop lzy m n c, a, tb, σ, F, hok, hag, hex => by
    have hokc : c.ok = true := by simpa [GoNode.ok] using hok
    have hlz : (if lzy = true then 1 else 0) = (if lzy then 1 else 0 : Nat) := rfl
    simp only [size, tyAt, loopHeadLen, loopTailLen] at hag hex
    simp only [emitNode, loopHeadLen]
    cases hcn : counted m n <;> by_cases hm : (m == 0) = true <;>
      simp only [hcn, hm, ite_true, ite_false, Bool.false_eq_true, true_and, false_and] at hag hex ⊢
    · -- uncounted, minimum 0: Nullmark; Goto after; body; Branchmark body
      have f0 : F a = some σ := by rw [hag a (by omega) (by omega)]; ifs
      have f1 : F (a + 1) = some (.mark :: σ) := by rw [hag _ (by omega) (by omega)]; ifs
      have t0 : F (a + (1 + 2) + size cfg c) = some (.mark :: σ) := by rw [hag _ (by omega) (by omega)]; ifs
      have hagc : ∀ q, a + (1 + 2) ≤ q → q < a + (1 + 2) + size cfg c → F q = tyAt cfg (a + (1 + 2)) (.pos :: σ) c q := by
        intro q h1 h2; rw [hag q (by omega) (by omega)]; ifs
      have hexc : ExitOk F (a + (1 + 2) + size cfg c) (.pos :: σ) := ⟨_, t0, sub_pos_mark σ⟩
      have hcc := emitNode_ty cfg c (a + (1 + 2)) tb _ F hokc hagc hexc
      have hent := entry_ok cfg c _ _ hagc hexc
      simp only [List.cons_append, List.nil_append, List.append_assoc]
      refine CodeTy_cons (q' := a + 1) rfl (L_nullmark f0 (ExitOk.refl f1)) ?_
      refine CodeTy_cons (q' := a + (1 + 2)) rfl (L_goto _ f1 (ExitOk.refl t0)) ?_
      refine CodeTy_app (q' := a + (1 + 2) + size cfg c) (by rw [emitNode_size]) hcc ?_
      exact CodeTy_one (L_branchmark lzy _ (k := .mark) rfl t0 (hex.cast (by omega)) hent)
    · -- uncounted, minimum ≥ 1: Setmark; body; Branchmark body
      have f0 : F a = some σ := by rw [hag a (by omega) (by omega)]; ifs
      have t0 : F (a + (1 + 0) + size cfg c) = some (.pos :: σ) := by rw [hag _ (by omega) (by omega)]; ifs
      have hagc : ∀ q, a + (1 + 0) ≤ q → q < a + (1 + 0) + size cfg c → F q = tyAt cfg (a + (1 + 0)) (.pos :: σ) c q := by
        intro q h1 h2; rw [hag q (by omega) (by omega)]; ifs
      have hexc : ExitOk F (a + (1 + 0) + size cfg c) (.pos :: σ) := ExitOk.refl t0
      have hcc := emitNode_ty cfg c (a + (1 + 0)) tb _ F hokc hagc hexc
      have hent := entry_ok cfg c _ _ hagc hexc
      simp only [List.cons_append, List.nil_append, List.append_assoc, List.append_nil]
      refine CodeTy_cons (q' := a + (1 + 0)) rfl (L_setmark f0 hent) ?_
      refine CodeTy_app (q' := a + (1 + 0) + size cfg c) (by rw [emitNode_size]) hcc ?_
      exact CodeTy_one (L_branchmark lzy _ (k := .pos) rfl t0 (hex.cast (by omega)) hent)
    · -- counted, minimum 0: Nullcount; Goto after; body; Branchcount body
      have f0 : F a = some σ := by rw [hag a (by omega) (by omega)]; ifs
      have f1 : F (a + 2) = some (.count :: .mark :: σ) := by rw [hag _ (by omega) (by omega)]; ifs
      have t0 : F (a + (2 + 2) + size cfg c) = some (.count :: .mark :: σ) := by rw [hag _ (by omega) (by omega)]; ifs
      have hagc : ∀ q, a + (2 + 2) ≤ q → q < a + (2 + 2) + size cfg c →
          F q = tyAt cfg (a + (2 + 2)) (.count :: .pos :: σ) c q := by
        intro q h1 h2; rw [hag q (by omega) (by omega)]; ifs
      have hexc : ExitOk F (a + (2 + 2) + size cfg c) (.count :: .pos :: σ) := ⟨_, t0, sub_count_pos_mark σ⟩
      have hcc := emitNode_ty cfg c (a + (2 + 2)) tb _ F hokc hagc hexc
      have hent := entry_ok cfg c _ _ hagc hexc
      simp only [List.cons_append, List.nil_append, List.append_assoc]
      refine CodeTy_cons (q' := a + 2) rfl (L_nullcount _ f0 (ExitOk.refl f1)) ?_
      refine CodeTy_cons (q' := a + (2 + 2)) rfl (L_goto _ f1 (ExitOk.refl t0)) ?_
      refine CodeTy_app (q' := a + (2 + 2) + size cfg c) (by rw [emitNode_size]) hcc ?_
      exact CodeTy_one (L_branchcount lzy _ _ (k := .mark) rfl t0 (hex.cast (by omega)) hent)
    · -- counted, minimum ≥ 1: Setcount; body; Branchcount body
      have f0 : F a = some σ := by rw [hag a (by omega) (by omega)]; ifs
      have t0 : F (a + (2 + 0) + size cfg c) = some (.count :: .pos :: σ) := by rw [hag _ (by omega) (by omega)]; ifs
      have hagc : ∀ q, a + (2 + 0) ≤ q → q < a + (2 + 0) + size cfg c →
          F q = tyAt cfg (a + (2 + 0)) (.count :: .pos :: σ) c q := by
        intro q h1 h2; rw [hag q (by omega) (by omega)]; ifs
      have hexc : ExitOk F (a + (2 + 0) + size cfg c) (.count :: .pos :: σ) := ExitOk.refl t0
      have hcc := emitNode_ty cfg c (a + (2 + 0)) tb _ F hokc hagc hexc
      have hent := entry_ok cfg c _ _ hagc hexc
      simp only [List.cons_append, List.nil_append, List.append_assoc, List.append_nil]
      refine CodeTy_cons (q' := a + (2 + 0)) rfl (L_setcount _ f0 hent) ?_
      refine CodeTy_app (q' := a + (2 + 0) + size cfg c) (by rw [emitNode_size]) hcc ?_
      exact CodeTy_one (L_branchcount lzy _ _ (k := .pos) rfl t0 (hex.cast (by omega)) hent)
theorem emitList_ty (cfg : Cfg) : ∀ (cs : List GoNode) (a : Nat) (tb : Tables) (σ : STy) (F : Fn), okList cs = true →
    (∀ q, a ≤ q → q < a + sizeList cfg cs → F q = tyList cfg a σ cs q) → ExitOk F (a + sizeList cfg cs) σ →
    CodeTy F a (emitList cfg a tb cs).1
  | [], a, tb, σ, F, hok, hag, hex => by simp [emitList, CodeTy]
  | c :: cs, a, tb, σ, F, hok, hag, hex => by
    simp only [okList, Bool.and_eq_true] at hok
    simp only [sizeList, tyList] at hag hex
    have hagr : ∀ q, a + size cfg c ≤ q → q < a + size cfg c + sizeList cfg cs → F q = tyList cfg (a + size cfg c) σ cs q := by
      intro q h1 h2; rw [hag q (by omega) (by omega)]; ifs
    have hexr : ExitOk F (a + size cfg c + sizeList cfg cs) σ := by rw [Nat.add_assoc]; exact hex
    have hentr := entry_ok' (sizeList cfg cs) (tyList cfg (a + size cfg c) σ cs) (a + size cfg c) σ
      (tyList_entry cfg cs _ σ) hagr hexr
    have hagc : ∀ q, a ≤ q → q < a + size cfg c → F q = tyAt cfg a σ c q := by
      intro q h1 h2; rw [hag q (by omega) (by omega)]; ifs
    simp only [emitList]
    exact CodeTy_app (q' := a + size cfg c) (by rw [emitNode_size]) (emitNode_ty cfg c a tb σ F hok.1 hagc hentr)
      (emitList_ty cfg cs _ _ σ F hok.2 hagr hexr)
theorem emitAlt_ty (cfg : Cfg) : ∀ (cs : List GoNode) (a fin : Nat) (tb : Tables) (σ : STy) (F : Fn), okList cs = true →
    fin = a + sizeAlt cfg cs →
    (∀ q, a ≤ q → q < a + sizeAlt cfg cs → F q = tyAlt cfg a σ cs q) → ExitOk F (a + sizeAlt cfg cs) σ →
    CodeTy F a (emitAlt cfg a fin tb cs).1
  | [], a, fin, tb, σ, F, hok, hfin, hag, hex => by simp [emitAlt, CodeTy]
  | c :: cs, a, fin, tb, σ, F, hok, hfin, hag, hex => by
    simp only [okList, Bool.and_eq_true] at hok
    simp only [emitAlt]
    by_cases he : cs.isEmpty = true
    · simp only [he, ite_true, sizeAlt, tyAlt] at hag hex ⊢
      exact emitNode_ty cfg c a tb σ F hok.1 hag hex
    · simp only [he, sizeAlt, tyAlt, Bool.false_eq_true, ite_false] at hag hex hfin ⊢
      have f0 : F a = some σ := by rw [hag a (by omega) (by omega)]; ifs
      have f1 : F (a + 2 + size cfg c) = some σ := by rw [hag _ (by omega) (by omega)]; ifs
      have hagc : ∀ q, a + 2 ≤ q → q < a + 2 + size cfg c → F q = tyAt cfg (a + 2) σ c q := by
        intro q h1 h2; rw [hag q (by omega) (by omega)]; ifs
      have hagr : ∀ q, a + 2 + size cfg c + 2 ≤ q → q < a + 2 + size cfg c + 2 + sizeAlt cfg cs →
          F q = tyAlt cfg (a + 2 + size cfg c + 2) σ cs q := by
        intro q h1 h2; rw [hag q (by omega) (by omega)]; ifs
      have hexr : ExitOk F (a + 2 + size cfg c + 2 + sizeAlt cfg cs) σ := hex.cast (by omega)
      have hfin' : fin = a + 2 + size cfg c + 2 + sizeAlt cfg cs := by omega
      have hentr := entry_ok' (sizeAlt cfg cs) (tyAlt cfg (a + 2 + size cfg c + 2) σ cs) _ σ
        (tyAlt_entry cfg cs _ σ) hagr hexr
      have hentc := entry_ok cfg c (a + 2) σ hagc (ExitOk.refl f1)
      simp only [List.cons_append, List.nil_append, List.append_assoc]
      refine CodeTy_cons (q' := a + 2) rfl (L_lazybranch _ f0 hentc hentr) ?_
      refine CodeTy_app (q' := a + 2 + size cfg c) (by rw [emitNode_size])
        (emitNode_ty cfg c (a + 2) tb σ F hok.1 hagc (ExitOk.refl f1)) ?_
      refine CodeTy_cons (q' := a + 2 + size cfg c + 2) rfl (L_goto fin f1 (by rw [hfin']; exact hexr)) ?_
      exact emitAlt_ty cfg cs _ fin _ σ F hok.2 hfin' hagr hexr
end

/-! ### the whole program -/

/-- the assignment of the program of `root`: `[]` at the `Lazybranch` at 0 and at the final `Stop`, `tyAt` in between -/
def progFn (cfg : Cfg) (root : GoNode) : Fn := fun q =>
  if q = 0 then some []
  else if q = 2 + size cfg root then some []
  else if 2 ≤ q ∧ q < 2 + size cfg root then tyAt cfg 2 [] root q
  else none

theorem progFn_bound (cfg : Cfg) (root : GoNode) {q : Nat} {τ : STy} (h : progFn cfg root q = some τ) :
    q < size cfg root + 3 := by
  unfold progFn at h
  split at h
  · omega
  · split at h
    · omega
    · split at h
      · omega
      · cases h

theorem codeFromTree_codeTy (cfg : Cfg) (root : GoNode) (hok : root.ok = true) :
    CodeTy (progFn cfg root) 0 (codeFromTree cfg root).1 := by
  have f0 : progFn cfg root 0 = some [] := by simp [progFn]
  have fe : progFn cfg root (2 + size cfg root) = some [] := by unfold progFn; ifs
  have hag : ∀ q, 2 ≤ q → q < 2 + size cfg root → progFn cfg root q = tyAt cfg 2 [] root q := by
    intro q h1 h2; unfold progFn; ifs
  have hent := entry_ok cfg root 2 [] hag (ExitOk.refl fe)
  simp only [codeFromTree, List.cons_append, List.nil_append]
  refine CodeTy_cons (q' := 2) rfl (L_lazybranch _ f0 (by simpa using hent) (ExitOk.refl fe)) ?_
  refine CodeTy_app (q' := 2 + size cfg root) (by rw [emitNode_size]) (emitNode_ty cfg root 2 _ [] _ hok hag (ExitOk.refl fe)) ?_
  exact CodeTy_one (L_stop fe)

theorem CodeTy_split {F : Fn} : ∀ (pre : Code) (i : Instr) (post : Code) (a : Nat),
    CodeTy F a (pre ++ i :: post) → InstrTy F (a + codeLen pre) i := by
  intro pre i post a h
  have := (CodeTy_append F pre (i :: post) a).mp h
  exact this.2.1

/-- the assignment as an array -/
def arrOf (F : Fn) (N : Nat) : Assign := ((List.range N).map F).toArray

theorem arrOf_get (F : Fn) (N q : Nat) (h : q < N) : (arrOf F N).get q = F q := by
  simp [arrOf, Assign.get, h]

/-- opcodes of one word do not read the jump operand -/
theorem flowA_tgt (t1 t2 : Option Nat) (pc : Nat) (o : VM.Op) (σ : STy) (h : o.size = 1) :
    flowA t1 pc o σ = flowA t2 pc o σ := by
  cases o <;> first | rfl | (simp [VM.Op.size] at h)

theorem target_progOf (pre : Code) (i : Instr) (post : Code) (s n t c cp r) (x : Int) (xs : List Int)
    (h : i.args = x :: xs) : target (progOf (pre ++ i :: post) s n t c cp r) (codeLen pre) = tgtOf i := by
  have := codes_arg pre i post s n t c cp r 0 x (by rw [h]; rfl)
  simp only [Nat.add_zero] at this
  unfold target tgtOf
  rw [this, h]
  cases x <;> rfl

/-- **the bridge**: a program whose instruction list is consistent with an assignment function has a typing -/
theorem typingW_progOf (c : Code) (F : Fn) (s : Array (List Nat)) (n t cs : Nat) (cp r)
    (hw : AllW c) (hF0 : F 0 = some [])
    (hb : ∀ q τ, F q = some τ → q < codeLen c) (hty : CodeTy F 0 c) :
    TypingW (progOf c s n t cs cp r) (istarts 0 c) (arrOf F (codeLen c)) := by
  have hN : 0 < codeLen c := hb 0 [] hF0
  refine ⟨by rw [arrOf_get F _ 0 hN]; exact hF0, ?_⟩
  intro pc hpc σ hσ
  obtain ⟨pre, i, post, e, hp⟩ := mem_istarts_split c 0 pc hpc
  simp only [Nat.zero_add] at hp
  subst hp
  have hlt : codeLen pre < codeLen c := by rw [e, codeLen_append]; simp only [codeLen_cons]; omega
  rw [arrOf_get F _ _ hlt] at hσ
  have hi : i ∈ c := by rw [e]; simp
  have hit := CodeTy_split pre i post 0 (by rw [← e]; exact hty)
  simp only [Nat.zero_add] at hit
  obtain ⟨o, succs, ho, hsz, hfl, hs⟩ := hit σ hσ
  have hop : i.op < 1024 := by
    have := hw i hi
    simp only [opWordOk, Bool.and_eq_true, decide_eq_true_eq] at this
    exact this.1.1.1
  refine ⟨o, succs, ?_, ?_, ?_⟩
  · unfold opAt
    rw [e, fetch_progOf pre i post s n t cs cp r hop]
    exact ho
  · rw [flow_eq_flowA, ← hfl, e]
    cases hargs : i.args with
    | nil => exact flowA_tgt _ _ _ _ _ (by rw [hsz, hargs]; rfl)
    | cons x xs => rw [target_progOf pre i post s n t cs cp r x xs hargs]
  · intro x hx
    obtain ⟨τ, h1, h2⟩ := hs x hx
    exact ⟨τ, by rw [arrOf_get F _ _ (hb _ _ h1)]; exact h1, h2⟩

/-- the program of `codeFromTree cfg root` (with any tables, `TrackCount`, `Caps`) has a typing -/
theorem codeFromTree_typing (cfg : Cfg) (cs : Nat) (root : GoNode) (hok : root.ok = true)
    (hcaps : capsOk cfg cs root = true) (s : Array (List Nat)) (n t : Nat) (cp r) :
    ∃ bs a, (progOf (codeFromTree cfg root).1 s n t cs cp r).boundaries = some bs ∧
      TypingW (progOf (codeFromTree cfg root).1 s n t cs cp r) bs a := by
  have ha : ∀ i ∈ (codeFromTree cfg root).1, i.arityOk = true := by
    intro i hi
    have := codeFromTree_local cfg cs root hok hcaps i hi
    simp only [Instr.localOk, Bool.and_eq_true] at this
    exact this.1.1.1.1
  refine ⟨istarts 0 (codeFromTree cfg root).1, arrOf (progFn cfg root) (codeLen (codeFromTree cfg root).1),
    boundaries_progOf _ s n t cs cp r ha, ?_⟩
  refine typingW_progOf _ (progFn cfg root) s n t cs cp r (codeFromTree_word cfg root hok) (by simp [progFn]) ?_
    (codeFromTree_codeTy cfg root hok)
  intro q τ h
  rw [codeFromTree_len]
  exact progFn_bound cfg root h

/-- **(B) every emitted program has a grouping-stack typing** -/
theorem emit_typing (ti : TreeInfo) (root : GoNode) (h : treeWf ti root = true) :
    ∃ bs a, (emit ti root).boundaries = some bs ∧ TypingW (emit ti root) bs a := by
  simp only [treeWf, Bool.and_eq_true] at h
  obtain ⟨⟨hok, hcaps⟩, _⟩ := h
  rw [emit_eq_progOf]
  exact codeFromTree_typing (mainCfg ti) (capsize ti) root hok hcaps _ _ _ _ _

/-- the same for the bool-only program -/
theorem emitQuick_typing (ti : TreeInfo) (root : GoNode) (h : treeWf ti root = true) (qp : Prog)
    (hq : emitQuick ti root = some qp) : ∃ bs a, qp.boundaries = some bs ∧ TypingW qp bs a := by
  simp only [treeWf, Bool.and_eq_true] at h
  obtain ⟨⟨hok, hcaps⟩, _⟩ := h
  rw [emitQuick_eq_progOf ti root qp hq]
  refine codeFromTree_typing (quickCfg ti root) (capsize ti) root hok ?_ _ _ _ _ _
  rw [← hcaps]; exact capsOk_quick _ _ _ root

end RegexVerif.Lemmas.StackTypingEmit
