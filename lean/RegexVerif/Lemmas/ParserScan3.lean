/-
Floor-based specifications: scanners of the parser model that may move the position back (to a saved
position, or one rune to the left) are specified against a *floor* `p` instead of their start
position: started at or after `a` with `k` runes to the right, they end at or after `p`, inside the
pattern, with the frame untouched (`ScansF a k p`).  Then: `scanBasicBackslash` and `scanBackslash`.
-/
import RegexVerif.Lemmas.ParserScan2

namespace RegexVerif.Parser

variable {α β γ : Type}
variable (E : Env)

/-- like `Adv`, but the position is compared with a floor `p` instead of the position of `s` -/
structure AdvF (p : Nat) (s s' : PS) : Prop where
  floor : p ≤ s'.pos
  inside : s'.pos ≤ E.pat.length
  frame : s'.frame = s.frame
  names : NamesOK s.g → NamesOK s'.g

theorem Adv.toF {s s' : PS} (h : Adv E s s') : AdvF E s.pos s s' := ⟨h.le, h.inside, h.frame, h.names⟩
theorem AdvF.toAdv {s s' : PS} (h : AdvF E s.pos s s') : Adv E s s' := ⟨h.floor, h.inside, h.frame, h.names⟩

/-- started at or after `a` with `k` runes to the right, `m` returns (normally or with an error) at or
    after `p`, inside the pattern, frame untouched; never a fault, never out of fuel -/
def ScansF (a k p : Nat) (m : M α) : Prop :=
  ∀ s, a ≤ s.pos → s.pos + k ≤ E.pat.length → wp m (fun _ s' => AdvF E p s s') (AdvF E p s) s

theorem wp_callF {m : M α} {a k p : Nat} (h : ScansF E a k p m) {Q : α → PS → Prop} {R : PS → Prop} {s : PS}
    (ha : a ≤ s.pos) (hk : s.pos + k ≤ E.pat.length)
    (hq : ∀ x s', p ≤ s'.pos → s'.pos ≤ E.pat.length → s'.frame = s.frame → (NamesOK s.g → NamesOK s'.g) → Q x s')
    (hr : ∀ s', p ≤ s'.pos → s'.pos ≤ E.pat.length → s'.frame = s.frame → (NamesOK s.g → NamesOK s'.g) → R s') :
    wp m Q R s :=
  wp_mono (h s ha hk) (fun a s' h' => hq a s' h'.floor h'.inside h'.frame h'.names)
    (fun s' h' => hr s' h'.floor h'.inside h'.frame h'.names)

theorem Scans.toF {m : M α} (h : Scans E m) (p : Nat) : ScansF E p 0 p m := by
  intro s ha hk
  exact wp_mono (h s (by omega)) (fun _ s' h' => ⟨by have := h'.le; omega, h'.inside, h'.frame, h'.names⟩)
    (fun s' h' => ⟨by have := h'.le; omega, h'.inside, h'.frame, h'.names⟩)

theorem ScansF.toScans {m : M α} (h : ∀ p, ScansF E p 0 p m) : Scans E m := by
  intro s hs
  exact wp_mono (h s.pos s (Nat.le_refl _) (by omega)) (fun _ _ h' => h'.toAdv) (fun _ h' => h'.toAdv)

syntax "wp_simp3" : tactic
macro_rules
  | `(tactic| wp_simp3) => `(tactic| simp only [andM, orM, andMM, rcIs, rcNe, getIs, nextIs, wp_bind, wp_pure, wp_ite,
      wp_moveRightGetChar, wp_moveLeft, wp_textpos, wp_opts, wp_charsRight, wp_rest, wp_moveRight, wp_throw, wp_textto,
      wp_rightChar, wp_charAt, wp_get, wp_modify, wp_fault, wp_setOpts, wp_isCaptureSlot, wp_captureSlotFromName,
      wp_hasCapnames, wp_consumeAutocap, wp_emptyOptionsStack, wp_pushOptions, Bool.false_eq_true, if_false, if_true])

/-- close an `Adv` / `AdvF` goal (or an arithmetic side goal) from the chain of facts in the context -/
syntax "advf" : tactic
macro_rules
  | `(tactic| advf) => `(tactic| first
      | omega
      | (dsimp only at *; omega)
      | (refine ⟨?_, ?_, ?_, ?_⟩ <;> first
          | omega
          | (dsimp only at *; omega)
          | ((try dsimp only [PS.frame] at *); simp_all; done)
          | (intro hN; (try dsimp only at *); simp_all; done))
      | adv)

/- from here on `wp` is opaque to unification: `apply And.intro` / `intro` must not run a scanner
   symbolically by unfolding it -/
attribute [local irreducible] wp

/-- `wp_auto` with `split` before the closing tactic -/
syntax "wp_go" : tactic
macro_rules
  | `(tactic| wp_go) => `(tactic| repeat' (first
      | with_reducible apply And.intro
      | intro _
      | wp_callee
      | wp_simp3
      | dsimp only
      | split
      | advf))

/-! ## `breakRecognize` -/

theorem scansF_breakRecognize (start : Nat) : ScansF E start 0 start (breakRecognize E start : M α) := by
  intro s ha hk
  unfold wp breakRecognize
  have : start ≤ s.pos ∧ s.pos ≤ E.pat.length := ⟨ha, by omega⟩
  simp only [this, and_self, if_true]
  exact ⟨ha, by omega, rfl, id⟩

/-! ## Backslash -/

theorem scansF_bbCharCode (so : Bool) (o : Opts) (backpos : Nat) (hb : backpos < E.pat.length) :
    ScansF E 0 0 backpos (bbCharCode E so o backpos) := by
  intro s _ hs
  unfold bbCharCode
  wp_go

macro_rules | `(tactic| wp_callee) => `(tactic| refine wp_callF _ (scansF_bbCharCode _ _ _ _ (by adv)) (by adv) (by adv) ?_ ?_)
macro_rules | `(tactic| wp_callee) => `(tactic| refine wp_callF _ (scansF_breakRecognize _ _) (by adv) (by adv) ?_ ?_)

theorem scans_bbKOpen (o : Opts) : Scans E (bbKOpen E o) := by
  intro s hs
  unfold bbKOpen
  wp_go

macro_rules | `(tactic| wp_callee) => `(tactic| refine wp_call _ (scans_bbKOpen _ _) (by adv) ?_ ?_)

theorem scans_bbHead (o : Opts) : ScansLt E (bbHead E o) := by
  intro s hs
  unfold bbHead
  wp_go

macro_rules | `(tactic| wp_callee) => `(tactic| refine wp_call_lt _ (scans_bbHead _ _) (by adv) ?_ ?_)

theorem scansF_bbAngledNumber (so : Bool) (o : Opts) (backpos close : Nat) (hb : backpos < E.pat.length) :
    ScansF E backpos 0 backpos (bbAngledNumber E so o backpos close) := by
  intro s _ hs
  unfold bbAngledNumber
  wp_go

theorem scansF_bbNumber (so : Bool) (o : Opts) (backpos : Nat) (hb : backpos < E.pat.length) :
    ScansF E backpos 0 backpos (bbNumber E so o backpos) := by
  intro s _ hs
  unfold bbNumber
  wp_go

theorem scansF_bbName (so : Bool) (o : Opts) (backpos close : Nat) (k : Bool) (hb : backpos < E.pat.length) :
    ScansF E backpos 0 backpos (bbName E so o backpos close k) := by
  intro s _ hs
  unfold bbName
  wp_go

macro_rules | `(tactic| wp_callee) => `(tactic| refine wp_callF _ (scansF_bbAngledNumber _ _ _ _ _ (by adv)) (by adv) (by adv) ?_ ?_)
macro_rules | `(tactic| wp_callee) => `(tactic| refine wp_callF _ (scansF_bbNumber _ _ _ _ (by adv)) (by adv) (by adv) ?_ ?_)
macro_rules | `(tactic| wp_callee) => `(tactic| refine wp_callF _ (scansF_bbName _ _ _ _ _ _ (by adv)) (by adv) (by adv) ?_ ?_)

theorem scans_scanBasicBackslash (so : Bool) : Scans E (scanBasicBackslash E so) := by
  intro s hs
  unfold scanBasicBackslash
  wp_go

macro_rules | `(tactic| wp_callee) => `(tactic| refine wp_call _ (scans_scanBasicBackslash _ _) (by adv) ?_ ?_)

theorem scans_bsProperty (o : Opts) (ch : Nat) : ScansLt E (bsProperty E o ch) := by
  intro s hs
  unfold bsProperty
  wp_go

macro_rules | `(tactic| wp_callee) => `(tactic| refine wp_call_lt _ (scans_bsProperty _ _ _) (by adv) ?_ ?_)

theorem scans_scanBackslash (so : Bool) : Scans E (scanBackslash E so) := by
  intro s hs
  unfold scanBackslash
  wp_go

macro_rules | `(tactic| wp_callee) => `(tactic| refine wp_call _ (scans_scanBackslash _ _) (by adv) ?_ ?_)

end RegexVerif.Parser
