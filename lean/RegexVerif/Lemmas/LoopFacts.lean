/-
Soundness of the validators of Model/LoopFacts.lean against the specification `Spec.m`: what `chainOf` /
`lalOf` compute from a pattern is a true fact about every left-to-right success of that pattern, in exactly
the form the finders of Model/Finders.lean consume (`LandmarkFact`, `LitAfterLoopFact`).
-/
import RegexVerif.Model.LoopFacts
import RegexVerif.Lemmas.Facts
import RegexVerif.Lemmas.Finders
import RegexVerif.Lemmas.SetFacts

namespace RegexVerif.Lemmas.LoopFacts
open RegexVerif RegexVerif.Spec RegexVerif.Finders RegexVerif.LoopFacts RegexVerif.Facts RegexVerif.Lemmas.Finders

/-! ### positions reached through a list of patterns -/

/-- `y` can be reached from `x` by one success of each pattern in turn (captures forgotten in between) -/
def Reach (e : Env) : List Pat → Nat → Nat → Prop
  | [], x, y => x = y
  | p :: ps, x, y => ∃ st st', st.pos = x ∧ st' ∈ m e p false st ∧ Reach e ps st'.pos y

theorem reach_append (e : Env) : ∀ (as bs : List Pat) (x y : Nat),
    Reach e (as ++ bs) x y ↔ ∃ z, Reach e as x z ∧ Reach e bs z y := by
  intro as
  induction as with
  | nil => intro bs x y; simp [Reach]
  | cons a as ih =>
    intro bs x y
    simp only [List.cons_append, Reach]
    constructor
    · rintro ⟨st, st', h1, h2, h3⟩
      obtain ⟨z, hz1, hz2⟩ := (ih bs _ _).mp h3
      exact ⟨z, ⟨st, st', h1, h2, hz1⟩, hz2⟩
    · rintro ⟨z, ⟨st, st', h1, h2, h3⟩, hz⟩
      exact ⟨st, st', h1, h2, (ih bs _ _).mpr ⟨z, h3, hz⟩⟩

theorem reach_fwd (e : Env) : ∀ (ps : List Pat) (x y : Nat), Reach e ps x y → x ≤ y := by
  intro ps
  induction ps with
  | nil => intro x y h; simp [Reach] at h; omega
  | cons p ps ih =>
    intro x y h
    obtain ⟨st, st', h1, h2, h3⟩ := h
    have := m_fwd e p false st st' h2
    have := ih _ _ h3
    simp [Fwd] at *; omega

/-- a success of `p` is, as far as positions go, a success of `unwrap p` -/
theorem unwrap_mem (e : Env) (p : Pat) : ∀ (st st' : St), st' ∈ m e p false st →
    ∃ st'', st'' ∈ m e (unwrap p) false st ∧ st''.pos = st'.pos := by
  induction p with
  | cap g b ih =>
    intro st st' hm
    simp only [m, List.mem_map] at hm
    obtain ⟨y, hy, rfl⟩ := hm
    obtain ⟨z, hz1, hz2⟩ := ih st y hy
    exact ⟨z, by simpa [unwrap] using hz1, by simpa using hz2⟩
  | atomic b ih =>
    intro st st' hm
    simp only [m] at hm
    obtain ⟨z, hz1, hz2⟩ := ih st st' (List.mem_of_mem_take hm)
    exact ⟨z, by simpa [unwrap] using hz1, hz2⟩
  | _ => intro st st' hm; exact ⟨st', by simpa [unwrap] using hm, rfl⟩

theorem seq_mem (e : Env) (a b : Pat) (st st' : St) (hm : st' ∈ m e (.seq a b) false st) :
    ∃ mid, mid ∈ m e a false st ∧ st' ∈ m e b false mid := by
  simp only [m, Bool.false_eq_true, if_false, List.mem_flatMap] at hm
  exact hm

theorem spine_reach (e : Env) : ∀ (k : Nat) (p : Pat) (st st' : St), st' ∈ m e p false st →
    Reach e (spine k p) st.pos st'.pos := by
  intro k
  induction k with
  | zero => intro p st st' hm; exact ⟨st, st', rfl, hm, rfl⟩
  | succ k ih =>
    intro p st st' hm
    cases p with
    | seq a b =>
      obtain ⟨mid, h1, h2⟩ := seq_mem e a b st st' hm
      exact ⟨st, mid, rfl, h1, ih b mid st' h2⟩
    | _ => exact ⟨st, st', rfl, hm, rfl⟩

theorem leaves_reach (e : Env) : ∀ (fuel : Nat) (p : Pat) (st st' : St), st' ∈ m e p false st →
    Reach e (leaves fuel p) st.pos st'.pos := by
  intro fuel
  induction fuel with
  | zero => intro p st st' hm; exact ⟨st, st', rfl, hm, rfl⟩
  | succ fuel ih =>
    intro p st st' hm
    obtain ⟨z, hz1, hz2⟩ := unwrap_mem e p st st' hm
    rw [← hz2]
    unfold leaves
    cases hu : unwrap p with
    | seq a b =>
      rw [hu] at hz1
      obtain ⟨mid, h1, h2⟩ := seq_mem e a b st z hz1
      simp only []
      exact (reach_append e _ _ _ _).mpr ⟨mid.pos, ih a st mid h1, ih b mid z h2⟩
    | _ => rw [hu] at hz1; exact ⟨st, z, rfl, hz1, rfl⟩

theorem flatMap_leaves_reach (e : Env) (fuel : Nat) : ∀ (ps : List Pat) (x y : Nat), Reach e ps x y →
    Reach e (ps.flatMap (leaves fuel)) x y := by
  intro ps
  induction ps with
  | nil => intro x y h; simpa using h
  | cons p ps ih =>
    intro x y h
    obtain ⟨st, st', h1, h2, h3⟩ := h
    simp only [List.flatMap_cons]
    refine (reach_append e _ _ _ _).mpr ⟨st'.pos, ?_, ih _ _ h3⟩
    rw [← h1]; exact leaves_reach e fuel p st st' h2

theorem branches_mem (e : Env) : ∀ (k : Nat) (p : Pat) (st st' : St), st' ∈ m e p false st →
    ∃ b, b ∈ branches k p ∧ st' ∈ m e b false st := by
  intro k
  induction k with
  | zero => intro p st st' hm; exact ⟨p, by simp [branches], hm⟩
  | succ k ih =>
    intro p st st' hm
    cases p with
    | alt a b =>
      simp only [m, List.mem_append] at hm
      rcases hm with hm | hm
      · exact ⟨a, by simp [branches], hm⟩
      · obtain ⟨c, hc1, hc2⟩ := ih b st st' hm
        exact ⟨c, by simp [branches, hc1], hc2⟩
    | _ => exact ⟨_, by simp [branches], hm⟩

/-! ### single items -/

theorem chr_step (e : Env) (P : Pred) (st st' : St) (hm : st' ∈ m e (.chr P) false st) :
    memAt (P.test e) e.text st.pos = true ∧ st'.pos = st.pos + 1 := by
  simp only [m] at hm
  cases hs : stepChar e false st.pos with
  | none => simp [hs] at hm
  | some rp =>
    obtain ⟨r, pos'⟩ := rp
    simp only [hs] at hm
    obtain ⟨_, _, h3⟩ := stepChar_spec e false st.pos r pos' hs
    obtain ⟨h4, h5⟩ := h3 rfl
    by_cases ht : P.test e r = true
    · simp only [ht, if_true, List.mem_singleton] at hm
      subst hm
      exact ⟨by simp [memAt, h4, ht], h5⟩
    · simp [ht] at hm

theorem chain_run (e : Env) (P : Pred) : ∀ {j : Nat} {s s' : St}, Chain (m e (.chr P) false) j s s' →
    s'.pos = s.pos + j ∧ ∀ i, i < j → memAt (P.test e) e.text (s.pos + i) = true := by
  intro j s s' hc
  induction hc with
  | zero s => exact ⟨rfl, fun i h => by omega⟩
  | @succ j s y s' hy _ ih =>
    obtain ⟨h1, h2⟩ := chr_step e P _ _ hy
    obtain ⟨h3, h4⟩ := ih
    refine ⟨by omega, ?_⟩
    intro i hi
    cases i with
    | zero => simpa using h1
    | succ i =>
      have := h4 i (by omega)
      rw [h2] at this
      rw [show s.pos + (i + 1) = s.pos + 1 + i by omega]; exact this

/-- a loop over one character test consumes a run of `j` characters passing the test, `lo ≤ j (≤ hi)` -/
theorem loop_run (e : Env) (lz : Bool) (lo : Nat) (hi : Option Nat) (P : Pred) (st st' : St)
    (hm : st' ∈ m e (.quant lz lo hi (.chr P)) false st) :
    ∃ j, lo ≤ j ∧ (∀ h, hi = some h → j ≤ h) ∧ st'.pos = st.pos + j ∧
      ∀ i, i < j → memAt (P.test e) e.text (st.pos + i) = true := by
  obtain ⟨j, hc, h1, h2⟩ := quant_chain e lz lo hi (.chr P) false st st' hm
  obtain ⟨h3, h4⟩ := chain_run e P hc
  exact ⟨j, h1, h2, h3, h4⟩

theorem gap_pos (e : Env) (p : Pat) (hg : isGap p = true) (st st' : St) (hm : st' ∈ m e p false st) :
    st'.pos = st.pos := by
  obtain ⟨z, hz1, hz2⟩ := unwrap_mem e p st st' hm
  rw [← hz2]
  unfold isGap at hg
  cases hu : unwrap p with
  | empty => rw [hu] at hz1; simp [m] at hz1; rw [hz1]
  | anchor a =>
    rw [hu] at hz1
    simp only [m] at hz1
    split at hz1 <;> simp at hz1
    rw [hz1]
  | _ => rw [hu] at hg; simp at hg

/-! ### the core of a landmark alternative -/

theorem runOf_ge (S : Nat → Bool) (text : List Nat) (start maxRepeat : Nat) : ∀ (fuel e : Nat),
    e ≤ runOf S text start maxRepeat fuel e := by
  intro fuel
  induction fuel with
  | zero => intro e; simp [runOf]
  | succ fuel ih =>
    intro e
    unfold runOf
    split
    · have := ih (e + 1); omega
    · exact Nat.le_refl _

/-- a run of `j ≤ maxRepeat` set characters from `c` is covered by the greedy run -/
theorem runOf_covers (S : Nat → Bool) (text : List Nat) (c maxRepeat j : Nat) (hj : j ≤ maxRepeat)
    (hrun : ∀ i, i < j → memAt S text (c + i) = true) : ∀ (fuel e : Nat), c ≤ e → e ≤ c + j → c + j ≤ e + fuel →
    c + j ≤ runOf S text c maxRepeat fuel e := by
  intro fuel
  induction fuel with
  | zero => intro e h1 h2 h3; simp [runOf]; omega
  | succ fuel ih =>
    intro e h1 h2 h3
    unfold runOf
    by_cases heq : e = c + j
    · split
      · have := runOf_ge S text c maxRepeat fuel (e + 1); omega
      · omega
    · have hm := hrun (e - c) (by omega)
      rw [show c + (e - c) = e by omega] at hm
      have hlt := memAt_lt S text e hm
      have hcond : (decide (e < text.length) && decide (e - c < maxRepeat) && memAt S text e) = true := by
        simp only [Bool.and_eq_true, decide_eq_true_eq]
        exact ⟨⟨hlt, by omega⟩, hm⟩
      rw [if_pos hcond]
      exact ih (e + 1) (by omega) (by omega) (by omega)

theorem litRun_reach (e : Env) : ∀ (items : List Pat) (x y : Nat), Reach e items x y →
    occursAt eqExact (litRun items).1 e.text x = true ∧
    Reach e (litRun items).2 (x + (litRun items).1.length) y := by
  intro items
  induction items with
  | nil => intro x y h; simp [litRun, occursAt, prefixOf]; simpa [Reach] using h
  | cons p ps ih =>
    intro x y h
    have hdefault : litRun (p :: ps) = ([], p :: ps) ∨ ∃ c, p = .chr (.one c false) := by
      cases p with
      | chr P =>
        cases P with
        | one c ci => cases ci <;> simp [litRun]
        | _ => simp [litRun]
      | _ => simp [litRun]
    rcases hdefault with hd | ⟨c, rfl⟩
    · rw [hd]
      exact ⟨by simp [occursAt, prefixOf], by simpa using h⟩
    · obtain ⟨st, st', h1, h2, h3⟩ := h
      obtain ⟨s1, s2⟩ := chr_step e (.one c false) st st' h2
      obtain ⟨i1, i3⟩ := ih _ _ h3
      simp only [litRun]
      rw [s2, h1] at i1 i3
      have hx : e.text[x]? = some c := by
        rw [h1] at s1
        simp only [memAt] at s1
        cases hg : e.text[x]? with
        | none => rw [hg] at s1; simp at s1
        | some r =>
          rw [hg] at s1
          simp [Pred.test] at s1
          rw [s1]
      refine ⟨?_, by simpa [Nat.add_assoc, Nat.add_comm 1] using i3⟩
      unfold occursAt at i1 ⊢
      have hdrop : e.text.drop x = c :: e.text.drop (x + 1) := by
        have hlt : x < e.text.length := by
          cases Nat.lt_or_ge x e.text.length with
          | inl h => exact h
          | inr h => rw [List.getElem?_eq_none h] at hx; simp at hx
        rw [List.drop_eq_getElem_cons hlt]
        congr 1
        rw [List.getElem?_eq_getElem hlt] at hx
        injection hx
      rw [hdrop]
      simp [prefixOf, eqExact, i1]

/-! ### sufficient conditions for `requiredLandmarkAlternativeMatch` -/

theorem lmAltMatch_isSome (text : List Nat) (c : Nat) (alt : LmAlt) (e' : Nat)
    (hb : alt.reqBefore = true → 0 < c ∧ optMemAt alt.leadWs text (c - 1) = true)
    (hc : lmCore text c alt = some e')
    (ha : alt.reqAfter = true → e' < text.length ∧ optMemAt alt.trailWs text e' = true) :
    (lmAltMatch text c alt).isSome = true := by
  unfold lmAltMatch
  simp only [hc]
  have h1 : (alt.reqBefore && (decide (c = 0) || !optMemAt alt.leadWs text (c - 1))) = false := by
    cases hr : alt.reqBefore with
    | false => simp
    | true => obtain ⟨x1, x2⟩ := hb hr; simp [x2]; omega
  have h2 : (alt.reqAfter && (decide (text.length ≤ e') || !optMemAt alt.trailWs text e')) = false := by
    cases hr : alt.reqAfter with
    | false => simp
    | true => obtain ⟨x1, x2⟩ := ha hr; simp [x2]; omega
  simp [h1, h2]

theorem lmCore_lit (text : List Nat) (c : Nat) (alt : LmAlt) (hne : alt.literal ≠ [])
    (ho : occursAt eqExact alt.literal text c = true) : lmCore text c alt = some (c + alt.literal.length) := by
  have hfit := occursAt_fits' eqExact alt.literal text c hne ho
  unfold lmCore
  have he : alt.literal.isEmpty = false := by simpa [List.isEmpty_iff] using hne
  have : ¬ text.length < c + alt.literal.length := by omega
  simp [he, ho, this]

theorem lmCore_set (text : List Nat) (c : Nat) (alt : LmAlt) (S : Nat → Bool) (hi j : Nat)
    (hl : alt.literal = []) (hs : alt.set = some S) (hmin : 0 < alt.minRepeat) (hmax : alt.maxRepeat = (hi : Int))
    (h1 : alt.minRepeat ≤ j) (h2 : j ≤ hi) (hrun : ∀ i, i < j → memAt S text (c + i) = true) :
    ∃ e', lmCore text c alt = some e' ∧ c + alt.minRepeat ≤ e' ∧
      (alt.reqAfter = true → c + j < text.length → optMemAt alt.trailWs text (c + j) = true →
        e' < text.length ∧ optMemAt alt.trailWs text e' = true) := by
  have hjn : c + j ≤ text.length := by
    have := memAt_lt S text (c + (j - 1)) (hrun (j - 1) (by omega))
    omega
  have hmr : (if alt.maxRepeat ≤ 0 then alt.minRepeat else alt.maxRepeat.toNat) = hi := by
    rw [hmax]
    have : ¬ ((hi : Int) ≤ 0) := by omega
    rw [if_neg this]; simp
  have hcov := runOf_covers S text c hi j h2 hrun (text.length + 1) c (Nat.le_refl _) (by omega) (by omega)
  unfold lmCore
  simp only [hl, List.isEmpty_nil, Bool.not_true, Bool.false_eq_true, if_false, hs, hmin, if_true, hmr]
  have hnot : ¬ (runOf S text c hi (text.length + 1) c - c < alt.minRepeat) := by omega
  rw [if_neg hnot]
  by_cases hgb : (alt.reqAfter && alt.trailWs.isSome) = true
  · rw [if_pos hgb]
    obtain ⟨g1, g2, g3, g4⟩ := giveBack_spec alt.trailWs text c alt.minRepeat (runOf S text c hi (text.length + 1) c) (by omega)
    refine ⟨_, rfl, g1, ?_⟩
    intro _ hz1 hz2
    have hz := g3 (c + j) (by omega) hcov hz1 hz2
    rcases g4 with heq | hw
    · have : giveBack alt.trailWs text c alt.minRepeat (runOf S text c hi (text.length + 1) c) = c + j := by omega
      rw [this]; exact ⟨hz1, hz2⟩
    · exact hw
  · rw [if_neg hgb]
    refine ⟨_, rfl, by omega, ?_⟩
    intro hreq _ hz2
    exfalso
    simp only [Bool.and_eq_true, hreq, true_and, Bool.not_eq_true, Option.isSome_eq_false_iff, Option.isNone_iff_eq_none] at hgb
    rw [hgb] at hz2
    simp [optMemAt] at hz2

/-! ### the parse of one alternative -/

theorem takeLoop_cases (items : List Pat) :
    (∃ lz lo P rest, items = .quant lz lo none (.chr P) :: rest ∧ takeLoop items = (some (P, lo), rest)) ∨
    takeLoop items = (none, items) := by
  cases items with
  | nil => right; rfl
  | cons p ps =>
    cases p with
    | quant lz lo hi body =>
      cases hi with
      | some h => right; rfl
      | none =>
        cases body with
        | chr P => left; exact ⟨lz, lo, P, ps, rfl, rfl⟩
        | _ => right; rfl
    | _ => right; rfl

/-- an optional loop at the head of the items consumes a run of its test -/
theorem takeLoop_reach (e : Env) (items : List Pat) (x y : Nat) (h : Reach e items x y) :
    ∃ c, x ≤ c ∧ Reach e (takeLoop items).2 c y ∧
      match (takeLoop items).1 with
      | some (P, lo) => lo ≤ c - x ∧ ∀ i, i < c - x → memAt (P.test e) e.text (x + i) = true
      | none => c = x := by
  rcases takeLoop_cases items with ⟨lz, lo, P, rest, rfl, ht⟩ | ht
  · rw [ht]
    obtain ⟨st, st', h1, h2, h3⟩ := h
    obtain ⟨j, j1, _, j3, j4⟩ := loop_run e lz lo none P st st' h2
    refine ⟨st'.pos, by omega, h3, ?_⟩
    simp only []
    rw [← h1, j3]
    exact ⟨by omega, fun i hi => j4 i (by omega)⟩
  · rw [ht]; exact ⟨x, Nat.le_refl _, h, rfl⟩

theorem litRun_nil_or (items : List Pat) : (litRun items).1 = [] → litRun items = ([], items) := by
  intro h
  cases items with
  | nil => rfl
  | cons p ps =>
    cases p with
    | chr P =>
      cases P with
      | one c ci => cases ci <;> simp [litRun] at h ⊢
      | _ => rfl
    | _ => rfl

theorem coreOf_cases (items : List Pat) (core : SymCore) (rest : List Pat) (h : coreOf items = some (core, rest)) :
    (∃ c w, litRun items = (c :: w, rest) ∧ core = .lit (c :: w)) ∨
    (∃ P, items = .chr P :: rest ∧ core = .set P 1 1) ∨
    (∃ lz lo hi P, items = .quant lz lo (some hi) (.chr P) :: rest ∧ 0 < lo ∧ lo ≤ hi ∧ core = .set P lo hi) := by
  unfold coreOf at h
  cases hl : litRun items with
  | mk w r =>
    rw [hl] at h
    cases w with
    | cons c w =>
      simp only [Option.some.injEq, Prod.mk.injEq] at h
      left; exact ⟨c, w, by rw [← h.2], h.1.symm⟩
    | nil =>
      simp only [] at h
      right
      cases items with
      | nil => simp at h
      | cons p ps =>
        cases p with
        | chr P =>
          simp only [Option.some.injEq, Prod.mk.injEq] at h
          left; exact ⟨P, by rw [h.2], h.1.symm⟩
        | quant lz lo hi body =>
          cases hi with
          | none => simp at h
          | some hi =>
            cases body with
            | chr P =>
              simp only [] at h
              by_cases hc : 0 < lo ∧ lo ≤ hi
              · rw [if_pos hc] at h
                simp only [Option.some.injEq, Prod.mk.injEq] at h
                right; exact ⟨lz, lo, hi, P, by rw [h.2], hc.1, hc.2, h.1.symm⟩
              · rw [if_neg hc] at h; simp at h
            | _ => simp at h
        | _ => simp at h

/-- **one landmark alternative**: every success of a pattern that parses as `[loop] core [loop]` has a run of
    the leading loop's test, then the alternative exactly as `requiredLandmarkAlternativeMatch` tests it, and
    ends no earlier than the core start plus the alternative's minimum width -/
theorem altOf_sound (e : Env) (p : Pat) (a : SymAlt) (h : altOf p = some a) (st st' : St)
    (hm : st' ∈ m e p false st) :
    ∃ c, st.pos ≤ c ∧ (∀ j, st.pos ≤ j → j < c → optMemAt (a.toLm e).leadWs e.text j = true) ∧
      (lmAltMatch e.text c (a.toLm e)).isSome = true ∧ c + (a.toLm e).minWidth ≤ st'.pos := by
  have hr := leaves_reach e 64 p st st' hm
  unfold altOf at h
  simp only [] at h
  obtain ⟨c, hc1, hc2, hc3⟩ := takeLoop_reach e (leaves 64 p) st.pos st'.pos hr
  generalize takeLoop (leaves 64 p) = r1 at h hc2 hc3
  cases hco : coreOf r1.2 with
  | none => rw [hco] at h; simp at h
  | some cr =>
    obtain ⟨core, items2⟩ := cr
    rw [hco] at h
    simp only [] at h
    by_cases hemp : (!(takeLoop items2).2.isEmpty) = true
    · rw [if_pos hemp] at h; simp at h
    · rw [if_neg hemp] at h
      have hnil : (takeLoop items2).2 = [] := by simpa [List.isEmpty_iff] using hemp
      -- the leading run
      have hlead : ∀ alt : SymAlt, alt.lead = r1.1 →
          (∀ j, st.pos ≤ j → j < c → optMemAt (alt.toLm e).leadWs e.text j = true) ∧
          ((alt.toLm e).reqBefore = true → 0 < c ∧ optMemAt (alt.toLm e).leadWs e.text (c - 1) = true) := by
        intro alt halt
        cases hl : r1.1 with
        | none =>
          rw [hl] at hc3; simp only [] at hc3
          refine ⟨fun j h1 h2 => by omega, ?_⟩
          simp [SymAlt.toLm, halt, hl]
        | some l =>
          obtain ⟨P, lo⟩ := l
          rw [hl] at hc3; simp only [] at hc3
          have hws : ∀ j, st.pos ≤ j → j < c → optMemAt (alt.toLm e).leadWs e.text j = true := by
            intro j h1 h2
            have := hc3.2 (j - st.pos) (by omega)
            rw [show st.pos + (j - st.pos) = j by omega] at this
            simpa [SymAlt.toLm, halt, hl, optMemAt] using this
          refine ⟨hws, ?_⟩
          intro hreq
          have hlo : 0 < lo := by simpa [SymAlt.toLm, halt, hl] using hreq
          exact ⟨by omega, hws (c - 1) (by omega) (by omega)⟩
      -- the trailing loop starts where the core ends
      have htrail : ∀ (z : Nat), Reach e items2 z st'.pos → ∀ alt : SymAlt, alt.trail = (takeLoop items2).1 →
          z ≤ st'.pos ∧ ((alt.toLm e).reqAfter = true → z < e.text.length ∧ optMemAt (alt.toLm e).trailWs e.text z = true) := by
        intro z hz alt halt
        obtain ⟨c2, t1, t2, t3⟩ := takeLoop_reach e items2 z st'.pos hz
        rw [hnil] at t2
        simp only [Reach] at t2
        refine ⟨by omega, ?_⟩
        cases hl : (takeLoop items2).1 with
        | none => simp [SymAlt.toLm, halt, hl]
        | some l =>
          obtain ⟨P, lo⟩ := l
          rw [hl] at t3; simp only [] at t3
          intro hreq
          have hlo : 0 < lo := by simpa [SymAlt.toLm, halt, hl] using hreq
          have := t3.2 0 (by omega)
          simp only [Nat.add_zero] at this
          exact ⟨memAt_lt _ _ _ this, by simpa [SymAlt.toLm, halt, hl, optMemAt] using this⟩
      have ha : a = ⟨r1.1, core, (takeLoop items2).1⟩ := by
        injection h with h; exact h.symm
      obtain ⟨l1, l2⟩ := hlead a (by rw [ha])
      rcases coreOf_cases r1.2 core items2 hco with ⟨c0, w, hlr, rfl⟩ | ⟨P, hitems, rfl⟩ | ⟨lz, lo, hi, P, hitems, hlo, hlohi, rfl⟩
      · -- literal core
        obtain ⟨o1, o2⟩ := litRun_reach e r1.2 c st'.pos hc2
        rw [hlr] at o1 o2
        simp only [] at o1 o2
        obtain ⟨t1, t2⟩ := htrail _ o2 a (by rw [ha])
        have hlit : (a.toLm e).literal = c0 :: w := by rw [ha]; rfl
        have hcore := lmCore_lit e.text c (a.toLm e) (by rw [hlit]; simp) (by rw [hlit]; exact o1)
        rw [hlit] at hcore
        refine ⟨c, hc1, l1, lmAltMatch_isSome e.text c _ _ l2 hcore t2, ?_⟩
        have : (a.toLm e).minWidth = (c0 :: w).length := by simp [LmAlt.minWidth, hlit]
        rw [this]; exact t1
      · -- one set character
        rw [hitems] at hc2
        obtain ⟨s1, s2, q1, q2, q3⟩ := hc2
        obtain ⟨k1, k2⟩ := chr_step e P s1 s2 q2
        obtain ⟨t1, t2⟩ := htrail _ q3 a (by rw [ha])
        obtain ⟨e', hcore, hge, hafter⟩ := lmCore_set e.text c (a.toLm e) (P.test e) 1 1
          (by rw [ha]; rfl) (by rw [ha]; rfl) (by rw [ha]; simp [SymAlt.toLm]) (by rw [ha]; rfl)
          (by rw [ha]; simp [SymAlt.toLm]) (Nat.le_refl _)
          (by intro i hi; have : i = 0 := by omega
              subst this; rw [← q1]; simpa using k1)
        have hpos : s2.pos = c + 1 := by omega
        refine ⟨c, hc1, l1, lmAltMatch_isSome e.text c _ e' l2 hcore ?_, ?_⟩
        · intro hreq
          obtain ⟨u1, u2⟩ := t2 hreq
          rw [hpos] at u1 u2
          exact hafter hreq u1 u2
        · have : (a.toLm e).minWidth = 1 := by rw [ha]; simp [LmAlt.minWidth, SymAlt.toLm]
          rw [this]; omega
      · -- bounded set loop
        rw [hitems] at hc2
        obtain ⟨s1, s2, q1, q2, q3⟩ := hc2
        obtain ⟨j, j1, j2, j3, j4⟩ := loop_run e lz lo (some hi) P s1 s2 q2
        obtain ⟨t1, t2⟩ := htrail _ q3 a (by rw [ha])
        obtain ⟨e', hcore, hge, hafter⟩ := lmCore_set e.text c (a.toLm e) (P.test e) hi j
          (by rw [ha]; rfl) (by rw [ha]; rfl) (by rw [ha]; simpa [SymAlt.toLm] using hlo) (by rw [ha]; rfl)
          (by rw [ha]; simpa [SymAlt.toLm] using j1) (j2 hi rfl)
          (by intro i hi'; rw [← q1]; exact j4 i hi')
        have hpos : s2.pos = c + j := by omega
        refine ⟨c, hc1, l1, lmAltMatch_isSome e.text c _ e' l2 hcore ?_, ?_⟩
        · intro hreq
          obtain ⟨u1, u2⟩ := t2 hreq
          rw [hpos] at u1 u2
          exact hafter hreq u1 u2
        · have : (a.toLm e).minWidth = lo := by rw [ha]; simp [LmAlt.minWidth, SymAlt.toLm]
          rw [this]; omega

/-! ### landmarks, the chain -/

theorem allAlts_mem : ∀ (bs : List Pat) (alts : List SymAlt), allAlts bs = some alts →
    ∀ b, b ∈ bs → ∃ a, a ∈ alts ∧ altOf b = some a := by
  intro bs
  induction bs with
  | nil => intro alts _ b hb; simp at hb
  | cons b0 bs ih =>
    intro alts h b hb
    unfold allAlts at h
    cases ha : altOf b0 with
    | none => rw [ha] at h; simp at h
    | some a0 =>
      cases hr : allAlts bs with
      | none => rw [ha, hr] at h; simp at h
      | some as =>
        rw [ha, hr] at h
        simp only [Option.some.injEq] at h
        subst h
        simp only [List.mem_cons] at hb
        rcases hb with rfl | hb
        · exact ⟨a0, by simp, ha⟩
        · obtain ⟨a, h1, h2⟩ := ih as hr b hb
          exact ⟨a, by simp [h1], h2⟩

/-- what a landmark child contributes: one of its alternatives, matched as the finder tests it -/
def AltAt (e : Env) (alts : List SymAlt) (x c y : Nat) : Prop :=
  ∃ a, a ∈ alts ∧ x ≤ c ∧ (∀ j, x ≤ j → j < c → optMemAt (a.toLm e).leadWs e.text j = true) ∧
    (lmAltMatch e.text c (a.toLm e)).isSome = true ∧ c + (a.toLm e).minWidth ≤ y

theorem landmarkOf_sound (e : Env) (p : Pat) (alts : List SymAlt) (h : landmarkOf p = some alts) (st st' : St)
    (hm : st' ∈ m e p false st) : ∃ c, AltAt e alts st.pos c st'.pos := by
  obtain ⟨z, hz1, hz2⟩ := unwrap_mem e p st st' hm
  obtain ⟨b, hb1, hb2⟩ := branches_mem e 64 (unwrap p) st z hz1
  obtain ⟨a, ha1, ha2⟩ := allAlts_mem _ alts h b hb1
  obtain ⟨c, c1, c2, c3, c4⟩ := altOf_sound e b a ha2 st z hb2
  exact ⟨c, a, ha1, c1, c2, c3, by omega⟩

def lmOf (e : Env) (lms : List (List SymAlt)) : List (List LmAlt) := lms.map fun alts => alts.map (SymAlt.toLm e)

theorem collect_chain (e : Env) : ∀ (cs : List Pat) (seen : Bool) (lms : List (List SymAlt)) (x y lb : Nat),
    collect cs seen = some lms → Reach e cs x y → lb ≤ x → LmChainAt e.text (lmOf e lms) lb := by
  intro cs
  induction cs with
  | nil =>
    intro seen lms x y lb h _ _
    simp [collect] at h; subst h; simp [lmOf, LmChainAt]
  | cons c cs ih =>
    intro seen lms x y lb h hr hlb
    obtain ⟨st, st', h1, h2, h3⟩ := hr
    have hfw := m_fwd e c false st st' h2
    simp only [Fwd, Bool.false_eq_true, if_false] at hfw
    unfold collect at h
    cases hl : landmarkOf c with
    | some alts =>
      rw [hl] at h
      simp only [Option.map_eq_some_iff] at h
      obtain ⟨lms', hc, rfl⟩ := h
      obtain ⟨c0, a, a1, a2, _, a4, a5⟩ := landmarkOf_sound e c alts hl st st' h2
      simp only [lmOf, List.map_cons, LmChainAt]
      exact ⟨c0, a.toLm e, by omega, List.mem_map_of_mem a1, a4, ih true lms' st'.pos y _ hc h3 a5⟩
    | none =>
      rw [hl] at h
      simp only [] at h
      split at h
      · exact ih seen lms st'.pos y lb h h3 (by omega)
      · simp at h

theorem leadWs_any (e : Env) (l : List SymAlt) (a : SymAlt) (ha : a ∈ l) (j : Nat)
    (h : optMemAt (a.toLm e).leadWs e.text j = true) :
    memAt (lmLeadingWs (l.map (SymAlt.toLm e))) e.text j = true := by
  unfold optMemAt at h
  cases hw : (a.toLm e).leadWs with
  | none => rw [hw] at h; simp at h
  | some mfn =>
    rw [hw] at h
    simp only [memAt] at h ⊢
    cases ht : e.text[j]? with
    | none => rw [ht] at h; simp at h
    | some ch =>
      rw [ht] at h
      simp only [lmLeadingWs, List.any_eq_true]
      exact ⟨a.toLm e, List.mem_map_of_mem ha, by rw [hw]; exact h⟩

theorem collect_first (e : Env) : ∀ (cs : List Pat) (l : List SymAlt) (ls : List (List SymAlt)) (x y : Nat),
    collect cs false = some (l :: ls) → Reach e cs x y →
    ∃ c a, a ∈ l ∧ x ≤ c ∧ (∀ j, x ≤ j → j < c → memAt (lmLeadingWs (l.map (SymAlt.toLm e))) e.text j = true) ∧
      (lmAltMatch e.text c (a.toLm e)).isSome = true ∧ LmChainAt e.text (lmOf e ls) (c + (a.toLm e).minWidth) := by
  intro cs
  induction cs with
  | nil => intro l ls x y h _; simp [collect] at h
  | cons c cs ih =>
    intro l ls x y h hr
    obtain ⟨st, st', h1, h2, h3⟩ := hr
    unfold collect at h
    cases hl : landmarkOf c with
    | some alts =>
      rw [hl] at h
      simp only [Option.map_eq_some_iff] at h
      obtain ⟨lms', hc, heq⟩ := h
      injection heq with e1 e2
      subst e1; subst e2
      obtain ⟨c0, a, a1, a2, a3, a4, a5⟩ := landmarkOf_sound e c alts hl st st' h2
      refine ⟨c0, a, a1, by omega, ?_, a4, collect_chain e cs true lms' st'.pos y _ hc h3 a5⟩
      intro j j1 j2
      exact leadWs_any e alts a a1 j (a3 j (by omega) j2)
    | none =>
      rw [hl] at h
      simp only [Bool.false_or] at h
      by_cases hg : isGap c = true
      · rw [if_pos hg] at h
        have := gap_pos e c hg st st' h2
        obtain ⟨c0, a, r1, r2, r3, r4, r5⟩ := ih l ls st'.pos y h h3
        exact ⟨c0, a, r1, by omega, fun j j1 j2 => r3 j (by omega) j2, r4, r5⟩
      · rw [if_neg hg] at h; simp at h

theorem unboundedLoop_some (p : Pat) (P : Pred) (lo : Nat) (h : unboundedLoop? p = some (P, lo)) :
    ∃ lz, unwrap p = .quant lz lo none (.chr P) := by
  unfold unboundedLoop? at h
  cases hu : unwrap p with
  | quant lz lo' hi body =>
    rw [hu] at h
    cases hi with
    | some _ => simp at h
    | none =>
      cases body with
      | chr Q => simp at h; obtain ⟨rfl, rfl⟩ := h; exact ⟨lz, rfl⟩
      | _ => simp at h
  | _ => rw [hu] at h; simp at h

/-- a pattern whose first child is an unbounded loop: every success is a run of the loop's test followed by
    a walk through the remaining children -/
theorem loop_then_rest (e : Env) (k : Nat) (p first : Pat) (rest : List Pat) (P : Pred) (lo : Nat)
    (hs : spine k (unwrap p) = first :: rest) (hl : unboundedLoop? first = some (P, lo))
    (st st' : St) (hm : st' ∈ m e p false st) :
    ∃ a, st.pos ≤ a ∧ (∀ j, st.pos ≤ j → j < a → memAt (P.test e) e.text j = true) ∧ Reach e rest a st'.pos := by
  obtain ⟨z, hz1, hz2⟩ := unwrap_mem e p st st' hm
  have hr := spine_reach e k (unwrap p) st z hz1
  rw [hs] at hr
  obtain ⟨s1, s1', q1, q2, q3⟩ := hr
  obtain ⟨lz, hu⟩ := unboundedLoop_some first P lo hl
  obtain ⟨z1, y1, y2⟩ := unwrap_mem e first s1 s1' q2
  rw [hu] at y1
  obtain ⟨j, _, _, j3, j4⟩ := loop_run e lz lo none P s1 z1 y1
  refine ⟨s1'.pos, by omega, ?_, by rw [← hz2]; exact q3⟩
  intro i i1 i2
  have := j4 (i - st.pos) (by omega)
  rw [q1, show st.pos + (i - st.pos) = i by omega] at this
  exact this

/-- **the required-landmark chain computed from the pattern is present at the start of every success** -/
theorem chainOf_at (e : Env) (k : Nat) (p : Pat) (sc : SymChain) (h : chainOf k p = some sc) :
    ∃ l ls, sc.landmarks = l :: ls ∧ ∀ st st', st' ∈ m e p false st →
      LandmarkAt (sc.loop.test e) (l.map (SymAlt.toLm e)) (lmOf e ls) e.text st.pos := by
  unfold chainOf at h
  cases hs : spine (k - 1) (unwrap p) with
  | nil => rw [hs] at h; simp at h
  | cons first rest =>
    rw [hs] at h
    simp only [] at h
    cases hl : unboundedLoop? first with
    | none => rw [hl] at h; simp at h
    | some Pl =>
      obtain ⟨P, lo⟩ := Pl
      cases hc : collect rest false with
      | none => rw [hl, hc] at h; simp at h
      | some lms =>
        cases lms with
        | nil => rw [hl, hc] at h; simp at h
        | cons l ls =>
          rw [hl, hc] at h
          simp only [Option.some.injEq] at h
          subst h
          refine ⟨l, ls, rfl, ?_⟩
          intro st y hy
          obtain ⟨a, a1, a2, a3⟩ := loop_then_rest e (k - 1) p first rest P lo hs hl st y hy
          obtain ⟨c, alt, c1, c2, c3, c4, c5⟩ := collect_first e rest l ls a y.pos hc a3
          exact ⟨a, c, alt.toLm e, a1, c2, a2, c3, List.mem_map_of_mem c1, c4, c5⟩

/-- a statement about the start position of every success holds at every successful attempt position -/
theorem at_attempt (e : Env) (p : Pat) (F : Nat → Prop) (hF : ∀ st st', st' ∈ m e p false st → F st.pos)
    (p0 : Nat) (hne : (attempt e p false p0).bind (fun st => lastCap st.caps 0) ≠ none) : F p0 := by
  cases hat : attempt e p false p0 with
  | none => simp [hat] at hne
  | some stA =>
    obtain ⟨y, hy, _, _⟩ := attempt_success e p false p0 stA hat
    exact hF _ y hy

/-- … and so does a statement about the start of every success of the body of a leading positive lookahead
    (`newFindOptimizations` publishes the facts of that body when the pattern itself yields nothing) -/
theorem look_attempt (e : Env) (p b : Pat) (kf : Bool) (h : SetFacts.leadLook p = (some b, kf)) (F : Nat → Prop)
    (hF : ∀ st st', st' ∈ m e b false st → F st.pos)
    (p0 : Nat) (hne : (attempt e p false p0).bind (fun st => lastCap st.caps 0) ≠ none) : F p0 := by
  apply at_attempt e p F _ p0 hne
  intro st st' hm
  obtain ⟨st0, h0, hne0⟩ := (RegexVerif.SetFacts.leadLook_ok e p st st' hm).1 b kf h
  cases hb0 : m e b false st0 with
  | nil => exact absurd hb0 hne0
  | cons y ys => rw [← h0]; exact hF st0 y (by rw [hb0]; simp)

theorem chainOf_fact (e : Env) (k : Nat) (p : Pat) (sc : SymChain) (h : chainOf k p = some sc) :
    ∃ l ls, sc.landmarks = l :: ls ∧
      LandmarkFact (sc.loop.test e) (l.map (SymAlt.toLm e)) (lmOf e ls) e.text
        (fun i => (attempt e p false i).bind (fun st => lastCap st.caps 0)) := by
  obtain ⟨l, ls, hl, hat⟩ := chainOf_at e k p sc h
  exact ⟨l, ls, hl, fun p0 _ hne => at_attempt e p _ hat p0 hne⟩

/-! ### dropping landmarks from the tail of a chain keeps the fact -/

theorem lmChainAt_mono (text : List Nat) : ∀ (rest : List (List LmAlt)) (lb lb' : Nat), lb' ≤ lb →
    LmChainAt text rest lb → LmChainAt text rest lb' := by
  intro rest
  cases rest with
  | nil => intro _ _ _ _; trivial
  | cons alts rest =>
    intro lb lb' hle h
    obtain ⟨c, alt, h1, h2, h3, h4⟩ := h
    exact ⟨c, alt, by omega, h2, h3, h4⟩

theorem lmChainAt_sublist (text : List Nat) {r' r : List (List LmAlt)} (hs : List.Sublist r' r) :
    ∀ lb, LmChainAt text r lb → LmChainAt text r' lb := by
  induction hs with
  | slnil => intro lb h; exact h
  | cons a _ ih =>
    intro lb h
    obtain ⟨c, alt, h1, _, _, h4⟩ := h
    exact ih lb (lmChainAt_mono text _ _ _ (by omega) h4)
  | cons_cons a _ ih =>
    intro lb h
    obtain ⟨c, alt, h1, h2, h3, h4⟩ := h
    exact ⟨c, alt, h1, h2, h3, ih _ h4⟩

theorem landmarkFact_sublist (S : Nat → Bool) (first : List LmAlt) {r' r : List (List LmAlt)} (hs : List.Sublist r' r)
    (text : List Nat) (attempt : Nat → Option (Nat × Nat)) (h : LandmarkFact S first r text attempt) :
    LandmarkFact S first r' text attempt := by
  intro p hp hne
  obtain ⟨a, c, alt, h1, h2, h3, h4, h5, h6, h7⟩ := h p hp hne
  exact ⟨a, c, alt, h1, h2, h3, h4, h5, h6, lmChainAt_sublist text hs _ h7⟩

/-! ### literal after the leading loop -/

theorem dropWhile_gap_reach (e : Env) : ∀ (items : List Pat) (x y : Nat), Reach e items x y →
    Reach e (items.dropWhile isGap) x y := by
  intro items
  induction items with
  | nil => intro x y h; simpa using h
  | cons p ps ih =>
    intro x y h
    by_cases hg : isGap p = true
    · simp only [List.dropWhile_cons, hg, if_true]
      obtain ⟨st, st', h1, h2, h3⟩ := h
      have := gap_pos e p hg st st' h2
      rw [this, h1] at h3
      exact ih _ _ h3
    · simp only [List.dropWhile_cons, hg, if_false]; exact h

theorem predRun_reach' (e : Env) : ∀ (items : List Pat) (x y : Nat), Reach e items x y →
    ∀ (i : Nat) (P' : Pred), (predRun items)[i]? = some P' → memAt (P'.test e) e.text (x + i) = true := by
  intro items
  induction items with
  | nil => intro x y _ i P' hi; simp [predRun] at hi
  | cons p ps ih =>
    intro x y h i P' hi
    cases p with
    | chr P =>
      obtain ⟨st, st', h1, h2, h3⟩ := h
      obtain ⟨s1, s2⟩ := chr_step e P st st' h2
      simp only [predRun] at hi
      cases i with
      | zero =>
        simp at hi; subst hi; simpa [h1] using s1
      | succ i =>
        have := ih _ _ h3 i P' (by simpa using hi)
        rw [s2, h1] at this
        simpa [Nat.add_assoc, Nat.add_comm 1] using this
    | quant lz lo ub body =>
      cases body with
      | chr Q =>
        obtain ⟨st, st', h1, h2, h3⟩ := h
        obtain ⟨j, j1, j2, j3, j4⟩ := loop_run e lz lo ub Q st st' h2
        simp only [predRun] at hi
        rw [List.getElem?_append] at hi
        simp only [List.length_replicate] at hi
        by_cases hlt : i < lo
        · rw [if_pos hlt, List.getElem?_replicate] at hi
          simp only [hlt, if_true, Option.some.injEq] at hi
          subst hi
          rw [← h1]; exact j4 i (by omega)
        · rw [if_neg hlt] at hi
          by_cases hex : ub = some lo
          · rw [if_pos hex] at hi
            have hj : j = lo := by have := j2 lo hex; omega
            have := ih _ _ h3 (i - lo) P' hi
            rw [j3, h1, hj] at this
            rw [show x + i = x + lo + (i - lo) by omega]; exact this
          · rw [if_neg hex] at hi; simp at hi
      | _ => simp [predRun] at hi
    | _ => simp [predRun] at hi

theorem predRun_reach (e : Env) (items : List Pat) (x y : Nat) (h : Reach e items x y)
    (i : Nat) (hi : i < (predRun items).length) :
    memAt (((predRun items)[i]'hi).test e) e.text (x + i) = true :=
  predRun_reach' e items x y h i _ (List.getElem?_eq_getElem hi)

theorem firstIter_reach (e : Env) (items : List Pat) (x y : Nat) (h : Reach e items x y) :
    ∃ y', Reach e (firstIter items) x y' := by
  have hsame : firstIter items = items → ∃ y', Reach e (firstIter items) x y' := fun heq => ⟨y, by rw [heq]; exact h⟩
  cases items with
  | nil => exact hsame rfl
  | cons it its =>
    cases it with
    | quant lz lo hi body =>
      have hgen : (∀ Q, body ≠ .chr Q) → ∃ y', Reach e (firstIter (.quant lz lo hi body :: its)) x y' := by
        intro hnc
        have hdef : firstIter (.quant lz lo hi body :: its) =
            if 0 < lo then (leaves 64 body).dropWhile isGap else .quant lz lo hi body :: its := by
          cases body with
          | chr Q => exact absurd rfl (hnc Q)
          | _ => rfl
        rw [hdef]
        by_cases hpos : 0 < lo
        · rw [if_pos hpos]
          obtain ⟨st, st', h1, h2, _⟩ := h
          obtain ⟨j, hc, hj, _⟩ := quant_chain e lz lo hi body false st st' h2
          cases hc with
          | zero => omega
          | @succ j' _ y1 _ hy _ =>
            exact ⟨y1.pos, dropWhile_gap_reach e _ _ _ (by rw [← h1]; exact leaves_reach e 64 body st y1 hy)⟩
        · rw [if_neg hpos]; exact ⟨y, h⟩
      cases body with
      | chr Q => exact hsame rfl
      | _ => exact hgen (by intro Q hq; cases hq)
    | _ => exact hsame rfl

/-- the literal after the loop is present from position `p0`: a run of the loop's test, then the character
    tests in order -/
def LalAt (e : Env) (sl : SymLal) (p0 : Nat) : Prop :=
  ∃ kk, p0 ≤ kk ∧ (∀ j, p0 ≤ j → j < kk → memAt (sl.loop.test e) e.text j = true) ∧
    ∀ i (hi : i < sl.lit.length), memAt ((sl.lit[i]'hi).test e) e.text (kk + i) = true

/-- **the literal-after-loop record computed from the pattern is present at the start of every success** -/
theorem lalOf_at (e : Env) (k : Nat) (p : Pat) (sl : SymLal) (h : lalOf k p = some sl) :
    ∀ st st', st' ∈ m e p false st → LalAt e sl st.pos := by
  unfold lalOf at h
  cases hs : spine (k - 1) (unwrap p) with
  | nil => rw [hs] at h; simp at h
  | cons first rest =>
    rw [hs] at h
    simp only [] at h
    cases hl : unboundedLoop? first with
    | none => rw [hl] at h; simp at h
    | some Pl =>
      obtain ⟨P, lo⟩ := Pl
      rw [hl] at h
      simp only [] at h
      intro st y hy
      obtain ⟨a, a1, a2, a3⟩ := loop_then_rest e (k - 1) p first rest P lo hs hl st y hy
      obtain ⟨y', hitems⟩ := firstIter_reach e _ _ _ (dropWhile_gap_reach e _ _ _ (flatMap_leaves_reach e 64 rest a y.pos a3))
      generalize firstIter ((rest.flatMap (leaves 64)).dropWhile isGap) = items at h hitems
      cases hpr : predRun items with
      | cons Q Qs =>
        rw [hpr] at h
        simp only [Option.some.injEq] at h
        subst h
        refine ⟨a, a1, a2, ?_⟩
        intro i hi
        have := predRun_reach e items a y' hitems i (by rw [hpr]; exact hi)
        simpa [hpr] using this
      | nil =>
        rw [hpr] at h
        simp only [] at h
        cases items with
        | nil => simp at h
        | cons it its =>
          cases it with
          | quant lz lo2 hi2 body =>
            cases body with
            | chr Q =>
              simp only [] at h
              by_cases hpos : 0 < lo2
              · rw [if_pos hpos] at h
                simp only [Option.some.injEq] at h
                subst h
                obtain ⟨s1, s1', q1, q2, _⟩ := hitems
                obtain ⟨j, j1, _, _, j4⟩ := loop_run e lz lo2 hi2 Q s1 s1' q2
                refine ⟨a, a1, a2, ?_⟩
                intro i hi
                have hi0 : i = 0 := by simpa using hi
                subst hi0
                have := j4 0 (by omega)
                simpa [q1] using this
              · rw [if_neg hpos] at h; simp at h
            | _ => simp at h
          | _ => simp at h

theorem lalOf_fact (e : Env) (k : Nat) (p : Pat) (sl : SymLal) (h : lalOf k p = some sl) :
    ∀ p0, p0 ≤ e.text.length → (attempt e p false p0).bind (fun st => lastCap st.caps 0) ≠ none → LalAt e sl p0 :=
  fun p0 _ hne => at_attempt e p _ (lalOf_at e k p sl h) p0 hne

/-- the prefix stands where a run of the loop's test from `p0` ends -/
def PrefAt (e : Env) (P : Pred) (w : List Nat) (p0 : Nat) : Prop :=
  ∃ kk, p0 ≤ kk ∧ (∀ j, p0 ≤ j → j < kk → memAt (P.test e) e.text j = true) ∧ ∃ t, e.text.drop kk = w ++ t

/-- **the prefix of what follows the loop** (as `tryFindPrefix` computes it) stands where the loop's run ends -/
theorem lalPrefixOf_at (e : Env) (p : Pat) (P : Pred) (w : List Nat) (h : lalPrefixOf p = some (P, w)) :
    w ≠ [] ∧ ∀ st st', st' ∈ m e p false st → PrefAt e P w st.pos := by
  unfold lalPrefixOf at h
  cases hu : unwrap p with
  | seq first R =>
    rw [hu] at h
    simp only [] at h
    cases hl : unboundedLoop? first with
    | none => rw [hl] at h; simp at h
    | some Pl =>
      obtain ⟨Q, lo⟩ := Pl
      rw [hl] at h
      simp only [] at h
      by_cases hw : (leadingPrefix (fun r => [r]) R).1.isEmpty = true
      · rw [if_pos hw] at h; simp at h
      · rw [if_neg hw] at h
        simp only [Option.some.injEq, Prod.mk.injEq] at h
        obtain ⟨rfl, rfl⟩ := h
        refine ⟨by simpa [List.isEmpty_iff] using hw, ?_⟩
        intro st y hy
        obtain ⟨z, hz1, hz2⟩ := unwrap_mem e p st y hy
        rw [hu] at hz1
        obtain ⟨mid, m1, m2⟩ := seq_mem e first R st z hz1
        obtain ⟨lz, hq⟩ := unboundedLoop_some first Q lo hl
        obtain ⟨z1, y1, y2⟩ := unwrap_mem e first st mid m1
        rw [hq] at y1
        obtain ⟨j, _, _, j3, j4⟩ := loop_run e lz lo none Q st z1 y1
        obtain ⟨t, ht, _⟩ := leadingPrefix_ok e (fun r => [r]) R mid z m2
        refine ⟨mid.pos, by omega, ?_, t, ?_⟩
        · intro i i1 i2
          have := j4 (i - st.pos) (by omega)
          rw [show st.pos + (i - st.pos) = i by omega] at this
          exact this
        · simpa [bytesFrom] using ht
  | _ => rw [hu] at h; simp at h

end RegexVerif.Lemmas.LoopFacts
