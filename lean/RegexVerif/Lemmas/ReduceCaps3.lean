/-
Joint J1, third part: `toR` establishes `capR`; `reduce`, `elim`, `finalOptimize`, `reduceRoot` keep `capN`;
`toGo` turns `capN` into `Writer.capsOk`.  See `Lemmas/ReduceCaps.lean`.
-/
import RegexVerif.Lemmas.ReduceCaps2

namespace RegexVerif.Reduce
open RegexVerif
open RegexVerif.RewriteDecisions (RNode CP LK)

section
variable (sl : Int → Bool)

/-! ### `toR` -/

theorem toRs_length : ∀ (l : List Node), (toRs l).length = l.length
  | [] => by simp [toRs]
  | x :: xs => by simp [toRs, toRs_length xs]

theorem oneCP_optsR (x : Node) (h : RewriteDecisions.isOneCP (cpOf x) = true) : optsR x = x.o := by
  unfold cpOf at h
  unfold optsR
  split at h
  · rename_i h1
    have : isSetFamily x.t = false := by
      simp only [isOneFamily, Bool.or_eq_true, beq_iff_eq] at h1
      rcases h1 with ((h1 | h1) | h1) | h1 <;> rw [h1] <;> rfl
    simp [this]
  · split at h
    · simp [RewriteDecisions.isOneCP] at h
    · split at h <;> simp [RewriteDecisions.isOneCP] at h

theorem capQ13_toNat {t : Nat} {m n : Int} (ht : t = 13 ∨ t = 33) (h : capQ sl t m n = true) (t' : Nat) (ht' : t' = 13 ∨ t' = 33) :
    capQ sl t' ((m.toNat : Nat) : Int) 0 = true := by
  have hc : (t == 13 || t == 33) = true := by rcases ht with h1 | h1 <;> simp [h1]
  have hc' : (t' == 13 || t' == 33) = true := by rcases ht' with h1 | h1 <;> simp [h1]
  simp only [capQ, hc, hc', if_true, Bool.and_eq_true, decide_eq_true_eq] at h ⊢
  have : ((m.toNat : Nat) : Int) = m := by omega
  rw [this]
  exact h

theorem capQ28_toNat {m n : Int} (h0 : sl 0 = true) (h : capQ sl 28 m n = true) :
    capQ sl 28 ((m.toNat : Nat) : Int) (-1) = true := by
  simp only [capQ, show ((28 : Nat) == 13 || (28 : Nat) == 33) = false from rfl, show ((28 : Nat) == 28) = true from rfl,
    if_true, Bool.false_eq_true, if_false, Bool.and_eq_true, decide_eq_true_eq] at h ⊢
  have hmax : (maxInt32 : Int) = 2147483647 := rfl
  refine ⟨⟨⟨⟨by omega, by omega⟩, by omega⟩, by omega⟩, ?_⟩
  simp only [show ((-1 : Int) == -1) = true from rfl, if_true]
  by_cases hm : m = -1
  · subst hm; exact h0
  · have : ((m.toNat : Nat) : Int) = m := by omega
    rw [this]
    have h2 := h.2
    split at h2
    · exact h2
    · simp only [Bool.and_eq_true, Bool.or_eq_true, beq_iff_eq] at h2
      rcases h2.1 with h3 | h3
      · exact absurd h3 hm
      · exact h3

theorem capQ28_zero (h0 : sl 0 = true) : capQ sl 28 0 (-1) = true := by
  simp [capQ, maxInt32, h0]

theorem capR_payload (h0 : sl 0 = true) {t o : Nat} {m n : Int} {rs : List RNode} (hq : capQ sl t m n = true)
    (hs : shapeOk t rs.length = true) (h24 : t ≠ 24) (h25 : t ≠ 25) (hr : CRs sl rs) :
    capR sl (payload t o m n rs) = true := by
  have hlt := shapeOk_lt _ _ hs
  match rs, hs, hr with
  | [], _, _ =>
    simp only [payload]
    split
    · rename_i h13
      rw [capR]
      exact capQ13_toNat sl (Or.inl (by simpa using h13)) hq 13 (Or.inl rfl)
    · split <;> rw [capR]
  | [a], hs, hr =>
    have ha := CRs_head sl hr
    simp only [payload]
    split
    · rw [capR]; exact ha
    split
    · rw [capR]; exact ha
    split
    · rw [capR]; exact ha
    split
    · rw [capR]; exact ha
    split
    · rw [capR]; exact ha
    split
    · rename_i h33
      rw [capR, capQ13_toNat sl (Or.inr (by simpa using h33)) hq 33 (Or.inr rfl), ha]
      simp [capR]
    · rename_i h26 h27 h30 h31 h32 h33
      have ht : t = 28 ∨ t = 29 := by
        have := one_types t hlt hs
        simp only [beq_iff_eq] at h26 h27 h30 h31 h32 h33
        omega
      rw [capR, ha, Bool.and_true]
      rcases ht with ht | ht
      · subst ht; exact capQ28_toNat sl h0 hq
      · subst ht
        have : m = 0 := by simpa [capQ] using hq
        subst this
        exact capQ28_zero sl h0
  | [a, b], hs, hr =>
    have ha := CRs_head sl hr
    have hb := CRs_head sl (CRs_tail sl hr)
    simp only [payload]
    split
    · rw [capR, ha, hb]; simp [capR]
    · rename_i h34
      have ht : t = 33 := by
        have := two_types t hlt hs
        simp only [beq_iff_eq] at h34
        omega
      rw [capR, capQ13_toNat sl (Or.inr ht) hq 33 (Or.inr rfl), ha, hb]
      rfl
  | a :: b :: c :: rest, _, hr =>
    have ha := CRs_head sl hr
    have hb := CRs_head sl (CRs_tail sl hr)
    have hc := CRs_head sl (CRs_tail sl (CRs_tail sl hr))
    simp only [payload]
    rw [capR, ha, hb, hc]
    rfl

mutual
theorem toR_caps (h0 : sl 0 = true) : ∀ (x : Node), okN x = true → capN sl x = true → capR sl (toR x) = true
  | .mk t o ch str set m n kids, hok, hc => by
    have ho := capN_o sl hc
    have hq := capN_q sl hc
    have hk := capN_kids sl hc
    have hsh := okN_shape hok
    have hkok := okN_kids hok
    simp only [Node.o, Node.t, Node.m, Node.n, Node.kids] at ho hq hk hsh hkok
    have hkids := toRs_caps h0 kids hkok hk
    rw [toR]
    simp only []
    split
    · exact capR_chr_of sl (fun hp => by rw [oneCP_optsR _ hp]; exact tagQ_of_lt sl ho)
    split
    · exact capR_cloop_of sl _ _ _ (fun hp => by rw [oneCP_optsR _ hp]; exact tagQ_of_lt sl ho)
    split
    · exact capR_multi_of sl (tagQ_of_lt sl ho) _
    split
    · rw [capR]
    split
    · rw [capR]
    split
    · exact capR_alt_of sl (tagQ_of_lt sl ho) hkids
    split
    · exact capR_cat_of sl (tagQ_of_lt sl ho) hkids
    · rename_i _ _ _ _ _ h24 h25
      have hlt := shapeOk_lt _ _ hsh
      have htag := tagQ_pack sl (min kids.length 3) t o m n (by omega) hlt hq
      refine capR_alt_of sl htag (CRs_single sl (capR_cat_of sl htag (CRs_single sl ?_)))
      exact capR_payload sl h0 hq (by rw [toRs_length]; exact hsh) (by simpa using h24) (by simpa using h25) hkids
theorem toRs_caps (h0 : sl 0 = true) : ∀ (l : List Node), okNs l = true → capNs sl l = true → CRs sl (toRs l)
  | [], _, _ => by rw [toRs]; exact CRs_nil sl
  | x :: xs, hok, hc => by
    rw [okNs_cons] at hok
    rw [capNs_cons] at hc
    simp only [Bool.and_eq_true] at hok hc
    rw [toRs]
    exact CRs_cons sl (toR_caps h0 x hok.1 hc.1) (toRs_caps h0 xs hok.2 hc.2)
end

theorem toRSpine_caps (h0 : sl 0 = true) : ∀ (f : Nat) (x : Node), okN x = true → capN sl x = true →
    capR sl (toRSpine f x) = true
  | 0, x, hok, hc => by rw [toRSpine]; exact toR_caps sl h0 x hok hc
  | f + 1, x, hok, hc => by
    rw [toRSpine]
    split
    · split
      · rename_i c hk
        exact capR_atomic_of sl (toRSpine_caps h0 f c (okN_head hok hk) (capN_head sl hc hk))
      · exact toR_caps sl h0 x hok hc
    · split
      · split
        · rename_i c cs hk
          have h1 := okN_kids hok
          have h2 := capN_kids sl hc
          rw [hk] at h1 h2
          rw [okNs_cons] at h1
          rw [capNs_cons] at h2
          simp only [Bool.and_eq_true] at h1 h2
          exact capR_cat_of sl (tagQ_of_lt sl (capN_o sl hc))
            (CRs_cons sl (toRSpine_caps h0 f c h1.1 h2.1) (toRs_caps sl h0 cs h1.2 h2.2))
        · exact toR_caps sl h0 x hok hc
      · exact toR_caps sl h0 x hok hc

end
end RegexVerif.Reduce
