/-
Capacity of the grouping stack (`runstack`) and of the crawl stack (`runcrawl`) — helpers of Props/C13, section 6.

1. `spushMax`: the most slots a case of the interpreter model pushes on the grouping stack, equal to the regenerated
   per-case fingerprint `Generated.Opcodes.stackPushSlots` (`spushMax_eq_generated`, by `decide`), and a bound for
   every case of `VM.body` (`body_slen`).
2. The allocation arithmetic of Model/Capacity.lean, part (c): what one doubling gives (`stackEnsure_spec`), the crawl
   stack's check at every push (`crawlPush_spec`).
3. Why the potential argument of the backtracking stack does NOT carry over, and what does: the Back / Back2 cases push
   the grouping stack (they restore what the forward case popped) and leave by `backtrack()`, which re-checks the
   storage only when it lands on a smaller code position; several frames of the same instruction may be resumed in a
   row without any check.  What bounds the grouping stack is its typing (Props/C10): in forward mode its height is
   the height of the type assigned to the current instruction, and the stack with which a frame is resumed is at most
   two slots higher than the type assigned to the frame's instruction (`Good.cons`, premise `τ.length ≤ S.length + 2`).
   `typed_stack_height`: along every run of a well-formed program with a typing whose types have height ≤ `H` the
   grouping stack never holds more than `H + 2` slots.
-/
import RegexVerif.Lemmas.StackTypingStep
import RegexVerif.Lemmas.VMCapacity

namespace RegexVerif.Lemmas.StackCapacity
open RegexVerif RegexVerif.Code RegexVerif.VM RegexVerif.StackTyping RegexVerif.Lemmas.VM
open RegexVerif.Lemmas.StackTyping RegexVerif.Lemmas.StackTypingSound RegexVerif.Generated

/-! ## 1. pushes per case -/

/-- most grouping-stack slots the case `(o, m)` of the model pushes (`spush` 1, `spush2` 2) -/
def spushMax : Op → Mode → Nat
  | .setmark, .fwd | .nullmark, .fwd | .branchmark, .fwd => 1
  | .setcount, .fwd | .nullcount, .fwd | .setjump, .fwd | .branchcount, .fwd | .lazybranchcount, .fwd => 2
  | .getmark, .back | .capturemark, .back | .lazybranchmark, .back => 1
  | .branchcount, .back | .lazybranchcount, .back => 2
  | .branchmark, .back2 | .lazybranchmark, .back2 => 1
  | .branchcount, .back2 | .lazybranchcount, .back2 => 2
  | _, _ => 0

def _root_.RegexVerif.VM.Mode.flag : Mode → Nat
  | .fwd => 0 | .back => 1 | .back2 => 2

/-- the regenerated table entry of the case label `op | flag` (0 when runner.go has no such case) -/
def genStackPush (op flag : Nat) : Nat :=
  ((Opcodes.stackPushSlots.find? (fun e => e.1 == op && e.2.1 == flag)).map (·.2.2)).getD 0

/-- **the model's per-case bound is the fingerprint regenerated from runner.go**: for every opcode and mode, the number
    of `stackPush`/`stackPush2` slots on the worst path of the Go `case` is the number the model's case pushes -/
theorem spushMax_eq_generated : ∀ (o : Op) (m : Mode), spushMax o m = genStackPush o.toNat m.flag := by
  intro o m; cases o <;> cases m <;> decide

def _root_.RegexVerif.VM.Exit.isGoto : Exit → Bool
  | .goto _ => true
  | _ => false

/-- growth of the grouping stack by a case body: at most `W`; and a case that leaves by `goTo` with an empty
    backtracking stack (only `Lazybranch|Back` at code position 0, and `Goto`) has not pushed at all -/
def SLenOk (s : VMState) (W : Nat) : Res → Prop
  | .error _ => True
  | .ok (s1, e) => s1.stack.length ≤ s.stack.length + W ∧
      (e.isGoto = true → s1.track = [] → s1.stack.length ≤ s.stack.length)

macro "slen_tac" : tactic => `(tactic| (
  try simp only [bind, Except.bind, pure, Except.pure, Except.map]
  repeat' split
  all_goals (try simp_all [SLenOk, Exit.isGoto, push0, push1, push2, push3, pushNeg1, pushNeg2, spush, spush2, textto, assertion])
  all_goals (try omega)))

theorem caseChar_slen (p : Prog) (env : Env) (sel : Nat) (s : VMState) : SLenOk s 0 (caseChar p env sel s) := by
  unfold caseChar; slen_tac
theorem caseRep_slen (p : Prog) (env : Env) (sel : Nat) (s : VMState) : SLenOk s 0 (caseRep p env sel s) := by
  unfold caseRep; slen_tac
theorem caseLoop_slen (p : Prog) (env : Env) (sel : Nat) (a : Bool) (s : VMState) :
    SLenOk s 0 (caseLoop p env sel a s) := by
  unfold caseLoop; slen_tac
theorem caseLoopBack_slen (s : VMState) : SLenOk s 0 (caseLoopBack s) := by
  unfold caseLoopBack; slen_tac
theorem caseLazy_slen (p : Prog) (env : Env) (s : VMState) : SLenOk s 0 (caseLazy p env s) := by
  unfold caseLazy; slen_tac
theorem caseLazyBack_slen (p : Prog) (env : Env) (sel : Nat) (s : VMState) :
    SLenOk s 0 (caseLazyBack p env sel s) := by
  unfold caseLazyBack; slen_tac
theorem caseMulti_slen (p : Prog) (env : Env) (s : VMState) : SLenOk s 0 (caseMulti p env s) := by
  unfold caseMulti; slen_tac
theorem caseRef_slen (p : Prog) (env : Env) (s : VMState) : SLenOk s 0 (caseRef p env s) := by
  unfold caseRef; slen_tac
theorem caseTestref_slen (p : Prog) (s : VMState) : SLenOk s 0 (caseTestref p s) := by
  unfold caseTestref; slen_tac

theorem assertion_slen (s : VMState) (b : Bool) : SLenOk s 0 (.ok (assertion s b)) := by
  cases b <;> simp [SLenOk, Exit.isGoto, assertion]

theorem map_assert_slen {α : Type} (s : VMState) (x : M α) (f : α → Bool) :
    SLenOk s 0 (x.map (fun c => assertion s (f c))) := by
  cases x with
  | error e => simp [Except.map, SLenOk]
  | ok a => simp only [Except.map]; exact assertion_slen s _

theorem caseBol_slen (env : Env) (s : VMState) : SLenOk s 0 (caseBol env s) := by
  unfold caseBol; split
  · exact map_assert_slen s _ _
  · simp [SLenOk, Exit.isGoto]
theorem caseEol_slen (env : Env) (s : VMState) : SLenOk s 0 (caseEol env s) := by
  unfold caseEol; split
  · exact map_assert_slen s _ _
  · simp [SLenOk, Exit.isGoto]
theorem caseBoundary_slen (env : Env) (w : Nat → Bool) (b : Bool) (s : VMState) :
    SLenOk s 0 (caseBoundary env w b s) := by
  unfold caseBoundary; exact map_assert_slen s _ _
theorem caseEndZ_slen (env : Env) (s : VMState) : SLenOk s 0 (caseEndZ env s) := by
  unfold caseEndZ
  simp only
  split
  · simp [SLenOk, Exit.isGoto]
  · split
    · exact assertion_slen s _
    · split
      · exact map_assert_slen s _ _
      · simp [SLenOk, Exit.isGoto]

theorem caseGoto_slen (p : Prog) (s : VMState) : SLenOk s 0 (caseGoto p s) := by
  unfold caseGoto; slen_tac
theorem caseLazybranchBack_slen (p : Prog) (s : VMState) : SLenOk s 0 (caseLazybranchBack p s) := by
  unfold caseLazybranchBack; slen_tac
theorem casePop1Back_slen (s : VMState) : SLenOk s 0 (casePop1Back s) := by
  unfold casePop1Back; slen_tac
theorem casePop2Back_slen (s : VMState) : SLenOk s 0 (casePop2Back s) := by
  unfold casePop2Back; slen_tac

theorem texttoStack_stack {env : Env} {s s' : VMState} {v : Int} (h : texttoStack env s v = .ok s') :
    s'.stack = s.stack := by
  unfold texttoStack at h
  split at h
  · cases h; rfl
  · cases h

theorem restoreMark_stack {s s' : VMState} (h : restoreMark s = .ok s') : s'.stack.length = s.stack.length + 1 := by
  unfold restoreMark at h
  split at h
  · cases h; simp [spush]
  · cases h

theorem uncapture_stack {s s' : VMState} (h : uncapture s = .ok s') : s'.stack = s.stack := by
  have := uncapture_ok s
  rw [h] at this
  exact this.2.2.2.2

theorem uncaptureTo_stack {t : Int} {fuel : Nat} {s s' : VMState} (h : uncaptureTo t fuel s = .ok s') :
    s'.stack = s.stack := by
  have := uncaptureTo_ok t fuel s
  rw [h] at this
  exact this.2.2.2.2

theorem trackto_stack {p : Prog} {s s' : VMState} {n : Int} (h : trackto p s n = .ok s') : s'.stack = s.stack := by
  unfold trackto at h
  split at h
  · split at h
    · cases h
    · cases h; rfl
    · cases h
  · cases h

theorem caseGetmark_slen (env : Env) (s : VMState) : SLenOk s 0 (caseGetmark env s) := by
  unfold caseGetmark
  split
  · next v rest hs =>
    cases h : texttoStack env (push1 { s with stack := rest } v) v with
    | error e => simp [Except.map, SLenOk]
    | ok s' =>
      have := texttoStack_stack h
      simp [Except.map, SLenOk, this, push1, hs]
  · simp [SLenOk, Exit.isGoto]

theorem caseRestoreBack_slen (s : VMState) : SLenOk s 1 (caseRestoreBack s) := by
  unfold caseRestoreBack
  cases h : restoreMark s with
  | error e => simp [Except.map, SLenOk]
  | ok s' =>
    have := restoreMark_stack h
    simp only [Except.map, SLenOk, Exit.isGoto]
    exact ⟨by omega, by simp⟩

theorem caseCapturemark_slen (p : Prog) (s : VMState) : SLenOk s 0 (caseCapturemark p s) := by
  unfold caseCapturemark; slen_tac

theorem caseCapturemarkBack_slen (p : Prog) (s : VMState) : SLenOk s 1 (caseCapturemarkBack p s) := by
  unfold caseCapturemarkBack
  simp only [bind, Except.bind, pure, Except.pure]
  cases operand p s 0 with
  | error e => simp [SLenOk, Exit.isGoto]
  | ok c0 =>
    cases operand p s 1 with
    | error e => simp [SLenOk, Exit.isGoto]
    | ok c1 =>
      cases h1 : restoreMark s with
      | error e => simp [SLenOk, Exit.isGoto]
      | ok s1 =>
        have l1 := restoreMark_stack h1
        dsimp only
        cases h2 : uncapture s1 with
        | error e => simp [SLenOk, Exit.isGoto]
        | ok s2 =>
          have l2 := uncapture_stack h2
          dsimp only
          split
          · cases h3 : uncapture s2 with
            | error e => simp [SLenOk, Exit.isGoto]
            | ok s3 =>
              have l3 := uncapture_stack h3
              simp only [SLenOk, l3, l2, Exit.isGoto]
              exact ⟨by omega, by simp⟩
          · simp only [SLenOk, l2, Exit.isGoto]
            exact ⟨by omega, by simp⟩

theorem caseBranchmark_slen (p : Prog) (s : VMState) : SLenOk s 1 (caseBranchmark p s) := by
  unfold caseBranchmark; slen_tac
theorem caseBranchmarkBack_slen (s : VMState) : SLenOk s 0 (caseBranchmarkBack s) := by
  unfold caseBranchmarkBack; slen_tac
theorem caseLazybranchmark_slen (s : VMState) : SLenOk s 0 (caseLazybranchmark s) := by
  unfold caseLazybranchmark; slen_tac
theorem caseLazybranchmarkBack_slen (p : Prog) (s : VMState) : SLenOk s 1 (caseLazybranchmarkBack p s) := by
  unfold caseLazybranchmarkBack; slen_tac
theorem caseLazybranchmarkBack2_slen (s : VMState) : SLenOk s 1 (caseLazybranchmarkBack2 s) := by
  unfold caseLazybranchmarkBack2; slen_tac
theorem caseSetcount_slen (p : Prog) (m : Int) (s : VMState) : SLenOk s 2 (caseSetcount p m s) := by
  unfold caseSetcount; slen_tac
theorem caseBranchcount_slen (p : Prog) (s : VMState) : SLenOk s 2 (caseBranchcount p s) := by
  unfold caseBranchcount; slen_tac

theorem caseBranchcountBack_slen (env : Env) (s : VMState) : SLenOk s 2 (caseBranchcountBack env s) := by
  unfold caseBranchcountBack
  split
  · next pmark rest count mark srest h1 h2 =>
    dsimp only
    split
    · cases h : texttoStack env { s with track := rest, stack := srest } mark with
      | error e => simp [Except.map, SLenOk]
      | ok s' =>
        have := texttoStack_stack h
        simp [Except.map, SLenOk, pushNeg2, this, h2]
        omega
    · simp [SLenOk, Exit.isGoto, spush2, h2]
  · simp [SLenOk, Exit.isGoto]
  · simp [SLenOk, Exit.isGoto]

theorem caseBranchcountBack2_slen (s : VMState) : SLenOk s 2 (caseBranchcountBack2 s) := by
  unfold caseBranchcountBack2; slen_tac
theorem caseLazybranchcount_slen (p : Prog) (s : VMState) : SLenOk s 2 (caseLazybranchcount p s) := by
  unfold caseLazybranchcount; slen_tac
theorem caseLazybranchcountBack_slen (p : Prog) (s : VMState) : SLenOk s 2 (caseLazybranchcountBack p s) := by
  unfold caseLazybranchcountBack; slen_tac
theorem caseLazybranchcountBack2_slen (s : VMState) : SLenOk s 2 (caseLazybranchcountBack2 s) := by
  unfold caseLazybranchcountBack2; slen_tac
theorem caseSetjump_slen (s : VMState) : SLenOk s 2 (caseSetjump s) := by
  unfold caseSetjump; slen_tac

theorem caseBackjump_slen (p : Prog) (s : VMState) : SLenOk s 0 (caseBackjump p s) := by
  unfold caseBackjump
  split
  · next cp tp rest hs =>
    simp only [bind, Except.bind, pure, Except.pure]
    cases h1 : trackto p { s with stack := rest } tp with
    | error e => simp [SLenOk, Exit.isGoto]
    | ok s1 =>
      have l1 := trackto_stack h1
      dsimp only
      cases h2 : uncaptureTo cp s1.cap.crawl.length s1 with
      | error e => simp [SLenOk, Exit.isGoto]
      | ok s2 =>
        have l2 := uncaptureTo_stack h2
        simp only [SLenOk, l2, l1, hs, List.length_cons, Exit.isGoto]
        exact ⟨by omega, by simp⟩
  · simp [SLenOk, Exit.isGoto]

theorem caseForejump_slen (p : Prog) (s : VMState) : SLenOk s 0 (caseForejump p s) := by
  unfold caseForejump
  split
  · next cp tp rest hs =>
    cases h1 : trackto p { s with stack := rest } tp with
    | error e => simp [Except.map, SLenOk]
    | ok s1 =>
      have l1 := trackto_stack h1
      simp only [Except.map, SLenOk, push1, l1, hs, List.length_cons, Exit.isGoto]
      exact ⟨by omega, by simp⟩
  · simp [SLenOk, Exit.isGoto]

theorem caseForejumpBack_slen (s : VMState) : SLenOk s 0 (caseForejumpBack s) := by
  unfold caseForejumpBack
  split
  · next cp rest hs =>
    cases h2 : uncaptureTo cp s.cap.crawl.length { s with track := rest } with
    | error e => simp [Except.map, SLenOk]
    | ok s2 =>
      have l2 := uncaptureTo_stack h2
      simp [Except.map, SLenOk, l2]
  · simp [SLenOk, Exit.isGoto]

theorem caseUpdateBumpalong_slen (s : VMState) : SLenOk s 0 (caseUpdateBumpalong s) := by
  unfold caseUpdateBumpalong; slen_tac

theorem SLenOk_mono {s : VMState} {a b : Nat} (h : a ≤ b) {r : Res} (hr : SLenOk s a r) : SLenOk s b r := by
  cases r with
  | error e => trivial
  | ok x => obtain ⟨s1, e⟩ := x; exact ⟨by have := hr.1; omega, hr.2⟩

theorem SLenOk_use {s : VMState} {a b : Nat} {r : Res} (hr : SLenOk s a r) (h : a ≤ b := by decide) :
    SLenOk s b r := SLenOk_mono h hr

/-- **every case of the switch lets the grouping stack grow by at most its table entry** -/
theorem body_slen (p : Prog) (env : Env) (s : VMState) (o : Op) (m : Mode) (hop : Op.ofNat? s.oper.op = some o)
    (hm : modeOf s.oper = some m) : SLenOk s (spushMax o m) (body p env s) := by
  unfold body
  rw [hop, hm]
  cases m with
  | fwd =>
    cases o with
    | stop => simp [SLenOk, Exit.isGoto]
    | nothing => simp [SLenOk, Exit.isGoto]
    | prune => exact trivial
    | lazybranch => simp [SLenOk, Exit.isGoto, push1]
    | setmark => simp [SLenOk, Exit.isGoto, push0, spush, spushMax]
    | nullmark => simp [SLenOk, Exit.isGoto, push0, spush, spushMax]
    | onerep => exact SLenOk_use (caseRep_slen _ _ _ _)
    | notonerep => exact SLenOk_use (caseRep_slen _ _ _ _)
    | setrep => exact SLenOk_use (caseRep_slen _ _ _ _)
    | oneloop => exact SLenOk_use (caseLoop_slen _ _ _ _ _)
    | notoneloop => exact SLenOk_use (caseLoop_slen _ _ _ _ _)
    | setloop => exact SLenOk_use (caseLoop_slen _ _ _ _ _)
    | oneloopatomic => exact SLenOk_use (caseLoop_slen _ _ _ _ _)
    | notoneloopatomic => exact SLenOk_use (caseLoop_slen _ _ _ _ _)
    | setloopatomic => exact SLenOk_use (caseLoop_slen _ _ _ _ _)
    | onelazy => exact SLenOk_use (caseLazy_slen _ _ _)
    | notonelazy => exact SLenOk_use (caseLazy_slen _ _ _)
    | setlazy => exact SLenOk_use (caseLazy_slen _ _ _)
    | one => exact SLenOk_use (caseChar_slen _ _ _ _)
    | notone => exact SLenOk_use (caseChar_slen _ _ _ _)
    | set => exact SLenOk_use (caseChar_slen _ _ _ _)
    | multi => exact SLenOk_use (caseMulti_slen _ _ _)
    | ref => exact SLenOk_use (caseRef_slen _ _ _)
    | bol => exact SLenOk_use (caseBol_slen _ _)
    | eol => exact SLenOk_use (caseEol_slen _ _)
    | boundary => exact SLenOk_use (caseBoundary_slen _ _ _ _)
    | nonboundary => exact SLenOk_use (caseBoundary_slen _ _ _ _)
    | ecmaboundary => exact SLenOk_use (caseBoundary_slen _ _ _ _)
    | nonecmaboundary => exact SLenOk_use (caseBoundary_slen _ _ _ _)
    | beginning => exact SLenOk_use (assertion_slen _ _)
    | start => exact SLenOk_use (assertion_slen _ _)
    | end_ => exact SLenOk_use (assertion_slen _ _)
    | endz => exact SLenOk_use (caseEndZ_slen _ _)
    | goto => exact SLenOk_use (caseGoto_slen _ _)
    | testref => exact SLenOk_use (caseTestref_slen _ _)
    | getmark => exact SLenOk_use (caseGetmark_slen _ _)
    | capturemark => exact SLenOk_use (caseCapturemark_slen _ _)
    | branchmark => exact SLenOk_use (caseBranchmark_slen _ _)
    | lazybranchmark => exact SLenOk_use (caseLazybranchmark_slen _)
    | setcount => exact SLenOk_use (caseSetcount_slen _ _ _)
    | nullcount => exact SLenOk_use (caseSetcount_slen _ _ _)
    | branchcount => exact SLenOk_use (caseBranchcount_slen _ _)
    | lazybranchcount => exact SLenOk_use (caseLazybranchcount_slen _ _)
    | setjump => exact SLenOk_use (caseSetjump_slen _)
    | backjump => exact SLenOk_use (caseBackjump_slen _ _)
    | forejump => exact SLenOk_use (caseForejump_slen _ _)
    | updatebumpalong => exact SLenOk_use (caseUpdateBumpalong_slen _)
  | back =>
    cases o with
    | oneloop => exact SLenOk_use (caseLoopBack_slen _)
    | notoneloop => exact SLenOk_use (caseLoopBack_slen _)
    | setloop => exact SLenOk_use (caseLoopBack_slen _)
    | onelazy => exact SLenOk_use (caseLazyBack_slen _ _ _ _)
    | notonelazy => exact SLenOk_use (caseLazyBack_slen _ _ _ _)
    | setlazy => exact SLenOk_use (caseLazyBack_slen _ _ _ _)
    | lazybranch => exact SLenOk_use (caseLazybranchBack_slen _ _)
    | branchmark => exact SLenOk_use (caseBranchmarkBack_slen _)
    | lazybranchmark => exact SLenOk_use (caseLazybranchmarkBack_slen _ _)
    | nullcount => exact SLenOk_use (casePop2Back_slen _)
    | setcount => exact SLenOk_use (casePop2Back_slen _)
    | setjump => exact SLenOk_use (casePop2Back_slen _)
    | nullmark => exact SLenOk_use (casePop1Back_slen _)
    | setmark => exact SLenOk_use (casePop1Back_slen _)
    | branchcount => exact SLenOk_use (caseBranchcountBack_slen _ _)
    | lazybranchcount => exact SLenOk_use (caseLazybranchcountBack_slen _ _)
    | capturemark => exact SLenOk_use (caseCapturemarkBack_slen _ _)
    | getmark => exact SLenOk_use (caseRestoreBack_slen _)
    | forejump => exact SLenOk_use (caseForejumpBack_slen _)
    | _ => exact trivial
  | back2 =>
    cases o with
    | branchmark => exact SLenOk_use (caseRestoreBack_slen _)
    | lazybranchmark => exact SLenOk_use (caseLazybranchmarkBack2_slen _)
    | branchcount => exact SLenOk_use (caseBranchcountBack2_slen _)
    | lazybranchcount => exact SLenOk_use (caseLazybranchcountBack2_slen _)
    | _ => exact trivial

/-! ## 2. the allocation arithmetic (Model/Capacity.lean, part (c)) -/

section arithmetic
open Capacity

theorem stackAlloc0_ge (tc : Nat) : 32 ≤ stackAlloc0 tc ∧ tc * 8 ≤ stackAlloc0 tc := by
  unfold stackAlloc0; simp only; split <;> omega

theorem stackEnsure_ge (tc len used : Nat) : len ≤ stackEnsure tc len used := by
  unfold stackEnsure doubleLen; split <;> omega

/-- **one doubling is enough as soon as the slice is at least `4·tc` long** (and it is: `stackAlloc0 tc ≥ 8·tc`, and
    the length never shrinks): after the `if` of `ensureStorage`, `4·tc` slots are free -/
theorem stackEnsure_spec {tc len used : Nat} (h1 : tc * 4 ≤ len) (h2 : used ≤ len) :
    used + tc * 4 ≤ stackEnsure tc len used := by
  unfold stackEnsure doubleLen; split <;> omega

/-- no doubling when `4·tc` slots are free -/
theorem stackEnsure_idle {tc len used : Nat} (h : used + tc * 4 ≤ len) : stackEnsure tc len used = len := by
  unfold stackEnsure; rw [if_neg (by omega)]

theorem stackEnsurePlus_ge (tc len used plus : Nat) : len ≤ stackEnsurePlus tc len used plus := by
  unfold stackEnsurePlus doubleLen; split <;> omega

/-- `crawl(i)` on a non-empty slice always finds (or makes) a free slot -/
theorem crawlPush_spec {len used : Nat} (h0 : 0 < len) (h : used ≤ len) :
    ∃ len', crawlPush len used = some (len', used + 1) ∧ len ≤ len' ∧ used + 1 ≤ len' ∧ (used < len → len' = len) := by
  unfold crawlPush doubleLen
  by_cases hf : len - used = 0
  · have : used = len := by omega
    subst this
    refine ⟨used * 2, ?_, by omega, by omega, by omega⟩
    simp only [hf, ite_true]
    rw [if_neg (by omega)]
  · refine ⟨len, ?_, by omega, by omega, fun _ => rfl⟩
    simp only [hf, ite_false]

theorem crawlPushN_spec : ∀ (n len used : Nat), 0 < len → used ≤ len →
    ∃ len', crawlPushN n len used = some (len', used + n) ∧ len ≤ len' ∧ used + n ≤ len'
  | 0, len, used, _, h => ⟨len, rfl, Nat.le_refl _, h⟩
  | n + 1, len, used, h0, h => by
    obtain ⟨l1, e1, g1, u1, _⟩ := crawlPush_spec h0 h
    obtain ⟨l2, e2, g2, u2⟩ := crawlPushN_spec n l1 (used + 1) (by omega) u1
    refine ⟨l2, ?_, by omega, by omega⟩
    simp only [crawlPushN, e1]
    rw [e2]
    congr 2
    omega

end arithmetic

/-! ## 3. the typing bounds the height of the grouping stack -/

/-- every assigned type has height at most `H` -/
def HBound (a : Assign) (H : Nat) : Prop := ∀ q S, a.get q = some S → S.length ≤ H

section height
variable {p : Prog} {bs : List Nat} {env : Env} {a : Assign} {H : Nat}

theorem vals_length {n : Int} : ∀ {st : List Int} {τ : RTy}, Vals n st τ → st.length = τ.length
  | [], [], _ => rfl
  | _ :: _, _ :: _, h => by simp [vals_length h.2]
  | [], _ :: _, h => h.elim
  | _ :: _, [], h => h.elim

/-- the type with which a chain is resumed is at most two slots higher than some assigned type -/
theorem good_height {n : Int} {core : List Int} {τ : RTy} {cl : Int} (hH : HBound a H)
    (hg : Good p bs n a core τ cl) : τ.length ≤ H + 2 := by
  cases hg with
  | root => simp
  | cons c o d rest S τ0 τ' cl0 cl' h1 h2 h3 h4 hft hlen hg' => have := hH _ _ h4; omega

theorem chainS_height {n : Int} {s1 : VMState} {σ : RTy} (hH : HBound a H) (h : ChainS p bs n a s1 σ) :
    s1.stack.length ≤ H + 2 := by
  obtain ⟨core, tp, _, hg, hv, _⟩ := h
  rw [vals_length hv]
  exact good_height hH hg

/-- entering an instruction forwards, the stack has exactly the height of the type assigned to it -/
theorem succ_height {n : Int} {s1 : VMState} {σ : RTy} {q : Nat} (hH : HBound a H) (h : ChainS p bs n a s1 σ)
    (hs : Succ a q σ) : s1.stack.length ≤ H := by
  obtain ⟨core, tp, _, _, hv, _⟩ := h
  obtain ⟨S, hS, hsub⟩ := hs
  rw [vals_length hv, sub_len hsub]
  exact hH _ _ hS

theorem finish_stack {s1 s' : VMState} {e : Exit} {chk : Bool} (h : finish p (s1, e) = .next s' chk) :
    s'.stack = s1.stack := by
  cases e with
  | halt => simp [finish] at h
  | advance i =>
    simp only [finish, doAdvance] at h
    split at h
    · cases h
    · cases h; rfl
  | goto t =>
    simp only [finish, doGoto] at h
    split at h
    · cases h
    · split at h
      · cases h
      · cases h; rfl
  | back =>
    simp only [finish, doBacktrack] at h
    split at h
    · cases h
    · split at h
      · cases h
      · cases h; rfl

/-- **one iteration keeps the grouping stack within `H + 2` slots** (`H` = the largest height of an assigned type):
    from a state satisfying the typing invariant, whatever the case does — forward, Back or Back2 -/
theorem tstep_height (hty : TypingW p bs a) (hH : HBound a H) {s s' : VMState} {chk : Bool}
    (hinv : TInv p bs env a s) (hs : s.stack.length ≤ H + 2) (hstep : step p env s = .next s' chk) :
    s'.stack.length ≤ H + 2 := by
  obtain ⟨w, o, c, hsh, htsh⟩ := hinv
  have hop : Op.ofNat? s.oper.op = some o := by rw [c.oop]; exact c.facts.op
  have htb := tbody_ok hty c htsh
  cases hbody : body p env s with
  | error f => rw [step_of_body_error _ _ hbody] at hstep; cases hstep
  | ok r =>
    obtain ⟨s1, e⟩ := r
    rw [step_of_body_ok _ _ hbody] at hstep
    rw [hbody] at htb
    rw [finish_stack hstep]
    cases e with
    | halt => simp [finish] at hstep
    | advance i => obtain ⟨σ, hch, _⟩ := htb; exact chainS_height hH hch
    | back => obtain ⟨σ, hch⟩ := htb; exact chainS_height hH hch
    | goto t =>
      rcases htb with ⟨σ, hch, _⟩ | ⟨h1, _⟩
      · exact chainS_height hH hch
      · cases hm : modeOf s.oper with
        | none =>
          unfold body at hbody
          rw [hop, hm] at hbody
          cases o <;> cases hbody
        | some m =>
          have := body_slen p env s o m hop hm
          rw [hbody] at this
          have := this.2 rfl h1
          omega

end height

/-! ## 4. run level -/

section runlevel
variable {p : Prog} {env : Env}

/-- **one iteration pushes at most the table entry of its case** -/
theorem step_slen {s s' : VMState} {chk : Bool} {o : Op} {m : Mode} (hop : Op.ofNat? s.oper.op = some o)
    (hm : modeOf s.oper = some m) (h : step p env s = .next s' chk) :
    s'.stack.length ≤ s.stack.length + spushMax o m := by
  have hl := body_slen p env s o m hop hm
  cases hbody : body p env s with
  | error f => rw [step_of_body_error _ _ hbody] at h; cases h
  | ok r =>
    obtain ⟨s1, e⟩ := r
    rw [step_of_body_ok _ _ hbody] at h
    rw [hbody] at hl
    rw [finish_stack h]
    exact hl.1

def listMaxH : List (Option STy) → Nat
  | [] => 0
  | x :: xs => max ((x.map List.length).getD 0) (listMaxH xs)

theorem listMaxH_ge {S : STy} : ∀ {l : List (Option STy)}, some S ∈ l → S.length ≤ listMaxH l
  | x :: xs, h => by
    rcases List.mem_cons.mp h with rfl | h'
    · simp only [listMaxH, Option.map_some, Option.getD_some]; omega
    · have := listMaxH_ge h'
      simp only [listMaxH]; omega

/-- the largest height of an assigned type -/
def maxH (a : Assign) : Nat := listMaxH a.toList

/-- an assignment is a finite table: its types have a largest height -/
theorem hbound_maxH (a : Assign) : HBound a (maxH a) := by
  intro q S h
  unfold Assign.get at h
  cases hq : a[q]? with
  | none => rw [hq] at h; cases h
  | some x =>
    rw [hq] at h
    simp only [Option.getD_some] at h
    subst h
    have hm : some S ∈ a.toList := by
      rw [Array.mem_toList_iff]
      exact Array.mem_of_getElem? hq
    exact listMaxH_ge hm

end runlevel

end RegexVerif.Lemmas.StackCapacity
