/-
Soundness of the compile-time facts (Model/Facts.lean) against the specification semantics `Spec.m`.
-/
import RegexVerif.Model.Facts
import RegexVerif.Lemmas.Spec

namespace RegexVerif.Facts
open RegexVerif.Spec

/-- position `b` is reached from `a` by moving in the direction (`rtl`: leftwards) -/
def Fwd (rtl : Bool) (a b : Nat) : Prop := if rtl then b ≤ a else a ≤ b

/-- number of characters between the start `a` and the end `b` of a match in direction `rtl` -/
def span (rtl : Bool) (a b : Nat) : Nat := if rtl then a - b else b - a

theorem Fwd.refl (rtl : Bool) (a : Nat) : Fwd rtl a a := by cases rtl <;> simp [Fwd]

theorem Fwd.trans {rtl : Bool} {a b c : Nat} (h1 : Fwd rtl a b) (h2 : Fwd rtl b c) : Fwd rtl a c := by
  cases rtl <;> simp [Fwd] at * <;> omega

theorem span_self (rtl : Bool) (a : Nat) : span rtl a a = 0 := by cases rtl <;> simp [span]

theorem span_add {rtl : Bool} {a b c : Nat} (h1 : Fwd rtl a b) (h2 : Fwd rtl b c) :
    span rtl a c = span rtl a b + span rtl b c := by
  cases rtl <;> simp [Fwd, span] at * <;> omega

/-! ### single steps -/

theorem stepChar_spec (e : Env) (rtl : Bool) (pos r pos' : Nat) (h : stepChar e rtl pos = some (r, pos')) :
    Fwd rtl pos pos' ∧ span rtl pos pos' = 1 ∧ (rtl = false → e.text[pos]? = some r ∧ pos' = pos + 1) := by
  unfold stepChar at h
  cases rtl
  · simp only [Bool.false_eq_true, if_false] at h
    cases hget : e.text[pos]? with
    | none => simp [hget] at h
    | some x =>
      simp [hget] at h
      obtain ⟨rfl, rfl⟩ := h
      simp [Fwd, span]
  · simp only [if_true] at h
    split at h
    · simp at h
    · cases hget : e.text[pos - 1]? with
      | none => simp [hget] at h
      | some x =>
        simp [hget] at h
        obtain ⟨rfl, rfl⟩ := h
        simp [Fwd, span]; omega

theorem refMatch_fwd (e : Env) (ci rtl : Bool) (s len pos pos' : Nat)
    (h : refMatch e ci rtl s len pos = some pos') : Fwd rtl pos pos' := by
  unfold refMatch at h
  cases rtl
  · simp only [Bool.false_eq_true, if_false] at h
    split at h
    · simp at h; subst h; simp [Fwd]
    · simp at h
  · simp only [if_true] at h
    split at h
    · simp at h
    · split at h
      · simp at h; subst h; simp [Fwd]
      · simp at h

/-! ### positions only move in the direction -/

theorem m_fwd (e : Env) (p : Pat) :
    ∀ (rtl : Bool) (st : St), ∀ st' ∈ m e p rtl st, Fwd rtl st.pos st'.pos := by
  induction p with
  | empty => intro rtl st st' hm; simp [m] at hm; subst hm; exact Fwd.refl _ _
  | nothing => intro rtl st st' hm; simp [m] at hm
  | chr p =>
    intro rtl st st' hm
    simp only [m] at hm
    split at hm
    · rename_i r pos' hstep
      split at hm
      · simp at hm; subst hm
        exact (stepChar_spec e rtl st.pos r pos' hstep).1
      · simp at hm
    · simp at hm
  | anchor a =>
    intro rtl st st' hm
    simp only [m] at hm
    split at hm
    · simp at hm; subst hm; exact Fwd.refl _ _
    · simp at hm
  | seq a b iha ihb =>
    intro rtl st st' hm
    simp only [m] at hm
    split at hm
    · rw [List.mem_flatMap] at hm
      obtain ⟨y, hy, hxy⟩ := hm
      exact (ihb rtl st y hy).trans (iha rtl y st' hxy)
    · rw [List.mem_flatMap] at hm
      obtain ⟨y, hy, hxy⟩ := hm
      exact (iha rtl st y hy).trans (ihb rtl y st' hxy)
  | alt a b iha ihb =>
    intro rtl st st' hm
    simp only [m, List.mem_append] at hm
    rcases hm with hm | hm
    · exact iha rtl st st' hm
    · exact ihb rtl st st' hm
  | quant lzy lo hi body ih =>
    intro rtl st st' hm
    simp only [m] at hm
    exact iter_preserves (fun s => Fwd rtl st.pos s.pos) (m e body rtl)
      (fun s hs s' hs' => hs.trans (ih rtl s s' hs')) lzy lo hi _ 0 st (Fwd.refl _ _) st' hm
  | cap g body ih =>
    intro rtl st st' hm
    simp only [m, List.mem_map] at hm
    obtain ⟨y, hy, rfl⟩ := hm
    exact ih rtl st y hy
  | look behind neg body ih =>
    intro rtl st st' hm
    simp only [m] at hm
    split at hm
    · split at hm
      · simp at hm; subst hm; exact Fwd.refl _ _
      · simp at hm
    · split at hm
      · simp at hm
      · simp at hm; subst hm; exact Fwd.refl _ _
  | atomic body ih =>
    intro rtl st st' hm
    simp only [m] at hm
    exact ih rtl st st' (List.mem_of_mem_take hm)
  | ref g ci =>
    intro rtl st st' hm
    simp only [m] at hm
    split at hm
    · simp at hm
    · rename_i s len hl
      split at hm
      · rename_i pos' hr
        simp at hm; subst hm
        exact refMatch_fwd e ci rtl s len st.pos pos' hr
      · simp at hm
  | refCond g yes no ihy ihn =>
    intro rtl st st' hm
    simp only [m] at hm
    split at hm
    · exact ihy rtl st st' hm
    · exact ihn rtl st st' hm
  | exprCond c yes no ihc ihy ihn =>
    intro rtl st st' hm
    simp only [m] at hm
    split at hm
    · rename_i y ys heq
      exact ihy rtl { pos := st.pos, caps := y.caps } st' hm
    · exact ihn rtl st st' hm

/-! ### a success of `iter` is a chain of body iterations -/

/-- `Chain f j s s'`: `s'` is reached from `s` by `j` successive successes of `f` -/
inductive Chain (f : St → List St) : Nat → St → St → Prop where
  | zero (s : St) : Chain f 0 s s
  | succ {j : Nat} {s y s' : St} : y ∈ f s → Chain f j y s' → Chain f (j + 1) s s'

/-- every success of `iter` from iteration count `cnt` is a chain of `j` body iterations with
    `lo ≤ cnt + j`, and `cnt + j ≤ h` when the loop has the upper bound `h` -/
theorem iter_chain (f : St → List St) (lzy : Bool) (lo : Nat) (hi : Option Nat) :
    ∀ (fuel cnt : Nat) (st : St), ∀ st' ∈ iter f lzy lo hi fuel cnt st,
      ∃ j, Chain f j st st' ∧ lo ≤ cnt + j ∧ ∀ h, hi = some h → cnt ≤ h → cnt + j ≤ h := by
  intro fuel
  induction fuel with
  | zero =>
    intro cnt st st' hmem
    simp only [iter] at hmem
    split at hmem
    · simp at hmem; subst hmem
      exact ⟨0, Chain.zero _, by omega, fun h _ hc => by omega⟩
    · simp at hmem
  | succ fuel ih =>
    intro cnt st st' hmem
    simp only [iter] at hmem
    have hstop : ∀ x ∈ (if lo ≤ cnt then [st] else []),
        ∃ j, Chain f j st x ∧ lo ≤ cnt + j ∧ ∀ h, hi = some h → cnt ≤ h → cnt + j ≤ h := by
      intro x hx; split at hx
      · simp at hx; subst hx
        exact ⟨0, Chain.zero _, by omega, fun h _ hc => by omega⟩
      · simp at hx
    have hmore : ∀ x ∈ (if canGo hi cnt = true then
        (f st).flatMap (fun st' => if (st'.pos == st.pos && decide (lo ≤ cnt + 1)) = true then [st']
          else iter f lzy lo hi fuel (cnt + 1) st') else []),
        ∃ j, Chain f j st x ∧ lo ≤ cnt + j ∧ ∀ h, hi = some h → cnt ≤ h → cnt + j ≤ h := by
      intro x hx
      split at hx
      · rename_i hgo
        have hlt : ∀ h, hi = some h → cnt < h := by
          intro h hh; subst hh; simpa [canGo] using hgo
        rw [List.mem_flatMap] at hx
        obtain ⟨y, hy, hxy⟩ := hx
        split at hxy
        · rename_i hc
          simp at hxy; subst hxy
          simp at hc
          exact ⟨1, Chain.succ hy (Chain.zero _), by omega, fun h hh _ => by have := hlt h hh; omega⟩
        · obtain ⟨j, hch, hlo, hhi⟩ := ih (cnt + 1) y x hxy
          exact ⟨j + 1, Chain.succ hy hch, by omega,
            fun h hh _ => by have := hlt h hh; have := hhi h hh (by omega); omega⟩
      · simp at hx
    split at hmem
    · rw [List.mem_append] at hmem
      rcases hmem with h | h
      · exact hstop _ h
      · exact hmore _ h
    · rw [List.mem_append] at hmem
      rcases hmem with h | h
      · exact hmore _ h
      · exact hstop _ h

/-- a chain of iterations each consuming at least `k` consumes at least `j * k` -/
theorem chain_min (rtl : Bool) (f : St → List St) (k : Nat)
    (hf : ∀ s, ∀ y ∈ f s, Fwd rtl s.pos y.pos ∧ k ≤ span rtl s.pos y.pos) :
    ∀ {j : Nat} {s s' : St}, Chain f j s s' → Fwd rtl s.pos s'.pos ∧ j * k ≤ span rtl s.pos s'.pos := by
  intro j s s' hc
  induction hc with
  | zero s => exact ⟨Fwd.refl _ _, by simp⟩
  | succ hy _ ih =>
    obtain ⟨h1, h2⟩ := hf _ _ hy
    obtain ⟨h3, h4⟩ := ih
    refine ⟨h1.trans h3, ?_⟩
    rw [span_add h1 h3, Nat.succ_mul]; omega

/-- a chain of iterations each consuming at most `c` consumes at most `j * c` -/
theorem chain_max (rtl : Bool) (f : St → List St) (c : Nat)
    (hf : ∀ s, ∀ y ∈ f s, Fwd rtl s.pos y.pos ∧ span rtl s.pos y.pos ≤ c) :
    ∀ {j : Nat} {s s' : St}, Chain f j s s' → Fwd rtl s.pos s'.pos ∧ span rtl s.pos s'.pos ≤ j * c := by
  intro j s s' hc
  induction hc with
  | zero s => exact ⟨Fwd.refl _ _, by simp [span_self]⟩
  | succ hy _ ih =>
    obtain ⟨h1, h2⟩ := hf _ _ hy
    obtain ⟨h3, h4⟩ := ih
    refine ⟨h1.trans h3, ?_⟩
    rw [span_add h1 h3, Nat.succ_mul]; omega

/-! ### the saturating arithmetic never exceeds the exact value -/

theorem addMinLength_le (x y : Nat) : addMinLength x y ≤ x + y := by
  unfold addMinLength maxMinLength; split <;> omega

theorem multiplyMinLength_le (x y : Nat) : multiplyMinLength x y ≤ x * y := by
  unfold multiplyMinLength
  split
  · omega
  · rename_i h0
    split
    · rename_i h
      have hy : 0 < y := by omega
      have hx : 0 < x := by omega
      rcases h with h | h | h
      · calc maxMinLength ≤ x := h
          _ = x * 1 := by omega
          _ ≤ x * y := Nat.mul_le_mul_left x hy
      · calc maxMinLength ≤ y := h
          _ = 1 * y := by omega
          _ ≤ x * y := Nat.mul_le_mul_right y hx
      · have := (Nat.div_lt_iff_lt_mul hy).mp h
        omega
    · omega

theorem addMaxLength_eq {x y v : Nat} (h : addMaxLength x y = some v) : v = x + y := by
  unfold addMaxLength at h; split at h <;> simp at h; omega

theorem multiplyMaxLength_eq {x y v : Nat} (h : multiplyMaxLength x y = some v) : v = x * y := by
  unfold multiplyMaxLength at h
  split at h
  · rename_i h0; simp at h; subst h
    rcases h0 with h0 | h0 <;> subst h0 <;> simp
  · split at h <;> simp at h; omega

/-- a success of a quantifier is a chain of `j` body iterations, `lo ≤ j` (and `j ≤ hi`) -/
theorem quant_chain (e : Env) (lzy : Bool) (lo : Nat) (hi : Option Nat) (body : Pat) (rtl : Bool) (st st' : St)
    (hm : st' ∈ m e (.quant lzy lo hi body) rtl st) :
    ∃ j, Chain (m e body rtl) j st st' ∧ lo ≤ j ∧ ∀ h, hi = some h → j ≤ h := by
  simp only [m] at hm
  obtain ⟨j, hc, hlo, hhi⟩ := iter_chain (m e body rtl) lzy lo hi _ 0 st st' hm
  exact ⟨j, hc, by omega, fun h hh => by have := hhi h hh (Nat.zero_le _); omega⟩

/-! ### minimum length -/

theorem minLen_span (e : Env) (p : Pat) :
    ∀ (rtl : Bool) (st : St), ∀ st' ∈ m e p rtl st, minLen p ≤ span rtl st.pos st'.pos := by
  induction p with
  | empty => intro rtl st st' _; simp [minLen]
  | nothing => intro rtl st st' _; simp [minLen]
  | anchor a => intro rtl st st' _; simp [minLen]
  | look behind neg body ih => intro rtl st st' _; simp [minLen]
  | ref g ci => intro rtl st st' _; simp [minLen]
  | chr p =>
    intro rtl st st' hm
    simp only [m] at hm
    split at hm
    · rename_i r pos' hstep
      split at hm
      · simp at hm; subst hm
        simp [minLen, (stepChar_spec e rtl st.pos r pos' hstep).2.1]
      · simp at hm
    · simp at hm
  | seq a b iha ihb =>
    intro rtl st st' hm
    have hle := addMinLength_le (minLen a) (minLen b)
    simp only [m] at hm
    simp only [minLen]
    split at hm
    · rw [List.mem_flatMap] at hm
      obtain ⟨y, hy, hxy⟩ := hm
      have h1 := ihb _ st y hy
      have h2 := iha _ y st' hxy
      rw [span_add (m_fwd e b _ st y hy) (m_fwd e a _ y st' hxy)]; omega
    · rw [List.mem_flatMap] at hm
      obtain ⟨y, hy, hxy⟩ := hm
      have h1 := iha _ st y hy
      have h2 := ihb _ y st' hxy
      rw [span_add (m_fwd e a _ st y hy) (m_fwd e b _ y st' hxy)]; omega
  | alt a b iha ihb =>
    intro rtl st st' hm
    simp only [m, List.mem_append] at hm
    simp only [minLen]
    rcases hm with hm | hm
    · have := iha rtl st st' hm; omega
    · have := ihb rtl st st' hm; omega
  | quant lzy lo hi body ih =>
    intro rtl st st' hm
    obtain ⟨j, hc, hlo, _⟩ := quant_chain e lzy lo hi body rtl st st' hm
    have hch := (chain_min rtl (m e body rtl) (minLen body)
      (fun s y hy => ⟨m_fwd e body rtl s y hy, ih rtl s y hy⟩) hc).2
    have hmul : lo * minLen body ≤ j * minLen body := Nat.mul_le_mul_right _ hlo
    simp only [minLen]
    split
    · rename_i hb
      have h1 : minLen body = 1 := by cases body <;> simp [isChr] at hb <;> simp [minLen]
      rw [h1] at hmul hch; omega
    · have := multiplyMinLength_le lo (minLen body); omega
  | cap g body ih =>
    intro rtl st st' hm
    simp only [m, List.mem_map] at hm
    obtain ⟨y, hy, rfl⟩ := hm
    exact ih rtl st y hy
  | atomic body ih =>
    intro rtl st st' hm
    simp only [m] at hm
    exact ih rtl st st' (List.mem_of_mem_take hm)
  | refCond g yes no ihy ihn =>
    intro rtl st st' hm
    simp only [m] at hm
    simp only [minLen]
    split at hm
    · have := ihy rtl st st' hm; omega
    · have := ihn rtl st st' hm; omega
  | exprCond c yes no ihc ihy ihn =>
    intro rtl st st' hm
    simp only [m] at hm
    simp only [minLen]
    split at hm
    · rename_i y ys heq
      have := ihy rtl { pos := st.pos, caps := y.caps } st' hm
      simp only at this; omega
    · have := ihn rtl st st' hm; omega

/-! ### maximum length -/

theorem maxLen_span (e : Env) (p : Pat) :
    ∀ (rtl : Bool) (st : St), ∀ st' ∈ m e p rtl st, ∀ k, maxLen p = some k → span rtl st.pos st'.pos ≤ k := by
  induction p with
  | empty => intro rtl st st' hm k _; simp [m] at hm; subst hm; simp [span_self]
  | nothing => intro rtl st st' hm; simp [m] at hm
  | anchor a =>
    intro rtl st st' hm k _
    simp only [m] at hm
    split at hm
    · simp at hm; subst hm; simp [span_self]
    · simp at hm
  | look behind neg body ih =>
    intro rtl st st' hm k _
    simp only [m] at hm
    split at hm
    · split at hm
      · simp at hm; subst hm; simp [span_self]
      · simp at hm
    · split at hm
      · simp at hm
      · simp at hm; subst hm; simp [span_self]
  | ref g ci => intro rtl st st' _ k hk; simp [maxLen] at hk
  | chr p =>
    intro rtl st st' hm k hk
    simp only [m] at hm
    simp [maxLen] at hk; subst hk
    split at hm
    · rename_i r pos' hstep
      split at hm
      · simp at hm; subst hm
        simp [(stepChar_spec e rtl st.pos r pos' hstep).2.1]
      · simp at hm
    · simp at hm
  | seq a b iha ihb =>
    intro rtl st st' hm k hk
    simp only [maxLen] at hk
    cases ha : maxLen a with
    | none => simp [ha] at hk
    | some x =>
      cases hb : maxLen b with
      | none => simp [ha, hb] at hk
      | some y' =>
        simp only [ha, hb] at hk
        have hk' := addMaxLength_eq hk
        simp only [m] at hm
        split at hm
        · rw [List.mem_flatMap] at hm
          obtain ⟨y, hy, hxy⟩ := hm
          have h1 := ihb _ st y hy _ hb
          have h2 := iha _ y st' hxy _ ha
          rw [span_add (m_fwd e b _ st y hy) (m_fwd e a _ y st' hxy)]; omega
        · rw [List.mem_flatMap] at hm
          obtain ⟨y, hy, hxy⟩ := hm
          have h1 := iha _ st y hy _ ha
          have h2 := ihb _ y st' hxy _ hb
          rw [span_add (m_fwd e a _ st y hy) (m_fwd e b _ y st' hxy)]; omega
  | alt a b iha ihb =>
    intro rtl st st' hm k hk
    simp only [maxLen] at hk
    cases ha : maxLen a with
    | none => simp [ha] at hk
    | some x =>
      cases hb : maxLen b with
      | none => simp [ha, hb] at hk
      | some y' =>
        simp [ha, hb] at hk
        simp only [m, List.mem_append] at hm
        rcases hm with hm | hm
        · have := iha rtl st st' hm _ ha; omega
        · have := ihb rtl st st' hm _ hb; omega
  | quant lzy lo hi body ih =>
    intro rtl st st' hm k hk
    obtain ⟨j, hc, _, hhi⟩ := quant_chain e lzy lo hi body rtl st st' hm
    simp only [maxLen] at hk
    cases hi with
    | none => simp at hk
    | some h =>
      have hj := hhi h rfl
      simp only at hk
      split at hk
      · rename_i hb
        simp at hk; subst hk
        have h1 : maxLen body = some 1 := by cases body <;> simp [isChr] at hb <;> simp [maxLen]
        have hch := (chain_max rtl (m e body rtl) 1
          (fun s y hy => ⟨m_fwd e body rtl s y hy, ih rtl s y hy 1 h1⟩) hc).2
        omega
      · cases hb : maxLen body with
        | none => simp [hb] at hk
        | some c =>
          simp only [hb] at hk
          have hk' := multiplyMaxLength_eq hk
          have hch := (chain_max rtl (m e body rtl) c
            (fun s y hy => ⟨m_fwd e body rtl s y hy, ih rtl s y hy c hb⟩) hc).2
          have hmul : j * c ≤ h * c := Nat.mul_le_mul_right _ hj
          omega
  | cap g body ih =>
    intro rtl st st' hm k hk
    simp only [m, List.mem_map] at hm
    obtain ⟨y, hy, rfl⟩ := hm
    exact ih rtl st y hy k (by simpa [maxLen] using hk)
  | atomic body ih =>
    intro rtl st st' hm k hk
    simp only [m] at hm
    exact ih rtl st st' (List.mem_of_mem_take hm) k (by simpa [maxLen] using hk)
  | refCond g yes no ihy ihn =>
    intro rtl st st' hm k hk
    simp only [maxLen] at hk
    cases ha : maxLen yes with
    | none => simp [ha] at hk
    | some x =>
      cases hb : maxLen no with
      | none => simp [ha, hb] at hk
      | some y' =>
        simp [ha, hb] at hk
        simp only [m] at hm
        split at hm
        · have := ihy rtl st st' hm _ ha; omega
        · have := ihn rtl st st' hm _ hb; omega
  | exprCond c yes no ihc ihy ihn =>
    intro rtl st st' hm k hk
    simp only [maxLen] at hk
    cases ha : maxLen yes with
    | none => simp [ha] at hk
    | some x =>
      cases hb : maxLen no with
      | none => simp [ha, hb] at hk
      | some y' =>
        simp [ha, hb] at hk
        simp only [m] at hm
        split at hm
        · rename_i y ys heq
          have := ihy rtl { pos := st.pos, caps := y.caps } st' hm _ ha
          simp only at this; omega
        · have := ihn rtl st st' hm _ hb; omega

/-! ### leading and trailing anchors -/

theorem countedAnchor_eq {x a : Anchor} (h : countedAnchor x = some a) : a = x := by
  cases x <;> simp [countedAnchor] at h <;> exact h.symm

/-- the children a concatenation skips over do not move the position -/
theorem skippable_pos (e : Env) (p : Pat) :
    skippable p = true → ∀ (rtl : Bool) (st : St), ∀ st' ∈ m e p rtl st, st'.pos = st.pos := by
  induction p with
  | empty => intro _ rtl st st' hm; simp [m] at hm; subst hm; rfl
  | look behind neg body ih =>
    intro _ rtl st st' hm
    simp only [m] at hm
    split at hm
    · split at hm
      · simp at hm; subst hm; rfl
      · simp at hm
    · split at hm
      · simp at hm
      · simp at hm; subst hm; rfl
  | seq a b iha ihb =>
    intro hs rtl st st' hm
    simp only [skippable, Bool.and_eq_true] at hs
    simp only [m] at hm
    split at hm
    · rw [List.mem_flatMap] at hm
      obtain ⟨y, hy, hxy⟩ := hm
      rw [iha hs.1 _ y st' hxy, ihb hs.2 _ st y hy]
    · rw [List.mem_flatMap] at hm
      obtain ⟨y, hy, hxy⟩ := hm
      rw [ihb hs.2 _ y st' hxy, iha hs.1 _ st y hy]
  | nothing => intro h; simp [skippable] at h
  | chr p => intro h; simp [skippable] at h
  | anchor a => intro h; simp [skippable] at h
  | alt a b _ _ => intro h; simp [skippable] at h
  | quant lzy lo hi body _ => intro h; simp [skippable] at h
  | cap g body _ => intro h; simp [skippable] at h
  | atomic body _ => intro h; simp [skippable] at h
  | ref g ci => intro h; simp [skippable] at h
  | refCond g yes no _ _ => intro h; simp [skippable] at h
  | exprCond c yes no _ _ _ => intro h; simp [skippable] at h

/-- the position at which the anchor found from the pattern's start (`fromEnd = false`) or end is
    evaluated: the attempt's start when that edge is matched first, else its end -/
def edgePos (fromEnd rtl : Bool) (st st' : St) : Nat := if fromEnd = rtl then st.pos else st'.pos

theorem edgeAnchor_holds (e : Env) (p : Pat) :
    ∀ (fromEnd rtl : Bool) (a : Anchor) (st : St), edgeAnchor fromEnd p = some a →
      ∀ st' ∈ m e p rtl st, anchorHolds e a (edgePos fromEnd rtl st st') = true := by
  induction p with
  | anchor x =>
    intro fromEnd rtl a st h st' hm
    simp only [edgeAnchor] at h
    have := countedAnchor_eq h; subst this
    simp only [m] at hm
    split at hm
    · rename_i hh
      simp at hm; subst hm
      simpa [edgePos] using hh
    · simp at hm
  | atomic body ih =>
    intro fromEnd rtl a st h st' hm
    simp only [edgeAnchor] at h
    simp only [m] at hm
    exact ih fromEnd rtl a st h st' (List.mem_of_mem_take hm)
  | cap g body ih =>
    intro fromEnd rtl a st h st' hm
    simp only [edgeAnchor] at h
    simp only [m, List.mem_map] at hm
    obtain ⟨y, hy, rfl⟩ := hm
    have := ih fromEnd rtl a st h y hy
    simpa [edgePos] using this
  | alt x y ihx ihy =>
    intro fromEnd rtl a st h st' hm
    simp only [edgeAnchor] at h
    cases hx : edgeAnchor fromEnd x with
    | none => simp [hx] at h
    | some ax =>
      simp only [hx] at h
      split at h
      · rename_i hy
        simp at h; subst h
        simp only [m, List.mem_append] at hm
        rcases hm with hm | hm
        · exact ihx fromEnd rtl ax st hx st' hm
        · exact ihy fromEnd rtl ax st hy st' hm
      · simp at h
  | seq x y ihx ihy =>
    intro fromEnd rtl a st h st' hm
    simp only [edgeAnchor] at h
    simp only [m] at hm
    cases fromEnd <;> cases rtl
    · -- from the start, left-to-right: x is matched first
      simp only [Bool.false_eq_true, if_false] at h hm
      rw [List.mem_flatMap] at hm
      obtain ⟨z, hz, hzs⟩ := hm
      split at h
      · rename_i hs
        have := ihy false false a z h st' hzs
        simpa [edgePos, skippable_pos e x hs false st z hz] using this
      · have := ihx false false a st h z hz
        simpa [edgePos] using this
    · -- from the start, right-to-left: x is matched last
      simp only [Bool.false_eq_true, if_false, if_true] at h hm
      rw [List.mem_flatMap] at hm
      obtain ⟨z, hz, hzs⟩ := hm
      split at h
      · rename_i hs
        have := ihy false true a st h z hz
        simpa [edgePos, skippable_pos e x hs true z st' hzs] using this
      · have := ihx false true a z h st' hzs
        simpa [edgePos] using this
    · -- from the end, left-to-right: y is matched last
      simp only [Bool.false_eq_true, if_false, if_true] at h hm
      rw [List.mem_flatMap] at hm
      obtain ⟨z, hz, hzs⟩ := hm
      split at h
      · rename_i hs
        have := ihx true false a st h z hz
        simpa [edgePos, skippable_pos e y hs false z st' hzs] using this
      · have := ihy true false a z h st' hzs
        simpa [edgePos] using this
    · -- from the end, right-to-left: y is matched first
      simp only [if_true] at h hm
      rw [List.mem_flatMap] at hm
      obtain ⟨z, hz, hzs⟩ := hm
      split at h
      · rename_i hs
        have := ihx true true a z h st' hzs
        simpa [edgePos, skippable_pos e y hs true st z hz] using this
      · have := ihy true true a st h z hz
        simpa [edgePos] using this
  | empty => intro fromEnd rtl a st h; simp [edgeAnchor] at h
  | nothing => intro fromEnd rtl a st h; simp [edgeAnchor] at h
  | chr p => intro fromEnd rtl a st h; simp [edgeAnchor] at h
  | quant lzy lo hi body _ => intro fromEnd rtl a st h; simp [edgeAnchor] at h
  | look behind neg body _ => intro fromEnd rtl a st h; simp [edgeAnchor] at h
  | ref g ci => intro fromEnd rtl a st h; simp [edgeAnchor] at h
  | refCond g yes no _ _ => intro fromEnd rtl a st h; simp [edgeAnchor] at h
  | exprCond c yes no _ _ _ => intro fromEnd rtl a st h; simp [edgeAnchor] at h

/-! ### leading prefix -/

/-- the encoded bytes of the text from rune position `i` on -/
def bytesFrom (e : Env) (utf8 : Nat → List Nat) (i : Nat) : List Nat := (e.text.drop i).flatMap utf8

/-- the invariant of `tryFindPrefix`: the bytes at `i` start with the prefix, and when the function
    says "continue" the prefix is exactly what was consumed up to `j` -/
def PrefixOK (e : Env) (utf8 : Nat → List Nat) (r : List Nat × Bool) (i j : Nat) : Prop :=
  ∃ t, bytesFrom e utf8 i = r.1 ++ t ∧ (r.2 = true → t = bytesFrom e utf8 j)

theorem PrefixOK.nil_false (e : Env) (utf8 : Nat → List Nat) (i j : Nat) : PrefixOK e utf8 ([], false) i j :=
  ⟨_, rfl, by simp⟩

theorem PrefixOK.nil_same (e : Env) (utf8 : Nat → List Nat) (c : Bool) (i : Nat) : PrefixOK e utf8 ([], c) i i :=
  ⟨_, rfl, fun _ => rfl⟩

theorem PrefixOK.weaken {e : Env} {utf8 : Nat → List Nat} {l : List Nat} {c : Bool} {i j : Nat}
    (h : PrefixOK e utf8 (l, c) i j) (k : Nat) : PrefixOK e utf8 (l, false) i k := by
  obtain ⟨t, ht, _⟩ := h
  exact ⟨t, ht, by simp⟩

theorem commonPrefix_left (a b : List Nat) : ∃ t, a = commonPrefix a b ++ t := by
  induction a generalizing b with
  | nil => exact ⟨[], by simp [commonPrefix]⟩
  | cons x xs ih =>
    cases b with
    | nil => exact ⟨x :: xs, by simp [commonPrefix]⟩
    | cons y ys =>
      simp only [commonPrefix]
      split
      · obtain ⟨t, ht⟩ := ih ys
        exact ⟨t, by simp [← ht]⟩
      · exact ⟨x :: xs, by simp⟩

theorem commonPrefix_comm (a b : List Nat) : commonPrefix a b = commonPrefix b a := by
  induction a generalizing b with
  | nil => cases b <;> simp [commonPrefix]
  | cons x xs ih =>
    cases b with
    | nil => simp [commonPrefix]
    | cons y ys =>
      simp only [commonPrefix]
      by_cases h : x = y
      · subst h; simp [ih ys]
      · have h' : ¬ y = x := fun hh => h hh.symm
        simp [h, h']

theorem commonPrefix_right (a b : List Nat) : ∃ t, b = commonPrefix a b ++ t := by
  rw [commonPrefix_comm]; exact commonPrefix_left b a

/-- the n-ary running intersection of the Go loop (a left fold) is the right-nested binary form -/
theorem commonPrefix_assoc (a b c : List Nat) :
    commonPrefix (commonPrefix a b) c = commonPrefix a (commonPrefix b c) := by
  induction a generalizing b c with
  | nil => simp [commonPrefix]
  | cons x xs ih =>
    cases b with
    | nil => simp [commonPrefix]
    | cons y ys =>
      cases c with
      | nil => simp [commonPrefix]
      | cons z zs =>
        by_cases h1 : x = y <;> by_cases h2 : y = z
        · subst h1; subst h2; simp [commonPrefix, ih]
        · subst h1; simp [commonPrefix, h2]
        · subst h2; simp [commonPrefix, h1]
        · simp [commonPrefix, h1, h2]

theorem rep_add (a b : Nat) (l : List Nat) : rep (a + b) l = rep a l ++ rep b l := by
  induction a with
  | zero => simp [rep]
  | succ a ih => rw [Nat.succ_add]; simp [rep, ih]

theorem bytesFrom_step (e : Env) (utf8 : Nat → List Nat) (i r : Nat) (h : e.text[i]? = some r) :
    bytesFrom e utf8 i = utf8 r ++ bytesFrom e utf8 (i + 1) := by
  obtain ⟨hlt, hget⟩ := List.getElem?_eq_some_iff.mp h
  unfold bytesFrom
  rw [List.drop_eq_getElem_cons hlt, hget]
  simp

/-- a chain of iterations each consuming exactly the bytes `pb` -/
theorem chain_prefix (e : Env) (utf8 : Nat → List Nat) (f : St → List St) (pb : List Nat)
    (hf : ∀ s, ∀ y ∈ f s, bytesFrom e utf8 s.pos = pb ++ bytesFrom e utf8 y.pos) :
    ∀ {j : Nat} {s s' : St}, Chain f j s s' → bytesFrom e utf8 s.pos = rep j pb ++ bytesFrom e utf8 s'.pos := by
  intro j s s' hc
  induction hc with
  | zero s => simp [rep]
  | succ hy _ ih => rw [hf _ _ hy, ih]; simp [rep]

theorem leadingPrefix_ok (e : Env) (utf8 : Nat → List Nat) (p : Pat) :
    ∀ (st : St), ∀ st' ∈ m e p false st, PrefixOK e utf8 (leadingPrefix utf8 p) st.pos st'.pos := by
  induction p with
  | empty => intro st st' hm; simp [m] at hm; subst hm; exact PrefixOK.nil_same _ _ _ _
  | nothing => intro st st' hm; simp [m] at hm
  | anchor a =>
    intro st st' hm
    simp only [m] at hm
    split at hm
    · simp at hm; subst hm; exact PrefixOK.nil_same _ _ _ _
    · simp at hm
  | look behind neg body ih =>
    intro st st' hm
    have : st'.pos = st.pos := skippable_pos e (.look behind neg body) rfl false st st' hm
    rw [this]; exact PrefixOK.nil_same _ _ _ _
  | ref g ci => intro st st' _; exact PrefixOK.nil_false _ _ _ _
  | refCond g yes no _ _ => intro st st' _; exact PrefixOK.nil_false _ _ _ _
  | exprCond c yes no _ _ _ => intro st st' _; exact PrefixOK.nil_false _ _ _ _
  | chr p =>
    intro st st' hm
    simp only [m] at hm
    split at hm
    · rename_i r pos' hstep
      obtain ⟨hget, hpos⟩ := (stepChar_spec e false st.pos r pos' hstep).2.2 rfl
      split at hm
      · rename_i htest
        simp at hm; subst hm
        cases p with
        | notone c ci => exact PrefixOK.nil_false _ _ _ _
        | set c ci => exact PrefixOK.nil_false _ _ _ _
        | one c ci =>
          cases ci with
          | true => exact PrefixOK.nil_false _ _ _ _
          | false =>
            simp [Pred.test] at htest; subst htest
            refine ⟨bytesFrom e utf8 (st.pos + 1), ?_, fun _ => by simp [hpos]⟩
            simpa [leadingPrefix] using bytesFrom_step e utf8 st.pos c hget
      · simp at hm
    · simp at hm
  | seq a b iha ihb =>
    intro st st' hm
    simp only [m, Bool.false_eq_true, if_false] at hm
    rw [List.mem_flatMap] at hm
    obtain ⟨y, hy, hxy⟩ := hm
    obtain ⟨ta, hta, hca⟩ := iha st y hy
    simp only [leadingPrefix]
    split
    · rename_i hc
      obtain ⟨tb, htb, hcb⟩ := ihb y st' hxy
      refine ⟨tb, ?_, hcb⟩
      rw [hta, hca hc, htb]; simp
    · exact ⟨ta, hta, by simp⟩
  | alt a b iha ihb =>
    intro st st' hm
    simp only [m, List.mem_append] at hm
    simp only [leadingPrefix]
    rcases hm with hm | hm
    · obtain ⟨t, ht, _⟩ := iha st st' hm
      obtain ⟨u, hu⟩ := commonPrefix_left (leadingPrefix utf8 a).1 (leadingPrefix utf8 b).1
      exact ⟨u ++ t, by rw [ht]; simp only []; rw [← List.append_assoc, ← hu], by simp⟩
    · obtain ⟨t, ht, _⟩ := ihb st st' hm
      obtain ⟨u, hu⟩ := commonPrefix_right (leadingPrefix utf8 a).1 (leadingPrefix utf8 b).1
      exact ⟨u ++ t, by rw [ht]; simp only []; rw [← List.append_assoc, ← hu], by simp⟩
  | quant lzy lo hi body ih =>
    intro st st' hm
    obtain ⟨j, hc, hlo, hhi⟩ := quant_chain e lzy lo hi body false st st' hm
    simp only [leadingPrefix]
    split
    · exact PrefixOK.nil_false _ _ _ _
    · rename_i hlo0
      split
      · rename_i hcont
        have hf : ∀ s, ∀ y ∈ m e body false s,
            bytesFrom e utf8 s.pos = (leadingPrefix utf8 body).1 ++ bytesFrom e utf8 y.pos := by
          intro s y hy
          obtain ⟨t, ht, hc⟩ := ih s y hy
          rw [ht, hc hcont]
        have hch := chain_prefix e utf8 (m e body false) _ hf hc
        generalize hL : min (if isOne body = true then 32 else 4) lo = limit
        have hle : limit ≤ lo := by omega
        have hj : j = limit + (j - limit) := by omega
        refine ⟨rep (j - limit) (leadingPrefix utf8 body).1 ++ bytesFrom e utf8 st'.pos, ?_, ?_⟩
        · rw [hch, hj, rep_add]; simp
        · intro hh
          simp at hh
          have := hhi limit hh
          have : j - limit = 0 := by omega
          simp [this, rep]
      · have hj : j = (j - 1) + 1 := by omega
        rw [hj] at hc
        cases hc with
        | succ hy _ => exact (ih st _ hy).weaken _
  | cap g body ih =>
    intro st st' hm
    simp only [m, List.mem_map] at hm
    obtain ⟨y, hy, rfl⟩ := hm
    simpa [leadingPrefix] using ih st y hy
  | atomic body ih =>
    intro st st' hm
    simp only [m] at hm
    simp only [leadingPrefix]
    split
    · exact PrefixOK.nil_false _ _ _ _
    · exact ih st st' (List.mem_of_mem_take hm)

/-- when `tryFindPrefix` says "continue", the prefix is exactly the encoding of what was consumed -/
theorem bytesFrom_split (e : Env) (utf8 : Nat → List Nat) (i j : Nat) (h : i ≤ j) :
    bytesFrom e utf8 i = ((e.text.drop i).take (j - i)).flatMap utf8 ++ bytesFrom e utf8 j := by
  unfold bytesFrom
  rw [← List.flatMap_append]
  congr 1
  have : e.text.drop j = (e.text.drop i).drop (j - i) := by rw [List.drop_drop]; congr 1; omega
  rw [this, List.take_append_drop]

/-- every literal the prefix analysis can emit is ASCII -/
def asciiOnly : Pat → Bool
  | .chr (.one c false) => decide (c < 128)
  | .seq a b => asciiOnly a && asciiOnly b
  | .alt a b => asciiOnly a && asciiOnly b
  | .quant _ _ _ b => asciiOnly b
  | .atomic b => asciiOnly b
  | .cap _ b => asciiOnly b
  | _ => true

/-- on ASCII literals the byte prefix is the rune prefix -/
theorem leadingPrefix_ascii (p : Pat) (h : asciiOnly p = true) :
    leadingPrefix utf8enc p = leadingPrefix (fun r => [r]) p := by
  induction p with
  | chr q =>
    cases q with
    | one c ci =>
      cases ci with
      | true => simp [leadingPrefix]
      | false =>
        simp [asciiOnly] at h
        simp [leadingPrefix, utf8enc, h]
    | notone c ci => simp [leadingPrefix]
    | set c ci => simp [leadingPrefix]
  | seq a b iha ihb =>
    simp only [asciiOnly, Bool.and_eq_true] at h
    simp only [leadingPrefix, iha h.1, ihb h.2]
  | alt a b iha ihb =>
    simp only [asciiOnly, Bool.and_eq_true] at h
    simp only [leadingPrefix, iha h.1, ihb h.2]
  | quant lzy lo hi body ih =>
    simp only [asciiOnly] at h
    simp only [leadingPrefix, ih h]
  | atomic body ih =>
    simp only [asciiOnly] at h
    simp only [leadingPrefix, ih h]
  | cap g body ih =>
    simp only [asciiOnly] at h
    simp only [leadingPrefix, ih h]
  | empty => simp [leadingPrefix]
  | nothing => simp [leadingPrefix]
  | anchor a => simp [leadingPrefix]
  | look behind neg body _ => simp [leadingPrefix]
  | ref g ci => simp [leadingPrefix]
  | refCond g yes no _ _ => simp [leadingPrefix]
  | exprCond c yes no _ _ _ => simp [leadingPrefix]

/-! ### from a find result back to the success of the pattern -/

theorem lastCap_append_self (caps : List (Nat × Nat × Nat)) (g a b : Nat) :
    lastCap (caps ++ [(g, a, b)]) g = some (a, b) := by
  simp [lastCap]

/-- an attempt's result is a success of the pattern from the attempt position, with group 0 spanning
    from the attempt position to the end position -/
theorem attempt_success (e : Env) (p : Pat) (rtl : Bool) (i : Nat) (st : St) (h : attempt e p rtl i = some st) :
    ∃ y ∈ m e p rtl { pos := i, caps := [] }, st.pos = y.pos ∧
      lastCap st.caps 0 = some (min i y.pos, max i y.pos - min i y.pos) := by
  unfold attempt at h
  have hmem := List.mem_of_mem_head? h
  simp only [m, List.mem_map] at hmem
  obtain ⟨y, hy, rfl⟩ := hmem
  exact ⟨y, hy, rfl, lastCap_append_self _ _ _ _⟩

theorem find_attempt (e : Env) (p : Pat) (rtl : Bool) (start : Nat) (st : St) (h : find e p rtl start = some st) :
    ∃ i ∈ scanOrder rtl start e.n, attempt e p rtl i = some st := by
  unfold find at h
  obtain ⟨i, hi, hat⟩ := List.exists_of_findSome?_eq_some h
  exact ⟨i, hi, hat⟩

end RegexVerif.Facts
