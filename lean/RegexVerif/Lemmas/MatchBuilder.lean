/-
Helper lemmas for C08, capture-array part (model `RegexVerif.Model.MatchBuilder`).

`Rep P st` is the representation invariant of one slot: the live prefix `P` of the flat array
(`2 * matchcount` entries) was produced by pushes (`addMatch` of a well-formed interval) and
cancellations (`balanceMatch`), and `st` is the resulting stack of live captures, top first, each
with the array position it is stored at.
-/
import RegexVerif.Model.MatchBuilder

namespace RegexVerif.Lemmas.MatchBuilder
open RegexVerif RegexVerif.MatchBuilder

/-! ### lists -/

theorem geti_append_left (P X : List Int) (i : Nat) (h : i < P.length) : geti (P ++ X) i = geti P i := by
  simp [geti, List.getD, List.getElem?_append_left h]

theorem geti_append_right (P X : List Int) (i : Nat) : geti (P ++ X) (P.length + i) = geti X i := by
  simp [geti, List.getD, List.getElem?_append_right]

theorem geti_take (a : List Int) (n i : Nat) (h : i < n) : geti (a.take n) i = geti a i := by
  simp [geti, List.getD, h]

theorem take_set_set (a : List Int) (k : Nat) (x y : Int) (h : k + 2 ≤ a.length) :
    ((a.set k x).set (k + 1) y).take (k + 2) = a.take k ++ [x, y] := by
  induction k generalizing a with
  | zero =>
    match a, h with
    | a0 :: a1 :: rest, _ => simp
  | succ k ih =>
    match a, h with
    | a0 :: rest, h =>
      have h' : k + 2 ≤ rest.length := by simpa using h
      simp [List.set_cons_succ, ih rest h']

theorem length_set_set (a : List Int) (i j : Nat) (x y : Int) : ((a.set i x).set j y).length = a.length := by simp

/-! ### the representation invariant -/

abbrev Stk := List (Nat × Int × Int)

def topPos : Stk → Int
  | [] => -2
  | (p, _, _) :: _ => (p : Int)

theorem topPos_ge (st : Stk) : -2 ≤ topPos st := by
  cases st with
  | nil => simp [topPos]
  | cons e t => obtain ⟨p, s, l⟩ := e; simp [topPos]

theorem topPos_eq_neg2 (st : Stk) : topPos st = -2 ↔ st = [] := by
  cases st with
  | nil => simp [topPos]
  | cons e t => obtain ⟨p, s, l⟩ := e; simp [topPos]

inductive Rep : List Int → Stk → Prop
  | nil : Rep [] []
  | push (P : List Int) (st : Stk) (s l : Int) : Rep P st → 0 ≤ s → 0 ≤ l → Rep (P ++ [s, l]) ((P.length, s, l) :: st)
  | bal (P : List Int) (c : Nat × Int × Int) (st : Stk) : Rep P (c :: st) → Rep (P ++ [-3 - topPos st, -4 - topPos st]) st

def vals (st : Stk) : List (Int × Int) := st.map (fun e => (e.2.1, e.2.2))

theorem rep_even {P : List Int} {st : Stk} (h : Rep P st) : P.length % 2 = 0 := by
  induction h with
  | nil => rfl
  | push P st s l _ _ _ ih => simp; omega
  | bal P c st _ ih => simp; omega

theorem rep_nil_inv' {P : List Int} {st : Stk} (h : Rep P st) (hP : P = []) : st = [] := by
  cases h with
  | nil => rfl
  | push P st s l _ _ _ => simp at hP
  | bal P c st _ => simp at hP

theorem rep_nil_inv {st : Stk} (h : Rep [] st) : st = [] := rep_nil_inv' h rfl

theorem append_pair_inj {P Q : List Int} {a b c d : Int} (h : P ++ [a, b] = Q ++ [c, d]) : P = Q ∧ a = c ∧ b = d := by
  have := List.append_inj' h (by simp)
  simpa using this

/-- what the last entry of a represented prefix looks like -/
theorem rep_last {P : List Int} {st : Stk} (h : Rep P st) :
    (P = [] ∧ st = []) ∨
    ∃ P' x y, P = P' ++ [x, y] ∧
      ((0 ≤ x ∧ 0 ≤ y ∧ ∃ st', Rep P' st' ∧ st = (P'.length, x, y) :: st') ∨
       (x = -3 - topPos st ∧ y = -4 - topPos st ∧ ∃ c, Rep P' (c :: st))) := by
  cases h with
  | nil => left; exact ⟨rfl, rfl⟩
  | push P st s l h hs hl => right; exact ⟨P, s, l, rfl, Or.inl ⟨hs, hl, st, h, rfl⟩⟩
  | bal P c st h => right; exact ⟨P, _, _, rfl, Or.inr ⟨rfl, rfl, c, h⟩⟩

/-- removing the last entry of a represented prefix leaves a represented prefix -/
theorem rep_dropLast {P : List Int} {x y : Int} {st : Stk} (h : Rep (P ++ [x, y]) st) : ∃ st', Rep P st' := by
  rcases rep_last h with ⟨h1, _⟩ | ⟨P', x', y', heq, h2⟩
  · simp at h1
  · obtain ⟨rfl, _, _⟩ := append_pair_inj heq
    rcases h2 with ⟨_, _, st', h, _⟩ | ⟨_, _, c, h⟩
    · exact ⟨st', h⟩
    · exact ⟨_, h⟩

/-- every live capture is stored at its position, is well-formed, and lies inside the prefix -/
theorem rep_vals {P : List Int} {st : Stk} (h : Rep P st) :
    ∀ e ∈ st, e.1 + 2 ≤ P.length ∧ geti P e.1 = e.2.1 ∧ geti P (e.1 + 1) = e.2.2 ∧ 0 ≤ e.2.1 ∧ 0 ≤ e.2.2 := by
  induction h with
  | nil => simp
  | push P st s l _ hs hl ih =>
    intro e he
    rcases List.mem_cons.mp he with rfl | he
    · refine ⟨by simp, ?_, ?_, hs, hl⟩
      · have := geti_append_right P [s, l] 0; simpa [geti] using this
      · have := geti_append_right P [s, l] 1; simpa [geti] using this
    · obtain ⟨h1, h2, h3, h4, h5⟩ := ih e he
      exact ⟨by simp; omega, by rw [geti_append_left _ _ _ (by omega)]; exact h2,
        by rw [geti_append_left _ _ _ (by omega)]; exact h3, h4, h5⟩
  | bal P c st _ ih =>
    intro e he
    obtain ⟨h1, h2, h3, h4, h5⟩ := ih e (List.mem_cons_of_mem _ he)
    exact ⟨by simp; omega, by rw [geti_append_left _ _ _ (by omega)]; exact h2,
      by rw [geti_append_left _ _ _ (by omega)]; exact h3, h4, h5⟩

/-- what is stored just before position `q`, relative to the stack `st'` below a capture at `q` -/
def PrevOK (P : List Int) (q : Nat) (st' : Stk) : Prop :=
  (q = 0 ∧ st' = []) ∨
  (2 ≤ q ∧ ((0 ≤ geti P (q - 2) ∧ topPos st' = (q : Int) - 2) ∨
            (geti P (q - 2) = -3 - topPos st' ∧ geti P (q - 1) = -4 - topPos st')))

def ChainOK (P : List Int) : Stk → Prop
  | [] => True
  | e :: st' => PrevOK P e.1 st' ∧ ChainOK P st'

theorem prevOK_mono (P X : List Int) (q : Nat) (st' : Stk) (hq : q ≤ P.length) (h : PrevOK P q st') :
    PrevOK (P ++ X) q st' := by
  rcases h with h | ⟨h2, h⟩
  · left; exact h
  · right
    refine ⟨h2, ?_⟩
    rw [geti_append_left _ _ _ (by omega), geti_append_left _ _ _ (by omega)]
    exact h

theorem chainOK_mono (P X : List Int) (st : Stk) (hq : ∀ e ∈ st, e.1 + 2 ≤ P.length) (h : ChainOK P st) :
    ChainOK (P ++ X) st := by
  induction st with
  | nil => trivial
  | cons e st' ih =>
    obtain ⟨h1, h2⟩ := h
    exact ⟨prevOK_mono P X e.1 st' (by have := hq e (by simp); omega) h1,
      ih (fun e' he' => hq e' (by simp [he'])) h2⟩

theorem rep_chain {P : List Int} {st : Stk} (h : Rep P st) : ChainOK P st ∧ PrevOK P P.length st := by
  induction h with
  | nil => exact ⟨trivial, Or.inl ⟨rfl, rfl⟩⟩
  | push P st s l hr hs hl ih =>
    obtain ⟨ihc, ihp⟩ := ih
    have hv := rep_vals hr
    refine ⟨⟨prevOK_mono P _ _ st (Nat.le_refl _) ihp, chainOK_mono P _ st (fun e he => (hv e he).1) ihc⟩, ?_⟩
    right
    refine ⟨by simp, Or.inl ⟨?_, ?_⟩⟩
    · have : (P ++ [s, l]).length - 2 = P.length + 0 := by simp
      rw [this, geti_append_right]; simpa [geti] using hs
    · simp [topPos]
  | bal P c st hr ih =>
    obtain ⟨ihc, _⟩ := ih
    have hv := rep_vals hr
    refine ⟨chainOK_mono P _ st (fun e he => (hv e (List.mem_cons_of_mem _ he)).1) ihc.2, ?_⟩
    right
    refine ⟨by simp, Or.inr ⟨?_, ?_⟩⟩
    · have : (P ++ [-3 - topPos st, -4 - topPos st]).length - 2 = P.length + 0 := by simp
      rw [this, geti_append_right]; simp [geti]
    · have : (P ++ [-3 - topPos st, -4 - topPos st]).length - 1 = P.length + 1 := by simp
      rw [this, geti_append_right]; simp [geti]

/-! ### one slot: `addMatch`, `balanceMatch` -/

def SlotOK (a : List Int) (n : Nat) : Prop := 2 * n ≤ a.length ∧ (a = [] ∨ 2 ≤ a.length)

/-- the array part of `addMatch` -/
def addSlot (a : List Int) (n : Nat) (s l : Int) : List Int :=
  let a := if a.isEmpty then [0, 0] else a
  let a := if n * 2 + 2 > a.length then a.take (n * 2) ++ List.replicate (n * 8 - n * 2) 0 else a
  (a.set (n * 2) s).set (n * 2 + 1) l

theorem addMatch_eq (b : Builder) (c : Nat) (s l : Int) :
    addMatch b c s l = { b with arrays := b.arrays.set c (addSlot (arr b c) (cnt b c) s l),
                                matchcount := b.matchcount.set c (cnt b c + 1) } := rfl

theorem addSlot_spec (a : List Int) (n : Nat) (s l : Int) (h : SlotOK a n) :
    (addSlot a n s l).take (2 * (n + 1)) = a.take (2 * n) ++ [s, l] ∧ SlotOK (addSlot a n s l) (n + 1) := by
  obtain ⟨h1, h2⟩ := h
  unfold addSlot
  -- the array after the nil check and the growth step
  have key : ∀ a' : List Int, n * 2 + 2 ≤ a'.length → a'.take (n * 2) = a.take (2 * n) →
      ((a'.set (n * 2) s).set (n * 2 + 1) l).take (2 * (n + 1)) = a.take (2 * n) ++ [s, l] ∧
      SlotOK ((a'.set (n * 2) s).set (n * 2 + 1) l) (n + 1) := by
    intro a' hl ht
    refine ⟨?_, ?_⟩
    · rw [show 2 * (n + 1) = n * 2 + 2 by omega, take_set_set _ _ _ _ hl, ht]
    · refine ⟨by simp; omega, Or.inr (by simp; omega)⟩
  rcases h2 with rfl | h2
  · have hn : n = 0 := by simp at h1; omega
    subst hn
    simpa using key [0, 0] (by simp) (by simp)
  · have hne : a.isEmpty = false := by cases a <;> simp at h2 ⊢
    simp only [hne, Bool.false_eq_true, ite_false]
    by_cases hg : n * 2 + 2 > a.length
    · simp only [hg, ite_true]
      have hn : 1 ≤ n := by omega
      apply key
      · simp [List.length_take]; omega
      · rw [List.take_append_of_le_length (by simp [List.length_take]; omega)]
        rw [List.take_take]; simp [Nat.mul_comm]
    · simp only [hg, ite_false]
      exact key a (by omega) (by simp [Nat.mul_comm])

/-- the entry `balanceMatch` appends -/
def balEntry (a : List Int) (n : Nat) : Int × Int :=
  let target : Int := (n : Int) * 2 - 2
  let target : Int := if geti a target.toNat < 0 then -3 - geti a target.toNat else target
  let target : Int := target - 2
  if target ≥ 0 ∧ geti a target.toNat < 0 then (geti a target.toNat, geti a (target.toNat + 1))
  else (-3 - target, -4 - target)

theorem ite_pair {β : Type} (p : Prop) [Decidable p] (x1 y1 x2 y2 : Int) (f : Int → Int → β) :
    (if p then f x1 y1 else f x2 y2) =
      f (if p then (x1, y1) else (x2, y2)).1 (if p then (x1, y1) else (x2, y2)).2 := by
  split <;> rfl

theorem balanceMatch_eq (b : Builder) (c : Nat) :
    balanceMatch b c =
      addMatch { b with balancing := true } c (balEntry (arr b c) (cnt b c)).1 (balEntry (arr b c) (cnt b c)).2 := by
  unfold balanceMatch balEntry
  exact ite_pair _ _ _ _ _ _

/-- position of the innermost live capture, as `balanceMatch`/`matchIndex` find it from the last entry -/
theorem last_entry_cases (a : List Int) (n : Nat) (hlen : 2 * n ≤ a.length) (q : Nat) (s l : Int) (st' : Stk)
    (h : Rep (a.take (2 * n)) ((q, s, l) :: st')) :
    1 ≤ n ∧ q + 2 ≤ 2 * n ∧ geti a q = s ∧ geti a (q + 1) = l ∧ 0 ≤ s ∧ 0 ≤ l ∧
    ((q = 2 * n - 2 ∧ geti a (2 * n - 2) = s ∧ geti a (2 * n - 1) = l) ∨
     (geti a (2 * n - 2) = -3 - (q : Int) ∧ geti a (2 * n - 1) = -4 - (q : Int))) := by
  have hPlen : (a.take (2 * n)).length = 2 * n := by simp [List.length_take]; omega
  obtain ⟨v1, v2, v3, v4, v5⟩ := rep_vals h (q, s, l) (by simp)
  simp only at v1 v2 v3 v4 v5
  rw [hPlen] at v1
  have hn : 1 ≤ n := by omega
  rw [geti_take _ _ _ (by omega)] at v2 v3
  refine ⟨hn, v1, v2, v3, v4, v5, ?_⟩
  rcases rep_last h with ⟨_, h0⟩ | ⟨P', x, y, heq, hc⟩
  · simp at h0
  · have hP' : P'.length + 2 = 2 * n := by
      have := congrArg List.length heq; simp at this; omega
    have gx : geti a (2 * n - 2) = x := by
      rw [← geti_take a (2 * n) _ (by omega), heq, show 2 * n - 2 = P'.length + 0 by omega, geti_append_right]; simp [geti]
    have gy : geti a (2 * n - 1) = y := by
      rw [← geti_take a (2 * n) _ (by omega), heq, show 2 * n - 1 = P'.length + 1 by omega, geti_append_right]; simp [geti]
    rcases hc with ⟨_, _, st'', _, hst⟩ | ⟨hx, hy, _⟩
    · left
      simp only [List.cons.injEq, Prod.mk.injEq] at hst
      obtain ⟨⟨hq, hs, hl⟩, _⟩ := hst
      exact ⟨by omega, by rw [gx, hs], by rw [gy, hl]⟩
    · right
      simp only [topPos] at hx hy
      exact ⟨by rw [gx, hx], by rw [gy, hy]⟩

theorem balEntry_spec (a : List Int) (n : Nat) (hlen : 2 * n ≤ a.length) (q : Nat) (s l : Int) (st' : Stk)
    (h : Rep (a.take (2 * n)) ((q, s, l) :: st')) :
    balEntry a n = (-3 - topPos st', -4 - topPos st') := by
  obtain ⟨hn, hq, _, _, hs, _, hlast⟩ := last_entry_cases a n hlen q s l st' h
  have hprev := (rep_chain h).1.1
  simp only at hprev
  -- the first two steps find `q`
  have htarget : (if geti a ((n : Int) * 2 - 2).toNat < 0 then -3 - geti a ((n : Int) * 2 - 2).toNat else (n : Int) * 2 - 2) = (q : Int) := by
    have e : ((n : Int) * 2 - 2).toNat = 2 * n - 2 := by omega
    rw [e]
    rcases hlast with ⟨hq', hg, _⟩ | ⟨hg, _⟩
    · have : ¬ geti a (2 * n - 2) < 0 := by rw [hg]; omega
      simp only [this, ite_false]; omega
    · have : geti a (2 * n - 2) < 0 := by rw [hg]; omega
      simp only [this, ite_true, hg]; omega
  unfold balEntry
  simp only [htarget]
  rcases hprev with ⟨hq0, hst⟩ | ⟨hq2, hp⟩
  · subst hq0; subst hst
    simp [topPos]
  · have e : ((q : Int) - 2).toNat = q - 2 := by omega
    have e1 : q - 2 + 1 = q - 1 := by omega
    rw [e, e1]
    have g1 : geti (a.take (2 * n)) (q - 2) = geti a (q - 2) := geti_take _ _ _ (by omega)
    have g2 : geti (a.take (2 * n)) (q - 1) = geti a (q - 1) := geti_take _ _ _ (by omega)
    rw [g1, g2] at hp
    rcases hp with ⟨hnn, htp⟩ | ⟨hx, hy⟩
    · have : ¬ ((q : Int) - 2 ≥ 0 ∧ geti a (q - 2) < 0) := by omega
      simp only [this, ite_false, htp]
    · have hneg : geti a (q - 2) < 0 := by rw [hx]; have := topPos_ge st'; omega
      have hneg' : -3 - topPos st' < 0 := by rw [← hx]; exact hneg
      have hq' : (q : Int) - 2 ≥ 0 := by omega
      simp only [hx, hy, hq', hneg', and_self, ite_true]

/-! ### the abstract view of a represented prefix -/

theorem liveStack_append_pair_aux (n : Nat) : ∀ (P : List Int) (x y : Int) (acc : List (Int × Int)), P.length = 2 * n →
    liveStack (P ++ [x, y]) acc = if x < 0 then (liveStack P acc).tail else (x, y) :: liveStack P acc := by
  induction n with
  | zero =>
    intro P x y acc h
    have : P = [] := by simpa using h
    subst this
    by_cases hx : x < 0 <;> simp [liveStack, hx]
  | succ n ih =>
    intro P x y acc h
    match P, h with
    | a :: b :: rest, h =>
      have hr : rest.length = 2 * n := by simp at h; omega
      by_cases ha : a < 0
      · simp only [List.cons_append, liveStack, ha, ite_true]; exact ih rest x y _ hr
      · simp only [List.cons_append, liveStack, ha, ite_false]; exact ih rest x y _ hr

theorem liveStack_append_pair (P : List Int) (x y : Int) (acc : List (Int × Int)) (he : P.length % 2 = 0) :
    liveStack (P ++ [x, y]) acc = if x < 0 then (liveStack P acc).tail else (x, y) :: liveStack P acc :=
  liveStack_append_pair_aux (P.length / 2) P x y acc (by omega)

theorem rep_live {P : List Int} {st : Stk} (h : Rep P st) : liveStack P [] = vals st := by
  induction h with
  | nil => rfl
  | push P st s l hr hs _ ih =>
    rw [liveStack_append_pair _ _ _ _ (rep_even hr), ih]
    have : ¬ s < 0 := by omega
    simp [this, vals]
  | bal P c st hr ih =>
    rw [liveStack_append_pair _ _ _ _ (rep_even hr), ih]
    have : -3 - topPos st < 0 := by have := topPos_ge st; omega
    simp [this, vals]

/-! ### builder level -/

/-- the live prefix of slot `c`: the first `2 * matchcount[c]` entries of `matches[c]` -/
def live (b : Builder) (c : Nat) : List Int := (arr b c).take (2 * cnt b c)

theorem absOf_eq (b : Builder) (c : Nat) : absOf b c = (liveStack (live b c) []).reverse := rfl

structure Inv (b : Builder) : Prop where
  len : b.arrays.length = b.matchcount.length
  slot : ∀ c, c < b.matchcount.length → SlotOK (arr b c) (cnt b c) ∧ ∃ st, Rep (live b c) st
  nobal : b.balancing = false → ∀ c, c < b.matchcount.length → ∀ x ∈ live b c, 0 ≤ x

theorem getD_set {α : Type} (l : List α) (i j : Nat) (x d : α) :
    (l.set i x).getD j d = if i = j ∧ i < l.length then x else l.getD j d := by
  simp only [List.getD_eq_getElem?_getD, List.getElem?_set]
  by_cases h : i = j
  · subst h
    by_cases h2 : i < l.length
    · simp [h2]
    · simp [h2, List.getElem?_eq_none (Nat.le_of_not_lt h2)]
  · simp [h]

/-- replacing the array and the count of slot `c` -/
theorem arr_update (b : Builder) (c : Nat) (A : List Int) (N : Nat) (bal : Bool) (hc : c < b.matchcount.length)
    (hlen : b.arrays.length = b.matchcount.length) (c' : Nat) :
    arr { arrays := b.arrays.set c A, matchcount := b.matchcount.set c N, balancing := bal } c' = (if c' = c then A else arr b c') ∧
    cnt { arrays := b.arrays.set c A, matchcount := b.matchcount.set c N, balancing := bal } c' = (if c' = c then N else cnt b c') := by
  simp only [arr, cnt, getD_set]
  by_cases h : c = c'
  · subst h; simp [hc, hlen]
  · have h' : ¬ c' = c := fun e => h e.symm
    simp [h, h']

theorem newMatch_inv (k : Nat) : Inv (newMatch k) := by
  refine ⟨by simp [newMatch], ?_, ?_⟩
  · intro c hc
    have hcnt : cnt (newMatch k) c = 0 := by
      simp [cnt, newMatch, List.getD_eq_getElem?_getD, List.getElem?_replicate]; split <;> rfl
    have harr : arr (newMatch k) c = [] ∨ arr (newMatch k) c = [0, 0] := by
      simp only [arr, newMatch, getD_set]
      split
      · right; rfl
      · left; simp [List.getD_eq_getElem?_getD, List.getElem?_replicate]; split <;> rfl
    refine ⟨?_, ⟨[], ?_⟩⟩
    · rw [hcnt]; rcases harr with h | h <;> rw [h] <;> simp [SlotOK]
    · simp only [live, hcnt]; exact Rep.nil
  · intro _ c _ x hx
    have hcnt : cnt (newMatch k) c = 0 := by
      simp [cnt, newMatch, List.getD_eq_getElem?_getD, List.getElem?_replicate]; split <;> rfl
    simp [live, hcnt] at hx

/-- effect of `addMatch` on the live prefixes, whatever the numbers stored -/
theorem live_addMatch (b : Builder) (hb : Inv b) (c : Nat) (hc : c < b.matchcount.length) (s l : Int) (c' : Nat) :
    live (addMatch b c s l) c' = (if c' = c then live b c ++ [s, l] else live b c') ∧
    cnt (addMatch b c s l) c' = (if c' = c then cnt b c + 1 else cnt b c') ∧
    (addMatch b c s l).matchcount.length = b.matchcount.length ∧
    (addMatch b c s l).arrays.length = b.arrays.length ∧
    (c' < b.matchcount.length → SlotOK (arr (addMatch b c s l) c') (cnt (addMatch b c s l) c')) := by
  rw [addMatch_eq]
  obtain ⟨h1, h2⟩ := arr_update b c (addSlot (arr b c) (cnt b c) s l) (cnt b c + 1) b.balancing hc hb.len c'
  have hs := addSlot_spec (arr b c) (cnt b c) s l (hb.slot c hc).1
  refine ⟨?_, h2, by simp, by simp, ?_⟩
  · simp only [live, h1, h2]
    by_cases h : c' = c
    · simp only [h, ite_true]; exact hs.1
    · simp only [h, ite_false]
  · intro hc'
    rw [h1, h2]
    by_cases h : c' = c
    · simp only [h, ite_true]; exact hs.2
    · simp only [h, ite_false]; exact (hb.slot c' hc').1

theorem addMatch_inv (b : Builder) (hb : Inv b) (c : Nat) (hc : c < b.matchcount.length) (s l : Int)
    (hs : 0 ≤ s) (hl : 0 ≤ l) : Inv (addMatch b c s l) := by
  have key := live_addMatch b hb c hc s l
  refine ⟨by rw [(key 0).2.2.2.1, (key 0).2.2.1]; exact hb.len, ?_, ?_⟩
  · intro c' hc'
    rw [(key c').2.2.1] at hc'
    refine ⟨(key c').2.2.2.2 hc', ?_⟩
    rw [(key c').1]
    obtain ⟨st, hst⟩ := (hb.slot c' hc').2
    by_cases h : c' = c
    · subst h; simp only [ite_true]; exact ⟨_, Rep.push _ _ s l hst hs hl⟩
    · simp only [h, ite_false]; exact ⟨st, hst⟩
  · intro hbal c' hc' x hx
    rw [(key c').2.2.1] at hc'
    rw [(key c').1] at hx
    have hbal' : b.balancing = false := by rw [addMatch_eq] at hbal; exact hbal
    by_cases h : c' = c
    · subst h
      simp only [ite_true, List.mem_append, List.mem_cons, List.mem_nil_iff, or_false] at hx
      rcases hx with hx | rfl | rfl
      · exact hb.nobal hbal' c' hc' x hx
      · exact hs
      · exact hl
    · simp only [h, ite_false] at hx
      exact hb.nobal hbal' c' hc' x hx

theorem live_length (b : Builder) (hb : Inv b) (c : Nat) (hc : c < b.matchcount.length) :
    (live b c).length = 2 * cnt b c := by
  have := (hb.slot c hc).1.1
  simp [live, List.length_take]; omega

/-- the last entry of a non-empty live prefix is what `isMatched`/`matchIndex`/`balanceMatch` read -/
theorem last_geti (a : List Int) (n : Nat) (hlen : 2 * n ≤ a.length) (P' : List Int) (x y : Int)
    (h : a.take (2 * n) = P' ++ [x, y]) : 1 ≤ n ∧ geti a (2 * n - 2) = x ∧ geti a (2 * n - 1) = y := by
  have hP' : P'.length + 2 = 2 * n := by
    have := congrArg List.length h; simp [List.length_take] at this; omega
  refine ⟨by omega, ?_, ?_⟩
  · rw [← geti_take a (2 * n) _ (by omega), h, show 2 * n - 2 = P'.length + 0 by omega, geti_append_right]; simp [geti]
  · rw [← geti_take a (2 * n) _ (by omega), h, show 2 * n - 1 = P'.length + 1 by omega, geti_append_right]; simp [geti]

theorem isMatched_iff (b : Builder) (hb : Inv b) (c : Nat) (hc : c < b.matchcount.length) (st : Stk)
    (hst : Rep (live b c) st) : isMatched b c = true ↔ st ≠ [] := by
  have hlen := (hb.slot c hc).1.1
  unfold isMatched
  simp only [hc, decide_true, Bool.true_and, Bool.and_eq_true, decide_eq_true_eq]
  rw [show cnt b c * 2 - 1 = 2 * cnt b c - 1 by omega]
  cases st with
  | nil =>
    simp only [ne_eq, not_true_eq_false, iff_false, not_and]
    intro hpos
    rcases rep_last hst with ⟨h0, _⟩ | ⟨P', x, y, heq, hcase⟩
    · have := live_length b hb c hc; rw [h0] at this; simp at this; omega
    · obtain ⟨_, _, gy⟩ := last_geti (arr b c) (cnt b c) hlen P' x y heq
      rcases hcase with ⟨_, _, st', _, hcontra⟩ | ⟨_, hy, _⟩
      · simp at hcontra
      · rw [gy, hy]; simp [topPos]
  | cons e st' =>
    obtain ⟨q, s, l⟩ := e
    obtain ⟨hn, _, _, _, _, hl, hlast⟩ := last_entry_cases (arr b c) (cnt b c) hlen q s l st' hst
    simp only [ne_eq, reduceCtorEq, not_false_eq_true, iff_true]
    refine ⟨by omega, ?_⟩
    rcases hlast with ⟨_, _, g⟩ | ⟨_, g⟩ <;> rw [g] <;> omega

theorem matchIndex_matchLength (b : Builder) (hb : Inv b) (c : Nat) (hc : c < b.matchcount.length)
    (q : Nat) (s l : Int) (st' : Stk) (hst : Rep (live b c) ((q, s, l) :: st')) :
    matchIndex b c = s ∧ matchLength b c = l := by
  have hlen := (hb.slot c hc).1.1
  obtain ⟨hn, hq, gs, gl, hs, hl, hlast⟩ := last_entry_cases (arr b c) (cnt b c) hlen q s l st' hst
  unfold matchIndex matchLength
  rw [show cnt b c * 2 - 2 = 2 * cnt b c - 2 by omega, show cnt b c * 2 - 1 = 2 * cnt b c - 1 by omega]
  rcases hlast with ⟨_, g1, g2⟩ | ⟨g1, g2⟩
  · rw [g1, g2]; simp [hs, hl]
  · rw [g1, g2]
    have e1 : ¬ (-3 - (q : Int) ≥ 0) := by omega
    have e2 : ¬ (-4 - (q : Int) ≥ 0) := by omega
    have e3 : (-3 - (-3 - (q : Int))).toNat = q := by omega
    have e4 : (-3 - (-4 - (q : Int))).toNat = q + 1 := by omega
    simp only [e1, e2, ite_false, e3, e4, gs, gl, and_self]

theorem inv_setBal (b : Builder) (hb : Inv b) : Inv { b with balancing := true } :=
  ⟨hb.len, hb.slot, by intro h; simp at h⟩

theorem live_balanceMatch (b : Builder) (hb : Inv b) (c : Nat) (hc : c < b.matchcount.length)
    (q : Nat) (s l : Int) (st' : Stk) (hst : Rep (live b c) ((q, s, l) :: st')) (c' : Nat) :
    live (balanceMatch b c) c' = (if c' = c then live b c ++ [-3 - topPos st', -4 - topPos st'] else live b c') ∧
    cnt (balanceMatch b c) c' = (if c' = c then cnt b c + 1 else cnt b c') ∧
    (balanceMatch b c).matchcount.length = b.matchcount.length ∧
    (balanceMatch b c).arrays.length = b.arrays.length ∧
    (balanceMatch b c).balancing = true ∧
    (c' < b.matchcount.length → SlotOK (arr (balanceMatch b c) c') (cnt (balanceMatch b c) c')) := by
  rw [balanceMatch_eq, balEntry_spec (arr b c) (cnt b c) (hb.slot c hc).1.1 q s l st' hst]
  obtain ⟨h1, h2, h3, h4, h5⟩ := live_addMatch _ (inv_setBal b hb) c hc (-3 - topPos st') (-4 - topPos st') c'
  exact ⟨h1, h2, h3, h4, rfl, h5⟩

theorem balanceMatch_inv (b : Builder) (hb : Inv b) (c : Nat) (hc : c < b.matchcount.length)
    (q : Nat) (s l : Int) (st' : Stk) (hst : Rep (live b c) ((q, s, l) :: st')) : Inv (balanceMatch b c) := by
  have key := live_balanceMatch b hb c hc q s l st' hst
  refine ⟨by rw [(key 0).2.2.2.1, (key 0).2.2.1]; exact hb.len, ?_, ?_⟩
  · intro c' hc'
    rw [(key c').2.2.1] at hc'
    refine ⟨(key c').2.2.2.2.2 hc', ?_⟩
    rw [(key c').1]
    by_cases h : c' = c
    · subst h; simp only [ite_true]; exact ⟨_, Rep.bal _ _ _ hst⟩
    · simp only [h, ite_false]; exact (hb.slot c' hc').2
  · intro hbal; rw [(key 0).2.2.2.2.1] at hbal; simp at hbal

/-! ### `removeMatch` -/

theorem live_removeMatch (b : Builder) (hb : Inv b) (c : Nat) (hc : c < b.matchcount.length) (c' : Nat) :
    live (removeMatch b c) c' = (if c' = c then (live b c).take (2 * (cnt b c - 1)) else live b c') ∧
    cnt (removeMatch b c) c' = (if c' = c then cnt b c - 1 else cnt b c') ∧
    arr (removeMatch b c) c' = arr b c' := by
  have hcnt : cnt (removeMatch b c) c' = (if c' = c then cnt b c - 1 else cnt b c') := by
    simp only [removeMatch, cnt, getD_set]
    by_cases h : c = c'
    · subst h; simp [hc]
    · have h' : ¬ c' = c := fun e => h e.symm
      simp [h, h']
  refine ⟨?_, hcnt, rfl⟩
  have harr : arr (removeMatch b c) c' = arr b c' := rfl
  simp only [live, harr, hcnt]
  by_cases h : c' = c
  · subst h; simp only [ite_true, List.take_take]
    congr 1; omega
  · simp only [h, ite_false]

theorem removeMatch_inv (b : Builder) (hb : Inv b) (c : Nat) (hc : c < b.matchcount.length) (hpos : 0 < cnt b c) :
    Inv (removeMatch b c) := by
  have key := live_removeMatch b hb c hc
  have hmc : (removeMatch b c).matchcount.length = b.matchcount.length := by simp [removeMatch]
  refine ⟨by rw [hmc]; exact hb.len, ?_, ?_⟩
  · intro c' hc'
    rw [hmc] at hc'
    obtain ⟨⟨s1, s2⟩, st, hst⟩ := hb.slot c' hc'
    rw [(key c').1, (key c').2.1, (key c').2.2]
    by_cases h : c' = c
    · subst h
      simp only [ite_true]
      refine ⟨⟨by omega, s2⟩, ?_⟩
      rcases rep_last hst with ⟨h0, _⟩ | ⟨P', x, y, heq, _⟩
      · have := live_length b hb c' hc'; rw [h0] at this; simp at this; omega
      · have hP' : P'.length + 2 = 2 * cnt b c' := by
          have := congrArg List.length heq; rw [live_length b hb c' hc'] at this; simp at this; omega
        have : (live b c').take (2 * (cnt b c' - 1)) = P' := by
          rw [heq, List.take_append_of_le_length (by omega), List.take_of_length_le (by omega)]
        rw [this]
        rw [heq] at hst
        exact rep_dropLast hst
    · simp only [h, ite_false]; exact ⟨⟨s1, s2⟩, st, hst⟩
  · intro hbal c' hc' x hx
    rw [hmc] at hc'
    have hbal' : b.balancing = false := hbal
    rw [(key c').1] at hx
    by_cases h : c' = c
    · subst h; simp only [ite_true] at hx
      exact hb.nobal hbal' c' hc' x (List.mem_of_mem_take hx)
    · simp only [h, ite_false] at hx
      exact hb.nobal hbal' c' hc' x hx

/-- `removeMatch` right after an entry was appended to slot `c` restores every live prefix -/
theorem live_remove_after_append (b b2 : Builder) (hb : Inv b) (hb2 : Inv b2) (c : Nat) (hc : c < b.matchcount.length)
    (hmc : b2.matchcount.length = b.matchcount.length) (x y : Int)
    (hlive : ∀ c', live b2 c' = (if c' = c then live b c ++ [x, y] else live b c'))
    (hcnt : ∀ c', cnt b2 c' = (if c' = c then cnt b c + 1 else cnt b c')) (c' : Nat) :
    live (removeMatch b2 c) c' = live b c' ∧ cnt (removeMatch b2 c) c' = cnt b c' := by
  obtain ⟨h1, h2, _⟩ := live_removeMatch b2 hb2 c (by omega) c'
  rw [h1, h2, hlive c', hcnt c', hlive c, hcnt c]
  by_cases h : c' = c
  · subst h
    simp only [ite_true, Nat.add_sub_cancel]
    refine ⟨?_, trivial⟩
    rw [List.take_append_of_le_length (by rw [live_length b hb c' hc]; exact Nat.le_refl _), List.take_of_length_le (by rw [live_length b hb c' hc]; exact Nat.le_refl _)]
  · simp only [h, ite_false, and_self]

/-! ### `tidy` -/

/-- the entry-wise reading `tidy` performs: a negative entry drops the last kept entry, any other
    entry is kept -/
def stepE (acc : List Int) (x : Int) : List Int := if x < 0 then acc.dropLast else acc ++ [x]

def flat (L : List (Int × Int)) : List Int := L.flatMap (fun p => [p.1, p.2])

theorem flat_append (L M : List (Int × Int)) : flat (L ++ M) = flat L ++ flat M := by simp [flat]

theorem flat_length (L : List (Int × Int)) : (flat L).length = 2 * L.length := by
  induction L with
  | nil => rfl
  | cons p L ih => simp [flat] at ih ⊢; omega

theorem foldl_stepE_nonneg (L acc : List Int) (h : ∀ x ∈ L, 0 ≤ x) : L.foldl stepE acc = acc ++ L := by
  induction L generalizing acc with
  | nil => simp
  | cons x L ih =>
    have hx : ¬ x < 0 := by have := h x (by simp); omega
    simp only [List.foldl_cons, stepE, hx, ite_false]
    rw [ih _ (fun y hy => h y (by simp [hy]))]; simp

theorem rep_fold {P : List Int} {st : Stk} (h : Rep P st) : P.foldl stepE [] = flat (vals st).reverse := by
  induction h with
  | nil => rfl
  | push P st s l _ hs hl ih =>
    have h1 : ¬ s < 0 := by omega
    have h2 : ¬ l < 0 := by omega
    simp [List.foldl_append, ih, stepE, h1, h2, vals, flat_append, flat]
  | bal P c st _ ih =>
    have h1 : -3 - topPos st < 0 := by have := topPos_ge st; omega
    have h2 : -4 - topPos st < 0 := by have := topPos_ge st; omega
    simp only [List.foldl_append, ih, List.foldl_cons, List.foldl_nil, stepE, h1, h2, ite_true]
    simp only [vals, List.map_cons, List.reverse_cons, flat_append]
    simp [flat, List.dropLast_append_cons]

theorem dropLast_take (a : List Int) (j : Nat) (h : j ≤ a.length) : (a.take j).dropLast = a.take (j - 1) := by
  rw [List.dropLast_eq_take, List.take_take]
  simp [List.length_take, Nat.min_eq_left h]

theorem take_set_succ (a : List Int) (j : Nat) (x : Int) (h : j < a.length) : (a.set j x).take (j + 1) = a.take j ++ [x] := by
  induction j generalizing a with
  | zero => match a, h with
    | a0 :: rest, _ => simp
  | succ j ih => match a, h with
    | a0 :: rest, h => simp [ih rest (by simpa using h)]

theorem drop_set_lt (a : List Int) (j i : Nat) (x : Int) (h : j < i) : (a.set j x).drop i = a.drop i := by
  induction j generalizing a i with
  | zero => match a, i, h with
    | [], _, _ => simp
    | a0 :: rest, i + 1, _ => simp
  | succ j ih => match a, i, h with
    | [], _, _ => simp
    | a0 :: rest, i + 1, h => simp [ih rest i (by omega)]

theorem geti_eq_getElem (a : List Int) (i : Nat) (h : i < a.length) : geti a i = a[i] := by
  simp [geti, List.getD, List.getElem?_eq_getElem h]

theorem compactLoop_spec : ∀ (k : Nat) (a : List Int) (i j : Nat), j ≤ i → i + k ≤ a.length →
    (compactLoop k a i j).1.take (compactLoop k a i j).2 = ((a.drop i).take k).foldl stepE (a.take j) ∧
    (compactLoop k a i j).2 = (((a.drop i).take k).foldl stepE (a.take j)).length ∧
    (compactLoop k a i j).1.length = a.length := by
  intro k
  induction k with
  | zero =>
    intro a i j hji hlen
    simp [compactLoop, List.length_take]; omega
  | succ k ih =>
    intro a i j hji hlen
    have hi : i < a.length := by omega
    have hdrop : (a.drop i).take (k + 1) = a[i] :: (a.drop (i + 1)).take k := by
      rw [List.drop_eq_getElem_cons hi, List.take_succ_cons]
    rw [hdrop, List.foldl_cons]
    have hg := geti_eq_getElem a i hi
    unfold compactLoop
    by_cases hneg : geti a i < 0
    · simp only [hneg, ite_true]
      have := ih a (i + 1) (j - 1) (by omega) (by omega)
      have hstep : stepE (a.take j) a[i] = a.take (j - 1) := by
        rw [← hg]; simp only [stepE, hneg, ite_true]; exact dropLast_take a j (by omega)
      rw [hstep]; exact this
    · simp only [hneg, ite_false]
      have hset : (if i ≠ j then a.set j (geti a i) else a) = a.set j a[i] := by
        by_cases hij : i = j
        · subst hij; simp
        · simp [hij, hg]
      rw [hset]
      have hj : j < a.length := by omega
      have := ih (a.set j a[i]) (i + 1) (j + 1) (by omega) (by simp; omega)
      rw [take_set_succ a j _ hj, drop_set_lt a j (i + 1) _ (by omega)] at this
      have hstep : stepE (a.take j) a[i] = a.take j ++ [a[i]] := by
        rw [← hg]; simp only [stepE, hneg, ite_false]
      rw [hstep]
      refine ⟨this.1, this.2.1, ?_⟩
      rw [this.2.2]; simp

theorem firstNeg_spec (a : List Int) : ∀ (k i : Nat),
    i ≤ firstNeg a k i ∧ firstNeg a k i ≤ i + k ∧ ∀ t, i ≤ t → t < firstNeg a k i → 0 ≤ geti a t := by
  intro k
  induction k with
  | zero => intro i; simp [firstNeg]; intro t h1 h2; omega
  | succ k ih =>
    intro i
    unfold firstNeg
    by_cases h : geti a i < 0
    · simp only [h, ite_true]; exact ⟨Nat.le_refl _, by omega, by intro t h1 h2; omega⟩
    · simp only [h, ite_false]
      obtain ⟨h1, h2, h3⟩ := ih (i + 1)
      refine ⟨by omega, by omega, ?_⟩
      intro t ht1 ht2
      by_cases hti : t = i
      · subst hti; omega
      · exact h3 t (by omega) ht2

theorem tidySlot_spec (a : List Int) (n : Nat) (hlen : 2 * n ≤ a.length) :
    (tidySlot a n).1.take ((a.take (2 * n)).foldl stepE []).length = (a.take (2 * n)).foldl stepE [] ∧
    (tidySlot a n).2 = ((a.take (2 * n)).foldl stepE []).length / 2 ∧
    (tidySlot a n).1.length = a.length := by
  obtain ⟨_, hi0, hnn⟩ := firstNeg_spec a (n * 2) 0
  have hsplit : a.take (2 * n) = a.take (firstNeg a (n * 2) 0) ++ (a.drop (firstNeg a (n * 2) 0)).take (n * 2 - firstNeg a (n * 2) 0) := by
    rw [← List.take_add]; congr 1; omega
  have hpre : ∀ x ∈ a.take (firstNeg a (n * 2) 0), 0 ≤ x := by
    intro x hx
    obtain ⟨t, ht, rfl⟩ := List.mem_iff_getElem.mp hx
    have ht' : t < firstNeg a (n * 2) 0 := by simp [List.length_take] at ht; omega
    have hta : t < a.length := by omega
    rw [List.getElem_take, ← geti_eq_getElem a t hta]
    exact hnn t (Nat.zero_le _) ht'
  have hfold : (a.take (2 * n)).foldl stepE [] =
      ((a.drop (firstNeg a (n * 2) 0)).take (n * 2 - firstNeg a (n * 2) 0)).foldl stepE (a.take (firstNeg a (n * 2) 0)) := by
    rw [hsplit, List.foldl_append, foldl_stepE_nonneg _ _ hpre]; simp
  obtain ⟨c1, c2, c3⟩ := compactLoop_spec (n * 2 - firstNeg a (n * 2) 0) a (firstNeg a (n * 2) 0) (firstNeg a (n * 2) 0)
    (Nat.le_refl _) (by omega)
  unfold tidySlot
  simp only
  rw [hfold, ← c2]
  exact ⟨c1, rfl, c3⟩

theorem tidySlots_getD (as : List (List Int)) (ns : List Nat) (h : as.length = ns.length) (c : Nat) (hc : c < as.length) :
    ((tidySlots as ns).map (·.1)).getD c [] = (tidySlot (as.getD c []) (ns.getD c 0)).1 ∧
    ((tidySlots as ns).map (·.2)).getD c 0 = (tidySlot (as.getD c []) (ns.getD c 0)).2 ∧
    (tidySlots as ns).length = as.length := by
  induction as generalizing ns c with
  | nil => simp at hc
  | cons a as ih =>
    match ns, h with
    | n :: ns, h =>
      have h' : as.length = ns.length := by simpa using h
      have hl : (tidySlots as ns).length = as.length := by
        cases as with
        | nil => cases ns with
          | nil => simp [tidySlots]
          | cons _ _ => simp at h'
        | cons a' as' => exact (ih ns h' 0 (by simp)).2.2
      cases c with
      | zero => simp [tidySlots, hl]
      | succ c =>
        have := ih ns h' c (by simpa using hc)
        simp [tidySlots, hl] at this ⊢
        exact ⟨this.1, this.2⟩

/-- from a list of well-formed captures: the flat array is a represented prefix -/
theorem rep_of_pairs (L : List (Int × Int)) (hL : ∀ p ∈ L, 0 ≤ p.1 ∧ 0 ≤ p.2) (P0 : List Int) (st0 : Stk) (h0 : Rep P0 st0) :
    ∃ st, Rep (P0 ++ flat L) st ∧ vals st = L.reverse ++ vals st0 := by
  induction L generalizing P0 st0 with
  | nil => exact ⟨st0, by simpa [flat] using h0, by simp⟩
  | cons p L ih =>
    obtain ⟨s, l⟩ := p
    have hp := hL (s, l) (by simp)
    obtain ⟨st, h1, h2⟩ := ih (fun q hq => hL q (by simp [hq])) (P0 ++ [s, l]) _ (Rep.push P0 st0 s l h0 hp.1 hp.2)
    refine ⟨st, ?_, ?_⟩
    · have : P0 ++ flat ((s, l) :: L) = (P0 ++ [s, l]) ++ flat L := by simp [flat]
      rw [this]; exact h1
    · rw [h2]; simp [vals]

theorem vals_nonneg {P : List Int} {st : Stk} (h : Rep P st) : ∀ p ∈ (vals st).reverse, 0 ≤ p.1 ∧ 0 ≤ p.2 := by
  intro p hp
  simp only [vals, List.mem_reverse, List.mem_map] at hp
  obtain ⟨e, he, rfl⟩ := hp
  have := rep_vals h e he
  exact ⟨this.2.2.2.1, this.2.2.2.2⟩

/-- effect of `tidy` on one slot of an invariant-respecting builder -/
theorem tidy_slot (b : Builder) (hb : Inv b) (c : Nat) (hc : c < b.matchcount.length) (st : Stk)
    (hst : Rep (live b c) st) :
    live (tidy b) c = flat (vals st).reverse ∧ cnt (tidy b) c = st.length ∧
    (arr (tidy b) c).length = (arr b c).length := by
  have hlen := (hb.slot c hc).1.1
  have hF := rep_fold hst
  have hFl : (flat (vals st).reverse).length = 2 * st.length := by rw [flat_length]; simp [vals]
  unfold tidy
  by_cases hbal : b.balancing = true
  · simp only [hbal, ite_true]
    obtain ⟨g1, g2, g3⟩ := tidySlots_getD b.arrays b.matchcount hb.len c (by rw [hb.len]; exact hc)
    obtain ⟨t1, t2, t3⟩ := tidySlot_spec (arr b c) (cnt b c) hlen
    have harr : arr { arrays := (tidySlots b.arrays b.matchcount).map (·.1), matchcount := (tidySlots b.arrays b.matchcount).map (·.2), balancing := false } c = (tidySlot (arr b c) (cnt b c)).1 := g1
    have hcnt : cnt { arrays := (tidySlots b.arrays b.matchcount).map (·.1), matchcount := (tidySlots b.arrays b.matchcount).map (·.2), balancing := false } c = (tidySlot (arr b c) (cnt b c)).2 := g2
    have hF' : (List.take (2 * cnt b c) (arr b c)).foldl stepE [] = flat (vals st).reverse := hF
    rw [hF'] at t1 t2
    rw [hFl] at t1 t2
    refine ⟨?_, ?_, ?_⟩
    · simp only [live, harr, hcnt, t2]
      rw [show 2 * (2 * st.length / 2) = 2 * st.length by omega]; exact t1
    · rw [hcnt, t2]; omega
    · rw [harr, t3]
  · have hbal' : b.balancing = false := by simpa using hbal
    simp only [hbal', Bool.false_eq_true, ite_false]
    have hnn := hb.nobal hbal' c hc
    have : live b c = flat (vals st).reverse := by
      rw [← hF, foldl_stepE_nonneg _ _ hnn]; simp
    refine ⟨this, ?_, by first | rfl | trivial⟩
    have h1 := live_length b hb c hc
    rw [this, hFl] at h1; omega

/-! ### `Groups()` on a tidied slot -/

theorem geti_flat (L : List (Int × Int)) (i : Nat) (h : i < L.length) :
    geti (flat L) (i * 2) = L[i].1 ∧ geti (flat L) (i * 2 + 1) = L[i].2 := by
  induction L generalizing i with
  | nil => simp at h
  | cons p L ih =>
    cases i with
    | zero => simp [flat, geti]
    | succ i =>
      have := ih i (by simpa using h)
      have e1 : (i + 1) * 2 = [p.1, p.2].length + i * 2 := by simp; omega
      have e2 : (i + 1) * 2 + 1 = [p.1, p.2].length + (i * 2 + 1) := by simp; omega
      have hf : flat (p :: L) = [p.1, p.2] ++ flat L := by simp [flat]
      rw [hf, e2, e1, geti_append_right, geti_append_right]
      simpa using this

theorem newGroup_of_flat (caps : List Int) (L : List (Int × Int)) (h : caps.take (2 * L.length) = flat L) :
    newGroup caps L.length = (L.getLast?.getD (0, 0), L) := by
  have hg : ∀ i (hi : i < L.length), geti caps (i * 2) = L[i].1 ∧ geti caps (i * 2 + 1) = L[i].2 := by
    intro i hi
    have := geti_flat L i hi
    rw [← h, geti_take _ _ _ (by omega), geti_take _ _ _ (by omega)] at this
    exact this
  unfold newGroup
  have hcaps : (List.range L.length).map (fun i => (geti caps (i * 2), geti caps (i * 2 + 1))) = L := by
    apply List.ext_getElem
    · simp
    · intro i h1 h2
      have hi : i < L.length := by simpa using h1
      simp only [List.getElem_map, List.getElem_range]
      rw [(hg i hi).1, (hg i hi).2]
  simp only [hcaps, Prod.mk.injEq, and_true]
  by_cases hpos : L.length > 0
  · simp only [hpos, ite_true]
    have h1 := hg (L.length - 1) (by omega)
    rw [show L.length * 2 - 1 = (L.length - 1) * 2 + 1 by omega, h1.1, h1.2]
    rw [List.getLast?_eq_getElem?]
    simp [List.getElem?_eq_getElem (show L.length - 1 < L.length by omega)]
  · have : L = [] := by cases L with
      | nil => rfl
      | cons _ _ => simp at hpos
    subst this; simp

/-! ### bounds -/

/-- every real (non-negative) entry pair of a flat prefix is a well-formed interval inside `[0, N]` -/
def Bounded (N : Int) (P : List Int) : Prop := ∀ p ∈ pairsOf P, 0 ≤ p.1 → 0 ≤ p.2 ∧ p.1 + p.2 ≤ N

theorem pairsOf_append_pair_aux (n : Nat) : ∀ (P : List Int) (x y : Int), P.length = 2 * n →
    pairsOf (P ++ [x, y]) = pairsOf P ++ [(x, y)] := by
  induction n with
  | zero =>
    intro P x y h
    have : P = [] := by simpa using h
    subst this; simp [pairsOf]
  | succ n ih =>
    intro P x y h
    match P, h with
    | a :: b :: rest, h =>
      have hr : rest.length = 2 * n := by simp at h; omega
      simp [pairsOf, ih rest x y hr]

theorem pairsOf_append_pair (P : List Int) (x y : Int) (he : P.length % 2 = 0) :
    pairsOf (P ++ [x, y]) = pairsOf P ++ [(x, y)] :=
  pairsOf_append_pair_aux (P.length / 2) P x y (by omega)

theorem rep_mem_pairs {P : List Int} {st : Stk} (h : Rep P st) : ∀ p ∈ vals st, p ∈ pairsOf P := by
  induction h with
  | nil => simp [vals]
  | push P st s l hr _ _ ih =>
    intro p hp
    rw [pairsOf_append_pair _ _ _ (rep_even hr)]
    simp only [vals, List.map_cons, List.mem_cons] at hp
    rcases hp with rfl | hp
    · simp
    · exact List.mem_append_left _ (ih p hp)
  | bal P c st hr ih =>
    intro p hp
    rw [pairsOf_append_pair _ _ _ (rep_even hr)]
    exact List.mem_append_left _ (ih p (by simp only [vals, List.map_cons, List.mem_cons]; right; exact hp))

theorem tail_reverse_eq {α : Type} (l : List α) : l.tail.reverse = l.reverse.dropLast := by
  cases l with
  | nil => rfl
  | cons a t => simp

end RegexVerif.Lemmas.MatchBuilder
