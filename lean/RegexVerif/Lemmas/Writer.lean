/-
Lemmas about the writer model (Model/Writer.lean): sizes, compositionality, jump locality,
well-formedness of the emitted program, track count, the bool-only program.
-/
import RegexVerif.Model.Writer
import RegexVerif.Model.Capacity

namespace RegexVerif.Writer
open RegexVerif.Generated.Opcodes

/-! ### code length -/

theorem codeLen_append (x y : Code) : codeLen (x ++ y) = codeLen x + codeLen y := by
  induction x with
  | nil => simp [codeLen]
  | cons i r ih => simp [codeLen, ih]; omega

@[simp] theorem codeLen_nil : codeLen [] = 0 := rfl
@[simp] theorem codeLen_cons (i : Instr) (r : Code) : codeLen (i :: r) = 1 + i.args.length + codeLen r := rfl
@[simp] theorem i0_args (op : Nat) : (i0 op).args = [] := rfl
@[simp] theorem i1_args (op : Nat) (a : Int) : (i1 op a).args = [a] := rfl
@[simp] theorem i2_args (op : Nat) (a b : Int) : (i2 op a b).args = [a, b] := rfl
@[simp] theorem i0_op (op : Nat) : (i0 op).op = op := rfl
@[simp] theorem i1_op (op : Nat) (a : Int) : (i1 op a).op = op := rfl
@[simp] theorem i2_op (op : Nat) (a b : Int) : (i2 op a b).op = op := rfl

theorem flatten_append (x y : Code) : flatten (x ++ y) = flatten x ++ flatten y := by
  induction x with
  | nil => simp [flatten]
  | cons i r ih => simp [flatten, ih]

theorem flatten_length (x : Code) : (flatten x).length = codeLen x := by
  induction x with
  | nil => simp [flatten]
  | cons i r ih => simp [flatten, Instr.words, ih]; omega

mutual
theorem emitNode_size (cfg : Cfg) : ∀ (n : GoNode) (a : Nat) (tb : Tables),
    codeLen (emitNode cfg a tb n).1 = size cfg n
  | .empty, a, tb => by simp [emitNode, size]
  | .bare t, a, tb => by simp [emitNode, size]
  | .char t rtl ci ch, a, tb => by simp [emitNode, size]
  | .set rtl ci s, a, tb => by simp [emitNode, size]
  | .multi rtl ci s, a, tb => by simp [emitNode, size]
  | .ref rtl ci m, a, tb => by simp [emitNode, size]
  | .charloop t rtl ci ch m n, a, tb => by
    simp only [emitNode, size, repLen, codeLen_append]
    by_cases h1 : m > 0 <;> by_cases h2 : n > m <;> simp [h1, h2]
  | .setloop t rtl ci s m n, a, tb => by
    simp only [emitNode, size, repLen, codeLen_append]
    by_cases h1 : m > 0 <;> by_cases h2 : n > m <;> simp [h1, h2]
  | .concat cs, a, tb => by simp only [emitNode, size]; exact emitList_size cfg cs a tb
  | .alt cs, a, tb => by simp only [emitNode, size]; exact emitAlt_size cfg cs a _ tb
  | .loop lzy m n c, a, tb => by
    simp only [emitNode, size, codeLen_append, emitNode_size cfg c, loopHeadLen, loopTailLen]
    split <;> split <;> simp <;> omega
  | .capture m n c, a, tb => by
    simp only [emitNode, size]
    split
    · simp [codeLen_append, emitNode_size cfg c]; omega
    · exact emitNode_size cfg c a tb
  | .group c, a, tb => by simp only [emitNode, size]; exact emitNode_size cfg c a tb
  | .poslook c, a, tb => by simp [emitNode, size, codeLen_append, emitNode_size cfg c]; omega
  | .neglook c, a, tb => by simp [emitNode, size, codeLen_append, emitNode_size cfg c]; omega
  | .atomic c, a, tb => by simp [emitNode, size, codeLen_append, emitNode_size cfg c]; omega
  | .backrefcond1 m y, a, tb => by simp [emitNode, size, codeLen_append, emitNode_size cfg y]; omega
  | .backrefcond2 m y n, a, tb => by
    simp [emitNode, size, codeLen_append, emitNode_size cfg y, emitNode_size cfg n]; omega
  | .exprcond2 c y, a, tb => by
    simp [emitNode, size, codeLen_append, emitNode_size cfg c, emitNode_size cfg y]; omega
  | .exprcond3 c y n, a, tb => by
    simp [emitNode, size, codeLen_append, emitNode_size cfg c, emitNode_size cfg y, emitNode_size cfg n]; omega
  | .other t, a, tb => by simp [emitNode, size]
theorem emitList_size (cfg : Cfg) : ∀ (cs : List GoNode) (a : Nat) (tb : Tables),
    codeLen (emitList cfg a tb cs).1 = sizeList cfg cs
  | [], a, tb => by simp [emitList, sizeList]
  | c :: cs, a, tb => by
    simp [emitList, sizeList, codeLen_append, emitNode_size cfg c, emitList_size cfg cs]
theorem emitAlt_size (cfg : Cfg) : ∀ (cs : List GoNode) (a fin : Nat) (tb : Tables),
    codeLen (emitAlt cfg a fin tb cs).1 = sizeAlt cfg cs
  | [], a, fin, tb => by simp [emitAlt, sizeAlt]
  | c :: cs, a, fin, tb => by
    simp only [emitAlt, sizeAlt]
    split
    · exact emitNode_size cfg c a tb
    · simp [codeLen_append, emitNode_size cfg c, emitAlt_size cfg cs]; omega
end

/-! ### instruction boundaries and jump locality -/

/-- the opcode word (modifier bits allowed) is a branching opcode -/
def isJump (op : Nat) : Bool := jumpOps.contains (op % (flagMask + 1))

/-- the code positions a jump instruction names (first operand of the branching opcodes) -/
def Instr.targets (i : Instr) : List Int := if isJump i.op then i.args.take 1 else []

/-- the offsets at which the instructions of `code` start when its first word is at `a`, followed by
    the offset just behind it -/
def starts (a : Nat) : Code → List Nat
  | [] => [a]
  | i :: r => a :: starts (a + (1 + i.args.length)) r

/-- every jump of `c` goes to one of the offsets `S` -/
def JOk (S : List Nat) (c : Code) : Prop := ∀ i ∈ c, ∀ t ∈ i.targets, ∃ k ∈ S, t = (k : Int)

theorem mem_starts_bounds : ∀ (c : Code) (a k : Nat), k ∈ starts a c → a ≤ k ∧ k ≤ a + codeLen c
  | [], a, k, h => by simp [starts] at h; simp [h]
  | i :: r, a, k, h => by
    simp only [starts, List.mem_cons] at h
    rcases h with h | h
    · simp [h]
    · have := mem_starts_bounds r _ k h
      simp only [codeLen_cons]; omega

theorem starts_self (c : Code) (a : Nat) : a ∈ starts a c := by
  cases c <;> simp [starts]

theorem starts_end : ∀ (c : Code) (a : Nat), a + codeLen c ∈ starts a c
  | [], a => by simp [starts]
  | i :: r, a => by
    simp only [starts, codeLen_cons, List.mem_cons]
    right
    have := starts_end r (a + (1 + i.args.length))
    rwa [show a + (1 + i.args.length + codeLen r) = a + (1 + i.args.length) + codeLen r by omega]

theorem mem_starts_append : ∀ (x y : Code) (a k : Nat),
    k ∈ starts a (x ++ y) ↔ k ∈ starts a x ∨ k ∈ starts (a + codeLen x) y
  | [], y, a, k => by
    simp only [List.nil_append, starts, codeLen_nil, Nat.add_zero, List.mem_singleton]
    constructor
    · exact Or.inr
    · rintro (h | h)
      · subst h; exact starts_self y k
      · exact h
  | i :: r, y, a, k => by
    simp only [List.cons_append, starts, List.mem_cons, codeLen_cons, mem_starts_append r y]
    rw [show a + (1 + i.args.length) + codeLen r = a + (1 + i.args.length + codeLen r) by omega]
    constructor
    · rintro (h | h | h) <;> simp [h]
    · rintro ((h | h) | h) <;> simp [h]

/-- the boundaries of a piece of a larger fragment are boundaries of the fragment -/
theorem mem_starts_of_split {c x y z : Code} {a b k : Nat} (hc : c = x ++ y ++ z) (hb : b = a + codeLen x)
    (hk : k ∈ starts b y) : k ∈ starts a c := by
  subst hc hb
  rw [mem_starts_append, mem_starts_append]
  exact Or.inl (Or.inr hk)

theorem JOk_nil (S : List Nat) : JOk S [] := by intro i hi; cases hi

theorem JOk_append {S : List Nat} {x y : Code} : JOk S (x ++ y) ↔ JOk S x ∧ JOk S y := by
  simp only [JOk, List.mem_append]
  constructor
  · intro h; exact ⟨fun i hi => h i (Or.inl hi), fun i hi => h i (Or.inr hi)⟩
  · rintro ⟨h1, h2⟩ i (hi | hi)
    · exact h1 i hi
    · exact h2 i hi

theorem JOk_cons {S : List Nat} {i : Instr} {r : Code} :
    JOk S (i :: r) ↔ (∀ t ∈ i.targets, ∃ k ∈ S, t = (k : Int)) ∧ JOk S r := by
  simp [JOk]

theorem JOk_mono {S S' : List Nat} {c : Code} (h : ∀ k ∈ S, k ∈ S') (hc : JOk S c) : JOk S' c := by
  intro i hi t ht
  obtain ⟨k, hk, e⟩ := hc i hi t ht
  exact ⟨k, h k hk, e⟩

@[simp] theorem targets_i0 (op : Nat) : (i0 op).targets = [] := by simp [Instr.targets]

theorem targets_i1 (op : Nat) (x : Int) :
    (i1 op x).targets = if isJump op then [x] else [] := by
  simp [Instr.targets]

theorem targets_i2 (op : Nat) (x y : Int) :
    (i2 op x y).targets = if isJump op then [x] else [] := by
  by_cases h : isJump op = true <;> simp [Instr.targets, h]

/-- the modifier bits do not change the opcode (`op & Mask`) of a leaf -/
theorem opcode_bits : ∀ t, t < 64 → ∀ rtl ci, (t ||| bits rtl ci) % (flagMask + 1) = t := by decide

set_option linter.unusedSimpArgs false

theorem mem_starts_left {x y : Code} {a k : Nat} (h : k ∈ starts a x) : k ∈ starts a (x ++ y) :=
  (mem_starts_append x y a k).2 (Or.inl h)

theorem mem_starts_right' {x y : Code} {a b k : Nat} (h : k ∈ starts b y) (hb : b = a + codeLen x) :
    k ∈ starts a (x ++ y) :=
  (mem_starts_append x y a k).2 (Or.inr (hb ▸ h))

theorem starts_self' {c : Code} {a k : Nat} (h : k = a) : k ∈ starts a c := h ▸ starts_self c k
theorem starts_end' {c : Code} {a k : Nat} (h : k = a + codeLen c) : k ∈ starts a c := h ▸ starts_end c a

syntax "pick_one" : tactic
macro_rules | `(tactic| pick_one) => `(tactic|
  first | omega | exact starts_self' (by omega) | exact starts_end' (by omega))
syntax "pick_disj" : tactic
macro_rules | `(tactic| pick_disj) => `(tactic| first | pick_one | (left; pick_one) | (right; pick_disj))

/-- `k ∈ starts a c` for a `c` whose literal parts are explicit: unfold and pick the disjunct -/
syntax "mem_starts" : tactic
macro_rules | `(tactic| mem_starts) => `(tactic|
  (simp only [starts, mem_starts_append, List.mem_cons, List.mem_singleton, codeLen_cons, codeLen_nil, codeLen_append,
      i0_args, i1_args, i2_args, List.length_nil, List.length_cons, List.cons_append, List.nil_append, List.append_assoc,
      List.not_mem_nil, or_false, or_assoc, true_or, or_true]
   first | done | pick_disj))

/-- `k ∈ starts a (… ++ y ++ …)` from an assumption `k ∈ starts b y` -/
syntax "sub_starts" : tactic
macro_rules | `(tactic| sub_starts) => `(tactic|
  first
  | assumption
  | exact mem_starts_right' (by assumption) (by
      first
      | (simp only [codeLen_append, codeLen_cons, codeLen_nil, i0_args, i1_args, i2_args, List.length_nil,
          List.length_cons] <;> omega)
      | omega)
  | (apply mem_starts_left; sub_starts))

theorem isJump_vals : isJump opLazybranch = true ∧ isJump opGoto = true ∧ isJump opBranchcount = true ∧
    isJump (opBranchcount + 1) = true ∧ isJump opBranchmark = true ∧ isJump (opBranchmark + 1) = true ∧
    isJump opTestref = false ∧ isJump opNullcount = false ∧ isJump opSetcount = false ∧
    isJump opCapturemark = false := by decide

/-- the opcodes of the leaf instructions -/
def leafOps : List Nat :=
  bareTypes ++ charTypes ++ charloopTypes ++ setloopTypes ++ [opSet, opMulti, opRef, opOnerep, opNotonerep, opSetrep]

theorem leaf_not_jump : ∀ t ∈ leafOps, ∀ rtl ci, isJump (t ||| bits rtl ci) = false := by decide

theorem JOk_i0 (S : List Nat) (op : Nat) : JOk S [i0 op] := by simp [JOk_cons, JOk_nil]
theorem JOk_i1_nonjump {S : List Nat} {op : Nat} {x : Int} (h : isJump op = false) : JOk S [i1 op x] := by
  simp [JOk_cons, JOk_nil, targets_i1, h]
theorem JOk_i2_nonjump {S : List Nat} {op : Nat} {x y : Int} (h : isJump op = false) : JOk S [i2 op x y] := by
  simp [JOk_cons, JOk_nil, targets_i2, h]

/-- what remains of `JOk S c` for an explicit `c`: one `∃ k ∈ S` per jump, one `JOk S cᵢ` per child -/
syntax "jok_norm" : tactic
macro_rules | `(tactic| jok_norm) => `(tactic|
  simp only [JOk_append, JOk_cons, JOk_nil, and_true, targets_i0, targets_i1, targets_i2, isJump_vals, if_true,
    List.mem_singleton, List.not_mem_nil, forall_eq, false_implies, implies_true, true_and, Bool.false_eq_true, if_false])

/-- a jump operand written as a position of the fragment -/
syntax "jok_jump" : tactic
macro_rules | `(tactic| jok_jump) => `(tactic| (refine ⟨_, ?_, rfl⟩; mem_starts))

/-- a child fragment inside the frame -/
syntax "jok_child" term : tactic
macro_rules | `(tactic| jok_child $ih) => `(tactic| (refine JOk_mono (fun k hk => ?_) $ih; sub_starts))

set_option linter.unusedVariables false

theorem mem_leaf_bare {t : Nat} (h : bareTypes.contains t = true) : t ∈ leafOps := by
  simp only [List.contains_iff_mem] at h; simp [leafOps, h]
theorem mem_leaf_char {t : Nat} (h : charTypes.contains t = true) : t ∈ leafOps := by
  simp only [List.contains_iff_mem] at h; simp [leafOps, h]
theorem mem_leaf_charloop {t : Nat} (h : charloopTypes.contains t = true) : t ∈ leafOps := by
  simp only [List.contains_iff_mem] at h; simp [leafOps, h]
theorem mem_leaf_setloop {t : Nat} (h : setloopTypes.contains t = true) : t ∈ leafOps := by
  simp only [List.contains_iff_mem] at h; simp [leafOps, h]

theorem JOk_if {S : List Nat} {p : Prop} [Decidable p] {c : Code} (h : JOk S c) : JOk S (if p then c else []) := by
  split
  · exact h
  · exact JOk_nil S

theorem rep_not_jump (b : Bool) (rtl ci : Bool) : isJump ((if b = true then opOnerep else opNotonerep) ||| bits rtl ci) = false := by
  cases b
  · exact leaf_not_jump opNotonerep (by decide) rtl ci
  · exact leaf_not_jump opOnerep (by decide) rtl ci

syntax "jok_all" : tactic
macro_rules | `(tactic| jok_all) => `(tactic|
  (jok_norm
   (try simp only [List.append_nil])
   (repeat' apply And.intro)
   all_goals first | jok_jump | jok_child (by assumption)))

mutual
theorem emitNode_jumps (cfg : Cfg) : ∀ (n : GoNode) (a : Nat) (tb : Tables), n.ok = true →
    JOk (starts a (emitNode cfg a tb n).1) (emitNode cfg a tb n).1
  | .empty, a, tb, _ => by simp only [emitNode]; exact JOk_nil _
  | .bare t, a, tb, _ => by simp only [emitNode]; exact JOk_i0 _ _
  | .char t rtl ci ch, a, tb, h => by
    simp only [emitNode]
    exact JOk_i1_nonjump (leaf_not_jump t (mem_leaf_char (by simpa [GoNode.ok] using h)) rtl ci)
  | .set rtl ci s, a, tb, h => by
    simp only [emitNode]
    exact JOk_i1_nonjump (leaf_not_jump opSet (by decide) rtl ci)
  | .multi rtl ci s, a, tb, h => by
    simp only [emitNode]
    exact JOk_i1_nonjump (leaf_not_jump opMulti (by decide) rtl ci)
  | .ref rtl ci m, a, tb, h => by
    simp only [emitNode]
    exact JOk_i1_nonjump (leaf_not_jump opRef (by decide) rtl ci)
  | .charloop t rtl ci ch m n, a, tb, h => by
    simp only [emitNode]
    refine JOk_append.2 ⟨JOk_if ?_, JOk_if ?_⟩
    · exact JOk_i2_nonjump (rep_not_jump _ rtl ci)
    · exact JOk_i2_nonjump (leaf_not_jump t (mem_leaf_charloop (by simpa [GoNode.ok] using h)) rtl ci)
  | .setloop t rtl ci s m n, a, tb, h => by
    simp only [emitNode]
    refine JOk_append.2 ⟨JOk_if ?_, JOk_if ?_⟩
    · exact JOk_i2_nonjump (leaf_not_jump opSetrep (by decide) rtl ci)
    · exact JOk_i2_nonjump (leaf_not_jump t (mem_leaf_setloop (by simpa [GoNode.ok] using h)) rtl ci)
  | .concat cs, a, tb, h => by
    simp only [emitNode]
    exact emitList_jumps cfg cs a tb (by simp [GoNode.ok] at h; exact h.2)
  | .alt cs, a, tb, h => by
    simp only [emitNode]
    have := emitAlt_jumps cfg cs a (a + sizeAlt cfg cs) tb (by simp [GoNode.ok] at h; exact h.2) rfl
    exact this
  | .loop lzy m n c, a, tb, h => by
    have hok : c.ok = true := by simpa [GoNode.ok] using h
    simp only [emitNode]
    have hsz := emitNode_size cfg c (a + loopHeadLen m n) tb
    have ih1 := emitNode_jumps cfg c (a + loopHeadLen m n) tb hok
    generalize (emitNode cfg (a + loopHeadLen m n) tb c).1 = C1 at *
    rw [← hsz]
    cases lzy <;> by_cases hc : counted m n = true <;> by_cases hm : (m == 0) = true <;>
      simp only [hc, hm, loopHeadLen, if_true, if_false, Bool.false_eq_true, Nat.add_zero] at ih1 ⊢ <;>
      jok_all
  | .capture m n c, a, tb, h => by
    have hok : c.ok = true := by simpa [GoNode.ok] using h
    simp only [emitNode]
    split
    · have hsz := emitNode_size cfg c (a + 1) tb
      have ih1 := emitNode_jumps cfg c (a + 1) tb hok
      generalize (emitNode cfg (a + 1) tb c).1 = C1 at *
      jok_all
    · exact emitNode_jumps cfg c a tb hok
  | .group c, a, tb, h => by
    simp only [emitNode]; exact emitNode_jumps cfg c a tb (by simpa [GoNode.ok] using h)
  | .poslook c, a, tb, h => by
    have hok : c.ok = true := by simpa [GoNode.ok] using h
    simp only [emitNode]
    have ih1 := emitNode_jumps cfg c (a + 2) tb hok
    generalize (emitNode cfg (a + 2) tb c).1 = C1 at *
    jok_all
  | .neglook c, a, tb, h => by
    have hok : c.ok = true := by simpa [GoNode.ok] using h
    simp only [emitNode]
    have hsz := emitNode_size cfg c (a + 3) tb
    have ih1 := emitNode_jumps cfg c (a + 3) tb hok
    generalize (emitNode cfg (a + 3) tb c).1 = C1 at *
    rw [← hsz]
    jok_all
  | .atomic c, a, tb, h => by
    have hok : c.ok = true := by simpa [GoNode.ok] using h
    simp only [emitNode]
    have ih1 := emitNode_jumps cfg c (a + 1) tb hok
    generalize (emitNode cfg (a + 1) tb c).1 = C1 at *
    jok_all
  | .backrefcond1 m y, a, tb, h => by
    have hok : y.ok = true := by simpa [GoNode.ok] using h
    simp only [emitNode]
    have hsz := emitNode_size cfg y (a + 6) tb
    have ih1 := emitNode_jumps cfg y (a + 6) tb hok
    generalize (emitNode cfg (a + 6) tb y).1 = C1 at *
    rw [← hsz]
    jok_all
  | .backrefcond2 m y n, a, tb, h => by
    have hok : y.ok = true ∧ n.ok = true := by simpa [GoNode.ok] using h
    simp only [emitNode]
    have hsz := emitNode_size cfg y (a + 6) tb
    have ih1 := emitNode_jumps cfg y (a + 6) tb hok.1
    generalize hr : emitNode cfg (a + 6) tb y = r1 at *
    have hsz2 := emitNode_size cfg n (a + 6 + size cfg y + 3) r1.2
    have ih2 := emitNode_jumps cfg n (a + 6 + size cfg y + 3) r1.2 hok.2
    generalize (emitNode cfg (a + 6 + size cfg y + 3) r1.2 n).1 = C2 at *
    rw [← hsz, ← hsz2] at *
    jok_all
  | .exprcond2 c y, a, tb, h => by
    have hok : c.ok = true ∧ y.ok = true := by simpa [GoNode.ok] using h
    simp only [emitNode]
    have hsz := emitNode_size cfg c (a + 4) tb
    have ih1 := emitNode_jumps cfg c (a + 4) tb hok.1
    generalize hr : emitNode cfg (a + 4) tb c = r1 at *
    have hsz2 := emitNode_size cfg y (a + 4 + size cfg c + 2) r1.2
    have ih2 := emitNode_jumps cfg y (a + 4 + size cfg c + 2) r1.2 hok.2
    generalize (emitNode cfg (a + 4 + size cfg c + 2) r1.2 y).1 = C2 at *
    rw [← hsz, ← hsz2] at *
    jok_all
  | .exprcond3 c y n, a, tb, h => by
    have hok : (c.ok = true ∧ y.ok = true) ∧ n.ok = true := by simpa [GoNode.ok] using h
    simp only [emitNode]
    have hsz := emitNode_size cfg c (a + 4) tb
    have ih1 := emitNode_jumps cfg c (a + 4) tb hok.1.1
    generalize hr : emitNode cfg (a + 4) tb c = r1 at *
    have hsz2 := emitNode_size cfg y (a + 4 + size cfg c + 2) r1.2
    have ih2 := emitNode_jumps cfg y (a + 4 + size cfg c + 2) r1.2 hok.1.2
    generalize hr2 : emitNode cfg (a + 4 + size cfg c + 2) r1.2 y = r2 at *
    have hsz3 := emitNode_size cfg n (a + 4 + size cfg c + 2 + size cfg y + 4) r2.2
    have ih3 := emitNode_jumps cfg n (a + 4 + size cfg c + 2 + size cfg y + 4) r2.2 hok.2
    generalize (emitNode cfg (a + 4 + size cfg c + 2 + size cfg y + 4) r2.2 n).1 = C3 at *
    rw [← hsz, ← hsz2, ← hsz3] at *
    jok_all
  | .other t, a, tb, h => by simp [GoNode.ok] at h
theorem emitList_jumps (cfg : Cfg) : ∀ (cs : List GoNode) (a : Nat) (tb : Tables), okList cs = true →
    JOk (starts a (emitList cfg a tb cs).1) (emitList cfg a tb cs).1
  | [], a, tb, _ => by simp only [emitList]; exact JOk_nil _
  | c :: cs, a, tb, h => by
    have hok : c.ok = true ∧ okList cs = true := by simpa [okList] using h
    simp only [emitList]
    have hsz := emitNode_size cfg c a tb
    have ih1 := emitNode_jumps cfg c a tb hok.1
    generalize hr : emitNode cfg a tb c = r1 at *
    have ih2 := emitList_jumps cfg cs (a + size cfg c) r1.2 hok.2
    generalize (emitList cfg (a + size cfg c) r1.2 cs).1 = C2 at *
    rw [← hsz] at *
    jok_all
theorem emitAlt_jumps (cfg : Cfg) : ∀ (cs : List GoNode) (a fin : Nat) (tb : Tables), okList cs = true →
    fin = a + sizeAlt cfg cs →
    JOk (starts a (emitAlt cfg a fin tb cs).1) (emitAlt cfg a fin tb cs).1
  | [], a, fin, tb, _, _ => by simp only [emitAlt]; exact JOk_nil _
  | c :: cs, a, fin, tb, h, hfin => by
    have hok : c.ok = true ∧ okList cs = true := by simpa [okList] using h
    simp only [emitAlt]
    split
    · exact emitNode_jumps cfg c a tb hok.1
    · rename_i hne
      simp only [sizeAlt, hne, if_false, Bool.false_eq_true] at hfin
      have hsz := emitNode_size cfg c (a + 2) tb
      have ih1 := emitNode_jumps cfg c (a + 2) tb hok.1
      generalize hr : emitNode cfg (a + 2) tb c = r1 at *
      have hsz2 := emitAlt_size cfg cs (a + 2 + size cfg c + 2) fin r1.2
      have ih2 := emitAlt_jumps cfg cs (a + 2 + size cfg c + 2) fin r1.2 hok.2 (by omega)
      generalize (emitAlt cfg (a + 2 + size cfg c + 2) fin r1.2 cs).1 = C2 at *
      rw [← hsz, ← hsz2] at hfin
      rw [← hsz] at ih2 ⊢
      subst hfin
      jok_all
end


/-! ### the bool-only program -/

theorem mapCapnum_quick (caps : Option (List (Int × Int))) (q : Option (List Bool)) (g : Int) :
    mapCapnum ⟨caps, q⟩ g = mapCapnum ⟨caps, none⟩ g := rfl

theorem emitCapture_main (caps : Option (List (Int × Int))) (m n : Int) : emitCapture ⟨caps, none⟩ m n = true := rfl

theorem stripList_isEmpty (cfg : Cfg) (cs : List GoNode) : (stripList cfg cs).isEmpty = cs.isEmpty := by
  cases cs <;> simp [stripList]

mutual
theorem size_strip (caps : Option (List (Int × Int))) (q : List Bool) : ∀ (n : GoNode),
    size ⟨caps, none⟩ (stripTree ⟨caps, some q⟩ n) = size ⟨caps, some q⟩ n
  | .empty => by simp [stripTree, size]
  | .bare t => by simp [stripTree, size]
  | .char t rtl ci ch => by simp [stripTree, size]
  | .set rtl ci s => by simp [stripTree, size]
  | .multi rtl ci s => by simp [stripTree, size]
  | .ref rtl ci m => by simp [stripTree, size]
  | .charloop t rtl ci ch m n => by simp [stripTree, size]
  | .setloop t rtl ci s m n => by simp [stripTree, size]
  | .concat cs => by simp only [stripTree, size]; exact sizeList_strip caps q cs
  | .alt cs => by simp only [stripTree, size]; exact sizeAlt_strip caps q cs
  | .loop lzy m n c => by simp [stripTree, size, size_strip caps q c]
  | .capture m n c => by
    simp only [stripTree]
    split <;> simp [size, size_strip caps q c, emitCapture_main, *]
  | .group c => by simp [stripTree, size, size_strip caps q c]
  | .poslook c => by simp [stripTree, size, size_strip caps q c]
  | .neglook c => by simp [stripTree, size, size_strip caps q c]
  | .atomic c => by simp [stripTree, size, size_strip caps q c]
  | .backrefcond1 m y => by simp [stripTree, size, size_strip caps q y]
  | .backrefcond2 m y n => by simp [stripTree, size, size_strip caps q y, size_strip caps q n]
  | .exprcond2 c y => by simp [stripTree, size, size_strip caps q c, size_strip caps q y]
  | .exprcond3 c y n => by simp [stripTree, size, size_strip caps q c, size_strip caps q y, size_strip caps q n]
  | .other t => by simp [stripTree, size]
theorem sizeList_strip (caps : Option (List (Int × Int))) (q : List Bool) : ∀ (cs : List GoNode),
    sizeList ⟨caps, none⟩ (stripList ⟨caps, some q⟩ cs) = sizeList ⟨caps, some q⟩ cs
  | [] => by simp [stripList, sizeList]
  | c :: cs => by simp [stripList, sizeList, size_strip caps q c, sizeList_strip caps q cs]
theorem sizeAlt_strip (caps : Option (List (Int × Int))) (q : List Bool) : ∀ (cs : List GoNode),
    sizeAlt ⟨caps, none⟩ (stripList ⟨caps, some q⟩ cs) = sizeAlt ⟨caps, some q⟩ cs
  | [] => by simp [stripList, sizeAlt]
  | c :: cs => by
    simp [stripList, sizeAlt, size_strip caps q c, sizeAlt_strip caps q cs, stripList_isEmpty]
end

mutual
theorem emitNode_strip (caps : Option (List (Int × Int))) (q : List Bool) : ∀ (n : GoNode) (a : Nat) (tb : Tables),
    emitNode ⟨caps, none⟩ a tb (stripTree ⟨caps, some q⟩ n) = emitNode ⟨caps, some q⟩ a tb n
  | .empty, a, tb => by simp [stripTree, emitNode]
  | .bare t, a, tb => by simp [stripTree, emitNode]
  | .char t rtl ci ch, a, tb => by simp [stripTree, emitNode]
  | .set rtl ci s, a, tb => by simp [stripTree, emitNode]
  | .multi rtl ci s, a, tb => by simp [stripTree, emitNode]
  | .ref rtl ci m, a, tb => by simp [stripTree, emitNode, mapCapnum_quick caps (some q)]
  | .charloop t rtl ci ch m n, a, tb => by simp [stripTree, emitNode]
  | .setloop t rtl ci s m n, a, tb => by simp [stripTree, emitNode]
  | .concat cs, a, tb => by simp only [stripTree, emitNode]; exact emitList_strip caps q cs a tb
  | .alt cs, a, tb => by
    simp only [stripTree, emitNode, sizeAlt_strip]; exact emitAlt_strip caps q cs a _ tb
  | .loop lzy m n c, a, tb => by simp [stripTree, emitNode, emitNode_strip caps q c, size_strip]
  | .capture m n c, a, tb => by
    simp only [stripTree]
    split <;> simp [emitNode, emitNode_strip caps q c, emitCapture_main, mapCapnum_quick caps (some q), *]
  | .group c, a, tb => by simp [stripTree, emitNode, emitNode_strip caps q c]
  | .poslook c, a, tb => by simp [stripTree, emitNode, emitNode_strip caps q c]
  | .neglook c, a, tb => by simp [stripTree, emitNode, emitNode_strip caps q c, size_strip]
  | .atomic c, a, tb => by simp [stripTree, emitNode, emitNode_strip caps q c]
  | .backrefcond1 m y, a, tb => by
    simp [stripTree, emitNode, emitNode_strip caps q y, size_strip, mapCapnum_quick caps (some q)]
  | .backrefcond2 m y n, a, tb => by
    simp [stripTree, emitNode, emitNode_strip caps q y, emitNode_strip caps q n, size_strip, mapCapnum_quick caps (some q)]
  | .exprcond2 c y, a, tb => by simp [stripTree, emitNode, emitNode_strip caps q c, emitNode_strip caps q y, size_strip]
  | .exprcond3 c y n, a, tb => by
    simp [stripTree, emitNode, emitNode_strip caps q c, emitNode_strip caps q y, emitNode_strip caps q n, size_strip]
  | .other t, a, tb => by simp [stripTree, emitNode]
theorem emitList_strip (caps : Option (List (Int × Int))) (q : List Bool) : ∀ (cs : List GoNode) (a : Nat) (tb : Tables),
    emitList ⟨caps, none⟩ a tb (stripList ⟨caps, some q⟩ cs) = emitList ⟨caps, some q⟩ a tb cs
  | [], a, tb => by simp [stripList, emitList]
  | c :: cs, a, tb => by simp [stripList, emitList, emitNode_strip caps q c, emitList_strip caps q cs, size_strip]
theorem emitAlt_strip (caps : Option (List (Int × Int))) (q : List Bool) : ∀ (cs : List GoNode) (a fin : Nat) (tb : Tables),
    emitAlt ⟨caps, none⟩ a fin tb (stripList ⟨caps, some q⟩ cs) = emitAlt ⟨caps, some q⟩ a fin tb cs
  | [], a, fin, tb => by simp [stripList, emitAlt]
  | c :: cs, a, fin, tb => by
    simp [stripList, emitAlt, emitNode_strip caps q c, emitAlt_strip caps q cs, size_strip, stripList_isEmpty]
end


/-! ### operands and arities -/

/-- the operand count of the instruction is the one `opcodeSize` gives its opcode -/
def Instr.arityOk (i : Instr) : Bool := Code.sizeOf? i.opcode == some (1 + i.args.length)

/-- opcodes with a table or capture operand -/
def specialOps : List Nat := [opMulti] ++ setOps ++ [opRef, opTestref, opCapturemark]

/-- arity and table / capture operands of one instruction (`Writer.instrOk` without the jump clause) -/
def Instr.localOk (ns nsets capsize : Nat) (i : Instr) : Bool :=
  i.arityOk &&
  (if i.opcode == opMulti then inRange i.args[0]? ns else true) &&
  (if setOps.contains i.opcode then inRange i.args[0]? nsets else true) &&
  (if i.opcode == opRef || i.opcode == opTestref then inRange i.args[0]? capsize else true) &&
  (if i.opcode == opCapturemark then
      (if i.args[1]? == some (-1) then inRange i.args[0]? capsize
       else (i.args[0]? == some (-1) || inRange i.args[0]? capsize) && inRange i.args[1]? capsize)
    else true)

def AllLocal (ns nsets capsize : Nat) (c : Code) : Prop := ∀ i ∈ c, i.localOk ns nsets capsize = true

theorem AllLocal_nil (ns nsets cs : Nat) : AllLocal ns nsets cs [] := by intro i hi; cases hi
theorem AllLocal_append {ns nsets cs : Nat} {x y : Code} :
    AllLocal ns nsets cs (x ++ y) ↔ AllLocal ns nsets cs x ∧ AllLocal ns nsets cs y := by
  simp only [AllLocal, List.mem_append]
  constructor
  · intro h; exact ⟨fun i hi => h i (Or.inl hi), fun i hi => h i (Or.inr hi)⟩
  · rintro ⟨h1, h2⟩ i (hi | hi)
    · exact h1 i hi
    · exact h2 i hi
theorem AllLocal_cons {ns nsets cs : Nat} {i : Instr} {r : Code} :
    AllLocal ns nsets cs (i :: r) ↔ i.localOk ns nsets cs = true ∧ AllLocal ns nsets cs r := by
  simp [AllLocal]

theorem inRange_mono {x : Option Int} {n n' : Nat} (h : n ≤ n') (hx : inRange x n = true) : inRange x n' = true := by
  cases x with
  | none => simp [inRange] at hx
  | some v => simp only [inRange, Bool.and_eq_true, decide_eq_true_eq] at hx ⊢; omega

theorem localOk_mono {ns ns' nsets nsets' cs : Nat} {i : Instr} (h1 : ns ≤ ns') (h2 : nsets ≤ nsets')
    (h : i.localOk ns nsets cs = true) : i.localOk ns' nsets' cs = true := by
  simp only [Instr.localOk, Bool.and_eq_true] at h ⊢
  obtain ⟨⟨⟨⟨ha, hm⟩, hs⟩, hr⟩, hc⟩ := h
  refine ⟨⟨⟨⟨ha, ?_⟩, ?_⟩, hr⟩, hc⟩
  · split
    · rename_i hh; rw [if_pos hh] at hm; exact inRange_mono h1 hm
    · rfl
  · split
    · rename_i hh; rw [if_pos hh] at hs; exact inRange_mono h2 hs
    · rfl

theorem AllLocal_mono {ns ns' nsets nsets' cs : Nat} {c : Code} (h1 : ns ≤ ns') (h2 : nsets ≤ nsets')
    (h : AllLocal ns nsets cs c) : AllLocal ns' nsets' cs c := fun i hi => localOk_mono h1 h2 (h i hi)

/-- an instruction without table or capture operands -/
theorem localOk_plain {ns nsets cs : Nat} {i : Instr} (ha : i.arityOk = true) (hs : specialOps.contains i.opcode = false) :
    i.localOk ns nsets cs = true := by
  have h : i.opcode ≠ opMulti ∧ i.opcode ∉ setOps ∧ i.opcode ≠ opRef ∧ i.opcode ≠ opTestref ∧
      i.opcode ≠ opCapturemark := by
    simp only [specialOps, setOps, List.contains_eq_mem, List.mem_append, List.mem_cons, List.not_mem_nil, or_false,
      decide_eq_false_iff_not, not_or] at hs ⊢
    simp only [opMulti, opSet, opSetrep, opSetloop, opSetlazy, opSetloopatomic, opRef, opTestref, opCapturemark] at hs ⊢
    omega
  obtain ⟨h1, h2, h3, h4, h5⟩ := h
  simp [Instr.localOk, ha, h1, h2, h3, h4, h5]


syntax "const_fin" : tactic
macro_rules | `(tactic| const_fin) => `(tactic|
  ((repeat' apply And.intro) <;> first | decide | (apply Or.inl; decide)))

theorem internKey_lt (key : List Nat → List Nat) (tbl : List (List Nat)) (x : List Nat) :
    (internKey key tbl x).1 < (internKey key tbl x).2.length := by
  simp only [internKey]
  split
  · assumption
  · rename_i h
    have := List.idxOf_le_length (a := key x) (l := tbl.map key)
    simp only [List.length_map] at this
    simp only [List.length_append, List.length_cons, List.length_nil]
    omega

theorem internKey_len_le (key : List Nat → List Nat) (tbl : List (List Nat)) (x : List Nat) :
    tbl.length ≤ (internKey key tbl x).2.length := by
  simp only [internKey]
  split <;> simp

theorem plain_i0 {ns nsets cs op : Nat} (h : Code.sizeOf? (op % (flagMask + 1)) = some 1 ∧ specialOps.contains (op % (flagMask + 1)) = false) :
    (i0 op).localOk ns nsets cs = true :=
  localOk_plain (by simp [Instr.arityOk, Instr.opcode, h.1]) (by simpa [Instr.opcode] using h.2)
theorem plain_i1 {ns nsets cs op : Nat} {x : Int} (h : Code.sizeOf? (op % (flagMask + 1)) = some 2 ∧ specialOps.contains (op % (flagMask + 1)) = false) :
    (i1 op x).localOk ns nsets cs = true :=
  localOk_plain (by simp [Instr.arityOk, Instr.opcode, h.1]) (by simpa [Instr.opcode] using h.2)
theorem plain_i2 {ns nsets cs op : Nat} {x y : Int} (h : Code.sizeOf? (op % (flagMask + 1)) = some 3 ∧ specialOps.contains (op % (flagMask + 1)) = false) :
    (i2 op x y).localOk ns nsets cs = true :=
  localOk_plain (by simp [Instr.arityOk, Instr.opcode, h.1]) (by simpa [Instr.opcode] using h.2)

theorem bare_plain : ∀ t ∈ bareTypes, Code.sizeOf? (t % (flagMask + 1)) = some 1 ∧ specialOps.contains (t % (flagMask + 1)) = false := by decide
theorem char_plain : ∀ t ∈ charTypes, ∀ rtl ci, Code.sizeOf? ((t ||| bits rtl ci) % (flagMask + 1)) = some 2 ∧
    specialOps.contains ((t ||| bits rtl ci) % (flagMask + 1)) = false := by decide
theorem charloop_plain : ∀ t ∈ charloopTypes ++ [opOnerep, opNotonerep], ∀ rtl ci, Code.sizeOf? ((t ||| bits rtl ci) % (flagMask + 1)) = some 3 ∧
    specialOps.contains ((t ||| bits rtl ci) % (flagMask + 1)) = false := by decide
theorem setloop_op : ∀ t ∈ setloopTypes ++ [opSetrep], ∀ rtl ci, Code.sizeOf? ((t ||| bits rtl ci) % (flagMask + 1)) = some 3 ∧
    setOps.contains ((t ||| bits rtl ci) % (flagMask + 1)) = true ∧ (t ||| bits rtl ci) % (flagMask + 1) ≠ opMulti ∧
    (t ||| bits rtl ci) % (flagMask + 1) ≠ opRef ∧ (t ||| bits rtl ci) % (flagMask + 1) ≠ opTestref ∧
    (t ||| bits rtl ci) % (flagMask + 1) ≠ opCapturemark := by decide

theorem localOk_setloop {ns nsets cs t : Nat} {rtl ci : Bool} {k : Nat} {y : Int} (ht : t ∈ setloopTypes ++ [opSetrep])
    (hk : k < nsets) : (i2 (t ||| bits rtl ci) (k : Int) y).localOk ns nsets cs = true := by
  obtain ⟨h1, h2, h3, h4, h5, h6⟩ := setloop_op t ht rtl ci
  simp only [List.contains_eq_mem, decide_eq_true_eq] at h2
  simp [Instr.localOk, Instr.arityOk, Instr.opcode, h1, h2, h3, h4, h5, h6, inRange, hk]

theorem localOk_set {ns nsets cs : Nat} {rtl ci : Bool} {k : Nat} (hk : k < nsets) :
    (i1 (opSet ||| bits rtl ci) (k : Int)).localOk ns nsets cs = true := by
  have h : (opSet ||| bits rtl ci) % (flagMask + 1) = opSet := opcode_bits opSet (by decide) rtl ci
  simp [Instr.localOk, Instr.arityOk, Instr.opcode, h, inRange, hk]
  const_fin

theorem localOk_multi {ns nsets cs : Nat} {rtl ci : Bool} {k : Nat} (hk : k < ns) :
    (i1 (opMulti ||| bits rtl ci) (k : Int)).localOk ns nsets cs = true := by
  have h : (opMulti ||| bits rtl ci) % (flagMask + 1) = opMulti := opcode_bits opMulti (by decide) rtl ci
  simp [Instr.localOk, Instr.arityOk, Instr.opcode, h, inRange, hk]
  const_fin

theorem localOk_ref {ns nsets cs : Nat} {rtl ci : Bool} {g : Int} (hg : 0 ≤ g ∧ g < cs) :
    (i1 (opRef ||| bits rtl ci) g).localOk ns nsets cs = true := by
  have h : (opRef ||| bits rtl ci) % (flagMask + 1) = opRef := opcode_bits opRef (by decide) rtl ci
  simp [Instr.localOk, Instr.arityOk, Instr.opcode, h, inRange, hg]
  const_fin

theorem localOk_testref {ns nsets cs : Nat} {g : Int} (hg : 0 ≤ g ∧ g < cs) :
    (i1 opTestref g).localOk ns nsets cs = true := by
  simp [Instr.localOk, Instr.arityOk, Instr.opcode, inRange, hg]
  const_fin

theorem localOk_capturemark {ns nsets cs : Nat} {x y : Int}
    (h : if y = -1 then (0 ≤ x ∧ x < cs) else ((x = -1 ∨ (0 ≤ x ∧ x < cs)) ∧ (0 ≤ y ∧ y < cs))) :
    (i2 opCapturemark x y).localOk ns nsets cs = true := by
  simp only [Instr.localOk, Instr.arityOk, Instr.opcode, i2_op, i2_args]
  split at h
  · rename_i hy; subst hy
    simp [inRange, h]; const_fin
  · rename_i hy
    simp [inRange, h, hy]; const_fin


theorem AllLocal_mono' {ns ns' nsets nsets' cs : Nat} {c : Code} (h : AllLocal ns nsets cs c) (h1 : ns ≤ ns')
    (h2 : nsets ≤ nsets') : AllLocal ns' nsets' cs c := AllLocal_mono h1 h2 h

theorem slotOk_iff {cfg : Cfg} {cs : Nat} {g : Int} : slotOk cfg cs g = true ↔ 0 ≤ mapCapnum cfg g ∧ mapCapnum cfg g < cs := by
  simp [slotOk]

theorem mapCapnum_neg_one (cfg : Cfg) : mapCapnum cfg (-1) = -1 := by simp [mapCapnum]

theorem mapCapnum_eq_neg_one {cfg : Cfg} {cs : Nat} {g : Int} (h : slotOk cfg cs g = true) : mapCapnum cfg g ≠ -1 := by
  have := slotOk_iff.1 h; omega

/-- the result of emitting a fragment: its instructions are locally well-formed for the tables it returns, and the
    tables only grow -/
def LocalRes (cs : Nat) (tb : Tables) (r : Code × Tables) : Prop :=
  AllLocal r.2.strings.length r.2.sets.length cs r.1 ∧ tb.strings.length ≤ r.2.strings.length ∧
    tb.sets.length ≤ r.2.sets.length

syntax "loc_all" : tactic
macro_rules | `(tactic| loc_all) => `(tactic|
  (simp only [LocalRes, AllLocal_append, AllLocal_cons, AllLocal_nil, and_true] at *
   (repeat' apply And.intro) <;>
   first
   | trivial
   | assumption
   | rfl
   | omega
   | exact AllLocal_mono' (by assumption) (by omega) (by omega)
   | exact AllLocal_nil _ _ _))

theorem capture_operands {cfg : Cfg} {cs : Nat} {m n : Int}
    (h : (if n == -1 then slotOk cfg cs m else (m == -1 || slotOk cfg cs m) && slotOk cfg cs n) = true) :
    if mapCapnum cfg n = -1 then (0 ≤ mapCapnum cfg m ∧ mapCapnum cfg m < cs)
    else ((mapCapnum cfg m = -1 ∨ (0 ≤ mapCapnum cfg m ∧ mapCapnum cfg m < cs)) ∧ (0 ≤ mapCapnum cfg n ∧ mapCapnum cfg n < cs)) := by
  by_cases hn : n = -1
  · subst hn
    simp only [beq_self_eq_true, if_true] at h
    simp [mapCapnum_neg_one, slotOk_iff.1 h]
  · have hn' : (n == -1) = false := by simpa using hn
    simp only [hn', Bool.false_eq_true, if_false, Bool.and_eq_true, Bool.or_eq_true, beq_iff_eq] at h
    have h2 := slotOk_iff.1 h.2
    have : mapCapnum cfg n ≠ -1 := by omega
    simp only [this, if_false]
    refine ⟨?_, h2⟩
    rcases h.1 with h1 | h1
    · subst h1; left; exact mapCapnum_neg_one cfg
    · right; exact slotOk_iff.1 h1

mutual
theorem emitNode_local (cfg : Cfg) (cs : Nat) : ∀ (n : GoNode) (a : Nat) (tb : Tables), n.ok = true →
    capsOk cfg cs n = true → LocalRes cs tb (emitNode cfg a tb n)
  | .empty, a, tb, _, _ => by simp only [emitNode]; loc_all
  | .bare t, a, tb, h, _ => by
    simp only [emitNode]
    have := plain_i0 (ns := tb.strings.length) (nsets := tb.sets.length) (cs := cs)
      (bare_plain t (by simpa [GoNode.ok] using h))
    loc_all
  | .char t rtl ci ch, a, tb, h, _ => by
    simp only [emitNode]
    have := plain_i1 (ns := tb.strings.length) (nsets := tb.sets.length) (cs := cs) (x := ch)
      (char_plain t (by simpa [GoNode.ok] using h) rtl ci)
    loc_all
  | .set rtl ci s, a, tb, _, _ => by
    simp only [emitNode]
    have h1 := internKey_lt setKey tb.sets s
    have h2 := internKey_len_le setKey tb.sets s
    have := localOk_set (ns := tb.strings.length) (cs := cs) (rtl := rtl) (ci := ci) h1
    loc_all
  | .multi rtl ci s, a, tb, _, _ => by
    simp only [emitNode]
    have h1 := internKey_lt strKey tb.strings s
    have h2 := internKey_len_le strKey tb.strings s
    have := localOk_multi (nsets := tb.sets.length) (cs := cs) (rtl := rtl) (ci := ci) h1
    loc_all
  | .ref rtl ci m, a, tb, _, hc => by
    simp only [emitNode]
    have := localOk_ref (ns := tb.strings.length) (nsets := tb.sets.length) (rtl := rtl) (ci := ci)
      (slotOk_iff.1 (by simpa [capsOk] using hc))
    loc_all
  | .charloop t rtl ci ch m n, a, tb, h, _ => by
    simp only [emitNode]
    have ht : t ∈ charloopTypes ++ [opOnerep, opNotonerep] :=
      List.mem_append_left _ (by simpa [GoNode.ok] using h)
    have h1 := plain_i2 (ns := tb.strings.length) (nsets := tb.sets.length) (cs := cs) (x := ch) (y := repArg m n)
      (charloop_plain t ht rtl ci)
    have h2 : (i2 ((if isOneFamily t = true then opOnerep else opNotonerep) ||| bits rtl ci) ch m).localOk
        tb.strings.length tb.sets.length cs = true := by
      split
      · exact plain_i2 (charloop_plain opOnerep (by decide) rtl ci)
      · exact plain_i2 (charloop_plain opNotonerep (by decide) rtl ci)
    by_cases hm : m > 0 <;> by_cases hn : n > m <;> simp only [hm, hn, if_true, if_false, List.append_nil, List.nil_append] <;>
      loc_all <;> assumption
  | .setloop t rtl ci s m n, a, tb, h, _ => by
    simp only [emitNode]
    have ht : t ∈ setloopTypes ++ [opSetrep] := List.mem_append_left _ (by simpa [GoNode.ok] using h)
    have hk := internKey_lt setKey tb.sets s
    have hl := internKey_len_le setKey tb.sets s
    have h1 := localOk_setloop (ns := tb.strings.length) (cs := cs) (rtl := rtl) (ci := ci) (y := repArg m n) ht hk
    have h2 := localOk_setloop (ns := tb.strings.length) (cs := cs) (rtl := rtl) (ci := ci) (y := m)
      (t := opSetrep) (by decide) hk
    by_cases hm : m > 0 <;> by_cases hn : n > m <;>
      simp only [hm, hn, if_true, if_false, List.append_nil, List.nil_append, decide_true, decide_false, Bool.or_self,
        Bool.or_true, Bool.true_or, Bool.or_false, Bool.false_eq_true] <;>
      loc_all <;> assumption
  | .concat cs', a, tb, h, hc => by
    simp only [emitNode]
    exact emitList_local cfg cs cs' a tb (by simp [GoNode.ok] at h; exact h.2) (by simpa [capsOk] using hc)
  | .alt cs', a, tb, h, hc => by
    simp only [emitNode]
    exact emitAlt_local cfg cs cs' a _ tb (by simp [GoNode.ok] at h; exact h.2) (by simpa [capsOk] using hc)
  | .loop lzy m n c, a, tb, h, hc => by
    have ih1 := emitNode_local cfg cs c (a + loopHeadLen m n) tb (by simpa [GoNode.ok] using h) (by simpa [capsOk] using hc)
    simp only [emitNode]
    generalize emitNode cfg (a + loopHeadLen m n) tb c = r1 at *
    obtain ⟨l1, s1, t1⟩ := ih1
    cases lzy <;> by_cases hcn : counted m n = true <;> by_cases hm : (m == 0) = true <;>
      simp only [hcn, hm, if_true, if_false, Bool.false_eq_true, Nat.add_zero, List.append_nil] <;> loc_all
  | .capture m n c, a, tb, h, hc => by
    have hc' : (if n == -1 then slotOk cfg cs m else (m == -1 || slotOk cfg cs m) && slotOk cfg cs n) = true ∧
        capsOk cfg cs c = true := by simpa [capsOk] using hc
    simp only [emitNode]
    split
    · have ih1 := emitNode_local cfg cs c (a + 1) tb (by simpa [GoNode.ok] using h) hc'.2
      generalize emitNode cfg (a + 1) tb c = r1 at *
      obtain ⟨l1, s1, t1⟩ := ih1
      have := localOk_capturemark (ns := r1.2.strings.length) (nsets := r1.2.sets.length) (capture_operands hc'.1)
      loc_all
    · exact emitNode_local cfg cs c a tb (by simpa [GoNode.ok] using h) hc'.2
  | .group c, a, tb, h, hc => by
    simp only [emitNode]
    exact emitNode_local cfg cs c a tb (by simpa [GoNode.ok] using h) (by simpa [capsOk] using hc)
  | .poslook c, a, tb, h, hc => by
    have ih1 := emitNode_local cfg cs c (a + 2) tb (by simpa [GoNode.ok] using h) (by simpa [capsOk] using hc)
    simp only [emitNode]
    generalize emitNode cfg (a + 2) tb c = r1 at *
    obtain ⟨l1, s1, t1⟩ := ih1
    loc_all
  | .neglook c, a, tb, h, hc => by
    have ih1 := emitNode_local cfg cs c (a + 3) tb (by simpa [GoNode.ok] using h) (by simpa [capsOk] using hc)
    simp only [emitNode]
    generalize emitNode cfg (a + 3) tb c = r1 at *
    obtain ⟨l1, s1, t1⟩ := ih1
    loc_all
  | .atomic c, a, tb, h, hc => by
    have ih1 := emitNode_local cfg cs c (a + 1) tb (by simpa [GoNode.ok] using h) (by simpa [capsOk] using hc)
    simp only [emitNode]
    generalize emitNode cfg (a + 1) tb c = r1 at *
    obtain ⟨l1, s1, t1⟩ := ih1
    loc_all
  | .backrefcond1 m y, a, tb, h, hc => by
    have hc' : slotOk cfg cs m = true ∧ capsOk cfg cs y = true := by simpa [capsOk] using hc
    have ih1 := emitNode_local cfg cs y (a + 6) tb (by simpa [GoNode.ok] using h) hc'.2
    simp only [emitNode]
    generalize emitNode cfg (a + 6) tb y = r1 at *
    obtain ⟨l1, s1, t1⟩ := ih1
    have := localOk_testref (ns := r1.2.strings.length) (nsets := r1.2.sets.length) (slotOk_iff.1 hc'.1)
    loc_all
  | .backrefcond2 m y n, a, tb, h, hc => by
    have hok : y.ok = true ∧ n.ok = true := by simpa [GoNode.ok] using h
    have hc' : (slotOk cfg cs m = true ∧ capsOk cfg cs y = true) ∧ capsOk cfg cs n = true := by simpa [capsOk] using hc
    have ih1 := emitNode_local cfg cs y (a + 6) tb hok.1 hc'.1.2
    simp only [emitNode]
    generalize emitNode cfg (a + 6) tb y = r1 at *
    obtain ⟨l1, s1, t1⟩ := ih1
    have ih2 := emitNode_local cfg cs n (a + 6 + size cfg y + 3) r1.2 hok.2 hc'.2
    generalize emitNode cfg (a + 6 + size cfg y + 3) r1.2 n = r2 at *
    obtain ⟨l2, s2, t2⟩ := ih2
    have := localOk_testref (ns := r2.2.strings.length) (nsets := r2.2.sets.length) (slotOk_iff.1 hc'.1.1)
    loc_all
  | .exprcond2 c y, a, tb, h, hc => by
    have hok : c.ok = true ∧ y.ok = true := by simpa [GoNode.ok] using h
    have hc' : capsOk cfg cs c = true ∧ capsOk cfg cs y = true := by simpa [capsOk] using hc
    have ih1 := emitNode_local cfg cs c (a + 4) tb hok.1 hc'.1
    simp only [emitNode]
    generalize emitNode cfg (a + 4) tb c = r1 at *
    obtain ⟨l1, s1, t1⟩ := ih1
    have ih2 := emitNode_local cfg cs y (a + 4 + size cfg c + 2) r1.2 hok.2 hc'.2
    generalize emitNode cfg (a + 4 + size cfg c + 2) r1.2 y = r2 at *
    obtain ⟨l2, s2, t2⟩ := ih2
    loc_all
  | .exprcond3 c y n, a, tb, h, hc => by
    have hok : (c.ok = true ∧ y.ok = true) ∧ n.ok = true := by simpa [GoNode.ok] using h
    have hc' : (capsOk cfg cs c = true ∧ capsOk cfg cs y = true) ∧ capsOk cfg cs n = true := by simpa [capsOk] using hc
    have ih1 := emitNode_local cfg cs c (a + 4) tb hok.1.1 hc'.1.1
    simp only [emitNode]
    generalize emitNode cfg (a + 4) tb c = r1 at *
    obtain ⟨l1, s1, t1⟩ := ih1
    have ih2 := emitNode_local cfg cs y (a + 4 + size cfg c + 2) r1.2 hok.1.2 hc'.1.2
    generalize emitNode cfg (a + 4 + size cfg c + 2) r1.2 y = r2 at *
    obtain ⟨l2, s2, t2⟩ := ih2
    have ih3 := emitNode_local cfg cs n (a + 4 + size cfg c + 2 + size cfg y + 4) r2.2 hok.2 hc'.2
    generalize emitNode cfg (a + 4 + size cfg c + 2 + size cfg y + 4) r2.2 n = r3 at *
    obtain ⟨l3, s3, t3⟩ := ih3
    loc_all
  | .other t, a, tb, h, _ => by simp [GoNode.ok] at h
theorem emitList_local (cfg : Cfg) (cs : Nat) : ∀ (l : List GoNode) (a : Nat) (tb : Tables), okList l = true →
    capsOkList cfg cs l = true → LocalRes cs tb (emitList cfg a tb l)
  | [], a, tb, _, _ => by simp only [emitList]; loc_all
  | c :: l, a, tb, h, hc => by
    have hok : c.ok = true ∧ okList l = true := by simpa [okList] using h
    have hc' : capsOk cfg cs c = true ∧ capsOkList cfg cs l = true := by simpa [capsOkList] using hc
    have ih1 := emitNode_local cfg cs c a tb hok.1 hc'.1
    simp only [emitList]
    generalize emitNode cfg a tb c = r1 at *
    obtain ⟨l1, s1, t1⟩ := ih1
    have ih2 := emitList_local cfg cs l (a + size cfg c) r1.2 hok.2 hc'.2
    generalize emitList cfg (a + size cfg c) r1.2 l = r2 at *
    obtain ⟨l2, s2, t2⟩ := ih2
    loc_all
theorem emitAlt_local (cfg : Cfg) (cs : Nat) : ∀ (l : List GoNode) (a fin : Nat) (tb : Tables), okList l = true →
    capsOkList cfg cs l = true → LocalRes cs tb (emitAlt cfg a fin tb l)
  | [], a, fin, tb, _, _ => by simp only [emitAlt]; loc_all
  | c :: l, a, fin, tb, h, hc => by
    have hok : c.ok = true ∧ okList l = true := by simpa [okList] using h
    have hc' : capsOk cfg cs c = true ∧ capsOkList cfg cs l = true := by simpa [capsOkList] using hc
    simp only [emitAlt]
    split
    · exact emitNode_local cfg cs c a tb hok.1 hc'.1
    · have ih1 := emitNode_local cfg cs c (a + 2) tb hok.1 hc'.1
      generalize emitNode cfg (a + 2) tb c = r1 at *
      obtain ⟨l1, s1, t1⟩ := ih1
      have ih2 := emitAlt_local cfg cs l (a + 2 + size cfg c + 2) fin r1.2 hok.2 hc'.2
      generalize emitAlt cfg (a + 2 + size cfg c + 2) fin r1.2 l = r2 at *
      obtain ⟨l2, s2, t2⟩ := ih2
      loc_all
end


/-! ### decoding the flat code; track count; Nullmark / Goto pairing -/

theorem decode_flatten : ∀ (c : Code) (fuel : Nat), (∀ i ∈ c, i.arityOk = true) → c.length ≤ fuel →
    Capacity.decode fuel (flatten c) = some (c.map Instr.opcode)
  | [], fuel, _, _ => by cases fuel <;> simp [flatten, Capacity.decode]
  | i :: r, 0, _, hf => by simp at hf
  | i :: r, fuel + 1, h, hf => by
    have hi : i.arityOk = true := h i (by simp)
    have ih := decode_flatten r fuel (fun j hj => h j (by simp [hj])) (by simpa using hf)
    simp only [Instr.arityOk, Code.sizeOf?, beq_iff_eq] at hi
    simp only [flatten, Instr.words, List.cons_append, Capacity.decode, Int.toNat_natCast, List.map_cons]
    have hop : i.op % (flagMask + 1) = i.opcode := rfl
    rw [hop]
    cases hsz : opcodeSize[i.opcode]? with
    | none => simp [hsz] at hi
    | some n =>
      cases n with
      | zero => simp [hsz] at hi
      | succ k =>
        simp only [hsz, Option.some.injEq] at hi
        have hk : k = i.args.length := by omega
        subst hk
        simp [ih]

theorem trackCount_map : ∀ (c : Code), Capacity.trackCount (c.map Instr.opcode) = trackCount c
  | [] => rfl
  | i :: r => by
    simp only [List.map_cons, Capacity.trackCount, trackCount, trackCount_map r]
    rfl

/-- number of instructions of `c` with opcode `x` -/
def cnt (x : Nat) (c : Code) : Nat := Capacity.count x (c.map Instr.opcode)

theorem cnt_nil (x : Nat) : cnt x [] = 0 := rfl
theorem cnt_cons (x : Nat) (i : Instr) (r : Code) : cnt x (i :: r) = (if i.opcode = x then 1 else 0) + cnt x r := rfl
theorem cnt_append (x : Nat) : ∀ (a b : Code), cnt x (a ++ b) = cnt x a + cnt x b
  | [], b => by simp [cnt_nil]
  | i :: r, b => by simp only [List.cons_append, cnt_cons, cnt_append x r b]; omega

theorem leaf_not_nullmark : ∀ t ∈ leafOps, ∀ rtl ci, (t ||| bits rtl ci) % (flagMask + 1) ≠ opNullmark := by decide
theorem bare_not_nullmark : ∀ t ∈ bareTypes, t % (flagMask + 1) ≠ opNullmark := by decide

theorem cnt_null_i0 {t : Nat} (h : t % (flagMask + 1) ≠ opNullmark) : cnt opNullmark [i0 t] = 0 := by
  simp [cnt_cons, cnt_nil, Instr.opcode, h]
theorem cnt_null_i1 {t : Nat} {x : Int} (h : t % (flagMask + 1) ≠ opNullmark) : cnt opNullmark [i1 t x] = 0 := by
  simp [cnt_cons, cnt_nil, Instr.opcode, h]
theorem cnt_null_i2 {t : Nat} {x y : Int} (h : t % (flagMask + 1) ≠ opNullmark) : cnt opNullmark [i2 t x y] = 0 := by
  simp [cnt_cons, cnt_nil, Instr.opcode, h]

syntax "cnt_lit" : tactic
macro_rules | `(tactic| cnt_lit) => `(tactic|
  simp only [cnt_append, cnt_cons, cnt_nil, Instr.opcode, i0_op, i1_op, i2_op, opSetjump, opLazybranch, opTestref, opForejump,
    opGoto, opSetmark, opGetmark, opBackjump, opCapturemark, opNullmark, opNullcount, opSetcount, opBranchcount, opBranchmark,
    flagMask, Nat.reduceMod, Nat.reduceAdd, Nat.reduceEqDiff, if_true, if_false, Nat.reduceBEq] at *)

mutual
theorem emitNode_pairing (cfg : Cfg) : ∀ (n : GoNode) (a : Nat) (tb : Tables), n.ok = true →
    cnt opNullmark (emitNode cfg a tb n).1 ≤ cnt opGoto (emitNode cfg a tb n).1
  | .empty, a, tb, _ => by simp [emitNode, cnt_nil]
  | .bare t, a, tb, h => by
    simp only [emitNode]; rw [cnt_null_i0 (bare_not_nullmark t (by simpa [GoNode.ok] using h))]; omega
  | .char t rtl ci ch, a, tb, h => by
    simp only [emitNode]
    rw [cnt_null_i1 (leaf_not_nullmark t (mem_leaf_char (by simpa [GoNode.ok] using h)) rtl ci)]; omega
  | .set rtl ci s, a, tb, h => by
    simp only [emitNode]; rw [cnt_null_i1 (leaf_not_nullmark opSet (by decide) rtl ci)]; omega
  | .multi rtl ci s, a, tb, h => by
    simp only [emitNode]; rw [cnt_null_i1 (leaf_not_nullmark opMulti (by decide) rtl ci)]; omega
  | .ref rtl ci m, a, tb, h => by
    simp only [emitNode]; rw [cnt_null_i1 (leaf_not_nullmark opRef (by decide) rtl ci)]; omega
  | .charloop t rtl ci ch m n, a, tb, h => by
    simp only [emitNode, cnt_append]
    have h1 : cnt opNullmark [i2 (t ||| bits rtl ci) ch (repArg m n)] = 0 :=
      cnt_null_i2 (leaf_not_nullmark t (mem_leaf_charloop (by simpa [GoNode.ok] using h)) rtl ci)
    have h2 : cnt opNullmark [i2 ((if isOneFamily t = true then opOnerep else opNotonerep) ||| bits rtl ci) ch m] = 0 := by
      split
      · exact cnt_null_i2 (leaf_not_nullmark opOnerep (by decide) rtl ci)
      · exact cnt_null_i2 (leaf_not_nullmark opNotonerep (by decide) rtl ci)
    by_cases hm : m > 0 <;> by_cases hn : n > m <;> simp only [hm, hn, if_true, if_false, cnt_nil, h1, h2] <;> omega
  | .setloop t rtl ci s m n, a, tb, h => by
    simp only [emitNode, cnt_append]
    have h1 : cnt opNullmark [i2 (t ||| bits rtl ci) ↑(internKey setKey tb.sets s).1 (repArg m n)] = 0 :=
      cnt_null_i2 (leaf_not_nullmark t (mem_leaf_setloop (by simpa [GoNode.ok] using h)) rtl ci)
    have h2 : cnt opNullmark [i2 (opSetrep ||| bits rtl ci) ↑(internKey setKey tb.sets s).1 m] = 0 :=
      cnt_null_i2 (leaf_not_nullmark opSetrep (by decide) rtl ci)
    by_cases hm : m > 0 <;> by_cases hn : n > m <;> simp only [hm, hn, if_true, if_false, cnt_nil, h1, h2] <;> omega
  | .concat cs, a, tb, h => by
    simp only [emitNode]; exact emitList_pairing cfg cs a tb (by simp [GoNode.ok] at h; exact h.2)
  | .alt cs, a, tb, h => by
    simp only [emitNode]; exact emitAlt_pairing cfg cs a _ tb (by simp [GoNode.ok] at h; exact h.2)
  | .loop lzy m n c, a, tb, h => by
    have ih1 := emitNode_pairing cfg c (a + loopHeadLen m n) tb (by simpa [GoNode.ok] using h)
    simp only [emitNode]
    generalize (emitNode cfg (a + loopHeadLen m n) tb c).1 = C1 at *
    cases lzy <;> by_cases hcn : counted m n = true <;> by_cases hm : (m == 0) = true <;>
      simp only [hcn, hm, if_true, if_false, Bool.false_eq_true, Nat.add_zero, List.append_nil] <;> cnt_lit <;> omega
  | .capture m n c, a, tb, h => by
    simp only [emitNode]
    split
    · have ih1 := emitNode_pairing cfg c (a + 1) tb (by simpa [GoNode.ok] using h)
      generalize (emitNode cfg (a + 1) tb c).1 = C1 at *
      cnt_lit; omega
    · exact emitNode_pairing cfg c a tb (by simpa [GoNode.ok] using h)
  | .group c, a, tb, h => by
    simp only [emitNode]; exact emitNode_pairing cfg c a tb (by simpa [GoNode.ok] using h)
  | .poslook c, a, tb, h => by
    have ih1 := emitNode_pairing cfg c (a + 2) tb (by simpa [GoNode.ok] using h)
    simp only [emitNode]
    generalize (emitNode cfg (a + 2) tb c).1 = C1 at *
    cnt_lit; omega
  | .neglook c, a, tb, h => by
    have ih1 := emitNode_pairing cfg c (a + 3) tb (by simpa [GoNode.ok] using h)
    simp only [emitNode]
    generalize (emitNode cfg (a + 3) tb c).1 = C1 at *
    cnt_lit; omega
  | .atomic c, a, tb, h => by
    have ih1 := emitNode_pairing cfg c (a + 1) tb (by simpa [GoNode.ok] using h)
    simp only [emitNode]
    generalize (emitNode cfg (a + 1) tb c).1 = C1 at *
    cnt_lit; omega
  | .backrefcond1 m y, a, tb, h => by
    have ih1 := emitNode_pairing cfg y (a + 6) tb (by simpa [GoNode.ok] using h)
    simp only [emitNode]
    generalize (emitNode cfg (a + 6) tb y).1 = C1 at *
    cnt_lit; omega
  | .backrefcond2 m y n, a, tb, h => by
    have hok : y.ok = true ∧ n.ok = true := by simpa [GoNode.ok] using h
    have ih1 := emitNode_pairing cfg y (a + 6) tb hok.1
    simp only [emitNode]
    generalize emitNode cfg (a + 6) tb y = r1 at *
    have ih2 := emitNode_pairing cfg n (a + 6 + size cfg y + 3) r1.2 hok.2
    generalize (emitNode cfg (a + 6 + size cfg y + 3) r1.2 n).1 = C2 at *
    cnt_lit; omega
  | .exprcond2 c y, a, tb, h => by
    have hok : c.ok = true ∧ y.ok = true := by simpa [GoNode.ok] using h
    have ih1 := emitNode_pairing cfg c (a + 4) tb hok.1
    simp only [emitNode]
    generalize emitNode cfg (a + 4) tb c = r1 at *
    have ih2 := emitNode_pairing cfg y (a + 4 + size cfg c + 2) r1.2 hok.2
    generalize (emitNode cfg (a + 4 + size cfg c + 2) r1.2 y).1 = C2 at *
    cnt_lit; omega
  | .exprcond3 c y n, a, tb, h => by
    have hok : (c.ok = true ∧ y.ok = true) ∧ n.ok = true := by simpa [GoNode.ok] using h
    have ih1 := emitNode_pairing cfg c (a + 4) tb hok.1.1
    simp only [emitNode]
    generalize emitNode cfg (a + 4) tb c = r1 at *
    have ih2 := emitNode_pairing cfg y (a + 4 + size cfg c + 2) r1.2 hok.1.2
    generalize emitNode cfg (a + 4 + size cfg c + 2) r1.2 y = r2 at *
    have ih3 := emitNode_pairing cfg n (a + 4 + size cfg c + 2 + size cfg y + 4) r2.2 hok.2
    generalize (emitNode cfg (a + 4 + size cfg c + 2 + size cfg y + 4) r2.2 n).1 = C3 at *
    cnt_lit; omega
  | .other t, a, tb, h => by simp [GoNode.ok] at h
theorem emitList_pairing (cfg : Cfg) : ∀ (l : List GoNode) (a : Nat) (tb : Tables), okList l = true →
    cnt opNullmark (emitList cfg a tb l).1 ≤ cnt opGoto (emitList cfg a tb l).1
  | [], a, tb, _ => by simp [emitList, cnt_nil]
  | c :: l, a, tb, h => by
    have hok : c.ok = true ∧ okList l = true := by simpa [okList] using h
    have ih1 := emitNode_pairing cfg c a tb hok.1
    simp only [emitList]
    generalize emitNode cfg a tb c = r1 at *
    have ih2 := emitList_pairing cfg l (a + size cfg c) r1.2 hok.2
    generalize (emitList cfg (a + size cfg c) r1.2 l).1 = C2 at *
    cnt_lit; omega
theorem emitAlt_pairing (cfg : Cfg) : ∀ (l : List GoNode) (a fin : Nat) (tb : Tables), okList l = true →
    cnt opNullmark (emitAlt cfg a fin tb l).1 ≤ cnt opGoto (emitAlt cfg a fin tb l).1
  | [], a, fin, tb, _ => by simp [emitAlt, cnt_nil]
  | c :: l, a, fin, tb, h => by
    have hok : c.ok = true ∧ okList l = true := by simpa [okList] using h
    simp only [emitAlt]
    split
    · exact emitNode_pairing cfg c a tb hok.1
    · have ih1 := emitNode_pairing cfg c (a + 2) tb hok.1
      generalize emitNode cfg (a + 2) tb c = r1 at *
      have ih2 := emitAlt_pairing cfg l (a + 2 + size cfg c + 2) fin r1.2 hok.2
      generalize (emitAlt cfg (a + 2 + size cfg c + 2) fin r1.2 l).1 = C2 at *
      cnt_lit; omega
end


/-! ### the whole program -/

/-- the offsets at which the instructions of `c` start (without the end offset) -/
def istarts (a : Nat) : Code → List Nat
  | [] => []
  | i :: r => a :: istarts (a + (1 + i.args.length)) r

theorem starts_eq_istarts : ∀ (c : Code) (a : Nat), starts a c = istarts a c ++ [a + codeLen c]
  | [], a => by simp [starts, istarts]
  | i :: r, a => by
    simp only [starts, istarts, codeLen_cons, List.cons_append, starts_eq_istarts r]
    rw [show a + (1 + i.args.length) + codeLen r = a + (1 + i.args.length + codeLen r) by omega]

theorem istarts_snoc (c : Code) (s : Instr) (a : Nat) : istarts a (c ++ [s]) = starts a c := by
  induction c generalizing a with
  | nil => simp [istarts, starts]
  | cons i r ih => simp [istarts, starts, ih]

theorem codeFromTree_jumps (cfg : Cfg) (root : GoNode) (h : root.ok = true) :
    JOk (istarts 0 (codeFromTree cfg root).1) (codeFromTree cfg root).1 := by
  have hsz := emitNode_size cfg root 2 ⟨[], []⟩
  have ih1 := emitNode_jumps cfg root 2 ⟨[], []⟩ h
  simp only [codeFromTree]
  generalize (emitNode cfg 2 ⟨[], []⟩ root).1 = C1 at *
  rw [← hsz, istarts_snoc]
  jok_all

theorem codeFromTree_local (cfg : Cfg) (cs : Nat) (root : GoNode) (h : root.ok = true) (hc : capsOk cfg cs root = true) :
    AllLocal (codeFromTree cfg root).2.strings.length (codeFromTree cfg root).2.sets.length cs (codeFromTree cfg root).1 := by
  have ih1 := emitNode_local cfg cs root 2 ⟨[], []⟩ h hc
  simp only [codeFromTree]
  generalize emitNode cfg 2 ⟨[], []⟩ root = r1 at *
  obtain ⟨l1, s1, t1⟩ := ih1
  loc_all

theorem codeFromTree_pairing (cfg : Cfg) (root : GoNode) (h : root.ok = true) :
    cnt opNullmark (codeFromTree cfg root).1 ≤ cnt opGoto (codeFromTree cfg root).1 := by
  have ih1 := emitNode_pairing cfg root 2 ⟨[], []⟩ h
  simp only [codeFromTree]
  generalize (emitNode cfg 2 ⟨[], []⟩ root).1 = C1 at *
  simp only [opStop] at *
  cnt_lit; omega

theorem codeFromTree_len (cfg : Cfg) (root : GoNode) : codeLen (codeFromTree cfg root).1 = size cfg root + 3 := by
  simp [codeFromTree, codeLen_append, emitNode_size]; omega


section bridge
open RegexVerif.Code
/-! ### from the instruction list to the code array -/

theorem flatten_getElem_op (pre : Code) (i : Instr) (post : Code) :
    (flatten (pre ++ i :: post))[codeLen pre]? = some (i.op : Int) := by
  rw [flatten_append, List.getElem?_append_right (by rw [flatten_length]; omega)]
  simp [flatten_length, flatten, Instr.words]

theorem flatten_getElem_arg (pre : Code) (i : Instr) (post : Code) (k : Nat) (hk : k < i.args.length) :
    (flatten (pre ++ i :: post))[codeLen pre + k + 1]? = i.args[k]? := by
  rw [flatten_append, List.getElem?_append_right (by rw [flatten_length]; omega)]
  simp only [flatten_length, flatten, Instr.words, List.cons_append]
  rw [show codeLen pre + k + 1 - codeLen pre = k + 1 by omega]
  simp only [List.getElem?_cons_succ]
  rw [List.getElem?_append_left hk]

def progOf (c : Code) (strings : Array (List Nat)) (nsets tc cs : Nat) (caps : List (Int × Int)) (rtl : Bool) : Prog :=
  { codes := (flatten c).toArray, strings := strings, nsets := nsets, trackcount := tc, capsize := cs, caps := caps, rtl := rtl }

theorem wordAt_progOf (pre : Code) (i : Instr) (post : Code) (s n t c cp r) :
    (progOf (pre ++ i :: post) s n t c cp r).wordAt? (codeLen pre) = some (decode i.op) := by
  simp only [Prog.wordAt?, progOf, List.getElem?_toArray, flatten_getElem_op]

theorem operand_progOf (pre : Code) (i : Instr) (post : Code) (s n t c cp r) (k : Nat) (hk : k < i.args.length) :
    (progOf (pre ++ i :: post) s n t c cp r).operand? (codeLen pre) k = i.args[k]? := by
  simp only [Prog.operand?, progOf, List.getElem?_toArray]
  exact flatten_getElem_arg pre i post k hk

theorem decode_op (w : Nat) : (decode w).op = w % (flagMask + 1) := rfl

theorem length_le_codeLen : ∀ c : Code, c.length ≤ codeLen c
  | [] => by simp
  | i :: r => by have := length_le_codeLen r; simp only [List.length_cons, codeLen_cons]; omega

theorem boundaries_go (s n t cs cp r) : ∀ (rest pre : Code) (fuel : Nat) (acc : List Nat),
    (∀ i ∈ rest, i.arityOk = true) → rest.length ≤ fuel →
    Prog.boundaries.go (progOf (pre ++ rest) s n t cs cp r) fuel (codeLen pre) acc =
      some (acc.reverse ++ istarts (codeLen pre) rest)
  | [], pre, fuel, acc, _, _ => by
    simp only [List.append_nil]
    have hsz : (progOf pre s n t cs cp r).codes.size = codeLen pre := by
      simp [progOf, flatten_length]
    cases fuel <;> simp [Prog.boundaries.go, hsz, istarts]
  | i :: rest, pre, 0, acc, _, hf => by simp at hf
  | i :: rest, pre, fuel + 1, acc, h, hf => by
    have hsz : (progOf (pre ++ i :: rest) s n t cs cp r).codes.size = codeLen pre + (1 + i.args.length + codeLen rest) := by
      simp [progOf, flatten_length, codeLen_append]
    have hi : i.arityOk = true := h i (by simp)
    simp only [Instr.arityOk, beq_iff_eq] at hi
    have ih := boundaries_go s n t cs cp r rest (pre ++ [i]) fuel (codeLen pre :: acc)
      (fun j hj => h j (by simp [hj])) (by simpa using hf)
    have hpre : codeLen (pre ++ [i]) = codeLen pre + (1 + i.args.length) := by simp [codeLen_append]
    rw [hpre, List.append_assoc, List.singleton_append] at ih
    unfold Prog.boundaries.go
    rw [wordAt_progOf]
    simp only [decode_op]
    have hop : i.op % (flagMask + 1) = i.opcode := rfl
    rw [hop, hi]
    simp only [hsz, ih, istarts]
    have hne : ¬ (codeLen pre = codeLen pre + (1 + i.args.length + codeLen rest)) := by omega
    simp [hne]

theorem boundaries_progOf (c : Code) (s n t cs cp r) (h : ∀ i ∈ c, i.arityOk = true) :
    (progOf c s n t cs cp r).boundaries = some (istarts 0 c) := by
  have := boundaries_go s n t cs cp r c [] (progOf c s n t cs cp r).codes.size [] h
    (by simp only [progOf, List.size_toArray, flatten_length]; exact length_le_codeLen c)
  simpa [Prog.boundaries] using this


theorem mem_istarts_split : ∀ (c : Code) (a pc : Nat), pc ∈ istarts a c →
    ∃ pre i post, c = pre ++ i :: post ∧ pc = a + codeLen pre
  | [], a, pc, h => by simp [istarts] at h
  | i :: r, a, pc, h => by
    simp only [istarts, List.mem_cons] at h
    rcases h with h | h
    · exact ⟨[], i, r, by simp, by simp [h]⟩
    · obtain ⟨pre, j, post, e, hp⟩ := mem_istarts_split r _ pc h
      exact ⟨i :: pre, j, post, by simp [e], by simp only [codeLen_cons]; omega⟩

/-- opcodes whose operands `instrOk` reads have them -/
theorem operand_ops_size : ∀ op, op < 64 → (jumpOps.contains op = true ∨ specialOps.contains op = true) →
    2 ≤ (sizeOf? op).getD 0 := by decide
theorem capturemark_size : sizeOf? opCapturemark = some 3 := by decide

theorem instrOk_of_local (pre : Code) (i : Instr) (post : Code) (s : Array (List Nat)) (n t cs : Nat) (cp r) (bs : List Nat)
    (hl : i.localOk s.size n cs = true) (hj : ∀ x ∈ i.targets, ∃ k ∈ bs, x = (k : Int)) :
    instrOk (progOf (pre ++ i :: post) s n t cs cp r) bs (codeLen pre) = true := by
  have hlt : i.opcode < 64 := Nat.mod_lt _ (by decide)
  have hop0' := fun h => operand_progOf pre i post s n t cs cp r 0 h
  have hop1' := fun h => operand_progOf pre i post s n t cs cp r 1 h
  simp only [Instr.localOk, Bool.and_eq_true] at hl
  obtain ⟨⟨⟨⟨ha, hm⟩, hs⟩, hr⟩, hc⟩ := hl
  replace ha : sizeOf? i.opcode = some (1 + i.args.length) := by simpa [Instr.arityOk] using ha
  have hm' : (i.opcode == opMulti) = true → inRange i.args[0]? s.size = true := by
    intro h; rw [if_pos h] at hm; exact hm
  have hs' : setOps.contains i.opcode = true → inRange i.args[0]? n = true := by
    intro h; rw [if_pos h] at hs; exact hs
  have hr' : (i.opcode == opRef || i.opcode == opTestref) = true → inRange i.args[0]? cs = true := by
    intro h; rw [if_pos h] at hr; exact hr
  have hc' : (i.opcode == opCapturemark) = true →
      (if (i.args[1]? == some (-1)) = true then inRange i.args[0]? cs
       else (i.args[0]? == some (-1) || inRange i.args[0]? cs) && inRange i.args[1]? cs) = true := by
    intro h; rw [if_pos h] at hc; exact hc
  unfold instrOk
  rw [wordAt_progOf]
  simp only [Bool.and_eq_true]
  have harg : (jumpOps.contains (i.opcode) = true ∨ specialOps.contains i.opcode = true) →
      1 ≤ i.args.length := by
    intro h
    have := operand_ops_size _ hlt h
    rw [ha] at this; simp only [Option.getD_some] at this; omega
  refine ⟨⟨⟨⟨?_, ?_⟩, ?_⟩, ?_⟩, ?_⟩
  · by_cases hjmp : jumpOps.contains (decode i.op).op = true
    · rw [if_pos hjmp]
      have hjmp' : jumpOps.contains i.opcode = true := hjmp
      have h1 := harg (Or.inl hjmp')
      rw [hop0' h1]
      obtain ⟨x, rest, hx⟩ : ∃ x rest, i.args = x :: rest := by
        cases hargs : i.args with
        | nil => simp [hargs] at h1
        | cons x rest => exact ⟨x, rest, rfl⟩
      have hisj : isJump i.op = true := hjmp'
      obtain ⟨k, hk, e⟩ := hj x (by simp [Instr.targets, hisj, hx])
      simp only [hx, List.getElem?_cons_zero, e]
      show bs.contains k = true
      simpa using hk
    · rw [if_neg hjmp]
  · by_cases h : ((decode i.op).op == opMulti) = true
    · have h' : (i.opcode == opMulti) = true := h
      have : specialOps.contains i.opcode = true := by rw [beq_iff_eq.1 h']; decide
      rw [if_pos h, hop0' (harg (Or.inr this))]; exact hm' h'
    · rw [if_neg h]
  · by_cases h : setOps.contains (decode i.op).op = true
    · have h' : setOps.contains i.opcode = true := h
      have : specialOps.contains i.opcode = true := by
        simp only [specialOps, List.contains_eq_mem, List.mem_append, decide_eq_true_eq] at h' ⊢
        exact Or.inl (Or.inr h')
      rw [if_pos h, hop0' (harg (Or.inr this))]; exact hs' h'
    · rw [if_neg h]
  · by_cases h : ((decode i.op).op == opRef || (decode i.op).op == opTestref) = true
    · have h' : (i.opcode == opRef || i.opcode == opTestref) = true := h
      have : specialOps.contains i.opcode = true := by
        have h'' := h'
        simp only [Bool.or_eq_true, beq_iff_eq] at h''
        rcases h'' with h'' | h'' <;> (rw [h'']; decide)
      rw [if_pos h, hop0' (harg (Or.inr this))]; exact hr' h'
    · rw [if_neg h]
  · by_cases h : ((decode i.op).op == opCapturemark) = true
    · have h' : (i.opcode == opCapturemark) = true := h
      have hspec : specialOps.contains i.opcode = true := by rw [beq_iff_eq.1 h']; decide
      have h2 : 2 ≤ i.args.length := by
        rw [beq_iff_eq.1 h', capturemark_size] at ha; simp only [Option.some.injEq] at ha; omega
      rw [if_pos h, hop0' (harg (Or.inr hspec)), hop1' (by omega)]
      exact hc' h'
    · rw [if_neg h]

theorem wfProg_progOf (c : Code) (s : Array (List Nat)) (n t cs : Nat) (cp r)
    (hl : ∀ i ∈ c, i.localOk s.size n cs = true) (hj : JOk (istarts 0 c) c)
    (hfirst : c.head?.map Instr.opcode = some opLazybranch) (hlast : c.getLast?.map Instr.opcode = some opStop) :
    wfProg (progOf c s n t cs cp r) = true := by
  have ha : ∀ i ∈ c, i.arityOk = true := by
    intro i hi
    have := hl i hi
    simp only [Instr.localOk, Bool.and_eq_true] at this
    exact this.1.1.1.1
  simp only [wfProg, boundaries_progOf c s n t cs cp r ha, Bool.and_eq_true]
  refine ⟨⟨?_, ?_⟩, ?_⟩
  · rw [List.all_eq_true]
    intro pc hpc
    obtain ⟨pre, i, post, e, hp⟩ := mem_istarts_split c 0 pc hpc
    subst e
    simp only [Nat.zero_add] at hp
    subst hp
    exact instrOk_of_local pre i post s n t cs cp r _ (hl i (by simp)) (hj i (by simp))
  · cases c with
    | nil => simp at hfirst
    | cons i rest =>
      simp only [List.head?_cons, Option.map_some, Option.some.injEq] at hfirst
      have := wordAt_progOf [] i rest s n t cs cp r
      simp only [codeLen_nil, List.nil_append] at this
      rw [this]
      simp only [Option.map_some, decode_op]
      have hop : i.op % (flagMask + 1) = i.opcode := rfl
      rw [hop, hfirst]; rfl
  · rcases List.eq_nil_or_concat c with hnil | ⟨pre, i, e⟩
    · subst hnil; simp at hlast
    · rw [List.concat_eq_append] at e
      subst e
      simp at hlast
      have hst : istarts 0 (pre ++ [i]) = starts 0 pre := istarts_snoc pre i 0
      have hlastpos : (starts 0 pre).getLast? = some (codeLen pre) := by
        rw [starts_eq_istarts]; simp
      rw [hst, hlastpos]
      show (Option.map (fun x => x.op) ((progOf (pre ++ [i]) s n t cs cp r).wordAt? (codeLen pre)) == some opStop) = true
      rw [wordAt_progOf pre i [] s n t cs cp r]
      simp only [Option.map_some, decode_op]
      have hop : i.op % (flagMask + 1) = i.opcode := rfl
      rw [hop, hlast]; rfl


end bridge

end RegexVerif.Writer
