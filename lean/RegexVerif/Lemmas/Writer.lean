/-
Lemmas about the writer model (Model/Writer.lean): sizes, compositionality, jump locality,
well-formedness of the emitted program, track count, the bool-only program.
-/
import RegexVerif.Model.Writer
import RegexVerif.Model.Capacity

namespace RegexVerif.Writer
open RegexVerif.Generated.Opcodes

/-! ### code length -/

theorem codeLen_append (x y : Code) : codeLen (x ++ y) = codeLen x + codeLen y := by
  induction x with
  | nil => simp [codeLen]
  | cons i r ih => simp [codeLen, ih]; omega

@[simp] theorem codeLen_nil : codeLen [] = 0 := rfl
@[simp] theorem codeLen_cons (i : Instr) (r : Code) : codeLen (i :: r) = 1 + i.args.length + codeLen r := rfl
@[simp] theorem i0_args (op : Nat) : (i0 op).args = [] := rfl
@[simp] theorem i1_args (op : Nat) (a : Int) : (i1 op a).args = [a] := rfl
@[simp] theorem i2_args (op : Nat) (a b : Int) : (i2 op a b).args = [a, b] := rfl
@[simp] theorem i0_op (op : Nat) : (i0 op).op = op := rfl
@[simp] theorem i1_op (op : Nat) (a : Int) : (i1 op a).op = op := rfl
@[simp] theorem i2_op (op : Nat) (a b : Int) : (i2 op a b).op = op := rfl

theorem flatten_append (x y : Code) : flatten (x ++ y) = flatten x ++ flatten y := by
  induction x with
  | nil => simp [flatten]
  | cons i r ih => simp [flatten, ih]

theorem flatten_length (x : Code) : (flatten x).length = codeLen x := by
  induction x with
  | nil => simp [flatten]
  | cons i r ih => simp [flatten, Instr.words, ih]; omega

mutual
theorem emitNode_size (cfg : Cfg) : ∀ (n : GoNode) (a : Nat) (tb : Tables),
    codeLen (emitNode cfg a tb n).1 = size cfg n
  | .empty, a, tb => by simp [emitNode, size]
  | .bare t, a, tb => by simp [emitNode, size]
  | .char t rtl ci ch, a, tb => by simp [emitNode, size]
  | .set rtl ci s, a, tb => by simp [emitNode, size]
  | .multi rtl ci s, a, tb => by simp [emitNode, size]
  | .ref rtl ci m, a, tb => by simp [emitNode, size]
  | .charloop t rtl ci ch m n, a, tb => by
    simp only [emitNode, size, repLen, codeLen_append]
    by_cases h1 : m > 0 <;> by_cases h2 : n > m <;> simp [h1, h2]
  | .setloop t rtl ci s m n, a, tb => by
    simp only [emitNode, size, repLen, codeLen_append]
    by_cases h1 : m > 0 <;> by_cases h2 : n > m <;> simp [h1, h2]
  | .concat cs, a, tb => by simp only [emitNode, size]; exact emitList_size cfg cs a tb
  | .alt cs, a, tb => by simp only [emitNode, size]; exact emitAlt_size cfg cs a _ tb
  | .loop lzy m n c, a, tb => by
    simp only [emitNode, size, codeLen_append, emitNode_size cfg c, loopHeadLen, loopTailLen]
    split <;> split <;> simp <;> omega
  | .capture m n c, a, tb => by
    simp only [emitNode, size]
    split
    · simp [codeLen_append, emitNode_size cfg c]; omega
    · exact emitNode_size cfg c a tb
  | .group c, a, tb => by simp only [emitNode, size]; exact emitNode_size cfg c a tb
  | .poslook c, a, tb => by simp [emitNode, size, codeLen_append, emitNode_size cfg c]; omega
  | .neglook c, a, tb => by simp [emitNode, size, codeLen_append, emitNode_size cfg c]; omega
  | .atomic c, a, tb => by simp [emitNode, size, codeLen_append, emitNode_size cfg c]; omega
  | .backrefcond1 m y, a, tb => by simp [emitNode, size, codeLen_append, emitNode_size cfg y]; omega
  | .backrefcond2 m y n, a, tb => by
    simp [emitNode, size, codeLen_append, emitNode_size cfg y, emitNode_size cfg n]; omega
  | .exprcond2 c y, a, tb => by
    simp [emitNode, size, codeLen_append, emitNode_size cfg c, emitNode_size cfg y]; omega
  | .exprcond3 c y n, a, tb => by
    simp [emitNode, size, codeLen_append, emitNode_size cfg c, emitNode_size cfg y, emitNode_size cfg n]; omega
  | .other t, a, tb => by simp [emitNode, size]
theorem emitList_size (cfg : Cfg) : ∀ (cs : List GoNode) (a : Nat) (tb : Tables),
    codeLen (emitList cfg a tb cs).1 = sizeList cfg cs
  | [], a, tb => by simp [emitList, sizeList]
  | c :: cs, a, tb => by
    simp [emitList, sizeList, codeLen_append, emitNode_size cfg c, emitList_size cfg cs]
theorem emitAlt_size (cfg : Cfg) : ∀ (cs : List GoNode) (a fin : Nat) (tb : Tables),
    codeLen (emitAlt cfg a fin tb cs).1 = sizeAlt cfg cs
  | [], a, fin, tb => by simp [emitAlt, sizeAlt]
  | c :: cs, a, fin, tb => by
    simp only [emitAlt, sizeAlt]
    split
    · exact emitNode_size cfg c a tb
    · simp [codeLen_append, emitNode_size cfg c, emitAlt_size cfg cs]; omega
end

/-! ### instruction boundaries and jump locality -/

/-- the opcode word (modifier bits allowed) is a branching opcode -/
def isJump (op : Nat) : Bool := jumpOps.contains (op % (flagMask + 1))

/-- the code positions a jump instruction names (first operand of the branching opcodes) -/
def Instr.targets (i : Instr) : List Int := if isJump i.op then i.args.take 1 else []

/-- the offsets at which the instructions of `code` start when its first word is at `a`, followed by
    the offset just behind it -/
def starts (a : Nat) : Code → List Nat
  | [] => [a]
  | i :: r => a :: starts (a + (1 + i.args.length)) r

/-- every jump of `c` goes to one of the offsets `S` -/
def JOk (S : List Nat) (c : Code) : Prop := ∀ i ∈ c, ∀ t ∈ i.targets, ∃ k ∈ S, t = (k : Int)

theorem mem_starts_bounds : ∀ (c : Code) (a k : Nat), k ∈ starts a c → a ≤ k ∧ k ≤ a + codeLen c
  | [], a, k, h => by simp [starts] at h; simp [h]
  | i :: r, a, k, h => by
    simp only [starts, List.mem_cons] at h
    rcases h with h | h
    · simp [h]
    · have := mem_starts_bounds r _ k h
      simp only [codeLen_cons]; omega

theorem starts_self (c : Code) (a : Nat) : a ∈ starts a c := by
  cases c <;> simp [starts]

theorem starts_end : ∀ (c : Code) (a : Nat), a + codeLen c ∈ starts a c
  | [], a => by simp [starts]
  | i :: r, a => by
    simp only [starts, codeLen_cons, List.mem_cons]
    right
    have := starts_end r (a + (1 + i.args.length))
    rwa [show a + (1 + i.args.length + codeLen r) = a + (1 + i.args.length) + codeLen r by omega]

theorem mem_starts_append : ∀ (x y : Code) (a k : Nat),
    k ∈ starts a (x ++ y) ↔ k ∈ starts a x ∨ k ∈ starts (a + codeLen x) y
  | [], y, a, k => by
    simp only [List.nil_append, starts, codeLen_nil, Nat.add_zero, List.mem_singleton]
    constructor
    · exact Or.inr
    · rintro (h | h)
      · subst h; exact starts_self y k
      · exact h
  | i :: r, y, a, k => by
    simp only [List.cons_append, starts, List.mem_cons, codeLen_cons, mem_starts_append r y]
    rw [show a + (1 + i.args.length) + codeLen r = a + (1 + i.args.length + codeLen r) by omega]
    constructor
    · rintro (h | h | h) <;> simp [h]
    · rintro ((h | h) | h) <;> simp [h]

/-- the boundaries of a piece of a larger fragment are boundaries of the fragment -/
theorem mem_starts_of_split {c x y z : Code} {a b k : Nat} (hc : c = x ++ y ++ z) (hb : b = a + codeLen x)
    (hk : k ∈ starts b y) : k ∈ starts a c := by
  subst hc hb
  rw [mem_starts_append, mem_starts_append]
  exact Or.inl (Or.inr hk)

theorem JOk_nil (S : List Nat) : JOk S [] := by intro i hi; cases hi

theorem JOk_append {S : List Nat} {x y : Code} : JOk S (x ++ y) ↔ JOk S x ∧ JOk S y := by
  simp only [JOk, List.mem_append]
  constructor
  · intro h; exact ⟨fun i hi => h i (Or.inl hi), fun i hi => h i (Or.inr hi)⟩
  · rintro ⟨h1, h2⟩ i (hi | hi)
    · exact h1 i hi
    · exact h2 i hi

theorem JOk_cons {S : List Nat} {i : Instr} {r : Code} :
    JOk S (i :: r) ↔ (∀ t ∈ i.targets, ∃ k ∈ S, t = (k : Int)) ∧ JOk S r := by
  simp [JOk]

theorem JOk_mono {S S' : List Nat} {c : Code} (h : ∀ k ∈ S, k ∈ S') (hc : JOk S c) : JOk S' c := by
  intro i hi t ht
  obtain ⟨k, hk, e⟩ := hc i hi t ht
  exact ⟨k, h k hk, e⟩

@[simp] theorem targets_i0 (op : Nat) : (i0 op).targets = [] := by simp [Instr.targets]

theorem targets_i1 (op : Nat) (x : Int) :
    (i1 op x).targets = if isJump op then [x] else [] := by
  simp [Instr.targets]

theorem targets_i2 (op : Nat) (x y : Int) :
    (i2 op x y).targets = if isJump op then [x] else [] := by
  by_cases h : isJump op = true <;> simp [Instr.targets, h]

/-- the modifier bits do not change the opcode (`op & Mask`) of a leaf -/
theorem opcode_bits : ∀ t, t < 64 → ∀ rtl ci, (t ||| bits rtl ci) % (flagMask + 1) = t := by decide

set_option linter.unusedSimpArgs false

theorem mem_starts_left {x y : Code} {a k : Nat} (h : k ∈ starts a x) : k ∈ starts a (x ++ y) :=
  (mem_starts_append x y a k).2 (Or.inl h)

theorem mem_starts_right' {x y : Code} {a b k : Nat} (h : k ∈ starts b y) (hb : b = a + codeLen x) :
    k ∈ starts a (x ++ y) :=
  (mem_starts_append x y a k).2 (Or.inr (hb ▸ h))

theorem starts_self' {c : Code} {a k : Nat} (h : k = a) : k ∈ starts a c := h ▸ starts_self c k
theorem starts_end' {c : Code} {a k : Nat} (h : k = a + codeLen c) : k ∈ starts a c := h ▸ starts_end c a

syntax "pick_one" : tactic
macro_rules | `(tactic| pick_one) => `(tactic|
  first | omega | exact starts_self' (by omega) | exact starts_end' (by omega))
syntax "pick_disj" : tactic
macro_rules | `(tactic| pick_disj) => `(tactic| first | pick_one | (left; pick_one) | (right; pick_disj))

/-- `k ∈ starts a c` for a `c` whose literal parts are explicit: unfold and pick the disjunct -/
syntax "mem_starts" : tactic
macro_rules | `(tactic| mem_starts) => `(tactic|
  (simp only [starts, mem_starts_append, List.mem_cons, List.mem_singleton, codeLen_cons, codeLen_nil, codeLen_append,
      i0_args, i1_args, i2_args, List.length_nil, List.length_cons, List.cons_append, List.nil_append, List.append_assoc,
      List.not_mem_nil, or_false, or_assoc, true_or, or_true]
   first | done | pick_disj))

/-- `k ∈ starts a (… ++ y ++ …)` from an assumption `k ∈ starts b y` -/
syntax "sub_starts" : tactic
macro_rules | `(tactic| sub_starts) => `(tactic|
  first
  | assumption
  | exact mem_starts_right' (by assumption) (by
      first
      | (simp only [codeLen_append, codeLen_cons, codeLen_nil, i0_args, i1_args, i2_args, List.length_nil,
          List.length_cons] <;> omega)
      | omega)
  | (apply mem_starts_left; sub_starts))

theorem isJump_vals : isJump opLazybranch = true ∧ isJump opGoto = true ∧ isJump opBranchcount = true ∧
    isJump (opBranchcount + 1) = true ∧ isJump opBranchmark = true ∧ isJump (opBranchmark + 1) = true ∧
    isJump opTestref = false ∧ isJump opNullcount = false ∧ isJump opSetcount = false ∧
    isJump opCapturemark = false := by decide

/-- the opcodes of the leaf instructions -/
def leafOps : List Nat :=
  bareTypes ++ charTypes ++ charloopTypes ++ setloopTypes ++ [opSet, opMulti, opRef, opOnerep, opNotonerep, opSetrep]

theorem leaf_not_jump : ∀ t ∈ leafOps, ∀ rtl ci, isJump (t ||| bits rtl ci) = false := by decide

theorem JOk_i0 (S : List Nat) (op : Nat) : JOk S [i0 op] := by simp [JOk_cons, JOk_nil]
theorem JOk_i1_nonjump {S : List Nat} {op : Nat} {x : Int} (h : isJump op = false) : JOk S [i1 op x] := by
  simp [JOk_cons, JOk_nil, targets_i1, h]
theorem JOk_i2_nonjump {S : List Nat} {op : Nat} {x y : Int} (h : isJump op = false) : JOk S [i2 op x y] := by
  simp [JOk_cons, JOk_nil, targets_i2, h]

/-- what remains of `JOk S c` for an explicit `c`: one `∃ k ∈ S` per jump, one `JOk S cᵢ` per child -/
syntax "jok_norm" : tactic
macro_rules | `(tactic| jok_norm) => `(tactic|
  simp only [JOk_append, JOk_cons, JOk_nil, and_true, targets_i0, targets_i1, targets_i2, isJump_vals, if_true,
    List.mem_singleton, List.not_mem_nil, forall_eq, false_implies, implies_true, true_and, Bool.false_eq_true, if_false])

/-- a jump operand written as a position of the fragment -/
syntax "jok_jump" : tactic
macro_rules | `(tactic| jok_jump) => `(tactic| (refine ⟨_, ?_, rfl⟩; mem_starts))

/-- a child fragment inside the frame -/
syntax "jok_child" term : tactic
macro_rules | `(tactic| jok_child $ih) => `(tactic| (refine JOk_mono (fun k hk => ?_) $ih; sub_starts))

set_option linter.unusedVariables false

theorem mem_leaf_bare {t : Nat} (h : bareTypes.contains t = true) : t ∈ leafOps := by
  simp only [List.contains_iff_mem] at h; simp [leafOps, h]
theorem mem_leaf_char {t : Nat} (h : charTypes.contains t = true) : t ∈ leafOps := by
  simp only [List.contains_iff_mem] at h; simp [leafOps, h]
theorem mem_leaf_charloop {t : Nat} (h : charloopTypes.contains t = true) : t ∈ leafOps := by
  simp only [List.contains_iff_mem] at h; simp [leafOps, h]
theorem mem_leaf_setloop {t : Nat} (h : setloopTypes.contains t = true) : t ∈ leafOps := by
  simp only [List.contains_iff_mem] at h; simp [leafOps, h]

theorem JOk_if {S : List Nat} {p : Prop} [Decidable p] {c : Code} (h : JOk S c) : JOk S (if p then c else []) := by
  split
  · exact h
  · exact JOk_nil S

theorem rep_not_jump (b : Bool) (rtl ci : Bool) : isJump ((if b = true then opOnerep else opNotonerep) ||| bits rtl ci) = false := by
  cases b
  · exact leaf_not_jump opNotonerep (by decide) rtl ci
  · exact leaf_not_jump opOnerep (by decide) rtl ci

syntax "jok_all" : tactic
macro_rules | `(tactic| jok_all) => `(tactic|
  (jok_norm
   (try simp only [List.append_nil])
   (repeat' apply And.intro)
   all_goals first | jok_jump | jok_child (by assumption)))

mutual
theorem emitNode_jumps (cfg : Cfg) : ∀ (n : GoNode) (a : Nat) (tb : Tables), n.ok = true →
    JOk (starts a (emitNode cfg a tb n).1) (emitNode cfg a tb n).1
  | .empty, a, tb, _ => by simp only [emitNode]; exact JOk_nil _
  | .bare t, a, tb, _ => by simp only [emitNode]; exact JOk_i0 _ _
  | .char t rtl ci ch, a, tb, h => by
    simp only [emitNode]
    exact JOk_i1_nonjump (leaf_not_jump t (mem_leaf_char (by simpa [GoNode.ok] using h)) rtl ci)
  | .set rtl ci s, a, tb, h => by
    simp only [emitNode]
    exact JOk_i1_nonjump (leaf_not_jump opSet (by decide) rtl ci)
  | .multi rtl ci s, a, tb, h => by
    simp only [emitNode]
    exact JOk_i1_nonjump (leaf_not_jump opMulti (by decide) rtl ci)
  | .ref rtl ci m, a, tb, h => by
    simp only [emitNode]
    exact JOk_i1_nonjump (leaf_not_jump opRef (by decide) rtl ci)
  | .charloop t rtl ci ch m n, a, tb, h => by
    simp only [emitNode]
    refine JOk_append.2 ⟨JOk_if ?_, JOk_if ?_⟩
    · exact JOk_i2_nonjump (rep_not_jump _ rtl ci)
    · exact JOk_i2_nonjump (leaf_not_jump t (mem_leaf_charloop (by simpa [GoNode.ok] using h)) rtl ci)
  | .setloop t rtl ci s m n, a, tb, h => by
    simp only [emitNode]
    refine JOk_append.2 ⟨JOk_if ?_, JOk_if ?_⟩
    · exact JOk_i2_nonjump (leaf_not_jump opSetrep (by decide) rtl ci)
    · exact JOk_i2_nonjump (leaf_not_jump t (mem_leaf_setloop (by simpa [GoNode.ok] using h)) rtl ci)
  | .concat cs, a, tb, h => by
    simp only [emitNode]
    exact emitList_jumps cfg cs a tb (by simp [GoNode.ok] at h; exact h.2)
  | .alt cs, a, tb, h => by
    simp only [emitNode]
    have := emitAlt_jumps cfg cs a (a + sizeAlt cfg cs) tb (by simp [GoNode.ok] at h; exact h.2) rfl
    exact this
  | .loop lzy m n c, a, tb, h => by
    have hok : c.ok = true := by simpa [GoNode.ok] using h
    simp only [emitNode]
    have hsz := emitNode_size cfg c (a + loopHeadLen m n) tb
    have ih1 := emitNode_jumps cfg c (a + loopHeadLen m n) tb hok
    generalize (emitNode cfg (a + loopHeadLen m n) tb c).1 = C1 at *
    rw [← hsz]
    cases lzy <;> by_cases hc : counted m n = true <;> by_cases hm : (m == 0) = true <;>
      simp only [hc, hm, loopHeadLen, if_true, if_false, Bool.false_eq_true, Nat.add_zero] at ih1 ⊢ <;>
      jok_all
  | .capture m n c, a, tb, h => by
    have hok : c.ok = true := by simpa [GoNode.ok] using h
    simp only [emitNode]
    split
    · have hsz := emitNode_size cfg c (a + 1) tb
      have ih1 := emitNode_jumps cfg c (a + 1) tb hok
      generalize (emitNode cfg (a + 1) tb c).1 = C1 at *
      jok_all
    · exact emitNode_jumps cfg c a tb hok
  | .group c, a, tb, h => by
    simp only [emitNode]; exact emitNode_jumps cfg c a tb (by simpa [GoNode.ok] using h)
  | .poslook c, a, tb, h => by
    have hok : c.ok = true := by simpa [GoNode.ok] using h
    simp only [emitNode]
    have ih1 := emitNode_jumps cfg c (a + 2) tb hok
    generalize (emitNode cfg (a + 2) tb c).1 = C1 at *
    jok_all
  | .neglook c, a, tb, h => by
    have hok : c.ok = true := by simpa [GoNode.ok] using h
    simp only [emitNode]
    have hsz := emitNode_size cfg c (a + 3) tb
    have ih1 := emitNode_jumps cfg c (a + 3) tb hok
    generalize (emitNode cfg (a + 3) tb c).1 = C1 at *
    rw [← hsz]
    jok_all
  | .atomic c, a, tb, h => by
    have hok : c.ok = true := by simpa [GoNode.ok] using h
    simp only [emitNode]
    have ih1 := emitNode_jumps cfg c (a + 1) tb hok
    generalize (emitNode cfg (a + 1) tb c).1 = C1 at *
    jok_all
  | .backrefcond1 m y, a, tb, h => by
    have hok : y.ok = true := by simpa [GoNode.ok] using h
    simp only [emitNode]
    have hsz := emitNode_size cfg y (a + 6) tb
    have ih1 := emitNode_jumps cfg y (a + 6) tb hok
    generalize (emitNode cfg (a + 6) tb y).1 = C1 at *
    rw [← hsz]
    jok_all
  | .backrefcond2 m y n, a, tb, h => by
    have hok : y.ok = true ∧ n.ok = true := by simpa [GoNode.ok] using h
    simp only [emitNode]
    have hsz := emitNode_size cfg y (a + 6) tb
    have ih1 := emitNode_jumps cfg y (a + 6) tb hok.1
    generalize hr : emitNode cfg (a + 6) tb y = r1 at *
    have hsz2 := emitNode_size cfg n (a + 6 + size cfg y + 3) r1.2
    have ih2 := emitNode_jumps cfg n (a + 6 + size cfg y + 3) r1.2 hok.2
    generalize (emitNode cfg (a + 6 + size cfg y + 3) r1.2 n).1 = C2 at *
    rw [← hsz, ← hsz2] at *
    jok_all
  | .exprcond2 c y, a, tb, h => by
    have hok : c.ok = true ∧ y.ok = true := by simpa [GoNode.ok] using h
    simp only [emitNode]
    have hsz := emitNode_size cfg c (a + 4) tb
    have ih1 := emitNode_jumps cfg c (a + 4) tb hok.1
    generalize hr : emitNode cfg (a + 4) tb c = r1 at *
    have hsz2 := emitNode_size cfg y (a + 4 + size cfg c + 2) r1.2
    have ih2 := emitNode_jumps cfg y (a + 4 + size cfg c + 2) r1.2 hok.2
    generalize (emitNode cfg (a + 4 + size cfg c + 2) r1.2 y).1 = C2 at *
    rw [← hsz, ← hsz2] at *
    jok_all
  | .exprcond3 c y n, a, tb, h => by
    have hok : (c.ok = true ∧ y.ok = true) ∧ n.ok = true := by simpa [GoNode.ok] using h
    simp only [emitNode]
    have hsz := emitNode_size cfg c (a + 4) tb
    have ih1 := emitNode_jumps cfg c (a + 4) tb hok.1.1
    generalize hr : emitNode cfg (a + 4) tb c = r1 at *
    have hsz2 := emitNode_size cfg y (a + 4 + size cfg c + 2) r1.2
    have ih2 := emitNode_jumps cfg y (a + 4 + size cfg c + 2) r1.2 hok.1.2
    generalize hr2 : emitNode cfg (a + 4 + size cfg c + 2) r1.2 y = r2 at *
    have hsz3 := emitNode_size cfg n (a + 4 + size cfg c + 2 + size cfg y + 4) r2.2
    have ih3 := emitNode_jumps cfg n (a + 4 + size cfg c + 2 + size cfg y + 4) r2.2 hok.2
    generalize (emitNode cfg (a + 4 + size cfg c + 2 + size cfg y + 4) r2.2 n).1 = C3 at *
    rw [← hsz, ← hsz2, ← hsz3] at *
    jok_all
  | .other t, a, tb, h => by simp [GoNode.ok] at h
theorem emitList_jumps (cfg : Cfg) : ∀ (cs : List GoNode) (a : Nat) (tb : Tables), okList cs = true →
    JOk (starts a (emitList cfg a tb cs).1) (emitList cfg a tb cs).1
  | [], a, tb, _ => by simp only [emitList]; exact JOk_nil _
  | c :: cs, a, tb, h => by
    have hok : c.ok = true ∧ okList cs = true := by simpa [okList] using h
    simp only [emitList]
    have hsz := emitNode_size cfg c a tb
    have ih1 := emitNode_jumps cfg c a tb hok.1
    generalize hr : emitNode cfg a tb c = r1 at *
    have ih2 := emitList_jumps cfg cs (a + size cfg c) r1.2 hok.2
    generalize (emitList cfg (a + size cfg c) r1.2 cs).1 = C2 at *
    rw [← hsz] at *
    jok_all
theorem emitAlt_jumps (cfg : Cfg) : ∀ (cs : List GoNode) (a fin : Nat) (tb : Tables), okList cs = true →
    fin = a + sizeAlt cfg cs →
    JOk (starts a (emitAlt cfg a fin tb cs).1) (emitAlt cfg a fin tb cs).1
  | [], a, fin, tb, _, _ => by simp only [emitAlt]; exact JOk_nil _
  | c :: cs, a, fin, tb, h, hfin => by
    have hok : c.ok = true ∧ okList cs = true := by simpa [okList] using h
    simp only [emitAlt]
    split
    · exact emitNode_jumps cfg c a tb hok.1
    · rename_i hne
      simp only [sizeAlt, hne, if_false, Bool.false_eq_true] at hfin
      have hsz := emitNode_size cfg c (a + 2) tb
      have ih1 := emitNode_jumps cfg c (a + 2) tb hok.1
      generalize hr : emitNode cfg (a + 2) tb c = r1 at *
      have hsz2 := emitAlt_size cfg cs (a + 2 + size cfg c + 2) fin r1.2
      have ih2 := emitAlt_jumps cfg cs (a + 2 + size cfg c + 2) fin r1.2 hok.2 (by omega)
      generalize (emitAlt cfg (a + 2 + size cfg c + 2) fin r1.2 cs).1 = C2 at *
      rw [← hsz, ← hsz2] at hfin
      rw [← hsz] at ih2 ⊢
      subst hfin
      jok_all
end


end RegexVerif.Writer
