/-
The bool-only program at interpreter level (property C02, composition with the compiler-correctness theorem of C01).

 * tree level: `stripTree` (the tree the second writer effectively compiles, Model/Writer.lean) translates to
   `Spec.stripCaps` of the translation (`toPat_strip`), keeps the direction of lookarounds, does not raise the tier,
   keeps `ok` / `capsOk` / `boundsOk`;
 * the slot analysis: `captureSlotsInUse` walks the FLAT code; on the code of a tree it is a fold over the
   instructions (`slotsWalk_flatten`), it only sets entries, and it sets the entry of every `Ref` / `Testref` operand —
   so every group the translated pattern reads back is kept by `emitCapture` of the second writer (`quickKeep_refs`);
 * the string / set tables do not depend on the writer configuration nor on the offset (`emitNode_tables`);
 * `compile_correct_prog`: the whole-attempt theorem of Lemmas/CompileTop.lean for ANY program that has the code words,
   tables and capture size of `emit ti t` (the bool-only program differs from `emit ti (stripTree …)` in `trackcount`,
   which the interpreter never reads).
-/
import RegexVerif.Lemmas.CompileTop
import RegexVerif.Lemmas.Quick

namespace RegexVerif.Compile
open RegexVerif.VM RegexVerif.Code RegexVerif.Writer RegexVerif.Generated.Opcodes RegexVerif RegexVerif.Spec
open RegexVerif.Lemmas.VM

/-! ## `stripTree` against `stripCaps` -/

/-- the `keep` predicate (on GROUP numbers) of a writer configuration: does `emitCapture` keep the mark pair of an
    ordinary capture of group `g` -/
def keepOf (cfg : Cfg) (g : Nat) : Bool := emitCapture cfg (g : Int) (-1)

/-- the groups whose captures survive in the bool-only program of a tree -/
def quickKeep (ti : TreeInfo) (t : GoNode) : Nat → Bool := keepOf (quickCfg ti t)

mutual
theorem lookDir_strip (cfg : Cfg) : ∀ n : GoNode, lookDir (stripTree cfg n) = lookDir n
  | .empty => rfl
  | .bare _ => rfl
  | .char _ _ _ _ => rfl
  | .set _ _ _ => rfl
  | .multi _ _ _ => rfl
  | .ref _ _ _ => rfl
  | .charloop _ _ _ _ _ _ => rfl
  | .setloop _ _ _ _ _ _ => rfl
  | .concat cs => by simp only [stripTree, lookDir]; exact lookDirList_strip cfg cs
  | .alt cs => by simp only [stripTree, lookDir]; exact lookDirList_strip cfg cs
  | .loop _ _ _ c => by simp only [stripTree, lookDir]; exact lookDir_strip cfg c
  | .capture m n c => by
    simp only [stripTree]
    split <;> simp only [lookDir] <;> exact lookDir_strip cfg c
  | .group c => by simp only [stripTree, lookDir]; exact lookDir_strip cfg c
  | .poslook _ => rfl
  | .neglook _ => rfl
  | .atomic c => by simp only [stripTree, lookDir]; exact lookDir_strip cfg c
  | .backrefcond1 _ y => by simp only [stripTree, lookDir]; exact lookDir_strip cfg y
  | .backrefcond2 _ y n => by simp only [stripTree, lookDir, lookDir_strip cfg y, lookDir_strip cfg n]
  | .exprcond2 c y => by simp only [stripTree, lookDir, lookDir_strip cfg c, lookDir_strip cfg y]
  | .exprcond3 c y n => by simp only [stripTree, lookDir, lookDir_strip cfg c, lookDir_strip cfg y, lookDir_strip cfg n]
  | .other _ => rfl
theorem lookDirList_strip (cfg : Cfg) : ∀ cs : List GoNode, lookDirList (stripList cfg cs) = lookDirList cs
  | [] => rfl
  | c :: cs => by simp only [stripList, lookDirList, lookDir_strip cfg c, lookDirList_strip cfg cs]
end

theorem stripCaps_nest (keep : Nat → Bool) (f : Pat → Pat → Pat) (u : Pat)
    (hf : ∀ a b, stripCaps keep (f a b) = f (stripCaps keep a) (stripCaps keep b)) (hu : stripCaps keep u = u) :
    ∀ ps : List Pat, stripCaps keep (nest f u ps) = nest f u (ps.map (stripCaps keep))
  | [] => by simp [nest, hu]
  | [x] => by simp [nest]
  | x :: y :: rest => by
    have ih := stripCaps_nest keep f u hf hu (y :: rest)
    simp only [nest, hf, ih, List.map_cons]

theorem stripCaps_nestSeq (keep : Nat → Bool) (ps : List Pat) :
    stripCaps keep (nestSeq ps) = nestSeq (ps.map (stripCaps keep)) :=
  stripCaps_nest keep Pat.seq Pat.empty (fun _ _ => rfl) rfl ps

theorem stripCaps_nestAlt (keep : Nat → Bool) (ps : List Pat) :
    stripCaps keep (nestAlt ps) = nestAlt (ps.map (stripCaps keep)) :=
  stripCaps_nest keep Pat.alt Pat.nothing (fun _ _ => rfl) rfl ps

theorem stripCaps_loopPat (keep : Nat → Bool) (t : Nat) (m n : Int) (body : Pat) :
    stripCaps keep (loopPat t m n body) = loopPat t m n (stripCaps keep body) := by
  unfold loopPat
  split <;> rfl

theorem stripCaps_bare {keep : Nat → Bool} {X : TP} {t : Nat} {p : Pat} (h : bareToPat X t = some p) :
    stripCaps keep p = p := by
  unfold bareToPat at h
  repeat' split at h
  all_goals first
    | (cases h; rfl)
    | skip
  all_goals (cases h)

theorem stripCaps_multi (keep : Nat → Bool) (s : List Nat) :
    stripCaps keep (nestSeq (s.map (fun r => Pat.chr (.one r false)))) = nestSeq (s.map (fun r => Pat.chr (.one r false))) := by
  rw [stripCaps_nestSeq, List.map_map]
  rfl

theorem kept_keepOf {cfg : Cfg} (h0 : emitCapture cfg 0 (-1) = true) (g : Nat) : kept (keepOf cfg) g = keepOf cfg g := by
  unfold kept
  by_cases hg : g = 0
  · subst hg; simp [keepOf, h0]
  · have : (g == 0) = false := by simpa using hg
    rw [this, Bool.false_or]

mutual
/-- **the translation commutes with stripping**: where the tree has a specification pattern, the tree the second writer
    effectively compiles has the pattern with the `cap g ·` nodes of the dropped groups removed -/
theorem toPat_strip (cfg : Cfg) (h0 : emitCapture cfg 0 (-1) = true) (X : TP) :
    ∀ (n : GoNode) (d : Bool) (p : Pat), toPat X d n = some p →
      toPat X d (stripTree cfg n) = some (stripCaps (keepOf cfg) p)
  | .empty, d, p, h => by simp only [toPat, Option.some.injEq] at h; subst h; rfl
  | .bare t, d, p, h => by
    simp only [toPat] at h
    simp only [stripTree, toPat, h, stripCaps_bare h]
  | .char t rtl ci ch, d, p, h => by
    simp only [stripTree, h]
    simp only [toPat] at h
    repeat' split at h
    all_goals first
      | (cases h; rfl)
      | cases h
  | .set rtl ci s, d, p, h => by
    simp only [stripTree, h]
    simp only [toPat] at h
    split at h
    · cases hr : X.rd s with
      | none => simp [hr] at h
      | some c => simp only [hr, Option.map_some, Option.some.injEq] at h; subst h; rfl
    · cases h
  | .multi rtl ci s, d, p, h => by
    simp only [stripTree, h]
    simp only [toPat] at h
    split at h
    · simp only [Option.some.injEq] at h; subst h; rw [stripCaps_multi]
    · cases h
  | .ref rtl ci m, d, p, h => by
    simp only [stripTree, h]
    simp only [toPat] at h
    split at h
    · simp only [Option.some.injEq] at h; subst h; rfl
    · cases h
  | .charloop t rtl ci ch m n, d, p, h => by
    simp only [stripTree, h]
    simp only [toPat] at h
    split at h
    · simp only [Option.some.injEq] at h; subst h; rw [stripCaps_loopPat]; rfl
    · cases h
  | .setloop t rtl ci s m n, d, p, h => by
    simp only [stripTree, h]
    simp only [toPat] at h
    split at h
    · cases hr : X.rd s with
      | none => simp [hr] at h
      | some c =>
        simp only [hr, Option.map_some, Option.some.injEq] at h; subst h; rw [stripCaps_loopPat]; rfl
    · cases h
  | .concat cs, d, p, h => by
    simp only [toPat] at h
    cases hl : toPatList X d cs with
    | none => simp [hl] at h
    | some ps =>
      simp only [hl, Option.map_some, Option.some.injEq] at h
      subst h
      simp only [stripTree, toPat, toPatList_strip cfg h0 X cs d ps hl, Option.map_some, stripCaps_nestSeq]
      cases d <;> simp [List.map_reverse]
  | .alt cs, d, p, h => by
    simp only [toPat] at h
    cases hl : toPatList X d cs with
    | none => simp [hl] at h
    | some ps =>
      simp only [hl, Option.map_some, Option.some.injEq] at h
      subst h
      simp only [stripTree, toPat, toPatList_strip cfg h0 X cs d ps hl, Option.map_some, stripCaps_nestAlt]
  | .loop lzy m n c, d, p, h => by
    simp only [toPat] at h
    cases hc : toPat X d c with
    | none => simp [hc] at h
    | some b =>
      simp only [hc, Option.map_some, Option.some.injEq] at h
      subst h
      simp only [stripTree, toPat, toPat_strip cfg h0 X c d b hc, Option.map_some, stripCaps]
  | .capture m n c, d, p, h => by
    simp only [toPat] at h
    split at h
    · rename_i hmn
      simp only [Bool.and_eq_true, beq_iff_eq, decide_eq_true_eq] at hmn
      obtain ⟨hn, hm⟩ := hmn
      subst hn
      cases hc : toPat X d c with
      | none => simp [hc] at h
      | some b =>
        simp only [hc, Option.map_some, Option.some.injEq] at h
        subst h
        have hcast : ((m.toNat : Nat) : Int) = m := Int.toNat_of_nonneg hm
        have hk : kept (keepOf cfg) m.toNat = emitCapture cfg m (-1) := by
          rw [kept_keepOf h0, keepOf, hcast]
        simp only [stripTree, stripCaps, hk]
        split
        · simp [toPat, hm, toPat_strip cfg h0 X c d b hc]
        · simp [toPat, toPat_strip cfg h0 X c d b hc]
    · cases h
  | .group c, d, p, h => by
    simp only [toPat] at h
    simp only [stripTree, toPat, toPat_strip cfg h0 X c d p h]
  | .poslook c, d, p, h => by
    simp only [toPat] at h
    simp only [stripTree, toPat, lookDir_strip]
    cases hd : lookDir c with
    | none => simp [hd] at h
    | some b =>
      simp only [hd] at h ⊢
      cases hc : toPat X b c with
      | none => simp [hc] at h
      | some q =>
        simp only [hc, Option.map_some, Option.some.injEq] at h
        subst h
        simp only [toPat_strip cfg h0 X c b q hc, Option.map_some, stripCaps]
  | .neglook c, d, p, h => by
    simp only [toPat] at h
    simp only [stripTree, toPat, lookDir_strip]
    cases hd : lookDir c with
    | none => simp [hd] at h
    | some b =>
      simp only [hd] at h ⊢
      cases hc : toPat X b c with
      | none => simp [hc] at h
      | some q =>
        simp only [hc, Option.map_some, Option.some.injEq] at h
        subst h
        simp only [toPat_strip cfg h0 X c b q hc, Option.map_some, stripCaps]
  | .atomic c, d, p, h => by
    simp only [toPat] at h
    cases hc : toPat X d c with
    | none => simp [hc] at h
    | some b =>
      simp only [hc, Option.map_some, Option.some.injEq] at h
      subst h
      simp only [stripTree, toPat, toPat_strip cfg h0 X c d b hc, Option.map_some, stripCaps]
  | .backrefcond1 m y, d, p, h => by
    simp only [toPat] at h
    split at h
    · rename_i hm
      cases hy : toPat X d y with
      | none => simp [hy] at h
      | some b =>
        simp only [hy, Option.map_some, Option.some.injEq] at h
        subst h
        simp only [stripTree, toPat, hm, if_true, toPat_strip cfg h0 X y d b hy, Option.map_some, stripCaps]
    · cases h
  | .backrefcond2 m y n, d, p, h => by
    simp only [toPat] at h
    split at h
    · rename_i hm
      cases hy : toPat X d y with
      | none => simp [hy] at h
      | some b =>
        cases hn : toPat X d n with
        | none => simp [hy, hn] at h
        | some b2 =>
          simp only [hy, hn, Option.some.injEq] at h
          subst h
          simp only [stripTree, toPat, hm, if_true, toPat_strip cfg h0 X y d b hy, toPat_strip cfg h0 X n d b2 hn, stripCaps]
    · cases h
  | .exprcond2 c y, d, p, h => by
    simp only [toPat] at h
    cases hc : toPat X d c with
    | none => simp [hc] at h
    | some b =>
      cases hy : toPat X d y with
      | none => simp [hc, hy] at h
      | some b2 =>
        simp only [hc, hy, Option.some.injEq] at h
        subst h
        simp only [stripTree, toPat, toPat_strip cfg h0 X c d b hc, toPat_strip cfg h0 X y d b2 hy, stripCaps]
  | .exprcond3 c y n, d, p, h => by
    simp only [toPat] at h
    cases hc : toPat X d c with
    | none => simp [hc] at h
    | some b =>
      cases hy : toPat X d y with
      | none => simp [hc, hy] at h
      | some b2 =>
        cases hn : toPat X d n with
        | none => simp [hc, hy, hn] at h
        | some b3 =>
          simp only [hc, hy, hn, Option.some.injEq] at h
          subst h
          simp only [stripTree, toPat, toPat_strip cfg h0 X c d b hc, toPat_strip cfg h0 X y d b2 hy,
            toPat_strip cfg h0 X n d b3 hn, stripCaps]
  | .other _, d, p, h => by simp [toPat] at h
theorem toPatList_strip (cfg : Cfg) (h0 : emitCapture cfg 0 (-1) = true) (X : TP) :
    ∀ (cs : List GoNode) (d : Bool) (ps : List Pat), toPatList X d cs = some ps →
      toPatList X d (stripList cfg cs) = some (ps.map (stripCaps (keepOf cfg)))
  | [], d, ps, h => by simp only [toPatList, Option.some.injEq] at h; subst h; rfl
  | c :: cs, d, ps, h => by
    simp only [toPatList] at h
    cases hc : toPat X d c with
    | none => simp [hc] at h
    | some b =>
      cases hl : toPatList X d cs with
      | none => simp [hc, hl] at h
      | some bs =>
        simp only [hc, hl, Option.some.injEq] at h
        subst h
        simp only [stripList, toPatList, toPat_strip cfg h0 X c d b hc, toPatList_strip cfg h0 X cs d bs hl, List.map_cons]
end

/-! ## `stripTree` keeps the fragment and the well-formedness -/

mutual
theorem tier_le_ten : ∀ n : GoNode, tier n ≤ 10
  | .empty => by simp [tier]
  | .bare _ => by simp only [tier]; split <;> (try split) <;> omega
  | .char _ _ _ _ => by simp [tier]
  | .set _ _ _ => by simp [tier]
  | .multi _ _ _ => by simp [tier]
  | .ref _ _ _ => by simp only [tier]; split <;> omega
  | .charloop _ _ _ _ _ _ => by simp only [tier]; split <;> omega
  | .setloop _ _ _ _ _ _ => by simp only [tier]; split <;> omega
  | .concat cs => by simp only [tier]; exact tierList_le_ten cs
  | .alt cs => by simp only [tier]; exact tierList_le_ten cs
  | .loop _ _ _ c => by have := tier_le_ten c; simp only [tier]; omega
  | .capture _ _ c => by have := tier_le_ten c; simp only [tier]; split <;> omega
  | .group c => by simp only [tier]; exact tier_le_ten c
  | .poslook c => by have := tier_le_ten c; simp only [tier]; split <;> omega
  | .neglook c => by have := tier_le_ten c; simp only [tier]; split <;> omega
  | .atomic c => by have := tier_le_ten c; simp only [tier]; omega
  | .backrefcond1 _ y => by have := tier_le_ten y; simp only [tier]; omega
  | .backrefcond2 _ y n => by have := tier_le_ten y; have := tier_le_ten n; simp only [tier]; omega
  | .exprcond2 c y => by have := tier_le_ten c; have := tier_le_ten y; simp only [tier]; omega
  | .exprcond3 c y n => by
    have := tier_le_ten c; have := tier_le_ten y; have := tier_le_ten n; simp only [tier]; omega
  | .other _ => by simp [tier]
theorem tierList_le_ten : ∀ cs : List GoNode, tierList cs ≤ 10
  | [] => by simp [tierList]
  | c :: cs => by have := tier_le_ten c; have := tierList_le_ten cs; simp only [tierList]; omega
end

mutual
theorem tier_strip (cfg : Cfg) : ∀ n : GoNode, tier (stripTree cfg n) ≤ tier n
  | .empty => Nat.le_refl _
  | .bare _ => Nat.le_refl _
  | .char _ _ _ _ => Nat.le_refl _
  | .set _ _ _ => Nat.le_refl _
  | .multi _ _ _ => Nat.le_refl _
  | .ref _ _ _ => Nat.le_refl _
  | .charloop _ _ _ _ _ _ => Nat.le_refl _
  | .setloop _ _ _ _ _ _ => Nat.le_refl _
  | .concat cs => by simp only [stripTree, tier]; exact tierList_strip cfg cs
  | .alt cs => by simp only [stripTree, tier]; exact tierList_strip cfg cs
  | .loop _ _ _ c => by have := tier_strip cfg c; simp only [stripTree, tier]; omega
  | .capture m n c => by
    have := tier_strip cfg c
    have := tier_le_ten c
    simp only [stripTree]
    split
    · simp only [tier]; split <;> omega
    · simp only [tier]; split <;> omega
  | .group c => by simp only [stripTree, tier]; exact tier_strip cfg c
  | .poslook c => by
    have := tier_strip cfg c
    simp only [stripTree, tier, lookDir_strip]; split <;> omega
  | .neglook c => by
    have := tier_strip cfg c
    simp only [stripTree, tier, lookDir_strip]; split <;> omega
  | .atomic c => by have := tier_strip cfg c; simp only [stripTree, tier]; omega
  | .backrefcond1 _ y => by have := tier_strip cfg y; simp only [stripTree, tier]; omega
  | .backrefcond2 _ y n => by
    have := tier_strip cfg y; have := tier_strip cfg n; simp only [stripTree, tier]; omega
  | .exprcond2 c y => by
    have := tier_strip cfg c; have := tier_strip cfg y; simp only [stripTree, tier]; omega
  | .exprcond3 c y n => by
    have := tier_strip cfg c; have := tier_strip cfg y; have := tier_strip cfg n; simp only [stripTree, tier]; omega
  | .other _ => Nat.le_refl _
theorem tierList_strip (cfg : Cfg) : ∀ cs : List GoNode, tierList (stripList cfg cs) ≤ tierList cs
  | [] => Nat.le_refl _
  | c :: cs => by
    have := tier_strip cfg c; have := tierList_strip cfg cs; simp only [stripList, tierList]; omega
end

mutual
theorem ok_strip (cfg : Cfg) : ∀ n : GoNode, (stripTree cfg n).ok = n.ok
  | .empty => rfl
  | .bare _ => rfl
  | .char _ _ _ _ => rfl
  | .set _ _ _ => rfl
  | .multi _ _ _ => rfl
  | .ref _ _ _ => rfl
  | .charloop _ _ _ _ _ _ => rfl
  | .setloop _ _ _ _ _ _ => rfl
  | .concat cs => by simp only [stripTree, GoNode.ok, stripList_isEmpty, okList_strip cfg cs]
  | .alt cs => by simp only [stripTree, GoNode.ok, stripList_isEmpty, okList_strip cfg cs]
  | .loop _ _ _ c => by simp only [stripTree, GoNode.ok, ok_strip cfg c]
  | .capture m n c => by simp only [stripTree]; split <;> simp only [GoNode.ok, ok_strip cfg c]
  | .group c => by simp only [stripTree, GoNode.ok, ok_strip cfg c]
  | .poslook c => by simp only [stripTree, GoNode.ok, ok_strip cfg c]
  | .neglook c => by simp only [stripTree, GoNode.ok, ok_strip cfg c]
  | .atomic c => by simp only [stripTree, GoNode.ok, ok_strip cfg c]
  | .backrefcond1 _ y => by simp only [stripTree, GoNode.ok, ok_strip cfg y]
  | .backrefcond2 _ y n => by simp only [stripTree, GoNode.ok, ok_strip cfg y, ok_strip cfg n]
  | .exprcond2 c y => by simp only [stripTree, GoNode.ok, ok_strip cfg c, ok_strip cfg y]
  | .exprcond3 c y n => by simp only [stripTree, GoNode.ok, ok_strip cfg c, ok_strip cfg y, ok_strip cfg n]
  | .other _ => rfl
theorem okList_strip (cfg : Cfg) : ∀ cs : List GoNode, okList (stripList cfg cs) = okList cs
  | [] => rfl
  | c :: cs => by simp only [stripList, okList, ok_strip cfg c, okList_strip cfg cs]
end

mutual
theorem boundsOk_strip (cfg : Cfg) : ∀ n : GoNode, boundsOk (stripTree cfg n) = boundsOk n
  | .empty => rfl
  | .bare _ => rfl
  | .char _ _ _ _ => rfl
  | .set _ _ _ => rfl
  | .multi _ _ _ => rfl
  | .ref _ _ _ => rfl
  | .charloop _ _ _ _ _ _ => rfl
  | .setloop _ _ _ _ _ _ => rfl
  | .concat cs => by simp only [stripTree, boundsOk, boundsOkList_strip cfg cs]
  | .alt cs => by simp only [stripTree, boundsOk, boundsOkList_strip cfg cs]
  | .loop _ _ _ c => by simp only [stripTree, boundsOk, boundsOk_strip cfg c]
  | .capture m n c => by simp only [stripTree]; split <;> simp only [boundsOk, boundsOk_strip cfg c]
  | .group c => by simp only [stripTree, boundsOk, boundsOk_strip cfg c]
  | .poslook c => by simp only [stripTree, boundsOk, boundsOk_strip cfg c]
  | .neglook c => by simp only [stripTree, boundsOk, boundsOk_strip cfg c]
  | .atomic c => by simp only [stripTree, boundsOk, boundsOk_strip cfg c]
  | .backrefcond1 _ y => by simp only [stripTree, boundsOk, boundsOk_strip cfg y]
  | .backrefcond2 _ y n => by simp only [stripTree, boundsOk, boundsOk_strip cfg y, boundsOk_strip cfg n]
  | .exprcond2 c y => by simp only [stripTree, boundsOk, boundsOk_strip cfg c, boundsOk_strip cfg y]
  | .exprcond3 c y n => by
    simp only [stripTree, boundsOk, boundsOk_strip cfg c, boundsOk_strip cfg y, boundsOk_strip cfg n]
  | .other _ => rfl
theorem boundsOkList_strip (cfg : Cfg) : ∀ cs : List GoNode, boundsOkList (stripList cfg cs) = boundsOkList cs
  | [] => rfl
  | c :: cs => by simp only [stripList, boundsOkList, boundsOk_strip cfg c, boundsOkList_strip cfg cs]
end

mutual
/-- a stripped capture no longer names a slot, so `capsOk` (for ANY slot map `cfg'`) can only get easier -/
theorem capsOk_strip (cfg cfg' : Cfg) (N : Nat) : ∀ n : GoNode, capsOk cfg' N n = true → capsOk cfg' N (stripTree cfg n) = true
  | .empty, _ => rfl
  | .bare _, _ => rfl
  | .char _ _ _ _, _ => rfl
  | .set _ _ _, _ => rfl
  | .multi _ _ _, _ => rfl
  | .ref _ _ _, h => h
  | .charloop _ _ _ _ _ _, _ => rfl
  | .setloop _ _ _ _ _ _, _ => rfl
  | .concat cs, h => by simp only [stripTree, capsOk] at h ⊢; exact capsOkList_strip cfg cfg' N cs h
  | .alt cs, h => by simp only [stripTree, capsOk] at h ⊢; exact capsOkList_strip cfg cfg' N cs h
  | .loop _ _ _ c, h => by simp only [stripTree, capsOk] at h ⊢; exact capsOk_strip cfg cfg' N c h
  | .capture m n c, h => by
    simp only [capsOk, Bool.and_eq_true] at h
    simp only [stripTree]
    split
    · simp only [capsOk, Bool.and_eq_true]; exact ⟨h.1, capsOk_strip cfg cfg' N c h.2⟩
    · simp only [capsOk]; exact capsOk_strip cfg cfg' N c h.2
  | .group c, h => by simp only [stripTree, capsOk] at h ⊢; exact capsOk_strip cfg cfg' N c h
  | .poslook c, h => by simp only [stripTree, capsOk] at h ⊢; exact capsOk_strip cfg cfg' N c h
  | .neglook c, h => by simp only [stripTree, capsOk] at h ⊢; exact capsOk_strip cfg cfg' N c h
  | .atomic c, h => by simp only [stripTree, capsOk] at h ⊢; exact capsOk_strip cfg cfg' N c h
  | .backrefcond1 _ y, h => by
    simp only [stripTree, capsOk, Bool.and_eq_true] at h ⊢; exact ⟨h.1, capsOk_strip cfg cfg' N y h.2⟩
  | .backrefcond2 _ y n, h => by
    simp only [stripTree, capsOk, Bool.and_eq_true] at h ⊢
    exact ⟨⟨h.1.1, capsOk_strip cfg cfg' N y h.1.2⟩, capsOk_strip cfg cfg' N n h.2⟩
  | .exprcond2 c y, h => by
    simp only [stripTree, capsOk, Bool.and_eq_true] at h ⊢
    exact ⟨capsOk_strip cfg cfg' N c h.1, capsOk_strip cfg cfg' N y h.2⟩
  | .exprcond3 c y n, h => by
    simp only [stripTree, capsOk, Bool.and_eq_true] at h ⊢
    exact ⟨⟨capsOk_strip cfg cfg' N c h.1.1, capsOk_strip cfg cfg' N y h.1.2⟩, capsOk_strip cfg cfg' N n h.2⟩
  | .other _, _ => rfl
theorem capsOkList_strip (cfg cfg' : Cfg) (N : Nat) : ∀ cs : List GoNode, capsOkList cfg' N cs = true →
    capsOkList cfg' N (stripList cfg cs) = true
  | [], _ => rfl
  | c :: cs, h => by
    simp only [stripList, capsOkList, Bool.and_eq_true] at h ⊢
    exact ⟨capsOk_strip cfg cfg' N c h.1, capsOkList_strip cfg cfg' N cs h.2⟩
end

/-- `treeWf` survives stripping (whatever the writer configuration that decides which captures go) -/
theorem treeWf_strip (cfg : Cfg) (ti : TreeInfo) (t : GoNode) (h : treeWf ti t = true) : treeWf ti (stripTree cfg t) = true := by
  simp only [treeWf, Bool.and_eq_true] at h ⊢
  exact ⟨⟨by rw [ok_strip]; exact h.1.1, capsOk_strip cfg _ _ t h.1.2⟩, by rw [boundsOk_strip]; exact h.2⟩

/-! ## the tables do not depend on the configuration nor on the offset -/

mutual
theorem emitNode_tables (cfg cfg' : Cfg) : ∀ (n : GoNode) (a a' : Nat) (tb : Tables),
    (emitNode cfg a tb n).2 = (emitNode cfg' a' tb n).2
  | .empty, _, _, _ => rfl
  | .bare _, _, _, _ => rfl
  | .char _ _ _ _, _, _, _ => rfl
  | .set _ _ _, _, _, _ => rfl
  | .multi _ _ _, _, _, _ => rfl
  | .ref _ _ _, _, _, _ => rfl
  | .charloop _ _ _ _ _ _, _, _, _ => rfl
  | .setloop _ _ _ _ _ _, _, _, _ => rfl
  | .concat cs, a, a', tb => by simp only [emitNode]; exact emitList_tables cfg cfg' cs a a' tb
  | .alt cs, a, a', tb => by simp only [emitNode]; exact emitAlt_tables cfg cfg' cs a a' _ _ tb
  | .loop _ _ _ c, a, a', tb => by simp only [emitNode]; exact emitNode_tables cfg cfg' c _ _ tb
  | .capture m n c, a, a', tb => by
    simp only [emitNode]
    split <;> split <;> exact emitNode_tables cfg cfg' c _ _ tb
  | .group c, a, a', tb => by simp only [emitNode]; exact emitNode_tables cfg cfg' c _ _ tb
  | .poslook c, a, a', tb => by simp only [emitNode]; exact emitNode_tables cfg cfg' c _ _ tb
  | .neglook c, a, a', tb => by simp only [emitNode]; exact emitNode_tables cfg cfg' c _ _ tb
  | .atomic c, a, a', tb => by simp only [emitNode]; exact emitNode_tables cfg cfg' c _ _ tb
  | .backrefcond1 _ y, a, a', tb => by simp only [emitNode]; exact emitNode_tables cfg cfg' y _ _ tb
  | .backrefcond2 _ y n, a, a', tb => by
    simp only [emitNode]
    rw [emitNode_tables cfg cfg' y (a + 6) (a' + 6) tb]
    exact emitNode_tables cfg cfg' n _ _ _
  | .exprcond2 c y, a, a', tb => by
    simp only [emitNode]
    rw [emitNode_tables cfg cfg' c (a + 4) (a' + 4) tb]
    exact emitNode_tables cfg cfg' y _ _ _
  | .exprcond3 c y n, a, a', tb => by
    simp only [emitNode]
    rw [emitNode_tables cfg cfg' c (a + 4) (a' + 4) tb,
      emitNode_tables cfg cfg' y (a + 4 + size cfg c + 2) (a' + 4 + size cfg' c + 2) _]
    exact emitNode_tables cfg cfg' n _ _ _
  | .other _, _, _, _ => rfl
theorem emitList_tables (cfg cfg' : Cfg) : ∀ (cs : List GoNode) (a a' : Nat) (tb : Tables),
    (emitList cfg a tb cs).2 = (emitList cfg' a' tb cs).2
  | [], _, _, _ => rfl
  | c :: cs, a, a', tb => by
    simp only [emitList]
    rw [emitNode_tables cfg cfg' c a a' tb]
    exact emitList_tables cfg cfg' cs _ _ _
theorem emitAlt_tables (cfg cfg' : Cfg) : ∀ (cs : List GoNode) (a a' fin fin' : Nat) (tb : Tables),
    (emitAlt cfg a fin tb cs).2 = (emitAlt cfg' a' fin' tb cs).2
  | [], _, _, _, _, _ => rfl
  | c :: cs, a, a', fin, fin', tb => by
    simp only [emitAlt]
    split
    · exact emitNode_tables cfg cfg' c _ _ tb
    · simp only
      rw [emitNode_tables cfg cfg' c (a + 2) (a' + 2) tb]
      exact emitAlt_tables cfg cfg' cs _ _ _ _ _
end

theorem codeFromTree_tables (cfg cfg' : Cfg) (t : GoNode) : (codeFromTree cfg t).2 = (codeFromTree cfg' t).2 := by
  simp only [codeFromTree]; exact emitNode_tables cfg cfg' t 2 2 _

/-! ## the slot analysis `captureSlotsInUse` on the code of a tree -/

/-- what one instruction contributes to `inUse` (the body of the loop of `captureSlotsInUse`) -/
def markInstr (u : List Bool) (i : Instr) : List Bool :=
  if i.opcode == opRef || i.opcode == opTestref then markSlot u i.args[0]?
  else if i.opcode == opCapturemark then
    (if i.args[1]? != some (-1) then markSlot (markSlot u i.args[0]?) i.args[1]? else u)
  else u

theorem sizeOf_ref_vals : Code.sizeOf? opRef = some 2 ∧ Code.sizeOf? opTestref = some 2 ∧ Code.sizeOf? opCapturemark = some 3 := by
  decide

/-- on the flat code of an instruction list with the arities of `opcodeSize`, the walk of `captureSlotsInUse` is a
    fold over the instructions (fuel = any bound of their number) -/
theorem slotsWalk_flatten : ∀ (c : Code) (fuel : Nat) (u : List Bool), (∀ i ∈ c, i.arityOk = true) → c.length ≤ fuel →
    slotsWalk fuel (flatten c) u = c.foldl markInstr u
  | [], fuel, u, _, _ => by cases fuel <;> simp [flatten, slotsWalk]
  | i :: r, 0, _, _, hf => by simp at hf
  | i :: r, fuel + 1, u, h, hf => by
    have hi := h i (by simp)
    have ih := fun u' => slotsWalk_flatten r fuel u' (fun j hj => h j (by simp [hj])) (by simpa using hf)
    simp only [Instr.arityOk, beq_iff_eq] at hi
    have hop : i.op % (flagMask + 1) = i.opcode := rfl
    simp only [flatten, Instr.words, List.cons_append, slotsWalk, Int.toNat_natCast, List.foldl_cons, hop, hi,
      Nat.add_sub_cancel_left, List.drop_left, ih]
    congr 1
    unfold markInstr
    by_cases h1 : (i.opcode == opRef || i.opcode == opTestref) = true
    · have hlen : i.args.length = 1 := by
        simp only [Bool.or_eq_true, beq_iff_eq] at h1
        rcases h1 with h1 | h1 <;> rw [h1] at hi
        · rw [sizeOf_ref_vals.1] at hi; simp at hi; omega
        · rw [sizeOf_ref_vals.2.1] at hi; simp at hi; omega
      simp only [h1, if_true]
      rw [List.getElem?_append_left (by omega)]
    · simp only [h1, Bool.false_eq_true, if_false]
      by_cases h2 : (i.opcode == opCapturemark) = true
      · have hlen : i.args.length = 2 := by
          simp only [beq_iff_eq] at h2
          rw [h2, sizeOf_ref_vals.2.2] at hi; simp at hi; omega
        simp only [h2, if_true]
        rw [List.getElem?_append_left (by omega), List.getElem?_append_left (by omega)]
      · simp only [h2, Bool.false_eq_true, if_false]

theorem markSlot_length (u : List Bool) (c : Option Int) : (markSlot u c).length = u.length := by
  unfold markSlot
  cases c with
  | none => rfl
  | some x => simp only; split <;> simp

theorem markSlot_mono (u : List Bool) (c : Option Int) (k : Nat) (h : u.getD k false = true) :
    (markSlot u c).getD k false = true := by
  unfold markSlot
  cases c with
  | none => exact h
  | some x =>
    simp only
    split
    · simp only [List.getD_eq_getElem?_getD, List.getElem?_set] at h ⊢
      split
      · split <;> simp_all
      · exact h
    · exact h

theorem markSlot_marks (u : List Bool) (x : Int) (h0 : 0 ≤ x) (h1 : x < u.length) :
    (markSlot u (some x)).getD x.toNat false = true := by
  have hx : x.toNat < u.length := by omega
  simp [markSlot, h0, h1, List.getD_eq_getElem?_getD, hx]

theorem markInstr_length (u : List Bool) (i : Instr) : (markInstr u i).length = u.length := by
  unfold markInstr
  repeat' split
  all_goals simp only [markSlot_length]

theorem markInstr_mono (u : List Bool) (i : Instr) (k : Nat) (h : u.getD k false = true) :
    (markInstr u i).getD k false = true := by
  unfold markInstr
  repeat' split
  all_goals first
    | exact h
    | exact markSlot_mono _ _ _ h
    | exact markSlot_mono _ _ _ (markSlot_mono _ _ _ h)

theorem foldl_markInstr_length : ∀ (c : Code) (u : List Bool), (c.foldl markInstr u).length = u.length
  | [], _ => rfl
  | i :: r, u => by rw [List.foldl_cons, foldl_markInstr_length r, markInstr_length]

theorem foldl_markInstr_mono : ∀ (c : Code) (u : List Bool) (k : Nat), u.getD k false = true →
    (c.foldl markInstr u).getD k false = true
  | [], _, _, h => h
  | i :: r, u, k, h => by rw [List.foldl_cons]; exact foldl_markInstr_mono r _ k (markInstr_mono u i k h)

/-- a `Ref` / `Testref` instruction with operand `x` -/
def IsRefInstr (i : Instr) (x : Int) : Prop := (i.opcode = opRef ∨ i.opcode = opTestref) ∧ i.args = [x]

theorem foldl_markInstr_marks : ∀ (c : Code) (u : List Bool) (i : Instr) (x : Int), i ∈ c → IsRefInstr i x → 0 ≤ x →
    x < u.length → (c.foldl markInstr u).getD x.toNat false = true
  | [], _, _, _, h, _, _, _ => by cases h
  | j :: r, u, i, x, h, hi, h0, h1 => by
    rw [List.foldl_cons]
    rcases List.mem_cons.1 h with rfl | h
    · apply foldl_markInstr_mono
      have hop : (i.opcode == opRef || i.opcode == opTestref) = true := by
        rcases hi.1 with e | e <;> simp [e]
      simp only [markInstr, hop, if_true, hi.2, List.getElem?_cons_zero]
      exact markSlot_marks u x h0 h1
    · exact foldl_markInstr_marks r _ i x h hi h0 (by rw [markInstr_length]; exact h1)

/-- `captureSlotsInUse` on the flat code of an instruction list -/
theorem captureSlotsInUse_flatten (c : Code) (N : Nat) (h : ∀ i ∈ c, i.arityOk = true) :
    captureSlotsInUse (flatten c) N = c.foldl markInstr ((List.replicate N false).set 0 true) := by
  unfold captureSlotsInUse
  exact slotsWalk_flatten c _ _ h (by rw [flatten_length]; exact length_le_codeLen c)

mutual
/-- the group numbers a tree reads back: operands of `Ref` and `BackRefCond` nodes -/
def treeRefs : GoNode → List Int
  | .ref _ _ m => [m]
  | .concat cs => treeRefsList cs
  | .alt cs => treeRefsList cs
  | .loop _ _ _ c => treeRefs c
  | .capture _ _ c => treeRefs c
  | .group c => treeRefs c
  | .poslook c => treeRefs c
  | .neglook c => treeRefs c
  | .atomic c => treeRefs c
  | .backrefcond1 m y => m :: treeRefs y
  | .backrefcond2 m y n => m :: (treeRefs y ++ treeRefs n)
  | .exprcond2 c y => treeRefs c ++ treeRefs y
  | .exprcond3 c y n => treeRefs c ++ (treeRefs y ++ treeRefs n)
  | _ => []
def treeRefsList : List GoNode → List Int
  | [] => []
  | c :: cs => treeRefs c ++ treeRefsList cs
end

theorem isRef_ref (rtl ci : Bool) (x : Int) : IsRefInstr (i1 (opRef ||| bits rtl ci) x) x :=
  ⟨Or.inl (opcode_bits opRef (by decide) rtl ci), rfl⟩

theorem isRef_testref (x : Int) : IsRefInstr (i1 opTestref x) x := ⟨Or.inr rfl, rfl⟩

mutual
/-- every group a tree reads back shows up as the operand of a `Ref` / `Testref` instruction of its code -/
theorem emitNode_refs (cfg : Cfg) : ∀ (n : GoNode) (a : Nat) (tb : Tables) (m : Int), m ∈ treeRefs n →
    ∃ i ∈ (emitNode cfg a tb n).1, IsRefInstr i (mapCapnum cfg m)
  | .empty, _, _, _, h => by simp [treeRefs] at h
  | .bare _, _, _, _, h => by simp [treeRefs] at h
  | .char _ _ _ _, _, _, _, h => by simp [treeRefs] at h
  | .set _ _ _, _, _, _, h => by simp [treeRefs] at h
  | .multi _ _ _, _, _, _, h => by simp [treeRefs] at h
  | .ref rtl ci g, a, tb, m, h => by
    simp only [treeRefs, List.mem_singleton] at h
    subst h
    exact ⟨_, by simp [emitNode], isRef_ref rtl ci _⟩
  | .charloop _ _ _ _ _ _, _, _, _, h => by simp [treeRefs] at h
  | .setloop _ _ _ _ _ _, _, _, _, h => by simp [treeRefs] at h
  | .concat cs, a, tb, m, h => by simp only [treeRefs] at h; simp only [emitNode]; exact emitList_refs cfg cs a tb m h
  | .alt cs, a, tb, m, h => by simp only [treeRefs] at h; simp only [emitNode]; exact emitAlt_refs cfg cs a _ tb m h
  | .loop _ _ _ c, a, tb, m, h => by
    simp only [treeRefs] at h
    obtain ⟨i, hi, hr⟩ := emitNode_refs cfg c (a + loopHeadLen _ _) tb m h
    exact ⟨i, by simp only [emitNode, List.mem_append]; exact Or.inl (Or.inr hi), hr⟩
  | .capture _ _ c, a, tb, m, h => by
    simp only [treeRefs] at h
    simp only [emitNode]
    split
    · obtain ⟨i, hi, hr⟩ := emitNode_refs cfg c (a + 1) tb m h
      exact ⟨i, by simp only [List.mem_append]; exact Or.inl (Or.inr hi), hr⟩
    · exact emitNode_refs cfg c a tb m h
  | .group c, a, tb, m, h => by simp only [treeRefs] at h; simp only [emitNode]; exact emitNode_refs cfg c a tb m h
  | .poslook c, a, tb, m, h => by
    simp only [treeRefs] at h
    obtain ⟨i, hi, hr⟩ := emitNode_refs cfg c (a + 2) tb m h
    exact ⟨i, by simp only [emitNode, List.mem_append]; exact Or.inl (Or.inr hi), hr⟩
  | .neglook c, a, tb, m, h => by
    simp only [treeRefs] at h
    obtain ⟨i, hi, hr⟩ := emitNode_refs cfg c (a + 3) tb m h
    exact ⟨i, by simp only [emitNode, List.mem_append]; exact Or.inl (Or.inr hi), hr⟩
  | .atomic c, a, tb, m, h => by
    simp only [treeRefs] at h
    obtain ⟨i, hi, hr⟩ := emitNode_refs cfg c (a + 1) tb m h
    exact ⟨i, by simp only [emitNode, List.mem_append]; exact Or.inl (Or.inr hi), hr⟩
  | .backrefcond1 g y, a, tb, m, h => by
    simp only [treeRefs, List.mem_cons] at h
    rcases h with rfl | h
    · exact ⟨i1 opTestref (mapCapnum cfg m), by simp [emitNode], isRef_testref _⟩
    · obtain ⟨i, hi, hr⟩ := emitNode_refs cfg y (a + 6) tb m h
      exact ⟨i, by simp only [emitNode, List.mem_append]; exact Or.inl (Or.inr hi), hr⟩
  | .backrefcond2 g y n, a, tb, m, h => by
    simp only [treeRefs, List.mem_cons, List.mem_append] at h
    rcases h with rfl | h | h
    · exact ⟨i1 opTestref (mapCapnum cfg m), by simp [emitNode], isRef_testref _⟩
    · obtain ⟨i, hi, hr⟩ := emitNode_refs cfg y (a + 6) tb m h
      exact ⟨i, by simp only [emitNode, List.mem_append]; exact Or.inl (Or.inl (Or.inr hi)), hr⟩
    · obtain ⟨i, hi, hr⟩ := emitNode_refs cfg n (a + 6 + size cfg y + 3) (emitNode cfg (a + 6) tb y).2 m h
      exact ⟨i, by simp only [emitNode, List.mem_append]; exact Or.inr hi, hr⟩
  | .exprcond2 c y, a, tb, m, h => by
    simp only [treeRefs, List.mem_append] at h
    rcases h with h | h
    · obtain ⟨i, hi, hr⟩ := emitNode_refs cfg c (a + 4) tb m h
      exact ⟨i, by simp only [emitNode, List.mem_append]; exact Or.inl (Or.inl (Or.inl (Or.inr hi))), hr⟩
    · obtain ⟨i, hi, hr⟩ := emitNode_refs cfg y (a + 4 + size cfg c + 2) (emitNode cfg (a + 4) tb c).2 m h
      exact ⟨i, by simp only [emitNode, List.mem_append]; exact Or.inl (Or.inr hi), hr⟩
  | .exprcond3 c y n, a, tb, m, h => by
    simp only [treeRefs, List.mem_append] at h
    rcases h with h | h | h
    · obtain ⟨i, hi, hr⟩ := emitNode_refs cfg c (a + 4) tb m h
      exact ⟨i, by simp only [emitNode, List.mem_append]; exact Or.inl (Or.inl (Or.inl (Or.inl (Or.inr hi)))), hr⟩
    · obtain ⟨i, hi, hr⟩ := emitNode_refs cfg y (a + 4 + size cfg c + 2) (emitNode cfg (a + 4) tb c).2 m h
      exact ⟨i, by simp only [emitNode, List.mem_append]; exact Or.inl (Or.inl (Or.inr hi)), hr⟩
    · obtain ⟨i, hi, hr⟩ := emitNode_refs cfg n (a + 4 + size cfg c + 2 + size cfg y + 4)
        (emitNode cfg (a + 4 + size cfg c + 2) (emitNode cfg (a + 4) tb c).2 y).2 m h
      exact ⟨i, by simp only [emitNode, List.mem_append]; exact Or.inr hi, hr⟩
  | .other _, _, _, _, h => by simp [treeRefs] at h
theorem emitList_refs (cfg : Cfg) : ∀ (cs : List GoNode) (a : Nat) (tb : Tables) (m : Int), m ∈ treeRefsList cs →
    ∃ i ∈ (emitList cfg a tb cs).1, IsRefInstr i (mapCapnum cfg m)
  | [], _, _, _, h => by simp [treeRefsList] at h
  | c :: cs, a, tb, m, h => by
    simp only [treeRefsList, List.mem_append] at h
    rcases h with h | h
    · obtain ⟨i, hi, hr⟩ := emitNode_refs cfg c a tb m h
      exact ⟨i, by simp only [emitList, List.mem_append]; exact Or.inl hi, hr⟩
    · obtain ⟨i, hi, hr⟩ := emitList_refs cfg cs (a + size cfg c) (emitNode cfg a tb c).2 m h
      exact ⟨i, by simp only [emitList, List.mem_append]; exact Or.inr hi, hr⟩
theorem emitAlt_refs (cfg : Cfg) : ∀ (cs : List GoNode) (a fin : Nat) (tb : Tables) (m : Int), m ∈ treeRefsList cs →
    ∃ i ∈ (emitAlt cfg a fin tb cs).1, IsRefInstr i (mapCapnum cfg m)
  | [], _, _, _, _, h => by simp [treeRefsList] at h
  | c :: cs, a, fin, tb, m, h => by
    simp only [treeRefsList, List.mem_append] at h
    simp only [emitAlt]
    split
    · rename_i hemp
      rcases h with h | h
      · exact emitNode_refs cfg c a tb m h
      · have : cs = [] := by simpa using hemp
        subst this; simp [treeRefsList] at h
    · rcases h with h | h
      · obtain ⟨i, hi, hr⟩ := emitNode_refs cfg c (a + 2) tb m h
        exact ⟨i, by simp only [List.mem_append]; exact Or.inl (Or.inl (Or.inr hi)), hr⟩
      · obtain ⟨i, hi, hr⟩ := emitAlt_refs cfg cs (a + 2 + size cfg c + 2) fin (emitNode cfg (a + 2) tb c).2 m h
        exact ⟨i, by simp only [List.mem_append]; exact Or.inr hi, hr⟩
end

/-! ## the groups the translated pattern reads back are groups the tree reads back -/

theorem refsOf_nest (f : Pat → Pat → Pat) (u : Pat) (hf : ∀ a b, refsOf (f a b) = refsOf a ++ refsOf b) (hu : refsOf u = []) :
    ∀ (ps : List Pat) (g : Nat), g ∈ refsOf (nest f u ps) → ∃ p ∈ ps, g ∈ refsOf p
  | [], g, h => by simp [nest, hu] at h
  | [x], g, h => ⟨x, by simp, by simpa [nest] using h⟩
  | x :: y :: rest, g, h => by
    simp only [nest, hf, List.mem_append] at h
    rcases h with h | h
    · exact ⟨x, by simp, h⟩
    · obtain ⟨p, hp, hg⟩ := refsOf_nest f u hf hu (y :: rest) g h
      exact ⟨p, List.mem_cons_of_mem _ hp, hg⟩

theorem refsOf_loopPat_chr (t : Nat) (m n : Int) (c : Spec.Pred) : refsOf (loopPat t m n (.chr c)) = [] := by
  unfold loopPat; split <;> rfl

theorem refsOf_bare {X : TP} {t : Nat} {p : Pat} (h : bareToPat X t = some p) : refsOf p = [] := by
  unfold bareToPat at h
  repeat' split at h
  all_goals first
    | (cases h; rfl)
    | skip
  all_goals (cases h)

mutual
theorem toPat_refs (X : TP) : ∀ (n : GoNode) (d : Bool) (p : Pat), toPat X d n = some p →
    ∀ g ∈ refsOf p, (g : Int) ∈ treeRefs n
  | .empty, d, p, h, g, hg => by simp only [toPat, Option.some.injEq] at h; subst h; simp [refsOf] at hg
  | .bare t, d, p, h, g, hg => by simp only [toPat] at h; rw [refsOf_bare h] at hg; cases hg
  | .char t rtl ci ch, d, p, h, g, hg => by
    simp only [toPat] at h
    repeat' split at h
    all_goals first
      | (cases h; simp [refsOf] at hg)
      | cases h
  | .set rtl ci s, d, p, h, g, hg => by
    simp only [toPat] at h
    split at h
    · cases hr : X.rd s with
      | none => simp [hr] at h
      | some c => simp only [hr, Option.map_some, Option.some.injEq] at h; subst h; simp [refsOf] at hg
    · cases h
  | .multi rtl ci s, d, p, h, g, hg => by
    simp only [toPat] at h
    split at h
    · simp only [Option.some.injEq] at h; subst h
      obtain ⟨q, hq, hgq⟩ := refsOf_nest Pat.seq Pat.empty (fun _ _ => rfl) rfl _ g hg
      simp only [List.mem_map] at hq
      obtain ⟨r, _, rfl⟩ := hq
      simp [refsOf] at hgq
    · cases h
  | .ref rtl ci m, d, p, h, g, hg => by
    simp only [toPat] at h
    split at h
    · rename_i hc
      simp only [Bool.and_eq_true, decide_eq_true_eq] at hc
      simp only [Option.some.injEq] at h; subst h
      simp only [refsOf, List.mem_singleton] at hg
      subst hg
      simp only [treeRefs, List.mem_singleton]
      exact Int.toNat_of_nonneg hc.2
    · cases h
  | .charloop t rtl ci ch m n, d, p, h, g, hg => by
    simp only [toPat] at h
    split at h
    · simp only [Option.some.injEq] at h; subst h; rw [refsOf_loopPat_chr] at hg; cases hg
    · cases h
  | .setloop t rtl ci s m n, d, p, h, g, hg => by
    simp only [toPat] at h
    split at h
    · cases hr : X.rd s with
      | none => simp [hr] at h
      | some c =>
        simp only [hr, Option.map_some, Option.some.injEq] at h; subst h; rw [refsOf_loopPat_chr] at hg; cases hg
    · cases h
  | .concat cs, d, p, h, g, hg => by
    simp only [toPat] at h
    cases hl : toPatList X d cs with
    | none => simp [hl] at h
    | some ps =>
      simp only [hl, Option.map_some, Option.some.injEq] at h
      subst h
      obtain ⟨q, hq, hgq⟩ := refsOf_nest Pat.seq Pat.empty (fun _ _ => rfl) rfl _ g hg
      have hq' : q ∈ ps := by cases d <;> simpa using hq
      simp only [treeRefs]
      exact toPatList_refs X cs d ps hl q hq' g hgq
  | .alt cs, d, p, h, g, hg => by
    simp only [toPat] at h
    cases hl : toPatList X d cs with
    | none => simp [hl] at h
    | some ps =>
      simp only [hl, Option.map_some, Option.some.injEq] at h
      subst h
      obtain ⟨q, hq, hgq⟩ := refsOf_nest Pat.alt Pat.nothing (fun _ _ => rfl) rfl _ g hg
      simp only [treeRefs]
      exact toPatList_refs X cs d ps hl q hq g hgq
  | .loop lzy m n c, d, p, h, g, hg => by
    simp only [toPat] at h
    cases hc : toPat X d c with
    | none => simp [hc] at h
    | some b =>
      simp only [hc, Option.map_some, Option.some.injEq] at h
      subst h
      simp only [treeRefs]
      exact toPat_refs X c d b hc g (by simpa [refsOf] using hg)
  | .capture m n c, d, p, h, g, hg => by
    simp only [toPat] at h
    split at h
    · cases hc : toPat X d c with
      | none => simp [hc] at h
      | some b =>
        simp only [hc, Option.map_some, Option.some.injEq] at h
        subst h
        simp only [treeRefs]
        exact toPat_refs X c d b hc g (by simpa [refsOf] using hg)
    · cases h
  | .group c, d, p, h, g, hg => by
    simp only [toPat] at h
    simp only [treeRefs]
    exact toPat_refs X c d p h g hg
  | .poslook c, d, p, h, g, hg => by
    simp only [toPat] at h
    cases hd : lookDir c with
    | none => simp [hd] at h
    | some b =>
      simp only [hd] at h
      cases hc : toPat X b c with
      | none => simp [hc] at h
      | some q =>
        simp only [hc, Option.map_some, Option.some.injEq] at h
        subst h
        simp only [treeRefs]
        exact toPat_refs X c b q hc g (by simpa [refsOf] using hg)
  | .neglook c, d, p, h, g, hg => by
    simp only [toPat] at h
    cases hd : lookDir c with
    | none => simp [hd] at h
    | some b =>
      simp only [hd] at h
      cases hc : toPat X b c with
      | none => simp [hc] at h
      | some q =>
        simp only [hc, Option.map_some, Option.some.injEq] at h
        subst h
        simp only [treeRefs]
        exact toPat_refs X c b q hc g (by simpa [refsOf] using hg)
  | .atomic c, d, p, h, g, hg => by
    simp only [toPat] at h
    cases hc : toPat X d c with
    | none => simp [hc] at h
    | some b =>
      simp only [hc, Option.map_some, Option.some.injEq] at h
      subst h
      simp only [treeRefs]
      exact toPat_refs X c d b hc g (by simpa [refsOf] using hg)
  | .backrefcond1 m y, d, p, h, g, hg => by
    simp only [toPat] at h
    split at h
    · rename_i hm
      cases hy : toPat X d y with
      | none => simp [hy] at h
      | some b =>
        simp only [hy, Option.map_some, Option.some.injEq] at h
        subst h
        simp only [refsOf, List.append_nil, List.mem_cons] at hg
        simp only [treeRefs, List.mem_cons]
        rcases hg with rfl | hg
        · exact Or.inl (Int.toNat_of_nonneg hm)
        · exact Or.inr (toPat_refs X y d b hy g hg)
    · cases h
  | .backrefcond2 m y n, d, p, h, g, hg => by
    simp only [toPat] at h
    split at h
    · rename_i hm
      cases hy : toPat X d y with
      | none => simp [hy] at h
      | some b =>
        cases hn : toPat X d n with
        | none => simp [hy, hn] at h
        | some b2 =>
          simp only [hy, hn, Option.some.injEq] at h
          subst h
          simp only [refsOf, List.mem_cons, List.mem_append] at hg
          simp only [treeRefs, List.mem_cons, List.mem_append]
          rcases hg with rfl | hg | hg
          · exact Or.inl (Int.toNat_of_nonneg hm)
          · exact Or.inr (Or.inl (toPat_refs X y d b hy g hg))
          · exact Or.inr (Or.inr (toPat_refs X n d b2 hn g hg))
    · cases h
  | .exprcond2 c y, d, p, h, g, hg => by
    simp only [toPat] at h
    cases hc : toPat X d c with
    | none => simp [hc] at h
    | some b =>
      cases hy : toPat X d y with
      | none => simp [hc, hy] at h
      | some b2 =>
        simp only [hc, hy, Option.some.injEq] at h
        subst h
        simp only [refsOf, List.append_nil, List.mem_append] at hg
        simp only [treeRefs, List.mem_append]
        rcases hg with hg | hg
        · exact Or.inl (toPat_refs X c d b hc g hg)
        · exact Or.inr (toPat_refs X y d b2 hy g hg)
  | .exprcond3 c y n, d, p, h, g, hg => by
    simp only [toPat] at h
    cases hc : toPat X d c with
    | none => simp [hc] at h
    | some b =>
      cases hy : toPat X d y with
      | none => simp [hc, hy] at h
      | some b2 =>
        cases hn : toPat X d n with
        | none => simp [hc, hy, hn] at h
        | some b3 =>
          simp only [hc, hy, hn, Option.some.injEq] at h
          subst h
          simp only [refsOf, List.mem_append] at hg
          simp only [treeRefs, List.mem_append]
          rcases hg with hg | hg | hg
          · exact Or.inl (toPat_refs X c d b hc g hg)
          · exact Or.inr (Or.inl (toPat_refs X y d b2 hy g hg))
          · exact Or.inr (Or.inr (toPat_refs X n d b3 hn g hg))
  | .other _, d, p, h, _, _ => by simp [toPat] at h
theorem toPatList_refs (X : TP) : ∀ (cs : List GoNode) (d : Bool) (ps : List Pat), toPatList X d cs = some ps →
    ∀ q ∈ ps, ∀ g ∈ refsOf q, (g : Int) ∈ treeRefsList cs
  | [], d, ps, h, q, hq, _, _ => by simp only [toPatList, Option.some.injEq] at h; subst h; cases hq
  | c :: cs, d, ps, h, q, hq, g, hg => by
    simp only [toPatList] at h
    cases hc : toPat X d c with
    | none => simp [hc] at h
    | some b =>
      cases hl : toPatList X d cs with
      | none => simp [hc, hl] at h
      | some bs =>
        simp only [hc, hl, Option.some.injEq] at h
        subst h
        simp only [treeRefsList, List.mem_append]
        rcases List.mem_cons.1 hq with rfl | hq
        · exact Or.inl (toPat_refs X c d q hc g hg)
        · exact Or.inr (toPatList_refs X cs d bs hl q hq g hg)
end

/-! ## the second writer keeps what the pattern reads back -/

theorem init_getD_zero (N : Nat) (h : 0 < N) : ((List.replicate N false).set 0 true).getD 0 false = true := by
  cases N with
  | zero => omega
  | succ k => simp [List.replicate_succ]

/-- `CaptureSlotInUse` has `Capsize` entries, entry 0 is set, and so is the entry of every slot a `Ref`/`Testref` of the
    main program names -/
theorem slotsInUse_facts (ti : TreeInfo) (t : GoNode) (hok : t.ok = true)
    (hcaps : capsOk (mainCfg ti) (capsize ti) t = true) :
    (Writer.slotsInUse ti t).length = capsize ti ∧
    (0 < capsize ti → (Writer.slotsInUse ti t).getD 0 false = true) ∧
    ∀ m ∈ treeRefs t, 0 ≤ mapCapnum (mainCfg ti) m ∧ mapCapnum (mainCfg ti) m < capsize ti ∧
      (Writer.slotsInUse ti t).getD (mapCapnum (mainCfg ti) m).toNat false = true := by
  have hloc := codeFromTree_local (mainCfg ti) (capsize ti) t hok hcaps
  have hall : ∀ i ∈ mainCode ti t, i.arityOk = true := by
    intro i hi
    have := hloc i hi
    simp only [Instr.localOk, Bool.and_eq_true] at this
    exact this.1.1.1.1
  have hs : Writer.slotsInUse ti t = (mainCode ti t).foldl markInstr ((List.replicate (capsize ti) false).set 0 true) :=
    captureSlotsInUse_flatten _ _ hall
  have hlen : (Writer.slotsInUse ti t).length = capsize ti := by
    rw [hs, foldl_markInstr_length]; simp
  refine ⟨hlen, ?_, ?_⟩
  · intro h; rw [hs]; exact foldl_markInstr_mono _ _ 0 (init_getD_zero _ h)
  · intro m hm
    obtain ⟨i, hi, hr⟩ := emitNode_refs (mainCfg ti) t 2 ⟨[], []⟩ m hm
    have himem : i ∈ mainCode ti t := by
      simp only [mainCode, codeFromTree, List.mem_append]
      exact Or.inl (Or.inr hi)
    have hl := hloc i himem
    have hrange : inRange i.args[0]? (capsize ti) = true := by
      simp only [Instr.localOk, Bool.and_eq_true] at hl
      have h4 := hl.1.2
      have hop : (i.opcode == opRef || i.opcode == opTestref) = true := by
        rcases hr.1 with e | e <;> simp [e]
      simpa [hop] using h4
    rw [hr.2] at hrange
    simp only [List.getElem?_cons_zero, inRange, Bool.and_eq_true, decide_eq_true_eq] at hrange
    refine ⟨hrange.1, hrange.2, ?_⟩
    rw [hs]
    exact foldl_markInstr_marks _ _ i _ himem hr hrange.1 (by simpa using hrange.2)

theorem emitCapture_of (cfg : Cfg) (q : List Bool) (m : Int) (hq : cfg.quick = some q) (h0 : 0 ≤ mapCapnum cfg m)
    (h : mapCapnum cfg m ≥ q.length ∨ q.getD (mapCapnum cfg m).toNat false = true) : emitCapture cfg m (-1) = true := by
  unfold emitCapture
  rw [hq]
  simp only [mapCapnum_neg_one, bne_self_eq_false, Bool.false_eq_true, if_false, Bool.and_eq_true, Bool.or_eq_true,
    decide_eq_true_eq]
  exact ⟨h0, h⟩

/-- the second writer keeps the root capture -/
theorem quickKeep_zero (ti : TreeInfo) (t : GoNode) (hok : t.ok = true) (hcaps : capsOk (mainCfg ti) (capsize ti) t = true)
    (h0 : mapCapnum (mainCfg ti) 0 = 0) : emitCapture (quickCfg ti t) 0 (-1) = true := by
  obtain ⟨hlen, hz, _⟩ := slotsInUse_facts ti t hok hcaps
  have h0' : mapCapnum (quickCfg ti t) 0 = 0 := h0
  apply emitCapture_of _ (Writer.slotsInUse ti t) 0 rfl
  · rw [h0']; omega
  · rw [h0']
    by_cases hc : 0 < capsize ti
    · exact Or.inr (hz hc)
    · left; omega

/-- **`captureSlotsInUse` selects enough, on the emitted code**: every group the translated pattern reads back
    (`\g`, `(?(g)…)`) keeps its mark pair in the bool-only program -/
theorem quickKeep_refs (ti : TreeInfo) (t : GoNode) (X : TP) (d : Bool) (p : Pat) (hok : t.ok = true)
    (hcaps : capsOk (mainCfg ti) (capsize ti) t = true) (hp : toPat X d t = some p) :
    ∀ g ∈ refsOf p, quickKeep ti t g = true := by
  intro g hg
  obtain ⟨hlen, _, hm⟩ := slotsInUse_facts ti t hok hcaps
  obtain ⟨h1, h2, h3⟩ := hm (g : Int) (toPat_refs X t d p hp g hg)
  have hq : mapCapnum (quickCfg ti t) (g : Int) = mapCapnum (mainCfg ti) (g : Int) := rfl
  show emitCapture (quickCfg ti t) (g : Int) (-1) = true
  apply emitCapture_of _ (Writer.slotsInUse ti t) (g : Int) rfl
  · rw [hq]; exact h1
  · rw [hq]; exact Or.inr h3

/-! ## the whole-attempt theorem for any program with the code, tables and capture size of `emit ti t` -/

theorem InstrAt.congr {p p' : Prog} {a : Nat} {i : Instr} (hc : p.codes = p'.codes) (h : InstrAt p' a i) : InstrAt p a i := by
  constructor
  · have := h.fetch
    unfold VM.fetch at this ⊢
    rw [hc]; exact this
  · intro k hk; rw [hc]; exact h.arg k hk

theorem CodeAt.congr {p p' : Prog} {a : Nat} {c : Code} (hc : p.codes = p'.codes) (h : CodeAt p' a c) : CodeAt p a c := by
  obtain ⟨pre, post, h1, h2, h3, h4⟩ := h
  exact ⟨pre, post, by rw [hc]; exact h1, h2, h3, h4⟩

/-- **`compile_correct_upto` for a program that shares code words, tables and capture size with `emit ti t`** (the
    interpreter reads nothing else of a `Prog`: `trackcount`, `caps`, `rtl` are not consulted by `VM.step`).  The
    bool-only program `{ emit ti t with codes := QuickCodes }` is such a program for the stripped tree. -/
theorem compile_correct_prog (k : Nat) (hk : k ≤ maxTier) (ti : TreeInfo) (t : GoNode) (TPx : TP) (env : VM.Env)
    (se : Spec.Env) (pat : Pat) (i : Nat) (p : Prog)
    (hpc : p.codes = (emit ti t).codes) (hps : p.strings = (emit ti t).strings) (hpn : p.nsets = (emit ti t).nsets)
    (hpz : p.capsize = capsize ti)
    (hfrag : InFrag k TPx ti t = true) (hwf : treeWf ti t = true) (hpat : toPatRoot TPx ti.rtl t = some pat)
    (hrel : EnvRel TPx (codeFromTree (mainCfg ti) t).2.sets env se) (hi : i ≤ se.n) (hlen : se.n ≤ 2147483647)
    (hlenS : 4 ≤ k → se.n < 2147483647) (hecma : 6 ≤ k → env.ecma = false) :
    ∃ s0 s n, VM.init p (i : Int) = .ok s0 ∧
      (∀ fuel, n ≤ fuel → (VM.run p env fuel s0).1 = .done s) ∧ Agrees ti se pat i s := by
  obtain ⟨_, htier, _, hslot0, hid⟩ := inFrag_spec hfrag
  obtain ⟨body, ht, hbody⟩ := toPatRoot_some hpat
  simp only [treeWf, Bool.and_eq_true] at hwf
  obtain ⟨⟨hok, hcaps⟩, hbd⟩ := hwf
  obtain ⟨hlb', hroot', hstop'⟩ := codeAt_root ti t hok
  have hlb := InstrAt.congr hpc hlb'
  have hroot := CodeAt.congr hpc hroot'
  have hstop := InstrAt.congr hpc hstop'
  let W : World :=
    { X := { p := p, env := env, se := se, sl := slotOf ti },
      TPx := TPx, caps := (writerCaps ti).2, fin := (codeFromTree (mainCfg ti) t).2,
      hrel := hrel, hstr := hps, hnsets := hpn, hsl := fun _ => rfl, hlen := hlen, k := tier t,
      hlenS := fun h => hlenS (by omega), hid := hid, hecma := fun h => hecma (by omega) }
  have hpr : toPat TPx ti.rtl t = some (.cap 0 pat) := by
    rw [ht]; simp [toPat, hbody]
  have hsl0 : slotOf ti 0 = 0 := by simp [slotOf, hslot0]
  have hcs : 0 < capsize ti := by
    rw [ht] at hcaps
    simp only [capsOk, beq_self_eq_true, if_true, Bool.and_eq_true] at hcaps
    have := slotOk_iff.1 hcaps.1
    omega
  have hcsp : 0 < p.capsize := by rw [hpz]; exact hcs
  have hf0 : VM.fetch p 0 = .ok (decode opLazybranch) := hlb.fetch
  let s0 : VMState := startState p (decode opLazybranch) (i : Int)
  have hinit : VM.init p (i : Int) = .ok s0 := by simp [VM.init, hf0, Except.map, s0, startState]
  have he0 : Entry W.X 0 i [] [] [] s0 := ⟨rfl, hf0, rfl, rfl, rfl, capRep_init _ _⟩
  obtain ⟨s1, hr1, he1⟩ := lazybranch_leads (X := W.X) he0 hlb hroot.fetch_start
  have hwfst : St.wf se.n ⟨i, []⟩ := ⟨hi, by simp⟩
  have hcaps' : capsOk W.cfg W.X.p.capsize t = true := by
    show capsOk (mainCfg ti) p.capsize t = true
    rw [hpz]; exact hcaps
  have hdel := node_delivers W (show W.k ≤ maxTier from Nat.le_trans htier hk) t ti.rtl 2 ⟨[], []⟩ (.cap 0 pat) (Nat.le_refl _) hpr hok hcaps' hbd hroot (TabExt.refl _) i
    [(0 : Int)] [] (i : Int) [] s1 hwfst (by simpa using he1)
  replace hdel : Delivers W.X (2 + size (mainCfg ti) t) [(0 : Int)] [] [] []
      (m se (.cap 0 pat) ti.rtl ⟨i, []⟩) s1 := hdel
  refine ⟨s0, ?_⟩
  cases hrs : m se (.cap 0 pat) ti.rtl ⟨i, []⟩ with
  | nil =>
    rw [hrs] at hdel
    obtain ⟨s2, hr2, v', hf2⟩ := hdel
    obtain ⟨s3, hr3, hpc3, hop3, _, _, hcap3⟩ := lazybranch_back_raw (X := W.X) (a := 0) (T := []) (by simpa using hf2) hlb
      ⟨_, hstop.fetch⟩
    have hst := stop_step_raw hpc3 hop3 hstop
    obtain ⟨n, hn⟩ := run_of_reach ((hr1.trans hr2).trans hr3) hst
    refine ⟨s3, n, hinit, hn, ?_⟩
    have hatt : Spec.attempt se pat ti.rtl i = none := by simp [Spec.attempt, hrs]
    refine ⟨?_, by simp [hatt], by simp [hatt]⟩
    have hcnt := hcap3.cnt 0 hcsp
    simp [VM.matched, hatt, hcnt]
  | cons r rs =>
    rw [hrs] at hdel
    obtain ⟨F, _, ⟨s2, hr2, v', he2⟩, _⟩ := hdel
    have hst := stop_step he2 hstop
    obtain ⟨n, hn⟩ := run_of_reach (hr1.trans hr2) hst
    refine ⟨s2, n, hinit, hn, ?_⟩
    have hatt : Spec.attempt se pat ti.rtl i = some r := by simp [Spec.attempt, hrs]
    refine ⟨?_, ?_, ?_⟩
    · have hmem : r ∈ m se (.cap 0 pat) ti.rtl ⟨i, []⟩ := by rw [hrs]; simp
      simp only [m, List.mem_map] at hmem
      obtain ⟨y, _, hy⟩ := hmem
      have hcnt := he2.cap.cnt 0 hcsp
      have : 0 < (r.caps.filter (fun x => slotOf ti x.1 == 0)).length := by
        rw [← hy]
        simp [List.filter_append, hsl0]
      have hpos : MatchBuilder.cnt s2.cap.m 0 > 0 := by
        have : MatchBuilder.cnt s2.cap.m 0 = (r.caps.filter (fun x => slotOf ti x.1 == 0)).length := hcnt
        omega
      simp [VM.matched, hatt, hpos]
    · intro st hst'; rw [hatt] at hst'; cases hst'; exact he2.tp
    · intro st hst'; rw [hatt] at hst'; cases hst'
      have := he2.cap
      rw [show W.X.p.capsize = capsize ti from hpz] at this
      exact this

/-! ## the bool-only program as a program for the stripped tree -/

/-- `QuickCodes` is the main writer's code for the stripped tree, and the three writers build the same tables
    (cf. `Props.C01.emitQuick_eq_emit_strip`) -/
theorem quickCodes_strip (ti : TreeInfo) (t : GoNode) (q : List Int) (h : quickCodes ti t = some q) :
    q = (emit ti (stripTree (quickCfg ti t) t)).codes.toList ∧
      (codeFromTree (mainCfg ti) (stripTree (quickCfg ti t) t)).2 = (codeFromTree (mainCfg ti) t).2 := by
  have htab : (codeFromTree (quickCfg ti t) t).2 = (codeFromTree (mainCfg ti) (stripTree (quickCfg ti t) t)).2 := by
    simp only [codeFromTree, quickCfg, mainCfg]
    rw [emitNode_strip]
  refine ⟨?_, by rw [← htab]; exact codeFromTree_tables _ _ t⟩
  simp only [quickCodes] at h
  split at h
  · simp only [Option.some.injEq] at h
    subst h
    simp only [emit, codeFromTree, quickCfg, mainCfg]
    rw [emitNode_strip, size_strip]
  · simp at h

/-- the bool-only program shares code words, tables and capture size with the main writer's program for the
    stripped tree (it differs in `trackcount`: the dropped `Setmark`/`Capturemark` pairs are still counted) -/
theorem emitQuick_prog (ti : TreeInfo) (t : GoNode) (qp : Prog) (h : emitQuick ti t = some qp) :
    qp.codes = (emit ti (stripTree (quickCfg ti t) t)).codes ∧
    qp.strings = (emit ti (stripTree (quickCfg ti t) t)).strings ∧
    qp.nsets = (emit ti (stripTree (quickCfg ti t) t)).nsets ∧
    qp.capsize = capsize ti := by
  simp only [emitQuick] at h
  cases hq : quickCodes ti t with
  | none => simp [hq] at h
  | some q =>
    simp only [hq, Option.map_some, Option.some.injEq] at h
    subst h
    obtain ⟨h1, h2⟩ := quickCodes_strip ti t q hq
    refine ⟨?_, ?_, ?_, rfl⟩
    · simp only [h1]
    · simp only [emit, h2]
    · simp only [emit, h2]

theorem toPatRoot_strip (cfg : Cfg) (h0 : emitCapture cfg 0 (-1) = true) (X : TP) (d : Bool) (t : GoNode) (pat : Pat)
    (h : toPatRoot X d t = some pat) : toPatRoot X d (stripTree cfg t) = some (stripCaps (keepOf cfg) pat) := by
  obtain ⟨body, rfl, hb⟩ := toPatRoot_some h
  simp only [stripTree, h0, if_true, toPatRoot]
  exact toPat_strip cfg h0 X body d pat hb

/-- **`stripTree` stays inside the fragment** -/
theorem inFrag_strip (cfg : Cfg) (h0 : emitCapture cfg 0 (-1) = true) (k : Nat) (X : TP) (ti : TreeInfo) (t : GoNode)
    (h : InFrag k X ti t = true) : InFrag k X ti (stripTree cfg t) = true := by
  have ht := tier_strip cfg t
  simp only [InFrag, Bool.and_eq_true, decide_eq_true_eq, Bool.not_eq_true', beq_iff_eq, Bool.or_eq_true] at h ⊢
  obtain ⟨⟨⟨⟨h1, h2⟩, h3⟩, h4⟩, h5⟩ := h
  refine ⟨⟨⟨⟨?_, by omega⟩, h3⟩, h4⟩, h5.imp (fun h => by omega) id⟩
  cases hp : toPatRoot X ti.rtl t with
  | none => simp [hp] at h1
  | some pat => rw [toPatRoot_strip cfg h0 X ti.rtl t pat hp]; rfl

/-- two runs of the same attempt that both end at `Stop` end in the same state (cf. `Props.C01.run_done_unique`) -/
theorem run_done_unique' (p : Code.Prog) (env : VM.Env) (s0 s s' : VM.VMState) (f f' : Nat)
    (h : (VM.run p env f s0).1 = .done s) (h' : (VM.run p env f' s0).1 = .done s') : s = s' := by
  induction f generalizing f' s0 with
  | zero => simp [VM.run] at h
  | succ f ih =>
    cases f' with
    | zero => simp [VM.run] at h'
    | succ f' =>
      unfold VM.run at h h'
      cases hst : VM.step p env s0 with
      | fault e => rw [hst] at h; simp at h
      | stop t => rw [hst] at h h'; simp at h h'; rw [← h, ← h']
      | next t chk => rw [hst] at h h'; simp at h h'; exact ih t f' h h'

/-! ## concrete instances for the non-vacuity examples of Props/C02, part D -/

/-- what an attempt of the BOOL-ONLY program reports: matched?, final text position, live prefix of every capture array
    (`none`: no bool-only program, or the run did not end at `Stop`) -/
def qkRun (ti : TreeInfo) (t : GoNode) (env : VM.Env) (i : Nat) (fuel : Nat) : Option (Bool × Int × List (List Int)) :=
  match emitQuick ti t with
  | none => none
  | some qp =>
    match VM.init qp (i : Int) with
    | .ok s0 =>
      match (VM.run qp env fuel s0).1 with
      | .done s => some (VM.matched s, s.textpos,
          (List.range (capsize ti)).map (fun c => (MatchBuilder.arr s.cap.m c).take (2 * MatchBuilder.cnt s.cap.m c)))
      | _ => none
    | .error _ => none

/-- `(a)(b)\1`: group 1 is read back and kept, group 2 is dropped -/
def qkT1 : GoNode :=
  .capture 0 (-1) (.concat [.capture 1 (-1) (.char opOne false false 97), .capture 2 (-1) (.char opOne false false 98),
    .ref false false 1])

/-- `(x)y`: group 1 is dropped -/
def qkT2 : GoNode := .capture 0 (-1) (.concat [.capture 1 (-1) (.char opOne false false 120), .char opOne false false 121])

end RegexVerif.Compile
