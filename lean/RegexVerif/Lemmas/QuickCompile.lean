/-
The bool-only program at interpreter level (property C02, composition with the compiler-correctness theorem of C01).

 * tree level: `stripTree` (the tree the second writer effectively compiles, Model/Writer.lean) translates to
   `Spec.stripCaps` of the translation (`toPat_strip`), keeps the direction of lookarounds, does not raise the tier,
   keeps `ok` / `capsOk` / `boundsOk`;
 * the slot analysis: `captureSlotsInUse` walks the FLAT code; on the code of a tree it is a fold over the
   instructions (`slotsWalk_flatten`), it only sets entries, and it sets the entry of every `Ref` / `Testref` operand —
   so every group the translated pattern reads back is kept by `emitCapture` of the second writer (`quickKeep_refs`);
 * the string / set tables do not depend on the writer configuration nor on the offset (`emitNode_tables`);
 * `compile_correct_prog`: the whole-attempt theorem of Lemmas/CompileTop.lean for ANY program that has the code words,
   tables and capture size of `emit ti t` (the bool-only program differs from `emit ti (stripTree …)` in `trackcount`,
   which the interpreter never reads).
-/
import RegexVerif.Lemmas.CompileTop
import RegexVerif.Lemmas.Quick

namespace RegexVerif.Compile
open RegexVerif.VM RegexVerif.Code RegexVerif.Writer RegexVerif.Generated.Opcodes RegexVerif RegexVerif.Spec
open RegexVerif.Lemmas.VM

/-! ## `stripTree` against `stripCaps` -/

/-- the `keep` predicate (on GROUP numbers) of a writer configuration: does `emitCapture` keep the mark pair of an
    ordinary capture of group `g` -/
def keepOf (cfg : Cfg) (g : Nat) : Bool := emitCapture cfg (g : Int) (-1)

/-- the groups whose captures survive in the bool-only program of a tree -/
def quickKeep (ti : TreeInfo) (t : GoNode) : Nat → Bool := keepOf (quickCfg ti t)

mutual
theorem lookDir_strip (cfg : Cfg) : ∀ n : GoNode, lookDir (stripTree cfg n) = lookDir n
  | .empty => rfl
  | .bare _ => rfl
  | .char _ _ _ _ => rfl
  | .set _ _ _ => rfl
  | .multi _ _ _ => rfl
  | .ref _ _ _ => rfl
  | .charloop _ _ _ _ _ _ => rfl
  | .setloop _ _ _ _ _ _ => rfl
  | .concat cs => by simp only [stripTree, lookDir]; exact lookDirList_strip cfg cs
  | .alt cs => by simp only [stripTree, lookDir]; exact lookDirList_strip cfg cs
  | .loop _ _ _ c => by simp only [stripTree, lookDir]; exact lookDir_strip cfg c
  | .capture m n c => by
    simp only [stripTree]
    split <;> simp only [lookDir] <;> exact lookDir_strip cfg c
  | .group c => by simp only [stripTree, lookDir]; exact lookDir_strip cfg c
  | .poslook _ => rfl
  | .neglook _ => rfl
  | .atomic c => by simp only [stripTree, lookDir]; exact lookDir_strip cfg c
  | .backrefcond1 _ y => by simp only [stripTree, lookDir]; exact lookDir_strip cfg y
  | .backrefcond2 _ y n => by simp only [stripTree, lookDir, lookDir_strip cfg y, lookDir_strip cfg n]
  | .exprcond2 c y => by simp only [stripTree, lookDir, lookDir_strip cfg c, lookDir_strip cfg y]
  | .exprcond3 c y n => by simp only [stripTree, lookDir, lookDir_strip cfg c, lookDir_strip cfg y, lookDir_strip cfg n]
  | .other _ => rfl
theorem lookDirList_strip (cfg : Cfg) : ∀ cs : List GoNode, lookDirList (stripList cfg cs) = lookDirList cs
  | [] => rfl
  | c :: cs => by simp only [stripList, lookDirList, lookDir_strip cfg c, lookDirList_strip cfg cs]
end

theorem stripCaps_nest (keep : Nat → Bool) (f : Pat → Pat → Pat) (u : Pat)
    (hf : ∀ a b, stripCaps keep (f a b) = f (stripCaps keep a) (stripCaps keep b)) (hu : stripCaps keep u = u) :
    ∀ ps : List Pat, stripCaps keep (nest f u ps) = nest f u (ps.map (stripCaps keep))
  | [] => by simp [nest, hu]
  | [x] => by simp [nest]
  | x :: y :: rest => by
    have ih := stripCaps_nest keep f u hf hu (y :: rest)
    simp only [nest, hf, ih, List.map_cons]

theorem stripCaps_nestSeq (keep : Nat → Bool) (ps : List Pat) :
    stripCaps keep (nestSeq ps) = nestSeq (ps.map (stripCaps keep)) :=
  stripCaps_nest keep Pat.seq Pat.empty (fun _ _ => rfl) rfl ps

theorem stripCaps_nestAlt (keep : Nat → Bool) (ps : List Pat) :
    stripCaps keep (nestAlt ps) = nestAlt (ps.map (stripCaps keep)) :=
  stripCaps_nest keep Pat.alt Pat.nothing (fun _ _ => rfl) rfl ps

theorem stripCaps_loopPat (keep : Nat → Bool) (t : Nat) (m n : Int) (body : Pat) :
    stripCaps keep (loopPat t m n body) = loopPat t m n (stripCaps keep body) := by
  unfold loopPat
  split <;> rfl

theorem stripCaps_bare {keep : Nat → Bool} {X : TP} {t : Nat} {p : Pat} (h : bareToPat X t = some p) :
    stripCaps keep p = p := by
  unfold bareToPat at h
  repeat' split at h
  all_goals first
    | (cases h; rfl)
    | skip
  all_goals (cases h)

theorem stripCaps_multi (keep : Nat → Bool) (s : List Nat) :
    stripCaps keep (nestSeq (s.map (fun r => Pat.chr (.one r false)))) = nestSeq (s.map (fun r => Pat.chr (.one r false))) := by
  rw [stripCaps_nestSeq, List.map_map]
  rfl

theorem kept_keepOf {cfg : Cfg} (h0 : emitCapture cfg 0 (-1) = true) (g : Nat) : kept (keepOf cfg) g = keepOf cfg g := by
  unfold kept
  by_cases hg : g = 0
  · subst hg; simp [keepOf, h0]
  · have : (g == 0) = false := by simpa using hg
    rw [this, Bool.false_or]

mutual
/-- **the translation commutes with stripping**: where the tree has a specification pattern, the tree the second writer
    effectively compiles has the pattern with the `cap g ·` nodes of the dropped groups removed -/
theorem toPat_strip (cfg : Cfg) (h0 : emitCapture cfg 0 (-1) = true) (X : TP) :
    ∀ (n : GoNode) (d : Bool) (p : Pat), toPat X d n = some p →
      toPat X d (stripTree cfg n) = some (stripCaps (keepOf cfg) p)
  | .empty, d, p, h => by simp only [toPat, Option.some.injEq] at h; subst h; rfl
  | .bare t, d, p, h => by
    simp only [toPat] at h
    simp only [stripTree, toPat, h, stripCaps_bare h]
  | .char t rtl ci ch, d, p, h => by
    simp only [stripTree, h]
    simp only [toPat] at h
    repeat' split at h
    all_goals first
      | (cases h; rfl)
      | cases h
  | .set rtl ci s, d, p, h => by
    simp only [stripTree, h]
    simp only [toPat] at h
    split at h
    · cases hr : X.rd s with
      | none => simp [hr] at h
      | some c => simp only [hr, Option.map_some, Option.some.injEq] at h; subst h; rfl
    · cases h
  | .multi rtl ci s, d, p, h => by
    simp only [stripTree, h]
    simp only [toPat] at h
    split at h
    · simp only [Option.some.injEq] at h; subst h; rw [stripCaps_multi]
    · cases h
  | .ref rtl ci m, d, p, h => by
    simp only [stripTree, h]
    simp only [toPat] at h
    split at h
    · simp only [Option.some.injEq] at h; subst h; rfl
    · cases h
  | .charloop t rtl ci ch m n, d, p, h => by
    simp only [stripTree, h]
    simp only [toPat] at h
    split at h
    · simp only [Option.some.injEq] at h; subst h; rw [stripCaps_loopPat]; rfl
    · cases h
  | .setloop t rtl ci s m n, d, p, h => by
    simp only [stripTree, h]
    simp only [toPat] at h
    split at h
    · cases hr : X.rd s with
      | none => simp [hr] at h
      | some c =>
        simp only [hr, Option.map_some, Option.some.injEq] at h; subst h; rw [stripCaps_loopPat]; rfl
    · cases h
  | .concat cs, d, p, h => by
    simp only [toPat] at h
    cases hl : toPatList X d cs with
    | none => simp [hl] at h
    | some ps =>
      simp only [hl, Option.map_some, Option.some.injEq] at h
      subst h
      simp only [stripTree, toPat, toPatList_strip cfg h0 X cs d ps hl, Option.map_some, stripCaps_nestSeq]
      cases d <;> simp [List.map_reverse]
  | .alt cs, d, p, h => by
    simp only [toPat] at h
    cases hl : toPatList X d cs with
    | none => simp [hl] at h
    | some ps =>
      simp only [hl, Option.map_some, Option.some.injEq] at h
      subst h
      simp only [stripTree, toPat, toPatList_strip cfg h0 X cs d ps hl, Option.map_some, stripCaps_nestAlt]
  | .loop lzy m n c, d, p, h => by
    simp only [toPat] at h
    cases hc : toPat X d c with
    | none => simp [hc] at h
    | some b =>
      simp only [hc, Option.map_some, Option.some.injEq] at h
      subst h
      simp only [stripTree, toPat, toPat_strip cfg h0 X c d b hc, Option.map_some, stripCaps]
  | .capture m n c, d, p, h => by
    simp only [toPat] at h
    split at h
    · rename_i hmn
      simp only [Bool.and_eq_true, beq_iff_eq, decide_eq_true_eq] at hmn
      obtain ⟨hn, hm⟩ := hmn
      subst hn
      cases hc : toPat X d c with
      | none => simp [hc] at h
      | some b =>
        simp only [hc, Option.map_some, Option.some.injEq] at h
        subst h
        have hcast : ((m.toNat : Nat) : Int) = m := Int.toNat_of_nonneg hm
        have hk : kept (keepOf cfg) m.toNat = emitCapture cfg m (-1) := by
          rw [kept_keepOf h0, keepOf, hcast]
        simp only [stripTree, stripCaps, hk]
        split
        · simp [toPat, hm, toPat_strip cfg h0 X c d b hc]
        · simp [toPat, toPat_strip cfg h0 X c d b hc]
    · cases h
  | .group c, d, p, h => by
    simp only [toPat] at h
    simp only [stripTree, toPat, toPat_strip cfg h0 X c d p h]
  | .poslook c, d, p, h => by
    simp only [toPat] at h
    simp only [stripTree, toPat, lookDir_strip]
    cases hd : lookDir c with
    | none => simp [hd] at h
    | some b =>
      simp only [hd] at h ⊢
      cases hc : toPat X b c with
      | none => simp [hc] at h
      | some q =>
        simp only [hc, Option.map_some, Option.some.injEq] at h
        subst h
        simp only [toPat_strip cfg h0 X c b q hc, Option.map_some, stripCaps]
  | .neglook c, d, p, h => by
    simp only [toPat] at h
    simp only [stripTree, toPat, lookDir_strip]
    cases hd : lookDir c with
    | none => simp [hd] at h
    | some b =>
      simp only [hd] at h ⊢
      cases hc : toPat X b c with
      | none => simp [hc] at h
      | some q =>
        simp only [hc, Option.map_some, Option.some.injEq] at h
        subst h
        simp only [toPat_strip cfg h0 X c b q hc, Option.map_some, stripCaps]
  | .atomic c, d, p, h => by
    simp only [toPat] at h
    cases hc : toPat X d c with
    | none => simp [hc] at h
    | some b =>
      simp only [hc, Option.map_some, Option.some.injEq] at h
      subst h
      simp only [stripTree, toPat, toPat_strip cfg h0 X c d b hc, Option.map_some, stripCaps]
  | .backrefcond1 m y, d, p, h => by
    simp only [toPat] at h
    split at h
    · rename_i hm
      cases hy : toPat X d y with
      | none => simp [hy] at h
      | some b =>
        simp only [hy, Option.map_some, Option.some.injEq] at h
        subst h
        simp only [stripTree, toPat, hm, if_true, toPat_strip cfg h0 X y d b hy, Option.map_some, stripCaps]
    · cases h
  | .backrefcond2 m y n, d, p, h => by
    simp only [toPat] at h
    split at h
    · rename_i hm
      cases hy : toPat X d y with
      | none => simp [hy] at h
      | some b =>
        cases hn : toPat X d n with
        | none => simp [hy, hn] at h
        | some b2 =>
          simp only [hy, hn, Option.some.injEq] at h
          subst h
          simp only [stripTree, toPat, hm, if_true, toPat_strip cfg h0 X y d b hy, toPat_strip cfg h0 X n d b2 hn, stripCaps]
    · cases h
  | .exprcond2 c y, d, p, h => by
    simp only [toPat] at h
    cases hc : toPat X d c with
    | none => simp [hc] at h
    | some b =>
      cases hy : toPat X d y with
      | none => simp [hc, hy] at h
      | some b2 =>
        simp only [hc, hy, Option.some.injEq] at h
        subst h
        simp only [stripTree, toPat, toPat_strip cfg h0 X c d b hc, toPat_strip cfg h0 X y d b2 hy, stripCaps]
  | .exprcond3 c y n, d, p, h => by
    simp only [toPat] at h
    cases hc : toPat X d c with
    | none => simp [hc] at h
    | some b =>
      cases hy : toPat X d y with
      | none => simp [hc, hy] at h
      | some b2 =>
        cases hn : toPat X d n with
        | none => simp [hc, hy, hn] at h
        | some b3 =>
          simp only [hc, hy, hn, Option.some.injEq] at h
          subst h
          simp only [stripTree, toPat, toPat_strip cfg h0 X c d b hc, toPat_strip cfg h0 X y d b2 hy,
            toPat_strip cfg h0 X n d b3 hn, stripCaps]
  | .other _, d, p, h => by simp [toPat] at h
theorem toPatList_strip (cfg : Cfg) (h0 : emitCapture cfg 0 (-1) = true) (X : TP) :
    ∀ (cs : List GoNode) (d : Bool) (ps : List Pat), toPatList X d cs = some ps →
      toPatList X d (stripList cfg cs) = some (ps.map (stripCaps (keepOf cfg)))
  | [], d, ps, h => by simp only [toPatList, Option.some.injEq] at h; subst h; rfl
  | c :: cs, d, ps, h => by
    simp only [toPatList] at h
    cases hc : toPat X d c with
    | none => simp [hc] at h
    | some b =>
      cases hl : toPatList X d cs with
      | none => simp [hc, hl] at h
      | some bs =>
        simp only [hc, hl, Option.some.injEq] at h
        subst h
        simp only [stripList, toPatList, toPat_strip cfg h0 X c d b hc, toPatList_strip cfg h0 X cs d bs hl, List.map_cons]
end

end RegexVerif.Compile
