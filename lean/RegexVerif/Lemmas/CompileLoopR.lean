/-
Compiler correctness, part 11: the single-character repeaters RIGHT TO LEFT — the instructions of part 7 with the Rtl
bit set (`forwardchars` = the text position, `forwardcharnext` reads the rune before it, `bump` = -1).  The
specification side comes from the left-to-right description through the mirror theorem (`Lemmas/SpecMirror.lean`).
-/
import RegexVerif.Lemmas.CompileLoop
import RegexVerif.Lemmas.SpecMirror

namespace RegexVerif.Compile
open RegexVerif.VM RegexVerif.Code RegexVerif.Writer RegexVerif.Generated.Opcodes RegexVerif RegexVerif.Spec
open RegexVerif.Lemmas.VM

/-! ## the run of a predicate leftwards -/

/-- the environment with `\G` bound to 0 (the character loops do not read it; the mirror theorem wants it inside the
    text) -/
def env0 (e : Spec.Env) : Spec.Env := { e with textstart := 0 }

/-- how many runes before `pos`, going left, satisfy the predicate -/
def runLenR (e : Spec.Env) (P : Pred) (pos : Nat) : Nat := runLen (revEnv (env0 e)) P (e.n - pos)

theorem Cls.mem_env0 (e : Spec.Env) (ci : Bool) (c : Cls) (r : Nat) : c.mem (env0 e) ci r = c.mem e ci r := by
  induction c with
  | base neg rs ns => rfl
  | diff a b iha ihb => simp only [Cls.mem, iha, ihb]

theorem Pred.test_env0 (e : Spec.Env) (p : Pred) (r : Nat) : p.test (env0 e) r = p.test e r := by
  cases p with
  | one c ci => rfl
  | notone c ci => rfl
  | set c ci => exact Cls.mem_env0 e ci c r

theorem rev_get (e : Spec.Env) {pos : Nat} (hpos : 0 < pos) (hp : pos ≤ e.n) :
    (revEnv (env0 e)).text[e.n - pos]? = e.text[pos - 1]? := by
  unfold Spec.Env.n at *
  simp only [revEnv, env0]
  rw [List.getElem?_reverse (by omega)]
  congr 1; omega

theorem accR_eq (e : Spec.Env) (P : Pred) {pos c : Nat} (hpos : 0 < pos) (hp : pos ≤ e.n) (hc : e.text[pos - 1]? = some c) :
    acc (revEnv (env0 e)) P (e.n - pos) = P.test e c := by
  unfold acc
  rw [rev_get e hpos hp, hc]
  simp only []
  rw [Pred.test_revEnv, Pred.test_env0]

theorem runLenR_le (e : Spec.Env) (P : Pred) {pos : Nat} (hp : pos ≤ e.n) : runLenR e P pos ≤ pos := by
  have := runLen_le (revEnv (env0 e)) P (e.n - pos)
  have hn : (revEnv (env0 e)).n = e.n := by simp [revEnv, env0, Spec.Env.n]
  rw [hn] at this
  unfold runLenR; omega

theorem runLenR_of_acc (e : Spec.Env) (P : Pred) {pos : Nat} (hpos : 0 < pos) (hp : pos ≤ e.n)
    (h : acc (revEnv (env0 e)) P (e.n - pos) = true) : runLenR e P pos = runLenR e P (pos - 1) + 1 := by
  unfold runLenR
  rw [runLen_of_acc h]
  congr 2; omega

theorem runLenR_of_not_acc (e : Spec.Env) (P : Pred) {pos : Nat}
    (h : acc (revEnv (env0 e)) P (e.n - pos) = false) : runLenR e P pos = 0 := by
  unfold runLenR; exact runLen_of_not_acc h

theorem runLenR_zero (e : Spec.Env) (P : Pred) : runLenR e P 0 = 0 := by
  have hn : (revEnv (env0 e)).n = e.n := by simp [revEnv, env0, Spec.Env.n]
  have := runLen_le (revEnv (env0 e)) P (e.n - 0)
  rw [hn] at this
  unfold runLenR; omega

theorem runLenR_sub (e : Spec.Env) (P : Pred) {d pos : Nat} (hp : pos ≤ e.n) (hd : d ≤ runLenR e P pos) :
    runLenR e P (pos - d) = runLenR e P pos - d := by
  have hle := runLenR_le e P hp
  unfold runLenR at *
  rw [← runLen_add (revEnv (env0 e)) P d (e.n - pos) hd]
  congr 1; omega

section loopsR
variable {X : Setup} {TPx : TP} {sets : List (List Nat)} {a : Nat} {T S : List Int} {C : List (Nat × Nat × Nat)} {v : Int}

/-- the `for` loop of the single-character instructions, leftwards -/
theorem scan_spec_rtl (hrel : EnvRel TPx sets X.env X.se) {pred : Nat → Bool} {P : Pred} (hpr : ∀ r, pred r = P.test X.se r) :
    ∀ (k pos : Nat), k ≤ pos → pos ≤ X.se.n →
      VM.scan X.env pred true k (pos : Int) = .ok (min k (runLenR X.se P pos)) := by
  intro k
  induction k with
  | zero => intro pos _ _; simp [VM.scan]
  | succ k ih =>
    intro pos hk hp
    obtain ⟨c, hc, hch⟩ := charAt_lt hrel (pos - 1) (by omega)
    have hacc := accR_eq X.se P (by omega : 0 < pos) hp hc
    unfold VM.scan
    have e : (pos : Int) - 1 = ((pos - 1 : Nat) : Int) := by omega
    simp only [VM.forwardcharnext, if_true, e, hch, Except.map]
    by_cases hpc : pred c = true
    · have ha : acc (revEnv (env0 X.se)) P (X.se.n - pos) = true := by rw [hacc, ← hpr]; exact hpc
      rw [if_pos hpc, ih (pos - 1) (by omega) (by omega), runLenR_of_acc X.se P (by omega) hp ha]
      simp only [Except.ok.injEq]
      omega
    · have ha : acc (revEnv (env0 X.se)) P (X.se.n - pos) = false := by rw [hacc, ← hpr]; simpa using hpc
      rw [if_neg hpc, runLenR_of_not_acc X.se P ha]
      simp

/-- `Onerep / Notonerep / Setrep  x lo` with the Rtl bit: exactly `lo` runes of the predicate before the position -/
theorem rep_delivers_rtl (hrel : EnvRel TPx sets X.env X.se) {i : Nat} {s : VMState} (hi : i ≤ X.se.n)
    (he : Entry X a i (T ++ [v]) S C s) {sel lo : Nat} {x : Int} {P : Pred} {ins : Instr} (hia : InstrAt X.p a ins)
    (hx : ins.args[0]? = some x) (hlo : ins.args[1]? = some (lo : Int))
    (hbody : VM.body X.p X.env s = VM.caseRep X.p X.env sel s) (hrtl : s.oper.rtl = true)
    (hpred : PredOk X sel x P) (hf : ∃ w, VM.fetch X.p (a + 3) = .ok w) :
    Delivers X (a + 3) T S S C (if lo ≤ runLenR X.se P i then [⟨i - lo, C⟩] else []) s := by
  obtain ⟨pred, hcp, hpr⟩ := hpred
  have hop0 := hia.operand he.pc 0 x hx
  have hop1 := hia.operand he.pc 1 (lo : Int) hlo
  have hR := runLenR_le X.se P hi
  by_cases hfit : lo ≤ i
  · have hfc : ¬ (VM.forwardchars X.env s < (lo : Int)) := by
      simp only [VM.forwardchars, hrtl, if_true, he.tp]; omega
    have hsc := scan_spec_rtl hrel hpr lo i hfit hi
    by_cases hrun : lo ≤ runLenR X.se P i
    · have hb : VM.body X.p X.env s = .ok (VM.textto s ((i : Int) - (lo : Int)), .advance 2) := by
        rw [hbody]; unfold VM.caseRep
        simp only [bind, Except.bind, hop1, hfc, if_false, hop0, hcp, hrtl, Int.toNat_natCast, he.tp, hsc, pure,
          Except.pure, VM.bump, if_true]
        have : ¬ (min lo (runLenR X.se P i) < lo) := by omega
        simp only [this, if_false]
        have : min lo (runLenR X.se P i) = lo := by omega
        simp only [this, VM.textto]
        congr 3; omega
      rw [if_pos hrun]
      exact deliver_one (k := 2) he hb rfl rfl rfl rfl (by simp [VM.textto]; omega) hf
    · have hb : VM.body X.p X.env s =
          .ok (VM.textto s (s.textpos + VM.bump s * (((min lo (runLenR X.se P i) : Nat) : Int) + 1)), .back) := by
        rw [hbody]; unfold VM.caseRep
        simp only [bind, Except.bind, hop1, hfc, if_false, hop0, hcp, hrtl, Int.toNat_natCast, he.tp, hsc, pure,
          Except.pure]
        have : min lo (runLenR X.se P i) < lo := by omega
        simp only [this, if_true]
      rw [if_neg hrun]
      exact deliver_none he hb rfl rfl rfl
  · have hfc : VM.forwardchars X.env s < (lo : Int) := by
      simp only [VM.forwardchars, hrtl, if_true, he.tp]; omega
    have hb : VM.body X.p X.env s = .ok (s, .back) := by
      rw [hbody]; unfold VM.caseRep
      simp only [bind, Except.bind, hop1, hfc, if_true, pure, Except.pure]
    have : ¬ lo ≤ runLenR X.se P i := by omega
    rw [if_neg this]
    exact deliver_none he hb rfl rfl rfl

/-- the positions a greedy loop gives back leftwards, farthest first -/
def downFromR (i k : Nat) (C : List (Nat × Nat × Nat)) : List St :=
  (List.range (k + 1)).reverse.map (fun t => ⟨i - t, C⟩)

theorem downFromR_succ (i k : Nat) (C : List (Nat × Nat × Nat)) :
    downFromR i (k + 1) C = ⟨i - (k + 1), C⟩ :: downFromR i k C := by
  unfold downFromR
  rw [List.range_succ, List.reverse_append]
  simp

theorem downFromR_zero (i : Nat) (C : List (Nat × Nat × Nat)) : downFromR i 0 C = [⟨i, C⟩] := by
  simp [downFromR]

/-- backtracking into the frame `(pos = i - j, count = j)` of a greedy loop with the Rtl bit -/
theorem loopBack_delivers_rtl {i : Nat} {ins : Instr} (hia : InstrAt X.p a ins) {o : VM.Op}
    (ho : Op.ofNat? (decode ins.op).op = some o) (hfd : VM.frameData o false = some 2)
    (hbody : ∀ s2 : VMState, s2.oper = { decode ins.op with back := true } →
      VM.body X.p X.env s2 = VM.caseLoopBack s2)
    (hrtl : (decode ins.op).rtl = true) (hf : ∃ w, VM.fetch X.p (a + 3) = .ok w) :
    ∀ (j : Nat) (v : Int) (s : VMState), j ≤ i →
      FailAt X ((a : Int) :: ((i - j : Nat) : Int) :: (j : Int) :: (T ++ [v])) S C s →
      Delivers X (a + 3) T S S C (downFromR i j C) s := by
  obtain ⟨w, hw⟩ := hf
  intro j
  induction j with
  | zero =>
    intro v s _ hfail
    obtain ⟨s2, chk, hst, hbe⟩ := fail_step hfail hia.fetch
    refine Delivers.of_step hst ?_
    rw [downFromR_zero]
    have hb : VM.body X.p X.env s2 = .ok (VM.textto { s2 with track := T ++ [v] } ((i - 0 : Nat) : Int), .advance 2) := by
      rw [hbody s2 hbe.op]; unfold VM.caseLoopBack
      simp [hbe.tr]
    refine Delivers.single (v := v) (Leads.of_step (step_adv hb (by simp only [VM.textto, hbe.pc]; exact hw)) (Leads.here ?_)) rfl
    exact ⟨by simp [VM.textto, hbe.pc], hw, by simp [VM.textto], rfl, hbe.st, hbe.cap⟩
  | succ j ih =>
    intro v s hji hfail
    obtain ⟨s2, chk, hst, hbe⟩ := fail_step hfail hia.fetch
    refine Delivers.of_step hst ?_
    rw [downFromR_succ]
    have hbump : VM.bump s2 = -1 := by simp [VM.bump, hbe.op, hrtl]
    have hb : VM.body X.p X.env s2 =
        .ok (VM.push2 (VM.textto { s2 with track := T ++ [v] } ((i - (j + 1) : Nat) : Int)) (((j + 1 : Nat) : Int) - 1)
          (((i - (j + 1) : Nat) : Int) - -1), .advance 2) := by
      rw [hbody s2 hbe.op]; unfold VM.caseLoopBack
      have : ((j + 1 : Nat) : Int) > 0 := by omega
      simp [hbe.tr, this, hbump]
    refine Delivers.cons (v := v) [(a : Int), ((i - j : Nat) : Int), (j : Int)] (loop_frame hia ho hfd _ _) ?_ ?_
    · have e1 : ((i - (j + 1) : Nat) : Int) - -1 = ((i - j : Nat) : Int) := by omega
      have e2 : ((j + 1 : Nat) : Int) - 1 = (j : Int) := by omega
      rw [e1, e2] at hb
      refine Leads.of_step (step_adv hb (by simp only [VM.push2, VM.textto, hbe.pc]; exact hw)) (Leads.here ?_)
      exact ⟨by simp [VM.push2, VM.textto, hbe.pc], hw, by simp [VM.push2, VM.textto],
        by simp [VM.push2, VM.textto, hbe.pc], hbe.st, hbe.cap⟩
    · intro s'' v' hf''
      exact ih v' s'' (by omega) (by simpa using hf'')

/-- `Oneloop / Notoneloop / Setloop  x cmax` and the atomic variants with the Rtl bit -/
theorem loop_delivers_rtl (hrel : EnvRel TPx sets X.env X.se) {i : Nat} {s : VMState} (hi : i ≤ X.se.n)
    (he : Entry X a i (T ++ [v]) S C s) {sel cmax : Nat} {atomic : Bool} {x : Int} {P : Pred} {ins : Instr}
    (hia : InstrAt X.p a ins) (hx : ins.args[0]? = some x) (hc : ins.args[1]? = some (cmax : Int)) {o : VM.Op}
    (ho : Op.ofNat? (decode ins.op).op = some o) (hfd : atomic = false → VM.frameData o false = some 2)
    (hbody : VM.body X.p X.env s = VM.caseLoop X.p X.env sel atomic s)
    (hback : atomic = false → ∀ s2 : VMState, s2.oper = { decode ins.op with back := true } →
      VM.body X.p X.env s2 = VM.caseLoopBack s2)
    (hrtl : (decode ins.op).rtl = true) (hpred : PredOk X sel x P) (hf : ∃ w, VM.fetch X.p (a + 3) = .ok w) :
    Delivers X (a + 3) T S S C
      (if atomic then [⟨i - min cmax (runLenR X.se P i), C⟩] else downFromR i (min cmax (runLenR X.se P i)) C) s := by
  obtain ⟨pred, hcp, hpr⟩ := hpred
  obtain ⟨w, hw⟩ := hf
  have hop0 := hia.operand he.pc 0 x hx
  have hop1 := hia.operand he.pc 1 (cmax : Int) hc
  have hR := runLenR_le X.se P hi
  have hsrtl : s.oper.rtl = true := by rw [he.oper hia]; exact hrtl
  have hcl : ∃ c : Nat, (if (cmax : Int) > VM.forwardchars X.env s then VM.forwardchars X.env s else (cmax : Int)) = (c : Int) ∧
      c = min cmax i := by
    refine ⟨min cmax i, ?_, rfl⟩
    simp only [VM.forwardchars, hsrtl, if_true, he.tp]
    split <;> omega
  obtain ⟨c, hce, hcv⟩ := hcl
  have hsc := scan_spec_rtl hrel hpr c i (by omega) hi
  have hk : min c (runLenR X.se P i) = min cmax (runLenR X.se P i) := by omega
  rw [hk] at hsc
  generalize hkdef : min cmax (runLenR X.se P i) = k at hsc
  have hki : k ≤ i := by omega
  have hbump : VM.bump s = -1 := by simp [VM.bump, hsrtl]
  have hbcommon : VM.body X.p X.env s =
      (if k > 0 ∧ (!atomic) = true then
        .ok (VM.push2 (VM.textto s ((i : Int) + -1 * (k : Int))) ((k : Int) - 1) ((i : Int) + -1 * (k : Int) - -1), .advance 2)
       else .ok (VM.textto s ((i : Int) + -1 * (k : Int)), .advance 2)) := by
    rw [hbody]; unfold VM.caseLoop
    simp only [bind, Except.bind, hop1, hop0, hcp, hce, hsrtl, Int.toNat_natCast, he.tp, hsc, pure, Except.pure, hbump,
      VM.textto]
    try (split <;> rfl)
  have epos : (i : Int) + -1 * (k : Int) = ((i - k : Nat) : Int) := by omega
  rw [epos] at hbcommon
  cases atomic with
  | true =>
    simp only [if_true]
    have hb : VM.body X.p X.env s = .ok (VM.textto s ((i - k : Nat) : Int), .advance 2) := by
      rw [hbcommon]; simp
    exact deliver_one (k := 2) he hb rfl rfl rfl rfl (by simp [VM.textto]) ⟨w, hw⟩
  | false =>
    simp only [Bool.false_eq_true, if_false]
    cases k with
    | zero =>
      rw [downFromR_zero]
      have hb : VM.body X.p X.env s = .ok (VM.textto s ((i - 0 : Nat) : Int), .advance 2) := by
        rw [hbcommon]; simp
      exact deliver_one (k := 2) he hb rfl rfl rfl rfl (by simp [VM.textto]) ⟨w, hw⟩
    | succ k =>
      rw [downFromR_succ]
      have hb : VM.body X.p X.env s = .ok (VM.push2 (VM.textto s ((i - (k + 1) : Nat) : Int))
          (((k + 1 : Nat) : Int) - 1) (((i - (k + 1) : Nat) : Int) - -1), .advance 2) := by
        rw [hbcommon]; simp
      refine Delivers.cons (v := v) [(a : Int), ((i - k : Nat) : Int), (k : Int)] (loop_frame hia ho (hfd rfl) _ _) ?_ ?_
      · have e1 : ((i - (k + 1) : Nat) : Int) - -1 = ((i - k : Nat) : Int) := by omega
        have e2 : ((k + 1 : Nat) : Int) - 1 = (k : Int) := by omega
        rw [e1, e2] at hb
        refine Leads.of_step (step_adv hb (by simp only [VM.push2, VM.textto, he.pc]; exact hw)) (Leads.here ?_)
        exact ⟨by simp [VM.push2, VM.textto, he.pc], hw, by simp [VM.push2, VM.textto],
          by simp [VM.push2, VM.textto, he.pc, he.tr], he.st, he.cap⟩
      · intro s'' v' hf''
        exact loopBack_delivers_rtl hia ho (hfd rfl) (hback rfl) hrtl ⟨w, hw⟩ k v' s'' (by omega) (by simpa using hf'')

/-- the positions a lazy loop offers leftwards after the first one, nearest first -/
def upFromR (q k : Nat) (C : List (Nat × Nat × Nat)) : List St := (List.range k).map (fun t => ⟨q - 1 - t, C⟩)

theorem upFromR_succ (q k : Nat) (C : List (Nat × Nat × Nat)) :
    upFromR q (k + 1) C = ⟨q - 1, C⟩ :: upFromR (q - 1) k C := by
  unfold upFromR
  rw [List.range_succ_eq_map]
  simp only [List.map_cons, List.map_map, Nat.sub_zero, List.cons.injEq, true_and]
  apply List.map_congr_left
  intro t _
  simp only [Function.comp, St.mk.injEq, and_true]
  omega

/-- backtracking into the frame `(pos = q, count = j)` of a lazy loop with the Rtl bit: one more rune to the left -/
theorem lazyBack_delivers_rtl (hrel : EnvRel TPx sets X.env X.se) {sel : Nat} {x : Int} {P : Pred} {ins : Instr}
    (hia : InstrAt X.p a ins) (hx : ins.args[0]? = some x) {o : VM.Op}
    (ho : Op.ofNat? (decode ins.op).op = some o) (hfd : VM.frameData o false = some 2)
    (hbody : ∀ s2 : VMState, s2.oper = { decode ins.op with back := true } →
      VM.body X.p X.env s2 = VM.caseLazyBack X.p X.env sel s2)
    (hrtl : (decode ins.op).rtl = true) (hpred : PredOk X sel x P) (hf : ∃ w, VM.fetch X.p (a + 3) = .ok w) :
    ∀ (j q : Nat) (v : Int) (s : VMState), j + 1 ≤ q → q ≤ X.se.n →
      FailAt X ((a : Int) :: (q : Int) :: (j : Int) :: (T ++ [v])) S C s →
      Delivers X (a + 3) T S S C (upFromR q (min (j + 1) (runLenR X.se P q)) C) s := by
  obtain ⟨pred, hcp, hpr⟩ := hpred
  obtain ⟨w, hw⟩ := hf
  intro j
  induction j with
  | zero =>
    intro q v s hq hqn hfail
    obtain ⟨s2, chk, hst, hbe⟩ := fail_step hfail hia.fetch
    refine Delivers.of_step hst ?_
    obtain ⟨c, hc, hch⟩ := charAt_lt hrel (q - 1) (by omega)
    have hacc := accR_eq X.se P (by omega : 0 < q) hqn hc
    have hop0 := hia.operand hbe.pc 0 x hx
    have hsrtl : s2.oper.rtl = true := by rw [hbe.op]; exact hrtl
    have e : (q : Int) - 1 = ((q - 1 : Nat) : Int) := by omega
    have hfn : VM.forwardcharnext X.env true (q : Int) = .ok (c, ((q - 1 : Nat) : Int)) := by
      simp [VM.forwardcharnext, e, hch, Except.map]
    by_cases hp : pred c = true
    · have ha : acc (revEnv (env0 X.se)) P (X.se.n - q) = true := by rw [hacc, ← hpr]; exact hp
      have hR := runLenR_of_acc X.se P (by omega) hqn ha
      have : min (0 + 1) (runLenR X.se P q) = 0 + 1 := by omega
      rw [this, upFromR_succ]
      have hb : VM.body X.p X.env s2 = .ok (VM.textto { s2 with track := T ++ [v] } ((q - 1 : Nat) : Int), .advance 2) := by
        rw [hbody s2 hbe.op]; unfold VM.caseLazyBack
        simp only [hbe.tr, bind, Except.bind, hop0, hcp, hsrtl, hfn, hp, if_true, pure, Except.pure]
        simp
      have : upFromR (q - 1) 0 C = [] := rfl
      rw [this]
      refine Delivers.single (r := ⟨q - 1, C⟩) (v := v)
        (Leads.of_step (step_adv hb (by simp only [VM.textto, hbe.pc]; exact hw)) (Leads.here ?_)) rfl
      exact ⟨by simp [VM.textto, hbe.pc], hw, by simp [VM.textto], rfl, hbe.st, hbe.cap⟩
    · have ha : acc (revEnv (env0 X.se)) P (X.se.n - q) = false := by rw [hacc, ← hpr]; simpa using hp
      rw [runLenR_of_not_acc X.se P ha]
      have hb : VM.body X.p X.env s2 = .ok (VM.textto { s2 with track := T ++ [v] } ((q - 1 : Nat) : Int), .back) := by
        rw [hbody s2 hbe.op]; unfold VM.caseLazyBack
        simp only [hbe.tr, bind, Except.bind, hop0, hcp, hsrtl, hfn, hp, pure, Except.pure]
        simp
      exact Delivers.fail (v := v) (Leads.here ⟨_, hb, rfl, hbe.st, hbe.cap⟩)
  | succ j ih =>
    intro q v s hq hqn hfail
    obtain ⟨s2, chk, hst, hbe⟩ := fail_step hfail hia.fetch
    refine Delivers.of_step hst ?_
    obtain ⟨c, hc, hch⟩ := charAt_lt hrel (q - 1) (by omega)
    have hacc := accR_eq X.se P (by omega : 0 < q) hqn hc
    have hop0 := hia.operand hbe.pc 0 x hx
    have hsrtl : s2.oper.rtl = true := by rw [hbe.op]; exact hrtl
    have hbump : VM.bump s2 = -1 := by simp [VM.bump, hsrtl]
    have e : (q : Int) - 1 = ((q - 1 : Nat) : Int) := by omega
    have hfn : VM.forwardcharnext X.env true (q : Int) = .ok (c, ((q - 1 : Nat) : Int)) := by
      simp [VM.forwardcharnext, e, hch, Except.map]
    by_cases hp : pred c = true
    · have ha : acc (revEnv (env0 X.se)) P (X.se.n - q) = true := by rw [hacc, ← hpr]; exact hp
      have hR := runLenR_of_acc X.se P (by omega) hqn ha
      have : min (j + 1 + 1) (runLenR X.se P q) = min (j + 1) (runLenR X.se P (q - 1)) + 1 := by omega
      rw [this, upFromR_succ]
      have hb : VM.body X.p X.env s2 = .ok (VM.push2 (VM.textto { s2 with track := T ++ [v] } ((q - 1 : Nat) : Int))
          (((j + 1 : Nat) : Int) - 1) ((q : Int) + -1), .advance 2) := by
        rw [hbody s2 hbe.op]; unfold VM.caseLazyBack
        have hj : ((j + 1 : Nat) : Int) > 0 := by omega
        simp only [hbe.tr, bind, Except.bind, hop0, hcp, hsrtl, hfn, hp, if_true, pure, Except.pure, hj, hbump]
      refine Delivers.cons (v := v) [(a : Int), ((q - 1 : Nat) : Int), (j : Int)] (loop_frame hia ho hfd _ _) ?_ ?_
      · have e1 : (q : Int) + -1 = ((q - 1 : Nat) : Int) := by omega
        have e2 : ((j + 1 : Nat) : Int) - 1 = (j : Int) := by omega
        rw [e2, e1] at hb
        refine Leads.of_step (step_adv hb (by simp only [VM.push2, VM.textto, hbe.pc]; exact hw)) (Leads.here ?_)
        exact ⟨by simp [VM.push2, VM.textto, hbe.pc], hw, by simp [VM.push2, VM.textto],
          by simp [VM.push2, VM.textto, hbe.pc], hbe.st, hbe.cap⟩
      · intro s'' v' hf''
        exact ih (q - 1) v' s'' (by omega) (by omega) (by simpa using hf'')
    · have ha : acc (revEnv (env0 X.se)) P (X.se.n - q) = false := by rw [hacc, ← hpr]; simpa using hp
      rw [runLenR_of_not_acc X.se P ha]
      have hb : VM.body X.p X.env s2 = .ok (VM.textto { s2 with track := T ++ [v] } ((q - 1 : Nat) : Int), .back) := by
        rw [hbody s2 hbe.op]; unfold VM.caseLazyBack
        simp only [hbe.tr, bind, Except.bind, hop0, hcp, hsrtl, hfn, hp, pure, Except.pure]
        simp
      exact Delivers.fail (v := v) (Leads.here ⟨_, hb, rfl, hbe.st, hbe.cap⟩)

/-- `Onelazy / Notonelazy / Setlazy  x cmax` with the Rtl bit: first no rune, then one more to the left at a time -/
theorem lazy_delivers_rtl (hrel : EnvRel TPx sets X.env X.se) {i : Nat} {s : VMState} (hi : i ≤ X.se.n)
    (he : Entry X a i (T ++ [v]) S C s) {sel cmax : Nat} {x : Int} {P : Pred} {ins : Instr}
    (hia : InstrAt X.p a ins) (hx : ins.args[0]? = some x) (hc : ins.args[1]? = some (cmax : Int)) {o : VM.Op}
    (ho : Op.ofNat? (decode ins.op).op = some o) (hfd : VM.frameData o false = some 2)
    (hbody : VM.body X.p X.env s = VM.caseLazy X.p X.env s)
    (hback : ∀ s2 : VMState, s2.oper = { decode ins.op with back := true } →
      VM.body X.p X.env s2 = VM.caseLazyBack X.p X.env sel s2)
    (hrtl : (decode ins.op).rtl = true) (hpred : PredOk X sel x P) (hf : ∃ w, VM.fetch X.p (a + 3) = .ok w) :
    Delivers X (a + 3) T S S C (⟨i, C⟩ :: upFromR i (min cmax (runLenR X.se P i)) C) s := by
  obtain ⟨w, hw⟩ := hf
  have hop1 := hia.operand he.pc 1 (cmax : Int) hc
  have hR := runLenR_le X.se P hi
  have hsrtl : s.oper.rtl = true := by rw [he.oper hia]; exact hrtl
  have hcl : ∃ c : Nat, (if (cmax : Int) > VM.forwardchars X.env s then VM.forwardchars X.env s else (cmax : Int)) = (c : Int) ∧
      c = min cmax i := by
    refine ⟨min cmax i, ?_, rfl⟩
    simp only [VM.forwardchars, hsrtl, if_true, he.tp]
    split <;> omega
  obtain ⟨c, hce, hcv⟩ := hcl
  have hk : min c (runLenR X.se P i) = min cmax (runLenR X.se P i) := by omega
  rw [← hk]
  cases c with
  | zero =>
    have hb : VM.body X.p X.env s = .ok (s, .advance 2) := by
      rw [hbody]; unfold VM.caseLazy
      simp only [bind, Except.bind, hop1, hce, pure, Except.pure]
      simp
    have : upFromR i (min 0 (runLenR X.se P i)) C = [] := by simp [upFromR]
    rw [this]
    exact deliver_one (k := 2) he hb rfl rfl rfl rfl he.tp ⟨w, hw⟩
  | succ c =>
    have hb : VM.body X.p X.env s = .ok (VM.push2 s (((c + 1 : Nat) : Int) - 1) s.textpos, .advance 2) := by
      rw [hbody]; unfold VM.caseLazy
      simp only [bind, Except.bind, hop1, hce, pure, Except.pure]
      have : ((c + 1 : Nat) : Int) > 0 := by omega
      simp only [this, if_true]
    refine Delivers.cons (v := v) [(a : Int), (i : Int), (c : Int)] (loop_frame hia ho hfd _ _) ?_ ?_
    · have e2 : ((c + 1 : Nat) : Int) - 1 = (c : Int) := by omega
      rw [e2] at hb
      refine Leads.of_step (step_adv hb (by simp only [VM.push2, he.pc]; exact hw)) (Leads.here ?_)
      exact ⟨by simp [VM.push2, he.pc], hw, by simp [VM.push2, he.tp],
        by simp [VM.push2, he.pc, he.tr, he.tp], he.st, he.cap⟩
    · intro s'' v' hf''
      exact lazyBack_delivers_rtl hrel hia hx ho hfd hback hrtl hpred ⟨w, hw⟩ c i v' s'' (by omega) hi (by simpa using hf'')

/-- the successes of the variable part leftwards, by kind of loop -/
def kindListR (t i k : Nat) (C : List (Nat × Nat × Nat)) : List St :=
  if isAtomicT t then [⟨i - k, C⟩] else if isLazyT t then ⟨i, C⟩ :: upFromR i k C else downFromR i k C

/-- the variable part `t x cmax`, Rtl bit set, of a single-character loop node of type `t` -/
theorem looppart_delivers_rtl (hrel : EnvRel TPx sets X.env X.se) {i : Nat} {s : VMState} (hi : i ≤ X.se.n)
    (he : Entry X a i (T ++ [v]) S C s) {t sel cmax : Nat} {ci : Bool} {x : Int} {P : Pred}
    (ht : t ∈ charloopTypes ++ setloopTypes) (hselv : sel = selOf t)
    (hia : InstrAt X.p a (i2 (t ||| bits true ci) x (cmax : Int))) (hpred : PredOk X sel x P)
    (hf : ∃ w, VM.fetch X.p (a + 3) = .ok w) :
    Delivers X (a + 3) T S S C (kindListR t i (min cmax (runLenR X.se P i)) C) s := by
  simp only [charloopTypes, setloopTypes, List.mem_append, List.mem_cons, List.not_mem_nil, or_false] at ht
  rcases ht with (rfl | rfl | rfl | rfl | rfl | rfl) | (rfl | rfl | rfl)
  · -- opNotoneloop
    have hdec := (decode_bits opNotoneloop (by decide) true ci).2
    have hoper : s.oper = ⟨opNotoneloop, true, false, false, ci⟩ := by rw [he.oper hia]; exact hdec
    have hop : Op.ofNat? s.oper.op = some .notoneloop := by rw [hoper]; rfl
    have hb : s.oper.back = false := by rw [hoper]
    have hb2 : s.oper.back2 = false := by rw [hoper]
    have hsel : sel = 1 := by rw [hselv]; rfl
    subst hsel
    have hback : ∀ s2 : VMState, s2.oper = { decode (i2 (opNotoneloop ||| bits true ci) x (cmax : Int)).op with back := true } →
        VM.body X.p X.env s2 = VM.caseLoopBack s2 := by
      intro s2 h2
      have h2' : s2.oper = ⟨opNotoneloop, true, true, false, ci⟩ := by rw [h2]; show { decode (opNotoneloop ||| bits true ci) with back := true } = _; rw [hdec]
      have hop2 : Op.ofNat? s2.oper.op = some .notoneloop := by rw [h2']; rfl
      have hbb : s2.oper.back = true := by rw [h2']
      have hbb2 : s2.oper.back2 = false := by rw [h2']
      simp only [body, hop2, modeOf, hbb, hbb2]
    have := loop_delivers_rtl hrel hi he (sel := 1) (atomic := false) hia rfl rfl (o := .notoneloop) (by show Op.ofNat? (decode (opNotoneloop ||| bits true ci)).op = _; rw [hdec]; rfl)
      (fun _ => rfl) (by simp only [body, hop, modeOf, hb, hb2]) (fun _ => hback) (by show (decode (opNotoneloop ||| bits true ci)).rtl = _; rw [hdec]) hpred hf
    exact this
  · -- opNotoneloopatomic
    have hdec := (decode_bits opNotoneloopatomic (by decide) true ci).2
    have hoper : s.oper = ⟨opNotoneloopatomic, true, false, false, ci⟩ := by rw [he.oper hia]; exact hdec
    have hop : Op.ofNat? s.oper.op = some .notoneloopatomic := by rw [hoper]; rfl
    have hb : s.oper.back = false := by rw [hoper]
    have hb2 : s.oper.back2 = false := by rw [hoper]
    have hsel : sel = 1 := by rw [hselv]; rfl
    subst hsel
    have := loop_delivers_rtl hrel hi he (sel := 1) (atomic := true) hia rfl rfl (o := .notoneloopatomic) (by show Op.ofNat? (decode (opNotoneloopatomic ||| bits true ci)).op = _; rw [hdec]; rfl)
      (fun h => by cases h) (by simp only [body, hop, modeOf, hb, hb2]) (fun h => by cases h) (by show (decode (opNotoneloopatomic ||| bits true ci)).rtl = _; rw [hdec]) hpred hf
    exact this
  · -- opNotonelazy
    have hdec := (decode_bits opNotonelazy (by decide) true ci).2
    have hoper : s.oper = ⟨opNotonelazy, true, false, false, ci⟩ := by rw [he.oper hia]; exact hdec
    have hop : Op.ofNat? s.oper.op = some .notonelazy := by rw [hoper]; rfl
    have hb : s.oper.back = false := by rw [hoper]
    have hb2 : s.oper.back2 = false := by rw [hoper]
    have hsel : sel = 1 := by rw [hselv]; rfl
    subst hsel
    have hback : ∀ s2 : VMState, s2.oper = { decode (i2 (opNotonelazy ||| bits true ci) x (cmax : Int)).op with back := true } →
        VM.body X.p X.env s2 = VM.caseLazyBack X.p X.env 1 s2 := by
      intro s2 h2
      have h2' : s2.oper = ⟨opNotonelazy, true, true, false, ci⟩ := by rw [h2]; show { decode (opNotonelazy ||| bits true ci) with back := true } = _; rw [hdec]
      have hop2 : Op.ofNat? s2.oper.op = some .notonelazy := by rw [h2']; rfl
      have hbb : s2.oper.back = true := by rw [h2']
      have hbb2 : s2.oper.back2 = false := by rw [h2']
      simp only [body, hop2, modeOf, hbb, hbb2]
    have := lazy_delivers_rtl hrel hi he (sel := 1) hia rfl rfl (o := .notonelazy) (by show Op.ofNat? (decode (opNotonelazy ||| bits true ci)).op = _; rw [hdec]; rfl)
      rfl (by simp only [body, hop, modeOf, hb, hb2]) hback (by show (decode (opNotonelazy ||| bits true ci)).rtl = _; rw [hdec]) hpred hf
    exact this
  · -- opOneloop
    have hdec := (decode_bits opOneloop (by decide) true ci).2
    have hoper : s.oper = ⟨opOneloop, true, false, false, ci⟩ := by rw [he.oper hia]; exact hdec
    have hop : Op.ofNat? s.oper.op = some .oneloop := by rw [hoper]; rfl
    have hb : s.oper.back = false := by rw [hoper]
    have hb2 : s.oper.back2 = false := by rw [hoper]
    have hsel : sel = 0 := by rw [hselv]; rfl
    subst hsel
    have hback : ∀ s2 : VMState, s2.oper = { decode (i2 (opOneloop ||| bits true ci) x (cmax : Int)).op with back := true } →
        VM.body X.p X.env s2 = VM.caseLoopBack s2 := by
      intro s2 h2
      have h2' : s2.oper = ⟨opOneloop, true, true, false, ci⟩ := by rw [h2]; show { decode (opOneloop ||| bits true ci) with back := true } = _; rw [hdec]
      have hop2 : Op.ofNat? s2.oper.op = some .oneloop := by rw [h2']; rfl
      have hbb : s2.oper.back = true := by rw [h2']
      have hbb2 : s2.oper.back2 = false := by rw [h2']
      simp only [body, hop2, modeOf, hbb, hbb2]
    have := loop_delivers_rtl hrel hi he (sel := 0) (atomic := false) hia rfl rfl (o := .oneloop) (by show Op.ofNat? (decode (opOneloop ||| bits true ci)).op = _; rw [hdec]; rfl)
      (fun _ => rfl) (by simp only [body, hop, modeOf, hb, hb2]) (fun _ => hback) (by show (decode (opOneloop ||| bits true ci)).rtl = _; rw [hdec]) hpred hf
    exact this
  · -- opOneloopatomic
    have hdec := (decode_bits opOneloopatomic (by decide) true ci).2
    have hoper : s.oper = ⟨opOneloopatomic, true, false, false, ci⟩ := by rw [he.oper hia]; exact hdec
    have hop : Op.ofNat? s.oper.op = some .oneloopatomic := by rw [hoper]; rfl
    have hb : s.oper.back = false := by rw [hoper]
    have hb2 : s.oper.back2 = false := by rw [hoper]
    have hsel : sel = 0 := by rw [hselv]; rfl
    subst hsel
    have := loop_delivers_rtl hrel hi he (sel := 0) (atomic := true) hia rfl rfl (o := .oneloopatomic) (by show Op.ofNat? (decode (opOneloopatomic ||| bits true ci)).op = _; rw [hdec]; rfl)
      (fun h => by cases h) (by simp only [body, hop, modeOf, hb, hb2]) (fun h => by cases h) (by show (decode (opOneloopatomic ||| bits true ci)).rtl = _; rw [hdec]) hpred hf
    exact this
  · -- opOnelazy
    have hdec := (decode_bits opOnelazy (by decide) true ci).2
    have hoper : s.oper = ⟨opOnelazy, true, false, false, ci⟩ := by rw [he.oper hia]; exact hdec
    have hop : Op.ofNat? s.oper.op = some .onelazy := by rw [hoper]; rfl
    have hb : s.oper.back = false := by rw [hoper]
    have hb2 : s.oper.back2 = false := by rw [hoper]
    have hsel : sel = 0 := by rw [hselv]; rfl
    subst hsel
    have hback : ∀ s2 : VMState, s2.oper = { decode (i2 (opOnelazy ||| bits true ci) x (cmax : Int)).op with back := true } →
        VM.body X.p X.env s2 = VM.caseLazyBack X.p X.env 0 s2 := by
      intro s2 h2
      have h2' : s2.oper = ⟨opOnelazy, true, true, false, ci⟩ := by rw [h2]; show { decode (opOnelazy ||| bits true ci) with back := true } = _; rw [hdec]
      have hop2 : Op.ofNat? s2.oper.op = some .onelazy := by rw [h2']; rfl
      have hbb : s2.oper.back = true := by rw [h2']
      have hbb2 : s2.oper.back2 = false := by rw [h2']
      simp only [body, hop2, modeOf, hbb, hbb2]
    have := lazy_delivers_rtl hrel hi he (sel := 0) hia rfl rfl (o := .onelazy) (by show Op.ofNat? (decode (opOnelazy ||| bits true ci)).op = _; rw [hdec]; rfl)
      rfl (by simp only [body, hop, modeOf, hb, hb2]) hback (by show (decode (opOnelazy ||| bits true ci)).rtl = _; rw [hdec]) hpred hf
    exact this
  · -- opSetloop
    have hdec := (decode_bits opSetloop (by decide) true ci).2
    have hoper : s.oper = ⟨opSetloop, true, false, false, ci⟩ := by rw [he.oper hia]; exact hdec
    have hop : Op.ofNat? s.oper.op = some .setloop := by rw [hoper]; rfl
    have hb : s.oper.back = false := by rw [hoper]
    have hb2 : s.oper.back2 = false := by rw [hoper]
    have hsel : sel = 2 := by rw [hselv]; rfl
    subst hsel
    have hback : ∀ s2 : VMState, s2.oper = { decode (i2 (opSetloop ||| bits true ci) x (cmax : Int)).op with back := true } →
        VM.body X.p X.env s2 = VM.caseLoopBack s2 := by
      intro s2 h2
      have h2' : s2.oper = ⟨opSetloop, true, true, false, ci⟩ := by rw [h2]; show { decode (opSetloop ||| bits true ci) with back := true } = _; rw [hdec]
      have hop2 : Op.ofNat? s2.oper.op = some .setloop := by rw [h2']; rfl
      have hbb : s2.oper.back = true := by rw [h2']
      have hbb2 : s2.oper.back2 = false := by rw [h2']
      simp only [body, hop2, modeOf, hbb, hbb2]
    have := loop_delivers_rtl hrel hi he (sel := 2) (atomic := false) hia rfl rfl (o := .setloop) (by show Op.ofNat? (decode (opSetloop ||| bits true ci)).op = _; rw [hdec]; rfl)
      (fun _ => rfl) (by simp only [body, hop, modeOf, hb, hb2]) (fun _ => hback) (by show (decode (opSetloop ||| bits true ci)).rtl = _; rw [hdec]) hpred hf
    exact this
  · -- opSetlazy
    have hdec := (decode_bits opSetlazy (by decide) true ci).2
    have hoper : s.oper = ⟨opSetlazy, true, false, false, ci⟩ := by rw [he.oper hia]; exact hdec
    have hop : Op.ofNat? s.oper.op = some .setlazy := by rw [hoper]; rfl
    have hb : s.oper.back = false := by rw [hoper]
    have hb2 : s.oper.back2 = false := by rw [hoper]
    have hsel : sel = 2 := by rw [hselv]; rfl
    subst hsel
    have hback : ∀ s2 : VMState, s2.oper = { decode (i2 (opSetlazy ||| bits true ci) x (cmax : Int)).op with back := true } →
        VM.body X.p X.env s2 = VM.caseLazyBack X.p X.env 2 s2 := by
      intro s2 h2
      have h2' : s2.oper = ⟨opSetlazy, true, true, false, ci⟩ := by rw [h2]; show { decode (opSetlazy ||| bits true ci) with back := true } = _; rw [hdec]
      have hop2 : Op.ofNat? s2.oper.op = some .setlazy := by rw [h2']; rfl
      have hbb : s2.oper.back = true := by rw [h2']
      have hbb2 : s2.oper.back2 = false := by rw [h2']
      simp only [body, hop2, modeOf, hbb, hbb2]
    have := lazy_delivers_rtl hrel hi he (sel := 2) hia rfl rfl (o := .setlazy) (by show Op.ofNat? (decode (opSetlazy ||| bits true ci)).op = _; rw [hdec]; rfl)
      rfl (by simp only [body, hop, modeOf, hb, hb2]) hback (by show (decode (opSetlazy ||| bits true ci)).rtl = _; rw [hdec]) hpred hf
    exact this
  · -- opSetloopatomic
    have hdec := (decode_bits opSetloopatomic (by decide) true ci).2
    have hoper : s.oper = ⟨opSetloopatomic, true, false, false, ci⟩ := by rw [he.oper hia]; exact hdec
    have hop : Op.ofNat? s.oper.op = some .setloopatomic := by rw [hoper]; rfl
    have hb : s.oper.back = false := by rw [hoper]
    have hb2 : s.oper.back2 = false := by rw [hoper]
    have hsel : sel = 2 := by rw [hselv]; rfl
    subst hsel
    have := loop_delivers_rtl hrel hi he (sel := 2) (atomic := true) hia rfl rfl (o := .setloopatomic) (by show Op.ofNat? (decode (opSetloopatomic ||| bits true ci)).op = _; rw [hdec]; rfl)
      (fun h => by cases h) (by simp only [body, hop, modeOf, hb, hb2]) (fun h => by cases h) (by show (decode (opSetloopatomic ||| bits true ci)).rtl = _; rw [hdec]) hpred hf
    exact this

/-- the fixed part `rep x lo`, Rtl bit set -/
theorem reppart_delivers_rtl (hrel : EnvRel TPx sets X.env X.se) {i : Nat} {s : VMState} (hi : i ≤ X.se.n)
    (he : Entry X a i (T ++ [v]) S C s) {r sel lo : Nat} {ci : Bool} {x : Int} {P : Pred}
    (hr : (r = opOnerep ∧ sel = 0) ∨ (r = opNotonerep ∧ sel = 1) ∨ (r = opSetrep ∧ sel = 2))
    (hia : InstrAt X.p a (i2 (r ||| bits true ci) x (lo : Int))) (hpred : PredOk X sel x P)
    (hf : ∃ w, VM.fetch X.p (a + 3) = .ok w) :
    Delivers X (a + 3) T S S C (if lo ≤ runLenR X.se P i then [⟨i - lo, C⟩] else []) s := by
  rcases hr with ⟨rfl, rfl⟩ | ⟨rfl, rfl⟩ | ⟨rfl, rfl⟩
  · have hoper : s.oper = ⟨opOnerep, true, false, false, ci⟩ := by
      rw [he.oper hia]; exact (decode_bits opOnerep (by decide) true ci).2
    have hop : Op.ofNat? s.oper.op = some .onerep := by rw [hoper]; rfl
    have hb : s.oper.back = false := by rw [hoper]
    have hb2 : s.oper.back2 = false := by rw [hoper]
    exact rep_delivers_rtl hrel hi he hia rfl rfl (by simp only [body, hop, modeOf, hb, hb2]) (by rw [hoper]) hpred hf
  · have hoper : s.oper = ⟨opNotonerep, true, false, false, ci⟩ := by
      rw [he.oper hia]; exact (decode_bits opNotonerep (by decide) true ci).2
    have hop : Op.ofNat? s.oper.op = some .notonerep := by rw [hoper]; rfl
    have hb : s.oper.back = false := by rw [hoper]
    have hb2 : s.oper.back2 = false := by rw [hoper]
    exact rep_delivers_rtl hrel hi he hia rfl rfl (by simp only [body, hop, modeOf, hb, hb2]) (by rw [hoper]) hpred hf
  · have hoper : s.oper = ⟨opSetrep, true, false, false, ci⟩ := by
      rw [he.oper hia]; exact (decode_bits opSetrep (by decide) true ci).2
    have hop : Op.ofNat? s.oper.op = some .setrep := by rw [hoper]; rfl
    have hb : s.oper.back = false := by rw [hoper]
    have hb2 : s.oper.back2 = false := by rw [hoper]
    exact rep_delivers_rtl hrel hi he hia rfl rfl (by simp only [body, hop, modeOf, hb, hb2]) (by rw [hoper]) hpred hf


end loopsR

/-! ## the specification side, through the mirror theorem -/

theorem m_chr_env0 (e : Spec.Env) (P : Pred) (rtl : Bool) : Spec.m (env0 e) (.chr P) rtl = Spec.m e (.chr P) rtl := by
  funext st
  simp only [Spec.m]
  have : stepChar (env0 e) rtl st.pos = stepChar e rtl st.pos := rfl
  rw [this]
  cases stepChar e rtl st.pos with
  | none => rfl
  | some x => simp only [Pred.test_env0]

theorem m_loopPat_env0 (e : Spec.Env) (t : Nat) (m n : Int) (P : Pred) (rtl : Bool) (st : St) :
    Spec.m (env0 e) (loopPat t m n (.chr P)) rtl st = Spec.m e (loopPat t m n (.chr P)) rtl st := by
  have hn : (env0 e).n = e.n := rfl
  unfold loopPat
  split <;> simp only [m_atomic, m_quant, m_chr_env0, hn]

theorem mirrorPat_loopPat (t : Nat) (m n : Int) (P : Pred) :
    mirrorPat (loopPat t m n (.chr P)) = loopPat t m n (.chr P) := by
  unfold loopPat
  split <;> simp [mirrorPat]

theorem kindList_mirror (t n q k : Nat) (C C' : List (Nat × Nat × Nat)) (hq : q ≤ n) (hk : k ≤ q)
    (hC : C'.map (fun c => (c.1, n - (c.2.1 + c.2.2), c.2.2)) = C) :
    (kindList t (n - q) k C').map (mirrorSt n) = kindListR t q k C := by
  unfold kindList kindListR
  split
  · simp only [List.map_cons, List.map_nil, mirrorSt, hC, List.cons.injEq, St.mk.injEq, and_true]
    omega
  · split
    · simp only [List.map_cons, mirrorSt, hC, upFrom, upFromR, List.map_map, List.cons.injEq, St.mk.injEq, and_true]
      refine ⟨by omega, ?_⟩
      apply List.map_congr_left
      intro j hj
      have := List.mem_range.1 hj
      simp only [Function.comp, mirrorSt, St.mk.injEq, hC, and_true]
      omega
    · simp only [downFrom, downFromR, List.map_map]
      apply List.map_congr_left
      intro j hj
      have := List.mem_range.1 (List.mem_reverse.1 hj)
      simp only [Function.comp, mirrorSt, St.mk.injEq, hC, and_true]
      omega

/-- the specification of a single-character loop node right to left, as the two instructions compute it -/
theorem m_loopPat_rtl (e : Spec.Env) {t : Nat} (ht : t ∈ charloopTypes ++ setloopTypes) {m n : Int} (P : Pred) (i : Nat)
    (C : List (Nat × Nat × Nat)) (h0 : 0 ≤ m) (hmn : m ≤ n) (hn : n ≤ maxInt32) (hN : e.n ≤ 2147483647)
    (hwf : St.wf e.n ⟨i, C⟩) :
    Spec.m e (loopPat t m n (.chr P)) true ⟨i, C⟩ =
      (if m.toNat ≤ runLenR e P i then [(⟨i - m.toNat, C⟩ : St)] else []).flatMap
        (fun r => kindListR t r.pos (min (varMax m n) (runLenR e P r.pos)) r.caps) := by
  have hin : i ≤ e.n := hwf.1
  have hn0 : (env0 e).n = e.n := rfl
  have hnr : (revEnv (env0 e)).n = e.n := by simp [revEnv, env0, Spec.Env.n]
  rw [← m_loopPat_env0, m_mirror (env0 e) (Nat.zero_le _) _ true ⟨i, C⟩ (by rw [hn0]; exact hwf), mirrorPat_loopPat, hn0]
  have hmm := mirrorSt_mirrorSt e.n ⟨i, C⟩ hwf
  have hC : ((mirrorSt e.n ⟨i, C⟩).caps).map (fun c => (c.1, e.n - (c.2.1 + c.2.2), c.2.2)) = C := by
    have := congrArg St.caps hmm
    simpa [mirrorSt] using this
  have hst : mirrorSt e.n ⟨i, C⟩ = ⟨e.n - i, (mirrorSt e.n ⟨i, C⟩).caps⟩ := rfl
  rw [hst, Bool.not_true, m_loopPat (revEnv (env0 e)) ht P (e.n - i) _ h0 hmn hn (by rw [hnr]; exact hN)]
  have hR : runLen (revEnv (env0 e)) P (e.n - i) = runLenR e P i := rfl
  rw [hR]
  have hRle := runLenR_le e P hin
  by_cases hlo : m.toNat ≤ runLenR e P i
  · simp only [if_pos hlo, List.flatMap_cons, List.flatMap_nil, List.append_nil]
    have hpos : e.n - i + m.toNat = e.n - (i - m.toNat) := by omega
    have hR2 : runLen (revEnv (env0 e)) P (e.n - (i - m.toNat)) = runLenR e P (i - m.toNat) := rfl
    rw [hpos, hR2]
    have hRle2 := runLenR_le e P (show i - m.toNat ≤ e.n by omega)
    exact kindList_mirror t e.n (i - m.toNat) _ C _ (by omega) (by omega) hC
  · simp only [if_neg hlo, List.flatMap_nil, List.map_nil]

theorem kindListR_zero (t i : Nat) (C : List (Nat × Nat × Nat)) : kindListR t i 0 C = [⟨i, C⟩] := by
  unfold kindListR
  split
  · rfl
  · split
    · simp [upFromR]
    · exact downFromR_zero i C

/-- **a single-character loop node with the Rtl bit**: `rep x m` (when `m > 0`) followed by `t x (n − m)` (when `n > m`) -/
theorem loopnode_delivers_rtl {X : Setup} {TPx : TP} {sets : List (List Nat)} {a : Nat} {T S : List Int}
    {C : List (Nat × Nat × Nat)} {v : Int} (hrel : EnvRel TPx sets X.env X.se) (hN : X.se.n ≤ 2147483647) {i : Nat}
    {s : VMState} (hwf : St.wf X.se.n ⟨i, C⟩) (he : Entry X a i (T ++ [v]) S C s) {t r sel : Nat} {ci : Bool} {x m n : Int}
    {P : Pred} (ht : t ∈ charloopTypes ++ setloopTypes) (hselv : sel = selOf t)
    (hr : (r = opOnerep ∧ sel = 0) ∨ (r = opNotonerep ∧ sel = 1) ∨ (r = opSetrep ∧ sel = 2))
    (h0 : 0 ≤ m) (hmn : m ≤ n) (hn : n ≤ maxInt32)
    (hcode : CodeAt X.p a ((if m > 0 then [i2 (r ||| bits true ci) x m] else []) ++
      (if n > m then [i2 (t ||| bits true ci) x (repArg m n)] else [])))
    (hpred : (m > 0 ∨ n > m) → PredOk X sel x P) :
    Delivers X (a + repLen m n) T S S C (Spec.m X.se (loopPat t m n (.chr P)) true ⟨i, C⟩) s := by
  have hi : i ≤ X.se.n := hwf.1
  rw [m_loopPat_rtl X.se ht P i C h0 hmn hn hN hwf]
  have hR := runLenR_le X.se P hi
  have hmid : Delivers X (a + (if m > 0 then 3 else 0)) T S S C
      (if m.toNat ≤ runLenR X.se P i then [(⟨i - m.toNat, C⟩ : St)] else []) s := by
    by_cases hm : m > 0
    · have hc1 := hcode.left'
      rw [if_pos hm] at hc1 ⊢
      have hia := hc1.instr
      have hcast : ((m.toNat : Nat) : Int) = m := by omega
      rw [← hcast] at hia
      exact reppart_delivers_rtl hrel hi he hr hia (hpred (Or.inl hm)) (by simpa using hc1.fetch_end)
    · have : m.toNat = 0 := by omega
      rw [if_neg hm, this]
      simp only [Nat.zero_le, if_true, Nat.add_zero, Nat.sub_zero]
      exact Delivers.single (v := v) (Leads.here he) rfl
  refine (Delivers.bind (X := X) (b := a + (if m > 0 then 3 else 0) + (if n > m then 3 else 0)) _ s hmid ?_).cast
    (by unfold repLen; omega) rfl
  intro r' hr' F s' v' _ he'
  have hr'eq : r' = ⟨i - m.toNat, C⟩ ∧ m.toNat ≤ runLenR X.se P i := by
    split at hr'
    · next h => simp at hr'; exact ⟨hr', h⟩
    · simp at hr'
  obtain ⟨rfl, hlo⟩ := hr'eq
  have hc2 := hcode.right
  have hlen1 : codeLen (if m > 0 then [i2 (r ||| bits true ci) x m] else []) = if m > 0 then 3 else 0 := by
    split <;> simp
  rw [hlen1] at hc2
  by_cases hnm : n > m
  · rw [if_pos hnm] at hc2 ⊢
    have hia := hc2.instr
    have hcast : (((repArg m n).toNat : Nat) : Int) = repArg m n := by
      unfold repArg maxInt32 at *; split <;> omega
    rw [← hcast] at hia
    have hv : varMax m n = (repArg m n).toNat := by simp [varMax, hnm]
    rw [hv]
    exact looppart_delivers_rtl hrel (show i - m.toNat ≤ X.se.n by omega) he' ht hselv hia (hpred (Or.inr hnm))
      (by simpa using hc2.fetch_end)
  · have hv : varMax m n = 0 := by simp [varMax, hnm]
    rw [if_neg hnm, hv]
    simp only [Nat.zero_min, kindListR_zero, Nat.add_zero]
    exact Delivers.single (v := v') (Leads.here he') rfl

end RegexVerif.Compile
