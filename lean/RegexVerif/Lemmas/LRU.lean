/-
Helper lemmas about the replacement-cache model (`Model/LRU.lean`).
-/
import RegexVerif.Model.LRU

namespace RegexVerif.Lemmas.LRU
open RegexVerif.LRU

variable {κ ν ε : Type} [DecidableEq κ]

theorem lookup_none_iff (k : κ) (es : List (κ × ν)) : lookup k es = none ↔ k ∉ keys es := by
  induction es with
  | nil => simp [lookup, keys]
  | cons e es ih =>
    simp only [lookup, keys, List.map_cons, List.mem_cons, not_or]
    by_cases h : e.1 = k
    · simp [h]
    · simp only [h, if_false]
      have : ¬ k = e.1 := fun h' => h h'.symm
      simp only [this, not_false_eq_true, true_and]
      exact ih

theorem lookup_some_mem {k : κ} {v : ν} {es : List (κ × ν)} (h : lookup k es = some v) : (k, v) ∈ es := by
  induction es with
  | nil => simp [lookup] at h
  | cons e es ih =>
    simp only [lookup] at h
    by_cases he : e.1 = k
    · simp only [he, if_true, Option.some.injEq] at h
      have : e = (k, v) := by cases e; simp_all
      simp [this]
    · simp only [he, if_false] at h
      exact List.mem_cons_of_mem _ (ih h)

theorem lookup_removeKey_ne {k k' : κ} (h : k' ≠ k) (es : List (κ × ν)) :
    lookup k' (removeKey k es) = lookup k' es := by
  induction es with
  | nil => rfl
  | cons e es ih =>
    simp only [removeKey]
    by_cases he : e.1 = k
    · simp only [he, if_true, lookup]
      have : ¬ k = k' := fun h' => h h'.symm
      simp [this]
    · simp only [he, if_false, lookup, ih]

theorem keys_removeKey_sub (k : κ) (es : List (κ × ν)) : ∀ x, x ∈ keys (removeKey k es) → x ∈ keys es := by
  induction es with
  | nil => simp [removeKey]
  | cons e es ih =>
    intro x hx
    simp only [removeKey] at hx
    by_cases he : e.1 = k
    · simp only [he, if_true] at hx
      simp only [keys, List.map_cons, List.mem_cons]
      exact Or.inr hx
    · simp only [he, if_false, keys, List.map_cons, List.mem_cons] at hx ⊢
      cases hx with
      | inl h => exact Or.inl h
      | inr h => exact Or.inr (ih x h)

theorem nodup_removeKey (k : κ) (es : List (κ × ν)) (h : (keys es).Nodup) : (keys (removeKey k es)).Nodup := by
  induction es with
  | nil => simp [removeKey, keys]
  | cons e es ih =>
    simp only [keys, List.map_cons, List.nodup_cons] at h
    simp only [removeKey]
    by_cases he : e.1 = k
    · simp only [he, if_true]; exact h.2
    · simp only [he, if_false, keys, List.map_cons, List.nodup_cons]
      exact ⟨fun hm => h.1 (keys_removeKey_sub k es _ hm), ih h.2⟩

theorem not_mem_removeKey (k : κ) (es : List (κ × ν)) (h : (keys es).Nodup) : k ∉ keys (removeKey k es) := by
  induction es with
  | nil => simp [removeKey, keys]
  | cons e es ih =>
    simp only [keys, List.map_cons, List.nodup_cons] at h
    simp only [removeKey]
    by_cases he : e.1 = k
    · simp only [he, if_true]; rw [← he]; exact h.1
    · simp only [he, if_false, keys, List.map_cons, List.mem_cons, not_or]
      exact ⟨fun h' => he h'.symm, ih h.2⟩

theorem length_removeKey {k : κ} {v : ν} {es : List (κ × ν)} (h : lookup k es = some v) :
    (removeKey k es).length + 1 = es.length := by
  induction es with
  | nil => simp [lookup] at h
  | cons e es ih =>
    simp only [lookup] at h
    simp only [removeKey]
    by_cases he : e.1 = k
    · simp [he]
    · simp only [he, if_false] at h ⊢
      simp only [List.length_cons, ih h]

omit [DecidableEq κ] in
theorem keys_dropLast (es : List (κ × ν)) : keys es.dropLast = (keys es).dropLast := by
  simp [keys, List.map_dropLast]

theorem nodup_dropLast {α : Type} (l : List α) (h : l.Nodup) : l.dropLast.Nodup :=
  List.Sublist.nodup (List.dropLast_sublist l) h

/-- looking a key up after the back element was dropped: the back key is gone, the others stay -/
theorem lookup_dropLast (k : κ) (es : List (κ × ν)) (h : (keys es).Nodup) :
    lookup k es.dropLast = if (keys es).getLast? = some k then none else lookup k es := by
  induction es with
  | nil => simp [lookup, keys]
  | cons e es ih =>
    cases es with
    | nil =>
      simp only [List.dropLast_singleton, lookup, keys, List.map_cons, List.map_nil, List.getLast?_singleton,
        Option.some.injEq]
      by_cases he : e.1 = k <;> simp [he]
    | cons e' es' =>
      simp only [keys, List.map_cons] at h
      have h := List.nodup_cons.mp h
      have ih' := ih (by simp only [keys, List.map_cons]; exact h.2)
      simp only [List.dropLast_cons_cons, lookup]
      simp only [lookup] at ih'
      have hl : (keys (e :: e' :: es')).getLast? = (keys (e' :: es')).getLast? := by
        simp [keys, List.getLast?_cons_cons]
      rw [hl]
      by_cases he : e.1 = k
      · simp only [he, if_true]
        -- k = e.1 is the head key, so it is not the last key (keys are distinct)
        have : ¬ (keys (e' :: es')).getLast? = some k := by
          intro hlast
          have hm : k ∈ keys (e' :: es') := List.mem_of_getLast? hlast
          rw [← he] at hm
          simp only [keys, List.map_cons] at hm
          exact h.1 hm
        simp [this]
      · simp only [he, if_false]
        exact ih'

/-! ### `get` / `add` case by case -/

theorem get_hit {c : Cache κ ν} {k : κ} {v : ν} (h : lookup k c.entries = some v) :
    LRU.get c k = (some v, { c with entries := (k, v) :: removeKey k c.entries }) := by
  unfold LRU.get; simp [h]

theorem get_miss {c : Cache κ ν} {k : κ} (h : lookup k c.entries = none) : LRU.get c k = (none, c) := by
  unfold LRU.get; simp [h]

theorem add_existing {c : Cache κ ν} {k : κ} {w : ν} (v : ν) (h : lookup k c.entries = some w) :
    add c k v = { c with entries := (k, v) :: removeKey k c.entries } := by
  unfold add; simp [h]

theorem add_new_full {c : Cache κ ν} {k : κ} (v : ν) (h : lookup k c.entries = none)
    (hf : c.maxSize > 0 ∧ c.entries.length + 1 > c.maxSize) :
    add c k v = { c with entries := ((k, v) :: c.entries).dropLast } := by
  unfold add; simp [h, hf]

theorem add_new_room {c : Cache κ ν} {k : κ} (v : ν) (h : lookup k c.entries = none)
    (hf : ¬ (c.maxSize > 0 ∧ c.entries.length + 1 > c.maxSize)) :
    add c k v = { c with entries := (k, v) :: c.entries } := by
  unfold add; simp only [h, List.length_cons]; simp [hf]

theorem evicted_existing {c : Cache κ ν} {k : κ} {w : ν} (h : lookup k c.entries = some w) : evicted c k = none := by
  unfold evicted; simp [h]

theorem evicted_new_full {c : Cache κ ν} {k : κ} (h : lookup k c.entries = none)
    (hf : c.maxSize > 0 ∧ c.entries.length + 1 > c.maxSize) : evicted c k = (k :: keys c.entries).getLast? := by
  unfold evicted; simp [h, hf]

theorem evicted_new_room {c : Cache κ ν} {k : κ} (h : lookup k c.entries = none)
    (hf : ¬ (c.maxSize > 0 ∧ c.entries.length + 1 > c.maxSize)) : evicted c k = none := by
  unfold evicted; simp only [h]; simp [hf]

end RegexVerif.Lemmas.LRU
