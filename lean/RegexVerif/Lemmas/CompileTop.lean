/-
Compiler correctness, part 6: the whole program — `Lazybranch end; ⟨root⟩; Stop` run from the start state of an
attempt halts at `Stop` with the verdict and the captures of `Spec.attempt`.
-/
import RegexVerif.Lemmas.CompileMain

namespace RegexVerif.Compile
open RegexVerif.VM RegexVerif.Code RegexVerif.Writer RegexVerif.Generated.Opcodes RegexVerif RegexVerif.Spec
open RegexVerif.Lemmas.VM

/-- a run that reaches a state whose iteration executes `Stop` ends there, for every sufficient fuel -/
theorem run_of_reach {p : Prog} {env : VM.Env} {s s' s'' : VMState} (h : Reach p env s s')
    (hs : VM.step p env s' = .stop s'') : ∃ n, ∀ fuel, n ≤ fuel → (VM.run p env fuel s).1 = .done s'' := by
  induction h with
  | refl s =>
    refine ⟨1, fun fuel hf => ?_⟩
    obtain ⟨k, rfl⟩ : ∃ k, fuel = k + 1 := ⟨fuel - 1, by omega⟩
    rw [run_succ_stop p env k hs]
  | step hst _ ih =>
    obtain ⟨n, hn⟩ := ih hs
    refine ⟨n + 1, fun fuel hf => ?_⟩
    obtain ⟨k, rfl⟩ : ∃ k, fuel = k + 1 := ⟨fuel - 1, by omega⟩
    rw [run_succ_next p env k hst]
    exact hn k (by omega)

theorem toPatRoot_some {X : TP} {d : Bool} {t : GoNode} {pat : Pat} (h : toPatRoot X d t = some pat) :
    ∃ body, t = .capture 0 (-1) body ∧ toPat X d body = some pat := by
  unfold toPatRoot at h
  split at h
  · exact ⟨_, rfl, h⟩
  · cases h

/-- the group-to-slot map of a tree -/
def slotOf (ti : TreeInfo) (g : Nat) : Nat := (mapCapnum (mainCfg ti) (g : Int)).toNat

/-- the world of one attempt of the program of `t` -/
def worldOf (ti : TreeInfo) (t : GoNode) (TPx : TP) (env : VM.Env) (se : Spec.Env)
    (hrel : EnvRel TPx (codeFromTree (mainCfg ti) t).2.sets env se) (hlen : se.n ≤ 2147483647) (k : Nat)
    (hlenS : 4 ≤ k → se.n < 2147483647) (hid : 6 ≤ k → ∀ g, slotOf ti g = g) (hecma : 6 ≤ k → env.ecma = false) : World :=
  { X := { p := emit ti t, env := env, se := se, sl := slotOf ti },
    TPx := TPx, caps := (writerCaps ti).2, fin := (codeFromTree (mainCfg ti) t).2,
    hrel := hrel, hstr := rfl, hnsets := rfl, hsl := fun _ => rfl, hlen := hlen, k := k, hlenS := hlenS,
    hid := hid, hecma := hecma }

theorem instrAt_of_split {p : Prog} {pre post : Code} {i : Instr} (hc : p.codes = (flatten (pre ++ i :: post)).toArray)
    (hop : i.op < 1024) : InstrAt p (codeLen pre) i := by
  constructor
  · unfold VM.fetch
    rw [hc, List.getElem?_toArray, flatten_getElem_op]
    have : (0 : Int) ≤ (i.op : Int) ∧ (i.op : Int) < 1024 := by omega
    simp [this]
  · intro k hk
    rw [hc, List.getElem?_toArray, flatten_getElem_arg _ _ _ _ hk]

theorem CodeAt.fetch_start {p : Prog} {a : Nat} {c : Code} (h : CodeAt p a c) : ∃ w, VM.fetch p a = .ok w := by
  cases c with
  | nil => simpa using h.fetch_end
  | cons j r => exact ⟨_, h.instr.fetch⟩

/-- the state `executeDefault` starts in -/
def startState (p : Prog) (w : Word) (i : Int) : VMState :=
  { codepos := 0, oper := w, textpos := i, track := [], stack := [],
    cap := { m := MatchBuilder.newMatch p.capsize, crawl := [] } }

/-- where the three parts of the program sit -/
theorem codeAt_root (ti : TreeInfo) (t : GoNode) (hok : t.ok = true) :
    InstrAt (emit ti t) 0 (i1 opLazybranch ((2 + size (mainCfg ti) t : Nat) : Int)) ∧
    CodeAt (emit ti t) 2 (emitNode (mainCfg ti) 2 ⟨[], []⟩ t).1 ∧
    InstrAt (emit ti t) (2 + size (mainCfg ti) t) (i0 opStop) := by
  have hcodes : (emit ti t).codes = (flatten ([i1 opLazybranch ((2 + size (mainCfg ti) t : Nat) : Int)] ++
      (emitNode (mainCfg ti) 2 ⟨[], []⟩ t).1 ++ [i0 opStop])).toArray := by
    simp [emit, codeFromTree]
  have hops : OpsOk ([i1 opLazybranch ((2 + size (mainCfg ti) t : Nat) : Int)] ++
      (emitNode (mainCfg ti) 2 ⟨[], []⟩ t).1 ++ [i0 opStop]) :=
    OpsOk.append (OpsOk.append (OpsOk.cons (by opc) OpsOk.nil) (emitNode_ops _ t 2 _ hok)) (OpsOk.cons (by opc) OpsOk.nil)
  refine ⟨?_, ?_, ?_⟩
  · have := instrAt_of_split (p := emit ti t) (pre := []) (i := i1 opLazybranch ((2 + size (mainCfg ti) t : Nat) : Int))
      (post := (emitNode (mainCfg ti) 2 ⟨[], []⟩ t).1 ++ [i0 opStop]) (by rw [hcodes]; simp) (by opc)
    simpa using this
  · exact ⟨[i1 opLazybranch ((2 + size (mainCfg ti) t : Nat) : Int)], [i0 opStop], hcodes, by simp, hops, by simp⟩
  · have := instrAt_of_split (p := emit ti t)
      (pre := [i1 opLazybranch ((2 + size (mainCfg ti) t : Nat) : Int)] ++ (emitNode (mainCfg ti) 2 ⟨[], []⟩ t).1)
      (i := i0 opStop) (post := []) (by rw [hcodes]) (by opc)
    rw [codeLen_append, emitNode_size] at this
    simpa using this

theorem inFrag_spec {k : Nat} {TPx : TP} {ti : TreeInfo} {t : GoNode} (h : InFrag k TPx ti t = true) :
    (toPatRoot TPx ti.rtl t).isSome = true ∧ tier t ≤ k ∧ (ti.rtl = false ∨ 7 ≤ k) ∧ mapCapnum (mainCfg ti) 0 = 0 ∧
      (6 ≤ tier t → ∀ g, slotOf ti g = g) := by
  simp only [InFrag, Bool.and_eq_true, decide_eq_true_eq, Bool.not_eq_true', beq_iff_eq, Bool.or_eq_true] at h
  refine ⟨h.1.1.1.1, h.1.1.1.2, h.1.1.2, h.1.2, ?_⟩
  intro h6 g
  rcases h.2 with h2 | h2
  · omega
  · have hnone : (writerCaps ti).2 = none := by simpa using h2
    have hne : ¬ ((g : Int) = -1) := by omega
    simp [slotOf, mainCfg, hnone, mapCapnum, hne]

/-- `Lazybranch|Back` on a frame whose data slot is any integer (the bottom frame after `UpdateBumpalong`): the
    interpreter stands in front of the target; the text position is that integer -/
theorem lazybranch_back_raw {X : Setup} {a t : Nat} {z : Int} {T S : List Int} {C : List (Nat × Nat × Nat)} {s : VMState}
    (hfail : FailAt X ((a : Int) :: z :: T) S C s) (hia : InstrAt X.p a (i1 opLazybranch (t : Int)))
    (hf : ∃ w, VM.fetch X.p t = .ok w) :
    Leads X s (fun s' => s'.codepos = t ∧ VM.fetch X.p t = .ok s'.oper ∧ s'.track = T ∧ s'.stack = S ∧
      CapRep X.sl X.p.capsize s'.cap C) := by
  obtain ⟨w, hw⟩ := hf
  obtain ⟨s2, chk, hst, hbe⟩ := fail_step hfail hia.fetch
  refine Leads.of_step hst ?_
  have hoper : s2.oper = ⟨opLazybranch, false, true, false, false⟩ := by
    have : decode (i1 opLazybranch (t : Int)).op = ⟨opLazybranch, false, false, false, false⟩ :=
      decode_plain opLazybranch (by decide)
    rw [hbe.op, this]
  have hop : Op.ofNat? s2.oper.op = some .lazybranch := by rw [hoper]; rfl
  have hb : s2.oper.back = true := by rw [hoper]
  have hb2 : s2.oper.back2 = false := by rw [hoper]
  have hbody : VM.body X.p X.env s2 = .ok (VM.textto { s2 with track := T } z, .goto (t : Int)) := by
    simp only [body, hop, modeOf, hb, hb2, caseLazybranchBack, hbe.tr, hia.operand hbe.pc 0 (t : Int) rfl, Except.map]
  exact Leads.of_step (step_goto hbody hw) (Leads.here ⟨rfl, hw, rfl, hbe.st, hbe.cap⟩)

theorem stop_step_raw {X : Setup} {a : Nat} {s : VMState} (hpc : s.codepos = a) (hop : VM.fetch X.p a = .ok s.oper)
    (hia : InstrAt X.p a (i0 opStop)) : VM.step X.p X.env s = .stop s := by
  have hoper : s.oper = ⟨opStop, false, false, false, false⟩ := by
    have := hia.fetch
    rw [hop] at this
    rw [Except.ok.inj this]; exact decode_plain opStop (by decide)
  have hop' : Op.ofNat? s.oper.op = some .stop := by rw [hoper]; rfl
  have hb : s.oper.back = false := by rw [hoper]
  have hb2 : s.oper.back2 = false := by rw [hoper]
  have hbody : VM.body X.p X.env s = .ok (s, .halt) := by simp only [body, hop', modeOf, hb, hb2]
  rw [step_of_body_ok X.p X.env hbody]; rfl

/-- what the final state of an attempt says about the specification's answer -/
structure Agrees (ti : TreeInfo) (se : Spec.Env) (pat : Pat) (i : Nat) (s : VMState) : Prop where
  /-- `runmatch.matchcount[0] > 0` exactly when the specification's attempt succeeds -/
  verdict : VM.matched s = (Spec.attempt se pat ti.rtl i).isSome
  /-- on success the interpreter stands at the end of the match … -/
  pos : ∀ st, Spec.attempt se pat ti.rtl i = some st → s.textpos = (st.pos : Int)
  /-- … and the capture arrays hold, slot by slot and in order, the intervals of the specification's capture log -/
  caps : ∀ st, Spec.attempt se pat ti.rtl i = some st → CapRep (slotOf ti) (capsize ti) s.cap st.caps

/-- **the refinement on the fragment of a tier `k ≤ maxTier`**; from tier 4 on (general loops) the text must be strictly
    shorter than `MaxInt32` -/
theorem compile_correct_upto (k : Nat) (hk : k ≤ maxTier) (ti : TreeInfo) (t : GoNode) (TPx : TP) (env : VM.Env)
    (se : Spec.Env) (pat : Pat) (i : Nat)
    (hfrag : InFrag k TPx ti t = true) (hwf : treeWf ti t = true) (hpat : toPatRoot TPx ti.rtl t = some pat)
    (hrel : EnvRel TPx (codeFromTree (mainCfg ti) t).2.sets env se) (hi : i ≤ se.n) (hlen : se.n ≤ 2147483647)
    (hlenS : 4 ≤ k → se.n < 2147483647) (hecma : 6 ≤ k → env.ecma = false) :
    ∃ s0 s n, VM.init (emit ti t) (i : Int) = .ok s0 ∧
      (∀ fuel, n ≤ fuel → (VM.run (emit ti t) env fuel s0).1 = .done s) ∧ Agrees ti se pat i s := by
  obtain ⟨_, htier, _, hslot0, hid⟩ := inFrag_spec hfrag
  obtain ⟨body, ht, hbody⟩ := toPatRoot_some hpat
  simp only [treeWf, Bool.and_eq_true] at hwf
  obtain ⟨⟨hok, hcaps⟩, hbd⟩ := hwf
  obtain ⟨hlb, hroot, hstop⟩ := codeAt_root ti t hok
  let W := worldOf ti t TPx env se hrel hlen (tier t) (fun h => hlenS (by omega)) hid (fun h => hecma (by omega))
  have hpr : toPat TPx ti.rtl t = some (.cap 0 pat) := by
    rw [ht]; simp [toPat, hbody]
  -- slot of group 0
  have hsl0 : slotOf ti 0 = 0 := by simp [slotOf, hslot0]
  have hcs : 0 < capsize ti := by
    rw [ht] at hcaps
    simp only [capsOk, beq_self_eq_true, if_true, Bool.and_eq_true] at hcaps
    have := slotOk_iff.1 hcaps.1
    omega
  -- the start state
  have hf0 : VM.fetch (emit ti t) 0 = .ok (decode opLazybranch) := hlb.fetch
  let s0 : VMState := startState (emit ti t) (decode opLazybranch) (i : Int)
  have hinit : VM.init (emit ti t) (i : Int) = .ok s0 := by simp [VM.init, hf0, Except.map, s0, startState]
  have he0 : Entry W.X 0 i [] [] [] s0 := ⟨rfl, hf0, rfl, rfl, rfl, capRep_init _ _⟩
  obtain ⟨s1, hr1, he1⟩ := lazybranch_leads (X := W.X) he0 hlb hroot.fetch_start
  have hwfst : St.wf se.n ⟨i, []⟩ := ⟨hi, by simp⟩
  have hdel := node_delivers W (show W.k ≤ maxTier from Nat.le_trans htier hk) t ti.rtl 2 ⟨[], []⟩ (.cap 0 pat) (Nat.le_refl _) hpr hok hcaps hbd hroot (TabExt.refl _) i
    [(0 : Int)] [] (i : Int) [] s1 hwfst (by simpa using he1)
  replace hdel : Delivers W.X (2 + size (mainCfg ti) t) [(0 : Int)] [] [] []
      (m se (.cap 0 pat) ti.rtl ⟨i, []⟩) s1 := hdel
  refine ⟨s0, ?_⟩
  cases hrs : m se (.cap 0 pat) ti.rtl ⟨i, []⟩ with
  | nil =>
    rw [hrs] at hdel
    obtain ⟨s2, hr2, v', hf2⟩ := hdel
    obtain ⟨s3, hr3, hpc3, hop3, _, _, hcap3⟩ := lazybranch_back_raw (X := W.X) (a := 0) (T := []) (by simpa using hf2) hlb
      ⟨_, hstop.fetch⟩
    have hst := stop_step_raw hpc3 hop3 hstop
    obtain ⟨n, hn⟩ := run_of_reach ((hr1.trans hr2).trans hr3) hst
    refine ⟨s3, n, hinit, hn, ?_⟩
    have hatt : Spec.attempt se pat ti.rtl i = none := by simp [Spec.attempt, hrs]
    refine ⟨?_, by simp [hatt], by simp [hatt]⟩
    have hcnt := hcap3.cnt 0 hcs
    simp [VM.matched, hatt, hcnt]
  | cons r rs =>
    rw [hrs] at hdel
    obtain ⟨F, _, ⟨s2, hr2, v', he2⟩, _⟩ := hdel
    have hst := stop_step he2 hstop
    obtain ⟨n, hn⟩ := run_of_reach (hr1.trans hr2) hst
    refine ⟨s2, n, hinit, hn, ?_⟩
    have hatt : Spec.attempt se pat ti.rtl i = some r := by simp [Spec.attempt, hrs]
    refine ⟨?_, ?_, ?_⟩
    · have hmem : r ∈ m se (.cap 0 pat) ti.rtl ⟨i, []⟩ := by rw [hrs]; simp
      simp only [m, List.mem_map] at hmem
      obtain ⟨y, _, hy⟩ := hmem
      have hcnt := he2.cap.cnt 0 hcs
      have : 0 < (r.caps.filter (fun x => slotOf ti x.1 == 0)).length := by
        rw [← hy]
        simp [List.filter_append, hsl0]
      have hpos : MatchBuilder.cnt s2.cap.m 0 > 0 := by
        have : MatchBuilder.cnt s2.cap.m 0 = (r.caps.filter (fun x => slotOf ti x.1 == 0)).length := hcnt
        omega
      simp [VM.matched, hatt, hpos]
    · intro st hst'; rw [hatt] at hst'; cases hst'; exact he2.tp
    · intro st hst'; rw [hatt] at hst'; cases hst'; exact he2.cap

/-- below tier 7 the fragment has only left-to-right trees -/
theorem inFrag_ltr {k : Nat} (hk : k < 7) {TPx : TP} {ti : TreeInfo} {t : GoNode} (h : InFrag k TPx ti t = true) :
    ti.rtl = false := by
  rcases (inFrag_spec h).2.2.1 with h | h
  · exact h
  · omega

theorem inFrag_mono {k k' : Nat} (hk : k ≤ k') {TPx : TP} {ti : TreeInfo} {t : GoNode} (h : InFrag k TPx ti t = true) :
    InFrag k' TPx ti t = true := by
  simp only [InFrag, Bool.and_eq_true, decide_eq_true_eq, Bool.not_eq_true', beq_iff_eq, Bool.or_eq_true] at h ⊢
  exact ⟨⟨⟨⟨h.1.1.1.1, by omega⟩, h.1.1.2.imp id (fun h2 => by omega)⟩, h.1.2⟩, h.2⟩

/-! ## concrete instances for the non-vacuity examples of Props/C01 -/

/-- the translation parameters of the examples: .NET reading of `\Z`, sets read by `readSet` without named classes -/
def ccTP : TP := { strict := false, rd := readSet [] }

def ccInfo (captop : Int) : TreeInfo := { captop := captop, capnumlist := none, caps := [], rtl := false }

def ccSe (text : List Nat) : Spec.Env := { text := text, textstart := 0, named := [], word := [], fold := [] }

/-- interpreter oracles computed from the specification's environment (what `EnvRel` demands) -/
def ccEnv (sets : List (List Nat)) (se : Spec.Env) : VM.Env :=
  { text := se.text.toArray, textstart := se.textstart,
    setMem := fun k r =>
      match readSet [] (sets.getD k []) with
      | some c => c.mem se false r
      | none => false,
    toLower := id, wordChar := se.isWord, ecmaWordChar := fun _ => false, endzStrict := false, ecma := false }

theorem ccRel (sets : List (List Nat)) (se : Spec.Env) : EnvRel ccTP sets (ccEnv sets se) se := by
  refine ⟨rfl, rfl, fun _ => rfl, rfl, ?_⟩
  intro k s c hk hc r
  have hc' : readSet [] s = some c := hc
  simp [ccEnv, hk, hc']

/-- what an attempt of the emitted program reports: matched?, final text position, live prefix of every capture array -/
def ccRun (ti : TreeInfo) (t : GoNode) (env : VM.Env) (i : Nat) (fuel : Nat) : Option (Bool × Int × List (List Int)) :=
  match VM.init (emit ti t) (i : Int) with
  | .ok s0 =>
    match (VM.run (emit ti t) env fuel s0).1 with
    | .done s => some (VM.matched s, s.textpos,
        (List.range (capsize ti)).map (fun c => (MatchBuilder.arr s.cap.m c).take (2 * MatchBuilder.cnt s.cap.m c)))
    | _ => none
  | .error _ => none

/-- `(a|ab)(c|bcd)` -/
def ccT1 : GoNode :=
  .capture 0 (-1) (.concat [.capture 1 (-1) (.alt [.char opOne false false 97, .multi false false [97, 98]]),
    .capture 2 (-1) (.alt [.char opOne false false 99, .multi false false [98, 99, 100]])])

/-- `a*ab` -/
def ccT2 : GoNode := .capture 0 (-1) (.concat [.charloop opOneloop false false 97 0 maxInt32, .multi false false [97, 98]])

/-- `(?>a+)b` -/
def ccT3 : GoNode :=
  .capture 0 (-1) (.concat [.atomic (.charloop opOneloop false false 97 1 maxInt32), .char opOne false false 98])

/-- the payload of `[a-z]` as leg Wr sends it: hash bytes, then the raw range section -/
def ccAZ : List Nat := [0, 1, 0, 0, 0, 0, 0, 0, 0, 97, 122, 2097152, 97, 122]

/-- `(?=a)[a-z]` -/
def ccT4 : GoNode := .capture 0 (-1) (.concat [.poslook (.char opOne false false 97), .set false false ccAZ])

/-- `(?:ab|c)+d` -/
def ccT5 : GoNode :=
  .capture 0 (-1) (.concat [.loop false 1 maxInt32 (.alt [.multi false false [97, 98], .char opOne false false 99]),
    .char opOne false false 100])

/-- `(?:a{2}b){1,3}?c` -/
def ccT6 : GoNode :=
  .capture 0 (-1) (.concat [.loop true 1 3 (.concat [.charloop opOneloop false false 97 2 2, .char opOne false false 98]),
    .char opOne false false 99])

/-- `(a*)+b` -/
def ccT7 : GoNode :=
  .capture 0 (-1) (.concat [.loop false 1 maxInt32 (.capture 1 (-1) (.charloop opOneloop false false 97 0 maxInt32)),
    .char opOne false false 98])

/-- `.*ab` (`Notoneloop(\n)* ; UpdateBumpalong ; Multi "ab"`) -/
def ccT8 : GoNode :=
  .capture 0 (-1) (.concat [.charloop opNotoneloop false false 10 0 maxInt32, .bare opUpdateBumpalong,
    .multi false false [97, 98]])

/-- `(a)\1` -/
def ccT9 : GoNode := .capture 0 (-1) (.concat [.capture 1 (-1) (.char opOne false false 97), .ref false false 1])

/-- `(a)?(?(1)b|c)` -/
def ccT10 : GoNode :=
  .capture 0 (-1) (.concat [.loop false 0 1 (.capture 1 (-1) (.char opOne false false 97)),
    .backrefcond2 1 (.char opOne false false 98) (.char opOne false false 99)])

/-- `(?(?=(a))ab|c)` -/
def ccT11 : GoNode :=
  .capture 0 (-1) (.exprcond3 (.poslook (.capture 1 (-1) (.char opOne false false 97))) (.multi false false [97, 98])
    (.char opOne false false 99))

/-- a tree compiled with the option RightToLeft -/
def ccInfoR (captop : Int) : TreeInfo := { captop := captop, capnumlist := none, caps := [], rtl := true }

/-- `(?<=ab)c` -/
def ccT12 : GoNode := .capture 0 (-1) (.concat [.poslook (.multi true false [97, 98]), .char opOne false false 99])

/-- `(?:ab|c)+d` under RightToLeft: the parser stores the concatenation reversed -/
def ccT13 : GoNode :=
  .capture 0 (-1) (.concat [.char opOne true false 100,
    .loop false 1 maxInt32 (.alt [.multi true false [97, 98], .char opOne true false 99])])

/-- `a+b` under RightToLeft: stored `b`, then the loop -/
def ccT14 : GoNode :=
  .capture 0 (-1) (.concat [.char opOne true false 98, .charloop opOneloop true false 97 1 maxInt32])

/-- `(?<=ca*?)b`: the body of the lookbehind is stored reversed -/
def ccT15 : GoNode :=
  .capture 0 (-1) (.concat [.poslook (.concat [.charloop opOnelazy true false 97 0 maxInt32, .char opOne true false 99]),
    .char opOne false false 98])

end RegexVerif.Compile
