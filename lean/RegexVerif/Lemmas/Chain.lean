/-
The joints of the chain `pattern text ↦ compiled program ↦ no interpreter fault` (Props/C10Chain.lean).

* the interpreter-side theorems (`Prog.wf`, the grouping-stack typing, no fault) restated over the two components
  of `Writer.treeWf` they use — `GoNode.ok` and `capsOk`; `boundsOk` is used by none of them;
* the named hypotheses on the parser's result: `RawShapeOk` (joint J2) and `PrescanAgrees` (joint J3);
* `treeOk_of_raw`: from them, `ok ∧ capsOk` of the reduced tree (J1: `Lemmas/ReduceCaps*.lean`);
* `compileStages` computed after a successful parse.
-/
import RegexVerif.Lemmas.ReduceCaps4
import RegexVerif.Lemmas.Compose
import RegexVerif.Lemmas.StackTypingStep
import RegexVerif.Lemmas.StackTypingEmit

namespace RegexVerif.Lemmas.Chain
open RegexVerif RegexVerif.Code RegexVerif.VM RegexVerif.Writer RegexVerif.Reduce
open RegexVerif.Lemmas.VM RegexVerif.Lemmas.Compose RegexVerif.Lemmas.StackTyping RegexVerif.Lemmas.StackTypingSound

/-! ### the interpreter side over `ok ∧ capsOk` -/

/-- what the interpreter theorems need of a tree: node shapes and group numbers (`treeWf` without `boundsOk`) -/
def treeOk (ti : TreeInfo) (root : GoNode) : Bool := root.ok && capsOk (mainCfg ti) (capsize ti) root

theorem treeOk_of_treeWf {ti : TreeInfo} {root : GoNode} (h : treeWf ti root = true) : treeOk ti root = true := by
  simp only [treeWf, Bool.and_eq_true] at h
  simp only [treeOk, Bool.and_eq_true]
  exact h.1

theorem emit_vm_wf' (ti : TreeInfo) (root : GoNode) (h : treeOk ti root = true) : (emit ti root).wf = true := by
  simp only [treeOk, Bool.and_eq_true] at h
  obtain ⟨hok, hcaps⟩ := h
  rw [emit_eq_progOf]
  exact codeFromTree_vm_wf (mainCfg ti) (capsize ti) root hok hcaps _ _ _ _ _ (by simp) (Nat.le_refl _)

theorem emitQuick_vm_wf' (ti : TreeInfo) (root : GoNode) (h : treeOk ti root = true) (qp : Prog)
    (hq : emitQuick ti root = some qp) : qp.wf = true := by
  simp only [treeOk, Bool.and_eq_true] at h
  obtain ⟨hok, hcaps⟩ := h
  rw [emitQuick_eq_progOf ti root qp hq]
  have htb := codeFromTree_tables (quickCfg ti root) (mainCfg ti) root
  refine codeFromTree_vm_wf (quickCfg ti root) (capsize ti) root hok ?_ _ _ _ _ _ ?_ ?_
  · rw [← hcaps]; exact capsOk_quick _ _ _ root
  · rw [htb]; simp
  · rw [htb]; exact Nat.le_refl _

theorem emit_typing' (ti : TreeInfo) (root : GoNode) (h : treeOk ti root = true) :
    ∃ bs a, (emit ti root).boundaries = some bs ∧ TypingW (emit ti root) bs a := by
  simp only [treeOk, Bool.and_eq_true] at h
  obtain ⟨hok, hcaps⟩ := h
  rw [emit_eq_progOf]
  exact StackTypingEmit.codeFromTree_typing (mainCfg ti) (capsize ti) root hok hcaps _ _ _ _ _

theorem emitQuick_typing' (ti : TreeInfo) (root : GoNode) (h : treeOk ti root = true) (qp : Prog)
    (hq : emitQuick ti root = some qp) : ∃ bs a, qp.boundaries = some bs ∧ TypingW qp bs a := by
  simp only [treeOk, Bool.and_eq_true] at h
  obtain ⟨hok, hcaps⟩ := h
  rw [emitQuick_eq_progOf ti root qp hq]
  refine StackTypingEmit.codeFromTree_typing (quickCfg ti root) (capsize ti) root hok ?_ _ _ _ _ _
  rw [← hcaps]; exact capsOk_quick _ _ _ root

/-- a well-formed program with a grouping-stack typing never faults (`Props.C10.typing_sound`, restated here because
    `Props/C10.lean` imports the chain file) -/
theorem typed_run_no_fault (p : Prog) (h : p.wf = true) (bs : List Nat) (hb : p.boundaries = some bs)
    (a : StackTyping.Assign) (hty : TypingW p bs a)
    (env : Env) (pos : Int) (h0 : 0 ≤ pos) (hn : pos ≤ env.len) (fuel : Nat) :
    ∃ s0, init p pos = .ok s0 ∧ ∀ f, (run p env fuel s0).1 ≠ .fault f := by
  obtain ⟨bs', hwf⟩ := wf_spec h
  have e : bs' = bs := by have := hwf.bnd; rw [hb] at this; cases this; rfl
  subst e
  obtain ⟨s0, hi, hinv⟩ := tinit_inv (env := env) (a := a) hwf pos h0 hn
  refine ⟨s0, hi, fun f hf => ?_⟩
  obtain ⟨h1, h2⟩ := trun_ok hwf hty fuel s0 hinv f hf
  exact no_fault_left f h1 h2

/-- no fault of any kind for the program of a tree with `ok ∧ capsOk` -/
theorem emitted_no_fault' (ti : TreeInfo) (root : GoNode) (h : treeOk ti root = true)
    (env : Env) (pos : Int) (h0 : 0 ≤ pos) (hn : pos ≤ env.len) (fuel : Nat) :
    ∃ s0, init (emit ti root) pos = .ok s0 ∧ ∀ f, (run (emit ti root) env fuel s0).1 ≠ .fault f := by
  obtain ⟨bs, a, hb, hty⟩ := emit_typing' ti root h
  exact typed_run_no_fault _ (emit_vm_wf' ti root h) bs hb a hty env pos h0 hn fuel

theorem emittedQuick_no_fault' (ti : TreeInfo) (root : GoNode) (h : treeOk ti root = true)
    (qp : Prog) (hq : emitQuick ti root = some qp)
    (env : Env) (pos : Int) (h0 : 0 ≤ pos) (hn : pos ≤ env.len) (fuel : Nat) :
    ∃ s0, init qp pos = .ok s0 ∧ ∀ f, (run qp env fuel s0).1 ≠ .fault f := by
  obtain ⟨bs, a, hb, hty⟩ := emitQuick_typing' ti root h qp hq
  exact typed_run_no_fault _ (emitQuick_vm_wf' ti root h qp hq) bs hb a hty env pos h0 hn fuel

/-! ### the hypotheses on the parser's result -/

/-! ### the hypotheses on the parser's result: `Reduce.slotOf`, `Reduce.RawShapeOk` (J2), `Reduce.PrescanAgrees` (J3) — Model/ChainHyps.lean -/

theorem mainCfg_rtl (r : Bool) (t : Parser.RawTree) : mainCfg (treeInfo r t) = mainCfg (treeInfo false t) := rfl
theorem capsize_rtl (r : Bool) (t : Parser.RawTree) : capsize (treeInfo r t) = capsize (treeInfo false t) := rfl

/-- **J1 + the shape theorem**: the two hypotheses give `ok ∧ capsOk` of the reduced tree -/
theorem treeOk_of_raw (orc : Orc) (on rtl : Bool) (t : Parser.RawTree) (h2 : RawShapeOk t = true)
    (h3 : PrescanAgrees t = true) : treeOk (treeInfo rtl t) (reduceTree orc on t) = true := by
  simp only [PrescanAgrees, Bool.and_eq_true] at h3
  simp only [treeOk, Bool.and_eq_true]
  refine ⟨reduceTree_ok orc on t h2, ?_⟩
  rw [mainCfg_rtl, capsize_rtl]
  exact reduceTree_capsOk _ _ orc on t h3.1 h2 h3.2

/-! ### the compiler after a successful parse -/

theorem compileStages_ok (orc : Orc) (on : Bool) (E : Parser.Env) (t : Parser.RawTree)
    (hp : Parser.parse E = .ok t) (hw : RawShapeOk t = true) :
    compileStages orc on E = .ok
      { raw := t, tree := reduceTree orc on t, info := treeInfo E.opts.r t,
        written := { prog := emit (treeInfo E.opts.r t) (reduceTree orc on t),
                     sets := (codeFromTree (mainCfg (treeInfo E.opts.r t)) (reduceTree orc on t)).2.sets,
                     slotInUse := slotsInUse (treeInfo E.opts.r t) (reduceTree orc on t),
                     quick := quickCodes (treeInfo E.opts.r t) (reduceTree orc on t) } } := by
  have hok := reduceTree_ok orc on t hw
  simp only [compileStages, hp, write, hok, if_true]

theorem compilePattern_ok (orc : Orc) (E : Parser.Env) (t : Parser.RawTree)
    (hp : Parser.parse E = .ok t) (hw : RawShapeOk t = true) :
    compilePattern orc E = .ok (emit (treeInfo E.opts.r t) (reduceTree orc true t)) ∧
    compilePatternQuick orc E = .ok (emitQuick (treeInfo E.opts.r t) (reduceTree orc true t)) := by
  simp only [compilePattern, compilePatternQuick, compileStages_ok orc true E t hp hw]
  exact ⟨rfl, rfl⟩

theorem compilePattern_error (orc : Orc) (E : Parser.Env) (c : Parser.ErrCode) (hp : Parser.parse E = .error c) :
    compilePattern orc E = .error (.parse c) ∧ compilePatternQuick orc E = .error (.parse c) := by
  simp only [compilePattern, compilePatternQuick, compileStages, hp]
  exact ⟨rfl, rfl⟩

end RegexVerif.Lemmas.Chain
