/-
Specifications of the scanners of the parser model that are written in the monad (`scanCharEscape`,
`scanECMACapname`, `parseProperty`, `scanBasicBackslash`, `scanBackslash`, the group openers, the class
scanner): each returns — normally or with a Go error — in a state related to the start state by `Adv`
(position not behind, inside the pattern; only position / options / ignoreNextParen / capture tables
touched); no fault, no fuel exhaustion.
-/
import RegexVerif.Lemmas.Parser

namespace RegexVerif.Parser

variable {α β γ : Type}
variable (E : Env)

/-! ## Loops -/

/-- the loop rule: an invariant and the distance to the end of the pattern as variant -/
theorem wp_iter (f : β → M (Sum β γ)) (Inv : β → PS → Prop) (Q : γ → PS → Prop) (R : PS → Prop)
    (hstep : ∀ b s, Inv b s → wp (f b) (fun r s' => match r with
        | .inl b' => Inv b' s' ∧ E.pat.length - s'.pos < E.pat.length - s.pos
        | .inr c => Q c s') R s) :
    ∀ (n : Nat) (b : β) (s : PS), E.pat.length - s.pos < n → Inv b s → wp (iter f n b) Q R s := by
  intro n
  induction n with
  | zero => intro b s h; omega
  | succ n ih =>
    intro b s hn hinv
    have h := hstep b s hinv
    unfold wp at h ⊢
    unfold iter
    cases hf : f b s with
    | ok r s' =>
      simp only [hf] at h ⊢
      cases r with
      | inl b' => simp only at h; exact ih b' s' (by omega) h.1
      | inr c => simpa using h
    | err c s' => simpa [hf] using h
    | fault x => simp [hf] at h
    | fuel => simp [hf] at h

theorem countWhile_drop_le (f : Nat → Bool) (p : Nat) : countWhile f (E.pat.drop p) ≤ E.pat.length - p := by
  have := countWhile_le f (E.pat.drop p)
  simpa using this

/-! ## Automation -/

/-- a scanner that needs one rune to its right -/
def ScansLt (m : M α) : Prop :=
  ∀ s, s.pos < E.pat.length → wp m (fun _ s' => Adv E s s') (Adv E s) s

theorem wp_call_lt {m : M α} (h : ScansLt E m) {Q : α → PS → Prop} {R : PS → Prop} {s : PS}
    (hs : s.pos < E.pat.length)
    (hq : ∀ a s', s.pos ≤ s'.pos → s'.pos ≤ E.pat.length → s'.frame = s.frame → (NamesOK s.g → NamesOK s'.g) → Q a s')
    (hr : ∀ s', s.pos ≤ s'.pos → s'.pos ≤ E.pat.length → s'.frame = s.frame → (NamesOK s.g → NamesOK s'.g) → R s') :
    wp m Q R s :=
  wp_mono (h s hs) (fun a s' h' => hq a s' h'.le h'.inside h'.frame h'.names)
    (fun s' h' => hr s' h'.le h'.inside h'.frame h'.names)

/-- apply the specification of a callee to a `wp callee …` goal (alternatives are added as
    specifications are proved) -/
syntax "wp_callee" : tactic
macro_rules | `(tactic| wp_callee) => `(tactic| refine wp_call _ (scans_scanBlank _) (by adv) ?_ ?_)
macro_rules | `(tactic| wp_callee) => `(tactic| refine wp_call _ (scans_scanDecimal _) (by adv) ?_ ?_)
macro_rules | `(tactic| wp_callee) => `(tactic| refine wp_call _ (scans_scanOptions _) (by adv) ?_ ?_)
macro_rules | `(tactic| wp_callee) => `(tactic| refine wp_call _ (scans_scanWord _) (by adv) ?_ ?_)
macro_rules | `(tactic| wp_callee) => `(tactic| refine wp_call _ (scans_scanHex _ _) (by adv) ?_ ?_)
macro_rules | `(tactic| wp_callee) => `(tactic| refine wp_call _ (scans_scanHexUntilBrace _) (by adv) ?_ ?_)
macro_rules | `(tactic| wp_callee) => `(tactic| refine wp_call _ (scans_scanControl _) (by adv) ?_ ?_)

/-! ## Small operations -/

syntax "wp_simp2" : tactic
macro_rules
  | `(tactic| wp_simp2) => `(tactic| simp only [andM, orM, andMM, rcIs, rcNe, getIs, nextIs, wp_bind, wp_pure, wp_ite,
      wp_moveRightGetChar, wp_moveLeft, wp_textpos, wp_opts, wp_charsRight, wp_rest, wp_moveRight, wp_throw, wp_textto,
      wp_rightChar, wp_charAt, wp_get, wp_modify, wp_fault, wp_setOpts, Bool.false_eq_true, if_false, if_true])

theorem wp_scanCharEscape : ScansLt E (scanCharEscape E) := by
  intro s hs
  unfold scanCharEscape
  wp_simp
  wp_split
  all_goals first
    | omega
    | (apply wp_scanOctal_at <;> adv)
    | (apply (scans_scanHexUntilBrace E).at; adv)
    | adv
    | skip
  rename_i c _ _ _ _ _ _ _ _ _ _ _ _ _
  apply wp_attempt
  have hsc : Scans E (if c = 120 then scanHex E 2 else if c = 117 then scanHex E 4 else scanControl E) := by
    split; exact scans_scanHex E 2; split; exact scans_scanHex E 4; exact scans_scanControl E
  refine wp_call E hsc (by adv) ?_ ?_
  · intro a s' _ _ _ _; wp_simp; adv
  · intro s' _ _ _ _ c; dsimp only; wp_simp; wp_split <;> adv

macro_rules | `(tactic| wp_callee) => `(tactic| refine wp_call_lt _ (wp_scanCharEscape _) (by adv) ?_ ?_)

/-- symbolic execution of a scanner body: expand the monad, split, call the callees' specifications,
    close position and frame facts -/
syntax "wp_auto" : tactic
macro_rules
  | `(tactic| wp_auto) => `(tactic| repeat' (first
      | apply And.intro
      | intro _
      | wp_callee
      | wp_simp2
      | dsimp only
      | adv
      | split))

theorem scans_scanECMACapname : Scans E (scanECMACapname E) := by
  intro s hs
  unfold scanECMACapname
  wp_simp
  refine wp_iter E _ (fun _ s' => s.pos ≤ s'.pos ∧ s'.pos ≤ E.pat.length ∧ s'.frame = s.frame ∧ (NamesOK s.g → NamesOK s'.g))
    _ _ ?_ _ _ s (by omega) ⟨Nat.le_refl _, hs, rfl, id⟩
  intro st s1 h1
  obtain ⟨acc, index⟩ := st
  obtain ⟨h1a, h1b, h1c, h1d⟩ := h1
  dsimp only
  wp_auto

macro_rules | `(tactic| wp_callee) => `(tactic| refine wp_call _ (scans_scanECMACapname _) (by adv) ?_ ?_)

theorem scans_scanCapname : Scans E (scanCapname E) := by
  intro s hs
  unfold scanCapname
  wp_simp
  wp_split
  · exact scans_scanECMACapname E s hs
  · exact scans_scanWord E s hs

macro_rules | `(tactic| wp_callee) => `(tactic| refine wp_call _ (scans_scanCapname _) (by adv) ?_ ?_)

/-! ## Capture tables and option stack (equational) -/

@[simp] theorem wp_isCaptureSlot (i : Nat) (Q : Bool → PS → Prop) (R : PS → Prop) (s : PS) :
    wp (isCaptureSlot i) Q R s ↔ Q (s.g.caps.contains i) s := Iff.rfl
@[simp] theorem wp_captureSlotFromName (n : List Nat) (Q : Option Nat → PS → Prop) (R : PS → Prop) (s : PS) :
    wp (captureSlotFromName n) Q R s ↔ Q (s.g.capnames.bind fun cn => cn.lookup (nameStr n)) s := Iff.rfl
@[simp] theorem wp_hasCapnames (Q : Bool → PS → Prop) (R : PS → Prop) (s : PS) :
    wp hasCapnames Q R s ↔ Q (match s.g.capnames with | some (_ :: _) => true | _ => false) s := Iff.rfl
@[simp] theorem wp_consumeAutocap (Q : Nat → PS → Prop) (R : PS → Prop) (s : PS) :
    wp consumeAutocap Q R s ↔ Q s.g.autocap { s with g := { s.g with autocap := s.g.autocap + 1 } } := Iff.rfl
@[simp] theorem wp_emptyOptionsStack (Q : Bool → PS → Prop) (R : PS → Prop) (s : PS) :
    wp emptyOptionsStack Q R s ↔ Q s.optionsStack.isEmpty s := Iff.rfl
@[simp] theorem wp_pushOptions (Q : Unit → PS → Prop) (R : PS → Prop) (s : PS) :
    wp pushOptions Q R s ↔ Q () { s with optionsStack := s.options :: s.optionsStack } := Iff.rfl

theorem namesOK_autocap (g : Groups.PState) (a : Nat) : NamesOK { g with autocap := a } ↔ NamesOK g := by
  unfold NamesOK; rfl

theorem namesOK_noteSlot (i : Nat) (g : Groups.PState) (h : NamesOK g) : NamesOK (Groups.noteSlot i g) := by
  unfold NamesOK at *
  unfold Groups.noteSlot
  split <;> simpa using h

theorem namesOK_noteSlotP (i : Nat) (g : Groups.PState) (h : NamesOK g) : NamesOK (noteSlotP i g) := by
  have h' := namesOK_noteSlot i g h
  unfold NamesOK at *
  unfold noteSlotP
  split <;> simpa using h'

theorem namesOK_noteName (cfg : Groups.Cfg) (n : String) (g g' : Groups.PState) (h : NamesOK g)
    (hn : Groups.noteName cfg n g = some g') : NamesOK g' := by
  unfold NamesOK at *
  unfold Groups.noteName at hn
  simp only at hn
  split at hn
  · split at hn
    · simp at hn
    · simp only [Option.some.injEq] at hn
      subst hn
      intro _
      rename_i hlook _
      cases hc : g.capnames with
      | none => rename_i hl _; simp [hc] at hl
      | some l => exact h (by simp [hc])
  · split at hn <;> (simp only [Option.some.injEq] at hn; subst hn; intro _)
    · unfold Groups.noteSlot; split <;> simp
    · simp

/-- `noteCaptureSlot`, `noteCaptureName`, `consumeCaptureSlot`: only the tables change -/
theorem scans_noteCaptureSlot (i : Nat) : Scans E (noteCaptureSlot i) := by
  intro s hs
  exact ⟨Nat.le_refl _, hs, rfl, fun h => namesOK_noteSlotP i s.g h⟩

theorem scans_noteCaptureName (n : List Nat) : Scans E (noteCaptureName E n) := by
  intro s hs
  unfold wp noteCaptureName
  cases hn : Groups.noteName E.cfg (nameStr n) s.g with
  | none => exact ⟨Nat.le_refl _, hs, rfl, id⟩
  | some g' => exact ⟨Nat.le_refl _, hs, rfl, fun h => namesOK_noteName _ _ _ _ h hn⟩

theorem scans_consumeCaptureSlot (c : Option Nat) : Scans E (consumeCaptureSlot E c) := by
  intro s hs
  unfold wp consumeCaptureSlot
  by_cases hc : (E.ord && c == some s.g.autocap) = true
  · simp only [hc, if_true]
    exact ⟨Nat.le_refl _, hs, rfl, fun h => (namesOK_autocap _ _).mpr h⟩
  · simp only [hc]
    exact ⟨Nat.le_refl _, hs, rfl, id⟩

macro_rules | `(tactic| wp_callee) => `(tactic| refine wp_call _ (scans_noteCaptureSlot _ _) (by adv) ?_ ?_)
macro_rules | `(tactic| wp_callee) => `(tactic| refine wp_call _ (scans_noteCaptureName _ _) (by adv) ?_ ?_)
macro_rules | `(tactic| wp_callee) => `(tactic| refine wp_call _ (scans_consumeCaptureSlot _ _) (by adv) ?_ ?_)

end RegexVerif.Parser
