/-
Specifications of the scanners of the parser model that are written in the monad (`scanCharEscape`,
`scanECMACapname`, `parseProperty`, `scanBasicBackslash`, `scanBackslash`, the group openers, the class
scanner): each returns — normally or with a Go error — in a state related to the start state by `Adv`
(position not behind, inside the pattern; only position / options / ignoreNextParen / capture tables
touched); no fault, no fuel exhaustion.
-/
import RegexVerif.Lemmas.Parser

namespace RegexVerif.Parser

variable {α β γ : Type}
variable (E : Env)

/-! ## Loops -/

/-- the loop rule: an invariant and the distance to the end of the pattern as variant -/
theorem wp_iter (f : β → M (Sum β γ)) (Inv : β → PS → Prop) (Q : γ → PS → Prop) (R : PS → Prop)
    (hstep : ∀ b s, Inv b s → wp (f b) (fun r s' => match r with
        | .inl b' => Inv b' s' ∧ E.pat.length - s'.pos < E.pat.length - s.pos
        | .inr c => Q c s') R s) :
    ∀ (n : Nat) (b : β) (s : PS), E.pat.length - s.pos < n → Inv b s → wp (iter f n b) Q R s := by
  intro n
  induction n with
  | zero => intro b s h; omega
  | succ n ih =>
    intro b s hn hinv
    have h := hstep b s hinv
    unfold wp at h ⊢
    unfold iter
    cases hf : f b s with
    | ok r s' =>
      simp only [hf] at h ⊢
      cases r with
      | inl b' => simp only at h; exact ih b' s' (by omega) h.1
      | inr c => simpa using h
    | err c s' => simpa [hf] using h
    | fault x => simp [hf] at h
    | fuel => simp [hf] at h

/-! ## Automation -/

/-- a scanner that needs one rune to its right -/
def ScansLt (m : M α) : Prop :=
  ∀ s, s.pos < E.pat.length → wp m (fun _ s' => Adv E s s') (Adv E s) s

theorem wp_call_lt {m : M α} (h : ScansLt E m) {Q : α → PS → Prop} {R : PS → Prop} {s : PS}
    (hs : s.pos < E.pat.length)
    (hq : ∀ a s', s.pos ≤ s'.pos → s'.pos ≤ E.pat.length → s'.frame = s.frame → (NamesOK s.g → NamesOK s'.g) → Q a s')
    (hr : ∀ s', s.pos ≤ s'.pos → s'.pos ≤ E.pat.length → s'.frame = s.frame → (NamesOK s.g → NamesOK s'.g) → R s') :
    wp m Q R s :=
  wp_mono (h s hs) (fun a s' h' => hq a s' h'.le h'.inside h'.frame h'.names)
    (fun s' h' => hr s' h'.le h'.inside h'.frame h'.names)

/-- apply the specification of a callee to a `wp callee …` goal (alternatives are added as
    specifications are proved) -/
syntax "wp_callee" : tactic
macro_rules | `(tactic| wp_callee) => `(tactic| refine wp_call _ (scans_scanBlank _) (by adv) ?_ ?_)
macro_rules | `(tactic| wp_callee) => `(tactic| refine wp_call _ (scans_scanDecimal _) (by adv) ?_ ?_)
macro_rules | `(tactic| wp_callee) => `(tactic| refine wp_call _ (scans_scanOptions _) (by adv) ?_ ?_)
macro_rules | `(tactic| wp_callee) => `(tactic| refine wp_call _ (scans_scanWord _) (by adv) ?_ ?_)
macro_rules | `(tactic| wp_callee) => `(tactic| refine wp_call _ (scans_scanHex _ _) (by adv) ?_ ?_)
macro_rules | `(tactic| wp_callee) => `(tactic| refine wp_call _ (scans_scanHexUntilBrace _) (by adv) ?_ ?_)
macro_rules | `(tactic| wp_callee) => `(tactic| refine wp_call _ (scans_scanControl _) (by adv) ?_ ?_)

/-! ## Small operations -/

syntax "wp_simp2" : tactic
macro_rules
  | `(tactic| wp_simp2) => `(tactic| simp only [andM, orM, andMM, rcIs, rcNe, getIs, nextIs, wp_bind, wp_pure, wp_ite,
      wp_moveRightGetChar, wp_moveLeft, wp_textpos, wp_opts, wp_charsRight, wp_rest, wp_moveRight, wp_throw, wp_textto,
      wp_rightChar, wp_charAt, wp_get, wp_modify, wp_fault, wp_setOpts, Bool.false_eq_true, if_false, if_true])

theorem wp_scanCharEscape : ScansLt E (scanCharEscape E) := by
  intro s hs
  unfold scanCharEscape
  wp_simp
  wp_split
  all_goals first
    | omega
    | (apply wp_scanOctal_at <;> adv)
    | (apply (scans_scanHexUntilBrace E).at; adv)
    | adv
    | skip
  rename_i c _ _ _ _ _ _ _ _ _ _ _ _ _
  apply wp_attempt
  have hsc : Scans E (if c = 120 then scanHex E 2 else if c = 117 then scanHex E 4 else scanControl E) := by
    split; exact scans_scanHex E 2; split; exact scans_scanHex E 4; exact scans_scanControl E
  refine wp_call E hsc (by adv) ?_ ?_
  · intro a s' _ _ _ _; wp_simp; adv
  · intro s' _ _ _ _ c; dsimp only; wp_simp; wp_split <;> adv

macro_rules | `(tactic| wp_callee) => `(tactic| refine wp_call_lt _ (wp_scanCharEscape _) (by adv) ?_ ?_)

/-- symbolic execution of a scanner body: expand the monad, split, call the callees' specifications,
    close position and frame facts -/
syntax "wp_auto" : tactic
macro_rules
  | `(tactic| wp_auto) => `(tactic| repeat' (first
      | apply And.intro
      | intro _
      | wp_callee
      | wp_simp2
      | dsimp only
      | adv))

theorem scans_scanECMACapname : Scans E (scanECMACapname E) := by
  intro s hs
  unfold scanECMACapname
  wp_simp
  refine wp_iter E _ (fun _ s' => s.pos ≤ s'.pos ∧ s'.pos ≤ E.pat.length ∧ s'.frame = s.frame ∧ (NamesOK s.g → NamesOK s'.g))
    _ _ ?_ _ _ s (by omega) ⟨Nat.le_refl _, hs, rfl, id⟩
  intro st s1 h1
  obtain ⟨acc, index⟩ := st
  obtain ⟨h1a, h1b, h1c, h1d⟩ := h1
  dsimp only
  wp_auto

macro_rules | `(tactic| wp_callee) => `(tactic| refine wp_call _ (scans_scanECMACapname _) (by adv) ?_ ?_)

theorem scans_scanCapname : Scans E (scanCapname E) := by
  intro s hs
  unfold scanCapname
  wp_simp
  wp_split
  · exact scans_scanECMACapname E s hs
  · exact scans_scanWord E s hs

macro_rules | `(tactic| wp_callee) => `(tactic| refine wp_call _ (scans_scanCapname _) (by adv) ?_ ?_)

end RegexVerif.Parser
