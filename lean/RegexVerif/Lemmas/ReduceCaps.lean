/-
Joint J1 of the chain `pattern text ↦ no interpreter fault` (Props/C10Chain.lean): the tree REDUCER never
invents a group number.

`capN sl x`: every node of the `Reduce.Node` tree `x` satisfies `capQ sl` — a Ref / BackRefCond carries a group
number `0 ≤ m ≤ MaxInt32` accepted by `sl`, a Capture the numbers `-1 ≤ m, n ≤ MaxInt32` with the writer's
condition (`Writer.capsOk`), a Group `m = 0` — and has an option word below the tag base of `toR`.
`capR sl r`: the same seen on the n-ary tree `RewriteDecisions.RNode` of the reused reductions (a wrapped node
carries its numbers in its tag: `tagQ`).

Proved here: every function of `Model/RewriteDecisions.lean` the reducer reuses keeps `capR` (they only move
sub-trees, build leaves, and copy option words / tags), `toR` / `fromR` translate between `capN` and `capR`,
and `reduce`, `elim`, `finalOptimize`, `reduceRoot` keep `capN`; `toGo` turns `capN` into `Writer.capsOk`.
-/
import RegexVerif.Lemmas.Reduce
import RegexVerif.Model.ChainHyps

namespace RegexVerif.Reduce
open RegexVerif
open RegexVerif.RewriteDecisions (RNode CP LK)

/-- an option word that is a tag of `toR` names a node that satisfies `capQ` -/
def tagQ (sl : Int → Bool) (o : Nat) : Bool :=
  !isTag o || capQ sl (unpackTag o).t (unpackTag o).m (unpackTag o).n

mutual
/-- the condition on the rewrite model's tree: group numbers of naked Ref / Capture / BackRefCond nodes and of
    every tag; the option words that the rewrites copy from node to node (One, One loops, Multi, Alternate,
    Concatenate) are tags only of good nodes -/
def capR (sl : Int → Bool) : RNode → Bool
  | .chr o p => !RewriteDecisions.isOneCP p || tagQ sl o
  | .cloop o _ p _ _ => !RewriteDecisions.isOneCP p || tagQ sl o
  | .multi o _ => tagQ sl o
  | .empty => true
  | .nothing => true
  | .bump => true
  | .anchor _ => true
  | .ref g _ => capQ sl 13 g 0
  | .alt o cs => tagQ sl o && capRs sl cs
  | .cat o cs => tagQ sl o && capRs sl cs
  | .loop _ _ _ b => capR sl b
  | .cap g b => capQ sl 28 g (-1) && capR sl b
  | .look _ _ b => capR sl b
  | .atomic b => capR sl b
  | .refCond g y n => capQ sl 33 g 0 && capR sl y && capR sl n
  | .exprCond c y n => capR sl c && capR sl y && capR sl n
def capRs (sl : Int → Bool) : List RNode → Bool
  | [] => true
  | x :: xs => capR sl x && capRs sl xs
end

section
variable (sl : Int → Bool)

theorem capRs_nil : capRs sl [] = true := by rw [capRs]
theorem capRs_cons (x : RNode) (xs : List RNode) : capRs sl (x :: xs) = (capR sl x && capRs sl xs) := by rw [capRs]

theorem capRs_iff : ∀ (l : List RNode), capRs sl l = true ↔ ∀ x ∈ l, capR sl x = true
  | [] => by simp [capRs_nil]
  | x :: xs => by simp [capRs_cons, capRs_iff xs]

theorem capRs_append (a b : List RNode) : capRs sl (a ++ b) = (capRs sl a && capRs sl b) := by
  induction a with
  | nil => simp [capRs_nil]
  | cons x xs ih => simp [capRs_cons, ih, Bool.and_assoc]

theorem capR_alt (o : Nat) (cs : List RNode) : capR sl (.alt o cs) = (tagQ sl o && capRs sl cs) := by rw [capR]
theorem capR_cat (o : Nat) (cs : List RNode) : capR sl (.cat o cs) = (tagQ sl o && capRs sl cs) := by rw [capR]

/-- list form used by the lemmas below -/
abbrev CRs (l : List RNode) : Prop := ∀ x ∈ l, capR sl x = true

theorem CRs_of {l : List RNode} (h : capRs sl l = true) : CRs sl l := (capRs_iff sl l).mp h
theorem capRs_of {l : List RNode} (h : CRs sl l) : capRs sl l = true := (capRs_iff sl l).mpr h

theorem CRs_append {a b : List RNode} (ha : CRs sl a) (hb : CRs sl b) : CRs sl (a ++ b) := by
  intro x hx
  rcases List.mem_append.mp hx with h | h
  · exact ha x h
  · exact hb x h

theorem CRs_cons {x : RNode} {l : List RNode} (hx : capR sl x = true) (hl : CRs sl l) : CRs sl (x :: l) := by
  intro y hy
  rcases List.mem_cons.mp hy with h | h
  · rw [h]; exact hx
  · exact hl y h

theorem CRs_tail {x : RNode} {l : List RNode} (h : CRs sl (x :: l)) : CRs sl l :=
  fun y hy => h y (List.mem_cons_of_mem _ hy)

theorem CRs_head {x : RNode} {l : List RNode} (h : CRs sl (x :: l)) : capR sl x = true :=
  h x (List.mem_cons_self ..)

theorem CRs_sub {a b : List RNode} (hsub : ∀ x ∈ a, x ∈ b) (hb : CRs sl b) : CRs sl a :=
  fun x hx => hb x (hsub x hx)

theorem CRs_take (k : Nat) {l : List RNode} (h : CRs sl l) : CRs sl (l.take k) :=
  CRs_sub sl (fun _ hx => List.mem_of_mem_take hx) h
theorem CRs_drop (k : Nat) {l : List RNode} (h : CRs sl l) : CRs sl (l.drop k) :=
  CRs_sub sl (fun _ hx => List.mem_of_mem_drop hx) h
theorem CRs_dropLast {l : List RNode} (h : CRs sl l) : CRs sl l.dropLast :=
  CRs_sub sl (fun _ hx => List.dropLast_subset _ hx) h
theorem CRs_filter (p : RNode → Bool) {l : List RNode} (h : CRs sl l) : CRs sl (l.filter p) :=
  CRs_sub sl (fun _ hx => (List.mem_filter.mp hx).1) h
theorem CRs_takeWhile (p : RNode → Bool) {l : List RNode} (h : CRs sl l) : CRs sl (l.takeWhile p) :=
  CRs_sub sl (fun _ hx => (List.takeWhile_sublist _).subset hx) h
theorem CRs_dropWhile (p : RNode → Bool) {l : List RNode} (h : CRs sl l) : CRs sl (l.dropWhile p) :=
  CRs_sub sl (fun _ hx => (List.dropWhile_sublist _).subset hx) h
theorem CRs_map (g : RNode → RNode) {l : List RNode} (hg : ∀ x, capR sl x = true → capR sl (g x) = true)
    (h : CRs sl l) : CRs sl (l.map g) := by
  intro y hy
  rcases List.mem_map.mp hy with ⟨x, hx, rfl⟩
  exact hg x (h x hx)
theorem CRs_nil : CRs sl [] := fun _ h => by cases h
theorem CRs_single {x : RNode} (h : capR sl x = true) : CRs sl [x] := CRs_cons sl h (CRs_nil sl)
theorem CRs_getLast {l : List RNode} {x : RNode} (h : CRs sl l) (hx : l.getLast? = some x) : capR sl x = true :=
  h x (List.mem_of_getLast? hx)

theorem capR_alt_of {o : Nat} {cs : List RNode} (ho : tagQ sl o = true) (h : CRs sl cs) : capR sl (.alt o cs) = true := by
  rw [capR_alt, ho, capRs_of sl h]; rfl
theorem capR_cat_of {o : Nat} {cs : List RNode} (ho : tagQ sl o = true) (h : CRs sl cs) : capR sl (.cat o cs) = true := by
  rw [capR_cat, ho, capRs_of sl h]; rfl
theorem alt_inv {o : Nat} {cs : List RNode} (h : capR sl (.alt o cs) = true) : tagQ sl o = true ∧ CRs sl cs := by
  rw [capR_alt] at h
  simp only [Bool.and_eq_true] at h
  exact ⟨h.1, CRs_of sl h.2⟩
theorem cat_inv {o : Nat} {cs : List RNode} (h : capR sl (.cat o cs) = true) : tagQ sl o = true ∧ CRs sl cs := by
  rw [capR_cat] at h
  simp only [Bool.and_eq_true] at h
  exact ⟨h.1, CRs_of sl h.2⟩

/-! ### `reduceAlternation` -/

open RegexVerif.RewriteDecisions in
mutual
theorem capR_flatAlt : ∀ (r : RNode), capR sl r = true → CRs sl (flatAlt r)
  | .alt o cs, h => by rw [flatAlt]; exact capR_flatAlts cs (alt_inv sl h).2
  | .chr .., h => by simp only [flatAlt]; exact CRs_single sl h
  | .cloop .., h => by simp only [flatAlt]; exact CRs_single sl h
  | .multi .., h => by simp only [flatAlt]; exact CRs_single sl h
  | .empty, h => by simp only [flatAlt]; exact CRs_single sl h
  | .nothing, h => by simp only [flatAlt]; exact CRs_single sl h
  | .bump, h => by simp only [flatAlt]; exact CRs_single sl h
  | .anchor _, h => by simp only [flatAlt]; exact CRs_single sl h
  | .ref .., h => by simp only [flatAlt]; exact CRs_single sl h
  | .cat .., h => by simp only [flatAlt]; exact CRs_single sl h
  | .loop .., h => by simp only [flatAlt]; exact CRs_single sl h
  | .cap .., h => by simp only [flatAlt]; exact CRs_single sl h
  | .look .., h => by simp only [flatAlt]; exact CRs_single sl h
  | .atomic _, h => by simp only [flatAlt]; exact CRs_single sl h
  | .refCond .., h => by simp only [flatAlt]; exact CRs_single sl h
  | .exprCond .., h => by simp only [flatAlt]; exact CRs_single sl h
theorem capR_flatAlts : ∀ (l : List RNode), CRs sl l → CRs sl (flatAlts l)
  | [], _ => by rw [flatAlts]; exact CRs_nil sl
  | x :: xs, h => by
    rw [flatAlts]
    exact CRs_append sl (capR_flatAlt x (CRs_head sl h)) (capR_flatAlts xs (CRs_tail sl h))
end

open RegexVerif.RewriteDecisions in
theorem capR_mkAlt {o : Nat} {cs : List RNode} (ho : tagQ sl o = true) (h : CRs sl cs) : capR sl (mkAlt o cs) = true := by
  unfold mkAlt
  split
  · rw [capR]
  · exact h _ (List.mem_cons_self ..)
  · exact capR_alt_of sl ho h

open RegexVerif.RewriteDecisions in
theorem capR_mkCat {o : Nat} {cs : List RNode} (ho : tagQ sl o = true) (h : CRs sl cs) : capR sl (mkCat o cs) = true := by
  unfold mkCat
  split
  · rw [capR]
  · exact h _ (List.mem_cons_self ..)
  · exact capR_cat_of sl ho h

open RegexVerif.RewriteDecisions in
theorem capR_strNode {o : Nat} (ho : tagQ sl o = true) (cs : List Nat) : capR sl (strNode o cs) = true := by
  unfold strNode
  split
  · rw [capR]
  · rw [capR]; simp [ho]
  · rw [capR]; exact ho

theorem capR_chr_set (o : Nat) (s : Spec.Cls) : capR sl (.chr o (.set s)) = true := by
  rw [capR]; rfl

open RegexVerif.RewriteDecisions in
theorem capR_mergeGo (ll : Bool) : ∀ (rest out : List RNode) (w c : Bool), CRs sl out → CRs sl rest →
    CRs sl (mergeGo ll out w c rest)
  | [], out, w, c, ho, _ => by rw [mergeGo]; exact ho
  | nd :: rest, out, w, c, ho, hr => by
    have hnd := CRs_head sl hr
    have hrest := CRs_tail sl hr
    have ih := capR_mergeGo ll rest
    have hpush : CRs sl (out ++ [nd]) := CRs_append sl ho (CRs_single sl hnd)
    have hfront : ∀ (po : Nat) (pp : CP) (s : Spec.Cls), CRs sl (out.dropLast ++ [RNode.chr (mergedOpts po pp) (.set s)]) :=
      fun po pp s => CRs_append sl (CRs_dropLast sl ho) (CRs_single sl (capR_chr_set sl _ _))
    rw [mergeGo.eq_def]
    simp only []
    split
    · exact ih _ _ _ ho hrest
    · split
      · exact ih _ _ _ hpush hrest
      · split
        · split
          · exact ih _ _ _ (hfront _ _ _) hrest
          · exact ih _ _ _ hpush hrest
        · exact ih _ _ _ hpush hrest
    · split
      · exact ih _ _ _ hpush hrest
      · split
        · split
          · exact ih _ _ _ (hfront _ _ _) hrest
          · exact ih _ _ _ hpush hrest
        · exact ih _ _ _ hpush hrest
    · exact ih _ _ _ hpush hrest

open RegexVerif.RewriteDecisions in
theorem capR_mergeLetters (ll : Bool) {cs : List RNode} (h : CRs sl cs) : CRs sl (mergeLetters ll cs) :=
  capR_mergeGo sl ll _ _ _ _ (CRs_nil sl) (capR_flatAlts sl cs h)

open RegexVerif.RewriteDecisions in
theorem tagQ_strOf {r : RNode} {o : Nat} {s : List Nat} (h : capR sl r = true) (hs : strOf r = some (o, s)) :
    tagQ sl o = true := by
  unfold strOf at hs
  split at hs
  · simp only [Option.some.injEq, Prod.mk.injEq] at hs
    rw [capR] at h
    simpa [RewriteDecisions.isOneCP, hs.1] using h
  · simp only [Option.some.injEq, Prod.mk.injEq] at hs
    rw [capR] at h
    rw [← hs.1]; exact h
  · cases hs

open RegexVerif.RewriteDecisions in
theorem tagQ_startOf {r : RNode} {o : Nat} {s : List Nat} (h : capR sl r = true) (hs : startOf r = some (o, s)) :
    tagQ sl o = true := by
  unfold startOf at hs
  split at hs
  · exact tagQ_strOf sl (CRs_head sl (cat_inv sl h).2) hs
  · cases hs
  · exact tagQ_strOf sl h hs

open RegexVerif.RewriteDecisions in
theorem capR_stripPrefix (k : Nat) {b : RNode} (h : capR sl b = true) : capR sl (stripPrefix k b) = true := by
  unfold stripPrefix
  split
  · rename_i o c cs
    have hi := cat_inv sl h
    split
    · rename_i so s hso
      exact capR_cat_of sl hi.1 (CRs_cons sl (capR_strNode sl (tagQ_strOf sl (CRs_head sl hi.2) hso) _) (CRs_tail sl hi.2))
    · exact h
  · split
    · rename_i so s hso
      exact capR_strNode sl (tagQ_strOf sl h hso) _
    · exact h

/-- the callback `red` keeps `capR` -/
abbrev RedCaps (red : Bool → RNode → RNode) : Prop := ∀ (pa : Bool) (r : RNode), capR sl r = true → capR sl (red pa r) = true

theorem capR_atomic_of {b : RNode} (h : capR sl b = true) : capR sl (.atomic b) = true := by rw [capR]; exact h

open RegexVerif.RewriteDecisions in
theorem capR_factorTextGo {red : Bool → RNode → RNode} (hred : RedCaps sl red) (pa : Bool) :
    ∀ (fuel : Nat) (cs : List RNode), CRs sl cs → CRs sl (factorTextGo red pa fuel cs)
  | 0, cs, h => by rw [factorTextGo]; exact h
  | _ + 1, [], h => by rw [factorTextGo]; exact h
  | _ + 1, [x], h => by rw [factorTextGo]; exact h
  | fuel + 1, x :: y :: rest, h => by
    have ih := capR_factorTextGo hred pa fuel
    rw [factorTextGo]
    split
    · exact h
    · rename_i so span hso
      have hso' := tagQ_startOf sl (CRs_head sl h) hso
      simp only []
      split
      · exact CRs_cons sl (CRs_head sl h) (ih _ (CRs_tail sl h))
      · refine CRs_cons sl ?_ (ih _ (CRs_drop sl _ (CRs_tail sl h)))
        have hgroup : CRs sl (x :: (y :: rest).take (shared so span (y :: rest)).1) :=
          CRs_cons sl (CRs_head sl h) (CRs_take sl _ (CRs_tail sl h))
        have hbr := CRs_map sl (fun b => red false (red false (stripPrefix (shared so span (y :: rest)).2.length b)))
          (fun b hb => hred _ _ (hred _ _ (capR_stripPrefix sl _ hb))) hgroup
        have halt := capR_alt_of sl hso' hbr
        apply hred
        apply capR_cat_of sl hso'
        apply CRs_cons sl (capR_strNode sl hso' _)
        apply CRs_single
        split
        · exact hred _ _ (capR_atomic_of sl (hred _ _ halt))
        · exact hred _ _ halt

open RegexVerif.RewriteDecisions in
theorem capR_factorText {red : Bool → RNode → RNode} (hred : RedCaps sl red) (pa : Bool) {o : Nat} {cs : List RNode}
    (ho : tagQ sl o = true) (h : CRs sl cs) : capR sl (factorText red pa o cs) = true := by
  unfold factorText
  have := capR_factorTextGo sl hred pa cs.length cs h
  split
  · rename_i c hc
    rw [hc] at this
    exact CRs_head sl this
  · exact capR_alt_of sl ho this

open RegexVerif.RewriteDecisions in
theorem capR_firstOf {r c : RNode} (h : capR sl r = true) (hf : firstOf r = some c) : capR sl c = true := by
  unfold firstOf at hf
  split at hf
  · simp only [Option.some.injEq] at hf
    rw [← hf]
    exact CRs_head sl (cat_inv sl h).2
  · cases hf

open RegexVerif.RewriteDecisions in
theorem capR_dropFirst {r : RNode} (h : capR sl r = true) : capR sl (dropFirst r) = true := by
  unfold dropFirst
  split
  · have hi := cat_inv sl h
    exact capR_cat_of sl hi.1 (CRs_tail sl hi.2)
  · exact h

open RegexVerif.RewriteDecisions in
theorem capR_factorSetGo {red : Bool → RNode → RNode} (hred : RedCaps sl red) (fk pa : Bool) {o : Nat}
    (ho : tagQ sl o = true) :
    ∀ (fuel : Nat) (cs : List RNode), CRs sl cs → CRs sl (factorSetGo red fk pa o fuel cs)
  | 0, cs, h => by rw [factorSetGo]; exact h
  | _ + 1, [], h => by rw [factorSetGo]; exact h
  | _ + 1, [x], h => by rw [factorSetGo]; exact h
  | fuel + 1, x :: y :: rest, h => by
    have ih := capR_factorSetGo hred fk pa ho fuel
    have hskip : CRs sl (x :: factorSetGo red fk pa o fuel (y :: rest)) :=
      CRs_cons sl (CRs_head sl h) (ih _ (CRs_tail sl h))
    rw [factorSetGo]
    split
    · exact hskip
    · rename_i req hreq
      have hreq' := capR_firstOf sl (CRs_head sl h) hreq
      split
      · exact hskip
      · simp only []
        split
        · exact hskip
        · refine CRs_cons sl ?_ (ih _ (CRs_drop sl _ (CRs_tail sl h)))
          have hgroup : CRs sl (x :: (y :: rest).take (countSame fk req (y :: rest))) :=
            CRs_cons sl (CRs_head sl h) (CRs_take sl _ (CRs_tail sl h))
          have hbr := CRs_map sl (fun b => red false (dropFirst b)) (fun b hb => hred _ _ (capR_dropFirst sl hb)) hgroup
          have halt := capR_alt_of sl ho hbr
          apply hred
          apply capR_cat_of sl ho
          apply CRs_cons sl hreq'
          apply CRs_single
          split
          · exact hred _ _ (capR_atomic_of sl (hred _ _ halt))
          · exact hred _ _ halt

open RegexVerif.RewriteDecisions in
theorem capR_factorSet {red : Bool → RNode → RNode} (hred : RedCaps sl red) (fk pa : Bool) {o : Nat} {cs : List RNode}
    (ho : tagQ sl o = true) (h : CRs sl cs) : capR sl (factorSet red fk pa o cs) = true := by
  unfold factorSet
  split
  · exact capR_mkAlt sl ho (capR_factorSetGo sl hred fk pa ho _ _ h)
  · exact capR_alt_of sl ho h

open RegexVerif.RewriteDecisions in
theorem capR_removeEmptiesGo (ll : Bool) : ∀ (cs : List RNode) (seen : Bool), CRs sl cs → CRs sl (removeEmptiesGo ll seen cs)
  | [], _, h => by rw [removeEmptiesGo]; exact h
  | c :: cs, seen, h => by
    have ih := capR_removeEmptiesGo ll cs
    rw [removeEmptiesGo.eq_def]
    simp only []
    split
    · exact ih _ (CRs_tail sl h)
    · split
      · exact ih _ (CRs_tail sl h)
      · exact CRs_cons sl (CRs_head sl h) (ih _ (CRs_tail sl h))
    · exact CRs_cons sl (CRs_head sl h) (ih _ (CRs_tail sl h))

open RegexVerif.RewriteDecisions in
theorem capR_reduceAltFrom {red : Bool → RNode → RNode} (hred : RedCaps sl red) (ll fk on pa rtl : Bool) {r : RNode}
    (h : capR sl r = true) : capR sl (reduceAltFrom red ll fk on pa rtl r) = true := by
  unfold reduceAltFrom
  split
  · rename_i o1 cs1
    have hi := alt_inv sl h
    have h2 : capR sl (if on && !rtl then factorText red pa o1 cs1 else .alt o1 cs1) = true := by
      split
      · exact capR_factorText sl hred pa hi.1 hi.2
      · exact h
    generalize (if on && !rtl then factorText red pa o1 cs1 else RNode.alt o1 cs1) = r2 at h2
    split
    · rename_i o2 cs2
      have hi2 := alt_inv sl h2
      have h3 : capR sl (if on && !rtl then factorSet red fk pa o2 cs2 else .alt o2 cs2) = true := by
        split
        · exact capR_factorSet sl hred fk pa hi2.1 hi2.2
        · exact h2
      generalize (if on && !rtl then factorSet red fk pa o2 cs2 else RNode.alt o2 cs2) = r3 at h3
      split
      · rename_i o3 cs3
        have hi3 := alt_inv sl h3
        exact capR_mkAlt sl hi3.1 (capR_removeEmptiesGo sl ll _ _ hi3.2)
      · exact h3
    · exact h2
  · exact h

open RegexVerif.RewriteDecisions in
theorem capR_reduceAlt {red : Bool → RNode → RNode} (hred : RedCaps sl red) (ll fk on pa rtl : Bool) {o : Nat}
    {cs : List RNode} (ho : tagQ sl o = true) (h : CRs sl cs) : capR sl (reduceAlt red ll fk on pa rtl o cs) = true := by
  unfold reduceAlt
  split
  · rw [capR]
  · exact CRs_head sl h
  · exact capR_reduceAltFrom sl hred ll fk on pa rtl (capR_mkAlt sl ho (capR_mergeLetters sl ll h))

/-! ### `reduceConcatenation` -/

open RegexVerif.RewriteDecisions in
mutual
theorem capR_flatCat : ∀ (r : RNode), capR sl r = true → CRs sl (flatCat r)
  | .cat o cs, h => by rw [flatCat]; exact capR_flatCats cs (cat_inv sl h).2
  | .chr .., h => by simp only [flatCat]; exact CRs_single sl h
  | .cloop .., h => by simp only [flatCat]; exact CRs_single sl h
  | .multi .., h => by simp only [flatCat]; exact CRs_single sl h
  | .empty, h => by simp only [flatCat]; exact CRs_single sl h
  | .nothing, h => by simp only [flatCat]; exact CRs_single sl h
  | .bump, h => by simp only [flatCat]; exact CRs_single sl h
  | .anchor _, h => by simp only [flatCat]; exact CRs_single sl h
  | .ref .., h => by simp only [flatCat]; exact CRs_single sl h
  | .alt .., h => by simp only [flatCat]; exact CRs_single sl h
  | .loop .., h => by simp only [flatCat]; exact CRs_single sl h
  | .cap .., h => by simp only [flatCat]; exact CRs_single sl h
  | .look .., h => by simp only [flatCat]; exact CRs_single sl h
  | .atomic _, h => by simp only [flatCat]; exact CRs_single sl h
  | .refCond .., h => by simp only [flatCat]; exact CRs_single sl h
  | .exprCond .., h => by simp only [flatCat]; exact CRs_single sl h
theorem capR_flatCats : ∀ (l : List RNode), CRs sl l → CRs sl (flatCats l)
  | [], _ => by rw [flatCats]; exact CRs_nil sl
  | x :: xs, h => by
    rw [flatCats]
    exact CRs_append sl (capR_flatCat x (CRs_head sl h)) (capR_flatCats xs (CRs_tail sl h))
end

theorem capR_multi_of {o : Nat} (ho : tagQ sl o = true) (cs : List Nat) : capR sl (.multi o cs) = true := by
  rw [capR]; exact ho

open RegexVerif.RewriteDecisions in
theorem capR_joinGo (rtl : Bool) : ∀ (rest out : List RNode) (w : Bool), CRs sl out → CRs sl rest →
    CRs sl (joinGo rtl out w rest)
  | [], out, w, ho, _ => by rw [joinGo]; exact ho
  | nd :: rest, out, w, ho, hr => by
    have hnd := CRs_head sl hr
    have hrest := CRs_tail sl hr
    have ih := capR_joinGo rtl rest
    have hpush : CRs sl (out ++ [nd]) := CRs_append sl ho (CRs_single sl hnd)
    rw [joinGo.eq_def]
    simp only []
    split
    · exact ih _ _ ho hrest
    · split
      · exact ih _ _ hpush hrest
      · split
        · exact ih _ _ hpush hrest
        · split
          · rename_i _ _ po ps hlast
            refine ih _ _ (CRs_append sl (CRs_dropLast sl ho) (CRs_single sl (capR_multi_of sl ?_ _))) hrest
            cases hl : out.getLast? with
            | none => simp [hl] at hlast
            | some lastn =>
              rw [hl] at hlast
              simp only [Option.bind_some] at hlast
              exact tagQ_strOf sl (CRs_getLast sl ho hl) hlast
          · exact ih _ _ hpush hrest

open RegexVerif.RewriteDecisions in
theorem capR_joinStrings (rtl : Bool) {cs : List RNode} (h : CRs sl cs) : CRs sl (joinStrings rtl cs) :=
  capR_joinGo sl rtl _ _ _ (CRs_nil sl) (capR_flatCats sl cs h)

theorem capR_cloop_of {o : Nat} {p : CP} (k : LK) (lo : Nat) (hi : Option Nat)
    (ho : RewriteDecisions.isOneCP p = true → tagQ sl o = true) : capR sl (.cloop o k p lo hi) = true := by
  rw [capR]
  cases hp : RewriteDecisions.isOneCP p
  · rfl
  · simpa using ho hp

theorem capR_chr_of {o : Nat} {p : CP} (ho : RewriteDecisions.isOneCP p = true → tagQ sl o = true) :
    capR sl (.chr o p) = true := by
  rw [capR]
  cases hp : RewriteDecisions.isOneCP p
  · rfl
  · simpa using ho hp

theorem cloop_inv {o : Nat} {p : CP} {k : LK} {lo : Nat} {hi : Option Nat} (h : capR sl (.cloop o k p lo hi) = true) :
    RewriteDecisions.isOneCP p = true → tagQ sl o = true := by
  intro hp
  rw [capR] at h
  simpa [hp] using h

theorem chr_inv {o : Nat} {p : CP} (h : capR sl (.chr o p) = true) :
    RewriteDecisions.isOneCP p = true → tagQ sl o = true := by
  intro hp
  rw [capR] at h
  simpa [hp] using h

theorem multi_inv {o : Nat} {cs : List Nat} (h : capR sl (.multi o cs) = true) : tagQ sl o = true := by
  rw [capR] at h; exact h

open RegexVerif.RewriteDecisions in
theorem capR_combineFull (rtl : Bool) {cur nx c' : RNode} {onx : Option RNode} (hc : capR sl cur = true)
    (hn : capR sl nx = true) (h : combineFull rtl cur nx = some (c', onx)) :
    capR sl c' = true ∧ ∀ n', onx = some n' → capR sl n' = true := by
  unfold combineFull at h
  split at h
  · split at h
    · split at h
      · cases h
      · split at h
        · cases h
        · simp only [Option.some.injEq, Prod.mk.injEq] at h
          rw [← h.1, ← h.2]
          exact ⟨capR_cloop_of sl _ _ _ (cloop_inv sl hc), fun _ hh => by cases hh⟩
    · cases h
  · split at h
    · split at h
      · simp only [Option.some.injEq, Prod.mk.injEq] at h
        rw [← h.1, ← h.2]
        exact ⟨capR_cloop_of sl _ _ _ (cloop_inv sl hc), fun _ hh => by cases hh⟩
      · cases h
    · cases h
  · split at h
    · simp only [] at h
      split at h
      · simp only [Option.some.injEq, Prod.mk.injEq] at h
        rw [← h.1, ← h.2]
        refine ⟨capR_cloop_of sl _ _ _ (cloop_inv sl hc), ?_⟩
        intro n' hn'
        have ho' := multi_inv sl hn
        split at hn'
        · cases hn'
        · simp only [Option.some.injEq] at hn'
          rw [← hn']
          exact capR_chr_of sl (fun _ => ho')
        · simp only [Option.some.injEq] at hn'
          rw [← hn']
          exact capR_multi_of sl ho' _
      · cases h
    · cases h
  · split at h
    · rename_i hcond
      split at h
      · simp only [Option.some.injEq, Prod.mk.injEq] at h
        rw [← h.1, ← h.2]
        exact ⟨capR_cloop_of sl _ _ _ (chr_inv sl hc), fun _ hh => by cases hh⟩
      · cases h
    · cases h
  · split at h
    · rename_i hcond
      simp only [Option.some.injEq, Prod.mk.injEq] at h
      rw [← h.1, ← h.2]
      exact ⟨capR_cloop_of sl _ _ _ (fun hp => by rw [hcond.2.2] at hp; cases hp), fun _ hh => by cases hh⟩
    · cases h
  · cases h

open RegexVerif.RewriteDecisions in
theorem capR_combine (ll rtl : Bool) {cur nx c' : RNode} {onx : Option RNode} (hc : capR sl cur = true)
    (hn : capR sl nx = true) (h : combine ll rtl cur nx = some (c', onx)) :
    capR sl c' = true ∧ ∀ n', onx = some n' → capR sl n' = true := by
  unfold combine at h
  split at h
  · exact capR_combineFull sl rtl hc hn h
  · split at h
    · split at h
      · cases h
      · exact capR_combineFull sl rtl hc hn h
    · cases h

open RegexVerif.RewriteDecisions in
theorem capR_coalesceGo (ll rtl : Bool) : ∀ (rest : List RNode) (cur : RNode), capR sl cur = true → CRs sl rest →
    CRs sl (coalesceGo ll rtl cur rest)
  | [], cur, hc, _ => by rw [coalesceGo]; exact CRs_single sl hc
  | nx :: rest, cur, hc, hr => by
    have ih := capR_coalesceGo ll rtl rest
    have hn := CRs_head sl hr
    have hrest := CRs_tail sl hr
    rw [coalesceGo]
    split
    · rename_i cur' heq
      exact ih _ (capR_combine sl ll rtl hc hn heq).1 hrest
    · rename_i cur' nx' heq
      have := capR_combine sl ll rtl hc hn heq
      exact CRs_cons sl this.1 (ih _ (this.2 _ rfl) hrest)
    · exact CRs_cons sl hc (ih _ hn hrest)

open RegexVerif.RewriteDecisions in
theorem capR_coalesce (ll rtl : Bool) {cs : List RNode} (h : CRs sl cs) : CRs sl (coalesce ll rtl cs) := by
  unfold coalesce
  split
  · exact CRs_nil sl
  · exact capR_coalesceGo sl ll rtl _ _ (CRs_head sl h) (CRs_tail sl h)

open RegexVerif.RewriteDecisions in
theorem capR_reduceCat (ll rtl : Bool) {o : Nat} {cs : List RNode} (ho : tagQ sl o = true) (h : CRs sl cs) :
    capR sl (reduceCat ll rtl o cs) = true := by
  unfold reduceCat
  split
  · rw [capR]
  · exact CRs_head sl h
  · split
    · rw [capR]
    · exact capR_mkCat sl ho (capR_joinStrings sl rtl (capR_coalesce sl ll rtl h))

/-! ### `reduceAtomic`, `makeLoopAtomic`, `placeBump` -/

open RegexVerif.RewriteDecisions in
theorem capR_makeLoopAtomic {r : RNode} (h : capR sl r = true) : capR sl (RewriteDecisions.makeLoopAtomic r) = true := by
  unfold RewriteDecisions.makeLoopAtomic
  split
  · exact capR_cloop_of sl _ _ _ (cloop_inv sl h)
  · split
    · rw [capR]
    · split
      · split
        · exact capR_multi_of sl (cloop_inv sl h rfl) _
        · exact capR_cloop_of sl _ _ _ (cloop_inv sl h)
      · exact capR_cloop_of sl _ _ _ (cloop_inv sl h)
  · exact h

open RegexVerif.RewriteDecisions in
theorem capR_trimGo : ∀ (l : List RNode), CRs sl l → CRs sl (trimAfterEmpty.go l)
  | [], h => by rw [trimAfterEmpty.go]; exact h
  | [x], h => by rw [trimAfterEmpty.go]; exact h
  | x :: y :: rest, h => by
    rw [trimAfterEmpty.go]
    split
    · exact CRs_single sl (CRs_head sl h)
    · exact CRs_cons sl (CRs_head sl h) (capR_trimGo (y :: rest) (CRs_tail sl h))

open RegexVerif.RewriteDecisions in
theorem capR_trimAfterEmpty {l : List RNode} (h : CRs sl l) : CRs sl (trimAfterEmpty l) := by
  unfold trimAfterEmpty
  split
  · exact h
  · exact CRs_cons sl (CRs_head sl h) (capR_trimGo sl _ (CRs_tail sl h))

open RegexVerif.RewriteDecisions in
theorem capR_groupByFirst : ∀ (fuel : Nat) (l : List RNode), CRs sl l → CRs sl (groupByFirst fuel l).1
  | 0, l, h => by rw [groupByFirst]; exact h
  | _ + 1, [], h => by rw [groupByFirst]; exact h
  | fuel + 1, x :: xs, h => by
    rw [groupByFirst]
    simp only []
    exact CRs_cons sl (CRs_head sl h) (CRs_append sl (CRs_filter sl _ (CRs_tail sl h))
      (capR_groupByFirst fuel _ (CRs_filter sl _ (CRs_tail sl h))))

open RegexVerif.RewriteDecisions in
theorem capR_reorderGo : ∀ (fuel : Nat) (l : List RNode), CRs sl l → CRs sl (reorderGo fuel l).1
  | 0, l, h => by rw [reorderGo]; exact h
  | _ + 1, [], h => by rw [reorderGo]; exact h
  | fuel + 1, x :: xs, h => by
    have ih := capR_reorderGo fuel
    rw [reorderGo]
    split
    · exact CRs_cons sl (CRs_head sl h) (ih _ (CRs_tail sl h))
    · simp only []
      have hrun : CRs sl (x :: xs.takeWhile (fun b => (firstChar b).isSome)) :=
        CRs_cons sl (CRs_head sl h) (CRs_takeWhile sl _ (CRs_tail sl h))
      have hg : CRs sl (if 3 ≤ (x :: xs.takeWhile (fun b => (firstChar b).isSome)).length then
          groupByFirst (x :: xs.takeWhile (fun b => (firstChar b).isSome)).length (x :: xs.takeWhile (fun b => (firstChar b).isSome))
          else (x :: xs.takeWhile (fun b => (firstChar b).isSome), false)).1 := by
        split
        · exact capR_groupByFirst sl _ _ hrun
        · exact hrun
      have hdw := CRs_dropWhile sl (fun b => (firstChar b).isSome) (CRs_tail sl h)
      split
      · exact hg
      · rename_i y ys heq
        rw [heq] at hdw
        exact CRs_append sl hg (CRs_cons sl (CRs_head sl hdw) (ih _ (CRs_tail sl hdw)))

open RegexVerif.RewriteDecisions in
theorem capR_reorder {l : List RNode} (h : CRs sl l) : CRs sl (reorder l).1 := capR_reorderGo sl _ _ h

theorem atomic_inv {b : RNode} (h : capR sl (.atomic b) = true) : capR sl b = true := by rw [capR] at h; exact h

open RegexVerif.RewriteDecisions in
theorem capR_reduceAtomic {red : Bool → RNode → RNode} (hred : RedCaps sl red) (ll on rtl : Bool) :
    ∀ (r : RNode), capR sl r = true → capR sl (reduceAtomic red ll on rtl r) = true := by
  intro r
  induction r using reduceAtomic.induct ll on rtl with
  | case1 b ih => intro h; rw [reduceAtomic]; exact ih (atomic_inv sl h)
  | case2 => intro _; rw [reduceAtomic]; rw [capR]
  | case3 => intro _; rw [reduceAtomic]; rw [capR]
  | case4 o k p lo hi hc => intro h; rw [reduceAtomic, if_pos hc]; exact h
  | case5 o k p lo hi hc => intro h; rw [reduceAtomic, if_neg hc]; exact capR_makeLoopAtomic sl (atomic_inv sl h)
  | case6 o bs hc => intro h; simp only [reduceAtomic, hc, if_true]; exact h
  | case7 o hc => intro h; simp only [reduceAtomic, hc]; exact h
  | case8 o hc b0 rest he => intro _; simp only [reduceAtomic, hc, he, if_true]; simp [capR]
  | case9 o hc b0 rest he r hr =>
    intro h
    have hi := alt_inv sl (atomic_inv sl h)
    have hr1 := capR_reorder sl (capR_trimAfterEmpty sl hi.2)
    simp only [reduceAtomic, hc, he]
    simp only [r] at hr
    simp only [hr, if_true, Bool.false_eq_true, if_false]
    exact capR_atomic_of sl (hred _ _ (capR_alt_of sl hi.1 hr1))
  | case10 o hc b0 rest he r hr =>
    intro h
    have hi := alt_inv sl (atomic_inv sl h)
    have hr1 := capR_reorder sl (capR_trimAfterEmpty sl hi.2)
    simp only [reduceAtomic, hc, he]
    simp only [r] at hr
    simp only [hr, if_true, Bool.false_eq_true, if_false]
    exact capR_atomic_of sl (capR_alt_of sl hi.1 hr1)
  | case11 n _ _ _ _ _ => intro h; rw [reduceAtomic]; exact h; all_goals assumption

open RegexVerif.RewriteDecisions in
theorem capR_placeBump : ∀ (ia ab : Bool) (r : RNode), capR sl r = true → capR sl (RewriteDecisions.placeBump ia ab r) = true := by
  intro ia ab r
  induction ia, ab, r using RewriteDecisions.placeBump.induct with
  | case1 ia ab b ih => intro h; rw [RewriteDecisions.placeBump]; exact capR_atomic_of sl (ih (atomic_inv sl h))
  | case2 ia ab o c cs hb =>
    intro h
    have hi := cat_inv sl h
    simp only [RewriteDecisions.placeBump, hb, if_true]
    exact capR_cat_of sl hi.1 (CRs_cons sl (CRs_head sl hi.2) (CRs_cons sl (by rw [capR]) (CRs_tail sl hi.2)))
  | case3 ia ab o c cs hb ih =>
    intro h
    have hi := cat_inv sl h
    simp only [RewriteDecisions.placeBump, hb]
    exact capR_cat_of sl hi.1 (CRs_cons sl (ih (CRs_head sl hi.2)) (CRs_tail sl hi.2))
  | case4 ia ab n _ _ => intro h; rw [RewriteDecisions.placeBump]; exact h; all_goals assumption

end
end RegexVerif.Reduce
