/-
`scanCharSet` is total: the class scanner (mutual recursion `scanCharSet` / `csLoop` with fuel
`2·length + 4`) never faults and never runs out of fuel; it only moves the position forward inside the
pattern.  The pieces of the loop body are specified against a floor `p` with the next turn (`next`) and
the nested class (`sub`) as parameters; the fuel argument is an induction over the fuel with the measure
`2·(length − pos) + 1` for the loop and `+ 2` for a (nested) class.
-/
import RegexVerif.Lemmas.ParserTac

namespace RegexVerif.Parser

variable (E : Env)

attribute [local irreducible] wp

theorem scans_csFinish (ci so : Bool) (c : CS) : Scans E (csFinish E ci so c) := by
  intro s hs
  unfold csFinish
  wp_run

theorem scans_csNegate : Scans E (csNegate E) := by
  intro s hs
  unfold csNegate
  wp_run

section
variable {p : Nat} {sub : Bool → M Class.Class} {next : CS → M Class.Class}

theorem scansF_csSubtract (sub0 : M Class.Class) (hsub0 : ScansF E p 0 p sub0)
    (hnext : ∀ c, ScansF E p 0 p (next c)) (c : CS) : ScansF E p 0 p (csSubtract E sub0 next c) := by
  intro s ha hs
  unfold csSubtract
  wp_simp3
  refine wp_callF E hsub0 (by adv) (by adv) ?_ ?_ <;> wp_run

theorem scansF_csRangeEnd (hsub : ∀ so, ScansF E p 0 p (sub so)) (hnext : ∀ c, ScansF E p 0 p (next c))
    (so : Bool) (c : CS) (ch : Nat) (tr : Bool) : ScansF E p 0 p (csRangeEnd E sub next so c ch tr) := by
  intro s ha hs
  unfold csRangeEnd
  wp_run

theorem scansF_csDashBracket (hsub : ∀ so, ScansF E p 0 p (sub so)) (hnext : ∀ c, ScansF E p 0 p (next c))
    (so : Bool) (c : CS) : ScansF E p 1 p (csDashBracket E sub next so c) := by
  intro s ha hs
  unfold csDashBracket
  wp_run
  all_goals (apply wp_ignoreErr; wp_run)

theorem scansF_csTail (hsub : ∀ so, ScansF E p 0 p (sub so)) (hnext : ∀ c, ScansF E p 0 p (next c))
    (so : Bool) (c : CS) (ch : Nat) (tr : Bool) : ScansF E p 0 p (csTail E sub next so c ch tr) := by
  intro s ha hs
  unfold csTail
  wp_run

theorem scansF_csShorthand (hnext : ∀ c, ScansF E p 0 p (next c))
    (so : Bool) (o : Opts) (c : CS) (it : Class.Item) : ScansF E p 0 p (csShorthand E next so o c it) := by
  intro s ha hs
  unfold csShorthand
  wp_run

theorem scansF_csLetterP (hnext : ∀ c, ScansF E p 0 p (next c))
    (so : Bool) (c : CS) (ch : Nat) : ScansF E p 0 p (csLetterP E next so c ch) := by
  intro s ha hs
  unfold csLetterP
  wp_run

theorem scansF_csProperty (hnext : ∀ c, ScansF E p 0 p (next c))
    (ci so : Bool) (o : Opts) (c : CS) (ch : Nat) : ScansF E p 0 p (csProperty E next ci so o c ch) := by
  intro s ha hs
  unfold csProperty
  wp_run

theorem scansF_csEscape (hsub : ∀ so, ScansF E p 0 p (sub so)) (hnext : ∀ c, ScansF E p 0 p (next c))
    (ci so : Bool) (o : Opts) (c : CS) : ScansF E p 1 p (csEscape E sub next ci so o c) := by
  intro s ha hs
  unfold csEscape
  wp_run

theorem scansF_csPosix (hsub : ∀ so, ScansF E p 0 p (sub so)) (hnext : ∀ c, ScansF E p 0 p (next c))
    (so : Bool) (o : Opts) (c : CS) (ch : Nat) : ScansF E p 1 p (csPosix E sub next so o c ch) := by
  intro s ha hs
  unfold csPosix
  wp_run

theorem scansF_csBody (hsub : ∀ so, ScansF E (p + 1) 0 (p + 1) (sub so))
    (hnext : ∀ c, ScansF E (p + 1) 0 (p + 1) (next c))
    (ci so : Bool) (c : CS) : ScansF E p 0 p (csBody E sub next ci so c) := by
  intro s ha hs
  unfold csBody
  wp_run

end

/-- weakening the floor of a result that is relative to the start position -/
theorem wp_floor_weaken {α : Type} {m : M α} {s : PS} {p : Nat} (hp : p ≤ s.pos)
    (h : wp m (fun _ s' => AdvF E s.pos s s') (AdvF E s.pos s) s) :
    wp m (fun _ s' => AdvF E p s s') (AdvF E p s) s :=
  wp_mono h (fun _ _ h' => ⟨Nat.le_trans hp h'.floor, h'.inside, h'.frame, h'.names⟩)
    (fun _ h' => ⟨Nat.le_trans hp h'.floor, h'.inside, h'.frame, h'.names⟩)

/-- the fuel argument: `2·(length − pos) + 1` turns of fuel are enough for the loop at `pos`, one more
    for a class starting there -/
theorem csLoop_scanCharSet_fuel : ∀ f : Nat,
    (∀ ci so c s, s.pos ≤ E.pat.length → 2 * (E.pat.length - s.pos) + 1 ≤ f →
      wp (csLoop E f ci so c) (fun _ s' => AdvF E s.pos s s') (AdvF E s.pos s) s) ∧
    (∀ ci so s, s.pos ≤ E.pat.length → 2 * (E.pat.length - s.pos) + 2 ≤ f →
      wp (scanCharSet E f ci so) (fun _ s' => AdvF E s.pos s s') (AdvF E s.pos s) s) := by
  intro f
  induction f with
  | zero => exact ⟨fun _ _ _ _ _ h => by omega, fun _ _ _ _ h => by omega⟩
  | succ f ih =>
    obtain ⟨ihL, ihS⟩ := ih
    refine ⟨?_, ?_⟩
    · intro ci so c s hs hf
      rw [csLoop]
      refine scansF_csBody E (p := s.pos) ?_ ?_ ci so c s (Nat.le_refl _) (by omega)
      · intro so' s1 h1 h2
        exact wp_floor_weaken E h1 (ihS ci so' s1 (by omega) (by omega))
      · intro c' s1 h1 h2
        exact wp_floor_weaken E h1 (ihL ci so _ s1 (by omega) (by omega))
    · intro ci so s hs hf
      rw [scanCharSet]
      wp_simp3
      refine wp_call E (scans_csNegate E) hs ?_ ?_
      · intro neg s1 h1 h2 h3 h4
        refine wp_mono (ihL ci so _ s1 h2 (by omega)) ?_ ?_
        · intro _ s2 h; exact ⟨by have := h.floor; omega, h.inside, h.frame.trans h3, fun hn => h.names (h4 hn)⟩
        · intro s2 h; exact ⟨by have := h.floor; omega, h.inside, h.frame.trans h3, fun hn => h.names (h4 hn)⟩
      · intro s1 h1 h2 h3 h4
        exact ⟨h1, h2, h3, h4⟩

/-- **`scanCharSet` with the fuel the parser gives it is a scanner** -/
theorem scans_scanCharSet (ci so : Bool) : Scans E (scanCharSet E (2 * E.pat.length + 4) ci so) := by
  intro s hs
  exact wp_mono ((csLoop_scanCharSet_fuel E _).2 ci so s hs (by omega)) (fun _ _ h => h.toAdv) (fun _ h => h.toAdv)

end RegexVerif.Parser
