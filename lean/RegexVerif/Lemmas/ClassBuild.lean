import RegexVerif.Lemmas.ClassCanon

/-! Lemmas about the building operations of classes (C16): `addRange`, `addRanges`,
`addNegativeRanges`, `addCategories`, `addSet`, the parser's fold, case equivalences. -/
namespace RegexVerif.Class

/-- `anything`, when set, really means everything (among valid runes) on the positive side -/
def Flat.AnyOk (cat : Nat → Nat → Bool) (f : Flat) : Prop :=
  f.anything = true → ∀ ch, ch ≤ maxRune → f.pos cat ch = true

/-! ## what `canonicalize` leaves alone -/

theorem norm1_building (hs : Bool) (f : Flat) : (norm1 hs f).building = f.building := by
  unfold norm1; repeat (first | rfl | split)

theorem norm2_building (hs : Bool) (f : Flat) : (norm2 hs f).building = f.building := by
  unfold norm2; repeat (first | rfl | split)

theorem norm3_building (cat : Nat → Nat → Bool) (hs : Bool) (f : Flat) : (norm3 cat hs f).building = f.building := by
  unfold norm3; repeat (first | rfl | split)

theorem Flat.canonicalize_building (cat : Nat → Nat → Bool) (hs : Bool) (f : Flat) :
    (f.canonicalize cat hs).building = f.building := by
  unfold Flat.canonicalize
  split
  · rfl
  · simp only
    split
    · rfl
    · rw [norm3_building, norm2_building, norm1_building]

/-- while `building` is set `canonicalize` only rewrites the range list -/
theorem Flat.canonicalize_of_building (cat : Nat → Nat → Bool) (hs : Bool) (f : Flat) (hb : f.building = true) :
    f.canonicalize cat hs = { f with ranges := mergeRanges f.ranges } := by
  unfold Flat.canonicalize
  split
  · next he =>
    have : f.ranges = [] := by simpa using he
    obtain ⟨ranges, cats, neg, anything, building, ascii⟩ := f
    simp only at this
    subst this
    rfl
  · simp [hb]

/-! ## the complement construction -/

/-- what `addNegativeRanges` expects of its argument: ascending disjoint non-empty ranges, none
ending at U+10FFFE (the code tests `hi < MaxRune`, strictly) -/
def NegOk (rs : List (Nat × Nat)) : Prop :=
  rs.Pairwise (fun a b => a.2 < b.1) ∧ (∀ r ∈ rs, r.1 ≤ r.2) ∧ (∀ r ∈ rs, r.2 + 1 ≠ maxRune)

instance (rs : List (Nat × Nat)) : Decidable (NegOk rs) := by unfold NegOk; infer_instance

theorem negGo_mem (ch : Nat) (hch : ch ≤ maxRune) :
    ∀ (rs : List (Nat × Nat)) (hi : Nat), hi ≠ maxRune → (∀ r ∈ rs, hi ≤ r.1) → NegOk rs →
      inRanges (negGo hi rs) ch = (decide (hi ≤ ch) && !inRanges rs ch) := by
  intro rs
  induction rs with
  | nil =>
    intro hi hne _ _
    unfold negGo
    split
    · apply bool_eq_of_iff
      simp only [inRanges_cons, inRanges_nil, Bool.or_false, inRange_iff, Bool.not_false, Bool.and_true, decide_eq_true_eq]
      omega
    · apply bool_eq_of_iff
      simp only [inRanges_nil, Bool.not_false, Bool.and_true, decide_eq_true_eq]
      constructor
      · intro h; cases h
      · intro h; omega
  | cons r rs ih =>
    intro hi hne hlo hok
    obtain ⟨hp, hw, hm⟩ := hok
    rw [List.pairwise_cons] at hp
    have hr1 := hlo r (List.mem_cons_self ..)
    have hrw := hw r (List.mem_cons_self ..)
    have ih' := ih (r.2 + 1) (hm r (List.mem_cons_self ..)) (fun b hb => by have := hp.1 b hb; omega)
      ⟨hp.2, fun b hb => hw b (List.mem_cons_of_mem _ hb), fun b hb => hm b (List.mem_cons_of_mem _ hb)⟩
    unfold negGo
    rw [inRanges_append, ih', inRanges_cons]
    by_cases hR : inRanges rs ch = true
    · obtain ⟨b, hb, hb1, hb2⟩ := (inRanges_iff rs ch).mp hR
      have := hp.1 b hb
      have hgap : inRanges (if hi < r.1 then [(hi, r.1 - 1)] else []) ch = false := by
        split
        · apply Bool.eq_false_iff.mpr; intro h
          simp only [inRanges_cons, inRanges_nil, Bool.or_false, inRange_iff] at h
          omega
        · rfl
      simp [hR, hgap]
    · have hR' : inRanges rs ch = false := by simpa using hR
      simp only [hR', Bool.not_false, Bool.and_true, Bool.or_false]
      apply bool_eq_of_iff
      split
      · simp only [inRanges_cons, inRanges_nil, Bool.or_false, Bool.or_eq_true, inRange_iff, decide_eq_true_eq,
          Bool.and_eq_true, Bool.not_eq_true', ← Bool.not_eq_true]
        omega
      · simp only [inRanges_nil, Bool.false_or, decide_eq_true_eq, Bool.and_eq_true, Bool.not_eq_true', ← Bool.not_eq_true,
          inRange_iff]
        omega

/-! ## categories -/

theorem findCat_none (cat : Nat → Nat → Bool) (c : Nat × Bool) (cs : List (Nat × Bool)) (ch : Nat)
    (h : findCat c cs = none) : (inCats cat cs ch || catAccepts cat c ch) = true := by
  induction cs with
  | nil => simp [findCat] at h
  | cons d rest ih =>
    unfold findCat at h
    split at h
    · next hid =>
      split at h
      · next hneg =>
        simp only [inCats_cons, catAccepts]
        obtain ⟨c1, c2⟩ := c
        obtain ⟨d1, d2⟩ := d
        simp only at hid hneg ⊢
        subst hid
        cases cat c1 ch <;> cases c2 <;> cases d2 <;> simp_all
      · cases h
    · have := ih h
      simp only [inCats_cons]
      cases hA : catAccepts cat d ch <;> simp_all

theorem findCat_found (cat : Nat → Nat → Bool) (c : Nat × Bool) (cs : List (Nat × Bool)) (ch : Nat)
    (h : findCat c cs = some true) (ha : catAccepts cat c ch = true) : inCats cat cs ch = true := by
  induction cs with
  | nil => simp [findCat] at h
  | cons d rest ih =>
    unfold findCat at h
    split at h
    · next hid =>
      split at h
      · cases h
      · next hneg =>
        obtain ⟨c1, c2⟩ := c
        obtain ⟨d1, d2⟩ := d
        simp only at hid hneg
        subst hid
        have : c2 = d2 := by cases c2 <;> cases d2 <;> simp_all
        subst this
        simp [inCats_cons, ha]
    · simp [inCats_cons, ih h]

theorem addCatsGo_spec (cat : Nat → Nat → Bool) (ch : Nat) (hch : ch ≤ maxRune) :
    ∀ (cs : List (Nat × Bool)) (f : Flat),
      (addCatsGo f cs).pos cat ch = (f.pos cat ch || inCats cat cs ch) := by
  intro cs
  induction cs with
  | nil => intro f; simp [addCatsGo]
  | cons c rest ih =>
    intro f
    unfold addCatsGo
    split
    · next hn =>
      rw [makeAnything_pos cat f ch hch]
      have := findCat_none cat c f.cats ch hn
      simp only [Flat.pos, inCats_cons]
      cases inRanges f.ranges ch <;> cases hA : inCats cat f.cats ch <;> cases hB : catAccepts cat c ch <;> simp_all
    · next hn =>
      rw [ih f]
      simp only [inCats_cons]
      cases hB : catAccepts cat c ch
      · simp
      · have := findCat_found cat c f.cats ch hn hB
        simp [Flat.pos, this]
    · rw [ih]
      simp only [Flat.pos, inCats_append, inCats_cons, inCats_nil, Bool.or_false]
      cases inRanges f.ranges ch <;> cases inCats cat f.cats ch <;> cases catAccepts cat c ch <;> simp

theorem addCatsGo_fields (cs : List (Nat × Bool)) :
    ∀ (f : Flat), (addCatsGo f cs).neg = f.neg ∧ (addCatsGo f cs).building = f.building := by
  induction cs with
  | nil => intro f; exact ⟨rfl, rfl⟩
  | cons c rest ih =>
    intro f
    unfold addCatsGo
    split
    · exact ⟨rfl, rfl⟩
    · exact ih f
    · exact ih _

theorem addCatsGo_anyOk (cat : Nat → Nat → Bool) (cs : List (Nat × Bool)) :
    ∀ (f : Flat), f.AnyOk cat → (addCatsGo f cs).AnyOk cat := by
  induction cs with
  | nil => intro f h; exact h
  | cons c rest ih =>
    intro f h
    unfold addCatsGo
    split
    · intro _ ch hch; exact makeAnything_pos cat f ch hch
    · exact ih f h
    · apply ih
      intro ha ch hch
      have := h ha ch hch
      simp only [Flat.pos, inCats_append, Bool.or_eq_true] at this ⊢
      rcases this with h1 | h1
      · exact Or.inl h1
      · exact Or.inr (Or.inl h1)

/-! ## one parser step -/

/-- requirements on an item: only `[:^name:]` tables have one -/
def Item.Ok : Item → Prop
  | .negRanges rs => NegOk rs
  | _ => True

/-- the state of a class while `scanCharSet` adds items -/
structure BuildInv (cat : Nat → Nat → Bool) (neg : Bool) (f : Flat) : Prop where
  building : f.building = true
  negEq : f.neg = neg
  anyOk : f.AnyOk cat

theorem merge_step (cat : Nat → Nat → Bool) (neg : Bool) (f : Flat) (extra : List (Nat × Nat))
    (hinv : BuildInv cat neg f) :
    BuildInv cat neg (Flat.canonicalize cat false { f with ranges := f.ranges ++ extra }) ∧
    ∀ ch, ch ≤ maxRune →
      (Flat.canonicalize cat false { f with ranges := f.ranges ++ extra }).pos cat ch = (f.pos cat ch || inRanges extra ch) := by
  have hb : ({ f with ranges := f.ranges ++ extra } : Flat).building = true := hinv.building
  rw [Flat.canonicalize_of_building cat false _ hb]
  have hpos : ∀ ch, ch ≤ maxRune →
      ({ f with ranges := mergeRanges (f.ranges ++ extra) } : Flat).pos cat ch = (f.pos cat ch || inRanges extra ch) := by
    intro ch hch
    simp only [Flat.pos, mergeRanges_mem _ ch hch, inRanges_append]
    cases inRanges f.ranges ch <;> cases inRanges extra ch <;> simp
  refine ⟨⟨hinv.building, hinv.negEq, ?_⟩, hpos⟩
  intro ha ch hch
  rw [hpos ch hch, hinv.anyOk ha ch hch]; rfl

theorem addItem_spec (cat : Nat → Nat → Bool) (neg : Bool) (f : Flat) (it : Item)
    (hinv : BuildInv cat neg f) (hok : it.Ok) :
    BuildInv cat neg (f.addItem cat it) ∧
    ∀ ch, ch ≤ maxRune → (f.addItem cat it).pos cat ch = (f.pos cat ch || it.mem cat ch) := by
  cases it with
  | range lo hi =>
    obtain ⟨h1, h2⟩ := merge_step cat neg f [(lo, hi)] hinv
    refine ⟨h1, fun ch hch => ?_⟩
    have := h2 ch hch
    simp only [inRanges_cons, inRanges_nil, Bool.or_false] at this
    exact this
  | ranges rs =>
    simp only [Flat.addItem, Flat.addRanges, Item.mem]
    split
    · next ha =>
      refine ⟨hinv, fun ch hch => ?_⟩
      rw [hinv.anyOk ha ch hch]; rfl
    · exact merge_step cat neg f rs hinv
  | negRanges rs =>
    simp only [Flat.addItem, Flat.addNegativeRanges, Item.mem]
    split
    · next ha =>
      refine ⟨hinv, fun ch hch => ?_⟩
      rw [hinv.anyOk ha ch hch]; rfl
    · obtain ⟨h1, h2⟩ := merge_step cat neg f (negGo 0 rs) hinv
      refine ⟨h1, fun ch hch => ?_⟩
      rw [h2 ch hch, negGo_mem ch hch rs 0 (by decide) (fun _ _ => Nat.zero_le _) hok]
      simp
  | cats cs =>
    simp only [Flat.addItem, Flat.addCategories, Item.mem]
    split
    · next ha =>
      refine ⟨hinv, fun ch hch => ?_⟩
      rw [hinv.anyOk ha ch hch]; rfl
    · obtain ⟨hn, hb⟩ := addCatsGo_fields cs f
      refine ⟨⟨hb ▸ hinv.building, hn ▸ hinv.negEq, addCatsGo_anyOk cat cs f hinv.anyOk⟩, fun ch hch => ?_⟩
      exact addCatsGo_spec cat ch hch cs f

theorem foldl_addItem_spec (cat : Nat → Nat → Bool) (neg : Bool) :
    ∀ (items : List Item) (f : Flat), BuildInv cat neg f → (∀ it ∈ items, it.Ok) →
      BuildInv cat neg (items.foldl (Flat.addItem cat) f) ∧
      ∀ ch, ch ≤ maxRune →
        (items.foldl (Flat.addItem cat) f).pos cat ch = (f.pos cat ch || items.any (fun it => it.mem cat ch)) := by
  intro items
  induction items with
  | nil => intro f hinv _; exact ⟨hinv, fun ch _ => by simp⟩
  | cons it rest ih =>
    intro f hinv hok
    obtain ⟨h1, h2⟩ := addItem_spec cat neg f it hinv (hok it (List.mem_cons_self ..))
    obtain ⟨h3, h4⟩ := ih (f.addItem cat it) h1 (fun x hx => hok x (List.mem_cons_of_mem _ hx))
    refine ⟨h3, fun ch hch => ?_⟩
    rw [List.foldl_cons, h4 ch hch, h2 ch hch, List.any_cons, Bool.or_assoc]

/-! ## well-formed ranges are kept -/

/-- every range is a non-empty interval -/
def Flat.Wf (f : Flat) : Prop := ∀ r ∈ f.ranges, r.1 ≤ r.2

def Item.Wf : Item → Prop
  | .range lo hi => lo ≤ hi
  | .ranges rs => ∀ r ∈ rs, r.1 ≤ r.2
  | _ => True

theorem Flat.canonicalize_wf (cat : Nat → Nat → Bool) (hs : Bool) (f : Flat) (h : f.Wf) :
    (f.canonicalize cat hs).Wf := (Flat.canonicalize_canon cat hs f h).2

theorem negGo_wf : ∀ (rs : List (Nat × Nat)) (hi : Nat), ∀ r ∈ negGo hi rs, r.1 ≤ r.2 := by
  intro rs
  induction rs with
  | nil =>
    intro hi r hr
    unfold negGo at hr
    split at hr
    · simp at hr; subst hr; simp only; omega
    · cases hr
  | cons a rs ih =>
    intro hi r hr
    unfold negGo at hr
    rcases List.mem_append.mp hr with h | h
    · split at h
      · simp at h; subst h; simp only; omega
      · cases h
    · exact ih _ r h

theorem addCatsGo_wf (cs : List (Nat × Bool)) : ∀ (f : Flat), f.Wf → (addCatsGo f cs).Wf := by
  induction cs with
  | nil => intro f h; exact h
  | cons c rest ih =>
    intro f h
    unfold addCatsGo
    split
    · intro r hr; simp [Flat.makeAnything] at hr; subst hr; simp
    · exact ih f h
    · exact ih _ h

theorem addItem_wf (cat : Nat → Nat → Bool) (f : Flat) (it : Item) (h : f.Wf) (hi : it.Wf) (hok : it.Ok) :
    (f.addItem cat it).Wf := by
  have app : ∀ extra : List (Nat × Nat), (∀ r ∈ extra, r.1 ≤ r.2) →
      (Flat.canonicalize cat false { f with ranges := f.ranges ++ extra }).Wf := by
    intro extra he
    apply Flat.canonicalize_wf
    intro r hr
    rcases List.mem_append.mp hr with h1 | h1
    · exact h r h1
    · exact he r h1
  cases it with
  | range lo hi' => exact app [(lo, hi')] (by intro r hr; simp at hr; subst hr; exact hi)
  | ranges rs =>
    simp only [Flat.addItem, Flat.addRanges]
    split
    · exact h
    · exact app rs hi
  | negRanges rs =>
    simp only [Flat.addItem, Flat.addNegativeRanges]
    split
    · exact h
    · exact app _ (negGo_wf rs 0)
  | cats cs =>
    simp only [Flat.addItem, Flat.addCategories]
    split
    · exact h
    · exact addCatsGo_wf cs f h

theorem foldl_addItem_wf (cat : Nat → Nat → Bool) :
    ∀ (items : List Item) (f : Flat), f.Wf → (∀ it ∈ items, it.Wf ∧ it.Ok) →
      (items.foldl (Flat.addItem cat) f).Wf := by
  intro items
  induction items with
  | nil => intro f h _; exact h
  | cons it rest ih =>
    intro f h hok
    have := hok it (List.mem_cons_self ..)
    exact ih _ (addItem_wf cat f it h this.1 this.2) (fun x hx => hok x (List.mem_cons_of_mem _ hx))

/-! ## `addSet` -/

theorem Flat.addSet_mem (cat : Nat → Nat → Bool) (hs : Bool) (f s : Flat) (hf : f.AnyOk cat) (hsa : s.AnyOk cat)
    (ch : Nat) (hch : ch ≤ maxRune) :
    (f.addSet cat hs s).memAlg cat ch = ((f.pos cat ch || s.pos cat ch) != f.neg) := by
  unfold Flat.addSet
  split
  · next ha => simp [Flat.memAlg, hf ha ch hch]
  · split
    · next hb =>
      simp only [Flat.memAlg, makeAnything_pos cat f ch hch, hsa hb ch hch, Bool.or_true]
      rfl
    · next ha hb =>
      rw [Flat.canonicalize_mem cat hs _ ch hch]
      unfold Flat.addCategories
      have haf : f.anything = false := by simpa using ha
      simp only [haf, Bool.false_eq_true, if_false]
      simp only [Flat.memAlg, addCatsGo_spec cat ch hch, (addCatsGo_fields s.cats _).1]
      simp only [Flat.pos, inRanges_append]
      cases inRanges f.ranges ch <;> cases inRanges s.ranges ch <;> cases inCats cat f.cats ch <;> simp

/-! ## case equivalences -/

/-- some member of some range has `ch` among its case equivalents -/
def foldHit (orbit : Nat → List Nat) (rs : List (Nat × Nat)) (ch : Nat) : Bool :=
  inRanges (caseEquivRanges orbit rs) ch

theorem foldHit_iff (orbit : Nat → List Nat) (rs : List (Nat × Nat)) (ch : Nat) :
    foldHit orbit rs ch = true ↔ ∃ r ∈ rs, ∃ i, r.1 ≤ i ∧ i ≤ r.2 ∧ ch ∈ orbit i := by
  unfold foldHit caseEquivRanges
  rw [inRanges_iff]
  simp only [List.mem_flatMap, List.mem_map, List.mem_range']
  constructor
  · rintro ⟨x, ⟨r, hr, i, ⟨k, hk, rfl⟩, e, he, rfl⟩, h1, h2⟩
    refine ⟨r, hr, r.1 + 1 * k, by omega, by omega, ?_⟩
    have : ch = e := by simp only at h1 h2; omega
    subst this; exact he
  · rintro ⟨r, hr, i, h1, h2, he⟩
    exact ⟨(ch, ch), ⟨r, hr, i, ⟨i - r.1, by omega, by omega⟩, ch, he, rfl⟩, Nat.le_refl _, Nat.le_refl _⟩

/-- membership of one level after `addCaseEquivalences` -/
def Flat.memFold (cat : Nat → Nat → Bool) (orbit : Nat → List Nat) (f : Flat) (ch : Nat) : Bool :=
  (f.pos cat ch || foldHit orbit f.ranges ch) != f.neg

/-- the specification of a case-insensitive class: every level is closed under case equivalence on
its code-point side, then negated, then the (likewise folded) subtractor is removed -/
def memAlgFold (cat : Nat → Nat → Bool) (orbit : Nat → List Nat) : Class → Nat → Bool
  | .leaf f, ch => f.memFold cat orbit ch
  | .minus f s, ch => f.memFold cat orbit ch && !(memAlgFold cat orbit s ch)

theorem Flat.addCaseEquivalences_mem (cat : Nat → Nat → Bool) (orbit : Nat → List Nat) (hs : Bool) (f : Flat)
    (hf : f.AnyOk cat) (ch : Nat) (hch : ch ≤ maxRune) :
    (f.addCaseEquivalences cat orbit hs).memAlg cat ch = f.memFold cat orbit ch := by
  unfold Flat.addCaseEquivalences Flat.memFold
  split
  · next ha => simp [Flat.memAlg, hf ha ch hch]
  · rw [Flat.canonicalize_mem cat hs _ ch hch]
    simp only [Flat.memAlg, Flat.pos, inRanges_append, foldHit]
    cases inRanges f.ranges ch <;> cases inCats cat f.cats ch <;> simp

/-- `anything` is truthful on every level -/
def Class.AnyOk (cat : Nat → Nat → Bool) : Class → Prop
  | .leaf f => f.AnyOk cat
  | .minus f s => f.AnyOk cat ∧ Class.AnyOk cat s

theorem Class.addCaseEquivalences_mem (cat : Nat → Nat → Bool) (orbit : Nat → List Nat) (c : Class)
    (hc : Class.AnyOk cat c) (ch : Nat) (hch : ch ≤ maxRune) :
    memAlg cat (Class.addCaseEquivalences cat orbit c) ch = memAlgFold cat orbit c ch := by
  induction c with
  | leaf f => exact Flat.addCaseEquivalences_mem cat orbit false f hc ch hch
  | minus f s ih =>
    simp only [Class.addCaseEquivalences, memAlg, memAlgFold, ih hc.2,
      Flat.addCaseEquivalences_mem cat orbit true f hc.1 ch hch]

end RegexVerif.Class
