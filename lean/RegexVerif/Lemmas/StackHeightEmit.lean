/-
The closed-form bound on the height of the grouping-stack typing of emitted programs.

Every slot of a type `tyAt` assigns inside the code of a sub-tree was pushed by a frame of an enclosing node
(`Setmark`/`Nullmark`: 1 slot; `Setcount`/`Nullcount`: 2; `Setjump`: 2; `Setjump; Setmark`: 3), and every such frame
consists of at least as many instructions counted by `opcodeBacktracks` as half its slots:

  node                       slots around the child   counted instructions of the frame
  Capture                    1                        Setmark, Capturemark
  Loop, no counter, min ≥ 1  1                        Setmark, Branchmark
  Loop, no counter, min 0    1                        (Nullmark is NOT counted) Goto, Branchmark
  Loop with counter          2                        Setcount | Nullcount (+ Goto), Branchcount
  PosLook                    3                        Setjump, Setmark, Getmark, Forejump
  NegLook                    2                        Setjump, Lazybranch, Backjump, Forejump
  Atomic                     2                        Setjump, Forejump
  BackRefCond                2 (own instructions)     Setjump, Lazybranch, Forejump, Goto, Forejump
  ExprCond                   3                        Setjump, Setmark, Lazybranch, Getmark, Forejump, …

Hence `height (tyAt cfg a σ n q) ≤ height σ + 2 · trackCount (code of n)` (`tyAt_height`), and for the whole program
(`Lazybranch; root; Stop`, the leading `Lazybranch` is counted) `height + 2 ≤ 2·TrackCount ≤ 4·TrackCount`
(`progFn_height`).  The bool-only program keeps the first program's `TrackCount`, which is at least the number of its own
backtracking instructions (`codeFromTree_tc_le`).
-/
import RegexVerif.Lemmas.StackTypingEmit
import RegexVerif.Lemmas.StackCapacity

namespace RegexVerif.Lemmas.StackHeightEmit
open RegexVerif RegexVerif.Code RegexVerif.Writer RegexVerif.StackTyping RegexVerif.Generated.Opcodes
open RegexVerif.Lemmas.Compose RegexVerif.Lemmas.StackTypingEmit RegexVerif.Lemmas.StackCapacity
open RegexVerif.Lemmas.StackTypingSound

/-- which of the framing opcodes `opcodeBacktracks` counts (regenerated table): all but `Nullmark` -/
theorem tcw_frames :
    tcw opSetmark = 1 ∧ tcw opNullmark = 0 ∧ tcw opSetcount = 1 ∧ tcw opNullcount = 1 ∧ tcw opSetjump = 1 ∧
    tcw opGoto = 1 ∧ tcw opLazybranch = 1 ∧ tcw opCapturemark = 1 ∧ tcw opBranchmark = 1 ∧ tcw (opBranchmark + 1) = 1 ∧
    tcw opBranchcount = 1 ∧ tcw (opBranchcount + 1) = 1 := by decide

theorem tcw_branchmark (lzy : Bool) : tcw (opBranchmark + (if lzy then 1 else 0)) = 1 := by cases lzy <;> decide
theorem tcw_branchcount (lzy : Bool) : tcw (opBranchcount + (if lzy then 1 else 0)) = 1 := by cases lzy <;> decide

syntax "tcw_norm" : tactic
macro_rules | `(tactic| tcw_norm) => `(tactic|
  simp only [tcw_frames.1, tcw_frames.2.1, tcw_frames.2.2.1, tcw_frames.2.2.2.1, tcw_frames.2.2.2.2.1,
    tcw_frames.2.2.2.2.2.1, tcw_frames.2.2.2.2.2.2.1, tcw_frames.2.2.2.2.2.2.2.1, tcw_branchmark, tcw_branchcount] at *)

theorem repTy_height {a : Nat} {σ τ : STy} {m n : Int} {q : Nat} (h : repTy a σ m n q = some τ) : τ = σ := by
  unfold repTy at h
  by_cases hc : (m > 0 ∧ q = a) ∨ (n > m ∧ q = a + (if m > 0 then 3 else 0))
  · rw [if_pos hc] at h; cases h; rfl
  · rw [if_neg hc] at h; cases h

/-- case split on an `if` that yields a type (`split at` runs out of steps on the eleven nested `if`s of `ExprCond`) -/
theorem ite_imp {c : Prop} [Decidable c] {x y : Option STy} {τ : STy} {P : Prop}
    (h1 : c → x = some τ → P) (h2 : ¬ c → y = some τ → P) : (if c then x else y) = some τ → P := by
  by_cases hc : c
  · rw [if_pos hc]; exact h1 hc
  · rw [if_neg hc]; exact h2 hc

mutual
/-- **height of the explicit typing**: inside the code of a sub-tree entered with `σ`, every assigned type is at most
    `2 · (number of backtracking instructions of that code)` slots higher than `σ` -/
theorem tyAt_height (cfg : Cfg) : ∀ (n : GoNode) (a : Nat) (tb : Tables) (σ : STy) (q : Nat) (τ : STy),
    tyAt cfg a σ n q = some τ → τ.length ≤ σ.length + 2 * trackCount (emitNode cfg a tb n).1
  | .empty, a, tb, σ, q, τ, h => by simp [tyAt] at h
  | .bare t, a, tb, σ, q, τ, h => by
    simp only [tyAt] at h; split at h <;> cases h; omega
  | .char t rtl ci ch, a, tb, σ, q, τ, h => by
    simp only [tyAt] at h; split at h <;> cases h; omega
  | .set rtl ci s, a, tb, σ, q, τ, h => by
    simp only [tyAt] at h; split at h <;> cases h; omega
  | .multi rtl ci s, a, tb, σ, q, τ, h => by
    simp only [tyAt] at h; split at h <;> cases h; omega
  | .ref rtl ci m, a, tb, σ, q, τ, h => by
    simp only [tyAt] at h; split at h <;> cases h; omega
  | .charloop t rtl ci ch m n, a, tb, σ, q, τ, h => by
    simp only [tyAt] at h; rw [repTy_height h]; omega
  | .setloop t rtl ci s m n, a, tb, σ, q, τ, h => by
    simp only [tyAt] at h; rw [repTy_height h]; omega
  | .concat cs, a, tb, σ, q, τ, h => by
    simp only [tyAt] at h; simp only [emitNode]; exact tyList_height cfg cs a tb σ q τ h
  | .alt cs, a, tb, σ, q, τ, h => by
    simp only [tyAt] at h; simp only [emitNode]; exact tyAlt_height cfg cs a _ tb σ q τ h
  | .group c, a, tb, σ, q, τ, h => by
    simp only [tyAt] at h; simp only [emitNode]; exact tyAt_height cfg c a tb σ q τ h
  | .capture m n c, a, tb, σ, q, τ, h => by
    simp only [tyAt] at h
    simp only [emitNode]
    split at h
    · next he =>
      have ih := tyAt_height cfg c (a + 1) tb (.pos :: σ) q τ
      simp only [he, ite_true]
      generalize (emitNode cfg (a + 1) tb c).1 = C at *
      tc_norm; tcw_norm
      simp only [List.length_cons] at ih
      split at h
      · cases h; omega
      · split at h
        · cases h; simp only [List.length_cons]; omega
        · split at h
          · have := ih h; omega
          · cases h
    · next he =>
      simp only [he]
      exact tyAt_height cfg c a tb σ q τ h
  | .other t, a, tb, σ, q, τ, h => by simp [tyAt] at h
  | .poslook c, a, tb, σ, q, τ, h => by
    have ih := tyAt_height cfg c (a + 2) tb (.pos :: cdt σ) q τ
    simp only [tyAt] at h
    simp only [emitNode]
    generalize (emitNode cfg (a + 2) tb c).1 = C at *
    tc_norm; tcw_norm
    simp only [List.length_cons] at ih
    repeat' (split at h)
    all_goals first
      | (cases h; (try simp only [List.length_cons]); omega)
      | (have := ih h; omega)
      | cases h
  | .neglook c, a, tb, σ, q, τ, h => by
    have ih := tyAt_height cfg c (a + 3) tb (cdt σ) q τ
    simp only [tyAt] at h
    simp only [emitNode]
    generalize (emitNode cfg (a + 3) tb c).1 = C at *
    tc_norm; tcw_norm
    simp only [List.length_cons] at ih
    repeat' (split at h)
    all_goals first
      | (cases h; (try simp only [List.length_cons]); omega)
      | (have := ih h; omega)
      | cases h
  | .atomic c, a, tb, σ, q, τ, h => by
    have ih := tyAt_height cfg c (a + 1) tb (cdt σ) q τ
    simp only [tyAt] at h
    simp only [emitNode]
    generalize (emitNode cfg (a + 1) tb c).1 = C at *
    tc_norm; tcw_norm
    simp only [List.length_cons] at ih
    repeat' (split at h)
    all_goals first
      | (cases h; (try simp only [List.length_cons]); omega)
      | (have := ih h; omega)
      | cases h
  | .backrefcond1 m y, a, tb, σ, q, τ, h => by
    have ih := tyAt_height cfg y (a + 6) tb σ q τ
    simp only [tyAt] at h
    simp only [emitNode]
    generalize (emitNode cfg (a + 6) tb y).1 = C at *
    tc_norm; tcw_norm
    repeat' (split at h)
    all_goals first
      | (cases h; (try simp only [List.length_cons]); omega)
      | (have := ih h; omega)
      | cases h
  | .backrefcond2 m y n, a, tb, σ, q, τ, h => by
    have ih := tyAt_height cfg y (a + 6) tb σ q τ
    have ih2 := tyAt_height cfg n (a + 6 + size cfg y + 3) (emitNode cfg (a + 6) tb y).2 σ q τ
    simp only [tyAt] at h
    simp only [emitNode]
    generalize (emitNode cfg (a + 6 + size cfg y + 3) (emitNode cfg (a + 6) tb y).2 n).1 = C2 at *
    generalize (emitNode cfg (a + 6) tb y).1 = C at *
    tc_norm; tcw_norm
    repeat' (split at h)
    all_goals first
      | (cases h; (try simp only [List.length_cons]); omega)
      | (have := ih h; omega)
      | (have := ih2 h; omega)
      | cases h
  | .exprcond2 c y, a, tb, σ, q, τ, h => by
    have ih := tyAt_height cfg c (a + 4) tb (.pos :: cdt σ) q τ
    have ih2 := tyAt_height cfg y (a + 4 + size cfg c + 2) (emitNode cfg (a + 4) tb c).2 σ q τ
    simp only [tyAt] at h
    simp only [emitNode]
    generalize (emitNode cfg (a + 4 + size cfg c + 2) (emitNode cfg (a + 4) tb c).2 y).1 = C2 at *
    generalize (emitNode cfg (a + 4) tb c).1 = C at *
    tc_norm; tcw_norm
    simp only [List.length_cons] at ih
    repeat' (split at h)
    all_goals first
      | (cases h; (try simp only [List.length_cons]); omega)
      | (have := ih h; omega)
      | (have := ih2 h; omega)
      | cases h
  | .exprcond3 c y n, a, tb, σ, q, τ, h => by
    have ih := tyAt_height cfg c (a + 4) tb (.pos :: cdt σ) q τ
    have ih2 := tyAt_height cfg y (a + 4 + size cfg c + 2) (emitNode cfg (a + 4) tb c).2 σ q τ
    have ih3 := tyAt_height cfg n (a + 4 + size cfg c + 2 + size cfg y + 4)
      (emitNode cfg (a + 4 + size cfg c + 2) (emitNode cfg (a + 4) tb c).2 y).2 σ q τ
    simp only [tyAt] at h
    simp only [emitNode]
    generalize (emitNode cfg (a + 4 + size cfg c + 2 + size cfg y + 4)
      (emitNode cfg (a + 4 + size cfg c + 2) (emitNode cfg (a + 4) tb c).2 y).2 n).1 = C3 at *
    generalize (emitNode cfg (a + 4 + size cfg c + 2) (emitNode cfg (a + 4) tb c).2 y).1 = C2 at *
    generalize (emitNode cfg (a + 4) tb c).1 = C at *
    tc_norm; tcw_norm
    simp only [List.length_cons] at ih
    revert h
    repeat' (refine ite_imp (fun _ => ?_) (fun _ => ?_))
    all_goals intro h
    all_goals first
      | (cases h; (try simp only [List.length_cons]); omega)
      | (have := ih h; omega)
      | (have := ih2 h; omega)
      | (have := ih3 h; omega)
      | cases h
  | .loop lzy m n c, a, tb, σ, q, τ, h => by
    have ih1 := tyAt_height cfg c (a + loopHeadLen m n) tb (.count :: .pos :: σ) q τ
    have ih2 := tyAt_height cfg c (a + loopHeadLen m n) tb (.pos :: σ) q τ
    simp only [tyAt] at h
    simp only [emitNode]
    generalize (emitNode cfg (a + loopHeadLen m n) tb c).1 = C at *
    simp only [List.length_cons] at ih1 ih2
    cases hcn : counted m n <;> by_cases hm : (m == 0) = true <;>
      simp only [hcn, hm, ite_true, ite_false, Bool.false_eq_true, true_and, false_and, List.append_nil] at h ⊢ <;>
      tc_norm <;> tcw_norm <;>
      (repeat' (split at h)) <;>
      first
        | (cases h; (try simp only [List.length_cons]); omega)
        | (have := ih1 h; omega)
        | (have := ih2 h; omega)
        | cases h
theorem tyList_height (cfg : Cfg) : ∀ (cs : List GoNode) (a : Nat) (tb : Tables) (σ : STy) (q : Nat) (τ : STy),
    tyList cfg a σ cs q = some τ → τ.length ≤ σ.length + 2 * trackCount (emitList cfg a tb cs).1
  | [], a, tb, σ, q, τ, h => by simp [tyList] at h
  | c :: cs, a, tb, σ, q, τ, h => by
    have ih := tyAt_height cfg c a tb σ q τ
    have ih2 := tyList_height cfg cs (a + size cfg c) (emitNode cfg a tb c).2 σ q τ
    simp only [tyList] at h
    simp only [emitList]
    tc_norm
    split at h
    · have := ih h; omega
    · have := ih2 h; omega
theorem tyAlt_height (cfg : Cfg) : ∀ (cs : List GoNode) (a fin : Nat) (tb : Tables) (σ : STy) (q : Nat) (τ : STy),
    tyAlt cfg a σ cs q = some τ → τ.length ≤ σ.length + 2 * trackCount (emitAlt cfg a fin tb cs).1
  | [], a, fin, tb, σ, q, τ, h => by simp [tyAlt] at h
  | c :: cs, a, fin, tb, σ, q, τ, h => by
    simp only [tyAlt] at h
    simp only [emitAlt]
    by_cases he : cs.isEmpty = true
    · simp only [he, ite_true] at h ⊢
      exact tyAt_height cfg c a tb σ q τ h
    · have ih := tyAt_height cfg c (a + 2) tb σ q τ
      have ih2 := tyAlt_height cfg cs (a + 2 + size cfg c + 2) fin (emitNode cfg (a + 2) tb c).2 σ q τ
      simp only [he, Bool.false_eq_true, ite_false] at h ⊢
      tc_norm
      repeat' (split at h)
      all_goals first
        | (cases h; omega)
        | (have := ih h; omega)
        | (have := ih2 h; omega)
end

/-! ### the whole program -/

/-- the types of the program `Lazybranch; root; Stop`: the leading `Lazybranch` is counted and pushes nothing -/
theorem progFn_height (cfg : Cfg) (root : GoNode) {q : Nat} {τ : STy} (h : progFn cfg root q = some τ) :
    τ.length + 2 ≤ 2 * trackCount (codeFromTree cfg root).1 := by
  have ih := tyAt_height cfg root 2 ⟨[], []⟩ [] q τ
  simp only [codeFromTree]
  generalize (emitNode cfg 2 ⟨[], []⟩ root).1 = C at *
  tc_norm; tcw_norm
  simp only [List.length_nil] at ih
  unfold progFn at h
  repeat' (split at h)
  all_goals first
    | (cases h; simp only [List.length_nil]; omega)
    | (have := ih h; omega)
    | cases h

theorem arrOf_hbound (F : Fn) (N H : Nat) (hF : ∀ q τ, F q = some τ → τ.length ≤ H) : HBound (arrOf F N) H := by
  intro q S h
  by_cases hq : q < N
  · rw [arrOf_get F N q hq] at h; exact hF q S h
  · simp [arrOf, Assign.get, hq] at h

/-- `codeFromTree_typing` with the height of the assignment: every assigned type is at least 2 slots lower than twice
    the number of backtracking instructions of the code -/
theorem codeFromTree_typing_height (cfg : Cfg) (cs : Nat) (root : GoNode) (hok : root.ok = true)
    (hcaps : capsOk cfg cs root = true) (s : Array (List Nat)) (n t : Nat) (cp r) :
    ∃ bs a H, (progOf (codeFromTree cfg root).1 s n t cs cp r).boundaries = some bs ∧
      TypingW (progOf (codeFromTree cfg root).1 s n t cs cp r) bs a ∧ HBound a H ∧
      H + 2 ≤ 2 * trackCount (codeFromTree cfg root).1 := by
  have ha : ∀ i ∈ (codeFromTree cfg root).1, i.arityOk = true := by
    intro i hi
    have := codeFromTree_local cfg cs root hok hcaps i hi
    simp only [Instr.localOk, Bool.and_eq_true] at this
    exact this.1.1.1.1
  have h0 : 2 ≤ 2 * trackCount (codeFromTree cfg root).1 := by
    have := progFn_height cfg root (q := 0) (τ := []) (by simp [progFn])
    simpa using this
  refine ⟨istarts 0 (codeFromTree cfg root).1, arrOf (progFn cfg root) (codeLen (codeFromTree cfg root).1),
    2 * trackCount (codeFromTree cfg root).1 - 2, boundaries_progOf _ s n t cs cp r ha, ?_, ?_, by omega⟩
  · refine typingW_progOf _ (progFn cfg root) s n t cs cp r (codeFromTree_word cfg root hok) (by simp [progFn]) ?_
      (codeFromTree_codeTy cfg root hok)
    intro q τ h
    rw [codeFromTree_len]
    exact progFn_bound cfg root h
  · exact arrOf_hbound _ _ _ (fun q τ h => by have := progFn_height cfg root h; omega)

/-- **closed-form height bound of the main program**: `emit ti root` has a grouping-stack typing all of whose types have
    height at most `H` with `H + 2 ≤ 2·TrackCount` -/
theorem emit_height_le (ti : TreeInfo) (root : GoNode) (h : treeWf ti root = true) :
    ∃ bs a H, (emit ti root).boundaries = some bs ∧ TypingW (emit ti root) bs a ∧ HBound a H ∧
      H + 2 ≤ 2 * (emit ti root).trackcount := by
  simp only [treeWf, Bool.and_eq_true] at h
  obtain ⟨⟨hok, hcaps⟩, _⟩ := h
  rw [emit_eq_progOf]
  exact codeFromTree_typing_height (mainCfg ti) (capsize ti) root hok hcaps _ _ _ _ _

/-- the same for the bool-only program: its `TrackCount` is the first program's, which is at least the number of
    backtracking instructions of the second writer's code -/
theorem emitQuick_height_le (ti : TreeInfo) (root : GoNode) (h : treeWf ti root = true) (qp : Prog)
    (hq : emitQuick ti root = some qp) :
    ∃ bs a H, qp.boundaries = some bs ∧ TypingW qp bs a ∧ HBound a H ∧ H + 2 ≤ 2 * qp.trackcount := by
  simp only [treeWf, Bool.and_eq_true] at h
  obtain ⟨⟨hok, hcaps⟩, _⟩ := h
  have e := emitQuick_eq_progOf ti root qp hq
  have htc : qp.trackcount = trackCount (mainCode ti root) := by rw [e]; rfl
  rw [htc, e]
  obtain ⟨bs, a, H, h1, h2, h3, h4⟩ := codeFromTree_typing_height (quickCfg ti root) (capsize ti) root hok
    (by rw [← hcaps]; exact capsOk_quick _ _ _ root) (codeFromTree (mainCfg ti) root).2.strings.toArray
    (codeFromTree (mainCfg ti) root).2.sets.length (trackCount (mainCode ti root)) ((writerCaps ti).2.getD []) ti.rtl
  refine ⟨bs, a, H, h1, h2, h3, ?_⟩
  have := codeFromTree_tc_le (writerCaps ti).2 (slotsInUse ti root) root
  show H + 2 ≤ 2 * trackCount (codeFromTree (mainCfg ti) root).1
  have e1 : quickCfg ti root = ⟨(writerCaps ti).2, some (slotsInUse ti root)⟩ := rfl
  have e2 : mainCfg ti = ⟨(writerCaps ti).2, none⟩ := rfl
  rw [e1] at h4
  rw [e2]
  omega

/-- the real first allocation `initMatch` makes has room for the deepest grouping stack plus the `4·TrackCount` free
    slots `ensureStorage` asks for -/
theorem stackAlloc0_room {H tc : Nat} (h : H + 2 ≤ 2 * tc) : H + 2 + tc * 4 ≤ Capacity.stackAlloc0 tc := by
  have := (stackAlloc0_ge tc).2
  omega

/-- `n` iterations from `s` with the length of `runstack` (the modelled `if` of `ensureStorage` at every storage check);
    used to exhibit concrete reachable states in the non-vacuity examples of Props/C13 -/
def stackRunN (tc : Nat) (p : Prog) (env : VM.Env) : Nat → VM.VMState → Nat → Option (VM.VMState × Nat)
  | 0, s, cap => some (s, cap)
  | n + 1, s, cap =>
    match VM.step p env s with
    | .next s' chk => stackRunN tc p env n s' (if chk then Capacity.stackEnsure tc cap s'.stack.length else cap)
    | _ => none

end RegexVerif.Lemmas.StackHeightEmit
