/-
Helper lemmas about the buffer-pool model (`Model/Pool.lean`).
-/
import RegexVerif.Model.Pool

namespace RegexVerif.Lemmas.Pool
open RegexVerif.Pool

/-- what `poolIndexFrom` returns is an index (offset by the start) of a class that fits, within a
    positive `max`, and every earlier class is too small -/
theorem poolIndexFrom_spec (needed : Nat) (max : Int) :
    ∀ (cs : List Nat) (i r : Nat), poolIndexFrom needed max cs i = some r →
      i ≤ r ∧ r - i < cs.length ∧ needed ≤ cs.getD (r - i) 0 ∧ (max > 0 → (cs.getD (r - i) 0 : Int) ≤ max) ∧
      ∀ j, j < r - i → cs.getD j 0 < needed := by
  intro cs
  induction cs with
  | nil => intro i r h; simp [poolIndexFrom] at h
  | cons c cs ih =>
    intro i r h
    simp only [poolIndexFrom] at h
    by_cases hc : needed ≤ c
    · simp only [hc, if_true] at h
      by_cases hm : max > 0 ∧ (c : Int) > max
      · simp [hm] at h
      · simp only [hm, if_false, Option.some.injEq] at h
        subst h
        refine ⟨Nat.le_refl _, by simp, by simpa using hc, ?_, by intro j hj; omega⟩
        intro hpos
        simp only [Nat.sub_self, List.getD_cons_zero]
        have : ¬ (c : Int) > max := fun h' => hm ⟨hpos, h'⟩
        omega
    · simp only [hc, if_false] at h
      obtain ⟨h1, h2, h3, h4, h5⟩ := ih (i + 1) r h
      have e : r - i = (r - (i + 1)) + 1 := by omega
      refine ⟨by omega, by simp only [List.length_cons]; omega, ?_, ?_, ?_⟩
      · rw [e, List.getD_cons_succ]; exact h3
      · rw [e, List.getD_cons_succ]; exact h4
      · intro j hj
        cases j with
        | zero => simp only [List.getD_cons_zero]; omega
        | succ j => rw [List.getD_cons_succ]; exact h5 j (by omega)

theorem poolIndex_spec {sizes : List Nat} {needed : Nat} {max : Int} {r : Nat}
    (h : poolIndex sizes needed max = some r) :
    max ≠ 0 ∧ r < sizes.length ∧ needed ≤ sizes.getD r 0 ∧ (max > 0 → (sizes.getD r 0 : Int) ≤ max) ∧
    ∀ j, j < r → sizes.getD j 0 < needed := by
  unfold poolIndex at h
  by_cases hm : max = 0
  · simp [hm] at h
  · simp only [hm, if_false] at h
    have := poolIndexFrom_spec needed max sizes 0 r h
    simpa [hm] using this

/-- in a strictly ascending class list, a capacity equal to class `i` is filed under class `i` -/
theorem poolIndexFrom_self (max : Int) (hmax : max < 0) :
    ∀ (cs : List Nat) (i k : Nat), cs.Pairwise (· < ·) → k < cs.length →
      poolIndexFrom (cs.getD k 0) max cs i = some (i + k) := by
  intro cs
  induction cs with
  | nil => intro i k _ hk; simp at hk
  | cons c cs ih =>
    intro i k hs hk
    have hs' := List.pairwise_cons.mp hs
    cases k with
    | zero =>
      simp only [List.getD_cons_zero, poolIndexFrom, Nat.le_refl, if_true, Nat.add_zero]
      have : ¬ (max > 0 ∧ (c : Int) > max) := by omega
      simp [this]
    | succ k =>
      simp only [List.getD_cons_succ, poolIndexFrom]
      have hk' : k < cs.length := by simpa using hk
      have hlt : c < cs.getD k 0 := by
        have : cs.getD k 0 = cs[k] := by simp [List.getD, hk']
        rw [this]; exact hs'.1 _ (List.getElem_mem hk')
      have : ¬ cs.getD k 0 ≤ c := by omega
      simp only [this, if_false]
      rw [ih (i + 1) k hs'.2 hk']
      congr 1; omega

theorem poolIndex_self {sizes : List Nat} (hs : sizes.Pairwise (· < ·)) {k : Nat} (hk : k < sizes.length) :
    poolIndex sizes (sizes.getD k 0) (-1) = some k := by
  unfold poolIndex
  simp only [show ¬ ((-1 : Int) = 0) by omega, if_false]
  have := poolIndexFrom_self (-1) (by omega) sizes 0 k hs hk
  simpa using this

theorem mem_removeAt {α : Type} (xs : List α) (j : Nat) (x : α) (h : x ∈ removeAt xs j) : x ∈ xs := by
  induction xs generalizing j with
  | nil => simp [removeAt] at h
  | cons y ys ih =>
    cases j with
    | zero => simp only [removeAt] at h; exact List.mem_cons_of_mem _ h
    | succ j =>
      simp only [removeAt, List.mem_cons] at h
      cases h with
      | inl h => simp [h]
      | inr h => exact List.mem_cons_of_mem _ (ih j h)

/-- the pool invariant: one holder list per class, and every held buffer has exactly the class's
    capacity -/
def Inv (p : Pools) : Prop :=
  p.held.length = p.sizes.length ∧
  ∀ i, i < p.held.length → ∀ b ∈ p.held.getD i [], b.cap = p.sizes.getD i 0

theorem inv_new (sizes : List Nat) : Inv (Pools.new sizes) := by
  refine ⟨by simp [Pools.new], ?_⟩
  intro i hi b hb
  simp only [Pools.new, List.length_map] at hi
  simp [Pools.new, List.getD, hi] at hb

theorem inv_set {p : Pools} (h : Inv p) (idx : Nat) (l : List Buf)
    (hl : ∀ b ∈ l, b.cap = p.sizes.getD idx 0) : Inv { p with held := p.held.set idx l } := by
  refine ⟨by simpa using h.1, ?_⟩
  intro i hi b hb
  simp only [List.length_set] at hi
  by_cases hidx : idx = i
  · subst hidx
    have : (p.held.set idx l).getD idx [] = l := by simp [List.getD, hi]
    rw [this] at hb
    exact hl b hb
  · have : (p.held.set idx l).getD i [] = p.held.getD i [] := by
      simp [List.getD, List.getElem?_set, hidx]
    rw [this] at hb
    exact h.2 i hi b hb

end RegexVerif.Lemmas.Pool
