/-
C19, "Escape yields a literal" on the FULL parser model (`Model/Parser.lean`): exact evaluation of
`Parser.parse` on the pattern `Escape s`.  (`Lemmas/EscapeParse.lean` proves the same about `parseLit`, the
model of the parser restricted to the literal fragment; this file is about `scanRegex`/`countCaptures`
themselves.)
-/
import RegexVerif.Lemmas.ParserExact
import RegexVerif.Lemmas.EscapeParse

namespace RegexVerif.Parser
open RegexVerif.EscapeParse (isSpaceCh isSpecialCh isQuantCh isDigitCh isTrueQuant)
open RegexVerif.Escape (escape escapeRune hex2 hex4 hexChar bslash)
open RegexVerif.Lemmas.Escape (plainAfterBackslash)
open RegexVerif.Lemmas.EscapeParse (plainAfterBackslashP)

set_option linter.unusedSimpArgs false

variable (E : Env)

/-! ## exact evaluation of the escape scanners -/

theorem ef_hexGo_of_scanHex : ∀ (n acc : Nat) (l : List Nat) (v : Nat) (rest : List Nat) (k : Nat),
    Escape.scanHex n acc l = some (v, rest) → hexGo n l acc k = .ok v (k + n) ∧ l.length = rest.length + n := by
  intro n
  induction n with
  | zero => intro acc l v rest k h; simp [Escape.scanHex] at h; simp [hexGo, h.1, h.2]
  | succ n ih =>
    intro acc l v rest k h
    cases l with
    | nil => simp [Escape.scanHex] at h
    | cons ch t =>
      simp only [Escape.scanHex] at h
      cases hd : Escape.hexDigit ch with
      | none => simp [hd] at h
      | some d =>
        simp only [hd] at h
        have := ih _ _ _ _ (k + 1) h
        simp only [hexGo, hd, this.1, List.length_cons, this.2]
        constructor
        · congr 1; omega
        · omega

/-- what the three guards of `scanCharEscape` read -/
theorem ef_scanCharEscape_plain (s : PS) (c : Nat) (r : List Nat) (hD : E.pat.drop s.pos = c :: r)
    (hp : plainAfterBackslash c = true)
    (hw : (!s.options.e && !s.options.re2 && E.orc.isWord c) = false) :
    scanCharEscape E s = .ok c { s with pos := s.pos + 1 } := by
  obtain ⟨hlt, hc, hr⟩ := drop_cons_facts E hD
  simp [plainAfterBackslash] at hp
  obtain ⟨h0, a1, a2, a3, a4, a5, a6, a7, a8, a9, a10, a11⟩ := hp
  have h0' : ¬ (48 ≤ c ∧ c ≤ 55) := by omega
  unfold scanCharEscape
  simp [bind, M.bind, moveRightGetChar, rightChar, moveRight, modify, textpos, opts, charsRight, rest, pure,
    M.pure, hc, h0', a1, a2, a3, a4, a5, a6, a7, a8, a9, a10, a11, hw]


/-- the letter escapes `\a \f \n \r \t \v` -/
theorem ef_scanCharEscape_letter (s : PS) (c : Nat) (r : List Nat) (hD : E.pat.drop s.pos = c :: r) :
    (c = 97 → scanCharEscape E s = .ok 7 { s with pos := s.pos + 1 }) ∧
    (c = 102 → scanCharEscape E s = .ok 12 { s with pos := s.pos + 1 }) ∧
    (c = 110 → scanCharEscape E s = .ok 10 { s with pos := s.pos + 1 }) ∧
    (c = 114 → scanCharEscape E s = .ok 13 { s with pos := s.pos + 1 }) ∧
    (c = 116 → scanCharEscape E s = .ok 9 { s with pos := s.pos + 1 }) ∧
    (c = 118 → scanCharEscape E s = .ok 11 { s with pos := s.pos + 1 }) := by
  obtain ⟨hlt, hc, hr⟩ := drop_cons_facts E hD
  refine ⟨?_, ?_, ?_, ?_, ?_, ?_⟩ <;> intro h <;> subst h <;> unfold scanCharEscape <;>
    simp [bind, M.bind, moveRightGetChar, rightChar, moveRight, modify, textpos, opts, charsRight, rest, pure,
      M.pure, hc]

/-- `\xHH` -/
theorem ef_scanCharEscape_hex2 (s : PS) (v : Nat) (hv : v < 256) (r : List Nat)
    (hD : E.pat.drop s.pos = 120 :: (hex2 v ++ r)) :
    scanCharEscape E s = .ok v { s with pos := s.pos + 3 } := by
  obtain ⟨hlt, hc, hr⟩ := drop_cons_facts E hD
  have hb : hexChar (v / 16) ≠ 123 := Lemmas.Escape.hexChar_ne_brace _ (by omega)
  have hx := ef_hexGo_of_scanHex 2 0 _ _ _ 0 (Lemmas.Escape.scanHex_hex2 v hv r)
  have hlen : 2 ≤ (hex2 v ++ r).length := by simp [hex2]
  simp only [hex2, List.cons_append, List.nil_append] at hr hx hlen
  unfold scanCharEscape
  simp [bind, M.bind, moveRightGetChar, rightChar, moveRight, modify, textpos, opts, charsRight, rest, pure,
    M.pure, hc, hr, attempt, scanHex, liftL, hx.1, hb]

/-- `\uHHHH` -/
theorem ef_scanCharEscape_hex4 (s : PS) (v : Nat) (hv : v < 65536) (r : List Nat)
    (hD : E.pat.drop s.pos = 117 :: (hex4 v ++ r)) :
    scanCharEscape E s = .ok v { s with pos := s.pos + 5 } := by
  obtain ⟨hlt, hc, hr⟩ := drop_cons_facts E hD
  have hb : hexChar (v / 4096) ≠ 123 := Lemmas.Escape.hexChar_ne_brace _ (by omega)
  have hx := ef_hexGo_of_scanHex 4 0 _ _ _ 0 (Lemmas.Escape.scanHex_hex4 v hv r)
  have hlen : 4 ≤ (hex4 v ++ r).length := by simp [hex4]
  simp only [hex4, List.cons_append, List.nil_append] at hr hx hlen
  unfold scanCharEscape
  simp [bind, M.bind, moveRightGetChar, rightChar, moveRight, modify, textpos, opts, charsRight, rest, pure,
    M.pure, hc, hr, attempt, scanHex, liftL, hx.1, hb]

/-- the rune after the backslash is none of the anchor, class, property and reference letters of
    `scanBackslash`/`scanBasicBackslash` (`b B A G Z z w W s S d D p P k`), not `<` `'`, not `1`…`9` -/
def bsPass (c : Nat) : Bool :=
  !([98, 66, 65, 71, 90, 122, 119, 87, 115, 83, 100, 68, 112, 80, 107, 60, 39].contains c) &&
  !(decide (49 ≤ c ∧ c ≤ 57))

/-- `scanBackslash` on such a rune hands over to `scanCharEscape` ("Not backreference: must be char
    code") and wraps its rune in a One node -/
theorem ef_scanBackslash (so : Bool) (s s' : PS) (c v : Nat) (r : List Nat) (hD : E.pat.drop s.pos = c :: r)
    (hp : bsPass c = true) (h : scanCharEscape E s = .ok v s') :
    scanBackslash E so s =
      .ok (if so then dummy else nodeCh E .one s.options (if s.options.i then E.orc.toLower v else v)) s' := by
  obtain ⟨hlt, hc, hr⟩ := drop_cons_facts E hD
  simp [bsPass] at hp
  obtain ⟨⟨b1, b2, b3, b4, b5, b6, b7, b8, b9, b10, b11, b12, b13, b14, b15, b16, b17⟩, hd⟩ := hp
  have hd' : ¬ (49 ≤ c ∧ c ≤ 57) := by omega
  have e : ({ s with pos := s.pos } : PS) = s := rfl
  have hne : E.pat.length - s.pos ≠ 0 := by omega
  unfold scanBackslash scanBasicBackslash bbHead bbCharCode
  cases so <;>
  simp [bind, M.bind, rightChar, moveRight, modify, textpos, textto, opts, charsRight, pure, M.pure, hc, hne,
    hasCapnames, b1, b2, b3, b4, b5, b6, b7, b8, b9, b10, b11, b12, b13, b14, b15, b16, b17, hd', e, h]


/-! ## one escaped rune -/

/-- `escape` writes the rune as itself: printable and not in `meta`, or not printable and above U+FFFF -/
def isRaw (isPrint : Nat → Bool) (r : Nat) : Bool :=
  (isPrint r && !Generated.metaChars.contains r) || (!isPrint r && decide (0x10000 ≤ r))

theorem ef_escapeRune_raw (isPrint : Nat → Bool) (r : Nat) (h : isRaw isPrint r = true) :
    escapeRune isPrint r = [r] := by
  unfold isRaw at h
  unfold escapeRune
  cases hp : isPrint r <;> simp [hp] at h ⊢
  · repeat' split
    all_goals first | rfl | omega
  · simp [h]

theorem ef_escapeRune_esc (isPrint : Nat → Bool) (r : Nat) (h : isRaw isPrint r = false) :
    ∃ body, escapeRune isPrint r = 92 :: body := by
  unfold isRaw at h
  unfold escapeRune
  cases hp : isPrint r <;> simp [hp] at h ⊢
  · have h2 : r < 65536 := by omega
    simp only [bslash, h2, if_true]
    repeat' split
    all_goals exact ⟨_, rfl⟩
  · simp [h, bslash]

theorem ef_bsPass_of_P (c : Nat) (h : plainAfterBackslashP c = true) :
    bsPass c = true ∧ plainAfterBackslash c = true := by
  simp only [plainAfterBackslashP, Bool.and_eq_true] at h
  simp only [bsPass, Bool.and_eq_true]
  refine ⟨⟨h.1.2, ?_⟩, h.1.1⟩
  have := h.2
  simp at this ⊢
  omega

/-- the node of an escaped rune (`scanBasicBackslash`: "Not backreference: must be char code"): under IgnoreCase
    the rune is lower-cased first, and `newRegexNodeCh` turns a cased letter into its set -/
def escNode (o : Opts) (r : Nat) : RNode := nodeCh E .one o (if o.i then E.orc.toLower r else r)

theorem escNode_noI (o : Opts) (r : Nat) (hi : o.i = false) : escNode E o r = .mk .one o r [] none 0 0 [] := by
  simp [escNode, nodeCh, hi]

/-- **One escaped rune is one call of `scanBackslash`** (the backslash consumed), which returns the node
    of that rune (nothing, in the pre-scan) and stands right after the escape — for every option set. -/
theorem ef_scanBackslash_escapeRune (isPrint : Nat → Bool)
    (hW : ∀ c, Generated.metaChars.contains c = true → E.orc.isWord c = false)
    (r : Nat) (body rest : List Nat) (hb : escapeRune isPrint r = 92 :: body)
    (so : Bool) (s : PS) (hD : E.pat.drop s.pos = body ++ rest) :
    scanBackslash E so s =
      .ok (if so then dummy else escNode E s.options r) { s with pos := s.pos + body.length } := by
  have key : ∀ (c v : Nat) (tl : List Nat) (s' : PS), E.pat.drop s.pos = c :: tl → bsPass c = true →
      scanCharEscape E s = .ok v s' →
      scanBackslash E so s = .ok (if so then dummy else escNode E s.options v) s' := by
    intro c v tl s' h1 h2 h3
    rw [ef_scanBackslash E so s s' c v tl h1 h2 h3]
    rfl
  unfold escapeRune at hb
  by_cases hp : isPrint r = true
  · by_cases hm : Generated.metaChars.contains r = true
    · have hm' : r ∈ Generated.metaChars := by simpa using hm
      simp [hp, hm', bslash] at hb
      subst hb
      obtain ⟨p1, p2⟩ := ef_bsPass_of_P r (List.all_eq_true.mp Lemmas.EscapeParse.meta_plainP r (by simpa using hm))
      simp only [List.cons_append, List.nil_append] at hD
      exact key r r rest _ hD p1 (ef_scanCharEscape_plain E s r rest hD p2 (by simp [hW r hm]))
    · have hm' : r ∉ Generated.metaChars := by simpa using hm
      simp [hp, hm', bslash] at hb
      rw [hb.1] at hm; exact absurd (by decide) hm
  · have hp' : isPrint r = false := by simpa using hp
    simp only [hp', Bool.false_eq_true, if_false] at hb
    have letter : ∀ (c v : Nat), body = [c] → bsPass c = true →
        (∀ tl, E.pat.drop s.pos = c :: tl → scanCharEscape E s = .ok v { s with pos := s.pos + 1 }) →
        scanBackslash E so s = .ok (if so then dummy else escNode E s.options v)
          { s with pos := s.pos + body.length } := by
      intro c v hbody hps hsc
      subst hbody
      simp only [List.cons_append, List.nil_append] at hD
      exact key c v rest _ hD hps (hsc rest hD)
    by_cases h7 : r = 7
    · subst h7; simp [bslash] at hb
      exact letter 97 7 hb.symm (by decide) (fun tl h => (ef_scanCharEscape_letter E s 97 tl h).1 rfl)
    by_cases h12 : r = 12
    · subst h12; simp [bslash] at hb
      exact letter 102 12 hb.symm (by decide) (fun tl h => (ef_scanCharEscape_letter E s 102 tl h).2.1 rfl)
    by_cases h10 : r = 10
    · subst h10; simp [bslash] at hb
      exact letter 110 10 hb.symm (by decide) (fun tl h => (ef_scanCharEscape_letter E s 110 tl h).2.2.1 rfl)
    by_cases h13 : r = 13
    · subst h13; simp [bslash] at hb
      exact letter 114 13 hb.symm (by decide) (fun tl h => (ef_scanCharEscape_letter E s 114 tl h).2.2.2.1 rfl)
    by_cases h9 : r = 9
    · subst h9; simp [bslash] at hb
      exact letter 116 9 hb.symm (by decide) (fun tl h => (ef_scanCharEscape_letter E s 116 tl h).2.2.2.2.1 rfl)
    by_cases h11 : r = 11
    · subst h11; simp [bslash] at hb
      exact letter 118 11 hb.symm (by decide) (fun tl h => (ef_scanCharEscape_letter E s 118 tl h).2.2.2.2.2 rfl)
    simp only [h7, h12, h10, h13, h9, h11, if_false] at hb
    by_cases hx : r < 0x100
    · simp [hx, bslash] at hb
      subst hb
      simp only [List.cons_append] at hD
      have := key 120 r _ _ hD (by decide) (ef_scanCharEscape_hex2 E s r hx rest hD)
      simpa [hex2] using this
    · by_cases hu : r < 0x10000
      · simp [hx, hu, bslash] at hb
        subst hb
        simp only [List.cons_append] at hD
        have := key 117 r _ _ hD (by decide) (ef_scanCharEscape_hex4 E s r hu rest hD)
        simpa [hex4] using this
      · simp [hx, hu, bslash] at hb
        omega


/-! ## the pieces of one turn of `scanRegex` on literal text -/

/-- the text starts with nothing `scanBlank` or `isTrueQuantifier` reacts to -/
def PlainHead (l : List Nat) : Prop :=
  ∀ c tl, l = c :: tl → isSpaceCh c = false ∧ c ≠ 35 ∧ c ≠ 40 ∧ c ≠ 123 ∧ isQuantCh c = false

theorem plainHead_nil : PlainHead [] := by intro c tl h; cases h
theorem plainHead_bslash (tl : List Nat) : PlainHead (92 :: tl) := by
  intro c tl' h; cases h; decide
theorem plainHead_ord (c : Nat) (tl : List Nat) (h : isStopperXCh c = false) : PlainHead (c :: tl) := by
  intro c' tl' h'; cases h'
  simp only [isStopperXCh, Bool.or_eq_false_iff, beq_eq_false_iff_ne] at h
  obtain ⟨⟨h1, h2⟩, h3⟩ := h
  simp [isSpecialCh] at h3
  refine ⟨h1, h2, by omega, by omega, ?_⟩
  simp [isQuantCh]; omega

theorem ef_scanBlank_id (s : PS) (h : PlainHead (E.pat.drop s.pos)) : scanBlank E s = .ok () s := by
  unfold scanBlank
  cases hd : E.pat.drop s.pos with
  | nil => simp [blankGo]
  | cons c tl =>
    obtain ⟨h1, h2, h3, _, _⟩ := h c tl hd
    simp [blankGo, h1, h2, h3]

theorem ef_isTrueQuantifier_false (s : PS) (h : PlainHead (E.pat.drop s.pos)) :
    isTrueQuantifier E s = .ok false s := by
  unfold isTrueQuantifier
  cases hd : E.pat.drop s.pos with
  | nil => rfl
  | cons c tl =>
    obtain ⟨_, _, _, h4, h5⟩ := h c tl hd
    simp [isTrueQuant, h4, h5]

theorem drop_add_of_append {l p tl : List Nat} {k : Nat} (h : l.drop k = p ++ tl) :
    l.drop (k + p.length) = tl ∧ p.length + tl.length = l.length - k := by
  constructor
  · rw [← List.drop_drop, h]; simp
  · have := congrArg List.length h
    simp at this; omega

theorem iter_inl {β γ : Type} (f : β → M (Sum β γ)) (n : Nat) (b b' : β) (s s' : PS)
    (h : f b s = .ok (.inl b') s') : iter f (n + 1) b s = iter f n b' s' := by
  simp only [iter, h]

theorem iter_inr {β γ : Type} (f : β → M (Sum β γ)) (n : Nat) (b : β) (c : γ) (s s' : PS)
    (h : f b s = .ok (.inr c) s') : iter f (n + 1) b s = .ok c s' := by
  simp only [iter, h]

/-- the run of ordinary runes: `skipOrdinary` stops at the end of the pattern or at the backslash -/
theorem ef_skipOrdinary (p : List Nat) : ∀ (s : PS) (tl : List Nat) (n : Nat),
    E.pat.drop s.pos = p ++ tl → (∀ c ∈ p, isStopperXCh c = false) → (tl = [] ∨ ∃ tl', tl = 92 :: tl') →
    p.length < n → skipOrdinary E n s = .ok () { s with pos := s.pos + p.length } := by
  induction p with
  | nil =>
    intro s tl n hD _ htl hn
    obtain ⟨n, rfl⟩ : ∃ m, n = m + 1 := ⟨n - 1, by simp at hn; omega⟩
    simp only [List.nil_append] at hD
    unfold skipOrdinary
    refine iter_inr _ _ _ _ _ _ ?_
    rcases htl with rfl | ⟨tl', rfl⟩
    · have hl : E.pat.length - s.pos = 0 := by
        have := congrArg List.length hD; simpa using this
      simp [bind, M.bind, charsRight, hl, pure, M.pure]
    · obtain ⟨hlt, hc, hr⟩ := drop_cons_facts E hD
      have hl : E.pat.length - s.pos ≠ 0 := by omega
      have h1 : isStopperXCh 92 = true := by decide
      have h2 : isSpecialCh 92 = true := by decide
      simp [bind, M.bind, charsRight, hl, pure, M.pure, opts, rightChar, hc, isTrueQuantifier, hD, h1, h2]
  | cons c p ih =>
    intro s tl n hD hord htl hn
    obtain ⟨n, rfl⟩ : ∃ m, n = m + 1 := ⟨n - 1, by simp at hn; omega⟩
    simp only [List.cons_append] at hD
    obtain ⟨hlt, hc, hr⟩ := drop_cons_facts E hD
    have hl : E.pat.length - s.pos ≠ 0 := by omega
    have h1 : isStopperXCh c = false := hord c (by simp)
    have h2 : isSpecialCh c = false := by
      simp only [isStopperXCh, Bool.or_eq_false_iff] at h1; exact h1.2
    have := ih { s with pos := s.pos + 1 } tl n hr (fun c' hc' => hord c' (by simp [hc'])) htl
      (by simp at hn; omega)
    unfold skipOrdinary at this ⊢
    refine (iter_inl _ _ _ () _ { s with pos := s.pos + 1 } ?_).trans ?_
    · simp [bind, M.bind, charsRight, hl, pure, M.pure, opts, rightChar, hc, isTrueQuantifier, hD, h1, h2, moveRight,
        modify]
    · rw [this]
      simp [Nat.add_assoc, Nat.add_comm 1]

theorem ef_stepHead_end (s : PS) (hD : E.pat.drop s.pos = []) : stepHead E s = .ok (33, false) s := by
  have hl : E.pat.length - s.pos = 0 := by have := congrArg List.length hD; simpa using this
  unfold stepHead
  simp [bind, M.bind, charsRight, hl, pure, M.pure]

theorem ef_stepHead_bslash (s : PS) (tl : List Nat) (hD : E.pat.drop s.pos = 92 :: tl) :
    stepHead E s = .ok (92, false) { s with pos := s.pos + 1 } := by
  obtain ⟨hlt, hc, hr⟩ := drop_cons_facts E hD
  have hl : E.pat.length - s.pos ≠ 0 := by omega
  have h2 : isSpecialCh 92 = true := by decide
  have h3 : isQuantCh 92 = false := by decide
  unfold stepHead
  simp [bind, M.bind, charsRight, hl, pure, M.pure, rightChar, hc, h2, h3, moveRight, modify]

def addKids (c : RNode) (ks : List RNode) : RNode := ks.foldl RNode.addChild c

theorem addKids_mk (t : NT) (o : Opts) (ch : Nat) (str : List Nat) (set : Option Class.Class) (m n : Int)
    (kids ks : List RNode) : addKids (.mk t o ch str set m n kids) ks = .mk t o ch str set m n (kids ++ ks) := by
  induction ks generalizing kids with
  | nil => simp [addKids]
  | cons k ks ih =>
    have := ih (kids ++ [k])
    simp only [addKids, List.foldl_cons, RNode.addChild] at this ⊢
    rw [this]; simp

theorem addKids_append (c : RNode) (a b : List RNode) : addKids c (a ++ b) = addKids (addKids c a) b := by
  simp [addKids, List.foldl_append]

/-- the node `addToConcatenate` makes of a run of at least one ordinary rune without IgnoreCase -/
def runNode (o : Opts) (p : List Nat) : RNode :=
  if p.length = 1 then .mk .one o (p.headD 0) [] none 0 0 [] else .mk .multi { o with i := false } 0 p none 0 0 []

/-- the children a run contributes without IgnoreCase -/
def runKids (o : Opts) (p : List Nat) : List RNode := if p = [] then [] else [runNode o p]

/-- **the children `addToConcatenate` makes of a run of ordinary runes, any options**: nothing for the empty
    run; `newRegexNodeCh(One)` for a single rune; one Multi (with IgnoreCase cleared) for a longer run unless
    IgnoreCase is on and some rune takes part in case conversion — then one `newRegexNodeCh(One)` per rune -/
def runKidsG (o : Opts) (p : List Nat) : List RNode :=
  if p = [] then []
  else if p.length = 1 then [nodeCh E .one o (p.headD 0)]
  else if !o.i || !(p.any E.orc.participates) then [.mk .multi { o with i := false } 0 p none 0 0 []]
  else p.map (nodeCh E .one o)

theorem runKidsG_noI (o : Opts) (p : List Nat) (hi : o.i = false) : runKidsG E o p = runKids o p := by
  unfold runKidsG runKids runNode
  cases p with
  | nil => simp
  | cons c p =>
    cases p with
    | nil => simp [nodeCh, hi]
    | cons d p => simp [hi]

theorem ef_addToConcatenate (s : PS) (sp c : Nat) (p tl : List Nat) (hD : E.pat.drop sp = (c :: p) ++ tl) :
    addToConcatenate E sp (c :: p).length s =
      .ok () { s with concatenation := addKids s.concatenation (runKidsG E s.options (c :: p)) } := by
  obtain ⟨_, hle⟩ := drop_add_of_append hD
  have hnle : ¬ (sp + (p.length + 1) > E.pat.length) := by simp at hle; omega
  have htake : (E.pat.drop sp).take (p.length + 1) = c :: p := by rw [hD]; simp
  unfold addToConcatenate
  simp only [List.length_cons, Nat.add_one_ne_zero, if_false, hnle, htake]
  cases p with
  | nil => simp [runKidsG, addKids]
  | cons d p =>
    have hne1 : ¬ ((d :: p).length + 1 = 1) := by simp
    have hne : (c :: d :: p) ≠ [] := by simp
    have hlen : ¬ ((c :: d :: p).length = 1) := by simp
    unfold runKidsG
    simp only [hne1, if_false, hne, hlen]
    generalize c :: d :: p = q
    by_cases hcond : (!s.options.i || !(q.any E.orc.participates)) = true
    · simp only [hcond, if_true]
      simp [addKids]
    · simp only [hcond, if_false]
      simp [addKids, List.foldl_map]

theorem ef_stepLiteral (s : PS) (sp : Nat) (p tl : List Nat) (b : Bool) (hD : E.pat.drop sp = p ++ tl) :
    stepLiteral E sp (sp + p.length) false b s =
      .ok (if p = [] then b else false)
        { s with concatenation := addKids s.concatenation (runKidsG E s.options p) } := by
  unfold stepLiteral
  cases p with
  | nil => simp [pure, M.pure, runKidsG, addKids]
  | cons c p =>
    have hlt : sp < sp + (c :: p).length := by simp
    have h := ef_addToConcatenate E s sp c p tl hD
    have hpos : (c :: p).length > 0 := by simp
    simp only [hlt, if_true, Bool.false_eq_true, if_false, Nat.sub_zero, Nat.add_sub_cancel_left, hpos]
    simp only [List.length_cons] at h
    simp [bind, M.bind, h, pure, M.pure]

/-- after a unit that is followed by plain text: no blank, no quantifier, the unit joins the
    concatenation -/
theorem ef_stepAfter (s : PS) (u : RNode) (hu : s.unit = some u) (h : PlainHead (E.pat.drop s.pos)) :
    stepAfter E false s = .ok (.inl false) { s with concatenation := s.concatenation.addChild u, unit := none } := by
  unfold stepAfter
  simp only [bind, M.bind, ef_scanBlank_id E s h, charsRight]
  by_cases hl : E.pat.length - s.pos > 0
  · simp [hl, ef_isTrueQuantifier_false E s h, addConcatenate, hu, pure, M.pure, bind, M.bind]
  · simp [hl, addConcatenate, hu, pure, M.pure, bind, M.bind]


theorem plainHead_ords (p tl : List Nat) (hord : ∀ c ∈ p, isStopperXCh c = false) (htl : PlainHead tl) :
    PlainHead (p ++ tl) := by
  cases p with
  | nil => simpa using htl
  | cons c p => exact plainHead_ord c _ (hord c (by simp))

/-- **a turn of `scanRegex` on a run of ordinary runes that ends the pattern**: the run joins the
    concatenation as one One/Multi node, `BreakOuterScan` -/
theorem ef_scanStep_end (s : PS) (p : List Nat) (b : Bool) (hD : E.pat.drop s.pos = p)
    (hord : ∀ c ∈ p, isStopperXCh c = false) :
    scanStep E b s = .ok (.inr ())
      { s with pos := s.pos + p.length, concatenation := addKids s.concatenation (runKidsG E s.options p) } := by
  have hD' : E.pat.drop s.pos = p ++ [] := by simpa using hD
  obtain ⟨hd1, hlen⟩ := drop_add_of_append hD'
  have e1 := ef_scanBlank_id E s (by rw [hD']; exact plainHead_ords p [] hord plainHead_nil)
  have e2 := ef_skipOrdinary E p s [] (E.pat.length - s.pos + 1) hD' hord (Or.inl rfl) (by simp at hlen; omega)
  have e3 := ef_scanBlank_id E { s with pos := s.pos + p.length } (by rw [hd1]; exact plainHead_nil)
  have e4 := ef_stepHead_end E { s with pos := s.pos + p.length } hd1
  have e5 := ef_stepLiteral E { s with pos := s.pos + p.length } s.pos p [] b hD'
  unfold scanStep stepRun
  simp [bind, M.bind, textpos, charsRight, opts, pure, M.pure, e1, e2, e3, e4, e5]

/-- **a turn of `scanRegex` on a run of ordinary runes followed by one escaped rune**: the run joins the
    concatenation as one One/Multi node, the escape as a One node; the loop goes on -/
theorem ef_scanStep_esc (isPrint : Nat → Bool)
    (hW : ∀ c, Generated.metaChars.contains c = true → E.orc.isWord c = false)
    (s : PS) (p : List Nat) (r : Nat) (body tl : List Nat) (b : Bool)
    (hb : escapeRune isPrint r = 92 :: body) (hD : E.pat.drop s.pos = p ++ (92 :: (body ++ tl)))
    (hord : ∀ c ∈ p, isStopperXCh c = false) (htl : PlainHead tl) :
    scanStep E b s = .ok (.inl false)
      { s with pos := s.pos + p.length + 1 + body.length,
               concatenation := (addKids s.concatenation (runKidsG E s.options p)).addChild (escNode E s.options r),
               unit := none } := by
  obtain ⟨hd1, hlen⟩ := drop_add_of_append hD
  obtain ⟨_, _, hd2⟩ := drop_cons_facts E hd1
  obtain ⟨hd3, _⟩ := drop_add_of_append hd2
  have e1 := ef_scanBlank_id E s (by rw [hD]; exact plainHead_ords p _ hord (plainHead_bslash _))
  have e2 := ef_skipOrdinary E p s _ (E.pat.length - s.pos + 1) hD hord (Or.inr ⟨_, rfl⟩)
    (by simp at hlen; omega)
  have e3 := ef_scanBlank_id E { s with pos := s.pos + p.length } (by rw [hd1]; exact plainHead_bslash _)
  have e4 := ef_stepHead_bslash E { s with pos := s.pos + p.length } _ hd1
  have e5 := ef_stepLiteral E { s with pos := s.pos + p.length + 1 } s.pos p _ b hD
  have e6 := ef_scanBackslash_escapeRune E isPrint hW r body tl hb false
    { s with pos := s.pos + p.length + 1, concatenation := addKids s.concatenation (runKidsG E s.options p) } hd2
  have e7 := ef_stepAfter E
    { s with pos := s.pos + p.length + 1 + body.length,
             concatenation := addKids s.concatenation (runKidsG E s.options p),
             unit := some (escNode E s.options r) } _ rfl (by rw [hd3]; exact htl)
  unfold scanStep stepRun
  simp [bind, M.bind, textpos, charsRight, opts, pure, M.pure, e1, e2, e3, e4, e5]
  unfold stepSwitch
  simp [bind, M.bind, pure, M.pure] at e6 ⊢
  simp [e6, setUnit, modify, e7]


/-! ## the spelling of a literal tree -/

/-- the runes a literal leaf denotes: a One, a Multi, or an Empty node (no set, no children) -/
def leafRunes : RNode → Option (List Nat)
  | .mk .one _ ch _ none _ _ [] => some [ch]
  | .mk .multi _ _ str none _ _ [] => some str
  | .mk .empty _ _ _ none _ _ [] => some []
  | _ => none

/-- the runes a list of literal leaves denotes, left to right -/
def kidsRunes : List RNode → Option (List Nat)
  | [] => some []
  | k :: ks =>
    match leafRunes k, kidsRunes ks with
    | some a, some b => some (a ++ b)
    | _, _ => none

theorem kidsRunes_append (a b : List RNode) (x y : List Nat) (ha : kidsRunes a = some x) (hb : kidsRunes b = some y) :
    kidsRunes (a ++ b) = some (x ++ y) := by
  induction a generalizing x with
  | nil => simp [kidsRunes] at ha; subst ha; simpa using hb
  | cons k ks ih =>
    simp only [kidsRunes, List.cons_append] at ha ⊢
    cases h1 : leafRunes k with
    | none => simp [h1] at ha
    | some u =>
      cases h2 : kidsRunes ks with
      | none => simp [h1, h2] at ha
      | some v =>
        simp [h1, h2] at ha
        subst ha
        simp [ih v h2, List.append_assoc]

theorem kidsRunes_runKids (o : Opts) (p : List Nat) : kidsRunes (runKids o p) = some p := by
  unfold runKids
  cases p with
  | nil => simp [kidsRunes]
  | cons c p =>
    cases p with
    | nil => simp [kidsRunes, runNode, leafRunes]
    | cons d p => simp [kidsRunes, runNode, leafRunes]

/-! ## the shape of `Escape`'s output -/

theorem ef_raw_ord (isPrint : Nat → Bool) (hP : ∀ c, 9 ≤ c → c ≤ 13 → isPrint c = false) (c : Nat)
    (h : isRaw isPrint c = true) : isStopperXCh c = false := by
  have hs : Lemmas.EscapeParse.stoppers.contains c = false ∧ ¬ (9 ≤ c ∧ c ≤ 13) := by
    unfold isRaw at h
    cases hp : isPrint c <;> simp [hp] at h
    · refine ⟨?_, by omega⟩
      simp [Lemmas.EscapeParse.stoppers]; omega
    · refine ⟨Lemmas.EscapeParse.not_meta_not_stopper c (by simpa using h), ?_⟩
      intro ⟨h1, h2⟩
      rw [hP c h1 h2] at hp; cases hp
  obtain ⟨h1, h2⟩ := hs
  simp [Lemmas.EscapeParse.stoppers] at h1
  simp [isStopperXCh, isSpaceCh, isSpecialCh]
  omega

theorem ef_chunk (isPrint : Nat → Bool) (w : List Nat) :
    ∃ p t, w = p ++ t ∧ (∀ c ∈ p, isRaw isPrint c = true) ∧
      (t = [] ∨ ∃ r t', t = r :: t' ∧ isRaw isPrint r = false) := by
  induction w with
  | nil => exact ⟨[], [], rfl, by simp, Or.inl rfl⟩
  | cons c w ih =>
    by_cases hc : isRaw isPrint c = true
    · obtain ⟨p, t, h1, h2, h3⟩ := ih
      refine ⟨c :: p, t, by simp [h1], ?_, h3⟩
      intro c' hc'
      simp at hc'
      rcases hc' with rfl | hc'
      · exact hc
      · exact h2 c' hc'
    · exact ⟨[], c :: w, rfl, by simp, Or.inr ⟨c, w, rfl, by simpa using hc⟩⟩

theorem ef_escape_raw (isPrint : Nat → Bool) (p : List Nat) (h : ∀ c ∈ p, isRaw isPrint c = true) :
    escape isPrint p = p := by
  induction p with
  | nil => rfl
  | cons c p ih =>
    have e : escape isPrint (c :: p) = escapeRune isPrint c ++ escape isPrint p := by simp [escape]
    rw [e, ef_escapeRune_raw isPrint c (h c (by simp)), ih (fun c' hc' => h c' (by simp [hc']))]
    rfl

theorem ef_escape_append (isPrint : Nat → Bool) (a b : List Nat) :
    escape isPrint (a ++ b) = escape isPrint a ++ escape isPrint b := by
  simp [escape]

theorem ef_escape_cons (isPrint : Nat → Bool) (r : Nat) (w : List Nat) :
    escape isPrint (r :: w) = escapeRune isPrint r ++ escape isPrint w := by
  simp [escape]

theorem ef_plainHead_escape (isPrint : Nat → Bool) (hP : ∀ c, 9 ≤ c → c ≤ 13 → isPrint c = false) (w : List Nat) :
    PlainHead (escape isPrint w) := by
  cases w with
  | nil => exact plainHead_nil
  | cons r w =>
    rw [ef_escape_cons]
    by_cases hr : isRaw isPrint r = true
    · rw [ef_escapeRune_raw isPrint r hr]
      exact plainHead_ord r _ (ef_raw_ord isPrint hP r hr)
    · obtain ⟨body, hb⟩ := ef_escapeRune_esc isPrint r (by simpa using hr)
      rw [hb]; exact plainHead_bslash _


/-! ## the main loop -/

/-- the body of the loop of `scanRegex` -/
def mainBody : Bool → M (Sum Bool Unit) := fun isQuant => do
  let cr ← charsRight E
  if cr = 0 then pure (.inr ()) else scanStep E isQuant

/-- **the children of the concatenation the parser builds for `Escape w` under the options `o`** (any options,
    IgnoreCase included): `w` is cut into maximal runs of runes `escape` writes raw, each contributing
    `runKidsG` (one One / one Multi / one node per rune), and the escaped runes in between, each contributing
    `escNode` -/
inductive EscKids (isPrint : Nat → Bool) (o : Opts) : List Nat → List RNode → Prop
  | nil : EscKids isPrint o [] []
  | run (p w : List Nat) (ks : List RNode) (hraw : ∀ c ∈ p, isRaw isPrint c = true)
      (hmax : w = [] ∨ ∃ r w', w = r :: w' ∧ isRaw isPrint r = false) :
      EscKids isPrint o w ks → EscKids isPrint o (p ++ w) (runKidsG E o p ++ ks)
  | esc (r : Nat) (w : List Nat) (ks : List RNode) (hr : isRaw isPrint r = false) :
      EscKids isPrint o w ks → EscKids isPrint o (r :: w) (escNode E o r :: ks)

/-- without IgnoreCase the children are literal leaves spelling `w` -/
theorem escKids_runes (isPrint : Nat → Bool) (o : Opts) (hi : o.i = false) (w : List Nat) (ks : List RNode)
    (h : EscKids E isPrint o w ks) : kidsRunes ks = some w := by
  induction h with
  | nil => rfl
  | run p w ks _ _ _ ih =>
    rw [runKidsG_noI E o p hi]
    exact kidsRunes_append _ _ _ _ (kidsRunes_runKids o p) ih
  | esc r w ks _ _ ih =>
    rw [escNode_noI E o r hi]
    have e1 : kidsRunes [RNode.mk .one o r [] none 0 0 []] = some [r] := by simp [kidsRunes, leafRunes]
    exact kidsRunes_append [_] ks [r] w e1 ih

/-- **the loop of `scanRegex` on `Escape w`**: it ends normally, and the children it has added to the
    concatenation are the `EscKids` of `w` -/
theorem ef_loop (isPrint : Nat → Bool)
    (hW : ∀ c, Generated.metaChars.contains c = true → E.orc.isWord c = false)
    (hP : ∀ c, 9 ≤ c → c ≤ 13 → isPrint c = false) :
    ∀ (n : Nat) (w : List Nat), w.length ≤ n → ∀ (s : PS) (fuel : Nat) (b : Bool),
      E.pat.drop s.pos = escape isPrint w → (escape isPrint w).length < fuel →
      ∃ ks s', iter (mainBody E) fuel b s = .ok () s' ∧ EscKids E isPrint s.options w ks ∧
        s'.concatenation = addKids s.concatenation ks ∧ s'.stack = s.stack ∧ s'.group = s.group ∧
        s'.alternation = s.alternation ∧ s'.options = s.options := by
  intro n
  induction n with
  | zero =>
    intro w hw s fuel b hD hf
    have : w = [] := by cases w <;> simp at hw ⊢
    subst this
    obtain ⟨fuel, rfl⟩ : ∃ m, fuel = m + 1 := ⟨fuel - 1, by omega⟩
    have hl : E.pat.length - s.pos = 0 := by
      have := congrArg List.length hD; simpa [escape] using this
    refine ⟨[], s, ?_, .nil, rfl, rfl, rfl, rfl, rfl⟩
    refine iter_inr _ _ _ _ _ _ ?_
    simp [mainBody, bind, M.bind, charsRight, hl, pure, M.pure]
  | succ n ih =>
    intro w hw s fuel b hD hf
    obtain ⟨fuel, rfl⟩ : ∃ m, fuel = m + 1 := ⟨fuel - 1, by omega⟩
    obtain ⟨p, t, hw', hraw, ht⟩ := ef_chunk isPrint w
    have hord : ∀ c ∈ p, isStopperXCh c = false := fun c hc => ef_raw_ord isPrint hP c (hraw c hc)
    rw [hw', ef_escape_append, ef_escape_raw isPrint p hraw] at hD hf
    rcases ht with rfl | ⟨r, t', rfl, hr⟩
    · -- the run ends the pattern
      have e0 : escape isPrint [] = [] := rfl
      simp only [e0, List.append_nil] at hD hf hw'
      subst hw'
      have hk : EscKids E isPrint s.options w (runKidsG E s.options w) := by
        have := EscKids.run (E := E) (o := s.options) w [] [] hraw (Or.inl rfl) .nil
        simpa using this
      by_cases hl : E.pat.length - s.pos = 0
      · have : w = [] := by
          have := congrArg List.length hD; simp [hl] at this; exact List.eq_nil_of_length_eq_zero this.symm
        subst this
        refine ⟨[], s, ?_, .nil, rfl, rfl, rfl, rfl, rfl⟩
        refine iter_inr _ _ _ _ _ _ ?_
        simp [mainBody, bind, M.bind, charsRight, hl, pure, M.pure]
      · refine ⟨runKidsG E s.options w,
          { s with pos := s.pos + w.length, concatenation := addKids s.concatenation (runKidsG E s.options w) },
          ?_, hk, rfl, rfl, rfl, rfl, rfl⟩
        refine iter_inr _ _ _ _ _ _ ?_
        simp only [mainBody, bind, M.bind, charsRight, hl, if_false]
        exact ef_scanStep_end E s w b hD hord
    · -- a run, then an escaped rune
      obtain ⟨body, hb⟩ := ef_escapeRune_esc isPrint r hr
      rw [ef_escape_cons, hb] at hD hf
      simp only [List.cons_append] at hD hf
      have hl : E.pat.length - s.pos ≠ 0 := by
        have := congrArg List.length hD; simp at this; omega
      have hstep := ef_scanStep_esc E isPrint hW s p r body (escape isPrint t') b hb hD hord
        (ef_plainHead_escape isPrint hP t')
      obtain ⟨hd1, _⟩ := drop_add_of_append hD
      obtain ⟨_, _, hd2⟩ := drop_cons_facts E hd1
      obtain ⟨hd3, _⟩ := drop_add_of_append hd2
      have hlen : t'.length ≤ n := by subst hw'; simp at hw; omega
      obtain ⟨ks, s', h1, h2, h3, h4, h5, h6, h7⟩ := ih t' hlen
        { s with pos := s.pos + p.length + 1 + body.length,
                 concatenation := (addKids s.concatenation (runKidsG E s.options p)).addChild (escNode E s.options r),
                 unit := none } fuel false hd3 (by simp at hf; omega)
      refine ⟨runKidsG E s.options p ++ (escNode E s.options r :: ks), s', ?_, ?_, ?_, h4, h5, h6, h7⟩
      · refine (iter_inl _ _ _ false _ _ ?_).trans h1
        simp only [mainBody, bind, M.bind, charsRight, hl, if_false]
        exact hstep
      · rw [hw']
        exact .run p _ _ hraw (Or.inr ⟨r, t', rfl, hr⟩) (.esc r t' ks hr h2)
      · rw [h3, addKids_append]
        simp [addKids]

theorem scanRegex_eq (fuel : Nat) : scanRegex E fuel = (do
    let o ← opts
    startGroup (mkNodeMN .capture o 0 (-1))
    iter (mainBody E) fuel false
    let s ← get
    if !s.stack.isEmpty then throw .missingParen else
    addGroup
    let s ← get
    match s.unit with
    | some u => pure u
    | none => fault .nilUnit) := rfl

theorem reverseLeft_concat (o : Opts) (ks : List RNode) :
    reverseLeft (.mk .concatenate o 0 [] none 0 0 ks) =
      .mk .concatenate o 0 [] none 0 0 (if o.r then ks.reverse else ks) := by
  unfold reverseLeft
  cases hr : o.r <;> cases ks <;> simp [RNode.o, RNode.t, RNode.kids, RNode.withKids, hr]

/-- the tree `scanRegex` returns for a literal: the root Capture 0 over the one-branch alternation over
    the concatenation of the leaves `ks` (reversed under RightToLeft) -/
def litRoot (o : Opts) (ks : List RNode) : RNode :=
  .mk .capture o 0 [] none 0 (-1)
    [.mk .alternate o 0 [] none 0 0 [.mk .concatenate o 0 [] none 0 0 (if o.r then ks.reverse else ks)]]

/-- **`scanRegex` on `Escape w`** from the state `Parse` starts it in -/
theorem ef_scanRegex (isPrint : Nat → Bool)
    (hW : ∀ c, Generated.metaChars.contains c = true → E.orc.isWord c = false)
    (hP : ∀ c, 9 ≤ c → c ≤ 13 → isPrint c = false)
    (w : List Nat) (hpat : E.pat = escape isPrint w) (s : PS) (hpos : s.pos = 0) (hst : s.stack = [])
    (fuel : Nat) (hf : E.pat.length < fuel) :
    ∃ ks s', scanRegex E fuel s = .ok (litRoot s.options ks) s' ∧ EscKids E isPrint s.options w ks := by
  obtain ⟨ks, s', h1, h2, h3, h4, h5, h6, h7⟩ := ef_loop E isPrint hW hP w.length w (Nat.le_refl _)
    { s with group := mkNodeMN .capture s.options 0 (-1), alternation := mkNode .alternate s.options,
             concatenation := mkNode .concatenate s.options } fuel false
    (by simp [hpos, hpat]) (by rw [← hpat]; exact hf)
  simp only [] at h2 h3 h4 h5 h6 h7
  suffices h : ∃ s'', scanRegex E fuel s = .ok (litRoot s.options ks) s'' by
    obtain ⟨s'', h⟩ := h
    exact ⟨ks, s'', h, h2⟩
  rw [scanRegex_eq]
  simp only [bind, M.bind, opts, startGroup, modify, h1, get]
  have hemp : (!s'.stack.isEmpty) = false := by simp [h4, hst]
  have hc : isCond s'.group.t = false := by rw [h5]; rfl
  simp only [hemp, Bool.false_eq_true, if_false, M.bind, addGroup, hc, get]
  simp only [h3, h5, h6, mkNode, mkNodeMN, addKids_mk, List.nil_append, reverseLeft_concat, RNode.addChild,
    pure, M.pure, litRoot]
  exact ⟨_, rfl⟩


/-! ## the capture pre-scan -/

theorem ef_countStep_raw (s : PS) (c : Nat) (tl : List Nat) (hD : E.pat.drop s.pos = c :: tl)
    (hc : isStopperXCh c = false) : countStep E s = .ok () { s with pos := s.pos + 1 } := by
  obtain ⟨hlt, hcc, hr⟩ := drop_cons_facts E hD
  have hs : c ≠ 92 ∧ c ≠ 35 ∧ c ≠ 91 ∧ c ≠ 41 ∧ c ≠ 40 := by
    simp [isStopperXCh, isSpecialCh] at hc; omega
  obtain ⟨n1, n2, n3, n4, n5⟩ := hs
  unfold countStep
  simp [bind, M.bind, moveRightGetChar, rightChar, moveRight, modify, opts, pure, M.pure, hcc, n1, n2, n3, n4, n5]

theorem ef_countStep_esc (isPrint : Nat → Bool)
    (hW : ∀ c, Generated.metaChars.contains c = true → E.orc.isWord c = false)
    (s : PS) (r : Nat) (body tl : List Nat) (hb : escapeRune isPrint r = 92 :: body)
    (hD : E.pat.drop s.pos = 92 :: (body ++ tl)) :
    countStep E s = .ok () { s with pos := s.pos + 1 + body.length } := by
  obtain ⟨hlt, hcc, hr⟩ := drop_cons_facts E hD
  have e6 := ef_scanBackslash_escapeRune E isPrint hW r body tl hb true { s with pos := s.pos + 1 } hr
  unfold countStep
  by_cases hl : E.pat.length - (s.pos + 1) > 0
  · simp [bind, M.bind, moveRightGetChar, rightChar, moveRight, modify, opts, pure, M.pure, hcc, charsRight, hl,
      ignoreErr, attempt, e6]
  · have : body = [] := by
      have := congrArg List.length hr; simp at this
      exact List.eq_nil_of_length_eq_zero (by omega)
    subst this
    simp [bind, M.bind, moveRightGetChar, rightChar, moveRight, modify, opts, pure, M.pure, hcc, charsRight, hl]

/-- the body of the loop of `countCaptures` -/
def countBody : Unit → M (Sum Unit Unit) := fun _ => do
  let cr ← charsRight E
  if cr = 0 then pure (.inr ()) else do
    countStep E
    pure (.inl ())

/-- the pre-scan of `Escape w` only moves the position -/
theorem ef_countLoop (isPrint : Nat → Bool)
    (hW : ∀ c, Generated.metaChars.contains c = true → E.orc.isWord c = false)
    (hP : ∀ c, 9 ≤ c → c ≤ 13 → isPrint c = false) (w : List Nat) :
    ∀ (s : PS) (fuel : Nat), E.pat.drop s.pos = escape isPrint w → w.length < fuel →
      ∃ p', iter (countBody E) fuel () s = .ok () { s with pos := p' } := by
  induction w with
  | nil =>
    intro s fuel hD hf
    obtain ⟨fuel, rfl⟩ : ∃ m, fuel = m + 1 := ⟨fuel - 1, by omega⟩
    have hl : E.pat.length - s.pos = 0 := by
      have := congrArg List.length hD; simpa [escape] using this
    refine ⟨s.pos, iter_inr _ _ _ _ _ _ ?_⟩
    simp [countBody, bind, M.bind, charsRight, hl, pure, M.pure]
  | cons r w ih =>
    intro s fuel hD hf
    obtain ⟨fuel, rfl⟩ : ∃ m, fuel = m + 1 := ⟨fuel - 1, by omega⟩
    rw [ef_escape_cons] at hD
    by_cases hr : isRaw isPrint r = true
    · rw [ef_escapeRune_raw isPrint r hr] at hD
      simp only [List.cons_append, List.nil_append] at hD
      obtain ⟨hlt, _, hd1⟩ := drop_cons_facts E hD
      have hl : E.pat.length - s.pos ≠ 0 := by omega
      obtain ⟨p', h⟩ := ih { s with pos := s.pos + 1 } fuel hd1 (by simp at hf; omega)
      refine ⟨p', (iter_inl _ _ _ () _ _ ?_).trans h⟩
      simp [countBody, bind, M.bind, charsRight, hl, pure, M.pure,
        ef_countStep_raw E s r _ hD (ef_raw_ord isPrint hP r hr)]
    · obtain ⟨body, hb⟩ := ef_escapeRune_esc isPrint r (by simpa using hr)
      rw [hb] at hD
      simp only [List.cons_append] at hD
      obtain ⟨hlt, _, hd1⟩ := drop_cons_facts E hD
      obtain ⟨hd2, _⟩ := drop_add_of_append hd1
      have hl : E.pat.length - s.pos ≠ 0 := by omega
      obtain ⟨p', h⟩ := ih { s with pos := s.pos + 1 + body.length } fuel hd2 (by simp at hf; omega)
      refine ⟨p', (iter_inl _ _ _ () _ _ ?_).trans h⟩
      simp [countBody, bind, M.bind, charsRight, hl, pure, M.pure, ef_countStep_esc E isPrint hW s r body _ hb hD]

/-- the capture tables of a pattern without groups: slot 0 only, no names -/
def noGroupTables : Groups.Tables :=
  if E.ord then Groups.assignOrderedNameSlots E.cfg Groups.initState else Groups.assignNameSlots Groups.initState

theorem countCaptures_eq (fuel : Nat) : countCaptures E fuel = (do
    modify fun s => { s with g := Groups.initState }
    iter (countBody E) fuel ()
    assignNameSlots E) := rfl

theorem ef_countCaptures (isPrint : Nat → Bool)
    (hW : ∀ c, Generated.metaChars.contains c = true → E.orc.isWord c = false)
    (hP : ∀ c, 9 ≤ c → c ≤ 13 → isPrint c = false)
    (w : List Nat) (hpat : E.pat = escape isPrint w) (s : PS) (hpos : s.pos = 0)
    (fuel : Nat) (hf : E.pat.length < fuel) :
    ∃ s', countCaptures E fuel s = .ok (noGroupTables E) s' := by
  have hlen : w.length < fuel := by
    have := Lemmas.Escape.escape_length isPrint w; rw [← hpat] at this; omega
  obtain ⟨p', h⟩ := ef_countLoop E isPrint hW hP w { s with g := Groups.initState } fuel
    (by simp [hpos, hpat]) hlen
  rw [countCaptures_eq]
  simp only [bind, M.bind, modify, h, assignNameSlots, noGroupTables]
  cases E.ord <;> simp [Groups.initState]

/-- **`Parse` on `Escape w`, any option set** (IgnoreCase included): no error, the tables of a pattern without
    groups, the root Capture 0 over the concatenation of the `EscKids` of `w` -/
theorem ef_parse_any (isPrint : Nat → Bool)
    (hW : ∀ c, Generated.metaChars.contains c = true → E.orc.isWord c = false)
    (hP : ∀ c, 9 ≤ c → c ≤ 13 → isPrint c = false)
    (w : List Nat) (hpat : E.pat = escape isPrint w) :
    ∃ ks, parse E = .ok { root := litRoot E.opts ks, tables := noGroupTables E } ∧ EscKids E isPrint E.opts w ks := by
  obtain ⟨s1, h1⟩ := ef_countCaptures E isPrint hW hP w hpat { options := E.opts } rfl
    (E.pat.length + 1) (by omega)
  obtain ⟨ks, s2, h2, h3⟩ := ef_scanRegex E isPrint hW hP w hpat (resetState E (noGroupTables E)) rfl rfl
    (E.pat.length + 1) (by omega)
  refine ⟨ks, ?_, h3⟩
  unfold parse parseFuel
  simp only [h1, h2]
  rfl

/-- **`Parse` on `Escape w`**, any option set without IgnoreCase: the children are literal leaves spelling `w` -/
theorem ef_parse (isPrint : Nat → Bool)
    (hW : ∀ c, Generated.metaChars.contains c = true → E.orc.isWord c = false)
    (hP : ∀ c, 9 ≤ c → c ≤ 13 → isPrint c = false)
    (w : List Nat) (hpat : E.pat = escape isPrint w) (hi : E.opts.i = false) :
    ∃ ks, parse E = .ok { root := litRoot E.opts ks, tables := noGroupTables E } ∧ kidsRunes ks = some w := by
  obtain ⟨ks, h1, h2⟩ := ef_parse_any E isPrint hW hP w hpat
  exact ⟨ks, h1, escKids_runes E isPrint E.opts hi w ks h2⟩

theorem noGroupTables_caps : (noGroupTables E).caps = [0] ∧ (noGroupTables E).captop = 1 := by
  unfold noGroupTables Env.ord Env.cfg
  cases E.mco <;> cases E.opts.e <;> cases E.opts.n <;> exact ⟨rfl, rfl⟩

end RegexVerif.Parser
