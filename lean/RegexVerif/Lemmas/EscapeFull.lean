/-
C19, "Escape yields a literal" on the FULL parser model (`Model/Parser.lean`): exact evaluation of
`Parser.parse` on the pattern `Escape s`.  (`Lemmas/EscapeParse.lean` proves the same about `parseLit`, the
model of the parser restricted to the literal fragment; this file is about `scanRegex`/`countCaptures`
themselves.)
-/
import RegexVerif.Lemmas.ParserExact
import RegexVerif.Lemmas.EscapeParse

namespace RegexVerif.Parser
open RegexVerif.EscapeParse (isSpaceCh isSpecialCh isQuantCh isDigitCh isTrueQuant)
open RegexVerif.Escape (escape escapeRune hex2 hex4 hexChar bslash)
open RegexVerif.Lemmas.Escape (plainAfterBackslash)
open RegexVerif.Lemmas.EscapeParse (plainAfterBackslashP)

set_option linter.unusedSimpArgs false

variable (E : Env)

/-! ## exact evaluation of the escape scanners -/

theorem ef_hexGo_of_scanHex : ∀ (n acc : Nat) (l : List Nat) (v : Nat) (rest : List Nat) (k : Nat),
    Escape.scanHex n acc l = some (v, rest) → hexGo n l acc k = .ok v (k + n) ∧ l.length = rest.length + n := by
  intro n
  induction n with
  | zero => intro acc l v rest k h; simp [Escape.scanHex] at h; simp [hexGo, h.1, h.2]
  | succ n ih =>
    intro acc l v rest k h
    cases l with
    | nil => simp [Escape.scanHex] at h
    | cons ch t =>
      simp only [Escape.scanHex] at h
      cases hd : Escape.hexDigit ch with
      | none => simp [hd] at h
      | some d =>
        simp only [hd] at h
        have := ih _ _ _ _ (k + 1) h
        simp only [hexGo, hd, this.1, List.length_cons, this.2]
        constructor
        · congr 1; omega
        · omega

/-- what the three guards of `scanCharEscape` read -/
theorem ef_scanCharEscape_plain (s : PS) (c : Nat) (r : List Nat) (hD : E.pat.drop s.pos = c :: r)
    (hp : plainAfterBackslash c = true)
    (hw : (!s.options.e && !s.options.re2 && E.orc.isWord c) = false) :
    scanCharEscape E s = .ok c { s with pos := s.pos + 1 } := by
  obtain ⟨hlt, hc, hr⟩ := drop_cons_facts E hD
  simp [plainAfterBackslash] at hp
  obtain ⟨h0, a1, a2, a3, a4, a5, a6, a7, a8, a9, a10, a11⟩ := hp
  have h0' : ¬ (48 ≤ c ∧ c ≤ 55) := by omega
  unfold scanCharEscape
  simp [bind, M.bind, moveRightGetChar, rightChar, moveRight, modify, textpos, opts, charsRight, rest, pure,
    M.pure, hc, h0', a1, a2, a3, a4, a5, a6, a7, a8, a9, a10, a11, hw]


/-- the letter escapes `\a \f \n \r \t \v` -/
theorem ef_scanCharEscape_letter (s : PS) (c : Nat) (r : List Nat) (hD : E.pat.drop s.pos = c :: r) :
    (c = 97 → scanCharEscape E s = .ok 7 { s with pos := s.pos + 1 }) ∧
    (c = 102 → scanCharEscape E s = .ok 12 { s with pos := s.pos + 1 }) ∧
    (c = 110 → scanCharEscape E s = .ok 10 { s with pos := s.pos + 1 }) ∧
    (c = 114 → scanCharEscape E s = .ok 13 { s with pos := s.pos + 1 }) ∧
    (c = 116 → scanCharEscape E s = .ok 9 { s with pos := s.pos + 1 }) ∧
    (c = 118 → scanCharEscape E s = .ok 11 { s with pos := s.pos + 1 }) := by
  obtain ⟨hlt, hc, hr⟩ := drop_cons_facts E hD
  refine ⟨?_, ?_, ?_, ?_, ?_, ?_⟩ <;> intro h <;> subst h <;> unfold scanCharEscape <;>
    simp [bind, M.bind, moveRightGetChar, rightChar, moveRight, modify, textpos, opts, charsRight, rest, pure,
      M.pure, hc]

/-- `\xHH` -/
theorem ef_scanCharEscape_hex2 (s : PS) (v : Nat) (hv : v < 256) (r : List Nat)
    (hD : E.pat.drop s.pos = 120 :: (hex2 v ++ r)) :
    scanCharEscape E s = .ok v { s with pos := s.pos + 3 } := by
  obtain ⟨hlt, hc, hr⟩ := drop_cons_facts E hD
  have hb : hexChar (v / 16) ≠ 123 := Lemmas.Escape.hexChar_ne_brace _ (by omega)
  have hx := ef_hexGo_of_scanHex 2 0 _ _ _ 0 (Lemmas.Escape.scanHex_hex2 v hv r)
  have hlen : 2 ≤ (hex2 v ++ r).length := by simp [hex2]
  simp only [hex2, List.cons_append, List.nil_append] at hr hx hlen
  unfold scanCharEscape
  simp [bind, M.bind, moveRightGetChar, rightChar, moveRight, modify, textpos, opts, charsRight, rest, pure,
    M.pure, hc, hr, attempt, scanHex, liftL, hx.1, hb]

/-- `\uHHHH` -/
theorem ef_scanCharEscape_hex4 (s : PS) (v : Nat) (hv : v < 65536) (r : List Nat)
    (hD : E.pat.drop s.pos = 117 :: (hex4 v ++ r)) :
    scanCharEscape E s = .ok v { s with pos := s.pos + 5 } := by
  obtain ⟨hlt, hc, hr⟩ := drop_cons_facts E hD
  have hb : hexChar (v / 4096) ≠ 123 := Lemmas.Escape.hexChar_ne_brace _ (by omega)
  have hx := ef_hexGo_of_scanHex 4 0 _ _ _ 0 (Lemmas.Escape.scanHex_hex4 v hv r)
  have hlen : 4 ≤ (hex4 v ++ r).length := by simp [hex4]
  simp only [hex4, List.cons_append, List.nil_append] at hr hx hlen
  unfold scanCharEscape
  simp [bind, M.bind, moveRightGetChar, rightChar, moveRight, modify, textpos, opts, charsRight, rest, pure,
    M.pure, hc, hr, attempt, scanHex, liftL, hx.1, hb]

/-- the rune after the backslash is none of the anchor, class, property and reference letters of
    `scanBackslash`/`scanBasicBackslash` (`b B A G Z z w W s S d D p P k`), not `<` `'`, not `1`…`9` -/
def bsPass (c : Nat) : Bool :=
  !([98, 66, 65, 71, 90, 122, 119, 87, 115, 83, 100, 68, 112, 80, 107, 60, 39].contains c) &&
  !(decide (49 ≤ c ∧ c ≤ 57))

/-- `scanBackslash` on such a rune hands over to `scanCharEscape` ("Not backreference: must be char
    code") and wraps its rune in a One node -/
theorem ef_scanBackslash (so : Bool) (s s' : PS) (c v : Nat) (r : List Nat) (hD : E.pat.drop s.pos = c :: r)
    (hp : bsPass c = true) (h : scanCharEscape E s = .ok v s') :
    scanBackslash E so s =
      .ok (if so then dummy else nodeCh E .one s.options (if s.options.i then E.orc.toLower v else v)) s' := by
  obtain ⟨hlt, hc, hr⟩ := drop_cons_facts E hD
  simp [bsPass] at hp
  obtain ⟨⟨b1, b2, b3, b4, b5, b6, b7, b8, b9, b10, b11, b12, b13, b14, b15, b16, b17⟩, hd⟩ := hp
  have hd' : ¬ (49 ≤ c ∧ c ≤ 57) := by omega
  have e : ({ s with pos := s.pos } : PS) = s := rfl
  have hne : E.pat.length - s.pos ≠ 0 := by omega
  unfold scanBackslash scanBasicBackslash bbHead bbCharCode
  cases so <;>
  simp [bind, M.bind, rightChar, moveRight, modify, textpos, textto, opts, charsRight, pure, M.pure, hc, hne,
    hasCapnames, b1, b2, b3, b4, b5, b6, b7, b8, b9, b10, b11, b12, b13, b14, b15, b16, b17, hd', e, h]


/-! ## one escaped rune -/

/-- `escape` writes the rune as itself: printable and not in `meta`, or not printable and above U+FFFF -/
def isRaw (isPrint : Nat → Bool) (r : Nat) : Bool :=
  (isPrint r && !Generated.metaChars.contains r) || (!isPrint r && decide (0x10000 ≤ r))

theorem ef_escapeRune_raw (isPrint : Nat → Bool) (r : Nat) (h : isRaw isPrint r = true) :
    escapeRune isPrint r = [r] := by
  unfold isRaw at h
  unfold escapeRune
  cases hp : isPrint r <;> simp [hp] at h ⊢
  · repeat' split
    all_goals first | rfl | omega
  · simp [h]

theorem ef_escapeRune_esc (isPrint : Nat → Bool) (r : Nat) (h : isRaw isPrint r = false) :
    ∃ body, escapeRune isPrint r = 92 :: body := by
  unfold isRaw at h
  unfold escapeRune
  cases hp : isPrint r <;> simp [hp] at h ⊢
  · have h2 : r < 65536 := by omega
    simp only [bslash, h2, if_true]
    repeat' split
    all_goals exact ⟨_, rfl⟩
  · simp [h, bslash]

theorem ef_bsPass_of_P (c : Nat) (h : plainAfterBackslashP c = true) :
    bsPass c = true ∧ plainAfterBackslash c = true := by
  simp only [plainAfterBackslashP, Bool.and_eq_true] at h
  simp only [bsPass, Bool.and_eq_true]
  refine ⟨⟨h.1.2, ?_⟩, h.1.1⟩
  have := h.2
  simp at this ⊢
  omega

/-- **One escaped rune is one call of `scanBackslash`** (the backslash consumed), which returns the One
    node of that rune (nothing, in the pre-scan) and stands right after the escape — for every option set
    without IgnoreCase. -/
theorem ef_scanBackslash_escapeRune (isPrint : Nat → Bool)
    (hW : ∀ c, Generated.metaChars.contains c = true → E.orc.isWord c = false)
    (r : Nat) (body rest : List Nat) (hb : escapeRune isPrint r = 92 :: body)
    (so : Bool) (s : PS) (hD : E.pat.drop s.pos = body ++ rest) (hi : s.options.i = false) :
    scanBackslash E so s =
      .ok (if so then dummy else .mk .one s.options r [] none 0 0 []) { s with pos := s.pos + body.length } := by
  have key : ∀ (c v : Nat) (tl : List Nat) (s' : PS), E.pat.drop s.pos = c :: tl → bsPass c = true →
      scanCharEscape E s = .ok v s' →
      scanBackslash E so s = .ok (if so then dummy else .mk .one s.options v [] none 0 0 []) s' := by
    intro c v tl s' h1 h2 h3
    rw [ef_scanBackslash E so s s' c v tl h1 h2 h3]
    simp [nodeCh, hi]
  unfold escapeRune at hb
  by_cases hp : isPrint r = true
  · by_cases hm : Generated.metaChars.contains r = true
    · have hm' : r ∈ Generated.metaChars := by simpa using hm
      simp [hp, hm', bslash] at hb
      subst hb
      obtain ⟨p1, p2⟩ := ef_bsPass_of_P r (List.all_eq_true.mp Lemmas.EscapeParse.meta_plainP r (by simpa using hm))
      simp only [List.cons_append, List.nil_append] at hD
      exact key r r rest _ hD p1 (ef_scanCharEscape_plain E s r rest hD p2 (by simp [hW r hm]))
    · have hm' : r ∉ Generated.metaChars := by simpa using hm
      simp [hp, hm', bslash] at hb
      rw [hb.1] at hm; exact absurd (by decide) hm
  · have hp' : isPrint r = false := by simpa using hp
    simp only [hp', Bool.false_eq_true, if_false] at hb
    have letter : ∀ (c v : Nat), body = [c] → bsPass c = true →
        (∀ tl, E.pat.drop s.pos = c :: tl → scanCharEscape E s = .ok v { s with pos := s.pos + 1 }) →
        scanBackslash E so s = .ok (if so then dummy else .mk .one s.options v [] none 0 0 [])
          { s with pos := s.pos + body.length } := by
      intro c v hbody hps hsc
      subst hbody
      simp only [List.cons_append, List.nil_append] at hD
      exact key c v rest _ hD hps (hsc rest hD)
    by_cases h7 : r = 7
    · subst h7; simp [bslash] at hb
      exact letter 97 7 hb.symm (by decide) (fun tl h => (ef_scanCharEscape_letter E s 97 tl h).1 rfl)
    by_cases h12 : r = 12
    · subst h12; simp [bslash] at hb
      exact letter 102 12 hb.symm (by decide) (fun tl h => (ef_scanCharEscape_letter E s 102 tl h).2.1 rfl)
    by_cases h10 : r = 10
    · subst h10; simp [bslash] at hb
      exact letter 110 10 hb.symm (by decide) (fun tl h => (ef_scanCharEscape_letter E s 110 tl h).2.2.1 rfl)
    by_cases h13 : r = 13
    · subst h13; simp [bslash] at hb
      exact letter 114 13 hb.symm (by decide) (fun tl h => (ef_scanCharEscape_letter E s 114 tl h).2.2.2.1 rfl)
    by_cases h9 : r = 9
    · subst h9; simp [bslash] at hb
      exact letter 116 9 hb.symm (by decide) (fun tl h => (ef_scanCharEscape_letter E s 116 tl h).2.2.2.2.1 rfl)
    by_cases h11 : r = 11
    · subst h11; simp [bslash] at hb
      exact letter 118 11 hb.symm (by decide) (fun tl h => (ef_scanCharEscape_letter E s 118 tl h).2.2.2.2.2 rfl)
    simp only [h7, h12, h10, h13, h9, h11, if_false] at hb
    by_cases hx : r < 0x100
    · simp [hx, bslash] at hb
      subst hb
      simp only [List.cons_append] at hD
      have := key 120 r _ _ hD (by decide) (ef_scanCharEscape_hex2 E s r hx rest hD)
      simpa [hex2] using this
    · by_cases hu : r < 0x10000
      · simp [hx, hu, bslash] at hb
        subst hb
        simp only [List.cons_append] at hD
        have := key 117 r _ _ hD (by decide) (ef_scanCharEscape_hex4 E s r hu rest hD)
        simpa [hex4] using this
      · simp [hx, hu, bslash] at hb
        omega

end RegexVerif.Parser
