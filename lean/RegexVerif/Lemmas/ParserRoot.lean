/-
The root of the raw tree: `Parse` returns a Capture node number 0 with exactly one child (the first
conjuncts of `wfTree`).  Invariant of the main scan: the group at the bottom of the group stack (the
current group when the stack is empty) is the Capture 0 that `scanRegex` starts with, still without
children; only the final `addGroup` gives it its one child.
-/
import RegexVerif.Lemmas.ParserMain

namespace RegexVerif.Parser
open RegexVerif.EscapeParse (isSpaceCh isSpecialCh isQuantCh isDigitCh isTrueQuant isTrueBrace dropDigits)
set_option linter.unusedSimpArgs false

variable (E : Env)

theorem wp_and {α : Type} {m : M α} {Q1 Q2 : α → PS → Prop} {R1 R2 : PS → Prop} {s : PS}
    (h1 : wp m Q1 R1 s) (h2 : wp m Q2 R2 s) :
    wp m (fun a s' => Q1 a s' ∧ Q2 a s') (fun s' => R1 s' ∧ R2 s') s := by
  unfold wp at *
  cases h : m s <;> rw [h] at h1 h2 <;> simp_all

/-- the root group while it is open: Capture 0 without children -/
def RootOK (g : RNode) : Prop := g.t = .capture ∧ g.m = 0 ∧ g.kids = []

/-- the group at the bottom of the group stack -/
def bottomGroup (s : PS) : RNode :=
  match s.stack.getLast? with
  | none => s.group
  | some fr => fr.group

def RootInv (s : PS) : Prop := RootOK (bottomGroup s)

theorem bottomGroup_congr {s s' : PS} (hst : s'.stack = s.stack) (hg : s'.group = s.group) :
    bottomGroup s' = bottomGroup s := by
  unfold bottomGroup; rw [hst, hg]

theorem bottomGroup_of_stack {s s' : PS} (hst : s'.stack = s.stack) (hne : s.stack ≠ []) :
    bottomGroup s' = bottomGroup s := by
  unfold bottomGroup
  rw [hst]
  cases h : s.stack.getLast? with
  | none => exact absurd (List.getLast?_eq_none_iff.mp h) hne
  | some fr => rfl

theorem bottomGroup_nil {s : PS} (h : s.stack = []) : bottomGroup s = s.group := by
  unfold bottomGroup; rw [h]; rfl

theorem bottomGroup_push {s s' : PS} {fr : Frame} (hst : s'.stack = fr :: s.stack) (hfr : fr.group = s.group) :
    bottomGroup s' = bottomGroup s := by
  unfold bottomGroup
  rw [hst]
  cases hs : s.stack with
  | nil => simp [hfr]
  | cons a l =>
    rw [List.getLast?_cons_cons]
    cases hl : (a :: l).getLast? with
    | none => simp at hl
    | some x => rfl

theorem bottomGroup_pop {s s' : PS} {fr : Frame} {st : List Frame} (hs : s.stack = fr :: st) (hst : s'.stack = st)
    (hg : st = [] → s'.group = fr.group) : bottomGroup s' = bottomGroup s := by
  unfold bottomGroup
  rw [hst, hs]
  cases h : st with
  | nil => simp [hg h]
  | cons a l =>
    rw [List.getLast?_cons_cons]
    cases hl : (a :: l).getLast? with
    | none => simp at hl
    | some x => rfl

/-! ## The tree-building operations, with the group tracked -/

theorem wp_addAlternate_g (Q : Unit → PS → Prop) (R : PS → Prop) (s : PS)
    (hq : ∀ s', s'.stack = s.stack → (isCond s.group.t = false → s'.group = s.group) → Q () s') :
    wp addAlternate Q R s := by
  unfold addAlternate
  rw [wp_modify]
  apply hq
  · dsimp only; split <;> rfl
  · intro h; dsimp only; simp [h]

theorem wp_addGroup_g (Q : Unit → PS → Prop) (s : PS)
    (hq : ∀ s', Keep s s' →
      (isCond s.group.t = false → ∃ u, s'.unit = some u ∧ u.t = s.group.t ∧ u.m = s.group.m ∧
        u.kids.length = s.group.kids.length + 1) → Q () s') :
    wp addGroup Q (fun _ => True) s := by
  rw [wp_eq_resOk]
  unfold addGroup
  simp only [resOk_ite, resOk_ok, resOk_err, implies_true, true_and, and_true]
  refine ⟨fun hc _ => hq _ ⟨rfl, rfl, rfl⟩ (fun h => by simp [h] at hc),
    fun hc => hq _ ⟨rfl, rfl, rfl⟩ (fun _ => ⟨_, rfl, ?_, ?_, ?_⟩)⟩
  all_goals (cases hg : s.group; simp [RNode.addChild, RNode.t, RNode.m, RNode.kids])

theorem wp_popGroup_g (Q : Unit → PS → Prop) (s : PS) (hne : s.stack ≠ [])
    (hq : ∀ s' fr st, s.stack = fr :: st → s'.stack = st → (fr.group.t ≠ .exprCond → s'.group = fr.group) →
      s'.pos = s.pos → s'.optionsStack = s.optionsStack → Q () s') :
    wp popGroup Q (fun _ => True) s := by
  rw [wp_eq_resOk]
  unfold popGroup
  cases hst : s.stack with
  | nil => exact absurd hst hne
  | cons fr st =>
    cases hu : s.unit <;>
      simp only [hu, resOk_ite, resOk_ok, resOk_err, implies_true, true_and, and_true] <;>
      first
        | exact fun _ => hq _ fr st hst rfl (fun _ => rfl) rfl rfl
        | exact ⟨fun hc => hq _ fr st hst rfl (fun hn => by simp [hn] at hc) rfl rfl,
            fun _ => hq _ fr st hst rfl (fun _ => rfl) rfl rfl⟩

theorem wp_addToConcatenate_g (pos cch : Nat) (Q : Unit → PS → Prop) (R : PS → Prop) (s : PS)
    (hb : cch = 0 ∨ pos + cch ≤ E.pat.length)
    (hq : ∀ s', s'.stack = s.stack → s'.group = s.group → Q () s') : wp (addToConcatenate E pos cch) Q R s := by
  rw [wp_eq_resOk]
  unfold addToConcatenate
  simp only [resOk_ite, resOk_ok, resOk_err, resOk_fault]
  refine ⟨fun _ => hq _ rfl rfl, fun h0 => ⟨fun h1 => by omega, fun _ => ⟨fun _ => hq _ rfl rfl,
    fun _ => ⟨fun _ => hq _ rfl rfl, fun _ => hq _ rfl rfl⟩⟩⟩⟩

/-! ## The root invariant through one turn and the loop -/

macro_rules
  | `(tactic| wp_simp3) => `(tactic| simp only [andM, orM, andMM, rcIs, rcNe, getIs, nextIs, wp_bind, wp_pure, wp_ite,
      wp_moveRightGetChar, wp_moveLeft, wp_textpos, wp_opts, wp_charsRight, wp_rest, wp_moveRight, wp_throw, wp_textto,
      wp_rightChar, wp_charAt, wp_get, wp_modify, wp_fault, wp_setOpts, wp_isCaptureSlot, wp_captureSlotFromName,
      wp_hasCapnames, wp_consumeAutocap, wp_emptyOptionsStack, wp_pushOptions, Bool.false_eq_true, if_false, if_true,
      wp_isTrueQuantifier, wp_setUnit, wp_addConcatenate, wp_addConcatenate3, wp_popOptions, wp_popKeepOptions,
      pushGroup, startGroup])

attribute [local irreducible] wp

theorem bg_stepLiteral (sp ep : Nat) (isQ wp0 : Bool) (s : PS) (hse : sp ≤ ep) (hep : ep ≤ E.pat.length) :
    wp (stepLiteral E sp ep isQ wp0) (fun _ s' => s'.stack = s.stack ∧ s'.group = s.group) (fun _ => True) s := by
  unfold stepLiteral
  wp_run
  all_goals
    apply wp_addToConcatenate_g E _ _ _ _ _ (Or.inr (by omega))
    intro s1 hst hg
    wp_run

theorem bg_stepAfter (b : Bool) (s s1 : PS) (hs : s1.pos ≤ E.pat.length) (hu : s1.unit.isSome = true)
    (hst : s1.stack = s.stack) (hg : s1.group = s.group) :
    wp (stepAfter E b) (fun _ s' => bottomGroup s' = bottomGroup s) (fun _ => True) s1 := by
  refine wp_mono (wp_stepAfter E b s1 hs hu) ?_ (fun _ _ => trivial)
  intro _ s' ⟨_, hf, _, _⟩
  exact bottomGroup_congr (hf.st.trans hst) (hf.gr.trans hg)

theorem bg_stepOpen (b : Bool) (s : PS) (hs : s.pos ≤ E.pat.length) :
    wp (stepOpen E b) (fun _ s' => bottomGroup s' = bottomGroup s) (fun _ => True) s := by
  unfold stepOpen
  wp_run
  · rename_i s1 _ _ h _ _
    exact bottomGroup_congr h.2.1 h.2.2.2.1
  · rename_i s1 _ _ h _ _ _
    exact (bottomGroup_push (s := s1) rfl rfl).trans (bottomGroup_congr h.2.1 h.2.2.2.1)

theorem bg_stepClose (b : Bool) (s : PS) (hs : s.pos ≤ E.pat.length)
    (hl : s.optionsStack.length = s.stack.length) (hr : RootInv s) :
    wp (stepClose E b) (fun _ s' => bottomGroup s' = bottomGroup s) (fun _ => True) s := by
  unfold stepClose
  wp_run
  rename_i hne
  have hne' : s.stack ≠ [] := by intro h; simp [h] at hne
  apply wp_addGroup_g
  intro s1 hk1 _
  have hst1 := hk1.st
  try wp_simp3
  apply wp_popGroup_g _ _ (by rw [hst1]; exact hne')
  intro s2 fr st hfr hst2 hg2 hp2 ho2
  have hb1 : bottomGroup s1 = bottomGroup s := bottomGroup_of_stack hst1 hne'
  have hb2 : bottomGroup s2 = bottomGroup s1 := by
    refine bottomGroup_pop hfr hst2 (fun hnil => hg2 ?_)
    have hr1 : RootOK (bottomGroup s1) := by rw [hb1]; exact hr
    have : bottomGroup s1 = fr.group := by unfold bottomGroup; rw [hfr, hnil]; rfl
    rw [this] at hr1
    rw [hr1.1]; decide
  try wp_simp3
  have hne2 : s2.optionsStack ≠ [] := by
    rw [ho2, hk1.os]
    intro h
    rw [h] at hl
    exact hne' (List.eq_nil_of_length_eq_zero (by simpa using hl.symm))
  have hp1 := hk1.pos
  refine ⟨hne2, ?_⟩
  intro o _
  refine ⟨fun _ => (bottomGroup_congr rfl rfl).trans (hb2.trans hb1), fun hun => ?_⟩
  refine wp_mono (bg_stepAfter E b s2 _ (by omega_s) (by cases h : s2.unit <;> simp_all) rfl rfl) ?_ (fun _ _ => trivial)
  intro _ s3 h3
  exact h3.trans (hb2.trans hb1)

theorem bg_stepSwitch (o : Opts) (ch : Nat) (isQ wasPrev : Bool) (s : PS) (hs : s.pos ≤ E.pat.length)
    (h1 : 1 ≤ s.pos) (hl : s.optionsStack.length = s.stack.length) (hr : RootInv s) :
    wp (stepSwitch E o ch isQ wasPrev) (fun _ s' => bottomGroup s' = bottomGroup s) (fun _ => True) s := by
  unfold stepSwitch
  wp_run
  -- `[`
  · rename_i h _
    exact bg_stepAfter E _ s _ (by omega_s) rfl h.2.1 h.2.2.2.1
  -- `(`
  · apply wp_stepIsPythonRef
    intro b hb
    wp_run
    · rename_i h _
      exact bg_stepAfter E _ s _ (by omega_s) rfl h.2.1 h.2.2.2.1
    · exact bg_stepOpen E isQ s hs
  -- `|`
  · apply wp_addAlternate_g
    intro s' hst hg
    by_cases hnil : s.stack = []
    · refine bottomGroup_congr hst (hg ?_)
      have : RootOK s.group := by rw [← bottomGroup_nil hnil]; exact hr
      rw [this.1]; decide
    · exact bottomGroup_of_stack hst hnil
  -- `)`
  · exact bg_stepClose E isQ s hs hl hr
  -- backslash
  · rename_i h _
    exact bg_stepAfter E _ s _ (by omega_s) rfl h.2.1 h.2.2.2.1
  all_goals first
    | exact bg_stepAfter E _ s _ (by omega_s) rfl rfl rfl
    | skip
  -- a quantifier
  refine bg_stepAfter E _ s _ (by omega_s) ?_ rfl rfl
  cases h : s.unit <;> simp_all

theorem bg_scanStep (b : Bool) (s : PS) (hs : s.pos < E.pat.length)
    (hl : s.optionsStack.length = s.stack.length) (hr : RootInv s) :
    wp (scanStep E b) (fun _ s' => bottomGroup s' = bottomGroup s) (fun _ => True) s := by
  unfold scanStep
  simp only [wp_bind]
  apply wp_stepRun E s (by omega)
  intro sp ep p' h1 h2 h3 h4 _
  refine wp_mono (wp_stepHead E _ (by omega_s)) ?_ (fun _ _ => trivial)
  intro r s2 hcases
  have hlit : ∀ (q : PS) (isQ : Bool), q.stack = s.stack → q.group = s.group →
      wp (stepLiteral E sp ep isQ b)
        (fun _ s' => Keep q s' ∧ s'.stack = s.stack ∧ s'.group = s.group) (fun _ => True) q := by
    intro q isQ hq1 hq2
    refine wp_mono (wp_and (wp_stepLiteral E sp ep isQ b q h2 (by omega)) (bg_stepLiteral E sp ep isQ b q h2 (by omega)))
      ?_ (fun _ _ => trivial)
    intro _ s' ⟨⟨hk, _⟩, ha, hb⟩
    exact ⟨hk, ha.trans hq1, hb.trans hq2⟩
  dsimp only at hcases ⊢
  rcases hcases with ⟨hr', hs2, _⟩ | ⟨hr', hs2, _⟩ | ⟨c, hc, hsp, hr', hs2⟩
  all_goals
    subst hr' hs2
    refine wp_mono (hlit _ _ rfl rfl) ?_ (fun _ _ => trivial)
    intro wasPrev s3 ⟨hk3, hst3, hg3⟩
    simp only [wp_opts, wp_ite, wp_pure]
  · exact ⟨fun _ => bottomGroup_congr hst3 hg3, fun h => absurd trivial h⟩
  · exact ⟨fun h => by simp at h, fun _ => ⟨fun _ => bottomGroup_congr hst3 hg3, fun h => absurd trivial h⟩⟩
  · have hb3 : bottomGroup s3 = bottomGroup s := bottomGroup_congr hst3 hg3
    have hp3 := hk3.pos
    dsimp only at hp3 hc
    have hlt := (List.getElem?_eq_some_iff.mp hc).1
    refine ⟨fun h => ?_, fun _ => ⟨fun h => ?_, fun _ => ?_⟩⟩
    · subst h; simp [isSpecialCh] at hsp
    · subst h; simp [isSpecialCh] at hsp
    · refine wp_mono (bg_stepSwitch E _ c _ wasPrev s3 (by omega) (by omega)
        (by rw [hk3.os, hk3.st]; exact hl) (by unfold RootInv; rw [hb3]; exact hr)) ?_ (fun _ _ => trivial)
      intro _ s' h
      exact h.trans hb3

/-- after the loop: with an empty group stack the root group is closed and becomes the unit -/
syntax "fin_root " ident ident : tactic
macro_rules
  | `(tactic| fin_root $sc $hinv) => `(tactic| (
      try simp only [wp_bind, wp_get, wp_ite, wp_throw]
      refine ⟨fun _ => trivial, fun hemp => ?_⟩
      apply wp_addGroup_g
      intro s2 _ hsome
      try simp only [wp_bind, wp_get]
      have hnil : ($sc).stack = [] := by
        cases hh : ($sc).stack with
        | nil => rfl
        | cons a l => simp [hh] at hemp
      have hro : RootOK ($sc).group := by rw [← bottomGroup_nil hnil]; exact $hinv
      obtain ⟨u, hu, h1, h2, h3⟩ := hsome (by rw [hro.1]; decide)
      split
      · rename_i u' hu'
        rw [hu] at hu'
        simp only [Option.some.injEq] at hu'
        subst hu'
        simp only [wp_pure]
        exact ⟨h1.trans hro.1, h2.trans hro.2.1, by rw [h3, hro.2.2]; rfl⟩
      · simp_all))

/-- **the root**: `scanRegex` started with empty stacks returns a Capture 0 with exactly one child -/
theorem wp_scanRegex_root (s : PS) (hs : s.pos ≤ E.pat.length) (hu : s.unit = none)
    (hos : s.optionsStack = []) (hst : s.stack = []) (n : Nat) (hn : E.pat.length - s.pos < n) :
    wp (scanRegex E n) (fun r _ => r.t = .capture ∧ r.m = 0 ∧ r.kids.length = 1) (fun _ => True) s := by
  unfold scanRegex
  simp only [wp_bind, wp_opts, startGroup, wp_modify]
  refine wp_iter E _ (fun _ s' => TurnInv E s' ∧ RootInv s') _ _ ?_ _ _ _ (by dsimp only; omega)
    ⟨⟨hs, hu, by simp [hos, hst]⟩, ?_⟩
  · intro b s1 ⟨⟨h1, h2, h3⟩, hinv⟩
    simp only [wp_bind, wp_charsRight, wp_ite, wp_pure]
    refine ⟨fun _ => ?_, fun h0 => ?_⟩
    · fin_root s1 hinv
    · refine wp_mono (wp_and (wp_scanStep E b s1 (by omega) h2 h3) (bg_scanStep E b s1 (by omega) h3 hinv)) ?_
        (fun _ _ => trivial)
      intro r s2 ⟨h, hbg⟩
      have hinv2 : RootInv s2 := by unfold RootInv; rw [hbg]; exact hinv
      cases r with
      | inl b' => exact ⟨⟨h.1, hinv2⟩, h.2⟩
      | inr _ =>
        dsimp only
        fin_root s2 hinv2
  · unfold RootInv
    rw [bottomGroup_nil (by dsimp only; exact hst)]
    exact ⟨rfl, rfl, rfl⟩

/-- **the root of the raw tree** is the Capture node number 0 with exactly one child -/
theorem parseFuel_root (n : Nat) (hn : E.pat.length < n) (t : RawTree) (h : parseFuel E n = .ok t) :
    t.root.t = .capture ∧ t.root.m = 0 ∧ t.root.kids.length = 1 := by
  unfold parseFuel at h
  split at h <;> try (simp at h; done)
  rename_i tb s' hcc
  split at h <;> try (simp at h; done)
  rename_i root s'' hsr
  simp only [Outcome.ok.injEq] at h
  subst h
  have h2 := wp_scanRegex_root E (resetState E tb) (Nat.zero_le _) rfl rfl rfl n (by simp only [resetState]; omega)
  rw [wp_eq_resOk, hsr] at h2
  exact h2

end RegexVerif.Parser
