/-
The capture pre-scan (`countCaptures`) is total: every turn of its loop consumes at least one rune,
never pops an empty options stack, and keeps `capnames ≠ nil → capnamelist ≠ []` (what
`assignNameSlots` indexes).
-/
import RegexVerif.Lemmas.ParserCharSet

namespace RegexVerif.Parser

open RegexVerif.EscapeParse (isSpaceCh isSpecialCh isQuantCh isDigitCh isTrueQuant)

variable (E : Env)

/-! ## `scanBlank` exactly, and when it consumes something -/

theorem blankGo_pos (x : Bool) (c : Nat) (r : List Nat)
    (h : (x = true ∧ (isSpaceCh c = true ∨ c = 35)) ∨ (c = 40 ∧ r.head? = some 63 ∧ r.tail.head? = some 35)) :
    1 ≤ (blankGo x .normal (c :: r) 0).1 := by
  have h1 := (blankGo_bounds x r .normal 1).1
  have h2 := (blankGo_bounds x r .line 1).1
  have h3 := (blankGo_bounds x r .paren 1).1
  simp only [blankGo]
  split
  · exact h1
  · split
    · exact h2
    · split
      · exact h3
      · rename_i n1 n2 n3
        rcases h with ⟨hx, hc⟩ | hc
        · subst hx
          rcases hc with hc | hc
          · simp [hc] at n1
          · simp [hc] at n2
        · exact absurd hc n3

theorem drop_eq_cons_of_getElem? {l : List Nat} {p c : Nat} (h : l[p]? = some c) : l.drop p = c :: l.drop (p + 1) := by
  obtain ⟨hlt, rfl⟩ := List.getElem?_eq_some_iff.mp h
  exact List.drop_eq_getElem_cons hlt

/-- `scanBlank` consumes at least one rune when it stands on white space or `#` under
    IgnorePatternWhitespace, or on `(?#` -/
theorem wp_scanBlank_progress (s : PS) (hs : s.pos ≤ E.pat.length)
    (h : (s.options.x = true ∧ ∃ c, E.pat[s.pos]? = some c ∧ (isSpaceCh c = true ∨ c = 35)) ∨
         (E.pat[s.pos]? = some 40 ∧ E.pat[s.pos + 1]? = some 63 ∧ E.pat[s.pos + 2]? = some 35)) :
    wp (scanBlank E) (fun _ s' => AdvF E (s.pos + 1) s s') (AdvF E (s.pos + 1) s) s := by
  have hb := blankGo_bounds s.options.x (E.pat.drop s.pos) .normal 0
  have hl := drop_length_le E s hs
  have hp : 1 ≤ (blankGo s.options.x .normal (E.pat.drop s.pos) 0).1 := by
    rcases h with ⟨hx, c, hc, hcc⟩ | ⟨h0, h1, h2⟩
    · rw [drop_eq_cons_of_getElem? hc]
      exact blankGo_pos _ _ _ (Or.inl ⟨hx, hcc⟩)
    · rw [drop_eq_cons_of_getElem? h0]
      refine blankGo_pos _ _ _ (Or.inr ⟨rfl, ?_, ?_⟩)
      · simpa using h1
      · simpa [Nat.add_assoc] using h2
  unfold wp scanBlank
  simp only []
  split <;> (rename_i heq; split at heq <;> simp at heq <;> (obtain ⟨_, rfl⟩ := heq; refine ⟨?_, ?_, rfl, id⟩ <;> simp <;> omega))

/-! ## Options stack -/

theorem wp_popOptions (Q : Unit → PS → Prop) (R : PS → Prop) (s : PS) :
    wp popOptions Q R s ↔ s.optionsStack ≠ [] ∧
      ∀ o, s.optionsStack.head? = some o → Q () { s with options := o, optionsStack := s.optionsStack.tail } := by
  unfold wp popOptions
  cases h : s.optionsStack <;> simp

theorem wp_popKeepOptions (Q : Unit → PS → Prop) (R : PS → Prop) (s : PS) :
    wp popKeepOptions Q R s ↔ s.optionsStack ≠ [] ∧ Q () { s with optionsStack := s.optionsStack.tail } := by
  unfold wp popKeepOptions
  cases h : s.optionsStack <;> simp

theorem wp_assignNameSlots (s : PS) (h : NamesOK s.g) (Q : Groups.Tables → PS → Prop) (R : PS → Prop)
    (hq : ∀ t, Q t s) : wp (assignNameSlots E) Q R s := by
  unfold NamesOK at h
  unfold wp assignNameSlots
  by_cases ho : E.ord = true
  · simp only [ho, if_true]
    exact hq _
  · have hn : ¬(s.g.capnames.isSome = true ∧ s.g.capnamelist.isEmpty = true) := by
      intro ⟨h1, h2⟩
      exact h h1 (by simpa using h2)
    simp only [ho, hn, if_false, Bool.false_eq_true]
    exact hq _

theorem namesOK_initState : NamesOK Groups.initState := by
  unfold NamesOK
  simp [Groups.initState]


attribute [local irreducible] wp

/-! ## The cases of `countStep` -/

theorem scans_countNamed (o : Opts) : ScansK E 2 (countNamed E o) := by
  intro s hs
  unfold countNamed
  wp_run

theorem scans_countPython : ScansK E 3 (countPython E) := by
  intro s hs
  unfold countPython
  wp_run

theorem scans_countPlain : Scans E countPlain := by
  intro s hs
  unfold countPlain
  wp_run

/-- what a turn of the pre-scan keeps: position at or after the floor, inside the pattern, names -/
structure AdvC (p : Nat) (s s' : PS) : Prop where
  floor : p ≤ s'.pos
  inside : s'.pos ≤ E.pat.length
  names : NamesOK s.g → NamesOK s'.g

theorem wp_countOptions (s : PS) (hs : s.pos ≤ E.pat.length) (ho : s.optionsStack ≠ []) :
    wp (countOptions E) (fun _ s' => AdvC E s.pos s s') (AdvC E s.pos s) s := by
  unfold countOptions
  wp_run
  all_goals simp only [wp_popKeepOptions]
  all_goals wp_run

theorem wp_countQuestion (o : Opts) (s : PS) (hs : s.pos + 1 ≤ E.pat.length) (ho : s.optionsStack ≠ []) :
    wp (countQuestion E o) (fun _ s' => AdvC E s.pos s s') (AdvC E s.pos s) s := by
  unfold countQuestion
  wp_run
  all_goals
    refine wp_mono (wp_countOptions E _ (by adv) (by simpa using ho)) ?_ ?_
    all_goals (intros; rename_i h; exact ⟨by have := h.floor; dsimp only at this; omega, h.inside, h.names⟩)

/-- `countComment` from just after the first rune of a comment: ends at or after the start -/
theorem wp_countComment (s : PS) (hs : s.pos ≤ E.pat.length) (h1 : 1 ≤ s.pos)
    (h : (s.options.x = true ∧ ∃ c, E.pat[s.pos - 1]? = some c ∧ (isSpaceCh c = true ∨ c = 35)) ∨
         (E.pat[s.pos - 1]? = some 40 ∧ E.pat[s.pos]? = some 63 ∧ E.pat[s.pos + 1]? = some 35)) :
    wp (countComment E) (fun _ s' => AdvF E s.pos s s') (AdvF E s.pos s) s := by
  unfold countComment
  wp_simp3
  refine ⟨by omega, ?_⟩
  apply wp_ignoreErr
  have e1 : s.pos - 1 + 1 = s.pos := by omega
  have e2 : s.pos - 1 + 2 = s.pos + 1 := by omega
  refine wp_mono (wp_scanBlank_progress E _ (by dsimp only; omega) ?_) ?_ ?_
  · dsimp only
    rw [e1, e2]
    exact h
  all_goals (intros; rename_i h'; exact ⟨by have := h'.floor; dsimp only at this; omega, h'.inside, h'.frame, h'.names⟩)

theorem AdvC.weaken {p q : Nat} {s0 s s' s'' : PS} (h : AdvC E p s s') (hq : q ≤ p) (hp : s''.pos = s'.pos)
    (hg : s''.g = s'.g) (hg0 : s.g = s0.g) : AdvC E q s0 s'' :=
  ⟨by have := h.floor; omega, by have := h.inside; omega, by rw [hg, ← hg0]; exact h.names⟩

theorem AdvF.toC {p q : Nat} {s0 s s' s'' : PS} (h : AdvF E p s s') (hq : q ≤ p) (hp : s''.pos = s'.pos)
    (hg : s''.g = s'.g) (hg0 : s.g = s0.g) : AdvC E q s0 s'' :=
  ⟨by have := h.floor; omega, by have := h.inside; omega, by rw [hg, ← hg0]; exact h.names⟩

syntax "le_tac" : tactic
macro_rules | `(tactic| le_tac) => `(tactic| first | omega | (dsimp only; omega))

theorem wp_countParen (o : Opts) (s : PS) (hs : s.pos ≤ E.pat.length) (h1 : 1 ≤ s.pos)
    (hc : E.pat[s.pos - 1]? = some 40) :
    wp (countParen E o) (fun _ s' => AdvC E s.pos s s') (AdvC E s.pos s) s := by
  unfold countParen
  wp_run
  · refine wp_mono (wp_countComment E s hs h1 (Or.inr ⟨hc, ?_, ?_⟩)) ?_ ?_
    · simp_all
    · simp_all
    all_goals (intros; rename_i h'; exact h'.toC E (by le_tac) rfl rfl rfl)
  all_goals
    refine wp_mono (wp_countQuestion E o _ (by le_tac) (by simp)) ?_ ?_
    all_goals (intros; rename_i h'; exact h'.weaken E (by le_tac) rfl rfl rfl)

/-- one turn of the pre-scan consumes at least one rune and keeps the names invariant -/
theorem wp_countStep (s : PS) (hs : s.pos < E.pat.length) :
    wp (countStep E) (fun _ s' => AdvC E (s.pos + 1) s s') (AdvC E (s.pos + 1) s) s := by
  unfold countStep
  wp_run
  · refine wp_mono (wp_countComment E _ (by le_tac) (by le_tac) (Or.inl ⟨by assumption, 35, ?_, Or.inr rfl⟩)) ?_ ?_
    · simp_all
    all_goals (intros; rename_i h'; exact h'.toC E (by le_tac) rfl rfl rfl)
  · simp only [wp_popOptions]
    refine ⟨by simp_all, ?_⟩
    intro o _
    exact ⟨by le_tac, by le_tac, id⟩
  · refine wp_mono (wp_countParen E _ _ (by le_tac) (by le_tac) (by simp_all)) ?_ ?_
    all_goals (intros; rename_i h'; exact h'.weaken E (by le_tac) rfl rfl rfl)

/-- **the capture pre-scan is total** -/
theorem wp_countCaptures (s : PS) (hs : s.pos ≤ E.pat.length) (n : Nat) (hn : E.pat.length - s.pos < n) :
    wp (countCaptures E n) (fun _ s' => s'.pos ≤ E.pat.length) (fun _ => True) s := by
  unfold countCaptures
  wp_simp3
  refine wp_iter E _ (fun _ s' => s'.pos ≤ E.pat.length ∧ NamesOK s'.g) _ _ ?_ _ _ _ (by dsimp only; omega)
    ⟨hs, namesOK_initState⟩
  intro _ s1 ⟨h1, h2⟩
  wp_simp3
  refine ⟨?_, ?_⟩
  · intro h0
    exact wp_assignNameSlots E s1 h2 _ _ (fun _ => h1)
  · intro h0
    refine wp_mono (wp_countStep E s1 (by omega)) ?_ ?_
    · intro _ s2 h
      exact ⟨⟨h.inside, h.names h2⟩, by have := h.floor; have := h.inside; omega⟩
    · intros; trivial

end RegexVerif.Parser
