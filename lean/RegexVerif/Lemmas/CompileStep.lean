/-
Compiler correctness, part 3: single iterations of the interpreter at an instruction of the emitted program —
what `step` does in forward mode (`Entry`) and after `backtrack()` popped a frame of that instruction (`BackEntry`).
-/
import RegexVerif.Lemmas.CompileCode
import RegexVerif.Lemmas.CompileSpec

namespace RegexVerif.Compile
open RegexVerif.VM RegexVerif.Code RegexVerif.Writer RegexVerif.Generated.Opcodes RegexVerif RegexVerif.Lemmas.VM

/-! ## leaving a case -/

theorem step_adv {p : Prog} {env : VM.Env} {s s1 : VMState} {k : Nat} {w : Word}
    (hb : VM.body p env s = .ok (s1, .advance k)) (hf : VM.fetch p (s1.codepos + k + 1) = .ok w) :
    VM.step p env s = .next { s1 with codepos := s1.codepos + k + 1, oper := w } false := by
  rw [step_of_body_ok p env hb]; simp [doAdvance, hf]

theorem step_goto {p : Prog} {env : VM.Env} {s s1 : VMState} {t : Nat} {w : Word}
    (hb : VM.body p env s = .ok (s1, .goto (t : Int))) (hf : VM.fetch p t = .ok w) :
    VM.step p env s = .next { s1 with codepos := t, oper := w } (decide (t ≤ s1.codepos)) := by
  rw [step_of_body_ok p env hb]
  have : ¬ ((t : Int) < 0) := by omega
  simp [doGoto, this, hf]

theorem step_back {p : Prog} {env : VM.Env} {s s1 : VMState} {a : Nat} {rest : List Int} {w : Word}
    (hb : VM.body p env s = .ok (s1, .back)) (ht : s1.track = (a : Int) :: rest) (hf : VM.fetch p a = .ok w) :
    VM.step p env s = .next { s1 with track := rest, codepos := a, oper := { w with back := true } }
      (decide (a < s1.codepos)) := by
  rw [step_of_body_ok p env hb]
  simp [doBacktrack, ht, savedPos_pos, hf]

/-- the state after `backtrack()` popped the saved code position `a`: the case `op | Back` of the instruction at `a`
    is about to run with the frame's data slots on top of the backtracking stack (the text position is stale) -/
structure BackEntry (X : Setup) (a : Nat) (w : Word) (T S : List Int) (C : List (Nat × Nat × Nat))
    (s : VMState) : Prop where
  pc : s.codepos = a
  op : s.oper = { w with back := true }
  tr : s.track = T
  st : s.stack = S
  cap : CapRep X.sl X.p.capsize s.cap C

theorem fail_step {X : Setup} {a : Nat} {rest S : List Int} {C : List (Nat × Nat × Nat)} {s : VMState} {w : Word}
    (hf : FailAt X ((a : Int) :: rest) S C s) (hw : VM.fetch X.p a = .ok w) :
    ∃ s2 chk, VM.step X.p X.env s = .next s2 chk ∧ BackEntry X a w rest S C s2 := by
  obtain ⟨s1, hb, ht, hs, hc⟩ := hf
  exact ⟨_, _, step_back hb ht hw, ⟨rfl, rfl, rfl, hs, hc⟩⟩

theorem Entry.oper {X : Setup} {a i : Nat} {T S : List Int} {C : List (Nat × Nat × Nat)} {s : VMState} {ins : Instr}
    (he : Entry X a i T S C s) (hi : InstrAt X.p a ins) : s.oper = decode ins.op := by
  have := he.op
  rw [hi.fetch] at this
  exact (Except.ok.inj this).symm

/-- a case that succeeds without touching the stacks or the captures: one success, no frames -/
theorem deliver_one {X : Setup} {a i j k : Nat} {T S : List Int} {v : Int} {C : List (Nat × Nat × Nat)} {s s1 : VMState}
    (he : Entry X a i (T ++ [v]) S C s) (hb : VM.body X.p X.env s = .ok (s1, .advance k))
    (h1 : s1.codepos = s.codepos) (htr : s1.track = s.track) (hst : s1.stack = s.stack) (hcap : s1.cap = s.cap)
    (htp : s1.textpos = (j : Int)) (hf : ∃ w, VM.fetch X.p (a + k + 1) = .ok w) :
    Delivers X (a + k + 1) T S S C [⟨j, C⟩] s := by
  obtain ⟨w, hw⟩ := hf
  have hpc : s1.codepos = a := by rw [h1, he.pc]
  refine Delivers.single (v := v) ?_ rfl
  refine Leads.of_step (step_adv hb (by rw [hpc]; exact hw)) (Leads.here ?_)
  exact ⟨by simp [hpc], hw, htp, by simp [htr, he.tr], by simp [hst, he.st], by simp only [hcap]; exact he.cap⟩

/-- a case that fails without touching the stacks or the captures -/
theorem deliver_none {X : Setup} {a i b : Nat} {T S S' : List Int} {v : Int} {C : List (Nat × Nat × Nat)} {s s1 : VMState}
    (he : Entry X a i (T ++ [v]) S C s) (hb : VM.body X.p X.env s = .ok (s1, .back))
    (htr : s1.track = s.track) (hst : s1.stack = s.stack) (hcap : s1.cap = s.cap) :
    Delivers X b T S S' C [] s :=
  Delivers.fail (v := v) (Leads.here ⟨s1, hb, by rw [htr, he.tr], by rw [hst, he.st], by rw [hcap]; exact he.cap⟩)


/-! ## the text -/

section text
variable {T : TP} {sets : List (List Nat)} {env : VM.Env} {se : Spec.Env}

theorem env_len (h : EnvRel T sets env se) : env.len = (se.n : Int) := by
  simp [VM.Env.len, h.text, Spec.Env.n]

theorem charAt_nat (h : EnvRel T sets env se) (j : Nat) :
    VM.charAt env (j : Int) = match se.text[j]? with
      | some c => .ok c
      | none => .error .textIndex := by
  unfold VM.charAt
  have : (0 : Int) ≤ (j : Int) := by omega
  simp only [this, if_true, h.text, Int.toNat_natCast, List.getElem?_toArray]
  cases se.text[j]? <;> rfl

theorem charAt_lt (h : EnvRel T sets env se) (j : Nat) (hj : j < se.n) :
    ∃ c, se.text[j]? = some c ∧ VM.charAt env (j : Int) = .ok c := by
  have hj' : j < se.text.length := hj
  refine ⟨se.text[j], by simp [hj'], ?_⟩
  rw [charAt_nat h]; simp [hj']

end text

/-- a zero-width test -/
theorem assert_delivers {X : Setup} {a i : Nat} {T S : List Int} {C : List (Nat × Nat × Nat)} {s : VMState} {ok : Bool}
    (he : Entry X a i (T ++ [v]) S C s) (hb : VM.body X.p X.env s = .ok (VM.assertion s ok))
    (hf : ∃ w, VM.fetch X.p (a + 1) = .ok w) :
    Delivers X (a + 1) T S S C (if ok then [⟨i, C⟩] else []) s := by
  cases ok with
  | true => exact deliver_one (k := 0) he hb rfl rfl rfl rfl he.tp hf
  | false => exact deliver_none he hb rfl rfl rfl


/-! ## anchors -/

section anchors
variable {X : Setup} {TPx : TP} {sets : List (List Nat)} {a i : Nat} {T S : List Int} {C : List (Nat × Nat × Nat)}
  {s : VMState} {v : Int} {d : Bool}

theorem bare_oper {t : Nat} (he : Entry X a i T S C s) (hia : InstrAt X.p a (i0 t)) (ht : t < 64) :
    s.oper = ⟨t, false, false, false, false⟩ := by
  rw [he.oper hia]; exact decode_plain t ht

theorem nothing_delivers (he : Entry X a i (T ++ [v]) S C s) (hia : InstrAt X.p a (i0 opNothing)) :
    Delivers X (a + 1) T S S C [] s := by
  have hoper := bare_oper he hia (by decide)
  have hop : Op.ofNat? s.oper.op = some .nothing := by rw [hoper]; rfl
  have hb : s.oper.back = false := by rw [hoper]
  have hb2 : s.oper.back2 = false := by rw [hoper]
  have hbody : VM.body X.p X.env s = .ok (s, .back) := by simp only [body, hop, modeOf, hb, hb2]
  exact deliver_none he hbody rfl rfl rfl

theorem beginning_delivers (he : Entry X a i (T ++ [v]) S C s) (hia : InstrAt X.p a (i0 opBeginning))
    (hf : ∃ w, VM.fetch X.p (a + 1) = .ok w) :
    Delivers X (a + 1) T S S C (Spec.m X.se (.anchor .beginning) d ⟨i, C⟩) s := by
  have hoper := bare_oper he hia (by decide)
  have hop : Op.ofNat? s.oper.op = some .beginning := by rw [hoper]; rfl
  have hb : s.oper.back = false := by rw [hoper]
  have hb2 : s.oper.back2 = false := by rw [hoper]
  have hbody : VM.body X.p X.env s = .ok (VM.assertion s (Spec.anchorHolds X.se .beginning i)) := by
    simp only [body, hop, modeOf, hb, hb2, he.tp, Spec.anchorHolds]
    congr 2
    rw [Bool.eq_iff_iff]; first | (simp; done) | (simp; omega)
  simpa [Spec.m] using assert_delivers he hbody hf

theorem start_delivers (hrel : EnvRel TPx sets X.env X.se) (he : Entry X a i (T ++ [v]) S C s)
    (hia : InstrAt X.p a (i0 opStart)) (hf : ∃ w, VM.fetch X.p (a + 1) = .ok w) :
    Delivers X (a + 1) T S S C (Spec.m X.se (.anchor .start) d ⟨i, C⟩) s := by
  have hoper := bare_oper he hia (by decide)
  have hop : Op.ofNat? s.oper.op = some .start := by rw [hoper]; rfl
  have hb : s.oper.back = false := by rw [hoper]
  have hb2 : s.oper.back2 = false := by rw [hoper]
  have hbody : VM.body X.p X.env s = .ok (VM.assertion s (Spec.anchorHolds X.se .start i)) := by
    simp only [body, hop, modeOf, hb, hb2, he.tp, Spec.anchorHolds, hrel.start]
    congr 2
    rw [Bool.eq_iff_iff]; first | (simp; done) | (simp; omega)
  simpa [Spec.m] using assert_delivers he hbody hf

theorem end_delivers (hrel : EnvRel TPx sets X.env X.se) (hi : i ≤ X.se.n) (he : Entry X a i (T ++ [v]) S C s)
    (hia : InstrAt X.p a (i0 opEnd)) (hf : ∃ w, VM.fetch X.p (a + 1) = .ok w) :
    Delivers X (a + 1) T S S C (Spec.m X.se (.anchor .end) d ⟨i, C⟩) s := by
  have hoper := bare_oper he hia (by decide)
  have hop : Op.ofNat? s.oper.op = some .end_ := by rw [hoper]; rfl
  have hb : s.oper.back = false := by rw [hoper]
  have hb2 : s.oper.back2 = false := by rw [hoper]
  have hbody : VM.body X.p X.env s = .ok (VM.assertion s (Spec.anchorHolds X.se .end i)) := by
    simp only [body, hop, modeOf, hb, hb2, he.tp, Spec.anchorHolds, env_len hrel]
    congr 2
    rw [Bool.eq_iff_iff]; first | (simp; done) | (simp; omega)
  simpa [Spec.m] using assert_delivers he hbody hf

theorem bol_delivers (hrel : EnvRel TPx sets X.env X.se) (hi : i ≤ X.se.n) (he : Entry X a i (T ++ [v]) S C s)
    (hia : InstrAt X.p a (i0 opBol)) (hf : ∃ w, VM.fetch X.p (a + 1) = .ok w) :
    Delivers X (a + 1) T S S C (Spec.m X.se (.anchor .bol) d ⟨i, C⟩) s := by
  have hoper := bare_oper he hia (by decide)
  have hop : Op.ofNat? s.oper.op = some .bol := by rw [hoper]; rfl
  have hb : s.oper.back = false := by rw [hoper]
  have hb2 : s.oper.back2 = false := by rw [hoper]
  have hbody : VM.body X.p X.env s = .ok (VM.assertion s (Spec.anchorHolds X.se .bol i)) := by
    simp only [body, hop, modeOf, hb, hb2, caseBol, he.tp, Spec.anchorHolds]
    cases i with
    | zero => simp [VM.assertion]
    | succ j =>
      obtain ⟨c, hc, hch⟩ := charAt_lt hrel j (by omega)
      have e : ((j + 1 : Nat) : Int) - 1 = (j : Int) := by omega
      have hpos : ((j + 1 : Nat) : Int) > 0 := by omega
      simp [hpos, e, hch, hc, Except.map]
  simpa [Spec.m] using assert_delivers he hbody hf

theorem eol_delivers (hrel : EnvRel TPx sets X.env X.se) (hi : i ≤ X.se.n) (he : Entry X a i (T ++ [v]) S C s)
    (hia : InstrAt X.p a (i0 opEol)) (hf : ∃ w, VM.fetch X.p (a + 1) = .ok w) :
    Delivers X (a + 1) T S S C (Spec.m X.se (.anchor .eol) d ⟨i, C⟩) s := by
  have hoper := bare_oper he hia (by decide)
  have hop : Op.ofNat? s.oper.op = some .eol := by rw [hoper]; rfl
  have hb : s.oper.back = false := by rw [hoper]
  have hb2 : s.oper.back2 = false := by rw [hoper]
  have hbody : VM.body X.p X.env s = .ok (VM.assertion s (Spec.anchorHolds X.se .eol i)) := by
    simp only [body, hop, modeOf, hb, hb2, caseEol, he.tp, Spec.anchorHolds, env_len hrel]
    by_cases hlt : i < X.se.n
    · obtain ⟨c, hc, hch⟩ := charAt_lt hrel i hlt
      have hpos : ((X.se.n : Nat) : Int) - (i : Int) > 0 := by omega
      have hne : (i == X.se.n) = false := by simp; omega
      simp [hlt, hch, hc, Except.map, hne]
    · have : i = X.se.n := by omega
      subst this
      simp [VM.assertion]
  simpa [Spec.m] using assert_delivers he hbody hf

theorem endz_delivers (hrel : EnvRel TPx sets X.env X.se) (hi : i ≤ X.se.n) (he : Entry X a i (T ++ [v]) S C s)
    (hia : InstrAt X.p a (i0 opEndZ)) (hf : ∃ w, VM.fetch X.p (a + 1) = .ok w) :
    Delivers X (a + 1) T S S C (Spec.m X.se (.anchor (if TPx.strict then .end else .endz)) d ⟨i, C⟩) s := by
  have hoper := bare_oper he hia (by decide)
  have hop : Op.ofNat? s.oper.op = some .endz := by rw [hoper]; rfl
  have hb : s.oper.back = false := by rw [hoper]
  have hb2 : s.oper.back2 = false := by rw [hoper]
  have hbody : VM.body X.p X.env s =
      .ok (VM.assertion s (Spec.anchorHolds X.se (if TPx.strict then .end else .endz) i)) := by
    simp only [body, hop, modeOf, hb, hb2, caseEndZ, he.tp, env_len hrel, hrel.strict]
    by_cases h1 : i + 1 < X.se.n
    · have hgt : ((X.se.n : Nat) : Int) - (i : Int) > 1 := by omega
      have e1 : (i == X.se.n) = false := by simp; omega
      have e2 : (i + 1 == X.se.n) = false := by simp; omega
      cases TPx.strict <;> simp [hgt, Spec.anchorHolds, e1, e2, VM.assertion]
    · have hgt : ¬ ((X.se.n : Nat) : Int) - (i : Int) > 1 := by omega
      by_cases h2 : i + 1 = X.se.n
      · obtain ⟨c, hc, hch⟩ := charAt_lt hrel i (by omega)
        have e1 : (i == X.se.n) = false := by simp; omega
        have e2 : (i + 1 == X.se.n) = true := by simp; omega
        have e3 : ((X.se.n : Nat) : Int) - (i : Int) = 1 := by omega
        cases TPx.strict <;> simp [hgt, Spec.anchorHolds, e1, e2, e3, hch, hc, Except.map, VM.assertion]
      · have e0 : i = X.se.n := by omega
        subst e0
        cases TPx.strict <;> simp [Spec.anchorHolds, VM.assertion]
  simpa [Spec.m] using assert_delivers he hbody hf

theorem isBoundary_spec (hrel : EnvRel TPx sets X.env X.se) (hi : i ≤ X.se.n) :
    VM.isBoundary X.env X.env.wordChar (i : Int) =
      .ok (((if i = 0 then none else X.se.text[i - 1]?).map X.se.isWord).getD false !=
        ((X.se.text[i]?).map X.se.isWord).getD false) := by
  unfold VM.isBoundary
  rw [env_len hrel]
  have hw : X.env.wordChar = X.se.isWord := funext hrel.word
  have h1 : (if (i : Int) > 0 then (VM.charAt X.env ((i : Int) - 1)).map X.env.wordChar else .ok false) =
      .ok (((if i = 0 then none else X.se.text[i - 1]?).map X.se.isWord).getD false) := by
    cases i with
    | zero => simp
    | succ j =>
      obtain ⟨c, hc, hch⟩ := charAt_lt hrel j (by omega)
      have e : ((j + 1 : Nat) : Int) - 1 = (j : Int) := by omega
      have hpos : ((j + 1 : Nat) : Int) > 0 := by omega
      simp [hpos, e, hch, hc, Except.map, hw]
  have h2 : (if (i : Int) < (X.se.n : Int) then (VM.charAt X.env (i : Int)).map X.env.wordChar else .ok false) =
      .ok (((X.se.text[i]?).map X.se.isWord).getD false) := by
    by_cases hlt : i < X.se.n
    · obtain ⟨c, hc, hch⟩ := charAt_lt hrel i hlt
      have : (i : Int) < (X.se.n : Int) := by omega
      simp [this, hch, hc, Except.map, hw]
    · have : ¬ (i : Int) < (X.se.n : Int) := by omega
      have hn : X.se.text[i]? = none := by
        have : X.se.text.length ≤ i := by have := hi; unfold Spec.Env.n at *; omega
        simp [this]
      simp [this, hn]
  rw [h1, h2]

theorem boundary_delivers (hrel : EnvRel TPx sets X.env X.se) (hi : i ≤ X.se.n) (he : Entry X a i (T ++ [v]) S C s)
    (hia : InstrAt X.p a (i0 opBoundary)) (hf : ∃ w, VM.fetch X.p (a + 1) = .ok w) :
    Delivers X (a + 1) T S S C (Spec.m X.se (.anchor .boundary) d ⟨i, C⟩) s := by
  have hoper := bare_oper he hia (by decide)
  have hop : Op.ofNat? s.oper.op = some .boundary := by rw [hoper]; rfl
  have hb : s.oper.back = false := by rw [hoper]
  have hb2 : s.oper.back2 = false := by rw [hoper]
  have hbody : VM.body X.p X.env s = .ok (VM.assertion s (Spec.anchorHolds X.se .boundary i)) := by
    simp only [body, hop, modeOf, hb, hb2, caseBoundary, he.tp, isBoundary_spec hrel hi, Spec.anchorHolds, Except.map]
    simp
  simpa [Spec.m] using assert_delivers he hbody hf

theorem nonboundary_delivers (hrel : EnvRel TPx sets X.env X.se) (hi : i ≤ X.se.n) (he : Entry X a i (T ++ [v]) S C s)
    (hia : InstrAt X.p a (i0 opNonboundary)) (hf : ∃ w, VM.fetch X.p (a + 1) = .ok w) :
    Delivers X (a + 1) T S S C (Spec.m X.se (.anchor .nonboundary) d ⟨i, C⟩) s := by
  have hoper := bare_oper he hia (by decide)
  have hop : Op.ofNat? s.oper.op = some .nonboundary := by rw [hoper]; rfl
  have hb : s.oper.back = false := by rw [hoper]
  have hb2 : s.oper.back2 = false := by rw [hoper]
  have hbody : VM.body X.p X.env s = .ok (VM.assertion s (Spec.anchorHolds X.se .nonboundary i)) := by
    simp only [body, hop, modeOf, hb, hb2, caseBoundary, he.tp, isBoundary_spec hrel hi, Spec.anchorHolds, Except.map]
    congr 2
    rw [Bool.eq_iff_iff]; simp
  simpa [Spec.m] using assert_delivers he hbody hf

/-- every node type of the constructor `bare` that the fragment contains -/
theorem bare_delivers (hrel : EnvRel TPx sets X.env X.se) (hi : i ≤ X.se.n) {t : Nat} {pat : Spec.Pat}
    (hp : bareToPat TPx t = some pat) (ht : ¬ t = opUpdateBumpalong) (he : Entry X a i (T ++ [v]) S C s)
    (hia : InstrAt X.p a (i0 t)) (hf : ∃ w, VM.fetch X.p (a + 1) = .ok w) :
    Delivers X (a + 1) T S S C (Spec.m X.se pat d ⟨i, C⟩) s := by
  unfold bareToPat at hp
  split at hp
  · next h => cases hp; rw [beq_iff_eq.1 h] at hia; simpa [Spec.m] using nothing_delivers he hia
  split at hp
  · next h => cases hp; rw [beq_iff_eq.1 h] at hia; exact bol_delivers hrel hi he hia hf
  split at hp
  · next h => cases hp; rw [beq_iff_eq.1 h] at hia; exact eol_delivers hrel hi he hia hf
  split at hp
  · next h => cases hp; rw [beq_iff_eq.1 h] at hia; exact boundary_delivers hrel hi he hia hf
  split at hp
  · next h => cases hp; rw [beq_iff_eq.1 h] at hia; exact nonboundary_delivers hrel hi he hia hf
  split at hp
  · next h => cases hp; rw [beq_iff_eq.1 h] at hia; exact beginning_delivers he hia hf
  split at hp
  · next h => cases hp; rw [beq_iff_eq.1 h] at hia; exact start_delivers hrel he hia hf
  split at hp
  · next h => cases hp; rw [beq_iff_eq.1 h] at hia; exact endz_delivers hrel hi he hia hf
  split at hp
  · next h => cases hp; rw [beq_iff_eq.1 h] at hia; exact end_delivers hrel hi he hia hf
  split at hp
  · next h => exact absurd (beq_iff_eq.1 h) ht
  · cases hp

end anchors


/-! ## single characters -/

/-- the character test the interpreter builds from operand `x` of a One (`sel` = 0) / Notone (1) / Set (2) family
    instruction is the specification's predicate `P` -/
def PredOk (X : Setup) (sel : Nat) (x : Int) (P : Spec.Pred) : Prop :=
  ∃ pred, VM.charPred X.p X.env sel x = .ok pred ∧ ∀ r, pred r = P.test X.se r

theorem predOk_one (X : Setup) (ch : Int) (h : 0 ≤ ch) : PredOk X 0 ch (.one ch.toNat false) := by
  refine ⟨_, rfl, ?_⟩
  intro r
  simp only [VM.isCh, Spec.Pred.test, Bool.false_eq_true, if_false]
  rw [Bool.eq_iff_iff]; simp; omega

theorem predOk_notone (X : Setup) (ch : Int) (h : 0 ≤ ch) : PredOk X 1 ch (.notone ch.toNat false) := by
  refine ⟨_, rfl, ?_⟩
  intro r
  simp only [VM.isCh, Spec.Pred.test, Bool.false_eq_true, if_false]
  rw [Bool.eq_iff_iff]; simp; omega

theorem predOk_set {X : Setup} {TPx : TP} {sets : List (List Nat)} (hrel : EnvRel TPx sets X.env X.se)
    (hn : X.p.nsets = sets.length) {k : Nat} {pl : List Nat} {cls : Spec.Cls} (hk : sets[k]? = some pl)
    (hc : TPx.rd pl = some cls) : PredOk X 2 (k : Int) (.set cls false) := by
  have hlt : k < sets.length := (List.getElem?_eq_some_iff.1 hk).1
  refine ⟨X.env.setMem k, ?_, ?_⟩
  · have hk' : k < X.p.nsets := by rw [hn]; exact hlt
    simp [VM.charPred, VM.setPred, hk']
  · intro r; simp only [Spec.Pred.test]; exact hrel.sets k pl cls hk hc r

section chars
variable {X : Setup} {TPx : TP} {sets : List (List Nat)} {a i : Nat} {T S : List Int} {C : List (Nat × Nat × Nat)}
  {s : VMState} {v : Int}

theorem caseChar_delivers (hrel : EnvRel TPx sets X.env X.se) (hi : i ≤ X.se.n) (he : Entry X a i (T ++ [v]) S C s)
    {sel : Nat} {x : Int} {P : Spec.Pred} {ins : Instr} (hia : InstrAt X.p a ins) (hx : ins.args[0]? = some x)
    (hbody : VM.body X.p X.env s = VM.caseChar X.p X.env sel s) {d : Bool} (hrtl : s.oper.rtl = d)
    (hpred : PredOk X sel x P) (hf : ∃ w, VM.fetch X.p (a + 2) = .ok w) :
    Delivers X (a + 2) T S S C (Spec.m X.se (.chr P) d ⟨i, C⟩) s := by
  obtain ⟨pred, hcp, hpr⟩ := hpred
  have hop := hia.operand he.pc 0 x hx
  cases d with
  | true =>
    by_cases hpos : 0 < i
    · obtain ⟨c, hc, hch⟩ := charAt_lt hrel (i - 1) (by omega)
      have e1 : (i : Int) - 1 = ((i - 1 : Nat) : Int) := by omega
      have hfc : ¬ (VM.forwardchars X.env s < 1) := by
        simp only [VM.forwardchars, hrtl, if_true, he.tp]; omega
      have hfn : VM.forwardcharnext X.env true (i : Int) = .ok (c, (i : Int) - 1) := by
        simp [VM.forwardcharnext, e1, hch, Except.map]
      have hi0 : ¬ i = 0 := by omega
      have hm : Spec.m X.se (.chr P) true ⟨i, C⟩ = if P.test X.se c then [⟨i - 1, C⟩] else [] := by
        simp [Spec.m, Spec.stepChar, hc, hi0]
      rw [hm, ← hpr c]
      by_cases hpc : pred c = true
      · have hb : VM.body X.p X.env s = .ok (VM.textto s ((i : Int) - 1), .advance 1) := by
          rw [hbody]; unfold VM.caseChar
          simp only [hfc, if_false, bind, Except.bind, hop, hcp, hrtl, he.tp, hfn, hpc, if_true, pure, Except.pure]
        rw [if_pos hpc]
        exact deliver_one (k := 1) he hb rfl rfl rfl rfl (by simp [VM.textto, e1]) hf
      · have hb : VM.body X.p X.env s = .ok (VM.textto s ((i : Int) - 1), .back) := by
          rw [hbody]; unfold VM.caseChar
          simp only [hfc, if_false, bind, Except.bind, hop, hcp, hrtl, he.tp, hfn, hpc, pure, Except.pure]
          simp
        rw [if_neg hpc]
        exact deliver_none he hb rfl rfl rfl
    · have hi0 : i = 0 := by omega
      have hfc : VM.forwardchars X.env s < 1 := by
        simp only [VM.forwardchars, hrtl, if_true, he.tp]; omega
      have hb : VM.body X.p X.env s = .ok (s, .back) := by
        rw [hbody]; unfold VM.caseChar; simp only [hfc, if_true]
      have hm : Spec.m X.se (.chr P) true ⟨i, C⟩ = [] := by simp [Spec.m, Spec.stepChar, hi0]
      rw [hm]
      exact deliver_none he hb rfl rfl rfl
  | false =>
  by_cases hlt : i < X.se.n
  · obtain ⟨c, hc, hch⟩ := charAt_lt hrel i hlt
    have hfc : ¬ (VM.forwardchars X.env s < 1) := by
      simp only [VM.forwardchars, hrtl, Bool.false_eq_true, if_false, env_len hrel, he.tp]; omega
    have hfn : VM.forwardcharnext X.env false (i : Int) = .ok (c, (i : Int) + 1) := by
      simp [VM.forwardcharnext, hch, Except.map]
    have hm : Spec.m X.se (.chr P) false ⟨i, C⟩ = if P.test X.se c then [⟨i + 1, C⟩] else [] := by
      simp [Spec.m, Spec.stepChar, hc]
    rw [hm, ← hpr c]
    by_cases hpc : pred c = true
    · have hb : VM.body X.p X.env s = .ok (VM.textto s ((i : Int) + 1), .advance 1) := by
        rw [hbody]; unfold VM.caseChar
        simp only [hfc, if_false, bind, Except.bind, hop, hcp, hrtl, he.tp, hfn, hpc, if_true, pure, Except.pure]
      rw [if_pos hpc]
      exact deliver_one (k := 1) he hb rfl rfl rfl rfl (by simp [VM.textto]) hf
    · have hb : VM.body X.p X.env s = .ok (VM.textto s ((i : Int) + 1), .back) := by
        rw [hbody]; unfold VM.caseChar
        simp only [hfc, if_false, bind, Except.bind, hop, hcp, hrtl, he.tp, hfn, hpc, pure, Except.pure]
        simp
      rw [if_neg hpc]
      exact deliver_none he hb rfl rfl rfl
  · have hfc : VM.forwardchars X.env s < 1 := by
      simp only [VM.forwardchars, hrtl, Bool.false_eq_true, if_false, env_len hrel, he.tp]; omega
    have hb : VM.body X.p X.env s = .ok (s, .back) := by
      rw [hbody]; unfold VM.caseChar; simp only [hfc, if_true]
    have hn : X.se.text[i]? = none := by
      have : X.se.text.length ≤ i := by unfold Spec.Env.n at *; omega
      simp [this]
    have hm : Spec.m X.se (.chr P) false ⟨i, C⟩ = [] := by simp [Spec.m, Spec.stepChar, hn]
    rw [hm]
    exact deliver_none he hb rfl rfl rfl

end chars

/-! ## literal strings -/

section multi
variable {X : Setup} {TPx : TP} {sets : List (List Nat)} {a i : Nat} {T S : List Int} {C : List (Nat × Nat × Nat)}
  {s : VMState} {v : Int}

theorem take_succ_eq_iff {α : Type} (l1 l2 : List α) (k : Nat) (x y : α) (h1 : l1[k]? = some x) (h2 : l2[k]? = some y) :
    l1.take (k + 1) = l2.take (k + 1) ↔ l1.take k = l2.take k ∧ x = y := by
  rw [List.take_succ, List.take_succ, h1, h2]
  simp only [Option.toList_some]
  have hl1 : (l1.take k).length = k := by
    have := (List.getElem?_eq_some_iff.1 h1).1; simp [List.length_take]; omega
  have hl2 : (l2.take k).length = k := by
    have := (List.getElem?_eq_some_iff.1 h2).1; simp [List.length_take]; omega
  constructor
  · intro h
    have := List.append_inj h (by rw [hl1, hl2])
    exact ⟨this.1, by simpa using this.2⟩
  · rintro ⟨h, rfl⟩; rw [h]

/-- the comparison loop of `runematch`, left to right, case-sensitive -/
theorem cmpBack_spec (hrel : EnvRel TPx sets X.env X.se) (str : List Nat) (i : Nat) :
    ∀ k, k ≤ str.length → i + k ≤ X.se.n →
      VM.cmpBack X.env false (fun j => .ok (str.getD j.toNat 0)) k (k : Int) ((i + k : Nat) : Int) =
        .ok (decide ((X.se.text.drop i).take k = str.take k)) := by
  intro k
  induction k with
  | zero => intro _ _; simp [VM.cmpBack]
  | succ k ih =>
    intro hk hn
    obtain ⟨c, hc, hch⟩ := charAt_lt hrel (i + k) (by omega)
    have e1 : ((k + 1 : Nat) : Int) - 1 = (k : Int) := by omega
    have e2 : ((i + (k + 1) : Nat) : Int) - 1 = ((i + k : Nat) : Int) := by omega
    have hklt : k < str.length := by omega
    obtain ⟨x, hx⟩ : ∃ x, str[k]? = some x := ⟨str[k], by simp [hklt]⟩
    have hgd : str.getD k 0 = x := by simp [List.getD_eq_getElem?_getD, hx]
    have hc' : (X.se.text.drop i)[k]? = some c := by rw [List.getElem?_drop]; exact hc
    unfold VM.cmpBack
    simp only [e1, e2, hch, Int.toNat_natCast, Bool.false_eq_true, if_false, hgd]
    have hd : decide ((X.se.text.drop i).take (k + 1) = str.take (k + 1)) =
        decide ((X.se.text.drop i).take k = str.take k ∧ c = x) := by
      rw [decide_eq_decide]; exact take_succ_eq_iff _ _ k c x hc' hx
    rw [hd]
    by_cases heq : x = c
    · subst heq
      rw [if_pos rfl, ih (by omega) (by omega)]
      simp
    · rw [if_neg heq]
      have : ¬ c = x := fun h => heq h.symm
      simp [this]

theorem multi_delivers (hrel : EnvRel TPx sets X.env X.se) (hi : i ≤ X.se.n) (he : Entry X a i (T ++ [v]) S C s)
    {k : Nat} {str : List Nat} {d : Bool} (hia : InstrAt X.p a (i1 (opMulti ||| bits d false) (k : Int)))
    (hstr : X.p.strings[k]? = some str) (hf : ∃ w, VM.fetch X.p (a + 2) = .ok w) :
    Delivers X (a + 2) T S S C (Spec.m X.se (nestSeq (str.map (fun r => .chr (.one r false)))) d ⟨i, C⟩) s := by
  cases d with
  | true =>
    have hoper : s.oper = ⟨opMulti, true, false, false, false⟩ := by
      rw [he.oper hia]; exact (decode_bits opMulti (by decide) true false).2
    have hop : Op.ofNat? s.oper.op = some .multi := by rw [hoper]; rfl
    have hb : s.oper.back = false := by rw [hoper]
    have hb2 : s.oper.back2 = false := by rw [hoper]
    have hrtl : s.oper.rtl = true := by rw [hoper]
    have hci : s.oper.ci = false := by rw [hoper]
    have hk0 : (0 : Int) ≤ (k : Int) := by omega
    rw [m_multi_rtl]
    by_cases hlen : str.length ≤ i
    · have hfc : ¬ (VM.forwardchars X.env s < (str.length : Int)) := by
        simp only [VM.forwardchars, hrtl, if_true, he.tp]; omega
      have hcmp := cmpBack_spec hrel str (i - str.length) str.length (Nat.le_refl _) (by omega)
      have epos : ((i - str.length + str.length : Nat) : Int) = (i : Int) := by omega
      rw [List.take_length, epos] at hcmp
      have hrm : VM.runematch X.env s str =
          .ok (if (X.se.text.drop (i - str.length)).take str.length = str then some ((i : Int) - (str.length : Int)) else none) := by
        unfold VM.runematch
        simp only [hfc, if_false, hrtl, if_true, hci, he.tp]
        rw [hcmp]
        by_cases heq : (X.se.text.drop (i - str.length)).take str.length = str
        · simp [heq]
        · simp [heq]
      by_cases heq : (X.se.text.drop (i - str.length)).take str.length = str
      · rw [if_pos heq] at hrm
        rw [if_pos ⟨hlen, heq⟩]
        have hbody : VM.body X.p X.env s = .ok (VM.textto s ((i : Int) - (str.length : Int)), .advance 1) := by
          simp only [body, hop, modeOf, hb, hb2, caseMulti, bind, Except.bind, hia.operand he.pc 0 (k : Int) rfl, hk0,
            if_true, Int.toNat_natCast, hstr, hrm, pure, Except.pure]
        exact deliver_one (k := 1) he hbody rfl rfl rfl rfl (by simp [VM.textto]; omega) hf
      · rw [if_neg heq] at hrm
        rw [if_neg (fun h => heq h.2)]
        have hbody : VM.body X.p X.env s = .ok (s, .back) := by
          simp only [body, hop, modeOf, hb, hb2, caseMulti, bind, Except.bind, hia.operand he.pc 0 (k : Int) rfl, hk0,
            if_true, Int.toNat_natCast, hstr, hrm, pure, Except.pure]
        exact deliver_none he hbody rfl rfl rfl
    · have hfc : VM.forwardchars X.env s < (str.length : Int) := by
        simp only [VM.forwardchars, hrtl, if_true, he.tp]; omega
      have hrm : VM.runematch X.env s str = .ok none := by
        unfold VM.runematch; simp only [hfc, if_true]
      rw [if_neg (fun h => hlen h.1)]
      have hbody : VM.body X.p X.env s = .ok (s, .back) := by
        simp only [body, hop, modeOf, hb, hb2, caseMulti, bind, Except.bind, hia.operand he.pc 0 (k : Int) rfl, hk0,
          if_true, Int.toNat_natCast, hstr, hrm, pure, Except.pure]
      exact deliver_none he hbody rfl rfl rfl
  | false =>
  have hoper : s.oper = ⟨opMulti, false, false, false, false⟩ := by
    rw [he.oper hia]; exact (decode_bits opMulti (by decide) false false).2
  have hop : Op.ofNat? s.oper.op = some .multi := by rw [hoper]; rfl
  have hb : s.oper.back = false := by rw [hoper]
  have hb2 : s.oper.back2 = false := by rw [hoper]
  have hrtl : s.oper.rtl = false := by rw [hoper]
  have hci : s.oper.ci = false := by rw [hoper]
  have hk0 : (0 : Int) ≤ (k : Int) := by omega
  rw [m_multi]
  by_cases hlen : i + str.length ≤ X.se.n
  · have hfc : ¬ (VM.forwardchars X.env s < (str.length : Int)) := by
      simp only [VM.forwardchars, hrtl, Bool.false_eq_true, if_false, env_len hrel, he.tp]; omega
    have hcmp := cmpBack_spec hrel str i str.length (Nat.le_refl _) hlen
    have epos : (i : Int) + (str.length : Int) = ((i + str.length : Nat) : Int) := by omega
    rw [List.take_length] at hcmp
    have hrm : VM.runematch X.env s str =
        .ok (if (X.se.text.drop i).take str.length = str then some ((i : Int) + (str.length : Int)) else none) := by
      unfold VM.runematch
      simp only [hfc, if_false, hrtl, Bool.false_eq_true, hci, he.tp, epos]
      rw [hcmp]
      by_cases heq : (X.se.text.drop i).take str.length = str
      · simp [heq]
      · simp [heq]
    by_cases heq : (X.se.text.drop i).take str.length = str
    · rw [if_pos heq] at hrm ⊢
      have hbody : VM.body X.p X.env s = .ok (VM.textto s ((i : Int) + (str.length : Int)), .advance 1) := by
        simp only [body, hop, modeOf, hb, hb2, caseMulti, bind, Except.bind, hia.operand he.pc 0 (k : Int) rfl, hk0,
          if_true, Int.toNat_natCast, hstr, hrm, pure, Except.pure]
      exact deliver_one (k := 1) he hbody rfl rfl rfl rfl (by simp [VM.textto]) hf
    · rw [if_neg heq] at hrm ⊢
      have hbody : VM.body X.p X.env s = .ok (s, .back) := by
        simp only [body, hop, modeOf, hb, hb2, caseMulti, bind, Except.bind, hia.operand he.pc 0 (k : Int) rfl, hk0,
          if_true, Int.toNat_natCast, hstr, hrm, pure, Except.pure]
      exact deliver_none he hbody rfl rfl rfl
  · have hfc : VM.forwardchars X.env s < (str.length : Int) := by
      simp only [VM.forwardchars, hrtl, Bool.false_eq_true, if_false, env_len hrel, he.tp]; omega
    have hrm : VM.runematch X.env s str = .ok none := by
      unfold VM.runematch; simp only [hfc, if_true]
    have hne : ¬ (X.se.text.drop i).take str.length = str := by
      intro h
      have := congrArg List.length h
      simp [List.length_take] at this
      unfold Spec.Env.n at hlen hi
      omega
    rw [if_neg hne]
    have hbody : VM.body X.p X.env s = .ok (s, .back) := by
      simp only [body, hop, modeOf, hb, hb2, caseMulti, bind, Except.bind, hia.operand he.pc 0 (k : Int) rfl, hk0,
        if_true, Int.toNat_natCast, hstr, hrm, pure, Except.pure]
    exact deliver_none he hbody rfl rfl rfl

end multi

/-! ## control instructions -/

section control
variable {X : Setup} {a i : Nat} {T S : List Int} {C : List (Nat × Nat × Nat)} {s : VMState}

theorem goto_leads (he : Entry X a i T S C s) {t : Nat} (hia : InstrAt X.p a (i1 opGoto (t : Int)))
    (hf : ∃ w, VM.fetch X.p t = .ok w) : Leads X s (Entry X t i T S C) := by
  obtain ⟨w, hw⟩ := hf
  have hoper : s.oper = ⟨opGoto, false, false, false, false⟩ := by rw [he.oper hia]; exact decode_plain opGoto (by decide)
  have hop : Op.ofNat? s.oper.op = some .goto := by rw [hoper]; rfl
  have hb : s.oper.back = false := by rw [hoper]
  have hb2 : s.oper.back2 = false := by rw [hoper]
  have hbody : VM.body X.p X.env s = .ok (s, .goto (t : Int)) := by
    simp only [body, hop, modeOf, hb, hb2, caseGoto, hia.operand he.pc 0 (t : Int) rfl, Except.map]
  exact Leads.of_step (step_goto hbody hw) (Leads.here ⟨rfl, hw, he.tp, he.tr, he.st, he.cap⟩)

/-- a fragment followed by `Goto fin` -/
theorem Delivers.goto {X : Setup} {mid fin : Nat} {T S S' : List Int} {C0 : List (Nat × Nat × Nat)} {rs : List Spec.St}
    {s : VMState} (h : Delivers X mid T S S' C0 rs s) (hgo : InstrAt X.p mid (i1 opGoto (fin : Int)))
    (hf : ∃ w, VM.fetch X.p fin = .ok w) : Delivers X fin T S S' C0 rs s := by
  have := Delivers.bind (X := X) (b := fin) (S' := S') (g := fun r => [r]) rs s h ?_
  · rwa [flatMap_singleton_id] at this
  · intro r _ F s' v' _ he'
    exact Delivers.single (v := v') (goto_leads he' hgo hf) rfl

theorem lazybranch_leads (he : Entry X a i T S C s) {t : Int} (hia : InstrAt X.p a (i1 opLazybranch t))
    (hf : ∃ w, VM.fetch X.p (a + 2) = .ok w) :
    Leads X s (Entry X (a + 2) i ((a : Int) :: (i : Int) :: T) S C) := by
  obtain ⟨w, hw⟩ := hf
  have hoper : s.oper = ⟨opLazybranch, false, false, false, false⟩ := by
    rw [he.oper hia]; exact decode_plain opLazybranch (by decide)
  have hop : Op.ofNat? s.oper.op = some .lazybranch := by rw [hoper]; rfl
  have hb : s.oper.back = false := by rw [hoper]
  have hb2 : s.oper.back2 = false := by rw [hoper]
  have hbody : VM.body X.p X.env s = .ok (VM.push1 s s.textpos, .advance 1) := by
    simp only [body, hop, modeOf, hb, hb2]
  refine Leads.of_step (step_adv hbody (by simp only [VM.push1, he.pc]; exact hw)) (Leads.here ?_)
  exact ⟨by simp [VM.push1, he.pc], hw, by simp [VM.push1, he.tp], by simp [VM.push1, he.pc, he.tp, he.tr],
    by simp [VM.push1, he.st], by simp only [VM.push1]; exact he.cap⟩

theorem lazybranch_frame {t : Int} (hia : InstrAt X.p a (i1 opLazybranch t)) (v : Int) :
    Framed X.p [(a : Int), v] := by
  refine Framed.one _ [v] ?_
  simp [VM.frameSize, savedPos_pos, hia.fetch]
  decide

theorem lazybranch_back (hfail : FailAt X ((a : Int) :: (i : Int) :: T) S C s) {t : Nat}
    (hia : InstrAt X.p a (i1 opLazybranch (t : Int))) (hf : ∃ w, VM.fetch X.p t = .ok w) :
    Leads X s (Entry X t i T S C) := by
  obtain ⟨w, hw⟩ := hf
  obtain ⟨s2, chk, hst, hbe⟩ := fail_step hfail hia.fetch
  refine Leads.of_step hst ?_
  have hoper : s2.oper = ⟨opLazybranch, false, true, false, false⟩ := by
    have : decode (i1 opLazybranch (t : Int)).op = ⟨opLazybranch, false, false, false, false⟩ :=
      decode_plain opLazybranch (by decide)
    rw [hbe.op, this]
  have hop : Op.ofNat? s2.oper.op = some .lazybranch := by rw [hoper]; rfl
  have hb : s2.oper.back = true := by rw [hoper]
  have hb2 : s2.oper.back2 = false := by rw [hoper]
  have hbody : VM.body X.p X.env s2 = .ok (VM.textto { s2 with track := T } (i : Int), .goto (t : Int)) := by
    simp only [body, hop, modeOf, hb, hb2, caseLazybranchBack, hbe.tr, hia.operand hbe.pc 0 (t : Int) rfl, Except.map]
  exact Leads.of_step (step_goto hbody hw) (Leads.here ⟨rfl, hw, rfl, rfl, hbe.st, hbe.cap⟩)

theorem setmark_leads (he : Entry X a i T S C s) (hia : InstrAt X.p a (i0 opSetmark))
    (hf : ∃ w, VM.fetch X.p (a + 1) = .ok w) :
    Leads X s (Entry X (a + 1) i ((a : Int) :: T) ((i : Int) :: S) C) := by
  obtain ⟨w, hw⟩ := hf
  have hoper : s.oper = ⟨opSetmark, false, false, false, false⟩ := by
    rw [he.oper hia]; exact decode_plain opSetmark (by decide)
  have hop : Op.ofNat? s.oper.op = some .setmark := by rw [hoper]; rfl
  have hb : s.oper.back = false := by rw [hoper]
  have hb2 : s.oper.back2 = false := by rw [hoper]
  have hbody : VM.body X.p X.env s = .ok (VM.push0 (VM.spush s s.textpos), .advance 0) := by
    simp only [body, hop, modeOf, hb, hb2]
  refine Leads.of_step (step_adv hbody (by simp only [VM.push0, VM.spush, he.pc]; exact hw)) (Leads.here ?_)
  exact ⟨by simp [VM.push0, VM.spush, he.pc], hw, by simp [VM.push0, VM.spush, he.tp],
    by simp [VM.push0, VM.spush, he.pc, he.tr], by simp [VM.push0, VM.spush, he.st, he.tp],
    by simp only [VM.push0, VM.spush]; exact he.cap⟩

theorem setmark_frame (hia : InstrAt X.p a (i0 opSetmark)) : Framed X.p [(a : Int)] := by
  refine Framed.one _ [] ?_
  simp [VM.frameSize, savedPos_pos, hia.fetch]
  decide

theorem setmark_back {v : Int} (hfail : FailAt X ((a : Int) :: T) (v :: S) C s) (hia : InstrAt X.p a (i0 opSetmark)) :
    Leads X s (FailAt X T S C) := by
  obtain ⟨s2, chk, hst, hbe⟩ := fail_step hfail hia.fetch
  refine Leads.of_step hst (Leads.here ?_)
  have hoper : s2.oper = ⟨opSetmark, false, true, false, false⟩ := by
    have : decode (i0 opSetmark).op = ⟨opSetmark, false, false, false, false⟩ := decode_plain opSetmark (by decide)
    rw [hbe.op, this]
  have hop : Op.ofNat? s2.oper.op = some .setmark := by rw [hoper]; rfl
  have hb : s2.oper.back = true := by rw [hoper]
  have hb2 : s2.oper.back2 = false := by rw [hoper]
  refine ⟨{ s2 with stack := S }, ?_, hbe.tr, rfl, hbe.cap⟩
  simp only [body, hop, modeOf, hb, hb2, casePop1Back, hbe.st]

theorem capturemark_leads {g i0 : Nat} (he : Entry X a i T ((i0 : Int) :: S) C s)
    (hia : InstrAt X.p a (i2 opCapturemark (X.sl g : Int) (-1))) (hg : X.sl g < X.p.capsize)
    (hf : ∃ w, VM.fetch X.p (a + 3) = .ok w) :
    Leads X s (Entry X (a + 3) i ((a : Int) :: (i0 : Int) :: T) S (C ++ [(g, min i0 i, max i0 i - min i0 i)])) := by
  obtain ⟨w, hw⟩ := hf
  have hoper : s.oper = ⟨opCapturemark, false, false, false, false⟩ := by
    rw [he.oper hia]; exact decode_plain opCapturemark (by decide)
  have hop : Op.ofNat? s.oper.op = some .capturemark := by rw [hoper]; rfl
  have hb : s.oper.back = false := by rw [hoper]
  have hb2 : s.oper.back2 = false := by rw [hoper]
  have hcapok : VM.capOk X.p (X.sl g : Int) = true := by simp [VM.capOk, hg]
  have hbody : VM.body X.p X.env s =
      .ok (VM.push1 { s with stack := S, cap := MatchBuilder.capture s.cap (X.sl g) (i0 : Int) (i : Int) } (i0 : Int),
        .advance 2) := by
    simp only [body, hop, modeOf, hb, hb2, caseCapturemark, bind, Except.bind,
      hia.operand he.pc 0 (X.sl g : Int) rfl, hia.operand he.pc 1 (-1) rfl, he.st, he.tp, pure, Except.pure]
    simp [hcapok]
  refine Leads.of_step (step_adv hbody (by simp only [VM.push1, he.pc]; exact hw)) (Leads.here ?_)
  exact ⟨by simp [VM.push1, he.pc], hw, by simp [VM.push1, he.tp], by simp [VM.push1, he.pc, he.tr],
    by simp [VM.push1], by simp only [VM.push1]; exact capRep_capture he.cap g hg i0 i⟩

theorem capturemark_frame {x y : Int} (hia : InstrAt X.p a (i2 opCapturemark x y)) (v : Int) :
    Framed X.p [(a : Int), v] := by
  refine Framed.one _ [v] ?_
  simp [VM.frameSize, savedPos_pos, hia.fetch]
  decide

theorem capturemark_back {g : Nat} {v : Int} {x : Nat × Nat × Nat}
    (hfail : FailAt X ((a : Int) :: v :: T) S (C ++ [x]) s)
    (hia : InstrAt X.p a (i2 opCapturemark (X.sl g : Int) (-1))) :
    Leads X s (FailAt X T (v :: S) C) := by
  obtain ⟨s2, chk, hst, hbe⟩ := fail_step hfail hia.fetch
  refine Leads.of_step hst (Leads.here ?_)
  have hoper : s2.oper = ⟨opCapturemark, false, true, false, false⟩ := by
    have : decode (i2 opCapturemark (X.sl g : Int) (-1)).op = ⟨opCapturemark, false, false, false, false⟩ :=
      decode_plain opCapturemark (by decide)
    rw [hbe.op, this]
  have hop : Op.ofNat? s2.oper.op = some .capturemark := by rw [hoper]; rfl
  have hb : s2.oper.back = true := by rw [hoper]
  have hb2 : s2.oper.back2 = false := by rw [hoper]
  obtain ⟨rest, hcr, hrep⟩ := capRep_uncapture hbe.cap
  refine ⟨{ s2 with track := T, stack := v :: S, cap := MatchBuilder.uncapture s2.cap }, ?_, rfl, rfl, hrep⟩
  simp only [body, hop, modeOf, hb, hb2, caseCapturemarkBack, bind, Except.bind,
    hia.operand hbe.pc 0 (X.sl g : Int) rfl, hia.operand hbe.pc 1 (-1) rfl, VM.restoreMark, hbe.tr, VM.spush,
    VM.uncapture, hcr, hbe.st, pure, Except.pure]
  simp

theorem stop_step (he : Entry X a i T S C s) (hia : InstrAt X.p a (i0 opStop)) : VM.step X.p X.env s = .stop s := by
  have hoper : s.oper = ⟨opStop, false, false, false, false⟩ := by
    rw [he.oper hia]; exact decode_plain opStop (by decide)
  have hop : Op.ofNat? s.oper.op = some .stop := by rw [hoper]; rfl
  have hb : s.oper.back = false := by rw [hoper]
  have hb2 : s.oper.back2 = false := by rw [hoper]
  have hbody : VM.body X.p X.env s = .ok (s, .halt) := by simp only [body, hop, modeOf, hb, hb2]
  rw [step_of_body_ok X.p X.env hbody]; rfl

/-- `UpdateBumpalong`: the bottom slot of the backtracking stack is raised to the text position; one success, nothing
    else changes (what `Delivers` says "up to the bottom slot") -/
theorem updatebumpalong_delivers {v : Int} (he : Entry X a i (T ++ [v]) S C s) (hia : InstrAt X.p a (i0 opUpdateBumpalong))
    (hf : ∃ w, VM.fetch X.p (a + 1) = .ok w) : Delivers X (a + 1) T S S C [⟨i, C⟩] s := by
  obtain ⟨w, hw⟩ := hf
  have hoper : s.oper = ⟨opUpdateBumpalong, false, false, false, false⟩ := by
    rw [he.oper hia]; exact decode_plain opUpdateBumpalong (by decide)
  have hop : Op.ofNat? s.oper.op = some .updatebumpalong := by rw [hoper]; rfl
  have hb : s.oper.back = false := by rw [hoper]
  have hb2 : s.oper.back2 = false := by rw [hoper]
  by_cases hlt : v < (i : Int)
  · have hbody : VM.body X.p X.env s = .ok ({ s with track := T ++ [(i : Int)] }, .advance 0) := by
      simp only [body, hop, modeOf, hb, hb2, caseUpdateBumpalong, he.tr, he.tp]
      simp [hlt]
    refine Delivers.single (v := (i : Int)) (Leads.of_step (step_adv hbody (by simp only [he.pc]; exact hw)) (Leads.here ?_)) rfl
    exact ⟨by simp [he.pc], hw, he.tp, rfl, he.st, he.cap⟩
  · have hbody : VM.body X.p X.env s = .ok (s, .advance 0) := by
      simp only [body, hop, modeOf, hb, hb2, caseUpdateBumpalong, he.tr, he.tp]
      simp [hlt]
    refine Delivers.single (v := v) (Leads.of_step (step_adv hbody (by simp only [he.pc]; exact hw)) (Leads.here ?_)) rfl
    exact ⟨by simp [he.pc], hw, he.tp, he.tr, he.st, he.cap⟩

end control

end RegexVerif.Compile
