import RegexVerif.Model.ClassQuery
import RegexVerif.Lemmas.Class
import RegexVerif.Lemmas.ClassBuild

/-! Helper lemmas for the query functions of character classes (C16, Model/ClassQuery.lean). -/
namespace RegexVerif.Class

/-! ## membership split into head and subtractor -/

/-- membership in the subtracted class (false when there is none) -/
def Class.subMem (cat : Nat → Nat → Bool) : Class → Nat → Bool
  | .leaf _, _ => false
  | .minus _ s, ch => memAlg cat s ch

theorem memAlg_split (cat : Nat → Nat → Bool) (c : Class) (ch : Nat) :
    memAlg cat c ch = (c.flat.memAlg cat ch && !(c.subMem cat ch)) := by
  cases c <;> simp [memAlg, Class.flat, Class.subMem]

/-! ## `equals` -/

theorem eqFields_spec {ig : Bool} {a b : Flat} (h : Flat.eqFields ig a b = true) :
    (ig = false → a.neg = b.neg) ∧ a.anything = b.anything ∧ a.ranges = b.ranges ∧ a.cats = b.cats := by
  simp only [Flat.eqFields, Bool.and_eq_true, Bool.or_eq_true, beq_iff_eq] at h
  obtain ⟨⟨⟨h1, h2⟩, h3⟩, h4⟩ := h
  refine ⟨fun hig => ?_, h2, h3, h4⟩
  rcases h1 with h1 | h1
  · rw [hig] at h1; cases h1
  · exact h1

theorem eqFields_pos (cat : Nat → Nat → Bool) {ig : Bool} {a b : Flat} (h : Flat.eqFields ig a b = true) (ch : Nat) :
    a.pos cat ch = b.pos cat ch := by
  obtain ⟨_, _, h3, h4⟩ := eqFields_spec h
  simp [Flat.pos, h3, h4]

/-- `equals(…, false)` on whole classes implies equal membership -/
theorem equalsGo_false_mem (cat : Nat → Nat → Bool) : ∀ (a b : Class), Class.equalsGo a b false = true →
    ∀ ch, memAlg cat a ch = memAlg cat b ch := by
  intro a
  induction a with
  | leaf f =>
    intro b h ch
    cases b with
    | leaf g =>
      simp only [Class.equalsGo] at h
      have hp := eqFields_pos cat h ch
      have hn := (eqFields_spec h).1 rfl
      simp [memAlg, Flat.memAlg, hp, hn]
    | minus g t => simp [Class.equalsGo] at h
  | minus f s ih =>
    intro b h ch
    cases b with
    | leaf g => simp [Class.equalsGo] at h
    | minus g t =>
      simp only [Class.equalsGo, Bool.and_eq_true] at h
      have hp := eqFields_pos cat h.1 ch
      have hn := (eqFields_spec h.1).1 rfl
      simp [memAlg, Flat.memAlg, hp, hn, ih t h.2 ch]

/-- what `equals(c2, ignoreNegate)` establishes: same positive part and same subtracted membership;
same `negate` unless it is ignored -/
theorem equalsGo_spec (cat : Nat → Nat → Bool) (a b : Class) (ig : Bool) (h : Class.equalsGo a b ig = true) :
    (ig = false → a.flat.neg = b.flat.neg) ∧ a.flat.anything = b.flat.anything ∧
      a.flat.ranges = b.flat.ranges ∧ a.flat.cats = b.flat.cats ∧ a.hasSub = b.hasSub ∧
      ∀ ch, a.subMem cat ch = b.subMem cat ch := by
  cases a with
  | leaf f =>
    cases b with
    | leaf g =>
      simp only [Class.equalsGo] at h
      obtain ⟨h1, h2, h3, h4⟩ := eqFields_spec h
      exact ⟨h1, h2, h3, h4, rfl, fun _ => rfl⟩
    | minus g t => simp [Class.equalsGo] at h
  | minus f s =>
    cases b with
    | leaf g => simp [Class.equalsGo] at h
    | minus g t =>
      simp only [Class.equalsGo, Bool.and_eq_true] at h
      obtain ⟨h1, h2, h3, h4⟩ := eqFields_spec h.1
      exact ⟨h1, h2, h3, h4, rfl, fun ch => equalsGo_false_mem cat s t h.2 ch⟩

/-! ## the enumeration loop -/

theorem anyFrom_false (p : Nat → Bool) : ∀ (n s : Nat), anyFrom p n s = false →
    ∀ i, s ≤ i → i < s + n → p i = false := by
  intro n
  induction n with
  | zero => intro s _ i h1 h2; omega
  | succ n ih =>
    intro s h i h1 h2
    simp only [anyFrom] at h
    by_cases hp : p s = true
    · simp [hp] at h
    · simp only [hp] at h
      by_cases hi : i = s
      · subst hi; simpa using hp
      · exact ih (s + 1) (by simpa using h) i (by omega) (by omega)

theorem anyFrom_true (p : Nat → Bool) : ∀ (n s : Nat), anyFrom p n s = true →
    ∃ i, s ≤ i ∧ i < s + n ∧ p i = true := by
  intro n
  induction n with
  | zero => intro s h; simp [anyFrom] at h
  | succ n ih =>
    intro s h
    simp only [anyFrom] at h
    by_cases hp : p s = true
    · exact ⟨s, Nat.le_refl _, by omega, hp⟩
    · simp only [hp] at h
      obtain ⟨i, h1, h2, h3⟩ := ih (s + 1) (by simpa using h)
      exact ⟨i, by omega, by omega, h3⟩

/-- `mayOverlapByEnumeration(set1, set2) = false`: no rune of `set2`'s ranges is `CharIn` `set1` -/
theorem enum_false (cat : Nat → Nat → Bool) (s1 s2 : Class) (h : mayOverlapByEnumeration cat s1 s2 = false)
    (ch : Nat) (hin : inRanges s2.flat.ranges ch = true) : charIn cat s1 ch = false := by
  unfold mayOverlapByEnumeration at h
  rw [List.any_eq_false] at h
  obtain ⟨r, hr, h1, h2⟩ := (inRanges_iff _ _).1 hin
  have := h r hr
  exact anyFrom_false _ _ _ (by simpa using this) ch h1 (by omega)

theorem enum_true (cat : Nat → Nat → Bool) (s1 s2 : Class) (h : mayOverlapByEnumeration cat s1 s2 = true) :
    ∃ ch, inRanges s2.flat.ranges ch = true ∧ charIn cat s1 ch = true := by
  unfold mayOverlapByEnumeration at h
  rw [List.any_eq_true] at h
  obtain ⟨r, hr, h1⟩ := h
  obtain ⟨i, h2, h3, h4⟩ := anyFrom_true _ _ _ h1
  exact ⟨i, (inRanges_iff _ _).2 ⟨r, hr, h2, by omega⟩, h4⟩

/-- membership of an un-negated class without categories and subtraction is its ranges -/
theorem memAlg_ranges_only (cat : Nat → Nat → Bool) (c : Class) (hn : c.flat.neg = false) (hs : c.hasSub = false)
    (hc : c.flat.cats = []) (ch : Nat) : memAlg cat c ch = inRanges c.flat.ranges ch := by
  cases c with
  | leaf f =>
    simp only [Class.flat] at hn hc
    simp [memAlg, Flat.memAlg, Flat.pos, hn, hc, Class.flat]
  | minus f s => simp [Class.hasSub] at hs

/-! ## the constant classes -/

/-- the facts about the category oracle that `knownDistinctSets` and the small-category test assume; leg
`Kq-facts` checks each against Go's `unicode` tables over all code points -/
structure OracleFacts (cat : Nat → Nat → Bool) (k : Consts) : Prop where
  space_not_nd : ∀ r, r ≤ maxRune → cat k.space r = true → cat k.nd r = false
  space_not_word : ∀ r, r ≤ maxRune → cat k.space r = true → cat k.word r = false
  ecmaSpace_not_nd : ∀ r, r ≤ maxRune → inRanges (fromOldString k.ecmaSpace false).ranges r = true → cat k.nd r = false
  ecmaSpace_not_word : ∀ r, r ≤ maxRune → inRanges (fromOldString k.ecmaSpace false).ranges r = true → cat k.word r = false
  ecmaWord_not_space : ∀ r, r ≤ maxRune → inRanges (fromOldString k.ecmaWord false).ranges r = true → cat k.space r = false
  ecmaDigit_not_space : ∀ r, r ≤ maxRune → inRanges (fromOldString k.ecmaDigit false).ranges r = true → cat k.space r = false

/-- decidable disjointness of two range lists -/
def rangesDisjoint (xs ys : List (Nat × Nat)) : Bool :=
  xs.all (fun a => ys.all (fun b => decide (a.2 < b.1) || decide (b.2 < a.1)))

theorem rangesDisjoint_spec {xs ys : List (Nat × Nat)} (h : rangesDisjoint xs ys = true) (ch : Nat) :
    ¬ (inRanges xs ch = true ∧ inRanges ys ch = true) := by
  rintro ⟨h1, h2⟩
  obtain ⟨a, ha, a1, a2⟩ := (inRanges_iff _ _).1 h1
  obtain ⟨b, hb, b1, b2⟩ := (inRanges_iff _ _).1 h2
  simp only [rangesDisjoint, List.all_eq_true, Bool.or_eq_true, decide_eq_true_eq] at h
  have := h a ha b hb
  omega

/-- the facts about the rune tables of the source (decided on the regenerated tables) -/
structure TableFacts (k : Consts) : Prop where
  space_word : rangesDisjoint (fromOldString k.ecmaSpace false).ranges (fromOldString k.ecmaWord false).ranges = true
  space_digit : rangesDisjoint (fromOldString k.ecmaSpace false).ranges (fromOldString k.ecmaDigit false).ranges = true

theorem mem_of_equals_cat (cat : Nat → Nat → Bool) (a : Class) (id : Nat)
    (h : a.equals (.leaf (fromCategoryString false false [id])) = true) (ch : Nat) :
    memAlg cat a ch = cat id ch := by
  rw [equalsGo_false_mem cat a _ h ch]
  simp [memAlg, Flat.memAlg, Flat.pos, fromCategoryString, inCats, catAccepts]

theorem mem_of_equals_old (cat : Nat → Nat → Bool) (a : Class) (t : List Nat)
    (h : a.equals (.leaf (fromOldString t false)) = true) (ch : Nat) :
    memAlg cat a ch = inRanges (fromOldString t false).ranges ch := by
  rw [equalsGo_false_mem cat a _ h ch]
  have hc : (fromOldString t false).cats = [] := by
    unfold fromOldString; split <;> rfl
  have hn : (fromOldString t false).neg = false := by
    unfold fromOldString; split <;> rfl
  simp [memAlg, Flat.memAlg, Flat.pos, hc, hn]

/-- `knownDistinctSets(set1, set2)` ⇒ disjoint, from the oracle facts and the table facts -/
theorem knownDistinct_sound (cat : Nat → Nat → Bool) (k : Consts) (hk : OracleFacts cat k) (ht : TableFacts k)
    (a b : Class) (h : knownDistinctSets k a b = true) (r : Nat) (hr : r ≤ maxRune) :
    ¬ (memAlg cat a r = true ∧ memAlg cat b r = true) := by
  simp only [knownDistinctSets, Bool.and_eq_true, Bool.or_eq_true] at h
  obtain ⟨h1, h2⟩ := h
  rintro ⟨ma, mb⟩
  rcases h1 with h1 | h1
  · rw [mem_of_equals_cat cat a k.space h1] at ma
    rcases h2 with ((h2 | h2) | h2) | h2
    · rw [mem_of_equals_cat cat b k.nd h2] at mb
      rw [hk.space_not_nd r hr ma] at mb; cases mb
    · rw [mem_of_equals_cat cat b k.word h2] at mb
      rw [hk.space_not_word r hr ma] at mb; cases mb
    · rw [mem_of_equals_old cat b k.ecmaDigit h2] at mb
      rw [hk.ecmaDigit_not_space r hr mb] at ma; cases ma
    · rw [mem_of_equals_old cat b k.ecmaWord h2] at mb
      rw [hk.ecmaWord_not_space r hr mb] at ma; cases ma
  · rw [mem_of_equals_old cat a k.ecmaSpace h1] at ma
    rcases h2 with ((h2 | h2) | h2) | h2
    · rw [mem_of_equals_cat cat b k.nd h2] at mb
      rw [hk.ecmaSpace_not_nd r hr ma] at mb; cases mb
    · rw [mem_of_equals_cat cat b k.word h2] at mb
      rw [hk.ecmaSpace_not_word r hr ma] at mb; cases mb
    · rw [mem_of_equals_old cat b k.ecmaDigit h2] at mb
      exact rangesDisjoint_spec ht.space_digit r ⟨ma, mb⟩
    · rw [mem_of_equals_old cat b k.ecmaWord h2] at mb
      exact rangesDisjoint_spec ht.space_word r ⟨ma, mb⟩

/-! ## `GetSetChars` -/

/-- the runes of the ranges, in order, that `keep` lets through: what the two loops of `GetSetChars` collect -/
def enumChars (keep : Nat → Bool) (rs : List (Nat × Nat)) : List Nat :=
  rs.flatMap (fun r => (List.range' r.1 (r.2 + 1 - r.1)).filter keep)

/-- number of loop iterations over the ranges -/
def rangesSize (rs : List (Nat × Nat)) : Nat := (rs.map (fun r => r.2 + 1 - r.1)).sum

theorem setCharsRange_spec (keep : Nat → Bool) (k : Nat) : ∀ (n ch w : Nat) (acc : List Nat) (w' : Nat) (acc' : List Nat),
    setCharsRange keep k n ch (w, acc) = some (w', acc') → w ≤ k →
    w' = w + n ∧ w' ≤ k ∧ acc' = acc ++ (List.range' ch n).filter keep := by
  intro n
  induction n with
  | zero =>
    intro ch w acc w' acc' h hw
    simp only [setCharsRange, Option.some.injEq, Prod.mk.injEq] at h
    obtain ⟨rfl, rfl⟩ := h
    simp [hw]
  | succ n ih =>
    intro ch w acc w' acc' h hw
    simp only [setCharsRange] at h
    split at h
    · cases h
    · rename_i hle
      obtain ⟨h1, h2, h3⟩ := ih (ch + 1) (w + 1) _ w' acc' h (by omega)
      refine ⟨by omega, h2, ?_⟩
      rw [h3, List.range'_succ, List.filter_cons]
      by_cases hk : keep ch = true <;> simp [hk]

theorem setCharsLoop_spec (keep : Nat → Bool) (k : Nat) : ∀ (rs : List (Nat × Nat)) (w : Nat) (acc : List Nat) (w' : Nat) (acc' : List Nat),
    setCharsLoop keep k rs (w, acc) = some (w', acc') → w ≤ k →
    w' = w + rangesSize rs ∧ w' ≤ k ∧ acc' = acc ++ enumChars keep rs := by
  intro rs
  induction rs with
  | nil =>
    intro w acc w' acc' h hw
    simp only [setCharsLoop, Option.some.injEq, Prod.mk.injEq] at h
    obtain ⟨rfl, rfl⟩ := h
    simp [rangesSize, enumChars, hw]
  | cons r rs ih =>
    intro w acc w' acc' h hw
    simp only [setCharsLoop] at h
    split at h
    · cases h
    · rename_i st hst
      obtain ⟨w1, acc1⟩ := st
      obtain ⟨h1, h2, h3⟩ := setCharsRange_spec keep k _ _ _ _ _ _ hst hw
      obtain ⟨h4, h5, h6⟩ := ih w1 acc1 w' acc' h h2
      refine ⟨by simp only [rangesSize, List.map_cons, List.sum_cons] at *; omega, h5, ?_⟩
      rw [h6, h3]
      simp [enumChars, List.flatMap_cons]

theorem mem_enumChars (keep : Nat → Bool) (rs : List (Nat × Nat)) (x : Nat) :
    x ∈ enumChars keep rs ↔ inRanges rs x = true ∧ keep x = true := by
  simp only [enumChars, List.mem_flatMap, List.mem_filter, List.mem_range'_1, inRanges_iff]
  constructor
  · rintro ⟨r, hr, ⟨h1, h2⟩, h3⟩
    exact ⟨⟨r, hr, h1, by omega⟩, h3⟩
  · rintro ⟨⟨r, hr, h1, h2⟩, h3⟩
    exact ⟨r, hr, ⟨h1, by omega⟩, h3⟩

theorem length_enumChars_le (keep : Nat → Bool) (rs : List (Nat × Nat)) :
    (enumChars keep rs).length ≤ rangesSize rs := by
  induction rs with
  | nil => simp [enumChars, rangesSize]
  | cons r rs ih =>
    simp only [enumChars, List.flatMap_cons, List.length_append, rangesSize, List.map_cons, List.sum_cons] at *
    have := List.length_filter_le keep (List.range' r.1 (r.2 + 1 - r.1))
    simp only [List.length_range'] at this
    omega

/-- on a canonical range list the collected characters are strictly ascending -/
theorem enumChars_sorted (keep : Nat → Bool) (rs : List (Nat × Nat)) (hc : Canon rs) :
    (enumChars keep rs).Pairwise (· < ·) := by
  unfold enumChars
  rw [List.pairwise_flatMap]
  refine ⟨fun r _ => List.Pairwise.filter _ (List.pairwise_lt_range' (s := r.1) (n := r.2 + 1 - r.1)), ?_⟩
  refine List.Pairwise.imp ?_ hc.1
  intro a b hab x hx y hy
  simp only [List.mem_filter, List.mem_range'_1] at hx hy
  omega

/-- what a non-nil answer of `GetSetChars` is -/
theorem getSetChars_some (cat : Nat → Nat → Bool) (c : Class) (k : Nat) (chars : List Nat)
    (h : getSetChars cat c k = some chars) :
    c.flat.cats = [] ∧ (c.isNegated = true → c.hasSubtraction = false) ∧ chars.length ≤ k ∧
      chars = enumChars (fun ch => !(c.hasSubtraction && !(charIn cat c ch))) c.flat.ranges := by
  unfold getSetChars at h
  split at h
  · cases h
  rename_i h1
  split at h
  · cases h
  rename_i h2
  simp only [Option.map_eq_some_iff] at h
  obtain ⟨⟨w', acc'⟩, hl, rfl⟩ := h
  obtain ⟨h3, h4, h5⟩ := setCharsLoop_spec _ k _ 0 [] w' acc' hl (Nat.zero_le _)
  simp only [Bool.or_eq_true, Bool.not_eq_true', decide_eq_true_eq, not_or] at h1
  refine ⟨by simpa using h1.1, ?_, ?_, by simpa using h5⟩
  · intro hn
    simpa [hn] using h2
  · simp only [List.nil_append] at h5
    rw [h5]
    show (enumChars _ _).length ≤ k
    have := length_enumChars_le (fun ch => !(c.hasSubtraction && !(charIn cat c ch))) c.flat.ranges
    omega

/-! ## the ASCII letter pair -/

def asciiLetter (a : Nat) : Bool := (decide (65 ≤ a) && decide (a ≤ 90)) || (decide (97 ≤ a) && decide (a ≤ 122))

def caseChk (a b : Nat) : Bool :=
  !(asciiLetter a && asciiLetter b && decide (a < b) && (a ||| 32) == (b ||| 32)) ||
    (decide (65 ≤ a) && decide (a ≤ 90) && b == a + 32)

set_option maxRecDepth 100000 in
theorem caseChk_all : (List.range' 65 58).all (fun a => (List.range' 65 58).all (caseChk a)) = true := by decide

/-- two different ASCII letters with the same `| 0x20` are the upper and the lower case of one letter -/
theorem ascii_pair (a b : Nat) (ha : asciiLetter a = true) (hb : asciiLetter b = true) (hlt : a < b)
    (hor : (a ||| 32) = (b ||| 32)) : 65 ≤ a ∧ a ≤ 90 ∧ b = a + 32 := by
  have h := caseChk_all
  simp only [List.all_eq_true, List.mem_range'_1] at h
  have ha' : 65 ≤ a ∧ a < 65 + 58 := by
    simp only [asciiLetter, Bool.or_eq_true, Bool.and_eq_true, decide_eq_true_eq] at ha; omega
  have hb' : 65 ≤ b ∧ b < 65 + 58 := by
    simp only [asciiLetter, Bool.or_eq_true, Bool.and_eq_true, decide_eq_true_eq] at hb; omega
  have := h a ha' b hb'
  simp only [caseChk, ha, hb, hlt, hor, decide_true, Bool.and_self, beq_self_eq_true, Bool.not_true, Bool.false_or,
    Bool.and_eq_true, decide_eq_true_eq, beq_iff_eq] at this
  omega

/-! ## `Hash` / `NewCharSetRuntime` -/

/-- a Unicode scalar value: what survives `WriteRune` / `ReadRune` -/
def Scalar (r : Nat) : Prop := r ≤ maxRune ∧ ¬ (0xD800 ≤ r ∧ r ≤ 0xDFFF)

set_option maxRecDepth 8000 in
theorem decode_encode (r : Nat) (rest : List Nat) (h : Scalar r) : decodeRune (encodeRune r ++ rest) = (r, rest) := by
  obtain ⟨h1, h2⟩ := h
  unfold maxRune at h1
  unfold encodeRune
  by_cases c1 : r < 0x80
  · simp [c1, decodeRune]
  · by_cases c2 : r < 0x800
    · simp only [c1, c2, ↓reduceIte, List.cons_append, List.nil_append, decodeRune]
      have e1 : ¬ (0xC0 + r / 64 < 0x80) := by omega
      have e2 : 0xC2 ≤ 0xC0 + r / 64 ∧ 0xC0 + r / 64 ≤ 0xDF := by omega
      have e3 : isCont (0x80 + r % 64) = true := by simp [isCont]; omega
      simp only [e1, e2, e3, and_self, ↓reduceIte]
      congr 1; omega
    · have c3 : ¬ ((0xD800 ≤ r ∧ r ≤ 0xDFFF) ∨ r > maxRune) := by unfold maxRune; omega
      by_cases c4 : r < 0x10000
      · simp only [c1, c2, c3, c4, ↓reduceIte, List.cons_append, List.nil_append, decodeRune]
        have e1 : ¬ (0xE0 + r / 4096 < 0x80) := by omega
        have e2 : ¬ (0xC2 ≤ 0xE0 + r / 4096 ∧ 0xE0 + r / 4096 ≤ 0xDF) := by omega
        have e3 : 0xE0 ≤ 0xE0 + r / 4096 ∧ 0xE0 + r / 4096 ≤ 0xEF := by omega
        have e4 : isCont (0x80 + r % 64) = true := by simp [isCont]; omega
        have e5 : (if 0xE0 + r / 4096 = 0xE0 then 0xA0 else 0x80) ≤ 0x80 + r / 64 % 64 ∧
            0x80 + r / 64 % 64 ≤ (if 0xE0 + r / 4096 = 0xED then 0x9F else 0xBF) ∧ isCont (0x80 + r % 64) = true := by
          refine ⟨?_, ?_, e4⟩
          · split <;> omega
          · split <;> omega
        simp only [e1, e2, e3, e5, and_self, ↓reduceIte]
        congr 1; omega
      · simp only [c1, c2, c3, c4, ↓reduceIte, List.cons_append, List.nil_append, decodeRune]
        have e1 : ¬ (0xF0 + r / 262144 < 0x80) := by omega
        have e2 : ¬ (0xC2 ≤ 0xF0 + r / 262144 ∧ 0xF0 + r / 262144 ≤ 0xDF) := by omega
        have e3 : ¬ (0xE0 ≤ 0xF0 + r / 262144 ∧ 0xF0 + r / 262144 ≤ 0xEF) := by omega
        have e4 : 0xF0 ≤ 0xF0 + r / 262144 ∧ 0xF0 + r / 262144 ≤ 0xF4 := by omega
        have e5 : (if 0xF0 + r / 262144 = 0xF0 then 0x90 else 0x80) ≤ 0x80 + r / 4096 % 64 ∧
            0x80 + r / 4096 % 64 ≤ (if 0xF0 + r / 262144 = 0xF4 then 0x8F else 0xBF) ∧
            isCont (0x80 + r / 64 % 64) = true ∧ isCont (0x80 + r % 64) = true := by
          refine ⟨?_, ?_, by simp [isCont]; omega, by simp [isCont]; omega⟩
          · split <;> omega
          · split <;> omega
        simp only [e1, e2, e3, e4, e5, and_self, ↓reduceIte]
        congr 1; omega

theorem readInt32_int32 (n : Nat) (rest : List Nat) (h : n < 2 ^ 32) : readInt32LE (int32LE n ++ rest) = (n, rest) := by
  simp only [int32LE, List.cons_append, List.nil_append, readInt32LE]
  congr 1; omega

theorem readRanges_spec : ∀ (rs : List (Nat × Nat)) (rest : List Nat), (∀ r ∈ rs, Scalar r.1 ∧ Scalar r.2) →
    readRanges rs.length (rs.flatMap (fun r => encodeRune r.1 ++ encodeRune r.2) ++ rest) = (rs, rest) := by
  intro rs
  induction rs with
  | nil => intro rest _; rfl
  | cons r rs ih =>
    intro rest h
    have hr := h r (List.mem_cons_self ..)
    simp only [List.length_cons, readRanges, List.flatMap_cons, List.append_assoc]
    rw [decode_encode r.1 _ hr.1]
    simp only
    rw [decode_encode r.2 _ hr.2]
    simp only
    rw [ih rest (fun x hx => h x (List.mem_cons_of_mem _ hx))]

/-- a category entry survives the serialisation: its name is at most 127 bytes, not empty when the entry is
negated (the sign of the `int8` length carries `Negate`), and `idOf` inverts `nameOf` on it -/
def CatOk (nameOf : Nat → List Nat) (idOf : List Nat → Nat) (c : Nat × Bool) : Prop :=
  idOf (nameOf c.1) = c.1 ∧ (nameOf c.1).length ≤ 127 ∧ (c.2 = true → 0 < (nameOf c.1).length)

theorem readCats_spec (nameOf : Nat → List Nat) (idOf : List Nat → Nat) : ∀ (cs : List (Nat × Bool)) (rest : List Nat),
    (∀ c ∈ cs, CatOk nameOf idOf c) →
    readCats idOf cs.length (cs.flatMap (hashCat nameOf) ++ rest) = (cs, rest) := by
  intro cs
  induction cs with
  | nil => intro rest _; rfl
  | cons c cs ih =>
    intro rest h
    obtain ⟨h1, h2, h3⟩ := h c (List.mem_cons_self ..)
    have ih' := ih rest (fun x hx => h x (List.mem_cons_of_mem _ hx))
    simp only [List.length_cons, List.flatMap_cons, hashCat, List.cons_append, List.append_assoc, readCats]
    obtain ⟨id, ng⟩ := c
    simp only at h1 h2 h3 ⊢
    cases ng with
    | false =>
      have e2 : (nameOf id).length % 256 = (nameOf id).length := by omega
      have e1 : ¬ ((nameOf id).length ≥ 128) := by omega
      simp only [Bool.false_eq_true, ↓reduceIte, e2, e1, decide_false, List.take_left', List.drop_left', ih', h1]
    | true =>
      have hp := h3 rfl
      have e0 : (256 - (nameOf id).length % 256) % 256 = 256 - (nameOf id).length := by omega
      have e1 : 256 - (nameOf id).length ≥ 128 := by omega
      have e2 : 256 - (256 - (nameOf id).length) = (nameOf id).length := by omega
      simp only [↓reduceIte, e0, e1, decide_true, e2, List.take_left', List.drop_left', ih', h1]

/-- what the serialisation needs of one `CharSet` -/
def Flat.HashOk (nameOf : Nat → List Nat) (idOf : List Nat → Nat) (f : Flat) : Prop :=
  f.ranges.length < 2 ^ 31 ∧ f.cats.length < 2 ^ 31 ∧ (∀ r ∈ f.ranges, Scalar r.1 ∧ Scalar r.2) ∧
    ∀ c ∈ f.cats, CatOk nameOf idOf c

def Class.HashOk (nameOf : Nat → List Nat) (idOf : List Nat → Nat) : Class → Prop
  | .leaf f => f.HashOk nameOf idOf
  | .minus f s => f.HashOk nameOf idOf ∧ Class.HashOk nameOf idOf s

def Class.depth : Class → Nat
  | .leaf _ => 0
  | .minus _ s => s.depth + 1

theorem hashFill_length (nameOf : Nat → List Nat) (f : Flat) : 9 ≤ (f.hashFill nameOf).length := by
  simp [Flat.hashFill, int32LE] <;> omega

theorem hash_length (nameOf : Nat → List Nat) (c : Class) : c.depth < (Class.hash nameOf c).length := by
  induction c with
  | leaf f => have := hashFill_length nameOf f; simp [Class.hash, Class.depth]; omega
  | minus f s ih => have := hashFill_length nameOf f; simp [Class.hash, Class.depth]; omega

/-- reading back one level: the four fields and what is left of the buffer -/
theorem read_level (nameOf : Nat → List Nat) (idOf : List Nat → Nat) (f : Flat) (hf : f.HashOk nameOf idOf)
    (rest : List Nat) :
    let buf := f.hashFill nameOf ++ rest
    let lr := readInt32LE (buf.drop 1)
    let lc := readInt32LE lr.2
    let rs := readRanges lr.1 lc.2
    let cs := readCats idOf lc.1 rs.2
    ((buf.headD 0) % 2 == 1) = f.neg ∧ ((buf.headD 0) / 2 % 2 == 1) = f.anything ∧ rs.1 = f.ranges ∧ cs.1 = f.cats ∧ cs.2 = rest := by
  obtain ⟨h1, h2, h3, h4⟩ := hf
  simp only [Flat.hashFill, List.append_assoc, List.cons_append, List.nil_append, List.headD_cons, List.drop_succ_cons, List.drop_zero]
  rw [readInt32_int32 _ _ (by omega)]
  simp only
  rw [readInt32_int32 _ _ (by omega)]
  simp only
  rw [readRanges_spec f.ranges _ h3]
  simp only
  rw [readCats_spec nameOf idOf f.cats rest h4]
  refine ⟨?_, ?_, trivial, rfl, rfl⟩
  · cases f.neg <;> cases f.anything <;> rfl
  · cases f.neg <;> cases f.anything <;> rfl

/-- the round trip on structures: reading the hash back gives the class itself, as `Copy()` gives it (no
`building` mark, no bitmap) -/
theorem newCharSetRuntime_hash (nameOf : Nat → List Nat) (idOf : List Nat → Nat) : ∀ (c : Class) (fuel : Nat),
    Class.HashOk nameOf idOf c → c.depth < fuel → newCharSetRuntime idOf fuel (Class.hash nameOf c) = c.copy := by
  intro c
  induction c with
  | leaf f =>
    intro fuel hok hfuel
    cases fuel with
    | zero => omega
    | succ fuel =>
      have := read_level nameOf idOf f hok []
      simp only [List.append_nil] at this
      obtain ⟨e1, e2, e3, e4, e5⟩ := this
      simp only [newCharSetRuntime, Class.hash, e1, e2, e3, e4, e5, List.length_nil, Nat.lt_irrefl, ↓reduceIte, Class.copy, Flat.copy]
  | minus f s ih =>
    intro fuel hok hfuel
    cases fuel with
    | zero => omega
    | succ fuel =>
      obtain ⟨e1, e2, e3, e4, e5⟩ := read_level nameOf idOf f hok.1 (Class.hash nameOf s)
      have hpos : (Class.hash nameOf s).length > 0 := by have := hash_length nameOf s; omega
      simp only [Class.depth] at hfuel
      simp only [newCharSetRuntime, Class.hash, e1, e2, e3, e4, e5, hpos, ↓reduceIte, Class.copy, Flat.copy,
        ih fuel hok.2 (by omega)]

theorem memAlg_copy (cat : Nat → Nat → Bool) (c : Class) (ch : Nat) : memAlg cat c.copy ch = memAlg cat c ch := by
  induction c with
  | leaf f => simp [Class.copy, Flat.copy, memAlg, Flat.memAlg, Flat.pos]
  | minus f s ih => simp [Class.copy, Flat.copy, memAlg, Flat.memAlg, Flat.pos, ih]

end RegexVerif.Class
