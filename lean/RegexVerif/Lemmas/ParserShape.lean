/-
Towards joint J2 of the chain (`parse E = .ok t → RawShapeOk t`, Props/C10Chain.lean): a partial-correctness logic for
the parser monad and the VALUE facts of the node-returning scanners — every scanner that hands a node to `scanRegex`
returns a childless node of a leaf type (`scanBackslash`, `scanPythonNamedBackref`) or a childless node of a group
type (`scanGroupOpen`), whatever the state.  (Totality is `Props.C10.parse_total`; the facts here say nothing about
termination and need no position bookkeeping.)  Not yet assembled into the tree invariant of `scanRegex`.
-/
import RegexVerif.Lemmas.ParserRoot

namespace RegexVerif.Parser

variable {α β γ : Type}

/-- partial correctness: started in a state satisfying `P`, IF `m` returns normally THEN `Q` holds of result and state -/
def H (P : PS → Prop) (m : M α) (Q : α → PS → Prop) : Prop := ∀ s a s', P s → m s = .ok a s' → Q a s'

theorem H.bind {P : PS → Prop} {m : M α} {f : α → M β} {Q1 : α → PS → Prop} {Q : β → PS → Prop}
    (h1 : H P m Q1) (h2 : ∀ a, H (Q1 a) (f a) Q) : H P (m >>= f) Q := by
  intro s b s' hp hm
  change M.bind m f s = _ at hm
  unfold M.bind at hm
  cases hr : m s with
  | ok a s1 => rw [hr] at hm; exact h2 a s1 b s' (h1 s a s1 hp hr) hm
  | err c s1 => rw [hr] at hm; cases hm
  | fault x => rw [hr] at hm; cases hm
  | fuel => rw [hr] at hm; cases hm

theorem H.pure {P : PS → Prop} {a : α} {Q : α → PS → Prop} (h : ∀ s, P s → Q a s) : H P (pure a : M α) Q := by
  intro s b s' hp hm
  change M.pure a s = _ at hm
  unfold M.pure at hm
  cases hm
  exact h _ hp

theorem H.throw {P : PS → Prop} {c : ErrCode} {Q : α → PS → Prop} : H P (throw c : M α) Q := by
  intro s b s' _ hm; cases hm

theorem H.fault {P : PS → Prop} {f : Fault} {Q : α → PS → Prop} : H P (fault f : M α) Q := by
  intro s b s' _ hm; cases hm

theorem H.ite {P : PS → Prop} {c : Prop} [Decidable c] {m1 m2 : M α} {Q : α → PS → Prop}
    (h1 : c → H P m1 Q) (h2 : ¬c → H P m2 Q) : H P (if c then m1 else m2) Q := by
  split
  · exact h1 ‹_›
  · exact h2 ‹_›

theorem H.conseq {P P' : PS → Prop} {m : M α} {Q Q' : α → PS → Prop} (h : H P m Q) (hp : ∀ s, P' s → P s)
    (hq : ∀ a s, Q a s → Q' a s) : H P' m Q' :=
  fun s a s' hp' hm => hq a s' (h s a s' (hp s hp') hm)

/-- every total specification is a partial one -/
theorem H.of_wp {P : PS → Prop} {m : M α} {Q : α → PS → Prop} {R : PS → Prop} (h : ∀ s, P s → wp m Q R s) : H P m Q := by
  intro s a s' hp hm
  have := h s hp
  unfold wp at this
  rw [hm] at this
  exact this

/-- a VALUE fact: whatever the state, if `m` returns normally its result satisfies `P` -/
def Ret (m : M α) (P : α → Prop) : Prop := H (fun _ => True) m (fun r _ => P r)

theorem Ret.pure {a : α} {P : α → Prop} (h : P a) : Ret (pure a : M α) P := H.pure (fun _ _ => h)
theorem Ret.throw {c : ErrCode} {P : α → Prop} : Ret (throw c : M α) P := H.throw
theorem Ret.fault {f : Fault} {P : α → Prop} : Ret (fault f : M α) P := H.fault
/-- the result of the first action does not matter -/
theorem Ret.bind {m : M α} {f : α → M β} {P : β → Prop} (h : ∀ a, Ret (f a) P) : Ret (m >>= f) P :=
  H.bind (Q1 := fun _ _ => True) (fun _ _ _ _ _ => trivial) (fun a => h a)
/-- … or it does -/
theorem Ret.bind' {m : M α} {f : α → M β} {P1 : α → Prop} {P : β → Prop} (h1 : Ret m P1) (h : ∀ a, P1 a → Ret (f a) P) :
    Ret (m >>= f) P := by
  intro s b s' _ hm
  change M.bind m f s = _ at hm
  unfold M.bind at hm
  cases hr : m s with
  | ok a s1 => rw [hr] at hm; exact h a (h1 s a s1 trivial hr) s1 b s' trivial hm
  | err c s1 => rw [hr] at hm; cases hm
  | fault x => rw [hr] at hm; cases hm
  | fuel => rw [hr] at hm; cases hm
theorem Ret.ite {c : Prop} [Decidable c] {m1 m2 : M α} {P : α → Prop} (h1 : Ret m1 P) (h2 : Ret m2 P) :
    Ret (if c then m1 else m2) P := H.ite (fun _ => h1) (fun _ => h2)

attribute [irreducible] Ret

/-! ## Shapes of the nodes the scanners build -/

/-- a childless node of a type that has no children (One, Set, Ref, anchors, …) -/
def Leaf (r : RNode) : Prop := r.kids = [] ∧ isLeafType r.t = true

/-- a childless node of a type that groups (what `startGroup` is given) -/
def GroupT (t : NT) : Bool :=
  t == .capture || t == .group || t == .posLook || t == .negLook || t == .atomic || t == .backRefCond || t == .exprCond
def OpenNode (r : RNode) : Prop := r.kids = [] ∧ GroupT r.t = true

theorem leaf_mkNode {t : NT} {o : Opts} (h : isLeafType t = true) : Leaf (mkNode t o) := ⟨rfl, h⟩
theorem leaf_mkNodeM {t : NT} {o : Opts} {m : Int} (h : isLeafType t = true) : Leaf (mkNodeM t o m) := ⟨rfl, h⟩

variable (E : Env)

theorem leaf_nodeSet (o : Opts) (c : Class.Class) : Leaf (nodeSet E o c) := by
  unfold nodeSet
  split <;> exact ⟨rfl, rfl⟩

theorem leaf_nodeCh (t : NT) (ht : isLeafType t = true) (o : Opts) (ch : Nat) : Leaf (nodeCh E t o ch) := by
  unfold nodeCh
  split
  · exact ⟨rfl, rfl⟩
  · exact ⟨rfl, ht⟩

theorem leaf_typeFromCode (o : Opts) (ch : Nat) : isLeafType (typeFromCode o ch) = true := by
  unfold typeFromCode
  repeat' split
  all_goals rfl

theorem leaf_dummy : Leaf dummy := ⟨rfl, rfl⟩

theorem leaf_dotNode (o : Opts) : Leaf (dotNode E o) := by
  unfold dotNode
  split
  · exact leaf_nodeSet E _ _
  · split
    · exact leaf_nodeSet E _ _
    · exact leaf_nodeCh E _ rfl _ _

theorem open_mkNode {t : NT} {o : Opts} (h : GroupT t = true) : OpenNode (mkNode t o) := ⟨rfl, h⟩
theorem open_mkNodeM {t : NT} {o : Opts} {m : Int} (h : GroupT t = true) : OpenNode (mkNodeM t o m) := ⟨rfl, h⟩
theorem open_mkNodeMN {t : NT} {o : Opts} {m n : Int} (h : GroupT t = true) : OpenNode (mkNodeMN t o m n) := ⟨rfl, h⟩

/-! ## The node-returning scanners -/

/-- symbolic execution for value facts: binds whose result is not needed are skipped, conditionals split, errors are
    vacuous, the leaves are closed by the node lemmas -/
syntax "ret_run" : tactic
macro_rules
  | `(tactic| ret_run) => `(tactic| repeat' (first
      | exact Ret.throw
      | exact Ret.fault
      | (apply Ret.pure)
      | (apply Ret.ite)
      | (apply Ret.bind; intro _)
      | split))

syntax "leaf_close" : tactic
macro_rules
  | `(tactic| leaf_close) => `(tactic| first
      | exact leaf_dummy
      | exact leaf_nodeCh _ _ rfl _ _
      | exact leaf_mkNodeM rfl
      | exact leaf_mkNode (leaf_typeFromCode _ _)
      | exact leaf_nodeSet _ _ _)

theorem ret_bbCharCode (so : Bool) (o : Opts) (bp : Nat) : Ret (bbCharCode E so o bp) Leaf := by
  unfold bbCharCode
  ret_run
  all_goals leaf_close

theorem ret_bbAngledNumber (so : Bool) (o : Opts) (bp close : Nat) : Ret (bbAngledNumber E so o bp close) Leaf := by
  unfold bbAngledNumber
  ret_run
  all_goals first | leaf_close | exact ret_bbCharCode E so o bp

theorem ret_bbNumber (so : Bool) (o : Opts) (bp : Nat) : Ret (bbNumber E so o bp) Leaf := by
  unfold bbNumber
  ret_run
  all_goals first | leaf_close | exact ret_bbCharCode E so o bp

theorem ret_bbName (so : Bool) (o : Opts) (bp close : Nat) (k : Bool) : Ret (bbName E so o bp close k) Leaf := by
  unfold bbName
  ret_run
  all_goals first | leaf_close | exact ret_bbCharCode E so o bp

theorem ret_scanBasicBackslash (so : Bool) : Ret (scanBasicBackslash E so) Leaf := by
  unfold scanBasicBackslash
  ret_run
  all_goals first
    | leaf_close
    | exact ret_bbAngledNumber E so _ _ _
    | exact ret_bbNumber E so _ _
    | exact ret_bbName E so _ _ _ _
    | exact ret_bbCharCode E so _ _

theorem ret_bsProperty (o : Opts) (ch : Nat) : Ret (bsProperty E o ch) Leaf := by
  unfold bsProperty
  ret_run
  all_goals leaf_close

theorem ret_scanBackslash (so : Bool) : Ret (scanBackslash E so) Leaf := by
  unfold scanBackslash
  ret_run
  all_goals first
    | leaf_close
    | exact ret_bsProperty E _ _
    | exact ret_scanBasicBackslash E so

theorem ret_scanPythonNamedBackref : Ret (scanPythonNamedBackref E) Leaf := by
  unfold scanPythonNamedBackref
  ret_run
  all_goals leaf_close

/-- `some` results are open group nodes -/
def OptOpen (r : Option RNode) : Prop := ∀ g, r = some g → OpenNode g

theorem optOpen_some {g : RNode} (h : OpenNode g) : OptOpen (some g) := by
  intro g' hg; cases hg; exact h
theorem optOpen_none : OptOpen none := by intro g hg; cases hg

syntax "open_close" : tactic
macro_rules
  | `(tactic| open_close) => `(tactic| first
      | exact optOpen_none
      | exact optOpen_some (open_mkNode rfl)
      | exact optOpen_some (open_mkNodeM rfl)
      | exact optOpen_some (open_mkNodeMN rfl))

theorem ret_breakRecognize (start : Nat) (P : α → Prop) : Ret (breakRecognize E start : M α) P := by
  unfold Ret
  intro s a s' _ hm
  unfold breakRecognize at hm
  split at hm <;> cases hm

theorem ret_gnClose (start close : Nat) (c u : Option Nat) : Ret (gnClose E start close c u) OptOpen := by
  unfold gnClose
  ret_run
  all_goals first
    | open_close
    | exact ret_breakRecognize E _ _

theorem ret_scanGroupName (start close : Nat) : Ret (scanGroupName E start close) OptOpen := by
  unfold scanGroupName
  ret_run
  all_goals first | open_close | exact ret_breakRecognize E _ _ | exact ret_gnClose E _ _ _ _

theorem ret_condEarly (o : Opts) : Ret (condEarly E o) OptOpen := by
  unfold condEarly
  ret_run
  all_goals open_close

theorem ret_condExpr (o : Opts) (pp : Nat) : Ret (condExpr E o pp) OptOpen := by
  unfold condExpr
  ret_run
  all_goals open_close

theorem ret_scanCondition : Ret (scanCondition E) OptOpen := by
  unfold scanCondition
  apply Ret.bind; intro o
  apply Ret.bind; intro pp
  apply Ret.bind' (ret_condEarly E o)
  intro r hr
  split
  · rename_i nd
    exact Ret.pure (optOpen_some (hr nd rfl))
  · exact ret_condExpr E o pp

attribute [local irreducible] scanCondition

theorem ret_groupOpenPlain (o : Opts) : Ret (groupOpenPlain o) OptOpen := by
  unfold groupOpenPlain
  ret_run
  all_goals open_close

theorem ret_groupOpenDefault (start : Nat) : Ret (groupOpenDefault E start) OptOpen := by
  unfold groupOpenDefault
  ret_run
  all_goals first
    | open_close
    | exact ret_breakRecognize E _ _

theorem ret_groupOpenAngle (start : Nat) (o : Opts) (close : Nat) : Ret (groupOpenAngle E start o close) OptOpen := by
  unfold groupOpenAngle
  ret_run
  all_goals first
    | open_close
    | exact ret_breakRecognize E _ _
    | exact ret_scanGroupName E _ _
    | exact ret_gnClose E _ _ _ _

theorem ret_groupOpenPython (start : Nat) (o : Opts) : Ret (groupOpenPython E start o) OptOpen := by
  unfold groupOpenPython
  ret_run
  all_goals first
    | open_close
    | exact ret_breakRecognize E _ _

theorem ret_groupOpenSwitch (start : Nat) (o : Opts) (ch : Nat) : Ret (groupOpenSwitch E start o ch) OptOpen := by
  unfold groupOpenSwitch
  ret_run
  all_goals first
    | open_close
    | exact ret_breakRecognize E _ _
    | exact ret_groupOpenAngle E _ _ _
    | exact ret_scanCondition E
    | exact ret_groupOpenPython E _ _
    | exact ret_groupOpenDefault E _
    | exact ret_scanGroupName E _ _
    | exact ret_gnClose E _ _ _ _

/-- **`scanGroupOpen` returns nothing or a childless node of a group type** -/
theorem ret_scanGroupOpen : Ret (scanGroupOpen E) OptOpen := by
  unfold scanGroupOpen
  ret_run
  all_goals first
    | open_close
    | exact ret_groupOpenPlain _
    | exact ret_breakRecognize E _ _
    | exact ret_groupOpenSwitch E _ _ _
    | exact ret_groupOpenAngle E _ _ _
    | exact ret_scanCondition E
    | exact ret_groupOpenPython E _ _
    | exact ret_groupOpenDefault E _
    | exact ret_scanGroupName E _ _
    | exact ret_gnClose E _ _ _ _

end RegexVerif.Parser
