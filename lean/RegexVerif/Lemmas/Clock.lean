/-
Helper lemmas for the clock model (C14).
-/
import RegexVerif.Model.Clock

namespace RegexVerif.Lemmas.Clock
open RegexVerif.Clock

/-- `x >> 20` is floor division by 2^20 (also for negative x, as in Go) -/
theorem ticks_eq (x : Int) : ticks x = x / 1048576 := by
  unfold ticks
  rw [Int.shiftRight_eq_div_pow]
  rfl

end RegexVerif.Lemmas.Clock
