/-
Helper lemmas for the clock model (C14): the arithmetic of ticks, and the invariant `Inv` of the
transition system with its preservation by every event.
-/
import RegexVerif.Model.Clock
set_option linter.unusedSimpArgs false
namespace RegexVerif.Lemmas.Clock
open RegexVerif.Clock

theorem ticks_eq (x : Int) : ticks x = x / 1048576 := by
  unfold ticks
  rw [Int.shiftRight_eq_div_pow]
  rfl

/-- everything the proofs need to know about `deadlineTicks` -/
theorem dt_facts (period d : Int) (hp : 0 ≤ period) (hp' : period ≤ maxInt64) (hd : 0 ≤ d) (hd' : d ≤ maxInt64) :
    deadlineTicks period d = effDur period d / 1048576 ∧ 0 ≤ effDur period d ∧ effDur period d ≤ d + period ∧
    effDur period d ≤ maxInt64 ∧ d ≤ effDur period d ∧ (d ≤ maxInt64 - period → effDur period d = d + period) ∧
    (maxInt64 - period < d → effDur period d = maxInt64) := by
  unfold deadlineTicks effDur
  simp only [ticks_eq]
  unfold maxInt64 at *
  refine ⟨?_, ?_, ?_, ?_, ?_, ?_, ?_⟩ <;> (repeat' split) <;> omega

/-- per-deadline invariant -/
structure DlInv (p : Params) (s : State) (e : Deadline) : Prop where
  d_nonneg : 0 ≤ e.d
  d_le : e.d ≤ maxInt64
  t0_le : e.t0 ≤ s.now
  covered : e.dl ≤ s.clockEnd
  live : s.running = true ∨ e.dl ≤ s.current
  unstarted : s.started = false → e.dl = 0 ∧ effDur p.period e.d < 1048576
  early : s.started = true → (e.t0 - s.startNs) + effDur p.period e.d - p.period - p.eps - 2097150 ≤ 1048576 * e.dl
  earlyFresh : s.started = true → e.fresh = true → (e.t0 - s.startNs) + effDur p.period e.d - 2097150 ≤ 1048576 * e.dl
  within : s.started = true → e.dl ≤ s.current ∨ 1048576 * e.dl ≤ (e.t0 - s.startNs) + e.d + p.period

structure Inv (p : Params) (s : State) : Prop where
  lw_le : s.lastWrite ≤ s.now
  unstarted : s.started = false → s.current = 0 ∧ s.clockEnd = 0 ∧ s.running = false
  cur_eq : s.started = true → s.current = (s.lastWrite - s.startNs) / 1048576 ∧ s.startNs ≤ s.lastWrite
  progress : s.running = true → s.started = true ∧ s.now ≤ s.lastWrite + p.period + p.eps
  stopped : s.started = true → s.running = false → s.clockEnd < s.current
  loopcond : s.running = true → s.current ≤ s.clockEnd ∨ s.clockEnd = 0
  dls : ∀ e ∈ s.pending, DlInv p s e

local macro "bool_omega" : tactic =>
  `(tactic| ((try simp only [Bool.false_eq_true, Bool.true_eq_false, reduceCtorEq, false_implies, true_implies,
      forall_const, true_and, and_true, imp_self, not_true_eq_false, not_false_eq_true, imp_false, false_and, and_false, true_or, or_true, false_or, or_false]) <;> (try omega)))

theorem inv_init (p : Params) : Inv p State.init := by
  refine ⟨?_, ?_, ?_, ?_, ?_, ?_, ?_⟩ <;> simp [State.init]

theorem inv_tick (p : Params) (hp : p.Valid) (s : State) (dt : Int) (h : Inv p s)
    (hr : s.running = true) (h0 : 0 ≤ dt) (h1 : s.lastWrite + p.period ≤ s.now + dt)
    (_h2 : s.now + dt ≤ s.lastWrite + p.period + p.eps) : Inv p (tick s dt) := by
  obtain ⟨hp0, hp1, he0, hs0, hs1⟩ := hp
  have hst := (h.progress hr).1
  have hc := h.cur_eq hst
  refine ⟨?_, ?_, ?_, ?_, ?_, ?_, ?_⟩
  · simp [tick]
  · simp [tick, hst]
  · intro _; simp only [tick, ticks_eq, true_and]; omega
  · intro hr'; simp only [tick] at hr' ⊢; refine ⟨hst, ?_⟩; omega
  · intro _ hr'; simp only [tick, ticks_eq, decide_eq_false_iff_not] at hr' ⊢; omega
  · intro hr'; simp only [tick, ticks_eq, decide_eq_true_eq] at hr' ⊢; omega
  · intro e he
    have hd := h.dls e (by simpa [tick] using he)
    have hl := h.lw_le
    refine ⟨hd.d_nonneg, hd.d_le, ?_, ?_, ?_, ?_, ?_, ?_, ?_⟩
    · simp only [tick]; have := hd.t0_le; omega
    · simpa [tick] using hd.covered
    · simp only [tick, ticks_eq]
      by_cases hc' : (s.now + dt - s.startNs) / 1048576 ≤ s.clockEnd
      · left; simpa using hc'
      · right; have := hd.covered; omega
    · intro hs; simp [tick, hst] at hs
    · intro _; simpa [tick] using hd.early hst
    · intro _ hf; simpa [tick] using hd.earlyFresh hst hf
    · intro _
      simp only [tick, ticks_eq]
      rcases hd.within hst with hw | hw
      · left; omega
      · right; exact hw

theorem slop_ticks_nonneg (p : Params) (hp : p.Valid) : 0 ≤ ticks p.slop := by
  obtain ⟨_, _, _, hs0, _⟩ := hp
  rw [ticks_eq]; omega

theorem inv_make (p : Params) (hp : p.Valid) (s : State) (d : Int) (h : Inv p s)
    (hd0 : 0 ≤ d) (hd1 : d ≤ maxInt64) : Inv p (startWatch p s d) := by
  have hslop := slop_ticks_nonneg p hp
  obtain ⟨hp0, hp1, he0, hs0, hs1⟩ := hp
  obtain ⟨hdt, heff0, heff1, heff2, heff3, heff4, _⟩ := dt_facts p.period d hp0 hp1 hd0 hd1
  have hl := h.lw_le
  unfold startWatch
  split
  · exact h
  · generalize hT : ticks p.slop = T at hslop
    generalize hE : effDur p.period d = E at *
    generalize hD : deadlineTicks p.period d = D at *
    have hrs : s.running = true → s.started = true := fun hr => (h.progress hr).1
    cases hr : s.running <;> cases hst : s.started
    case true.false => exact absurd (hrs hr) (by simp [hst])
    all_goals
      by_cases hgt : s.current + D > s.clockEnd <;>
      simp only [makeDeadline, refresh, extendClock, hr, hst, hgt, hT, hD, ticks_eq, Bool.not_true, Bool.not_false,
        Bool.and_true, Bool.and_false, Bool.false_and, Bool.true_and, if_true, if_false, Bool.false_eq_true, ↓reduceIte]
    all_goals
      have hu := h.unstarted
      have hc := h.cur_eq
      have hpr := h.progress
      have hsp := h.stopped
      have hlc := h.loopcond
      simp only [hr, hst, Bool.false_eq_true, false_implies, true_implies, forall_const, reduceCtorEq, and_true, and_false, imp_false, not_true_eq_false, not_false_eq_true] at hu hc hpr hsp hlc
      refine ⟨?_, ?_, ?_, ?_, ?_, ?_, ?_⟩
      all_goals dsimp only
      iterate 6 bool_omega
      intro e he
      rcases List.mem_cons.mp he with rfl | he
      · refine ⟨?_, ?_, ?_, ?_, ?_, ?_, ?_, ?_, ?_⟩ <;> dsimp only <;> bool_omega
      · have hd := h.dls e he
        have h1 := hd.t0_le
        have h2 := hd.covered
        have h3 := hd.live
        have h4 := hd.unstarted
        have h5 := hd.early
        have h6 := hd.earlyFresh
        have h7 := hd.within
        simp only [hr, hst, Bool.false_eq_true, false_implies, true_implies, forall_const, reduceCtorEq, false_or] at h3 h4 h5 h6 h7
        refine ⟨hd.d_nonneg, hd.d_le, ?_, ?_, ?_, ?_, ?_, ?_, ?_⟩ <;> dsimp only <;> bool_omega

theorem inv_stop (p : Params) (s : State) (h : Inv p s) : Inv p (stop s) := by
  refine ⟨h.lw_le, ?_, h.cur_eq, h.progress, ?_, ?_, ?_⟩
  · intro hs
    have hu := h.unstarted hs
    simp only [stop, hu.2.2, Bool.false_eq_true, ↓reduceIte]
    exact ⟨hu.1, hu.2.1, trivial⟩
  · intro hs hr
    have hr' : s.running = false := hr
    simp only [stop, hr', Bool.false_eq_true, ↓reduceIte]
    exact h.stopped hs hr'
  · intro hr
    have hr' : s.running = true := hr
    right
    simp only [stop, hr', ↓reduceIte]
  · intro e he
    simp [stop] at he

theorem inv_idle (p : Params) (s : State) (dt : Int) (h : Inv p s) (h0 : 0 ≤ dt)
    (h1 : s.running = true → s.now + dt ≤ s.lastWrite + p.period + p.eps) :
    Inv p { s with now := s.now + dt } := by
  have hl := h.lw_le
  refine ⟨?_, h.unstarted, h.cur_eq, ?_, h.stopped, h.loopcond, ?_⟩
  · show s.lastWrite ≤ s.now + dt; omega
  · intro hr; exact ⟨(h.progress hr).1, h1 hr⟩
  · intro e he
    have hd := h.dls e he
    refine ⟨hd.d_nonneg, hd.d_le, ?_, hd.covered, hd.live, hd.unstarted, hd.early, hd.earlyFresh, hd.within⟩
    show e.t0 ≤ s.now + dt; have := hd.t0_le; omega

theorem inv_finish (p : Params) (s : State) (i : Nat) (h : Inv p s) :
    Inv p { s with pending := s.pending.eraseIdx i } := by
  refine ⟨h.lw_le, h.unstarted, h.cur_eq, h.progress, h.stopped, h.loopcond, ?_⟩
  intro e he
  have hd := h.dls e (List.mem_of_mem_eraseIdx he)
  exact ⟨hd.d_nonneg, hd.d_le, hd.t0_le, hd.covered, hd.live, hd.unstarted, hd.early, hd.earlyFresh, hd.within⟩

theorem inv_step (p : Params) (hp : p.Valid) (s s' : State) (ev : Event) (h : Inv p s)
    (hs : step p s ev = some s') : Inv p s' := by
  cases ev with
  | make d =>
    simp only [step] at hs
    split at hs
    · next hc => cases hs; exact inv_make p hp s d h hc.1 hc.2
    · cases hs
  | tick dt =>
    simp only [step] at hs
    split at hs
    · next hc => cases hs; exact inv_tick p hp s dt h hc.1 hc.2.1 hc.2.2.1 hc.2.2.2
    · cases hs
  | stop => simp only [step] at hs; cases hs; exact inv_stop p s h
  | idle dt =>
    simp only [step] at hs
    split at hs
    · next hc => cases hs; exact inv_idle p s dt h hc.1 hc.2
    · cases hs
  | finish i =>
    simp only [step] at hs
    split at hs
    · cases hs; exact inv_finish p s i h
    · cases hs

theorem inv_of_reachable (p : Params) (hp : p.Valid) (s : State) (h : Reachable p s) : Inv p s := by
  induction h with
  | init => exact inv_init p
  | step e _ hs ih => exact inv_step p hp _ _ e ih hs

/-- an executed event sequence yields a reachable state -/
theorem reachable_of_run (p : Params) (evs : List Event) (s s' : State) (h : Reachable p s)
    (hr : run p s evs = some s') : Reachable p s' := by
  induction evs generalizing s with
  | nil => simp only [run] at hr; cases hr; exact h
  | cons e es ih =>
    simp only [run] at hr
    split at hr
    · cases hr
    · next s1 hs => exact ih s1 (Reachable.step e h hs) hr

end RegexVerif.Lemmas.Clock
