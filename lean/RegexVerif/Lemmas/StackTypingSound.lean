/-
Soundness of the grouping-stack typing (Model/StackTyping.lean) for the interpreter model (Model/VM.lean):
the chained invariant over the backtracking stack, the grouping stack and the crawl stack.

Refined stack types `RTy`: the kinds of Model/StackTyping.lean, where the two slots pushed by `Setjump` carry their
VALUE (`cd v`, `td v`) — these slots are never rewritten, only pushed by `Setjump` and popped by `Forejump` /
`Backjump` / `Setjump|Back`, whereas marks and counters are restored from frame data with other values of the same kind.

`Good core τ cl`: the backtracking stack `core` (without the bottom slot, the text position of the root `Lazybranch`
frame that `UpdateBumpalong` rewrites) is a chain of frames that may be resumed by `backtrack()` with ANY grouping
stack of refined type `τ` (`Vals`) at crawl depth exactly `cl`: the Back / Back2 case of the top frame then finds the
slots it pops, and when it leaves by `backtrack()` again, the rest of the chain is good for the stack type and crawl
depth it leaves (`FrameTy`).  The frame of a `Setjump` fixes the values of the pair it pushed: the crawl depth and
the depth of the chain below it; hence (`pair_lookup`) a pair inside a good type always denotes a frame-aligned
suffix (`Cut`) of the chain that is good for the type below the pair.
-/
import RegexVerif.Lemmas.VM
import RegexVerif.Lemmas.StackTyping
import RegexVerif.Lemmas.StackTypingCap

namespace RegexVerif.Lemmas.StackTypingSound
open RegexVerif RegexVerif.Code RegexVerif.VM RegexVerif.StackTyping RegexVerif.Lemmas.VM
open RegexVerif.Lemmas.StackTyping RegexVerif.Lemmas.StackTypingCap

/-- the five discipline faults (`Fault.structural = false`), all excluded by the typing -/
def disc : Fault → Bool
  | .stackUnderflow | .tracktoRange | .textposRange | .crawlUnderflow | .capRange => true
  | _ => false

/-- refined kinds: the depth slots carry their value -/
inductive RK where
  | pos | mark | count | td (v : Int) | cd (v : Int)
  deriving DecidableEq, Repr

abbrev RTy := List RK

def RK.erase : RK → Kind
  | .pos => .pos | .mark => .mark | .count => .count | .td _ => .tdepth | .cd _ => .cdepth

def erase (τ : RTy) : STy := τ.map RK.erase

def RK.isMark : RK → Bool
  | .pos | .mark => true
  | _ => false

/-- value of a slot of kind `k` -/
def valOk (n : Int) : RK → Int → Prop
  | .pos, v => 0 ≤ v ∧ v ≤ n
  | .mark, v => -1 ≤ v ∧ v ≤ n
  | .count, _ => True
  | .td x, v => v = x
  | .cd x, v => v = x

/-- the grouping stack `st` has the refined type `τ` -/
def Vals (n : Int) : List Int → RTy → Prop
  | [], [] => True
  | v :: st, k :: τ => valOk n k v ∧ Vals n st τ
  | _, _ => False

/-- `tr'` is a suffix of `tr` reached by removing whole frames -/
inductive Cut (p : Prog) : List Int → List Int → Prop
  | refl (t : List Int) : Cut p t t
  | step (c : Int) (d rest t' : List Int) : frameSize p c = some (d.length + 1) → Cut p rest t' →
      Cut p (c :: (d ++ rest)) t'

/-- number of `uncapture` calls of `Capturemark|Back` at `pc` -/
def capK (p : Prog) (pc : Nat) : Int :=
  if (p.codes[pc + 1]?).getD 0 != -1 && (p.codes[pc + 2]?).getD 0 != -1 then 2 else 1

/-- the frame `(o, b2, d)` of the instruction at `pc` whose assigned entry type is `S`, lying on a chain of depth `dl`
    (bottom slot included): it may be resumed with a stack of type `τ` at crawl depth `cl`; when its case leaves by
    `backtrack()` the stack has type `τ'` and the crawl depth is `cl'` -/
def FrameTy (p : Prog) (n : Int) (pc : Nat) (o : Op) (b2 : Bool) (S : STy) (d : List Int) (dl : Int)
    (τ : RTy) (cl : Int) (τ' : RTy) (cl' : Int) : Prop :=
  match o, b2, d with
  | .oneloop, false, _ | .notoneloop, false, _ | .setloop, false, _
  | .onelazy, false, _ | .notonelazy, false, _ | .setlazy, false, _
  | .lazybranch, false, _ => subTy (erase τ) S = true ∧ τ' = τ ∧ cl' = cl
  | .setmark, false, _ => τ = .pos :: τ' ∧ cl' = cl
  | .nullmark, false, _ => τ = .mark :: τ' ∧ cl' = cl
  | .setcount, false, _ => τ = .count :: .pos :: τ' ∧ cl' = cl
  | .nullcount, false, _ => τ = .count :: .mark :: τ' ∧ cl' = cl
  | .setjump, false, _ => τ = .cd cl :: .td dl :: τ' ∧ cl' = cl ∧ 0 ≤ cl
  | .getmark, false, [v] | .branchmark, true, [v] => (∃ k, τ' = k :: τ ∧ k.isMark = true ∧ valOk n k v) ∧ cl' = cl
  | .capturemark, false, [v] =>
    (∃ k, τ' = k :: τ ∧ k.isMark = true ∧ valOk n k v) ∧ cl' = cl - capK p pc ∧ capK p pc ≤ cl
  | .branchmark, false, [_, mark] =>
    (∃ r k K R, τ = .pos :: r ∧ S = K :: R ∧ subTy (erase r) R = true ∧ τ' = k :: r ∧ k.isMark = true ∧
      valOk n k mark) ∧ cl' = cl
  | .lazybranchmark, false, [pos, old] =>
    (∃ k K R, S = K :: R ∧ subTy (erase τ) R = true ∧ 0 ≤ pos ∧ pos ≤ n ∧ τ' = k :: τ ∧ k.isMark = true ∧
      valOk n k old) ∧ cl' = cl
  | .lazybranchmark, true, [np, old] =>
    (∃ k, k.isMark = true ∧ valOk n k old ∧
      (if np != 0 then ∃ r, τ = .pos :: r ∧ τ' = k :: r else τ' = k :: τ)) ∧ cl' = cl
  | .branchcount, false, [pmark] =>
    (∃ r k K R, τ = .count :: .pos :: r ∧ S = .count :: K :: R ∧ subTy (erase r) R = true ∧ τ' = .count :: k :: r ∧
      k.isMark = true ∧ valOk n k pmark) ∧ cl' = cl
  | .branchcount, true, [_, mark] => (∃ k, τ' = .count :: k :: τ ∧ k.isMark = true ∧ valOk n k mark) ∧ cl' = cl
  | .lazybranchcount, false, [tp, _, mark] =>
    (∃ k K R, S = .count :: K :: R ∧ subTy (erase τ) R = true ∧ 0 ≤ tp ∧ tp ≤ n ∧ τ' = .count :: k :: τ ∧
      k.isMark = true ∧ valOk n k mark) ∧ cl' = cl
  | .lazybranchcount, true, [pmark] =>
    (∃ r k, τ = .count :: .pos :: r ∧ τ' = .count :: k :: r ∧ k.isMark = true ∧ valOk n k pmark) ∧ cl' = cl
  | .forejump, false, [cp] => τ' = τ ∧ cl' = cp ∧ 0 ≤ cp ∧ cp ≤ cl
  | _, _, _ => False

/-- **the chain**: see the head of the file.  The premise `τ.length ≤ S.length + 2` (slice-stackcap) records that the
    grouping stack with which a frame is resumed is at most two slots higher than the type assigned to the frame's
    instruction — what bounds the depth of the grouping stack in Back / Back2 mode (Lemmas/StackCapacity.lean). -/
inductive Good (p : Prog) (bs : List Nat) (n : Int) (a : Assign) : List Int → RTy → Int → Prop
  | root : Good p bs n a [0] [] 0
  | cons (c : Int) (o : Op) (d rest : List Int) (S : STy) (τ τ' : RTy) (cl cl' : Int) :
      (savedPos c).1 ∈ bs → opAt p (savedPos c).1 = some o → frameData o (savedPos c).2 = some d.length →
      a.get (savedPos c).1 = some S →
      FrameTy p n (savedPos c).1 o (savedPos c).2 S d ((rest.length : Int) + 1) τ cl τ' cl' →
      τ.length ≤ S.length + 2 →
      Good p bs n a rest τ' cl' → Good p bs n a (c :: (d ++ rest)) τ cl

/-! ### basic facts -/

section basics
variable {p : Prog} {bs : List Nat} {n : Int} {a : Assign}

theorem Cut.trans {t1 t2 t3 : List Int} (h1 : Cut p t1 t2) (h2 : Cut p t2 t3) : Cut p t1 t3 := by
  induction h1 with
  | refl t => exact h2
  | step c d rest t' hs _ ih => exact Cut.step c d rest t3 hs (ih h2)

theorem Cut.length_le {t1 t2 : List Int} (h : Cut p t1 t2) : t2.length ≤ t1.length := by
  induction h with
  | refl t => exact Nat.le_refl _
  | step c d rest t' hs _ ih => simp; omega

theorem Vals.cons_inv {st : List Int} {k : RK} {ρ : RTy} (h : Vals n st (k :: ρ)) :
    ∃ v st', st = v :: st' ∧ valOk n k v ∧ Vals n st' ρ := by
  cases st with
  | nil => exact h.elim
  | cons v st' => exact ⟨v, st', rfl, h.1, h.2⟩

theorem Vals.nil_inv {st : List Int} (h : Vals n st []) : st = [] := by
  cases st with
  | nil => rfl
  | cons v st' => exact h.elim

theorem opAt_spec {pc : Nat} {o : Op} (h : opAt p pc = some o) : ∃ w, fetch p pc = .ok w ∧ Op.ofNat? w.op = some o := by
  unfold opAt at h
  split at h
  · next w hw => exact ⟨w, hw, h⟩
  · cases h

theorem frameSize_of {c : Int} {o : Op} {d : List Int} (ho : opAt p (savedPos c).1 = some o)
    (hd : frameData o (savedPos c).2 = some d.length) : frameSize p c = some (d.length + 1) := by
  obtain ⟨w, hw, ho'⟩ := opAt_spec ho
  exact frameSize_cons hw ho' hd

/-! ### subtyping -/

theorem Kind.sub_refl (k : Kind) : k.sub k = true := by cases k <;> rfl

theorem subTy_refl : ∀ σ : STy, subTy σ σ = true
  | [] => rfl
  | k :: σ => by simp [subTy, Kind.sub_refl, subTy_refl σ]

theorem subTy_length : ∀ {σ τ : STy}, subTy σ τ = true → σ.length = τ.length
  | [], [], _ => rfl
  | _ :: s, _ :: t, h => by
    simp only [subTy, Bool.and_eq_true] at h
    simp [subTy_length h.2]
  | [], _ :: _, h => by simp [subTy] at h
  | _ :: _, [], h => by simp [subTy] at h

theorem erase_length (τ : RTy) : (erase τ).length = τ.length := by simp [erase]

/-- a refined type below `S` has the height of `S` -/
theorem sub_len {τ : RTy} {S : STy} (h : subTy (erase τ) S = true) : τ.length = S.length := by
  rw [← erase_length, subTy_length h]

theorem Kind.sub_trans {a b c : Kind} (h1 : a.sub b = true) (h2 : b.sub c = true) : a.sub c = true := by
  cases a <;> cases b <;> cases c <;> first | rfl | (exact absurd h1 (by decide)) | (exact absurd h2 (by decide))

theorem subTy_trans : ∀ {σ τ υ : STy}, subTy σ τ = true → subTy τ υ = true → subTy σ υ = true
  | [], [], [], _, _ => rfl
  | [], [], _ :: _, _, h => by simp [subTy] at h
  | [], _ :: _, _, h, _ => by simp [subTy] at h
  | _ :: _, [], _, h, _ => by simp [subTy] at h
  | _ :: _, _ :: _, [], _, h => by simp [subTy] at h
  | a :: σ, b :: τ, c :: υ, h1, h2 => by
    simp only [subTy, Bool.and_eq_true] at h1 h2 ⊢
    exact ⟨Kind.sub_trans h1.1 h2.1, subTy_trans h1.2 h2.2⟩

theorem subTy_cons_right {σ : RTy} {k : Kind} {ρ : STy} (h : subTy (erase σ) (k :: ρ) = true) :
    ∃ k' ρ', σ = k' :: ρ' ∧ k'.erase.sub k = true ∧ subTy (erase ρ') ρ = true := by
  cases σ with
  | nil => simp [erase, subTy] at h
  | cons k' ρ' =>
    simp only [erase, List.map_cons, subTy, Bool.and_eq_true] at h
    exact ⟨k', ρ', rfl, h.1, h.2⟩

theorem subTy_nil_right {σ : RTy} (h : subTy (erase σ) [] = true) : σ = [] := by
  cases σ with
  | nil => rfl
  | cons k' ρ' => simp [erase, subTy] at h

theorem subTy_cons {k : Kind} {k' : RK} {ρ : STy} {ρ' : RTy} (h1 : k'.erase.sub k = true)
    (h2 : subTy (erase ρ') ρ = true) : subTy (erase (k' :: ρ')) (k :: ρ) = true := by
  simp only [erase, List.map_cons, subTy, Bool.and_eq_true]; exact ⟨h1, h2⟩

theorem RK.sub_pos {k : RK} (h : k.erase.sub .pos = true) : k = .pos := by
  cases k <;> first | rfl | simp [RK.erase, Kind.sub] at h
theorem RK.sub_count {k : RK} (h : k.erase.sub .count = true) : k = .count := by
  cases k <;> first | rfl | simp [RK.erase, Kind.sub] at h
theorem RK.sub_cdepth {k : RK} (h : k.erase.sub .cdepth = true) : ∃ v, k = .cd v := by
  cases k <;> first | exact ⟨_, rfl⟩ | simp [RK.erase, Kind.sub] at h
theorem RK.sub_tdepth {k : RK} (h : k.erase.sub .tdepth = true) : ∃ v, k = .td v := by
  cases k <;> first | exact ⟨_, rfl⟩ | simp [RK.erase, Kind.sub] at h
theorem RK.sub_isMark {k : Kind} {k' : RK} (h : k'.erase.sub k = true) (hm : StackTyping.isMark k = true) :
    k'.isMark = true := by
  cases k <;> cases k' <;> first | rfl | (exact absurd hm (by decide)) | simp [RK.erase, Kind.sub] at h
theorem valOk_isMark {k : RK} {v : Int} (hk : k.isMark = true) (h0 : 0 ≤ v) (hn : v ≤ n) : valOk n k v := by
  cases k <;> first | exact ⟨by omega, hn⟩ | simp [RK.isMark] at hk
theorem valOk_mark_range {k : RK} {v : Int} (hk : k.isMark = true) (h : valOk n k v) : -1 ≤ v ∧ v ≤ n := by
  cases k <;> first | exact ⟨by have := h.1; omega, h.2⟩ | simp [RK.isMark] at hk
theorem erase_pos_sub {k : Kind} (hm : StackTyping.isMark k = true) : RK.pos.erase.sub k = true := by
  cases k <;> first | rfl | simp [StackTyping.isMark] at hm

end basics

/-! ### the pair pushed by `Setjump` denotes a good suffix of the chain -/

section lookup
variable {p : Prog} {bs : List Nat} {n : Int} {a : Assign}

theorem capK_pos (p : Prog) (pc : Nat) : 1 ≤ capK p pc := by unfold capK; split <;> omega

/-- what `pair_lookup` concludes -/
def Found (p : Prog) (bs : List Nat) (n : Int) (a : Assign) (core : List Int) (cl cd td : Int) (ρ : RTy) : Prop :=
  ∃ tr', Cut p core tr' ∧ (tr'.length : Int) + 1 = td ∧ Good p bs n a tr' ρ cd ∧ 0 ≤ cd ∧ cd ≤ cl

theorem Found.lift {c : Int} {d rest : List Int} {cl cl' cd td : Int} {ρ : RTy}
    (hs : frameSize p c = some (d.length + 1)) (hle : cl' ≤ cl) (h : Found p bs n a rest cl' cd td ρ) :
    Found p bs n a (c :: (d ++ rest)) cl cd td ρ := by
  obtain ⟨tr', h1, h2, h3, h4, h5⟩ := h
  exact ⟨tr', Cut.step c d rest tr' hs h1, h2, h3, h4, by omega⟩

theorem pair_lookup {core : List Int} {τ : RTy} {cl : Int} (h : Good p bs n a core τ cl) :
    ∀ (pre : RTy) (cd td : Int) (ρ : RTy), τ = pre ++ .cd cd :: .td td :: ρ → Found p bs n a core cl cd td ρ := by
  induction h with
  | root => intro pre cd td ρ e; cases pre <;> cases e
  | cons c o d rest S τ τ' cl cl' h1 h2 h3 h4 hft _hlen hg ih =>
    intro pre cd td ρ e
    have hs := frameSize_of h2 h3
    -- the three generic shapes
    have same : τ' = τ → cl' ≤ cl → Found p bs n a (c :: (d ++ rest)) cl cd td ρ := by
      intro e1 e2; exact (ih pre cd td ρ (by rw [e1, e])).lift hs e2
    have pushed : ∀ ks : RTy, τ' = ks ++ τ → cl' ≤ cl → Found p bs n a (c :: (d ++ rest)) cl cd td ρ := by
      intro ks e1 e2
      exact (ih (ks ++ pre) cd td ρ (by rw [e1, e, List.append_assoc])).lift hs e2
    have pop1 : ∀ (k k' : RK) (r : RTy), τ = k :: r → τ' = k' :: r → (∀ v, k ≠ .cd v) → cl' ≤ cl →
        Found p bs n a (c :: (d ++ rest)) cl cd td ρ := by
      intro k k' r e1 e1' hk e2
      cases pre with
      | nil => rw [e1] at e; simp only [List.nil_append, List.cons.injEq] at e; exact absurd e.1 (hk _)
      | cons x pre' =>
        rw [e1] at e; simp only [List.cons_append, List.cons.injEq] at e
        exact (ih (k' :: pre') cd td ρ (by rw [e1', e.2]; rfl)).lift hs e2
    have drop1 : ∀ (k : RK), τ = k :: τ' → (∀ v, k ≠ .cd v) → cl' ≤ cl →
        Found p bs n a (c :: (d ++ rest)) cl cd td ρ := by
      intro k e1 hk e2
      cases pre with
      | nil => rw [e1] at e; simp only [List.nil_append, List.cons.injEq] at e; exact absurd e.1 (hk _)
      | cons x pre' =>
        rw [e1] at e; simp only [List.cons_append, List.cons.injEq] at e
        exact (ih pre' cd td ρ e.2).lift hs e2
    have pop2 : ∀ (k1 k2 : RK) (ks r : RTy), τ = k1 :: k2 :: r → τ' = ks ++ r → (∀ v, k1 ≠ .cd v) → (∀ v, k2 ≠ .cd v) →
        cl' ≤ cl → Found p bs n a (c :: (d ++ rest)) cl cd td ρ := by
      intro k1 k2 ks r e1 e1' hk1 hk2 e2
      rw [e1] at e
      match pre, e with
      | [], e => simp only [List.nil_append, List.cons.injEq] at e; exact absurd e.1 (hk1 _)
      | [x], e => simp only [List.cons_append, List.nil_append, List.cons.injEq] at e; exact absurd e.2.1 (hk2 _)
      | x :: y :: pre', e =>
        simp only [List.cons_append, List.cons.injEq] at e
        exact (ih (ks ++ pre') cd td ρ (by rw [e1', e.2.2, List.append_assoc])).lift hs e2
    unfold FrameTy at hft
    split at hft
    all_goals first
      | exact same hft.2.1 (by omega)     -- neutral
      | skip
    · exact drop1 _ hft.1 (by intro v h; cases h) (by omega)
    · exact drop1 _ hft.1 (by intro v h; cases h) (by omega)
    · exact pop2 _ _ [] _ hft.1 rfl (by intro v h; cases h) (by intro v h; cases h) (by omega)
    · exact pop2 _ _ [] _ hft.1 rfl (by intro v h; cases h) (by intro v h; cases h) (by omega)
    · -- setjump
      obtain ⟨e1, e2, e3⟩ := hft
      rw [e1] at e
      match pre, e with
      | [], e =>
        simp only [List.nil_append, List.cons.injEq, RK.cd.injEq, RK.td.injEq] at e
        obtain ⟨rfl, rfl, rfl⟩ := e
        exact ⟨rest, Cut.step c _ rest rest hs (Cut.refl _), rfl, by rw [← e2]; exact hg, e3, Int.le_refl _⟩
      | [x], e => simp at e
      | x :: y :: pre', e =>
        simp only [List.cons_append, List.cons.injEq] at e
        exact (ih pre' cd td ρ e.2.2).lift hs (by omega)
    · obtain ⟨⟨k, e1, _⟩, e2⟩ := hft; exact pushed [k] e1 (by omega)
    · obtain ⟨⟨k, e1, _⟩, e2⟩ := hft; exact pushed [k] e1 (by omega)
    · obtain ⟨⟨k, e1, _⟩, e2, _⟩ := hft; exact pushed [k] e1 (by have := capK_pos p (savedPos c).1; omega)
    · obtain ⟨⟨r, k, K, R, e1, _, _, e1', _⟩, e2⟩ := hft
      exact pop1 _ k r e1 e1' (by intro v h; cases h) (by omega)
    · obtain ⟨⟨k, K, R, _, _, _, _, e1, _⟩, e2⟩ := hft; exact pushed [k] e1 (by omega)
    · obtain ⟨⟨k, _, _, hif⟩, e2⟩ := hft
      split at hif
      · obtain ⟨r, e1, e1'⟩ := hif; exact pop1 _ k r e1 e1' (by intro v h; cases h) (by omega)
      · exact pushed [k] hif (by omega)
    · obtain ⟨⟨r, k, K, R, e1, _, _, e1', _⟩, e2⟩ := hft
      exact pop2 _ _ [.count, k] r e1 e1' (by intro v h; cases h) (by intro v h; cases h) (by omega)
    · obtain ⟨⟨k, e1, _⟩, e2⟩ := hft; exact pushed [.count, k] e1 (by omega)
    · obtain ⟨⟨k, K, R, _, _, _, _, e1, _⟩, e2⟩ := hft; exact pushed [.count, k] e1 (by omega)
    · obtain ⟨⟨r, k, e1, e1', _⟩, e2⟩ := hft
      exact pop2 _ _ [.count, k] r e1 e1' (by intro v h; cases h) (by intro v h; cases h) (by omega)
    · exact same hft.1 (by omega)
    · exact hft.elim

end lookup

/-- `Lemmas.StackTyping.Typing` without the clause that successors are instruction boundaries (which the soundness proof
    does not use; `Prog.wf` provides it) -/
structure TypingW (p : Prog) (bs : List Nat) (a : Assign) : Prop where
  zero : a.get 0 = some []
  closed : ∀ pc ∈ bs, ∀ σ, a.get pc = some σ →
    ∃ o succs, opAt p pc = some o ∧ flow p pc o σ = some succs ∧
      ∀ s ∈ succs, ∃ τ, a.get s.1 = some τ ∧ subTy s.2 τ = true

theorem Typing.toW {p : Prog} {bs : List Nat} {a : Assign} (h : Typing p bs a) : TypingW p bs a :=
  ⟨h.zero, fun pc hpc σ hσ => by
    obtain ⟨o, succs, h1, h2, h3⟩ := h.closed pc hpc σ hσ
    exact ⟨o, succs, h1, h2, fun s hs => (h3 s hs).2⟩⟩

/-! ### the state invariant -/

/-- the crawl depth of a state -/
def crawlLen (s : VMState) : Int := (s.cap.crawl.length : Int)

/-- `τ` is below the type assigned to code position `q` -/
def Succ (a : Assign) (q : Nat) (τ : RTy) : Prop := ∃ S, a.get q = some S ∧ subTy (erase τ) S = true

/-- the backtracking stack of `s` is a chain (over the bottom slot) that can be resumed with the current grouping stack,
    of type `τ`, at the current crawl depth -/
def ChainS (p : Prog) (bs : List Nat) (n : Int) (a : Assign) (s : VMState) (τ : RTy) : Prop :=
  ∃ core tp, s.track = core ++ [tp] ∧ Good p bs n a core τ (crawlLen s) ∧ Vals n s.stack τ ∧
    CapOk n p.capsize s.cap

/-- Back / Back2 mode: the data of the popped frame is on top -/
def BackS (p : Prog) (bs : List Nat) (n : Int) (a : Assign) (b2 : Bool) (s : VMState) (o : Op) : Prop :=
  ∃ d core tp S τ τ' cl', s.track = d ++ (core ++ [tp]) ∧ frameData o b2 = some d.length ∧
    a.get s.codepos = some S ∧
    FrameTy p n s.codepos o b2 S d ((core.length : Int) + 1) τ (crawlLen s) τ' cl' ∧ Good p bs n a core τ' cl' ∧
    Vals n s.stack τ ∧ CapOk n p.capsize s.cap

/-- the typing part of the invariant, by the mode of the operator about to run -/
def TShape (p : Prog) (bs : List Nat) (n : Int) (a : Assign) (s : VMState) (o : Op) : Prop :=
  match s.oper.back, s.oper.back2 with
  | false, false =>
    (∃ σ, ChainS p bs n a s σ ∧ Succ a s.codepos σ) ∨
    (s.track = [] ∧ s.stack = [] ∧ s.cap.crawl = [] ∧ s.codepos = 0 ∧ CapOk n p.capsize s.cap) ∨
    (s.track = [] ∧ o = .stop)
  | true, false => BackS p bs n a false s o ∨ (s.codepos = 0 ∧ ∃ tp, s.track = [tp])
  | false, true => BackS p bs n a true s o
  | true, true => False

/-- **the invariant**: the frame invariant of Lemmas/VM.lean and the typing part -/
def TInv (p : Prog) (bs : List Nat) (env : Env) (a : Assign) (s : VMState) : Prop :=
  ∃ w o, Ctx p bs env s w o ∧ Shape p bs env.len s o ∧ TShape p bs env.len a s o

/-- what a case body hands to `advance` / `goTo` / `backtrack` (typing part) -/
def TMid (p : Prog) (bs : List Nat) (n : Int) (a : Assign) (pc : Nat) (s1 : VMState) : Exit → Prop
  | .halt => True
  | .back => ∃ σ, ChainS p bs n a s1 σ
  | .advance i => ∃ σ, ChainS p bs n a s1 σ ∧ Succ a (pc + i + 1) σ
  | .goto t => (∃ σ, ChainS p bs n a s1 σ ∧ Succ a t.toNat σ) ∨
      (s1.track = [] ∧ ∃ wt, fetch p t.toNat = .ok wt ∧ Op.ofNat? wt.op = some .stop)

def TBodyOk (p : Prog) (bs : List Nat) (n : Int) (a : Assign) (pc : Nat) : Res → Prop
  | .error f => disc f = false
  | .ok (s1, e) => TMid p bs n a pc s1 e

theorem Succ.mono {a : Assign} {q : Nat} {τ σ : RTy} (h : Succ a q τ) (hs : subTy (erase σ) (erase τ) = true) :
    Succ a q σ := by
  obtain ⟨S, h1, h2⟩ := h
  exact ⟨S, h1, subTy_trans hs h2⟩

section cases
variable {p : Prog} {bs : List Nat} {env : Env} {a : Assign} {s : VMState} {w : Word} {o : Op}

theorem ctx_opAt (c : Ctx p bs env s w o) : opAt p s.codepos = some o := by
  unfold opAt; rw [c.facts.fetch]; exact c.facts.op

/-- pushing a frame for the current instruction -/
theorem good_push (c : Ctx p bs env s w o) (b2 : Bool) (d core : List Int) (S : STy) (τ τ' : RTy) (cl cl' : Int)
    (hd : frameData o b2 = some d.length) (hne : b2 = true → o ≠ .lazybranch)
    (hS : a.get s.codepos = some S)
    (hft : FrameTy p env.len s.codepos o b2 S d ((core.length : Int) + 1) τ cl τ' cl')
    (hg : Good p bs env.len a core τ' cl') (hlen : τ.length ≤ S.length + 2) :
    Good p bs env.len a ((if b2 then -(s.codepos : Int) else (s.codepos : Int)) :: (d ++ core)) τ cl := by
  cases b2 with
  | false =>
    simp only [Bool.false_eq_true, ite_false]
    have hs := savedPos_pos s.codepos
    exact Good.cons _ o d core S τ τ' cl cl' (by rw [hs]; exact c.pcIn) (by rw [hs]; exact ctx_opAt c)
      (by rw [hs]; exact hd) (by rw [hs]; exact hS) (by rw [hs]; exact hft) hlen hg
  | true =>
    simp only [ite_true]
    have hs := savedPos_neg s.codepos (codepos_ne_zero c (hne rfl))
    exact Good.cons _ o d core S τ τ' cl cl' (by rw [hs]; exact c.pcIn) (by rw [hs]; exact ctx_opAt c)
      (by rw [hs]; exact hd) (by rw [hs]; exact hS) (by rw [hs]; exact hft) hlen hg

end cases

end RegexVerif.Lemmas.StackTypingSound
