/-
Compiler correctness, part 9: the general loops `Loop` / `Lazyloop` —
`Setmark|Nullmark … Branchmark|Lazybranchmark` and the counted forms `Setcount|Nullcount … Branchcount|Lazybranchcount`,
all their `|Back` / `|Back2` cases — against `Spec.iter`, for arbitrary bodies (the empty-iteration rule included) and
either direction (these instructions do not read the direction; only the termination argument does).

Architecture: every tail instruction satisfies one contract (`TailOK`): reached after `k` iterations, the last one
started at `q`, it delivers `tailList … rest` if another round of the body delivers `rest`.  The induction over the
fuel of `Spec.iter` (`gloop_delivers`) is done once, against the contract.
-/
import RegexVerif.Lemmas.CompileStep

namespace RegexVerif.Compile
open RegexVerif.VM RegexVerif.Code RegexVerif.Writer RegexVerif.Generated.Opcodes RegexVerif RegexVerif.Spec
open RegexVerif.Lemmas.VM

/-! ## backtracking into a `Back2` frame, frames in general -/

theorem step_back2 {p : Prog} {env : VM.Env} {s s1 : VMState} {a : Nat} {rest : List Int} {w : Word}
    (hb : VM.body p env s = .ok (s1, .back)) (ht : s1.track = (-(a : Int)) :: rest) (ha : a ≠ 0)
    (hf : VM.fetch p a = .ok w) :
    VM.step p env s = .next { s1 with track := rest, codepos := a, oper := { w with back2 := true } }
      (decide (a < s1.codepos)) := by
  rw [step_of_body_ok p env hb]
  simp [doBacktrack, ht, savedPos_neg a ha, hf]

/-- the state after `backtrack()` popped the negated code position `-a`: the case `op | Back2` is about to run -/
structure BackEntry2 (X : Setup) (a : Nat) (w : Word) (T S : List Int) (C : List (Nat × Nat × Nat))
    (s : VMState) : Prop where
  pc : s.codepos = a
  op : s.oper = { w with back2 := true }
  tr : s.track = T
  st : s.stack = S
  cap : CapRep X.sl X.p.capsize s.cap C

theorem fail_step2 {X : Setup} {a : Nat} {rest S : List Int} {C : List (Nat × Nat × Nat)} {s : VMState} {w : Word}
    (hf : FailAt X ((-(a : Int)) :: rest) S C s) (ha : a ≠ 0) (hw : VM.fetch X.p a = .ok w) :
    ∃ s2 chk, VM.step X.p X.env s = .next s2 chk ∧ BackEntry2 X a w rest S C s2 := by
  obtain ⟨s1, hb, ht, hs, hc⟩ := hf
  exact ⟨_, _, step_back2 hb ht ha hw, ⟨rfl, rfl, rfl, hs, hc⟩⟩

theorem frame_pos {X : Setup} {a : Nat} {ins : Instr} (hia : InstrAt X.p a ins) {o : VM.Op}
    (ho : Op.ofNat? (decode ins.op).op = some o) (d : List Int) (hfd : VM.frameData o false = some d.length) :
    Framed X.p ((a : Int) :: d) := by
  refine Framed.one _ d ?_
  simp [VM.frameSize, savedPos_pos, hia.fetch, ho, hfd]

theorem frame_neg {X : Setup} {a : Nat} {ins : Instr} (hia : InstrAt X.p a ins) {o : VM.Op}
    (ho : Op.ofNat? (decode ins.op).op = some o) (ha : a ≠ 0) (d : List Int)
    (hfd : VM.frameData o true = some d.length) : Framed X.p ((-(a : Int)) :: d) := by
  refine Framed.one _ d ?_
  simp [VM.frameSize, savedPos_neg a ha, hia.fetch, ho, hfd]

/-! ## the heads: `Nullmark`, `Setcount`, `Nullcount` (`Setmark` is in part 3) -/

section heads
variable {X : Setup} {a i : Nat} {T S : List Int} {C : List (Nat × Nat × Nat)} {s : VMState}

theorem nullmark_leads (he : Entry X a i T S C s) (hia : InstrAt X.p a (i0 opNullmark))
    (hf : ∃ w, VM.fetch X.p (a + 1) = .ok w) :
    Leads X s (Entry X (a + 1) i ((a : Int) :: T) ((-1 : Int) :: S) C) := by
  obtain ⟨w, hw⟩ := hf
  have hoper : s.oper = ⟨opNullmark, false, false, false, false⟩ := by
    rw [he.oper hia]; exact decode_plain opNullmark (by decide)
  have hop : Op.ofNat? s.oper.op = some .nullmark := by rw [hoper]; rfl
  have hb : s.oper.back = false := by rw [hoper]
  have hb2 : s.oper.back2 = false := by rw [hoper]
  have hbody : VM.body X.p X.env s = .ok (VM.push0 (VM.spush s (-1)), .advance 0) := by
    simp only [body, hop, modeOf, hb, hb2]
  refine Leads.of_step (step_adv hbody (by simp only [VM.push0, VM.spush, he.pc]; exact hw)) (Leads.here ?_)
  exact ⟨by simp [VM.push0, VM.spush, he.pc], hw, by simp [VM.push0, VM.spush, he.tp],
    by simp [VM.push0, VM.spush, he.pc, he.tr], by simp [VM.push0, VM.spush, he.st],
    by simp only [VM.push0, VM.spush]; exact he.cap⟩

theorem nullmark_frame (hia : InstrAt X.p a (i0 opNullmark)) : Framed X.p [(a : Int)] :=
  frame_pos hia (o := .nullmark) (by show Op.ofNat? (decode opNullmark).op = _; rw [decode_plain opNullmark (by decide)]; rfl)
    [] rfl

theorem nullmark_back {v : Int} (hfail : FailAt X ((a : Int) :: T) (v :: S) C s) (hia : InstrAt X.p a (i0 opNullmark)) :
    Leads X s (FailAt X T S C) := by
  obtain ⟨s2, chk, hst, hbe⟩ := fail_step hfail hia.fetch
  refine Leads.of_step hst (Leads.here ?_)
  have hoper : s2.oper = ⟨opNullmark, false, true, false, false⟩ := by
    have : decode (i0 opNullmark).op = ⟨opNullmark, false, false, false, false⟩ := decode_plain opNullmark (by decide)
    rw [hbe.op, this]
  have hop : Op.ofNat? s2.oper.op = some .nullmark := by rw [hoper]; rfl
  have hb : s2.oper.back = true := by rw [hoper]
  have hb2 : s2.oper.back2 = false := by rw [hoper]
  refine ⟨{ s2 with stack := S }, ?_, hbe.tr, rfl, hbe.cap⟩
  simp only [body, hop, modeOf, hb, hb2, casePop1Back, hbe.st]

/-- `Setcount v`: the mark is the text position -/
theorem setcount_leads {v : Int} (he : Entry X a i T S C s) (hia : InstrAt X.p a (i1 opSetcount v))
    (hf : ∃ w, VM.fetch X.p (a + 2) = .ok w) :
    Leads X s (Entry X (a + 2) i ((a : Int) :: T) (v :: (i : Int) :: S) C) := by
  obtain ⟨w, hw⟩ := hf
  have hoper : s.oper = ⟨opSetcount, false, false, false, false⟩ := by
    rw [he.oper hia]; exact decode_plain opSetcount (by decide)
  have hop : Op.ofNat? s.oper.op = some .setcount := by rw [hoper]; rfl
  have hb : s.oper.back = false := by rw [hoper]
  have hb2 : s.oper.back2 = false := by rw [hoper]
  have hbody : VM.body X.p X.env s = .ok (VM.push0 (VM.spush2 s s.textpos v), .advance 1) := by
    simp only [body, hop, modeOf, hb, hb2, caseSetcount, hia.operand he.pc 0 v rfl, Except.map]
  refine Leads.of_step (step_adv hbody (by simp only [VM.push0, VM.spush2, he.pc]; exact hw)) (Leads.here ?_)
  exact ⟨by simp [VM.push0, VM.spush2, he.pc], hw, by simp [VM.push0, VM.spush2, he.tp],
    by simp [VM.push0, VM.spush2, he.pc, he.tr], by simp [VM.push0, VM.spush2, he.st, he.tp],
    by simp only [VM.push0, VM.spush2]; exact he.cap⟩

/-- `Nullcount v`: the mark is `-1` -/
theorem nullcount_leads {v : Int} (he : Entry X a i T S C s) (hia : InstrAt X.p a (i1 opNullcount v))
    (hf : ∃ w, VM.fetch X.p (a + 2) = .ok w) :
    Leads X s (Entry X (a + 2) i ((a : Int) :: T) (v :: (-1 : Int) :: S) C) := by
  obtain ⟨w, hw⟩ := hf
  have hoper : s.oper = ⟨opNullcount, false, false, false, false⟩ := by
    rw [he.oper hia]; exact decode_plain opNullcount (by decide)
  have hop : Op.ofNat? s.oper.op = some .nullcount := by rw [hoper]; rfl
  have hb : s.oper.back = false := by rw [hoper]
  have hb2 : s.oper.back2 = false := by rw [hoper]
  have hbody : VM.body X.p X.env s = .ok (VM.push0 (VM.spush2 s (-1) v), .advance 1) := by
    simp only [body, hop, modeOf, hb, hb2, caseSetcount, hia.operand he.pc 0 v rfl, Except.map]
  refine Leads.of_step (step_adv hbody (by simp only [VM.push0, VM.spush2, he.pc]; exact hw)) (Leads.here ?_)
  exact ⟨by simp [VM.push0, VM.spush2, he.pc], hw, by simp [VM.push0, VM.spush2, he.tp],
    by simp [VM.push0, VM.spush2, he.pc, he.tr], by simp [VM.push0, VM.spush2, he.st],
    by simp only [VM.push0, VM.spush2]; exact he.cap⟩

theorem setcount_frame {v : Int} (hia : InstrAt X.p a (i1 opSetcount v)) : Framed X.p [(a : Int)] :=
  frame_pos hia (o := .setcount) (by show Op.ofNat? (decode opSetcount).op = _; rw [decode_plain opSetcount (by decide)]; rfl)
    [] rfl

theorem nullcount_frame {v : Int} (hia : InstrAt X.p a (i1 opNullcount v)) : Framed X.p [(a : Int)] :=
  frame_pos hia (o := .nullcount) (by show Op.ofNat? (decode opNullcount).op = _; rw [decode_plain opNullcount (by decide)]; rfl)
    [] rfl

theorem setcount_back {v u x : Int} (hfail : FailAt X ((a : Int) :: T) (u :: x :: S) C s)
    (hia : InstrAt X.p a (i1 opSetcount v)) : Leads X s (FailAt X T S C) := by
  obtain ⟨s2, chk, hst, hbe⟩ := fail_step hfail hia.fetch
  refine Leads.of_step hst (Leads.here ?_)
  have hoper : s2.oper = ⟨opSetcount, false, true, false, false⟩ := by
    have : decode (i1 opSetcount v).op = ⟨opSetcount, false, false, false, false⟩ := decode_plain opSetcount (by decide)
    rw [hbe.op, this]
  have hop : Op.ofNat? s2.oper.op = some .setcount := by rw [hoper]; rfl
  have hb : s2.oper.back = true := by rw [hoper]
  have hb2 : s2.oper.back2 = false := by rw [hoper]
  refine ⟨{ s2 with stack := S }, ?_, hbe.tr, rfl, hbe.cap⟩
  simp only [body, hop, modeOf, hb, hb2, casePop2Back, hbe.st]

theorem nullcount_back {v u x : Int} (hfail : FailAt X ((a : Int) :: T) (u :: x :: S) C s)
    (hia : InstrAt X.p a (i1 opNullcount v)) : Leads X s (FailAt X T S C) := by
  obtain ⟨s2, chk, hst, hbe⟩ := fail_step hfail hia.fetch
  refine Leads.of_step hst (Leads.here ?_)
  have hoper : s2.oper = ⟨opNullcount, false, true, false, false⟩ := by
    have : decode (i1 opNullcount v).op = ⟨opNullcount, false, false, false, false⟩ := decode_plain opNullcount (by decide)
    rw [hbe.op, this]
  have hop : Op.ofNat? s2.oper.op = some .nullcount := by rw [hoper]; rfl
  have hb : s2.oper.back = true := by rw [hoper]
  have hb2 : s2.oper.back2 = false := by rw [hoper]
  refine ⟨{ s2 with stack := S }, ?_, hbe.tr, rfl, hbe.cap⟩
  simp only [body, hop, modeOf, hb, hb2, casePop2Back, hbe.st]

end heads

/-! ## the contract of a tail instruction -/

/-- the grouping stack at the tail of a loop: the start `q` of the last iteration (`-1`: none yet) and, in a counted
    loop, the number of iterations done minus the minimum -/
def loopStk (counted : Bool) (lo : Nat) (S : List Int) (q : Int) (k : Nat) : List Int :=
  if counted then ((k : Int) - (lo : Int)) :: q :: S else q :: S

/-- **contract of the tail instruction at `L`** of a loop with body at `bd` and exit `b`: reached at `p` after `k`
    iterations, the last one started at `q`, it delivers the specification's `tailList`, provided another round of the
    body — entered above one more frame with the stack of iteration `k + 1` — delivers `rest` -/
def TailOK (X : Setup) (L bd b : Nat) (counted lzy : Bool) (lo : Nat) (hi : Option Nat) (S : List Int)
    (adj : Int → Nat → Int) : Prop :=
  ∀ (k p : Nat) (q : Int) (C : List (Nat × Nat × Nat)) (T : List Int) (v : Int) (rest : List St) (s : VMState),
    p ≤ X.se.n → (counted = false → lo ≤ k) →
    (¬ (q = (p : Int) ∧ lo ≤ k) → hi = none → k < lo + 2147483647) →
    Entry X L p (T ++ [v]) (loopStk counted lo S q k) C s →
    ((canGo hi k && !(decide (q = (p : Int)) && decide (lo ≤ k))) = true → ∀ (s1 : VMState) (F : List Int) (v' : Int),
      Framed X.p F → Entry X bd p (F ++ T ++ [v']) (loopStk counted lo S (p : Int) (k + 1)) C s1 →
      Delivers X b (F ++ T) (loopStk counted lo S (p : Int) (k + 1)) S C rest s1) →
    Delivers X b T (loopStk counted lo S (adj q p) k) S C (tailList lzy lo hi k q ⟨p, C⟩ rest) s

/-- characters left in the direction of the match -/
def remDir (d : Bool) (n p : Nat) : Nat := if d then p else n - p

theorem remDir_le (d : Bool) {n p : Nat} (h : p ≤ n) : remDir d n p ≤ n := by
  cases d <;> simp only [remDir, Bool.false_eq_true, if_false, if_true] <;> omega

theorem remDir_lt {d : Bool} {n p r : Nat} (h : dirLe d p r) (hne : r ≠ p) (hp : p ≤ n) (hr : r ≤ n) :
    remDir d n r + 1 ≤ remDir d n p := by
  cases d <;> simp only [remDir, dirLe, Bool.false_eq_true, if_false, if_true] at * <;> omega

/-- **the loop**: against the contract of its tail, by induction on the fuel of `Spec.iter` -/
theorem gloop_delivers {X : Setup} {L bd b : Nat} {counted lzy : Bool} {lo : Nat} {hi : Option Nat} {S : List Int}
    {adj : Int → Nat → Int} {f : St → List St} {d : Bool}
    (htail : TailOK X L bd b counted lzy lo hi S adj) (hadj : ∀ (q p : Nat), adj (q : Int) p = (q : Int))
    (hn : X.se.n < 2147483647)
    (hdir : ∀ st, ∀ st' ∈ f st, dirLe d st.pos st'.pos)
    (hfwf : ∀ st, St.wf X.se.n st → ∀ st' ∈ f st, St.wf X.se.n st')
    (hbody : ∀ (p : Nat) (C : List (Nat × Nat × Nat)) (T S' : List Int) (v : Int) (s : VMState), St.wf X.se.n ⟨p, C⟩ →
      Entry X bd p (T ++ [v]) S' C s → Delivers X L T S' S' C (f ⟨p, C⟩) s) :
    ∀ (fuel cnt p q : Nat) (C : List (Nat × Nat × Nat)) (T : List Int) (v : Int) (s : VMState), St.wf X.se.n ⟨p, C⟩ →
      (counted = false → lo ≤ cnt + 1) →
      (¬ (q = p ∧ lo ≤ cnt + 1) →
        remDir d X.se.n p + (lo - (cnt + 1)) < fuel ∧ cnt + 1 + remDir d X.se.n p ≤ lo + X.se.n) →
      Entry X L p (T ++ [v]) (loopStk counted lo S (q : Int) (cnt + 1)) C s →
      Delivers X b T (loopStk counted lo S (q : Int) (cnt + 1)) S C (iterNext f lzy lo hi fuel cnt q ⟨p, C⟩) s := by
  intro fuel
  induction fuel with
  | zero =>
    intro cnt p q C T v s hwf hk hinv he
    by_cases hem : q = p ∧ lo ≤ cnt + 1
    · have hq : (q : Int) = ((⟨p, C⟩ : St).pos : Int) := by simp [hem.1]
      have := htail (cnt + 1) p (q : Int) C T v [] s hwf.1 hk (fun h => absurd ⟨by simp [hem.1], hem.2⟩ h) he
        (fun hgo => by simp [hem.1, hem.2] at hgo)
      rw [tailList_stop hq hem.2, hadj] at this
      simpa [iterNext, hem.1, hem.2] using this
    · have := (hinv hem).1
      omega
  | succ fuel ih =>
    intro cnt p q C T v s hwf hk hinv he
    by_cases hem : q = p ∧ lo ≤ cnt + 1
    · have hq : (q : Int) = ((⟨p, C⟩ : St).pos : Int) := by simp [hem.1]
      have := htail (cnt + 1) p (q : Int) C T v [] s hwf.1 hk (fun h => absurd ⟨by simp [hem.1], hem.2⟩ h) he
        (fun hgo => by simp [hem.1, hem.2] at hgo)
      rw [tailList_stop hq hem.2, hadj] at this
      simpa [iterNext, hem.1, hem.2] using this
    · obtain ⟨hm1, hm2⟩ := hinv hem
      have hemI : ¬ ((q : Int) = (p : Int) ∧ lo ≤ cnt + 1) := fun h => hem ⟨by omega, h.2⟩
      have hpn : p ≤ X.se.n := hwf.1
      have hrn := remDir_le d hpn
      have := htail (cnt + 1) p (q : Int) C T v ((f ⟨p, C⟩).flatMap (iterNext f lzy lo hi fuel (cnt + 1) p)) s hwf.1 hk
        (fun _ _ => by omega) he ?_
      · rw [tailList_go (f := f) (st := ⟨p, C⟩) hemI, hadj] at this
        have hne : (p == q && decide (lo ≤ cnt + 1)) = false := by
          rw [Bool.eq_false_iff]; intro h
          simp only [Bool.and_eq_true, beq_iff_eq, decide_eq_true_eq] at h
          exact hem ⟨h.1.symm, h.2⟩
        simpa [iterNext, hne] using this
      · intro _ s1 F v1 hF he1
        have hb := hbody p C (F ++ T) _ v1 s1 hwf he1
        refine Delivers.bind _ s1 hb ?_
        intro r hr F' s' v2 hF' he'
        have hrwf := hfwf _ hwf r hr
        have hrd : dirLe d p r.pos := hdir _ r hr
        have hrn' := remDir_le d hrwf.1
        refine ih (cnt + 1) r.pos p r.caps (F' ++ (F ++ T)) v2 s' hrwf (fun h => by have := hk h; omega)
          ?_ he'
        intro hne
        by_cases hrp : r.pos = p
        · have : ¬ lo ≤ cnt + 1 + 1 := fun h => hne ⟨hrp.symm, h⟩
          rw [hrp]
          omega
        · have := remDir_lt hrd hrp hpn hrwf.1
          omega

/-! ## `Branchmark` -/

section branchmark
variable {X : Setup} {L bd : Nat} {S : List Int}

/-- leaving a greedy uncounted loop: the `Back2` frame `[-L, q]` restores the mark -/
theorem branchmark_exit (hL : L ≠ 0) (hia : InstrAt X.p L (i1 opBranchmark (bd : Int))) {p : Nat} {q v : Int} {T : List Int}
    {C : List (Nat × Nat × Nat)} {s1 : VMState} (he1 : Entry X (L + 2) p ((-(L : Int)) :: q :: (T ++ [v])) S C s1) :
    Delivers X (L + 2) T (q :: S) S C [⟨p, C⟩] s1 := by
  have hdec : decode (i1 opBranchmark (bd : Int)).op = ⟨opBranchmark, false, false, false, false⟩ :=
    decode_plain opBranchmark (by decide)
  refine Delivers.cons (v := v) [-(L : Int), q] (frame_neg hia (o := .branchmark) (by rw [hdec]; rfl) hL [q] rfl)
    (Leads.here (by simpa using he1)) ?_
  intro s'' v' hf
  obtain ⟨s2, chk, hst, hbe⟩ := fail_step2 (rest := q :: (T ++ [v'])) (by simpa using hf) hL hia.fetch
  refine Delivers.fail (v := v') (Leads.of_step hst (Leads.here ?_))
  have hoper : s2.oper = ⟨opBranchmark, false, false, true, false⟩ := by rw [hbe.op, hdec]
  have hop : Op.ofNat? s2.oper.op = some .branchmark := by rw [hoper]; rfl
  have hb : s2.oper.back = false := by rw [hoper]
  have hb2 : s2.oper.back2 = true := by rw [hoper]
  refine ⟨VM.spush { s2 with track := T ++ [v'] } q, ?_, rfl, by simp [VM.spush, hbe.st], hbe.cap⟩
  simp only [body, hop, modeOf, hb, hb2, caseRestoreBack, restoreMark, hbe.tr, Except.map]

theorem branchmark_tail {lo : Nat} (hL : L ≠ 0) (hia : InstrAt X.p L (i1 opBranchmark (bd : Int)))
    (hfb : ∃ w, VM.fetch X.p (L + 2) = .ok w) (hfbd : ∃ w, VM.fetch X.p bd = .ok w) :
    TailOK X L bd (L + 2) false false lo none S (fun q _ => q) := by
  intro k p q C T v rest s _ hk _ he hprem
  obtain ⟨w, hw⟩ := hfb
  obtain ⟨wb, hwb⟩ := hfbd
  have hlo : lo ≤ k := hk rfl
  simp only [loopStk, Bool.false_eq_true, if_false] at he hprem ⊢
  have hoper : s.oper = ⟨opBranchmark, false, false, false, false⟩ := by
    rw [he.oper hia]; exact decode_plain opBranchmark (by decide)
  have hop : Op.ofNat? s.oper.op = some .branchmark := by rw [hoper]; rfl
  have hb : s.oper.back = false := by rw [hoper]
  have hb2 : s.oper.back2 = false := by rw [hoper]
  by_cases hq : q = (p : Int)
  · -- an empty iteration: the loop is left
    rw [tailList_stop (by simpa using hq) hlo]
    have hz : ((p : Int) - q != 0) = false := by rw [hq]; simp
    have hbody : VM.body X.p X.env s = .ok (VM.pushNeg1 { s with stack := S } q, .advance 1) := by
      simp only [body, hop, modeOf, hb, hb2, caseBranchmark, he.st, he.tp, hz, Bool.false_eq_true, if_false]
    refine Delivers.of_step (step_adv hbody (by simp only [VM.pushNeg1, he.pc]; exact hw)) (branchmark_exit (v := v) hL hia ?_)
    exact ⟨by simp [VM.pushNeg1, he.pc], hw, by simp [VM.pushNeg1, he.tp], by simp [VM.pushNeg1, he.pc, he.tr],
      by simp [VM.pushNeg1], by simp only [VM.pushNeg1]; exact he.cap⟩
  · have hgo : (canGo none k && !(decide (q = (p : Int)) && decide (lo ≤ k))) = true := by simp [canGo, hq]
    have htl : tailList false lo none k q ⟨p, C⟩ rest = rest ++ [⟨p, C⟩] := by
      simp [tailList, canGo, hq, hlo]
    rw [htl]
    have hz : ((p : Int) - q != 0) = true := by rw [bne_iff_ne]; omega
    have hbody : VM.body X.p X.env s =
        .ok (VM.spush (VM.push2 { s with stack := S } q (p : Int)) (p : Int), .goto (bd : Int)) := by
      simp only [body, hop, modeOf, hb, hb2, caseBranchmark, he.st, he.tp, hz, if_true,
        hia.operand he.pc 0 (bd : Int) rfl, Except.map]
    have hfr : Framed X.p [(L : Int), (p : Int), q] :=
      frame_pos hia (o := .branchmark) (by rw [show decode (i1 opBranchmark (bd : Int)).op = _ from
        decode_plain opBranchmark (by decide)]; rfl) [(p : Int), q] rfl
    refine Delivers.of_step (step_goto hbody hwb) ?_
    refine Delivers.append (Sm := (p : Int) :: S) (C1 := C) (F := [(L : Int), (p : Int), q]) hfr rest _ ?_ ?_
    · refine hprem hgo _ _ v hfr ?_
      exact ⟨rfl, hwb, by simp [VM.spush, VM.push2, he.tp], by simp [VM.spush, VM.push2, he.pc, he.tr],
        by simp [VM.spush, VM.push2], by simp only [VM.spush, VM.push2]; exact he.cap⟩
    · -- the body failed: `Branchmark|Back` leaves the loop at `p`
      intro s'' v' hf
      obtain ⟨s2, chk, hst, hbe⟩ := fail_step (rest := (p : Int) :: q :: (T ++ [v'])) (by simpa using hf) hia.fetch
      refine Delivers.of_step hst ?_
      have hoper2 : s2.oper = ⟨opBranchmark, false, true, false, false⟩ := by
        rw [hbe.op, show decode (i1 opBranchmark (bd : Int)).op = _ from decode_plain opBranchmark (by decide)]
      have hop2 : Op.ofNat? s2.oper.op = some .branchmark := by rw [hoper2]; rfl
      have hbk : s2.oper.back = true := by rw [hoper2]
      have hbk2 : s2.oper.back2 = false := by rw [hoper2]
      have hbody2 : VM.body X.p X.env s2 =
          .ok (VM.pushNeg1 (VM.textto { s2 with track := T ++ [v'], stack := S } (p : Int)) q, .advance 1) := by
        simp only [body, hop2, modeOf, hbk, hbk2, caseBranchmarkBack, hbe.tr, hbe.st]
      refine Delivers.of_step (step_adv hbody2 (by simp only [VM.pushNeg1, VM.textto, hbe.pc]; exact hw))
        (branchmark_exit (v := v') hL hia ?_)
      exact ⟨by simp [VM.pushNeg1, VM.textto, hbe.pc], hw, by simp [VM.pushNeg1, VM.textto],
        by simp [VM.pushNeg1, VM.textto, hbe.pc], by simp [VM.pushNeg1, VM.textto],
        by simp only [VM.pushNeg1, VM.textto]; exact hbe.cap⟩

end branchmark

/-! ## `Lazybranchmark` -/

section lazybranchmark
variable {X : Setup} {L bd : Nat} {S : List Int}

/-- the mark `Lazybranchmark` keeps: the first time (mark `-1`) it records the text position instead -/
def lbmAdj (q : Int) (p : Nat) : Int := if q = -1 then (p : Int) else q

theorem lbm_dec : decode (i1 opLazybranchmark (bd : Int)).op = ⟨opLazybranchmark, false, false, false, false⟩ :=
  decode_plain opLazybranchmark (by decide)

/-- `Lazybranchmark|Back2` -/
theorem lazybranchmark_back2 (hL : L ≠ 0) (hia : InstrAt X.p L (i1 opLazybranchmark (bd : Int))) {q : Int} {T S0 : List Int}
    {C : List (Nat × Nat × Nat)} {s : VMState} {np : Int} (hnp : (np = 0 ∧ S0 = S) ∨ (np = 1 ∧ ∃ u, S0 = u :: S))
    (hf : FailAt X ((-(L : Int)) :: np :: q :: T) S0 C s) : Leads X s (FailAt X T (q :: S) C) := by
  obtain ⟨s2, chk, hst, hbe⟩ := fail_step2 hf hL hia.fetch
  refine Leads.of_step hst (Leads.here ?_)
  have hoper : s2.oper = ⟨opLazybranchmark, false, false, true, false⟩ := by rw [hbe.op, lbm_dec]
  have hop : Op.ofNat? s2.oper.op = some .lazybranchmark := by rw [hoper]; rfl
  have hb : s2.oper.back = false := by rw [hoper]
  have hb2 : s2.oper.back2 = true := by rw [hoper]
  refine ⟨VM.spush { s2 with track := T, stack := S } q, ?_, rfl, by simp [VM.spush], hbe.cap⟩
  rcases hnp with ⟨h0, hS⟩ | ⟨h1, u, hS⟩
  · subst h0; subst hS
    have : ({ s2 with track := T } : VMState) = { s2 with track := T, stack := s2.stack } := rfl
    simp only [body, hop, modeOf, hb, hb2, caseLazybranchmarkBack2, hbe.tr]
    simp [hbe.st]
  · subst h1; subst hS
    simp only [body, hop, modeOf, hb, hb2, caseLazybranchmarkBack2, hbe.tr]
    simp [hbe.st]

theorem lazybranchmark_tail {lo : Nat} (hL : L ≠ 0) (hia : InstrAt X.p L (i1 opLazybranchmark (bd : Int)))
    (hfb : ∃ w, VM.fetch X.p (L + 2) = .ok w) (hfbd : ∃ w, VM.fetch X.p bd = .ok w) :
    TailOK X L bd (L + 2) false true lo none S lbmAdj := by
  intro k p q C T v rest s _ hk _ he hprem
  obtain ⟨w, hw⟩ := hfb
  obtain ⟨wb, hwb⟩ := hfbd
  have hlo : lo ≤ k := hk rfl
  simp only [loopStk, Bool.false_eq_true, if_false] at he hprem ⊢
  have hoper : s.oper = ⟨opLazybranchmark, false, false, false, false⟩ := by rw [he.oper hia]; exact lbm_dec
  have hop : Op.ofNat? s.oper.op = some .lazybranchmark := by rw [hoper]; rfl
  have hb : s.oper.back = false := by rw [hoper]
  have hb2 : s.oper.back2 = false := by rw [hoper]
  by_cases hq : q = (p : Int)
  · rw [tailList_stop (by simpa using hq) hlo]
    have hadj : lbmAdj q p = q := by simp only [lbmAdj]; rw [if_neg (by omega)]
    rw [hadj]
    have hz : ((p : Int) != q) = false := by rw [hq]; simp
    have hbody : VM.body X.p X.env s = .ok (VM.pushNeg2 { s with stack := S } q 0, .advance 1) := by
      simp only [body, hop, modeOf, hb, hb2, caseLazybranchmark, he.st, he.tp, hz, Bool.false_eq_true, if_false]
    refine Delivers.of_step (step_adv hbody (by simp only [VM.pushNeg2, he.pc]; exact hw)) ?_
    refine Delivers.cons (v := v) [-(L : Int), 0, q] (frame_neg hia (o := .lazybranchmark) (by rw [lbm_dec]; rfl) hL [0, q] rfl)
      (Leads.here ?_) ?_
    · exact ⟨by simp [VM.pushNeg2, he.pc], hw, by simp [VM.pushNeg2, he.tp], by simp [VM.pushNeg2, he.pc, he.tr],
        by simp [VM.pushNeg2], by simp only [VM.pushNeg2]; exact he.cap⟩
    · intro s'' v' hf
      exact Delivers.fail (v := v') (lazybranchmark_back2 hL hia (Or.inl ⟨rfl, rfl⟩) (by simpa using hf))
  · have hgo : (canGo none k && !(decide (q = (p : Int)) && decide (lo ≤ k))) = true := by simp [canGo, hq]
    have htl : tailList true lo none k q ⟨p, C⟩ rest = ⟨p, C⟩ :: rest := by
      simp [tailList, canGo, hq, hlo]
    rw [htl]
    have hz : ((p : Int) != q) = true := by rw [bne_iff_ne]; omega
    have hbody : VM.body X.p X.env s = .ok (VM.push2 { s with stack := S } (lbmAdj q p) (p : Int), .advance 1) := by
      simp only [body, hop, modeOf, hb, hb2, caseLazybranchmark, he.st, he.tp, hz, if_true, lbmAdj]
      by_cases h1 : q = -1
      · subst h1; simp
      · have : (q != -1) = true := by rw [bne_iff_ne]; exact h1
        simp [this, h1]
    have hfr : Framed X.p [(L : Int), (p : Int), lbmAdj q p] :=
      frame_pos hia (o := .lazybranchmark) (by rw [lbm_dec]; rfl) [(p : Int), lbmAdj q p] rfl
    refine Delivers.of_step (step_adv hbody (by simp only [VM.push2, he.pc]; exact hw)) ?_
    refine Delivers.cons (v := v) [(L : Int), (p : Int), lbmAdj q p] hfr (Leads.here ?_) ?_
    · exact ⟨by simp [VM.push2, he.pc], hw, by simp [VM.push2, he.tp], by simp [VM.push2, he.pc, he.tr],
        by simp [VM.push2], by simp only [VM.push2]; exact he.cap⟩
    · -- the continuation failed: `Lazybranchmark|Back` runs the body once more
      intro s'' v' hf
      obtain ⟨s2, chk, hst, hbe⟩ := fail_step (rest := (p : Int) :: lbmAdj q p :: (T ++ [v'])) (by simpa using hf) hia.fetch
      refine Delivers.of_step hst ?_
      have hoper2 : s2.oper = ⟨opLazybranchmark, false, true, false, false⟩ := by rw [hbe.op, lbm_dec]
      have hop2 : Op.ofNat? s2.oper.op = some .lazybranchmark := by rw [hoper2]; rfl
      have hbk : s2.oper.back = true := by rw [hoper2]
      have hbk2 : s2.oper.back2 = false := by rw [hoper2]
      have hbody2 : VM.body X.p X.env s2 =
          .ok (VM.textto (VM.spush (VM.pushNeg2 { s2 with track := T ++ [v'] } (lbmAdj q p) 1) (p : Int)) (p : Int),
            .goto (bd : Int)) := by
        simp only [body, hop2, modeOf, hbk, hbk2, caseLazybranchmarkBack, hbe.tr, hia.operand hbe.pc 0 (bd : Int) rfl,
          Except.map]
      refine Delivers.of_step (step_goto hbody2 hwb) ?_
      have hfr2 : Framed X.p [-(L : Int), 1, lbmAdj q p] :=
        frame_neg hia (o := .lazybranchmark) (by rw [lbm_dec]; rfl) hL [1, lbmAdj q p] rfl
      refine (Delivers.append (X := X) (b := L + 2) (T := T) (S := lbmAdj q p :: S) (S' := S) (C0 := C)
        (Sm := (p : Int) :: S) (C1 := C) (F := [-(L : Int), 1, lbmAdj q p]) hfr2 (ys := []) rest _
        (hprem hgo _ _ v' hfr2 ?_) ?_).cast rfl (List.append_nil _)
      · exact ⟨rfl, hwb, by simp [VM.textto], by simp [VM.textto, VM.spush, VM.pushNeg2, hbe.pc],
          by simp [VM.textto, VM.spush, VM.pushNeg2, hbe.st], by simp only [VM.textto, VM.spush, VM.pushNeg2]; exact hbe.cap⟩
      · intro s3 v3 hf3
        exact Delivers.fail (v := v3) (lazybranchmark_back2 hL hia (Or.inr ⟨rfl, _, rfl⟩) (by simpa using hf3))

end lazybranchmark

/-! ## the counted loops -/

/-- the limit operand of `Branchcount` / `Lazybranchcount` against the specification's bounds -/
def limOK (lo : Nat) (hi : Option Nat) (lim : Int) : Prop :=
  match hi with
  | some h => lim = (h : Int) - (lo : Int) ∧ lo ≤ h
  | none => lim = 2147483647

theorem lim_lt_iff {lo k : Nat} {hi : Option Nat} {lim : Int} (hl : limOK lo hi lim)
    (hb : hi = none → k < lo + 2147483647) : ((k : Int) - (lo : Int) < lim ↔ canGo hi k = true) := by
  cases hi with
  | none => have := hb rfl; simp only [limOK] at hl; simp [canGo]; omega
  | some h => simp only [limOK] at hl; simp [canGo]; omega

theorem count_exit {lo k p : Nat} {hi : Option Nat} {lim q : Int} (hl : limOK lo hi lim)
    (hb : ¬ (q = (p : Int) ∧ lo ≤ k) → hi = none → k < lo + 2147483647)
    (hE : (k : Int) - (lo : Int) ≥ lim ∨ ((p : Int) - q = 0 ∧ (k : Int) - (lo : Int) ≥ 0)) :
    (canGo hi k && !(decide (q = (p : Int)) && decide (lo ≤ k))) = false ∧ lo ≤ k := by
  by_cases hq : q = (p : Int) ∧ lo ≤ k
  · exact ⟨by simp [hq.1, hq.2], hq.2⟩
  · have hlt := lim_lt_iff hl (hb hq)
    rcases hE with h | h
    · have hcg : canGo hi k = false := by
        rw [Bool.eq_false_iff]; intro hc; have := hlt.2 hc; omega
      refine ⟨by simp [hcg], ?_⟩
      cases hi with
      | none => have := hb hq rfl; simp only [limOK] at hl; omega
      | some h' => simp only [limOK] at hl; omega
    · exact absurd ⟨by omega, by omega⟩ hq

theorem count_go {lo k p : Nat} {hi : Option Nat} {lim q : Int} (hl : limOK lo hi lim)
    (hb : ¬ (q = (p : Int) ∧ lo ≤ k) → hi = none → k < lo + 2147483647)
    (hE : ¬ ((k : Int) - (lo : Int) ≥ lim ∨ ((p : Int) - q = 0 ∧ (k : Int) - (lo : Int) ≥ 0))) :
    (canGo hi k && !(decide (q = (p : Int)) && decide (lo ≤ k))) = true := by
  have hq : ¬ (q = (p : Int) ∧ lo ≤ k) := fun h => hE (Or.inr ⟨by omega, by omega⟩)
  have hlt := lim_lt_iff hl (hb hq)
  have hcg : canGo hi k = true := hlt.1 (by omega)
  have : (decide (q = (p : Int)) && decide (lo ≤ k)) = false := by
    rw [Bool.eq_false_iff]; intro h; simp only [Bool.and_eq_true, decide_eq_true_eq] at h; exact hq h
  simp [hcg, this]

section branchcount
variable {X : Setup} {TPx : TP} {sets : List (List Nat)} {L bd : Nat} {S : List Int} {lim : Int}

theorem bc_dec : decode (i2 opBranchcount (bd : Int) lim).op = ⟨opBranchcount, false, false, false, false⟩ :=
  decode_plain opBranchcount (by decide)

/-- leaving a greedy counted loop: the `Back2` frame `[-L, count, mark]` restores both -/
theorem branchcount_exit (hL : L ≠ 0) (hia : InstrAt X.p L (i2 opBranchcount (bd : Int) lim)) {p : Nat} {q c v : Int}
    {T : List Int} {C : List (Nat × Nat × Nat)} {s1 : VMState}
    (he1 : Entry X (L + 3) p ((-(L : Int)) :: c :: q :: (T ++ [v])) S C s1) :
    Delivers X (L + 3) T (c :: q :: S) S C [⟨p, C⟩] s1 := by
  refine Delivers.cons (v := v) [-(L : Int), c, q] (frame_neg hia (o := .branchcount) (by rw [bc_dec]; rfl) hL [c, q] rfl)
    (Leads.here (by simpa using he1)) ?_
  intro s'' v' hf
  obtain ⟨s2, chk, hst, hbe⟩ := fail_step2 (rest := c :: q :: (T ++ [v'])) (by simpa using hf) hL hia.fetch
  refine Delivers.fail (v := v') (Leads.of_step hst (Leads.here ?_))
  have hoper : s2.oper = ⟨opBranchcount, false, false, true, false⟩ := by rw [hbe.op, bc_dec]
  have hop : Op.ofNat? s2.oper.op = some .branchcount := by rw [hoper]; rfl
  have hb : s2.oper.back = false := by rw [hoper]
  have hb2 : s2.oper.back2 = true := by rw [hoper]
  refine ⟨VM.spush2 { s2 with track := T ++ [v'] } q c, ?_, rfl, by simp [VM.spush2, hbe.st], hbe.cap⟩
  simp only [body, hop, modeOf, hb, hb2, caseBranchcountBack2, hbe.tr]

theorem branchcount_tail {lo : Nat} {hi : Option Nat} (hrel : EnvRel TPx sets X.env X.se) (hL : L ≠ 0)
    (hia : InstrAt X.p L (i2 opBranchcount (bd : Int) lim)) (hfb : ∃ w, VM.fetch X.p (L + 3) = .ok w)
    (hfbd : ∃ w, VM.fetch X.p bd = .ok w) (hl : limOK lo hi lim) :
    TailOK X L bd (L + 3) true false lo hi S (fun q _ => q) := by
  intro k p q C T v rest s hpn _ hbnd he hprem
  obtain ⟨w, hw⟩ := hfb
  obtain ⟨wb, hwb⟩ := hfbd
  simp only [loopStk, if_true, Int.natCast_add, Int.natCast_one] at he hprem ⊢
  have hoper : s.oper = ⟨opBranchcount, false, false, false, false⟩ := by rw [he.oper hia]; exact bc_dec
  have hop : Op.ofNat? s.oper.op = some .branchcount := by rw [hoper]; rfl
  have hb : s.oper.back = false := by rw [hoper]
  have hb2 : s.oper.back2 = false := by rw [hoper]
  by_cases hE : (k : Int) - (lo : Int) ≥ lim ∨ ((p : Int) - q = 0 ∧ (k : Int) - (lo : Int) ≥ 0)
  · obtain ⟨hgo, hlo⟩ := count_exit hl hbnd hE
    have htl : tailList false lo hi k q ⟨p, C⟩ rest = [⟨p, C⟩] := by
      simp only [tailList, Bool.false_eq_true, if_false]
      rw [hgo]; simp [hlo]
    rw [htl]
    have hbody : VM.body X.p X.env s =
        .ok (VM.pushNeg2 { s with stack := S } q ((k : Int) - (lo : Int)), .advance 2) := by
      simp only [body, hop, modeOf, hb, hb2, caseBranchcount, he.st, he.tp, bind, Except.bind,
        hia.operand he.pc 1 lim rfl, if_pos hE, pure, Except.pure]
    refine Delivers.of_step (step_adv hbody (by simp only [VM.pushNeg2, he.pc]; exact hw)) (branchcount_exit (v := v) hL hia ?_)
    exact ⟨by simp [VM.pushNeg2, he.pc], hw, by simp [VM.pushNeg2, he.tp], by simp [VM.pushNeg2, he.pc, he.tr],
      by simp [VM.pushNeg2], by simp only [VM.pushNeg2]; exact he.cap⟩
  · have hgo := count_go hl hbnd hE
    have htl : tailList false lo hi k q ⟨p, C⟩ rest = rest ++ (if lo ≤ k then [⟨p, C⟩] else []) := by
      simp only [tailList, Bool.false_eq_true, if_false]
      rw [hgo]; simp
    rw [htl]
    have hbody : VM.body X.p X.env s =
        .ok (VM.spush2 (VM.push1 { s with stack := S } q) (p : Int) ((k : Int) - (lo : Int) + 1), .goto (bd : Int)) := by
      simp only [body, hop, modeOf, hb, hb2, caseBranchcount, he.st, he.tp, bind, Except.bind,
        hia.operand he.pc 1 lim rfl, if_neg hE, hia.operand he.pc 0 (bd : Int) rfl, pure, Except.pure]
    have hfr : Framed X.p [(L : Int), q] := frame_pos hia (o := .branchcount) (by rw [bc_dec]; rfl) [q] rfl
    have hcnt : (k : Int) + 1 - (lo : Int) = (k : Int) - (lo : Int) + 1 := by omega
    refine Delivers.of_step (step_goto hbody hwb) ?_
    refine Delivers.append (Sm := ((k : Int) + 1 - (lo : Int)) :: (p : Int) :: S) (C1 := C)
      (F := [(L : Int), q]) hfr rest _ ?_ ?_
    · refine hprem hgo _ _ v hfr ?_
      exact ⟨rfl, hwb, by simp [VM.spush2, VM.push1, he.tp], by simp [VM.spush2, VM.push1, he.pc, he.tr],
        by simp [VM.spush2, VM.push1, hcnt], by simp only [VM.spush2, VM.push1]; exact he.cap⟩
    · -- the body failed: `Branchcount|Back`
      intro s'' v' hf
      obtain ⟨s2, chk, hst, hbe⟩ := fail_step (rest := q :: (T ++ [v'])) (by simpa using hf) hia.fetch
      have hoper2 : s2.oper = ⟨opBranchcount, false, true, false, false⟩ := by rw [hbe.op, bc_dec]
      have hop2 : Op.ofNat? s2.oper.op = some .branchcount := by rw [hoper2]; rfl
      have hbk : s2.oper.back = true := by rw [hoper2]
      have hbk2 : s2.oper.back2 = false := by rw [hoper2]
      by_cases hlo : lo ≤ k
      · rw [if_pos hlo]
        refine Delivers.of_step hst ?_
        have hpos : (k : Int) + 1 - (lo : Int) > 0 := by omega
        have hrange : (0 : Int) ≤ (p : Int) ∧ (p : Int) ≤ X.env.len := by rw [env_len hrel]; omega
        have hbody2 : VM.body X.p X.env s2 =
            .ok (VM.pushNeg2 (VM.textto { s2 with track := T ++ [v'], stack := S } (p : Int)) q
              ((k : Int) + 1 - (lo : Int) - 1), .advance 2) := by
          simp only [body, hop2, modeOf, hbk, hbk2, caseBranchcountBack, hbe.tr, hbe.st, hpos, if_true, VM.texttoStack,
            hrange, and_self, Except.map]
        have hc1 : (k : Int) + 1 - (lo : Int) - 1 = (k : Int) - (lo : Int) := by omega
        rw [hc1] at hbody2
        refine Delivers.of_step (step_adv hbody2 (by simp only [VM.pushNeg2, VM.textto, hbe.pc]; exact hw))
          (branchcount_exit (v := v') hL hia ?_)
        exact ⟨by simp [VM.pushNeg2, VM.textto, hbe.pc], hw, by simp [VM.pushNeg2, VM.textto],
          by simp [VM.pushNeg2, VM.textto, hbe.pc], by simp [VM.pushNeg2, VM.textto],
          by simp only [VM.pushNeg2, VM.textto]; exact hbe.cap⟩
      · rw [if_neg hlo]
        refine Delivers.fail (v := v') (Leads.of_step hst (Leads.here ?_))
        have hpos : ¬ (k : Int) + 1 - (lo : Int) > 0 := by omega
        have hc1 : (k : Int) + 1 - (lo : Int) - 1 = (k : Int) - (lo : Int) := by omega
        refine ⟨VM.spush2 { s2 with track := T ++ [v'], stack := S } q ((k : Int) - (lo : Int)), ?_, rfl,
          by simp [VM.spush2], hbe.cap⟩
        simp only [body, hop2, modeOf, hbk, hbk2, caseBranchcountBack, hbe.tr, hbe.st, hpos, if_false, hc1]

end branchcount

section lazybranchcount
variable {X : Setup} {L bd : Nat} {S : List Int} {lim : Int}

theorem lbc_dec : decode (i2 opLazybranchcount (bd : Int) lim).op = ⟨opLazybranchcount, false, false, false, false⟩ :=
  decode_plain opLazybranchcount (by decide)

/-- `Lazybranchcount|Back2`: the body of an iteration failed; count and mark of the iteration before are restored -/
theorem lazybranchcount_back2 (hL : L ≠ 0) (hia : InstrAt X.p L (i2 opLazybranchcount (bd : Int) lim)) {q c v : Int}
    {T : List Int} {C : List (Nat × Nat × Nat)} {s : VMState}
    (hf : FailAt X ((-(L : Int)) :: q :: T) (c :: v :: S) C s) : Leads X s (FailAt X T ((c - 1) :: q :: S) C) := by
  obtain ⟨s2, chk, hst, hbe⟩ := fail_step2 hf hL hia.fetch
  refine Leads.of_step hst (Leads.here ?_)
  have hoper : s2.oper = ⟨opLazybranchcount, false, false, true, false⟩ := by rw [hbe.op, lbc_dec]
  have hop : Op.ofNat? s2.oper.op = some .lazybranchcount := by rw [hoper]; rfl
  have hb : s2.oper.back = false := by rw [hoper]
  have hb2 : s2.oper.back2 = true := by rw [hoper]
  refine ⟨VM.spush2 { s2 with track := T, stack := S } q (c - 1), ?_, rfl, by simp [VM.spush2], hbe.cap⟩
  simp only [body, hop, modeOf, hb, hb2, caseLazybranchcountBack2, hbe.tr, hbe.st]

theorem lazybranchcount_tail {lo : Nat} {hi : Option Nat} (hL : L ≠ 0)
    (hia : InstrAt X.p L (i2 opLazybranchcount (bd : Int) lim)) (hfb : ∃ w, VM.fetch X.p (L + 3) = .ok w)
    (hfbd : ∃ w, VM.fetch X.p bd = .ok w) (hl : limOK lo hi lim) :
    TailOK X L bd (L + 3) true true lo hi S (fun q _ => q) := by
  intro k p q C T v rest s _ _ hbnd he hprem
  obtain ⟨w, hw⟩ := hfb
  obtain ⟨wb, hwb⟩ := hfbd
  simp only [loopStk, if_true, Int.natCast_add, Int.natCast_one] at he hprem ⊢
  have hoper : s.oper = ⟨opLazybranchcount, false, false, false, false⟩ := by rw [he.oper hia]; exact lbc_dec
  have hop : Op.ofNat? s.oper.op = some .lazybranchcount := by rw [hoper]; rfl
  have hb : s.oper.back = false := by rw [hoper]
  have hb2 : s.oper.back2 = false := by rw [hoper]
  have hcnt : (k : Int) + 1 - (lo : Int) = (k : Int) - (lo : Int) + 1 := by omega
  have hc1 : (k : Int) + 1 - (lo : Int) - 1 = (k : Int) - (lo : Int) := by omega
  have hfr2 : Framed X.p [-(L : Int), q] := frame_neg hia (o := .lazybranchcount) (by rw [lbc_dec]; rfl) hL [q] rfl
  -- one more round of the body above the `Back2` frame, then the failure into the stack of this arrival
  have hround : ∀ (s1 : VMState) (v1 : Int), (canGo hi k && !(decide (q = (p : Int)) && decide (lo ≤ k))) = true →
      Entry X bd p ([-(L : Int), q] ++ T ++ [v1]) (((k : Int) + 1 - (lo : Int)) :: (p : Int) :: S) C s1 →
      Delivers X (L + 3) T (((k : Int) - (lo : Int)) :: q :: S) S C rest s1 := by
    intro s1 v1 hgo he1
    have := Delivers.append (X := X) (b := L + 3) (T := T) (S := ((k : Int) - (lo : Int)) :: q :: S) (S' := S) (C0 := C)
      (Sm := ((k : Int) + 1 - (lo : Int)) :: (p : Int) :: S) (C1 := C) (F := [-(L : Int), q]) hfr2 (ys := []) rest _
      (hprem hgo _ _ v1 hfr2 he1) ?_
    · simpa using this
    · intro s3 v3 hf3
      have := lazybranchcount_back2 (T := T ++ [v3]) hL hia (by simpa using hf3)
      rw [hc1] at this
      exact Delivers.fail (v := v3) this
  by_cases hneg : (k : Int) - (lo : Int) < 0
  · -- the minimum is not reached: iterate
    have hlo : ¬ lo ≤ k := by omega
    have hq : ¬ (q = (p : Int) ∧ lo ≤ k) := fun h => hlo h.2
    have hcg : canGo hi k = true := (lim_lt_iff hl (hbnd hq)).1 (by
      cases hi with
      | none => simp only [limOK] at hl; omega
      | some h => simp only [limOK] at hl; omega)
    have hgo : (canGo hi k && !(decide (q = (p : Int)) && decide (lo ≤ k))) = true := by simp [hcg, hlo]
    have htl : tailList true lo hi k q ⟨p, C⟩ rest = rest := by
      simp only [tailList, if_true]; rw [hgo]; simp [hlo]
    rw [htl]
    have hbody : VM.body X.p X.env s =
        .ok (VM.spush2 (VM.pushNeg1 { s with stack := S } q) (p : Int) ((k : Int) - (lo : Int) + 1), .goto (bd : Int)) := by
      simp only [body, hop, modeOf, hb, hb2, caseLazybranchcount, he.st, he.tp, if_pos hneg,
        hia.operand he.pc 0 (bd : Int) rfl, Except.map]
    refine Delivers.of_step (step_goto hbody hwb) (hround _ v hgo ?_)
    exact ⟨rfl, hwb, by simp [VM.spush2, VM.pushNeg1, he.tp], by simp [VM.spush2, VM.pushNeg1, he.pc, he.tr],
      by simp [VM.spush2, VM.pushNeg1, hcnt], by simp only [VM.spush2, VM.pushNeg1]; exact he.cap⟩
  · have hlo : lo ≤ k := by omega
    have hbody : VM.body X.p X.env s =
        .ok (VM.push3 { s with stack := S } q ((k : Int) - (lo : Int)) (p : Int), .advance 2) := by
      simp only [body, hop, modeOf, hb, hb2, caseLazybranchcount, he.st, he.tp, if_neg hneg]
    have hfr : Framed X.p [(L : Int), (p : Int), (k : Int) - (lo : Int), q] :=
      frame_pos hia (o := .lazybranchcount) (by rw [lbc_dec]; rfl) [(p : Int), (k : Int) - (lo : Int), q] rfl
    have htl : tailList true lo hi k q ⟨p, C⟩ rest =
        ⟨p, C⟩ :: (if (canGo hi k && !(decide (q = (p : Int)) && decide (lo ≤ k))) = true then rest else []) := by
      simp [tailList, hlo]
    rw [htl]
    refine Delivers.of_step (step_adv hbody (by simp only [VM.push3, he.pc]; exact hw)) ?_
    refine Delivers.cons (v := v) [(L : Int), (p : Int), (k : Int) - (lo : Int), q] hfr (Leads.here ?_) ?_
    · exact ⟨by simp [VM.push3, he.pc], hw, by simp [VM.push3, he.tp], by simp [VM.push3, he.pc, he.tr],
        by simp [VM.push3], by simp only [VM.push3]; exact he.cap⟩
    · intro s'' v' hf
      obtain ⟨s2, chk, hst, hbe⟩ := fail_step (rest := (p : Int) :: ((k : Int) - (lo : Int)) :: q :: (T ++ [v'])) (by simpa using hf) hia.fetch
      have hoper2 : s2.oper = ⟨opLazybranchcount, false, true, false, false⟩ := by rw [hbe.op, lbc_dec]
      have hop2 : Op.ofNat? s2.oper.op = some .lazybranchcount := by rw [hoper2]; rfl
      have hbk : s2.oper.back = true := by rw [hoper2]
      have hbk2 : s2.oper.back2 = false := by rw [hoper2]
      by_cases hgo : (canGo hi k && !(decide (q = (p : Int)) && decide (lo ≤ k))) = true
      · rw [if_pos hgo]
        have hqp : ¬ q = (p : Int) := by
          intro h; simp [h, hlo] at hgo
        have hq : ¬ (q = (p : Int) ∧ lo ≤ k) := fun h => hqp h.1
        have hcond : (k : Int) - (lo : Int) < lim ∧ (p : Int) ≠ q := by
          refine ⟨(lim_lt_iff hl (hbnd hq)).2 ?_, fun h => hqp h.symm⟩
          simp only [Bool.and_eq_true] at hgo; exact hgo.1
        refine Delivers.of_step hst ?_
        have hbody2 : VM.body X.p X.env s2 =
            .ok (VM.pushNeg1 (VM.spush2 (VM.textto { s2 with track := T ++ [v'] } (p : Int)) (p : Int) ((k : Int) - (lo : Int) + 1)) q,
              .goto (bd : Int)) := by
          simp only [body, hop2, modeOf, hbk, hbk2, caseLazybranchcountBack, hbe.tr, bind, Except.bind,
            hia.operand hbe.pc 1 lim rfl, if_pos hcond, hia.operand hbe.pc 0 (bd : Int) rfl, pure, Except.pure]
        refine Delivers.of_step (step_goto hbody2 hwb) (hround _ v' hgo ?_)
        exact ⟨rfl, hwb, by simp [VM.pushNeg1, VM.spush2, VM.textto],
          by simp [VM.pushNeg1, VM.spush2, VM.textto, hbe.pc],
          by simp [VM.pushNeg1, VM.spush2, VM.textto, hbe.st, hcnt],
          by simp only [VM.pushNeg1, VM.spush2, VM.textto]; exact hbe.cap⟩
      · rw [if_neg hgo]
        have hcond : ¬ ((k : Int) - (lo : Int) < lim ∧ (p : Int) ≠ q) := by
          rintro ⟨h1, h2⟩
          have hq : ¬ (q = (p : Int) ∧ lo ≤ k) := fun h => h2 h.1.symm
          have hcg := (lim_lt_iff hl (hbnd hq)).1 h1
          have : (decide (q = (p : Int)) && decide (lo ≤ k)) = false := by
            rw [Bool.eq_false_iff]; intro h; simp only [Bool.and_eq_true, decide_eq_true_eq] at h; exact hq h
          exact hgo (by simp [hcg, this])
        refine Delivers.fail (v := v') (Leads.of_step hst (Leads.here ?_))
        refine ⟨VM.spush2 { s2 with track := T ++ [v'] } q ((k : Int) - (lo : Int)), ?_, rfl, by simp [VM.spush2, hbe.st], hbe.cap⟩
        simp only [body, hop2, modeOf, hbk, hbk2, caseLazybranchcountBack, hbe.tr, bind, Except.bind,
          hia.operand hbe.pc 1 lim rfl, if_neg hcond, pure, Except.pure]

end lazybranchcount

/-! ## the whole loop: head, body, tail -/

/-- a loop whose head (at `a`, one frame `[a]`) and tail (contract `htail`) are given abstractly: `lo = 0` — the head
    leads to the tail with mark `-1` and no iteration done; `lo ≥ 1` — the head leads into the body -/
theorem gloop_node {X : Setup} {a L bd b : Nat} {counted lzy : Bool} {lo : Nat} {hi : Option Nat} {S : List Int}
    {adj : Int → Nat → Int} {f : St → List St} {d : Bool} {i : Nat} {T : List Int} {v : Int} {C : List (Nat × Nat × Nat)}
    {s : VMState}
    (htail : TailOK X L bd b counted lzy lo hi S adj) (hadj : ∀ (q p : Nat), adj (q : Int) p = (q : Int))
    (hn : X.se.n < 2147483647)
    (hdir : ∀ st, ∀ st' ∈ f st, dirLe d st.pos st'.pos)
    (hfwf : ∀ st, St.wf X.se.n st → ∀ st' ∈ f st, St.wf X.se.n st')
    (hbody : ∀ (p : Nat) (C : List (Nat × Nat × Nat)) (T S' : List Int) (v : Int) (s : VMState), St.wf X.se.n ⟨p, C⟩ →
      Entry X bd p (T ++ [v]) S' C s → Delivers X L T S' S' C (f ⟨p, C⟩) s)
    (hhi : ∀ h, hi = some h → lo ≤ h) (hcu : counted = false → lo ≤ 1)
    (hwf : St.wf X.se.n ⟨i, C⟩)
    (hhead0 : lo = 0 → Leads X s (Entry X L i ((a : Int) :: (T ++ [v])) (loopStk counted lo S (-1) 0) C))
    (hhead1 : lo ≠ 0 → Leads X s (Entry X bd i ((a : Int) :: (T ++ [v])) (loopStk counted lo S (i : Int) 1) C))
    (hframe : Framed X.p [(a : Int)])
    (hback : ∀ (q : Int) (k : Nat) (v' : Int) (s' : VMState),
      FailAt X ((a : Int) :: (T ++ [v'])) (loopStk counted lo S q k) C s' → Leads X s' (FailAt X (T ++ [v']) S C)) :
    Delivers X b T S S C (iter f lzy lo hi (X.se.n + lo + 1) 0 ⟨i, C⟩) s := by
  have hin : i ≤ X.se.n := hwf.1
  have hround : ∀ (T' : List Int) (v1 : Int) (s1 : VMState), Entry X bd i (T' ++ [v1]) (loopStk counted lo S (i : Int) 1) C s1 →
      Delivers X b T' (loopStk counted lo S (i : Int) 1) S C
        ((f ⟨i, C⟩).flatMap (iterNext f lzy lo hi (X.se.n + lo) 0 i)) s1 := by
    intro T' v1 s1 he1
    have hb := hbody i C T' _ v1 s1 hwf he1
    refine Delivers.bind _ s1 hb ?_
    intro r hr F' s' v2 hF' he'
    have hrwf := hfwf _ hwf r hr
    have hrd : dirLe d i r.pos := hdir _ r hr
    have hrn := remDir_le d hrwf.1
    have hin' := remDir_le d hin
    refine gloop_delivers htail hadj hn hdir hfwf hbody (X.se.n + lo) 0 r.pos i r.caps (F' ++ T') v2 s' hrwf
      (fun h => by have := hcu h; omega) ?_ he'
    intro hne
    by_cases hl0 : lo = 0
    · have hrp : r.pos ≠ i := fun h => hne ⟨h.symm, by omega⟩
      have := remDir_lt hrd hrp hin hrwf.1
      omega
    · omega
  by_cases hl0 : lo = 0
  · obtain ⟨s1, hr1, he1⟩ := hhead0 hl0
    refine Delivers.of_reach hr1 ?_
    have hq : ¬ ((-1 : Int) = (((⟨i, C⟩ : St).pos : Nat) : Int) ∧ lo ≤ 0) := by
      intro h; have := h.1; simp at this
    have := htail 0 i (-1) C ((a : Int) :: T) v ((f ⟨i, C⟩).flatMap (iterNext f lzy lo hi (X.se.n + lo) 0 i)) s1 hin
      (fun _ => by omega) (fun _ _ => by omega) he1
      (fun _ s2 F v2 hF he2 => hround (F ++ (a : Int) :: T) v2 s2 he2)
    rw [tailList_go (f := f) (st := ⟨i, C⟩) hq] at this
    refine (Delivers.append (F := [(a : Int)]) hframe (ys := []) _ s1 (by simpa using this) ?_).cast rfl
      (List.append_nil _)
    intro s'' v' hf
    exact Delivers.fail (v := v') (hback _ _ v' s'' (by simpa using hf))
  · obtain ⟨s1, hr1, he1⟩ := hhead1 hl0
    refine Delivers.of_reach hr1 ?_
    have hcg : canGo hi 0 = true := by
      cases hhi' : hi with
      | none => rfl
      | some h => have := hhi h hhi'; simp [canGo]; omega
    have hit : iter f lzy lo hi (X.se.n + lo + 1) 0 ⟨i, C⟩ = (f ⟨i, C⟩).flatMap (iterNext f lzy lo hi (X.se.n + lo) 0 i) := by
      rw [iter_succ]
      have : ¬ lo ≤ 0 := by omega
      cases lzy <;> simp [this, hcg]
    rw [hit]
    refine (Delivers.append (F := [(a : Int)]) hframe (ys := []) _ s1
      (by simpa using hround ((a : Int) :: T) v s1 he1) ?_).cast rfl (List.append_nil _)
    intro s'' v' hf
    exact Delivers.fail (v := v') (hback _ _ v' s'' (by simpa using hf))

/-! ## the loop as the writer emits it -/

/-- the tail instruction of an emitted loop satisfies the contract -/
theorem tail_of_code {X : Setup} {TPx : TP} {sets : List (List Nat)} (hrel : EnvRel TPx sets X.env X.se) {L bd : Nat}
    {counted lzy : Bool} {lo : Nat} {hi : Option Nat} {lim : Int} (S : List Int) (hL : L ≠ 0)
    (hcode : CodeAt X.p L (if counted then [i2 (opBranchcount + (if lzy then 1 else 0)) (bd : Int) lim]
      else [i1 (opBranchmark + (if lzy then 1 else 0)) (bd : Int)]))
    (hfbd : ∃ w, VM.fetch X.p bd = .ok w) (hl : limOK lo hi lim) (hhin : counted = false → hi = none) :
    ∃ adj, TailOK X L bd (L + (if counted then 3 else 2)) counted lzy lo hi S adj ∧
      ∀ (q p : Nat), adj (q : Int) p = (q : Int) := by
  cases counted with
  | false =>
    have := hhin rfl
    subst this
    simp only [Bool.false_eq_true, if_false] at hcode ⊢
    cases lzy with
    | false =>
      have hc : CodeAt X.p L [i1 opBranchmark (bd : Int)] := hcode
      exact ⟨_, branchmark_tail hL hc.instr (by simpa [codeLen] using hc.fetch_end) hfbd, fun _ _ => rfl⟩
    | true =>
      have hc : CodeAt X.p L [i1 opLazybranchmark (bd : Int)] := hcode
      refine ⟨_, lazybranchmark_tail hL hc.instr (by simpa [codeLen] using hc.fetch_end) hfbd, fun q p => ?_⟩
      simp only [lbmAdj]; rw [if_neg (by omega)]
  | true =>
    simp only [if_true] at hcode ⊢
    cases lzy with
    | false =>
      have hc : CodeAt X.p L [i2 opBranchcount (bd : Int) lim] := hcode
      exact ⟨_, branchcount_tail hrel hL hc.instr (by simpa [codeLen] using hc.fetch_end) hfbd hl, fun _ _ => rfl⟩
    | true =>
      have hc : CodeAt X.p L [i2 opLazybranchcount (bd : Int) lim] := hcode
      exact ⟨_, lazybranchcount_tail hL hc.instr (by simpa [codeLen] using hc.fetch_end) hfbd hl, fun _ _ => rfl⟩

/-- the head of an emitted loop: `Nullmark|Nullcount 0; Goto tail` for a minimum of 0, else `Setmark|Setcount (1 - m)` -/
theorem head_of_code {X : Setup} {a after : Nat} {counted : Bool} {m : Int} {i : Nat} {T0 S : List Int} {v : Int}
    {C : List (Nat × Nat × Nat)} {s : VMState} (h0 : 0 ≤ m)
    (hcode : CodeAt X.p a ((if counted then (if m == 0 then [i1 opNullcount 0] else [i1 opSetcount (1 - m)])
      else (if m == 0 then [i0 opNullmark] else [i0 opSetmark])) ++ (if m == 0 then [i1 opGoto (after : Int)] else [])))
    (hfa : ∃ w, VM.fetch X.p after = .ok w) (he : Entry X a i (T0 ++ [v]) S C s) :
    (m.toNat = 0 → Leads X s (Entry X after i ((a : Int) :: (T0 ++ [v])) (loopStk counted m.toNat S (-1) 0) C)) ∧
    (m.toNat ≠ 0 → Leads X s (Entry X (a + (if counted then 2 else 1)) i ((a : Int) :: (T0 ++ [v]))
      (loopStk counted m.toNat S (i : Int) 1) C)) ∧
    Framed X.p [(a : Int)] ∧
    (∀ (q : Int) (k : Nat) (v' : Int) (s' : VMState), FailAt X ((a : Int) :: (T0 ++ [v'])) (loopStk counted m.toNat S q k) C s' →
      Leads X s' (FailAt X (T0 ++ [v']) S C)) := by
  by_cases hm : m = 0
  · subst hm
    simp only [beq_self_eq_true, if_true] at hcode
    cases counted with
    | true =>
      simp only [if_true] at hcode ⊢
      have hh : InstrAt X.p a (i1 opNullcount 0) := (hcode.left').instr
      have hg : InstrAt X.p (a + 2) (i1 opGoto (after : Int)) := (hcode.right.cast (by simp [codeLen]) rfl).instr
      refine ⟨fun _ => ?_, fun h => absurd rfl h, nullcount_frame hh, fun q k v' s' hf => ?_⟩
      · obtain ⟨s1, hr1, he1⟩ := nullcount_leads he hh ⟨_, hg.fetch⟩
        obtain ⟨s2, hr2, he2⟩ := goto_leads he1 hg hfa
        exact ⟨s2, hr1.trans hr2, by simpa [loopStk] using he2⟩
      · exact nullcount_back (by simpa [loopStk] using hf) hh
    | false =>
      simp only [Bool.false_eq_true, if_false] at hcode ⊢
      have hh : InstrAt X.p a (i0 opNullmark) := (hcode.left').instr
      have hg : InstrAt X.p (a + 1) (i1 opGoto (after : Int)) := (hcode.right.cast (by simp [codeLen]) rfl).instr
      refine ⟨fun _ => ?_, fun h => absurd rfl h, nullmark_frame hh, fun q k v' s' hf => ?_⟩
      · obtain ⟨s1, hr1, he1⟩ := nullmark_leads he hh ⟨_, hg.fetch⟩
        obtain ⟨s2, hr2, he2⟩ := goto_leads he1 hg hfa
        exact ⟨s2, hr1.trans hr2, by simpa [loopStk] using he2⟩
      · exact nullmark_back (by simpa [loopStk] using hf) hh
  · have hmb : (m == 0) = false := by simpa using hm
    have hmt : m.toNat ≠ 0 := by omega
    have hmc : ((m.toNat : Nat) : Int) = m := by omega
    simp only [hmb, Bool.false_eq_true, if_false, List.append_nil] at hcode
    cases counted with
    | true =>
      simp only [if_true] at hcode ⊢
      have hh : InstrAt X.p a (i1 opSetcount (1 - m)) := hcode.instr
      refine ⟨fun h => absurd h hmt, fun _ => ?_, setcount_frame hh, fun q k v' s' hf => ?_⟩
      · obtain ⟨s1, hr1, he1⟩ := setcount_leads he hh (by simpa [codeLen] using hcode.fetch_end)
        exact ⟨s1, hr1, by simpa [loopStk, hmc] using he1⟩
      · exact setcount_back (by simpa [loopStk] using hf) hh
    | false =>
      simp only [Bool.false_eq_true, if_false] at hcode ⊢
      have hh : InstrAt X.p a (i0 opSetmark) := hcode.instr
      refine ⟨fun h => absurd h hmt, fun _ => ?_, setmark_frame hh, fun q k v' s' hf => ?_⟩
      · obtain ⟨s1, hr1, he1⟩ := setmark_leads he hh (by simpa [codeLen] using hcode.fetch_end)
        exact ⟨s1, hr1, by simpa [loopStk] using he1⟩
      · exact setmark_back (by simpa [loopStk] using hf) hh

theorem limOK_repArg {m n : Int} (h0 : 0 ≤ m) (hmn : m ≤ n) : limOK m.toNat (hiOf n) (repArg m n) := by
  unfold hiOf repArg
  by_cases h : n = maxInt32
  · simp [h, limOK, maxInt32]
  · have : (n == maxInt32) = false := by simpa using h
    simp only [this, Bool.false_eq_true, if_false, limOK]
    omega

theorem loopHead_len (m n : Int) (after : Int) :
    codeLen ((if counted m n then (if m == 0 then [i1 opNullcount 0] else [i1 opSetcount (1 - m)])
      else (if m == 0 then [i0 opNullmark] else [i0 opSetmark])) ++
      (if m == 0 then [i1 opGoto after] else [])) = loopHeadLen m n := by
  unfold loopHeadLen
  cases counted m n <;> cases (m == 0) <;> simp [codeLen]

/-- where the body of an emitted loop sits -/
theorem loop_body_codeAt {p : Prog} {a : Nat} {m n : Int} {after : Int} {body tail : Code}
    (hcode : CodeAt p a
      ((if counted m n then (if m == 0 then [i1 opNullcount 0] else [i1 opSetcount (1 - m)])
          else (if m == 0 then [i0 opNullmark] else [i0 opSetmark])) ++
        (if m == 0 then [i1 opGoto after] else []) ++ body ++ tail)) : CodeAt p (a + loopHeadLen m n) body := by
  have := (hcode.left').right
  rw [loopHead_len] at this
  exact this

/-- **`Loop` / `Lazyloop`** as `emitNode` writes it, around a body that delivers `f` -/
theorem gloopnode_delivers {X : Setup} {TPx : TP} {sets : List (List Nat)} (hrel : EnvRel TPx sets X.env X.se)
    (hn : X.se.n < 2147483647) {a sz : Nat} {lzy : Bool} {m n : Int} {body : Code} {f : St → List St} {d : Bool}
    (h0 : 0 ≤ m) (hmn : m ≤ n) (hnm : n ≤ maxInt32)
    (hcode : CodeAt X.p a
      ((if counted m n then (if m == 0 then [i1 opNullcount 0] else [i1 opSetcount (1 - m)])
          else (if m == 0 then [i0 opNullmark] else [i0 opSetmark])) ++
        (if m == 0 then [i1 opGoto ((a + loopHeadLen m n + sz : Nat) : Int)] else []) ++ body ++
        (if counted m n then [i2 (opBranchcount + (if lzy then 1 else 0)) ((a + loopHeadLen m n : Nat) : Int) (repArg m n)]
          else [i1 (opBranchmark + (if lzy then 1 else 0)) ((a + loopHeadLen m n : Nat) : Int)])))
    (hsz : codeLen body = sz)
    (hdir : ∀ st, ∀ st' ∈ f st, dirLe d st.pos st'.pos)
    (hfwf : ∀ st, St.wf X.se.n st → ∀ st' ∈ f st, St.wf X.se.n st')
    (hbody : ∀ (p : Nat) (C : List (Nat × Nat × Nat)) (T S' : List Int) (v : Int) (s : VMState), St.wf X.se.n ⟨p, C⟩ →
      Entry X (a + loopHeadLen m n) p (T ++ [v]) S' C s → Delivers X (a + loopHeadLen m n + sz) T S' S' C (f ⟨p, C⟩) s)
    {i : Nat} {T S : List Int} {v : Int} {C : List (Nat × Nat × Nat)} {s : VMState} (hwf : St.wf X.se.n ⟨i, C⟩)
    (he : Entry X a i (T ++ [v]) S C s) :
    Delivers X (a + loopHeadLen m n + sz + loopTailLen m n) T S S C
      (iter f lzy m.toNat (hiOf n) (X.se.n + m.toNat + 1) 0 ⟨i, C⟩) s := by
  have hhl := loopHead_len m n ((a + loopHeadLen m n + sz : Nat) : Int)
  -- the pieces
  have hchead := (hcode.left').left'
  have hcbody : CodeAt X.p (a + loopHeadLen m n) body := by
    have := (hcode.left').right
    rw [hhl] at this
    exact this
  have hctail := hcode.right
  rw [codeLen_append, hhl, hsz, ← Nat.add_assoc] at hctail
  have hfbd : ∃ w, VM.fetch X.p (a + loopHeadLen m n) = .ok w := by
    have := hchead.fetch_end
    rw [hhl] at this
    exact this
  have hfL : ∃ w, VM.fetch X.p (a + loopHeadLen m n + sz) = .ok w := by
    have := (hcode.left').fetch_end
    rw [codeLen_append, hhl, hsz] at this
    simpa [Nat.add_assoc] using this
  have hL : a + loopHeadLen m n + sz ≠ 0 := by unfold loopHeadLen; split <;> omega
  have hhin : counted m n = false → hiOf n = none := by
    intro h
    simp only [counted, Bool.or_eq_false_iff, decide_eq_false_iff_not] at h
    have : n = maxInt32 := by omega
    simp [hiOf, this]
  obtain ⟨adj, htail, hadj⟩ := tail_of_code hrel (lo := m.toNat) (hi := hiOf n) S hL hctail hfbd (limOK_repArg h0 hmn) hhin
  obtain ⟨hh0, hh1, hfr, hbk⟩ := head_of_code (S := S) h0 hchead hfL he
  have hbl : a + loopHeadLen m n + sz + loopTailLen m n = a + loopHeadLen m n + sz + (if counted m n then 3 else 2) := by
    unfold loopTailLen; rfl
  rw [hbl]
  refine gloop_node htail hadj hn hdir hfwf hbody ?_ ?_ hwf hh0 ?_ hfr hbk
  · intro h hh
    unfold hiOf at hh
    split at hh
    · cases hh
    · next hne =>
      have : n ≠ maxInt32 := by simpa using hne
      cases hh
      omega
  · intro h
    simp only [counted, Bool.or_eq_false_iff, decide_eq_false_iff_not] at h
    omega
  · intro hne
    have := hh1 hne
    unfold loopHeadLen
    have hmb : (m == 0) = false := by
      rw [Bool.eq_false_iff]; intro h; rw [beq_iff_eq] at h; rw [h] at hne; exact hne rfl
    simpa [hmb] using this

end RegexVerif.Compile
