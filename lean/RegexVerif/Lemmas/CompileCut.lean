/-
Compiler correctness, part 8: the cutting constructs — `Setjump … Forejump` (atomic group), `Setjump; Setmark … Getmark;
Forejump` (positive lookahead), `Setjump; Lazybranch … Backjump; Forejump` (negative lookahead).
-/
import RegexVerif.Lemmas.CompileStep

namespace RegexVerif.Compile
open RegexVerif.VM RegexVerif.Code RegexVerif.Writer RegexVerif.Generated.Opcodes RegexVerif RegexVerif.Spec
open RegexVerif.Lemmas.VM

/-- `for Crawlpos() != target { uncapture() }` removes the captures made since the log had `C.length` entries -/
theorem uncaptureTo_spec {sl : Nat → Nat} {N : Nat} {C : List (Nat × Nat × Nat)} :
    ∀ (k : Nat) (ext : List (Nat × Nat × Nat)) (s : VMState) (fuel : Nat), ext.length = k →
      CapRep sl N s.cap (C ++ ext) → k ≤ fuel →
      ∃ R', VM.uncaptureTo (C.length : Int) fuel s = .ok { s with cap := R' } ∧ CapRep sl N R' C := by
  intro k
  induction k with
  | zero =>
    intro ext s fuel hk hrep _
    have : ext = [] := List.eq_nil_of_length_eq_zero hk
    subst this
    rw [List.append_nil] at hrep
    have hlen : (s.cap.crawl.length : Int) = (C.length : Int) := by rw [hrep.crawl]; simp
    refine ⟨s.cap, ?_, hrep⟩
    cases fuel <;> simp [VM.uncaptureTo, hlen]
  | succ k ih =>
    intro ext s fuel hk hrep hfuel
    rcases List.eq_nil_or_concat ext with h | ⟨ext', x, h⟩
    · subst h; simp at hk
    · rw [List.concat_eq_append] at h
      subst h
      have hk' : ext'.length = k := by simp at hk; exact hk
      rw [← List.append_assoc] at hrep
      obtain ⟨rest, hcr, hrep'⟩ := capRep_uncapture hrep
      obtain ⟨f, rfl⟩ : ∃ f, fuel = f + 1 := ⟨fuel - 1, by omega⟩
      have hne : ¬ (s.cap.crawl.length : Int) = (C.length : Int) := by
        rw [hrep.crawl]; simp; omega
      have hun : VM.uncapture s = .ok { s with cap := MatchBuilder.uncapture s.cap } := by
        simp [VM.uncapture, hcr]
      obtain ⟨R', h1, h2⟩ := ih ext' { s with cap := MatchBuilder.uncapture s.cap } f hk' hrep' (by omega)
      refine ⟨R', ?_, h2⟩
      simp only [VM.uncaptureTo, hne, if_false, hun]
      exact h1

section cut
variable {X : Setup} {a i : Nat} {T S : List Int} {C : List (Nat × Nat × Nat)} {s : VMState}

theorem setjump_leads (he : Entry X a i T S C s) (hia : InstrAt X.p a (i0 opSetjump))
    (hf : ∃ w, VM.fetch X.p (a + 1) = .ok w) :
    Leads X s (Entry X (a + 1) i ((a : Int) :: T) ((C.length : Int) :: (T.length : Int) :: S) C) := by
  obtain ⟨w, hw⟩ := hf
  have hoper : s.oper = ⟨opSetjump, false, false, false, false⟩ := by
    rw [he.oper hia]; exact decode_plain opSetjump (by decide)
  have hop : Op.ofNat? s.oper.op = some .setjump := by rw [hoper]; rfl
  have hb : s.oper.back = false := by rw [hoper]
  have hb2 : s.oper.back2 = false := by rw [hoper]
  have hbody : VM.body X.p X.env s = .ok (VM.push0 (VM.spush2 s s.track.length s.cap.crawl.length), .advance 0) := by
    simp only [body, hop, modeOf, hb, hb2, caseSetjump]
  have hcl : s.cap.crawl.length = C.length := by rw [he.cap.crawl]; simp
  refine Leads.of_step (step_adv hbody (by simp only [VM.push0, VM.spush2, he.pc]; exact hw)) (Leads.here ?_)
  exact ⟨by simp [VM.push0, VM.spush2, he.pc], hw, by simp [VM.push0, VM.spush2, he.tp],
    by simp [VM.push0, VM.spush2, he.pc, he.tr], by simp [VM.push0, VM.spush2, he.st, he.tr, hcl],
    by simp only [VM.push0, VM.spush2]; exact he.cap⟩

theorem setjump_frame (hia : InstrAt X.p a (i0 opSetjump)) : Framed X.p [(a : Int)] := by
  refine Framed.one _ [] ?_
  simp [VM.frameSize, savedPos_pos, hia.fetch]
  decide

theorem setjump_back {u v : Int} (hfail : FailAt X ((a : Int) :: T) (u :: v :: S) C s)
    (hia : InstrAt X.p a (i0 opSetjump)) : Leads X s (FailAt X T S C) := by
  obtain ⟨s2, chk, hst, hbe⟩ := fail_step hfail hia.fetch
  refine Leads.of_step hst (Leads.here ?_)
  have hoper : s2.oper = ⟨opSetjump, false, true, false, false⟩ := by
    have : decode (i0 opSetjump).op = ⟨opSetjump, false, false, false, false⟩ := decode_plain opSetjump (by decide)
    rw [hbe.op, this]
  have hop : Op.ofNat? s2.oper.op = some .setjump := by rw [hoper]; rfl
  have hb : s2.oper.back = true := by rw [hoper]
  have hb2 : s2.oper.back2 = false := by rw [hoper]
  refine ⟨{ s2 with stack := S }, ?_, hbe.tr, rfl, hbe.cap⟩
  simp only [body, hop, modeOf, hb, hb2, casePop2Back, hbe.st]

/-- `trackto` over whole frames -/
theorem trackto_framed {F : List Int} (hF : Framed X.p F) (hT : T ≠ []) (s1 : VMState) (ht : s1.track = F ++ T) :
    VM.trackto X.p s1 (T.length : Int) = .ok { s1 with track := T } := by
  unfold VM.trackto
  have h1 : (0 : Int) ≤ (T.length : Int) ∧ ((T.length : Int)).toNat ≤ s1.track.length := by
    rw [ht]; simp
  rw [if_pos h1]
  have h2 : s1.track.length - ((T.length : Int)).toNat = F.length := by rw [ht]; simp
  rw [h2, ht, cutFrames_framed hF T _ (by simp)]
  cases T with
  | nil => exact absurd rfl hT
  | cons c t => rfl

theorem forejump_leads {F : List Int} {cl : Nat} {C' : List (Nat × Nat × Nat)} (hF : Framed X.p F) (hT : T ≠ [])
    (he : Entry X a i (F ++ T) ((cl : Int) :: (T.length : Int) :: S) C' s) (hia : InstrAt X.p a (i0 opForejump))
    (hf : ∃ w, VM.fetch X.p (a + 1) = .ok w) :
    Leads X s (Entry X (a + 1) i ((a : Int) :: (cl : Int) :: T) S C') := by
  obtain ⟨w, hw⟩ := hf
  have hoper : s.oper = ⟨opForejump, false, false, false, false⟩ := by
    rw [he.oper hia]; exact decode_plain opForejump (by decide)
  have hop : Op.ofNat? s.oper.op = some .forejump := by rw [hoper]; rfl
  have hb : s.oper.back = false := by rw [hoper]
  have hb2 : s.oper.back2 = false := by rw [hoper]
  have htt := trackto_framed hF hT { s with stack := S } he.tr
  have hbody : VM.body X.p X.env s = .ok (VM.push1 { s with stack := S, track := T } (cl : Int), .advance 0) := by
    simp only [body, hop, modeOf, hb, hb2, caseForejump, he.st, htt, Except.map]
  refine Leads.of_step (step_adv hbody (by simp only [VM.push1, he.pc]; exact hw)) (Leads.here ?_)
  exact ⟨by simp [VM.push1, he.pc], hw, by simp [VM.push1, he.tp], by simp [VM.push1, he.pc],
    by simp [VM.push1], by simp only [VM.push1]; exact he.cap⟩

theorem forejump_frame (hia : InstrAt X.p a (i0 opForejump)) (v : Int) : Framed X.p [(a : Int), v] := by
  refine Framed.one _ [v] ?_
  simp [VM.frameSize, savedPos_pos, hia.fetch]
  decide

theorem forejump_back {ext : List (Nat × Nat × Nat)}
    (hfail : FailAt X ((a : Int) :: (C.length : Int) :: T) S (C ++ ext) s) (hia : InstrAt X.p a (i0 opForejump)) :
    Leads X s (FailAt X T S C) := by
  obtain ⟨s2, chk, hst, hbe⟩ := fail_step hfail hia.fetch
  refine Leads.of_step hst (Leads.here ?_)
  have hoper : s2.oper = ⟨opForejump, false, true, false, false⟩ := by
    have : decode (i0 opForejump).op = ⟨opForejump, false, false, false, false⟩ := decode_plain opForejump (by decide)
    rw [hbe.op, this]
  have hop : Op.ofNat? s2.oper.op = some .forejump := by rw [hoper]; rfl
  have hb : s2.oper.back = true := by rw [hoper]
  have hb2 : s2.oper.back2 = false := by rw [hoper]
  have hcl : s2.cap.crawl.length = (C ++ ext).length := by rw [hbe.cap.crawl]; simp; omega
  obtain ⟨R', h1, h2⟩ := uncaptureTo_spec ext.length ext { s2 with track := T } s2.cap.crawl.length rfl hbe.cap
    (by rw [hcl]; simp)
  refine ⟨{ s2 with track := T, cap := R' }, ?_, rfl, hbe.st, h2⟩
  simp only [body, hop, modeOf, hb, hb2, caseForejumpBack, hbe.tr, h1, Except.map]

theorem backjump_fails {F : List Int} {ext : List (Nat × Nat × Nat)} (hF : Framed X.p F) (hT : T ≠ [])
    (he : Entry X a i (F ++ T) ((C.length : Int) :: (T.length : Int) :: S) (C ++ ext) s)
    (hia : InstrAt X.p a (i0 opBackjump)) : FailAt X T S C s := by
  have hoper : s.oper = ⟨opBackjump, false, false, false, false⟩ := by
    rw [he.oper hia]; exact decode_plain opBackjump (by decide)
  have hop : Op.ofNat? s.oper.op = some .backjump := by rw [hoper]; rfl
  have hb : s.oper.back = false := by rw [hoper]
  have hb2 : s.oper.back2 = false := by rw [hoper]
  have htt := trackto_framed hF hT { s with stack := S } he.tr
  have hcl : s.cap.crawl.length = (C ++ ext).length := by rw [he.cap.crawl]; simp; omega
  obtain ⟨R', h1, h2⟩ := uncaptureTo_spec ext.length ext { s with stack := S, track := T } s.cap.crawl.length rfl he.cap
    (by rw [hcl]; simp)
  refine ⟨{ s with stack := S, track := T, cap := R' }, ?_, rfl, rfl, h2⟩
  simp only [body, hop, modeOf, hb, hb2, caseBackjump, he.st, bind, Except.bind, htt, h1, pure, Except.pure]

theorem getmark_leads {TPx : TP} {sets : List (List Nat)} (hrel : EnvRel TPx sets X.env X.se) {v : Nat} (hv : v ≤ X.se.n)
    (he : Entry X a i T ((v : Int) :: S) C s) (hia : InstrAt X.p a (i0 opGetmark))
    (hf : ∃ w, VM.fetch X.p (a + 1) = .ok w) :
    Leads X s (Entry X (a + 1) v ((a : Int) :: (v : Int) :: T) S C) := by
  obtain ⟨w, hw⟩ := hf
  have hoper : s.oper = ⟨opGetmark, false, false, false, false⟩ := by
    rw [he.oper hia]; exact decode_plain opGetmark (by decide)
  have hop : Op.ofNat? s.oper.op = some .getmark := by rw [hoper]; rfl
  have hb : s.oper.back = false := by rw [hoper]
  have hb2 : s.oper.back2 = false := by rw [hoper]
  have hrange : (0 : Int) ≤ (v : Int) ∧ (v : Int) ≤ X.env.len := by rw [env_len hrel]; omega
  have hbody : VM.body X.p X.env s = .ok (VM.textto (VM.push1 { s with stack := S } (v : Int)) (v : Int), .advance 0) := by
    simp only [body, hop, modeOf, hb, hb2, caseGetmark, he.st, VM.texttoStack, hrange, and_self, if_true, Except.map]
  refine Leads.of_step (step_adv hbody (by simp only [VM.push1, VM.textto, he.pc]; exact hw)) (Leads.here ?_)
  exact ⟨by simp [VM.push1, VM.textto, he.pc], hw, by simp [VM.push1, VM.textto],
    by simp [VM.push1, VM.textto, he.pc, he.tr], by simp [VM.push1, VM.textto],
    by simp only [VM.push1, VM.textto]; exact he.cap⟩

theorem getmark_frame (hia : InstrAt X.p a (i0 opGetmark)) (v : Int) : Framed X.p [(a : Int), v] := by
  refine Framed.one _ [v] ?_
  simp [VM.frameSize, savedPos_pos, hia.fetch]
  decide

end cut

/-! ## the three constructs -/

/-- what a positive lookaround makes of the successes of its body -/
def posLookRes (i : Nat) : List St → List St
  | [] => []
  | st' :: _ => [⟨i, st'.caps⟩]

/-- what a negative lookaround makes of the successes of its body -/
def negLookRes (i : Nat) (C : List (Nat × Nat × Nat)) : List St → List St
  | [] => [⟨i, C⟩]
  | _ :: _ => []

section nodes
variable {X : Setup} {a i sz : Nat} {T S : List Int} {C : List (Nat × Nat × Nat)} {s : VMState} {body : Code}
  {rs : List St} {v : Int}

/-- `Atomic`: `Setjump; ⟨body⟩; Forejump` keeps the first success of the body and cuts its frames -/
theorem atomic_delivers (hcode : CodeAt X.p a ([i0 opSetjump] ++ body ++ [i0 opForejump]))
    (hsz : codeLen body = sz) (he : Entry X a i (T ++ [v]) S C s) (hext : ∀ r ∈ rs, ∃ ext, r.caps = C ++ ext)
    (hbody : ∀ s1, Entry X (a + 1) i ((a : Int) :: (T ++ [v])) ((C.length : Int) :: ((T.length + 1 : Nat) : Int) :: S) C s1 →
      Delivers X (a + 1 + sz) ((a : Int) :: T) ((C.length : Int) :: ((T.length + 1 : Nat) : Int) :: S)
        ((C.length : Int) :: ((T.length + 1 : Nat) : Int) :: S) C rs s1) :
    Delivers X (a + 1 + sz + 1) T S S C (rs.take 1) s := by
  have h1 : CodeAt X.p a ([i0 opSetjump] ++ body) := hcode.left'
  have hsj : InstrAt X.p a (i0 opSetjump) := (h1.left').instr
  have hfj : InstrAt X.p (a + 1 + sz) (i0 opForejump) := by
    have := hcode.right
    rw [codeLen_append, hsz] at this
    exact (this.cast (by simp; omega) rfl).instr
  have hend : ∃ w, VM.fetch X.p (a + 1 + sz + 1) = .ok w := by
    have := hcode.fetch_end
    simp only [codeLen_append, hsz] at this
    simpa [Nat.add_assoc] using this
  have hf1 : ∃ w, VM.fetch X.p (a + 1) = .ok w := by simpa using (h1.left').fetch_end
  obtain ⟨s1, hr1, he1⟩ := setjump_leads he hsj hf1
  refine Delivers.of_reach hr1 ?_
  have hb := hbody s1 (by simpa using he1)
  cases rs with
  | nil =>
    obtain ⟨s2, hr2, v', hf2⟩ := hb
    exact Delivers.fail (v := v') (Leads.of_reach hr2 (setjump_back (by simpa using hf2) hsj))
  | cons r rs' =>
    obtain ⟨F, hF, ⟨s2, hr2, v', he2⟩, _⟩ := hb
    obtain ⟨ext, hx⟩ := hext r (by simp)
    simp only [List.take_succ_cons, List.take_zero]
    refine Delivers.cons (v := v') [((a + 1 + sz : Nat) : Int), (C.length : Int)] (forejump_frame hfj _) ?_ ?_
    · refine Leads.of_reach hr2 ?_
      have he2' : Entry X (a + 1 + sz) r.pos ((F ++ [(a : Int)]) ++ (T ++ [v'])) ((C.length : Int) :: ((T ++ [v']).length : Int) :: S)
          r.caps s2 := by simpa using he2
      have := forejump_leads (hF.append (setjump_frame hsj)) (by simp) he2' hfj hend
      simpa using this
    · intro s'' v'' hf''
      rw [hx] at hf''
      exact Delivers.fail (v := v'') (forejump_back (by simpa using hf'') hfj)

/-- positive lookahead: `Setjump; Setmark; ⟨body⟩; Getmark; Forejump` -/
theorem poslook_delivers {TPx : TP} {sets : List (List Nat)} (hrel : EnvRel TPx sets X.env X.se) (hi : i ≤ X.se.n)
    (hcode : CodeAt X.p a ([i0 opSetjump, i0 opSetmark] ++ body ++ [i0 opGetmark, i0 opForejump]))
    (hsz : codeLen body = sz) (he : Entry X a i (T ++ [v]) S C s) (hext : ∀ r ∈ rs, ∃ ext, r.caps = C ++ ext)
    (hbody : ∀ s1, Entry X (a + 2) i (((a + 1 : Nat) : Int) :: (a : Int) :: (T ++ [v]))
        ((i : Int) :: (C.length : Int) :: ((T.length + 1 : Nat) : Int) :: S) C s1 →
      Delivers X (a + 2 + sz) (((a + 1 : Nat) : Int) :: (a : Int) :: T)
        ((i : Int) :: (C.length : Int) :: ((T.length + 1 : Nat) : Int) :: S)
        ((i : Int) :: (C.length : Int) :: ((T.length + 1 : Nat) : Int) :: S) C rs s1) :
    Delivers X (a + 2 + sz + 2) T S S C (posLookRes i rs) s := by
  have h1 : CodeAt X.p a ([i0 opSetjump, i0 opSetmark] ++ body) := hcode.left'
  have h12 : CodeAt X.p a ([i0 opSetjump] ++ [i0 opSetmark]) := h1.left'
  have hsj : InstrAt X.p a (i0 opSetjump) := (h12.left').instr
  have hsm : InstrAt X.p (a + 1) (i0 opSetmark) := by
    have := h12.right
    exact (this.cast (by simp) rfl).instr
  have htail : CodeAt X.p (a + 2 + sz) ([i0 opGetmark] ++ [i0 opForejump]) := by
    have := hcode.right
    rw [codeLen_append, hsz] at this
    exact this.cast (by simp; omega) rfl
  have hgm : InstrAt X.p (a + 2 + sz) (i0 opGetmark) := (htail.left').instr
  have hfj : InstrAt X.p (a + 2 + sz + 1) (i0 opForejump) := by
    have := htail.right
    exact (this.cast (by simp) rfl).instr
  have hend : ∃ w, VM.fetch X.p (a + 2 + sz + 2) = .ok w := by
    have := htail.fetch_end
    simpa [Nat.add_assoc] using this
  have hf1 : ∃ w, VM.fetch X.p (a + 1) = .ok w := ⟨_, hsm.fetch⟩
  have hf2 : ∃ w, VM.fetch X.p (a + 2) = .ok w := by simpa using h12.fetch_end
  have hf3 : ∃ w, VM.fetch X.p (a + 2 + sz + 1) = .ok w := ⟨_, hfj.fetch⟩
  obtain ⟨s1, hr1, he1⟩ := setjump_leads he hsj hf1
  obtain ⟨s1', hr1', he1'⟩ := setmark_leads he1 hsm hf2
  refine Delivers.of_reach (hr1.trans hr1') ?_
  have hb := hbody s1' (by simpa using he1')
  cases rs with
  | nil =>
    obtain ⟨s2, hr2, v', hfl⟩ := hb
    refine Delivers.fail (v := v') (Leads.of_reach hr2 ?_)
    obtain ⟨s3, hr3, hfl3⟩ := setmark_back (by simpa using hfl) hsm
    exact Leads.of_reach hr3 (setjump_back hfl3 hsj)
  | cons r rs' =>
    obtain ⟨F, hF, ⟨s2, hr2, v', he2⟩, _⟩ := hb
    obtain ⟨ext, hx⟩ := hext r (by simp)
    refine Delivers.cons (v := v') [((a + 2 + sz + 1 : Nat) : Int), (C.length : Int)] (forejump_frame hfj _) ?_ ?_
    · refine Leads.of_reach hr2 ?_
      obtain ⟨s3, hr3, he3⟩ := getmark_leads hrel hi he2 hgm hf3
      refine Leads.of_reach hr3 ?_
      have hFr : Framed X.p ([((a + 2 + sz : Nat) : Int), (i : Int)] ++ (F ++ ([((a + 1 : Nat) : Int)] ++ [(a : Int)]))) :=
        (getmark_frame hgm _).append (hF.append ((setmark_frame hsm).append (setjump_frame hsj)))
      have he3' : Entry X (a + 2 + sz + 1) i
          (([((a + 2 + sz : Nat) : Int), (i : Int)] ++ (F ++ ([((a + 1 : Nat) : Int)] ++ [(a : Int)]))) ++ (T ++ [v']))
          ((C.length : Int) :: ((T ++ [v']).length : Int) :: S) r.caps s3 := by simpa using he3
      have := forejump_leads hFr (by simp) he3' hfj hend
      simpa using this
    · intro s'' v'' hf''
      simp only at hf''
      rw [hx] at hf''
      exact Delivers.fail (v := v'') (forejump_back (by simpa using hf'') hfj)

/-- negative lookahead: `Setjump; Lazybranch L; ⟨body⟩; Backjump; L: Forejump` -/
theorem neglook_delivers
    (hcode : CodeAt X.p a ([i0 opSetjump, i1 opLazybranch ((a + 3 + sz + 1 : Nat) : Int)] ++ body ++
      [i0 opBackjump, i0 opForejump]))
    (hsz : codeLen body = sz) (he : Entry X a i (T ++ [v]) S C s) (hext : ∀ r ∈ rs, ∃ ext, r.caps = C ++ ext)
    (hbody : ∀ s1, Entry X (a + 3) i (((a + 1 : Nat) : Int) :: (i : Int) :: (a : Int) :: (T ++ [v]))
        ((C.length : Int) :: ((T.length + 1 : Nat) : Int) :: S) C s1 →
      Delivers X (a + 3 + sz) (((a + 1 : Nat) : Int) :: (i : Int) :: (a : Int) :: T)
        ((C.length : Int) :: ((T.length + 1 : Nat) : Int) :: S) ((C.length : Int) :: ((T.length + 1 : Nat) : Int) :: S) C rs s1) :
    Delivers X (a + 3 + sz + 2) T S S C (negLookRes i C rs) s := by
  have h1 : CodeAt X.p a ([i0 opSetjump, i1 opLazybranch ((a + 3 + sz + 1 : Nat) : Int)] ++ body) := hcode.left'
  have h12 : CodeAt X.p a ([i0 opSetjump] ++ [i1 opLazybranch ((a + 3 + sz + 1 : Nat) : Int)]) := h1.left'
  have hsj : InstrAt X.p a (i0 opSetjump) := (h12.left').instr
  have hlb : InstrAt X.p (a + 1) (i1 opLazybranch ((a + 3 + sz + 1 : Nat) : Int)) := by
    have := h12.right
    exact (this.cast (by simp) rfl).instr
  have htail : CodeAt X.p (a + 3 + sz) ([i0 opBackjump] ++ [i0 opForejump]) := by
    have := hcode.right
    rw [codeLen_append, hsz] at this
    exact this.cast (by simp; omega) rfl
  have hbj : InstrAt X.p (a + 3 + sz) (i0 opBackjump) := (htail.left').instr
  have hfj : InstrAt X.p (a + 3 + sz + 1) (i0 opForejump) := by
    have := htail.right
    exact (this.cast (by simp) rfl).instr
  have hend : ∃ w, VM.fetch X.p (a + 3 + sz + 2) = .ok w := by
    have := htail.fetch_end
    simpa [Nat.add_assoc] using this
  have hf1 : ∃ w, VM.fetch X.p (a + 1) = .ok w := ⟨_, hlb.fetch⟩
  have hf3 : ∃ w, VM.fetch X.p (a + 1 + 2) = .ok w := by
    have := h12.fetch_end
    simpa [Nat.add_assoc] using this
  obtain ⟨s1, hr1, he1⟩ := setjump_leads he hsj hf1
  obtain ⟨s1', hr1', he1'⟩ := lazybranch_leads he1 hlb hf3
  refine Delivers.of_reach (hr1.trans hr1') ?_
  have hb := hbody s1' (by simpa [Nat.add_assoc] using he1')
  cases rs with
  | nil =>
    obtain ⟨s2, hr2, v', hfl⟩ := hb
    refine Delivers.cons (v := v') [((a + 3 + sz + 1 : Nat) : Int), (C.length : Int)] (forejump_frame hfj _) ?_ ?_
    · refine Leads.of_reach hr2 ?_
      obtain ⟨s3, hr3, he3⟩ := lazybranch_back (T := (a : Int) :: (T ++ [v'])) (by simpa using hfl) hlb ⟨_, hfj.fetch⟩
      refine Leads.of_reach hr3 ?_
      have he3' : Entry X (a + 3 + sz + 1) i ([(a : Int)] ++ (T ++ [v'])) ((C.length : Int) :: ((T ++ [v']).length : Int) :: S) C s3 := by
        simpa using he3
      have := forejump_leads (setjump_frame hsj) (by simp) he3' hfj hend
      simpa using this
    · intro s'' v'' hf''
      exact Delivers.fail (v := v'') (forejump_back (ext := []) (by simpa using hf'') hfj)
  | cons r rs' =>
    obtain ⟨F, hF, ⟨s2, hr2, v', he2⟩, _⟩ := hb
    obtain ⟨ext, hx⟩ := hext r (by simp)
    refine Delivers.fail (v := v') (Leads.of_reach hr2 (Leads.here ?_))
    have hFr : Framed X.p (F ++ ([((a + 1 : Nat) : Int), (i : Int)] ++ [(a : Int)])) :=
      hF.append ((lazybranch_frame hlb _).append (setjump_frame hsj))
    have he2' : Entry X (a + 3 + sz) r.pos ((F ++ ([((a + 1 : Nat) : Int), (i : Int)] ++ [(a : Int)])) ++ (T ++ [v']))
        ((C.length : Int) :: ((T ++ [v']).length : Int) :: S) (C ++ ext) s2 := by
      rw [← hx]; simpa using he2
    exact backjump_fails hFr (by simp) he2' hbj

end nodes

end RegexVerif.Compile
